import PtnModel.Proofs.OrthoLocal
/-!
# The left-to-right QR sweep of `orthonormalize`

* `SweepLeft dqr qd A qL rest qRs As qs T` : inductive description of a successful run of `MPS.sweepLeftQr`
  (a chain of local steps `LocalLeft`), `sweepLeft_of_run`;
* `sweepLeft_ok`      : on a well-formed chain whose last bond has dimension one the sweep raises no exception;
* `SweepLeft.wf`      : the new chain is well-formed, the trailing factor `T` has shape `(1, D', 1)`, bond bounds;
* `SweepLeft.dense`   : `∏ A_k[σ_k] = (∏ A'_k[σ_k]) · T` (product clause);
* `SweepLeft.iso`     : every new tensor is a left isometry (isometry clause).
-/
set_option linter.unusedSectionVars false
namespace Ptn.Ortho
open Ptn.BondOps Finset Ptn.Env
variable {𝕜 : Type} [CommRing 𝕜] [DecidableEq 𝕜]
variable {dqr : Mat 𝕜 → Mat 𝕜 × Mat 𝕜}

/-- a dummy tensor `[[[1]]]` (on in-range indices) -/
def IsOne (X : T3 𝕜) : Prop := X.d0 = 1 ∧ X.d1 = 1 ∧ X.d2 = 1 ∧ X.f 0 0 0 = 1

inductive SweepLeft (dqr : Mat 𝕜 → Mat 𝕜 × Mat 𝕜) (qd : List Int) :
    T3 𝕜 → List Int → List (T3 𝕜) → List (List Int) → List (T3 𝕜) → List (List Int) → T3 𝕜 → Prop
  | last {A X : T3 𝕜} {qL qR : List Int} {A' T : T3 𝕜} {qb : List Int} :
      IsOne X → LocalLeft dqr A X qd qL qR A' T qb → SweepLeft dqr qd A qL [] [qR] [A'] [qb] T
  | cons {A Anext : T3 𝕜} {qL qR : List Int} {rest : List (T3 𝕜)} {qRest : List (List Int)}
      {A' Anext' : T3 𝕜} {qb : List Int} {As : List (T3 𝕜)} {qs : List (List Int)} {T : T3 𝕜} :
      LocalLeft dqr A Anext qd qL qR A' Anext' qb → SweepLeft dqr qd Anext' qb rest qRest As qs T →
      SweepLeft dqr qd A qL (Anext :: rest) (qR :: qRest) (A' :: As) (qb :: qs) T

theorem sweepLeft_of_run {qd : List Int} : ∀ {rest : List (T3 𝕜)} {A : T3 𝕜} {qL : List Int} {qRs : List (List Int)}
    {As : List (T3 𝕜)} {qs : List (List Int)} {T : T3 𝕜},
    MPS.sweepLeftQr dqr qd A qL rest qRs = .ok (As, qs, T) → SweepLeft dqr qd A qL rest qRs As qs T
  | [], A, qL, [], _, _, _, h => by simp [MPS.sweepLeftQr] at h
  | [], A, qL, [qR], As, qs, T, h => by
    rw [MPS.sweepLeftQr] at h
    cases hl : MPS.localOrthoLeftQr dqr A MPS.ones111 qd qL qR with
    | error e => rw [hl] at h; cases h
    | ok r =>
      obtain ⟨A', T', qb⟩ := r
      rw [hl] at h
      injection h with h
      injection h with h1 h
      injection h with h2 h3
      subst h1 h2 h3
      exact SweepLeft.last ⟨rfl, rfl, rfl, rfl⟩ (localLeft_of_run hl)
  | [], A, qL, _ :: _ :: _, _, _, _, h => by simp [MPS.sweepLeftQr] at h
  | Anext :: rest, A, qL, [], _, _, _, h => by simp [MPS.sweepLeftQr] at h
  | Anext :: rest, A, qL, qR :: qRest, As, qs, T, h => by
    rw [MPS.sweepLeftQr] at h
    cases hl : MPS.localOrthoLeftQr dqr A Anext qd qL qR with
    | error e => rw [hl] at h; cases h
    | ok r =>
      obtain ⟨A', Anext', qb⟩ := r
      rw [hl] at h
      cases hs : MPS.sweepLeftQr dqr qd Anext' qb rest qRest with
      | error e => simp only [bind, Except.bind, hs] at h; cases h
      | ok r' =>
        obtain ⟨As', qs', T'⟩ := r'
        simp only [bind, Except.bind, hs] at h
        injection h with h
        injection h with h1 h
        injection h with h2 h3
        subst h1 h2 h3
        exact SweepLeft.cons (localLeft_of_run hl) (sweepLeft_of_run hs)

/-- bond bounds of a sweep: new charge lists `qs'`, old ones `qs`, previous new bond dimension `Dl` -/
def BondLe (d : Nat) : Nat → List (List Int) → List (List Int) → Prop
  | _, [], [] => True
  | Dl, q' :: qs', q :: qs => 0 < q'.length ∧ q'.length ≤ min (d * Dl) q.length ∧ BondLe d q'.length qs' qs
  | _, _, _ => False

/-- last bond of the new chain is bounded by the last bond of the old chain -/
theorem bondLe_last {d : Nat} : ∀ {Dl : Nat} {qs' qs : List (List Int)} (x y : List Int), BondLe d Dl qs' qs →
    qs ≠ [] → ((x :: qs').getLast?.getD []).length ≤ ((y :: qs).getLast?.getD []).length
  | _, [], [], _, _, _, h => absurd rfl h
  | _, [], _ :: _, _, _, h, _ => by simp [BondLe] at h
  | _, _ :: _, [], _, _, h, _ => by simp [BondLe] at h
  | _, [q'], [q], _, _, h, _ => by
    simp only [BondLe] at h
    simp only [List.getLast?_cons_cons, List.getLast?_singleton, Option.getD_some]
    omega
  | _, [q'], _ :: _ :: _, _, _, h, _ => by simp [BondLe] at h
  | _, _ :: _ :: _, [q], _, _, h, _ => by simp [BondLe] at h
  | _, q' :: q2' :: qs', q :: q2 :: qs, x, y, h, _ => by
    simp only [BondLe] at h
    rw [List.getLast?_cons_cons, List.getLast?_cons_cons (a := y)]
    exact bondLe_last q' q (by simp only [BondLe]; exact h.2.2) (by simp)

/-- no exception on a well-formed chain whose last bond has dimension one -/
theorem sweepLeft_ok (hshape : ∀ B, ShapeAt dqr B) {qd : List Int} (hd : 0 < qd.length) :
    ∀ {rest : List (T3 𝕜)} {A : T3 𝕜} {qL : List Int} {qRs : List (List Int)}, 0 < qL.length →
    WfChain qd qL (A :: rest) qRs → ((qL :: qRs).getLast?.getD []).length = 1 →
    ∃ As qs T, MPS.sweepLeftQr dqr qd A qL rest qRs = .ok (As, qs, T)
  | [], A, qL, [], _, h, _ => by simp at h
  | [], A, qL, [qR], hL, h, h1 => by
    simp only [wfChain_cons] at h
    have h1' : qR.length = 1 := by simpa using h1
    obtain ⟨A', T, qb, hl⟩ := localLeft_ok (Anext := MPS.ones111) hshape h.1 hd hL h.2.1 h1'.symm
    exact ⟨[A'], [qb], T, by rw [MPS.sweepLeftQr, hl]; rfl⟩
  | [], A, qL, _ :: _ :: _, _, h, _ => by simp at h
  | Anext :: rest, A, qL, [], _, h, _ => by simp at h
  | Anext :: rest, A, qL, [qR], _, h, _ => by simp at h
  | Anext :: rest, A, qL, qR :: qR' :: qRest, hL, h, h1 => by
    simp only [wfChain_cons] at h
    obtain ⟨hA, hR, hN, hR', hrest⟩ := h
    obtain ⟨A', Anext', qb, hl⟩ := localLeft_ok (Anext := Anext) hshape hA hd hL hR hN.d1
    have hloc := localLeft_of_run hl
    have hdims := hloc.dims hshape hA hd hL hR
    have hN' := hloc.wfNext hshape hA hd hL hR hN
    have h1' : ((qb :: qR' :: qRest).getLast?.getD []).length = 1 := by
      rw [List.getLast?_cons_cons] at h1 ⊢
      rw [List.getLast?_cons_cons] at h1
      exact h1
    obtain ⟨As, qs, T, hs⟩ := sweepLeft_ok hshape hd (rest := rest) (A := Anext') (qL := qb) (qRs := qR' :: qRest)
      hdims.pos (by simp only [wfChain_cons]; exact ⟨hN', hR', hrest⟩) h1'
    exact ⟨A' :: As, qb :: qs, T, by rw [MPS.sweepLeftQr, hl]; simp only [bind, Except.bind, hs]; rfl⟩

/-- replacing a neighbouring pair `(X, Y)` by `(X', Y')` with the same two-site product does not change
`X[s] · (Y[s'] · P)` -/
theorem pmat_pair {X X' Y Y' : T3 𝕜} {rest : List (T3 𝕜)} {s a s' : Nat} {σ : List Nat} {c n n' : Nat}
    (hd2 : Y'.d2 = Y.d2)
    (h : ∀ y, y < Y.d2 → ∑ x ∈ range n', X'.f s a x * Y'.f s' x y = ∑ x ∈ range n, X.f s a x * Y.f s' x y) :
    ∑ x ∈ range n', X'.f s a x * pmat (Y' :: rest) (s' :: σ) x c =
      ∑ x ∈ range n, X.f s a x * pmat (Y :: rest) (s' :: σ) x c := by
  simp only [pmat_cons, Finset.mul_sum, hd2]
  rw [Finset.sum_comm, Finset.sum_comm (s := range n)]
  refine Finset.sum_congr rfl fun y hy => ?_
  have := h y (Finset.mem_range.1 hy)
  simp only [← mul_assoc, ← Finset.sum_mul]
  rw [this]

section props
variable {qd : List Int} {A : T3 𝕜} {qL : List Int} {rest : List (T3 𝕜)} {qRs : List (List Int)}
  {As : List (T3 𝕜)} {qs : List (List Int)} {T : T3 𝕜}

/-- well-formedness of the output, shape of the trailing factor and the bond bounds (shape clause only) -/
theorem SweepLeft.wf (h : SweepLeft dqr qd A qL rest qRs As qs T) (hshape : ∀ B, ShapeAt dqr B)
    (hd : 0 < qd.length) (hL : 0 < qL.length) (hw : WfChain qd qL (A :: rest) qRs) :
    WfChain qd qL As qs ∧ As.length = rest.length + 1 ∧ T.d0 = 1 ∧ T.d2 = 1 ∧
      T.d1 = ((qL :: qs).getLast?.getD []).length ∧ BondLe qd.length qL.length qs qRs := by
  induction h with
  | @last A X qL qR A' T qb hX hloc =>
    simp only [wfChain_cons, wfChain_nil, and_true] at hw
    have hdims := hloc.dims hshape hw.1 hd hL hw.2
    refine ⟨by simp only [wfChain_cons, wfChain_nil, and_true]; exact ⟨hdims.wfA, hdims.pos⟩, rfl,
      hdims.d0.trans hX.1, hdims.d2.trans hX.2.2.1, by simpa using hdims.d1, ?_⟩
    exact ⟨hdims.pos, hdims.le, trivial⟩
  | @cons A Anext qL qR rest qRest A' Anext' qb As qs T hloc hsw ih =>
    cases qRest with
    | nil => simp at hw
    | cons qR' qRest =>
      simp only [wfChain_cons] at hw
      obtain ⟨hA, hR, hN, hR', hrest⟩ := hw
      have hdims := hloc.dims hshape hA hd hL hR
      have hN' := hloc.wfNext hshape hA hd hL hR hN
      obtain ⟨i1, i2, i3, i4, i5, i6⟩ := ih hdims.pos (by simp only [wfChain_cons]; exact ⟨hN', hR', hrest⟩)
      refine ⟨by simp only [wfChain_cons]; exact ⟨hdims.wfA, hdims.pos, i1⟩, by simp [i2], i3, i4, ?_, ?_⟩
      · rw [List.getLast?_cons_cons]; exact i5
      · exact ⟨hdims.pos, hdims.le, i6⟩

/-- the dense meaning is unchanged: `∏ A_k[σ_k] = (∏ A'_k[σ_k]) · T` -/
theorem SweepLeft.dense (h : SweepLeft dqr qd A qL rest qRs As qs T) (hshape : ∀ B, ShapeAt dqr B)
    (hprod : ∀ B, ProdAt dqr B)
    (hd : 0 < qd.length) (hL : 0 < qL.length) (hw : WfChain qd qL (A :: rest) qRs)
    {σ : List Nat} (hσ : σ ∈ digits (List.replicate (rest.length + 1) qd.length)) {a : Nat} (ha : a < qL.length) :
    pmat (A :: rest) σ a 0 = ∑ p ∈ range T.d1, pmat As σ a p * T.f 0 p 0 := by
  induction h generalizing σ a with
  | @last A X qL qR A' T qb hX hloc =>
    simp only [wfChain_cons, wfChain_nil, and_true] at hw
    have hdims := hloc.dims hshape hw.1 hd hL hw.2
    obtain ⟨s, t, hs, ht, rfl⟩ := mem_digits_cons.1 hσ
    simp only [List.length_nil, List.replicate_zero, digits_nil, Finset.mem_singleton] at ht
    subst ht
    have hA2 : A.d2 = 1 := hdims.dn.trans hX.2.1
    have hp := hloc.prod hshape hprod hw.1 hd hL hw.2 (s := s) (a := a) (s' := 0) (c := 0)
      (by rw [hw.1.d0]; exact hs) (by rw [hw.1.d1]; exact ha) (by rw [hX.1]; exact Nat.one_pos)
      (by rw [hX.2.2.1]; exact Nat.one_pos)
    simp only [pmat_cons, pmat_nil]
    rw [hA2] at hp ⊢
    rw [Finset.sum_range_one] at hp ⊢
    rw [hX.2.2.2, mul_one] at hp
    rw [if_pos rfl, mul_one, ← hp, hdims.d1]
    refine Finset.sum_congr rfl fun p hp' => ?_
    rw [hdims.wfA.d2, sum_ite_eq_of_lt (Finset.mem_range.1 hp')]
  | @cons A Anext qL qR rest qRest A' Anext' qb As qs T hloc hsw ih =>
    cases qRest with
    | nil => simp at hw
    | cons qR' qRest =>
      simp only [wfChain_cons] at hw
      obtain ⟨hA, hR, hN, hR', hrest⟩ := hw
      have hdims := hloc.dims hshape hA hd hL hR
      have hN' := hloc.wfNext hshape hA hd hL hR hN
      obtain ⟨s, σ', hs, hσ', rfl⟩ := mem_digits_cons.1 hσ
      have ih' := fun x (hx : x < qb.length) =>
        ih hdims.pos (by simp only [wfChain_cons]; exact ⟨hN', hR', hrest⟩) hσ' hx
      obtain ⟨s', σ'', hs', hσ'', rfl⟩ := mem_digits_cons.1 hσ'
      rw [pmat_cons]
      have e : ∑ p ∈ range T.d1, pmat (A' :: As) (s :: s' :: σ'') a p * T.f 0 p 0 =
          ∑ x ∈ range qb.length, A'.f s a x * pmat (Anext' :: rest) (s' :: σ'') x 0 := by
        simp only [pmat_cons (A := A'), Finset.sum_mul]
        rw [Finset.sum_comm, hdims.wfA.d2]
        refine Finset.sum_congr rfl fun x hx => ?_
        rw [ih' x (Finset.mem_range.1 hx), Finset.mul_sum]
        refine Finset.sum_congr rfl fun p _ => ?_
        rw [mul_assoc]
      rw [e]
      symm
      refine pmat_pair hdims.d2 ?_
      intro y hy
      exact hloc.prod hshape hprod hA hd hL hR (by rw [hA.d0]; exact hs) (by rw [hA.d1]; exact ha)
        (by rw [hN.d0]; exact hs') hy


/-- every tensor of the new chain is a left isometry -/
theorem SweepLeft.iso [StarRing 𝕜] (h : SweepLeft dqr qd A qL rest qRs As qs T) (hshape : ∀ B, ShapeAt dqr B)
    (hiso : ∀ B, IsoAt dqr B)
    (hd : 0 < qd.length) (hL : 0 < qL.length) (hw : WfChain qd qL (A :: rest) qRs) :
    ∀ B ∈ As, LeftIso B := by
  induction h with
  | @last A X qL qR A' T qb hX hloc =>
    simp only [wfChain_cons, wfChain_nil, and_true] at hw
    intro B hB
    rw [List.mem_singleton] at hB
    subst hB
    exact hloc.iso hshape hiso hw.1 hd hL hw.2
  | @cons A Anext qL qR rest qRest A' Anext' qb As qs T hloc hsw ih =>
    cases qRest with
    | nil => simp at hw
    | cons qR' qRest =>
      simp only [wfChain_cons] at hw
      obtain ⟨hA, hR, hN, hR', hrest⟩ := hw
      have hdims := hloc.dims hshape hA hd hL hR
      have hN' := hloc.wfNext hshape hA hd hL hR hN
      intro B hB
      rcases List.mem_cons.1 hB with rfl | hB
      · exact hloc.iso hshape hiso hA hd hL hR
      · exact ih hdims.pos (by simp only [wfChain_cons]; exact ⟨hN', hR', hrest⟩) B hB


/-- the trailing factor is `1 × 1 × 1` when the last bond of the input has dimension one -/
theorem SweepLeft.dims_one (h : SweepLeft dqr qd A qL rest qRs As qs T) (hshape : ∀ B, ShapeAt dqr B)
    (hd : 0 < qd.length) (hL : 0 < qL.length) (hw : WfChain qd qL (A :: rest) qRs)
    (hl : ((qL :: qRs).getLast?.getD []).length = 1) : T.d0 = 1 ∧ T.d1 = 1 ∧ T.d2 = 1 := by
  obtain ⟨hw', -, w3, w4, w5, w6⟩ := h.wf hshape hd hL hw
  have hqne : qRs ≠ [] := by
    intro h; subst h; simp at hw
  have hle := bondLe_last qL qL w6 hqne
  rw [hl, ← w5] at hle
  have hpos : 0 < T.d1 := by
    rw [w5]
    cases hqs : qs with
    | nil => simp only [List.getLast?_singleton, Option.getD_some]; exact hL
    | cons q qs' =>
      have hall := ((forall₂_iff_wfChain qd As qL qs).2 hw').2.2
      have : (qL :: qs).getLast?.getD [] ∈ qs := by
        rw [hqs, List.getLast?_cons_cons]
        have := List.getLast?_eq_some_getLast (l := q :: qs') (by simp)
        rw [this]
        exact List.getLast_mem _
      rw [← hqs]
      exact hall _ this
  exact ⟨w3, by omega, w4⟩

end props

end Ptn.Ortho

import PtnModel.Proofs.HistOrtho
import PtnModel.Proofs.SvdMain
/-!
# C02: what a successful `split_matrix_svd` returns, and the local SVD steps of `MPS.compress`

`split_facts`: whenever `split_matrix_svd` returns `(u, s, v, q)` with `q ≠ []` (no collapsed bond), for every kernel
satisfying only the shape clause: `u` is `m × K`, `v` is `K × n` with `K = len q = len s`.
(If the truncation removes every singular value the next call sees a matrix without rows, takes the dummy branch
and returns `u` of shape `(0, 1)` with `q = q0[:1] = []`: that is the excluded case.)
-/
set_option linter.unusedSectionVars false
namespace Ptn.HistWf
open Ptn.Hist Ptn.Ortho Ptn.BondOps Ptn.Dense
variable {𝕜 : Type} [CommRing 𝕜] [DecidableEq 𝕜]
variable {ρ : Type} [Field ρ] [LinearOrder ρ] [IsStrictOrderedRing ρ]
variable {dsvd : Mat 𝕜 → Mat 𝕜 × List ρ × Mat 𝕜} {dnorm : List ρ → ρ} {dargsort : List ρ → List Nat} {tol : ρ}
variable {A u v : Mat 𝕜} {s : List ρ} {q0 q1 q : List Int}

theorem split_asserts {r : Mat 𝕜 × List ρ × Mat 𝕜 × List Int}
    (h : splitMatrixSvd dsvd dnorm dargsort A q0 q1 tol = .ok r) :
    q0.length = A.m ∧ q1.length = A.n ∧ QN.isSparseMat A q0 q1 = true := by
  unfold splitMatrixSvd at h
  simp only [pyAssert_bind] at h
  exact ⟨by simpa using h.1, by simpa using h.2.1, h.2.2.1⟩

theorem split_empty_cases (dsvd : Mat 𝕜 → Mat 𝕜 × List ρ × Mat 𝕜) (dnorm : List ρ → ρ) (dargsort : List ρ → List Nat)
    (tol : ρ) (hq0 : q0.length = A.m) (hq1 : q1.length = A.n)
    (hsp : QN.isSparseMat A q0 q1 = true) (he : (intersect1d q0 q1).isEmpty = true) :
    splitMatrixSvd dsvd dnorm dargsort A q0 q1 tol =
      if (A.all fun x => decide (x = 0)) = true then
        .ok (⟨A.m, 1, fun i _ => if i = 0 then 1 else 0⟩, [0], Mat.zero 1 A.n, q0.take 1)
      else .error .assertion := by
  unfold splitMatrixSvd
  simp only [hq0, hq1, hsp, he, beq_self_eq_true, pyAssert, if_true, bind, Except.bind, pure, Except.pure]
  by_cases hz : (A.all fun x => decide (x = 0)) = true
  · simp [hz]
  · simp [hz]

structure SplitFacts (A : Mat 𝕜) (q0 q1 : List Int) (u : Mat 𝕜) (s : List ρ) (v : Mat 𝕜) (q : List Int) : Prop where
  hq0 : q0.length = A.m
  hq1 : q1.length = A.n
  um : u.m = A.m
  un : u.n = q.length
  vm : v.m = q.length
  vn : v.n = A.n
  sl : s.length = q.length
  sparseU : Sparse u q0 q
  sparseV : Sparse v q q1

/-- case analysis on a successful run: the dummy branch taken for lack of a shared charge (possibly on a matrix
without rows), or `SplitFacts` (regular branch, or the dummy branch taken for a zero matrix with shared charges) -/
theorem split_cases (hshape : ∀ B, SvdShapeAt dsvd B)
    (hrun : splitMatrixSvd dsvd dnorm dargsort A q0 q1 tol = .ok (u, s, v, q)) :
    (q0.length = A.m ∧ q1.length = A.n ∧ u = ⟨A.m, 1, fun i _ => if i = 0 then 1 else 0⟩ ∧ s = [0] ∧
      v = Mat.zero 1 A.n ∧ q = q0.take 1) ∨ SplitFacts A q0 q1 u s v q := by
  obtain ⟨hq0, hq1, hsp⟩ := split_asserts hrun
  by_cases he : (intersect1d q0 q1).isEmpty = true
  · rw [split_empty_cases dsvd dnorm dargsort tol hq0 hq1 hsp he] at hrun
    split at hrun
    · injection hrun with hrun
      injection hrun with h1 hrun
      injection hrun with h2 hrun
      injection hrun with h3 h4
      exact Or.inl ⟨hq0, hq1, h1.symm, h2.symm, h3.symm, h4.symm⟩
    · cases hrun
  · have hne : intersect1d q0 q1 ≠ [] := by
      intro h0
      apply he
      rw [h0]; rfl
    obtain ⟨c, hc⟩ := List.exists_mem_of_ne_nil _ hne
    obtain ⟨hc0, hc1⟩ := mem_intersect1d.1 hc
    have hm : 0 < A.m := by rw [← hq0]; exact List.length_pos_of_mem hc0
    have hn : 0 < A.n := by rw [← hq1]; exact List.length_pos_of_mem hc1
    have H : QRInput A q0 q1 := ⟨hq0, hq1, hm, hn, (isSparseMat_iff A q0 q1).1 hsp⟩
    have hres := result_of_split dnorm dargsort tol (fun B _ => hshape B) H hrun
    exact Or.inr ⟨hq0, hq1, hres.um, hres.un.trans hres.ql.symm, hres.vm.trans hres.ql.symm, hres.vn, hres.ql.symm,
      hres.sparseU, hres.sparseV⟩

theorem split_facts (hshape : ∀ B, SvdShapeAt dsvd B)
    (hrun : splitMatrixSvd dsvd dnorm dargsort A q0 q1 tol = .ok (u, s, v, q)) (hq : q ≠ []) :
    SplitFacts A q0 q1 u s v q := by
  rcases split_cases hshape hrun with ⟨hq0, hq1, rfl, rfl, rfl, rfl⟩ | hf
  · have hl : (q0.take 1).length = 1 := by
      cases q0 with
      | nil => exact absurd rfl hq
      | cons x xs => simp
    refine ⟨hq0, hq1, rfl, hl.symm, hl.symm, rfl, hl.symm, ?_, ?_⟩
    · intro i p _ hp hne
      have hp0 : p = 0 := by
        have : p < 1 := hp
        omega
      subst hp0
      by_cases hi : i = 0
      · subst hi; rw [take_one_getD]
      · exact absurd (if_neg hi) hne
    · intro p j _ _ hne
      exact absurd rfl hne
  · exact hf

/-- the same when the row charge list is non-empty (then the dummy branch returns one charge) -/
theorem split_facts_of_rows (hshape : ∀ B, SvdShapeAt dsvd B)
    (hrun : splitMatrixSvd dsvd dnorm dargsort A q0 q1 tol = .ok (u, s, v, q)) (hq0 : q0 ≠ []) :
    SplitFacts A q0 q1 u s v q := by
  rcases split_cases hshape hrun with ⟨-, -, -, -, -, hq⟩ | hf
  · refine split_facts hshape hrun ?_
    rw [hq]
    cases q0 with
    | nil => exact absurd rfl hq0
    | cons x xs => simp
  · exact hf

/-! ## local SVD steps: dimensions -/

variable [RealLike ρ 𝕜]
variable {k : MPS.SvdKernels 𝕜 ρ}

structure LocalDimsL (A Anext A' Anext' : T3 𝕜) (qb : List Int) : Prop where
  a0 : A'.d0 = A.d0
  a1 : A'.d1 = A.d1
  a2 : A'.d2 = qb.length
  n0 : Anext'.d0 = Anext.d0
  n1 : Anext'.d1 = qb.length
  n2 : Anext'.d2 = Anext.d2

theorem localLeftSvd_dims {A Anext A' Anext' : T3 𝕜} {qd qD0 qD1 qb : List Int}
    (hshape : ∀ B, SvdShapeAt k.dsvd B)
    (h : MPS.localOrthoLeftSvd k A Anext qd qD0 qD1 tol = .ok (A', Anext', qb)) (hq : qb ≠ []) :
    LocalDimsL A Anext A' Anext' qb := by
  unfold MPS.localOrthoLeftSvd at h
  simp only [bind_ok] at h
  obtain ⟨⟨U, sigma, V, qb'⟩, hrun, h⟩ := h
  dsimp only at h
  split at h
  · simp [throw_map_ne] at h
  · simp only [pure_ok, Prod.mk.injEq] at h
    obtain ⟨rfl, rfl, rfl⟩ := h
    have hf := split_facts hshape hrun hq
    exact ⟨rfl, rfl, hf.un, rfl, hf.vm, rfl⟩

structure LocalDimsR (A Aprev A' Aprev' : T3 𝕜) (qb : List Int) : Prop where
  a0 : A'.d0 = A.d0
  a1 : A'.d1 = qb.length
  a2 : A'.d2 = A.d2
  p0 : Aprev'.d0 = Aprev.d0
  p1 : Aprev'.d1 = Aprev.d1
  p2 : Aprev'.d2 = qb.length

theorem localRightSvd_dims {A Aprev A' Aprev' : T3 𝕜} {qd qD0 qD1 qb : List Int}
    (hshape : ∀ B, SvdShapeAt k.dsvd B)
    (h : MPS.localOrthoRightSvd k A Aprev qd qD0 qD1 tol = .ok (A', Aprev', qb)) (hq : qb ≠ []) :
    LocalDimsR A Aprev A' Aprev' qb := by
  unfold MPS.localOrthoRightSvd at h
  simp only [bind_ok] at h
  obtain ⟨⟨U, sigma, V, qb'⟩, hrun, h⟩ := h
  dsimp only at h
  split at h
  · simp [throw_map_ne] at h
  · simp only [pure_ok, Prod.mk.injEq] at h
    obtain ⟨rfl, rfl, rfl⟩ := h
    have hf := split_facts hshape hrun hq
    exact ⟨rfl, hf.vm, rfl, rfl, rfl, hf.un⟩

/-- dimensions of a local right step when the (old) left bond charge list is non-empty: also valid when the
truncation keeps nothing -/
theorem localRightSvd_dims' {A Aprev A' Aprev' : T3 𝕜} {qd qD0 qD1 qb : List Int}
    (hshape : ∀ B, SvdShapeAt k.dsvd B)
    (h : MPS.localOrthoRightSvd k A Aprev qd qD0 qD1 tol = .ok (A', Aprev', qb)) (hq : qD0 ≠ []) :
    LocalDimsR A Aprev A' Aprev' qb := by
  unfold MPS.localOrthoRightSvd at h
  simp only [bind_ok] at h
  obtain ⟨⟨U, sigma, V, qb'⟩, hrun, h⟩ := h
  dsimp only at h
  split at h
  · simp [throw_map_ne] at h
  · simp only [pure_ok, Prod.mk.injEq] at h
    obtain ⟨rfl, rfl, rfl⟩ := h
    have hf := split_facts_of_rows hshape hrun hq
    exact ⟨rfl, hf.vm, rfl, rfl, rfl, hf.un⟩

end Ptn.HistWf

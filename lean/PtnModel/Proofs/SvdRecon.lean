import Mathlib.Tactic.Ring
import Mathlib.Algebra.Star.BigOperators
import PtnModel.Proofs.SvdMain
/-!
# Block SVD split: reconstruction and truncation error

* `tripleF ι u s v i j`   : entry `(i, j)` of `u · diag(ι s) · v`;
* `residual_nonempty`     : `A - u·diag(s)·v = Σ_{p discarded} U[:, p] s_p V[p, :]` (entry-wise);
* `reconstruct'`          : if all discarded singular values vanish, `u·diag(s)·v = A`;
* `error_identity'`       : `Σ_{i,j} |A - u·diag(s)·v|² = Σ_{p discarded} s_p²`.
-/
set_option linter.unusedSectionVars false

namespace Ptn.BondOps
open Finset

variable {𝕜 : Type} [CommRing 𝕜] [DecidableEq 𝕜]
variable {ρ : Type} [Field ρ] [LinearOrder ρ] [IsStrictOrderedRing ρ]

/-- entry `(i, j)` of `u · diag(ι s) · v` -/
def tripleF (ι : ρ →+* 𝕜) (u : Mat 𝕜) (s : List ρ) (v : Mat 𝕜) (i j : Nat) : 𝕜 :=
  ∑ t ∈ range u.n, u.f i t * ι (s.getD t 0) * v.f t j

/-! ### generic Gram / Frobenius identities -/

section gram
variable [StarRing 𝕜]

/-- if the columns `U[:, p]`, `p < D`, are orthonormal then `‖U w‖² = ‖w‖²` -/
theorem gram_sum (m D : Nat) (U : Nat → Nat → 𝕜) (w : Nat → 𝕜)
    (hU : ∀ p p', p < D → p' < D → ∑ i ∈ range m, star (U i p) * U i p' = if p = p' then 1 else 0) :
    ∑ i ∈ range m, star (∑ p ∈ range D, U i p * w p) * (∑ p ∈ range D, U i p * w p) =
      ∑ p ∈ range D, star (w p) * w p := by
  have h1 : ∀ i, star (∑ p ∈ range D, U i p * w p) * (∑ p ∈ range D, U i p * w p) =
      ∑ p ∈ range D, ∑ p' ∈ range D, (star (w p) * w p') * (star (U i p) * U i p') := by
    intro i
    rw [star_sum, sum_mul_sum]
    apply sum_congr rfl; intro p _
    apply sum_congr rfl; intro p' _
    rw [star_mul']; ring
  simp only [h1]
  rw [sum_comm]
  apply sum_congr rfl; intro p hp
  rw [sum_comm]
  have h2 : ∀ p' ∈ range D, ∑ i ∈ range m, (star (w p) * w p') * (star (U i p) * U i p') =
      (star (w p) * w p') * (if p = p' then 1 else 0) := by
    intro p' hp'
    rw [← mul_sum, hU p p' (mem_range.1 hp) (mem_range.1 hp')]
  rw [sum_congr rfl h2, sum_eq_single p]
  · simp
  · intro b _ hb; simp [Ne.symm hb]
  · intro h; exact absurd hp h

/-- Frobenius norm of `U · diag(c) · V` for orthonormal columns of `U`, orthonormal rows of `V`, real `c` -/
theorem frob_orth (m n D : Nat) (U V : Nat → Nat → 𝕜) (c : Nat → 𝕜) (hc : ∀ p, star (c p) = c p)
    (hU : ∀ p p', p < D → p' < D → ∑ i ∈ range m, star (U i p) * U i p' = if p = p' then 1 else 0)
    (hV : ∀ p, p < D → ∑ j ∈ range n, V p j * star (V p j) = 1) :
    ∑ i ∈ range m, ∑ j ∈ range n,
        star (∑ p ∈ range D, U i p * c p * V p j) * (∑ p ∈ range D, U i p * c p * V p j) =
      ∑ p ∈ range D, c p * c p := by
  rw [sum_comm]
  have h1 : ∀ j ∈ range n, ∑ i ∈ range m,
      star (∑ p ∈ range D, U i p * c p * V p j) * (∑ p ∈ range D, U i p * c p * V p j) =
      ∑ p ∈ range D, star (c p * V p j) * (c p * V p j) := by
    intro j _
    have := gram_sum m D U (fun p => c p * V p j) hU
    simp only [mul_assoc] at this ⊢
    exact this
  rw [sum_congr rfl h1, sum_comm]
  apply sum_congr rfl; intro p hp
  have h2 : ∀ j ∈ range n, star (c p * V p j) * (c p * V p j) = (c p * c p) * (V p j * star (V p j)) := by
    intro j _
    rw [star_mul', hc p]; ring
  rw [sum_congr rfl h2, ← mul_sum, hV p (mem_range.1 hp), mul_one]

/-- `(Uᴴ · (U diag(c) V) · Vᴴ)[p₀, p₀] = c p₀` for orthonormal columns of `U` and orthonormal rows of `V` -/
theorem diag_extract (m n D : Nat) (U V : Nat → Nat → 𝕜) (c : Nat → 𝕜)
    (hU : ∀ p p', p < D → p' < D → ∑ i ∈ range m, star (U i p) * U i p' = if p = p' then 1 else 0)
    (hV : ∀ p p', p < D → p' < D → ∑ j ∈ range n, V p j * star (V p' j) = if p = p' then 1 else 0)
    {p0 : Nat} (hp0 : p0 < D) :
    ∑ i ∈ range m, ∑ j ∈ range n, star (U i p0) * (∑ p ∈ range D, U i p * c p * V p j) * star (V p0 j) = c p0 := by
  have h1 : ∀ i j, star (U i p0) * (∑ p ∈ range D, U i p * c p * V p j) * star (V p0 j) =
      ∑ p ∈ range D, c p * (star (U i p0) * U i p) * (V p j * star (V p0 j)) := by
    intro i j
    rw [mul_sum, sum_mul]
    apply sum_congr rfl; intro p _; ring
  simp only [h1]
  have h2 : ∀ i ∈ range m, ∑ j ∈ range n, ∑ p ∈ range D, c p * (star (U i p0) * U i p) * (V p j * star (V p0 j)) =
      c p0 * (star (U i p0) * U i p0) := by
    intro i _
    rw [sum_comm]
    have h3 : ∀ p ∈ range D, ∑ j ∈ range n, c p * (star (U i p0) * U i p) * (V p j * star (V p0 j)) =
        if p = p0 then c p0 * (star (U i p0) * U i p0) else 0 := by
      intro p hp
      rw [← mul_sum, hV p p0 (mem_range.1 hp) hp0]
      by_cases h : p = p0
      · subst h; simp
      · simp [h]
    rw [sum_congr rfl h3, sum_eq_single p0]
    · simp
    · intro b _ hb; simp [hb]
    · intro h; exact absurd (mem_range.2 hp0) h
  rw [sum_congr rfl h2, ← mul_sum, hU p0 p0 hp0 hp0, if_pos rfl, mul_one]

end gram

/-! ### the run with a shared charge -/

variable {dsvd : Mat 𝕜 → Mat 𝕜 × List ρ × Mat 𝕜} {A : Mat 𝕜} {q0 q1 : List Int}
variable (dnorm : List ρ → ρ) (dargsort : List ρ → List Nat) (tol : ρ)

/-- the untruncated factors of the run, in the original row/column order -/
def fullU (dsvd : Mat 𝕜 → Mat 𝕜 × List ρ × Mat 𝕜) (A : Mat 𝕜) (q0 q1 : List Int) (i p : Nat) : 𝕜 :=
  (svdLoopState dsvd A q0 q1).u.f ((invPerm (stableArgsort q0)).getD i 0) p

def fullV (dsvd : Mat 𝕜 → Mat 𝕜 × List ρ × Mat 𝕜) (A : Mat 𝕜) (q0 q1 : List Int) (p j : Nat) : 𝕜 :=
  (svdLoopState dsvd A q0 q1).v.f p ((invPerm (stableArgsort q1)).getD j 0)

/-- the untruncated factors reproduce `A`: `Σ_{p < D} U[i, p] s_p V[p, j] = A[i, j]` -/
theorem full_expansion (ι : ρ →+* 𝕜) (hshape : SvdShape dsvd A q0 q1) (hprod : SvdProduct ι dsvd A q0 q1)
    (H : QRInput A q0 q1) {i j : Nat} (hi : i < A.m) (hj : j < A.n) :
    ∑ p ∈ range (spectrum dsvd A q0 q1).length,
      fullU dsvd A q0 q1 i p * ι ((spectrum dsvd A q0 q1).getD p 0) * fullV dsvd A q0 q1 p j = A.f i j := by
  have hJ := svdLoopState_prod ι hshape hprod H.hq0 H.hq1
  have hI := svdLoopState_inv hshape H.hq0 H.hq1
  obtain ⟨-, -, sm, sn, -⟩ := srt_spec A q0 q1 H.hq0 H.hq1
  have hp0 := stableArgsort_permInv q0
  rw [H.hq0] at hp0
  have hp1 := stableArgsort_permInv q1
  rw [H.hq1] at hp1
  have := hJ _ _ (by rw [sm]; exact hp0.τ_lt i hi) (by rw [sn]; exact hp1.τ_lt j hj)
  rw [srt_q0_inv H hi, srt_q1_inv H hj, srt_f_inv H hi hj] at this
  rw [spectrum, hI.slen]
  unfold fullU fullV
  rw [this]
  by_cases hz : A.f i j = 0
  · rw [hz, ite_self]
  · have h := H.hsp i j hi hj hz
    have h0 : q0.getD i 0 ∈ q0 := mem_of_getD_eq (by rw [H.hq0]; exact hi) rfl
    have h1 : q0.getD i 0 ∈ q1 := mem_of_getD_eq (by rw [H.hq1]; exact hj) h.symm
    rw [if_pos ⟨mem_intersect1d.2 ⟨h0, h1⟩, h⟩]

/-- `u · diag(s) · v` of the returned factors: the kept part of the expansion -/
theorem triple_out (ι : ρ →+* 𝕜) (hshape : SvdShape dsvd A q0 q1) (H : QRInput A q0 q1)
    {i j : Nat} (hi : i < A.m) (hj : j < A.n) :
    tripleF ι (outU dnorm dargsort dsvd A q0 q1 tol) (outS dnorm dargsort dsvd A q0 q1 tol)
        (outV dnorm dargsort dsvd A q0 q1 tol) i j =
      ∑ p ∈ range (spectrum dsvd A q0 q1).length,
        if p ∈ keptIdx dnorm dargsort dsvd A q0 q1 tol then
          fullU dsvd A q0 q1 i p * ι ((spectrum dsvd A q0 q1).getD p 0) * fullV dsvd A q0 q1 p j else 0 := by
  obtain ⟨U1, U2, U3⟩ := outU_spec dnorm dargsort tol (dsvd := dsvd) H.hq0 H.hq1
  obtain ⟨V1, V2, V3⟩ := outV_spec dnorm dargsort tol (dsvd := dsvd) H.hq0 H.hq1
  obtain ⟨kp, kb⟩ := keptIdx_valid dnorm dargsort tol hshape H
  have hI := svdLoopState_inv hshape H.hq0 H.hq1
  have hnd : (keptIdx dnorm dargsort dsvd A q0 q1 tol).Nodup := kp.imp (fun h => Nat.ne_of_lt h)
  unfold tripleF
  rw [U2]
  have e : ∀ t ∈ range (keptIdx dnorm dargsort dsvd A q0 q1 tol).length,
      (outU dnorm dargsort dsvd A q0 q1 tol).f i t * ι ((outS dnorm dargsort dsvd A q0 q1 tol).getD t 0) *
        (outV dnorm dargsort dsvd A q0 q1 tol).f t j =
      (fun p => fullU dsvd A q0 q1 i p * ι ((spectrum dsvd A q0 q1).getD p 0) * fullV dsvd A q0 q1 p j)
        ((keptIdx dnorm dargsort dsvd A q0 q1 tol).getD t 0) := by
    intro t ht
    have ht' := mem_range.1 ht
    rw [U3 i t hi ht', V3 t j ht' hj, outS, getD_map_idx _ _ _ ht']
    rfl
  rw [sum_congr rfl e, sum_along_idx hnd (D := (spectrum dsvd A q0 q1).length)
    (by intro p hp; rw [spectrum, hI.slen]; exact kb p hp)
    (fun p => fullU dsvd A q0 q1 i p * ι ((spectrum dsvd A q0 q1).getD p 0) * fullV dsvd A q0 q1 p j)]

/-- residual: `A - u·diag(s)·v` is the discarded part of the expansion -/
theorem residual_nonempty (ι : ρ →+* 𝕜) (hshape : SvdShape dsvd A q0 q1) (hprod : SvdProduct ι dsvd A q0 q1)
    (H : QRInput A q0 q1) {i j : Nat} (hi : i < A.m) (hj : j < A.n) :
    A.f i j - tripleF ι (outU dnorm dargsort dsvd A q0 q1 tol) (outS dnorm dargsort dsvd A q0 q1 tol)
        (outV dnorm dargsort dsvd A q0 q1 tol) i j =
      ∑ p ∈ range (spectrum dsvd A q0 q1).length,
        fullU dsvd A q0 q1 i p *
          (if p ∈ keptIdx dnorm dargsort dsvd A q0 q1 tol then 0 else ι ((spectrum dsvd A q0 q1).getD p 0)) *
          fullV dsvd A q0 q1 p j := by
  rw [triple_out dnorm dargsort tol ι hshape H hi hj, ← full_expansion ι hshape hprod H hi hj, ← sum_sub_distrib]
  apply sum_congr rfl
  intro p _
  by_cases hk : p ∈ keptIdx dnorm dargsort dsvd A q0 q1 tol
  · rw [if_pos hk, if_pos hk, sub_self, mul_zero, zero_mul]
  · rw [if_neg hk, if_neg hk, sub_zero]

/-- if all discarded singular values vanish the returned factors reproduce `A` -/
theorem reconstruct_nonempty (ι : ρ →+* 𝕜) (hshape : SvdShape dsvd A q0 q1) (hprod : SvdProduct ι dsvd A q0 q1)
    (H : QRInput A q0 q1)
    (hdisc : ∀ p, p < (spectrum dsvd A q0 q1).length → p ∉ keptIdx dnorm dargsort dsvd A q0 q1 tol →
      (spectrum dsvd A q0 q1).getD p 0 = 0)
    {i j : Nat} (hi : i < A.m) (hj : j < A.n) :
    tripleF ι (outU dnorm dargsort dsvd A q0 q1 tol) (outS dnorm dargsort dsvd A q0 q1 tol)
        (outV dnorm dargsort dsvd A q0 q1 tol) i j = A.f i j := by
  have h := residual_nonempty dnorm dargsort tol ι hshape hprod H hi hj
  have hz : ∑ p ∈ range (spectrum dsvd A q0 q1).length,
        fullU dsvd A q0 q1 i p *
          (if p ∈ keptIdx dnorm dargsort dsvd A q0 q1 tol then 0 else ι ((spectrum dsvd A q0 q1).getD p 0)) *
          fullV dsvd A q0 q1 p j = 0 := by
    apply sum_eq_zero
    intro p hp
    by_cases hk : p ∈ keptIdx dnorm dargsort dsvd A q0 q1 tol
    · rw [if_pos hk, mul_zero, zero_mul]
    · rw [if_neg hk, hdisc p (mem_range.1 hp) hk, map_zero, mul_zero, zero_mul]
  rw [hz, sub_eq_zero] at h
  exact h.symm

section err
variable [StarRing 𝕜]

/-- truncation error: `Σ_{i,j} |A - u·diag(s)·v|² = Σ_{p discarded} s_p²` -/
theorem error_nonempty (ι : ρ →+* 𝕜) (hι : ∀ x, star (ι x) = ι x) (hshape : SvdShape dsvd A q0 q1)
    (hprod : SvdProduct ι dsvd A q0 q1) (hisoU : SvdIsoU dsvd A q0 q1) (hisoV : SvdIsoV dsvd A q0 q1)
    (H : QRInput A q0 q1) :
    ∑ i ∈ range A.m, ∑ j ∈ range A.n,
        star (A.f i j - tripleF ι (outU dnorm dargsort dsvd A q0 q1 tol) (outS dnorm dargsort dsvd A q0 q1 tol)
          (outV dnorm dargsort dsvd A q0 q1 tol) i j) *
        (A.f i j - tripleF ι (outU dnorm dargsort dsvd A q0 q1 tol) (outS dnorm dargsort dsvd A q0 q1 tol)
          (outV dnorm dargsort dsvd A q0 q1 tol) i j) =
      ∑ p ∈ range (spectrum dsvd A q0 q1).length,
        if p ∈ keptIdx dnorm dargsort dsvd A q0 q1 tol then 0
        else ι ((spectrum dsvd A q0 q1).getD p 0) * ι ((spectrum dsvd A q0 q1).getD p 0) := by
  have hI := svdLoopState_inv hshape H.hq0 H.hq1
  have hJU := svdLoopState_isoU hshape hisoU H.hq0 H.hq1
  have hJV := svdLoopState_isoV hshape hisoV H.hq0 H.hq1
  obtain ⟨-, -, sm, sn, -⟩ := srt_spec A q0 q1 H.hq0 H.hq1
  have hp0 := stableArgsort_permInv q0
  rw [H.hq0] at hp0
  have hp1 := stableArgsort_permInv q1
  rw [H.hq1] at hp1
  have hD : (spectrum dsvd A q0 q1).length = (svdLoopState dsvd A q0 q1).D := hI.slen
  have e : ∀ i ∈ range A.m, ∀ j ∈ range A.n,
      star (A.f i j - tripleF ι (outU dnorm dargsort dsvd A q0 q1 tol) (outS dnorm dargsort dsvd A q0 q1 tol)
          (outV dnorm dargsort dsvd A q0 q1 tol) i j) *
        (A.f i j - tripleF ι (outU dnorm dargsort dsvd A q0 q1 tol) (outS dnorm dargsort dsvd A q0 q1 tol)
          (outV dnorm dargsort dsvd A q0 q1 tol) i j) =
      star (∑ p ∈ range (spectrum dsvd A q0 q1).length, fullU dsvd A q0 q1 i p *
          (if p ∈ keptIdx dnorm dargsort dsvd A q0 q1 tol then 0 else ι ((spectrum dsvd A q0 q1).getD p 0)) *
          fullV dsvd A q0 q1 p j) *
        (∑ p ∈ range (spectrum dsvd A q0 q1).length, fullU dsvd A q0 q1 i p *
          (if p ∈ keptIdx dnorm dargsort dsvd A q0 q1 tol then 0 else ι ((spectrum dsvd A q0 q1).getD p 0)) *
          fullV dsvd A q0 q1 p j) := by
    intro i hi j hj
    rw [residual_nonempty dnorm dargsort tol ι hshape hprod H (mem_range.1 hi) (mem_range.1 hj)]
  rw [sum_congr rfl (fun i hi => sum_congr rfl (e i hi))]
  rw [frob_orth A.m A.n (spectrum dsvd A q0 q1).length (fullU dsvd A q0 q1) (fullV dsvd A q0 q1)
    (fun p => if p ∈ keptIdx dnorm dargsort dsvd A q0 q1 tol then 0 else ι ((spectrum dsvd A q0 q1).getD p 0))]
  · apply sum_congr rfl
    intro p _
    by_cases hk : p ∈ keptIdx dnorm dargsort dsvd A q0 q1 tol
    · simp [hk]
    · simp [hk]
  · intro p
    by_cases hk : p ∈ keptIdx dnorm dargsort dsvd A q0 q1 tol
    · simp [hk]
    · simp [hk, hι]
  · intro p p' hp hp'
    rw [hD] at hp hp'
    unfold fullU
    rw [hp0.sum_comp (fun k => star ((svdLoopState dsvd A q0 q1).u.f k p) * (svdLoopState dsvd A q0 q1).u.f k p'), ← sm]
    exact hJU p p' hp hp'
  · intro p hp
    rw [hD] at hp
    unfold fullV
    rw [hp1.sum_comp (fun k => (svdLoopState dsvd A q0 q1).v.f p k * star ((svdLoopState dsvd A q0 q1).v.f p k)), ← sn]
    have := hJV p p hp hp
    rw [if_pos rfl] at this
    exact this

/-- the untruncated `U` (original row order) has orthonormal columns -/
theorem fullU_iso (hshape : SvdShape dsvd A q0 q1) (hisoU : SvdIsoU dsvd A q0 q1) (H : QRInput A q0 q1)
    {p p' : Nat} (hp : p < (spectrum dsvd A q0 q1).length) (hp' : p' < (spectrum dsvd A q0 q1).length) :
    ∑ i ∈ range A.m, star (fullU dsvd A q0 q1 i p) * fullU dsvd A q0 q1 i p' = if p = p' then 1 else 0 := by
  have hI := svdLoopState_inv hshape H.hq0 H.hq1
  have hJU := svdLoopState_isoU hshape hisoU H.hq0 H.hq1
  obtain ⟨-, -, sm, sn, -⟩ := srt_spec A q0 q1 H.hq0 H.hq1
  have hp0 := stableArgsort_permInv q0
  rw [H.hq0] at hp0
  rw [spectrum, hI.slen] at hp hp'
  unfold fullU
  rw [hp0.sum_comp (fun k => star ((svdLoopState dsvd A q0 q1).u.f k p) * (svdLoopState dsvd A q0 q1).u.f k p'), ← sm]
  exact hJU p p' hp hp'

/-- the untruncated `V` (original column order) has orthonormal rows -/
theorem fullV_iso (hshape : SvdShape dsvd A q0 q1) (hisoV : SvdIsoV dsvd A q0 q1) (H : QRInput A q0 q1)
    {p p' : Nat} (hp : p < (spectrum dsvd A q0 q1).length) (hp' : p' < (spectrum dsvd A q0 q1).length) :
    ∑ j ∈ range A.n, fullV dsvd A q0 q1 p j * star (fullV dsvd A q0 q1 p' j) = if p = p' then 1 else 0 := by
  have hI := svdLoopState_inv hshape H.hq0 H.hq1
  have hJV := svdLoopState_isoV hshape hisoV H.hq0 H.hq1
  obtain ⟨-, -, sm, sn, -⟩ := srt_spec A q0 q1 H.hq0 H.hq1
  have hp1 := stableArgsort_permInv q1
  rw [H.hq1] at hp1
  rw [spectrum, hI.slen] at hp hp'
  unfold fullV
  rw [hp1.sum_comp (fun k => (svdLoopState dsvd A q0 q1).v.f p k * star ((svdLoopState dsvd A q0 q1).v.f p' k)), ← sn]
  exact hJV p p' hp hp'

/-- under the kernel contract the concatenated spectrum of a zero matrix vanishes (in `𝕜`) -/
theorem spectrum_zero_of_zero (ι : ρ →+* 𝕜) (hshape : SvdShape dsvd A q0 q1)
    (hprod : SvdProduct ι dsvd A q0 q1) (hisoU : SvdIsoU dsvd A q0 q1) (hisoV : SvdIsoV dsvd A q0 q1)
    (H : QRInput A q0 q1) (hz : ¬ AnyNZ A) {p : Nat} (hp : p < (spectrum dsvd A q0 q1).length) :
    ι ((spectrum dsvd A q0 q1).getD p 0) = 0 := by
  have hA := (not_anyNZ_iff A).1 hz
  have h := diag_extract A.m A.n (spectrum dsvd A q0 q1).length (fullU dsvd A q0 q1) (fullV dsvd A q0 q1)
    (fun p => ι ((spectrum dsvd A q0 q1).getD p 0))
    (fun p p' hp hp' => fullU_iso hshape hisoU H hp hp') (fun p p' hp hp' => fullV_iso hshape hisoV H hp hp') hp
  rw [← h]
  apply sum_eq_zero
  intro i hi
  apply sum_eq_zero
  intro j hj
  rw [full_expansion ι hshape hprod H (mem_range.1 hi) (mem_range.1 hj), hA i j (mem_range.1 hi) (mem_range.1 hj),
    mul_zero, zero_mul]

end err

/-- under the product clause the concatenated spectrum of a non-zero matrix is not all zero -/
theorem spectrum_ne_zero_of_anyNZ (ι : ρ →+* 𝕜) (hshape : SvdShape dsvd A q0 q1) (hprod : SvdProduct ι dsvd A q0 q1)
    (H : QRInput A q0 q1) (hnz : AnyNZ A) : ¬ ∀ x ∈ spectrum dsvd A q0 q1, x = 0 := by
  intro hall
  obtain ⟨i, j, hi, hj, hne⟩ := hnz
  apply hne
  rw [← full_expansion ι hshape hprod H hi hj]
  apply sum_eq_zero
  intro p hp
  have : (spectrum dsvd A q0 q1).getD p 0 = 0 :=
    hall _ (by simp [List.getD_eq_getElem?_getD, mem_range.1 hp])
  rw [this, map_zero, mul_zero, zero_mul]

/-! ### both branches -/

theorem spectrum_disjoint (dsvd : Mat 𝕜 → Mat 𝕜 × List ρ × Mat 𝕜) (A : Mat 𝕜) (q0 q1 : List Int)
    (he : intersect1d q0 q1 = []) : spectrum dsvd A q0 q1 = [] := by
  rw [spectrum_eq, blocks, he]; rfl

theorem triple_zero (ι : ρ →+* 𝕜) (hz : ¬ AnyNZ A) {i j : Nat}
    (hi : i < A.m) (hj : j < A.n) :
    tripleF ι (e0 A.m) ([0] : List ρ) (Mat.zero 1 A.n) i j = A.f i j := by
  rw [(not_anyNZ_iff A).1 hz i j hi hj]
  unfold tripleF
  apply sum_eq_zero
  intro t _
  rw [Mat.zero_f, mul_zero]

theorem triple_disjoint (ι : ρ →+* 𝕜) (H : QRInput A q0 q1) (he : intersect1d q0 q1 = []) {i j : Nat}
    (hi : i < A.m) (hj : j < A.n) :
    tripleF ι (e0 A.m) ([0] : List ρ) (Mat.zero 1 A.n) i j = A.f i j :=
  triple_zero ι (not_anyNZ_of_disjoint H he) hi hj

/-- if all discarded singular values vanish (e.g. nothing is discarded) the returned factors reproduce `A` -/
theorem reconstruct' (ι : ρ →+* 𝕜) (hshape : SvdShape dsvd A q0 q1) (hprod : SvdProduct ι dsvd A q0 q1)
    (H : QRInput A q0 q1) {u v : Mat 𝕜} {s : List ρ} {q : List Int}
    (hrun : splitMatrixSvd dsvd dnorm dargsort A q0 q1 tol = .ok (u, s, v, q))
    (hdisc : ∀ p, p < (spectrum dsvd A q0 q1).length →
      p ∉ retainedBondIndices dnorm dargsort (spectrum dsvd A q0 q1) tol → (spectrum dsvd A q0 q1).getD p 0 = 0)
    {i j : Nat} (hi : i < A.m) (hj : j < A.n) : tripleF ι u s v i j = A.f i j := by
  rcases split_run_cases dnorm dargsort tol hshape H hrun with ⟨hz, rfl, rfl, rfl, rfl⟩ | ⟨-, rfl, rfl, rfl, rfl⟩
  · exact triple_zero ι hz hi hj
  · exact reconstruct_nonempty dnorm dargsort tol ι hshape hprod H hdisc hi hj

section err2
variable [StarRing 𝕜]

/-- truncation error identity, both branches (for a zero matrix both sides vanish: the returned product is zero and,
under the kernel contract, so is the whole spectrum) -/
theorem error_identity' (ι : ρ →+* 𝕜) (hι : ∀ x, star (ι x) = ι x) (hshape : SvdShape dsvd A q0 q1)
    (hprod : SvdProduct ι dsvd A q0 q1) (hisoU : SvdIsoU dsvd A q0 q1) (hisoV : SvdIsoV dsvd A q0 q1)
    (H : QRInput A q0 q1) {u v : Mat 𝕜} {s : List ρ} {q : List Int}
    (hrun : splitMatrixSvd dsvd dnorm dargsort A q0 q1 tol = .ok (u, s, v, q)) :
    ∑ i ∈ range A.m, ∑ j ∈ range A.n,
        star (A.f i j - tripleF ι u s v i j) * (A.f i j - tripleF ι u s v i j) =
      ∑ p ∈ range (spectrum dsvd A q0 q1).length,
        if p ∈ retainedBondIndices dnorm dargsort (spectrum dsvd A q0 q1) tol then 0
        else ι ((spectrum dsvd A q0 q1).getD p 0) * ι ((spectrum dsvd A q0 q1).getD p 0) := by
  rcases split_run_cases dnorm dargsort tol hshape H hrun with ⟨hz, rfl, rfl, rfl, rfl⟩ | ⟨-, rfl, rfl, rfl, rfl⟩
  · have hR : ∑ p ∈ range (spectrum dsvd A q0 q1).length,
        (if p ∈ retainedBondIndices dnorm dargsort (spectrum dsvd A q0 q1) tol then (0 : 𝕜)
        else ι ((spectrum dsvd A q0 q1).getD p 0) * ι ((spectrum dsvd A q0 q1).getD p 0)) = 0 := by
      apply sum_eq_zero
      intro p hp
      rw [spectrum_zero_of_zero ι hshape hprod hisoU hisoV H hz (mem_range.1 hp), mul_zero, ite_self]
    rw [hR]
    apply sum_eq_zero
    intro i hi
    apply sum_eq_zero
    intro j hj
    rw [triple_zero ι hz (mem_range.1 hi) (mem_range.1 hj), sub_self, mul_zero]
  · exact error_nonempty dnorm dargsort tol ι hι hshape hprod hisoU hisoV H

end err2
end Ptn.BondOps

import Mathlib.Algebra.BigOperators.Group.List.Lemmas
import PtnModel.Proofs.OgDen
/-!
# Path sums of a graph that is a left forest, a right forest and crossing edges

Generic statement behind the explicit molecular graph: the nodes split into *left* nodes (every left node other than the source
has exactly one incoming edge, from a left node) and *right* nodes (every right node other than the sink has exactly one outgoing
edge, to a right node); all remaining edges cross from a left to a right node.  Then every source-sink path uses exactly one
crossing edge, and the path sum is `Σ_{crossing e} coeff(e) · [w = lw(src e) ++ op(e) :: rw(dst e)]`, where `lw x` is the word on the
unique path source → `x` and `rw y` the word on the unique path `y` → sink.
-/
set_option linter.unusedSectionVars false
set_option linter.unusedSimpArgs false

namespace Ptn.Og
open List

variable {κ : Type} [CommRing κ]

/-- operator id and coefficient of a single-operator edge -/
def Edge.eo (e : Edge κ) : Int := (e.opics.headD (0, 0)).1
def Edge.ec (e : Edge κ) : κ := (e.opics.headD (0, 0)).2

/-- the hypotheses on the edge list -/
structure Forests (es : List (Edge κ)) (s t : Int) (Lf RG : Int → Prop) (lw rw : Int → Word) : Prop where
  nodup : es.Nodup
  single : ∀ e ∈ es, e.opics = [(e.eo, e.ec)]
  cls : ∀ e ∈ es,
      (Lf e.nids.1 ∧ Lf e.nids.2 ∧ e.ec = 1 ∧ lw e.nids.2 = lw e.nids.1 ++ [e.eo]) ∨
      (¬ Lf e.nids.1 ∧ ¬ Lf e.nids.2 ∧ e.ec = 1 ∧ rw e.nids.1 = e.eo :: rw e.nids.2) ∨
      (Lf e.nids.1 ∧ ¬ Lf e.nids.2 ∧ RG e.nids.2)
  hs : Lf s ∧ lw s = []
  ht : ¬ Lf t ∧ rw t = []
  uL : ∀ e1 ∈ es, ∀ e2 ∈ es, Lf e1.nids.2 → e1.nids.2 = e2.nids.2 → e1 = e2
  uR : ∀ e1 ∈ es, ∀ e2 ∈ es, ¬ Lf e1.nids.1 → e1.nids.1 = e2.nids.1 → e1 = e2
  exL : ∀ e ∈ es, Lf e.nids.1 → e.nids.1 = s ∨ ∃ e' ∈ es, e'.nids.2 = e.nids.1
  exR : ∀ y, RG y → y = t ∨ ∃ e ∈ es, e.nids.1 = y ∧ RG e.nids.2
  rgR : ∀ y, RG y → ¬ Lf y

theorem sum_pick_unique {α : Type} (l : List α) (hn : l.Nodup) (a : α) (ha : a ∈ l) (P : α → Prop) [DecidablePred P]
    (hP : P a) (hu : ∀ b ∈ l, P b → b = a) (F : α → κ) : (l.map fun b => if P b then F b else 0).sum = F a := by
  induction l with
  | nil => cases ha
  | cons x l ih =>
    obtain ⟨hx, hl⟩ := nodup_cons.1 hn
    simp only [map_cons, sum_cons]
    by_cases hxa : x = a
    · subst hxa
      rw [if_pos hP, sum_map_eq_zero, add_zero]
      intro b hb
      by_cases hb' : P b
      · exact absurd (hu b (mem_cons_of_mem _ hb) hb') (fun h => hx (h ▸ hb))
      · rw [if_neg hb']
    · have hPx : ¬ P x := fun h => hxa (hu x (mem_cons_self ..) h)
      rw [if_neg hPx, zero_add]
      exact ih hl (by rcases mem_cons.1 ha with h | h; exact absurd h.symm hxa; exact h)
        (fun b hb => hu b (mem_cons_of_mem _ hb))

theorem opc_of_single (e : Edge κ) (h : e.opics = [(e.eo, e.ec)]) (o : Int) : opc e o = if e.eo = o then e.ec else 0 := by
  unfold opc
  rw [h]
  simp

variable {es : List (Edge κ)} {s t : Int} {Lf RG : Int → Prop} {lw rw : Int → Word}

/-- from a right node only its right word leads to the sink -/
theorem Forests.den_right [DecidableEq κ] (H : Forests es s t Lf RG lw rw) :
    ∀ (v : Word) (y : Int), RG y → denE es t v y = if v = rw y then 1 else 0 := by
  intro v
  induction v with
  | nil =>
    intro y hy
    rw [denE_nil]
    rcases H.exR y hy with rfl | ⟨e, he, hsrc, _⟩
    · rw [if_pos rfl, H.ht.2, if_pos rfl]
    · have hy' : ¬ Lf e.nids.1 := hsrc ▸ H.rgR y hy
      rcases H.cls e he with ⟨h1, _⟩ | ⟨_, _, _, h4⟩ | ⟨h1, _⟩
      · exact absurd h1 hy'
      · rw [hsrc] at h4
        have hne : y ≠ t := by
          intro hc; subst hc; rw [H.ht.2] at h4; cases h4
        rw [if_neg hne, h4, if_neg (by simp)]
      · exact absurd h1 hy'
  | cons o v ih =>
    intro y hy
    rw [denE_cons]
    rcases H.exR y hy with rfl | ⟨e0, he0, hsrc, hrg⟩
    · rw [if_pos rfl, H.ht.2, if_neg (by simp)]
    · have hy' : ¬ Lf e0.nids.1 := hsrc ▸ H.rgR y hy
      rcases H.cls e0 he0 with ⟨h1, _⟩ | ⟨_, _, h3, h4⟩ | ⟨h1, _⟩
      · exact absurd h1 hy'
      · rw [hsrc] at h4
        have hne : y ≠ t := by
          intro hc; subst hc; rw [H.ht.2] at h4; cases h4
        rw [if_neg hne]
        rw [sum_pick_unique es H.nodup e0 he0 (fun e => e.nids.1 = y) hsrc
          (fun b hb hby => (H.uR e0 he0 b hb hy' (hsrc.trans hby.symm)).symm)]
        rw [opc_of_single e0 (H.single e0 he0), ih _ hrg, h3, h4]
        by_cases ho : e0.eo = o
        · subst ho
          by_cases hv : v = rw e0.nids.2
          · simp [hv]
          · simp [hv]
        · have : ¬ (o :: v = e0.eo :: rw e0.nids.2) := by
            intro hc; exact ho (by injection hc with a b; exact a.symm)
          simp [ho, this]
      · exact absurd h1 hy'

/-- the sum, over all left nodes with left word `p`, of the path sums of `w` -/
def leftSum [DecidableEq κ] (es : List (Edge κ)) (s t : Int) (Lf : Int → Prop) [DecidablePred Lf] (lw : Int → Word) (p w : Word) : κ :=
  (if p = [] then denE es t w s else 0) +
    (es.map fun e => if Lf e.nids.1 ∧ Lf e.nids.2 ∧ lw e.nids.2 = p then denE es t w e.nids.2 else 0).sum

theorem sum_map_swap {α β : Type} (l1 : List α) (l2 : List β) (f : α → β → κ) :
    (l1.map fun a => (l2.map fun b => f a b).sum).sum = (l2.map fun b => (l1.map fun a => f a b).sum).sum := by
  induction l1 with
  | nil => simp
  | cons a l1 ih =>
    simp only [map_cons, sum_cons, ih]
    rw [← List.sum_map_add]


theorem Forests.src_ne_t (H : Forests es s t Lf RG lw rw) {x : Int} (hx : Lf x) : x ≠ t := fun h => H.ht.1 (h ▸ hx)

/-- no edge enters the source -/
theorem Forests.no_in_s (H : Forests es s t Lf RG lw rw) (e : Edge κ) (he : e ∈ es) : e.nids.2 ≠ s := by
  intro hc
  rcases H.cls e he with ⟨_, _, _, h4⟩ | ⟨_, h2, _⟩ | ⟨_, h2, _⟩
  · rw [hc, H.hs.2] at h4
    exact absurd h4 (by simp)
  · exact h2 (hc ▸ H.hs.1)
  · exact h2 (hc ▸ H.hs.1)

/-- multiplicity: an edge with left source `x` is met exactly once when `x` ranges over the source and the targets of the
left-left edges -/
theorem Forests.mult [DecidablePred Lf] (H : Forests es s t Lf RG lw rw) (p : Word) (e' : Edge κ) (he' : e' ∈ es) :
    (if p = [] ∧ e'.nids.1 = s then (1 : κ) else 0) +
      (es.map fun e => if (Lf e.nids.1 ∧ Lf e.nids.2 ∧ lw e.nids.2 = p) ∧ e'.nids.1 = e.nids.2 then (1 : κ) else 0).sum
      = if Lf e'.nids.1 ∧ lw e'.nids.1 = p then 1 else 0 := by
  by_cases hL : Lf e'.nids.1
  · rcases H.exL e' he' hL with hs | ⟨e1, he1, hd⟩
    · -- the source
      rw [sum_map_eq_zero, add_zero]
      · rw [hs, H.hs.2]
        by_cases hp : p = []
        · subst hp; simp [H.hs.1]
        · have : ¬ ([] = p) := fun h => hp h.symm
          simp [hp, this]
      · intro e he
        rw [if_neg]
        rintro ⟨_, h2⟩
        exact H.no_in_s e he (h2.symm.trans hs)
    · -- a node with an incoming edge
      have hL1 : Lf e1.nids.2 := hd ▸ hL
      have hne : e'.nids.1 ≠ s := fun hc => H.no_in_s e1 he1 (hd.trans hc)
      have hW : Lf e1.nids.1 := by
        rcases H.cls e1 he1 with ⟨h1, _⟩ | ⟨_, h2, _⟩ | ⟨_, h2, _⟩
        · exact h1
        · exact absurd hL1 h2
        · exact absurd hL1 h2
      rw [if_neg (fun h => hne h.2), zero_add]
      have := sum_pick_unique es H.nodup e1 he1 (fun e => e'.nids.1 = e.nids.2) hd.symm
        (fun b hb hbd => (H.uL e1 he1 b hb hL1 (hd.trans hbd)).symm)
        (fun e => if Lf e.nids.1 ∧ Lf e.nids.2 ∧ lw e.nids.2 = p then (1 : κ) else 0)
      rw [← hd]
      rw [← hd] at this
      simp only [hW, hL1, true_and] at this
      rw [show (if Lf e1.nids.2 ∧ lw e1.nids.2 = p then (1 : κ) else 0) = if lw e1.nids.2 = p then 1 else 0 by simp [hL1],
        ← this]
      apply sum_map_congr
      intro e _
      by_cases h1 : e1.nids.2 = e.nids.2
      · by_cases h2 : Lf e.nids.1 ∧ Lf e.nids.2 ∧ lw e.nids.2 = p <;> simp [h1, h2]
      · simp [h1]
  · rw [if_neg (fun h : Lf e'.nids.1 ∧ lw e'.nids.1 = p => hL h.1), if_neg (fun h : p = [] ∧ e'.nids.1 = s => hL (h.2 ▸ H.hs.1)), zero_add]
    apply sum_map_eq_zero
    intro e _
    rw [if_neg]
    rintro ⟨⟨_, h2, _⟩, h4⟩
    exact hL (h4 ▸ h2)

theorem Forests.leftSum_cons [DecidableEq κ] [DecidablePred Lf] (H : Forests es s t Lf RG lw rw) (p : Word) (o : Int) (w : Word) :
    leftSum es s t Lf lw p (o :: w) =
      (es.map fun e' => if Lf e'.nids.1 ∧ lw e'.nids.1 = p then opc e' o * denE es t w e'.nids.2 else 0).sum := by
  unfold leftSum
  have e1 : (if p = [] then denE es t (o :: w) s else 0) =
      (es.map fun e' => (opc e' o * denE es t w e'.nids.2) * (if p = [] ∧ e'.nids.1 = s then (1 : κ) else 0)).sum := by
    by_cases hp : p = []
    · rw [if_pos hp, denE_cons, if_neg (H.src_ne_t H.hs.1)]
      apply sum_map_congr
      intro e _
      by_cases h : e.nids.1 = s <;> simp [hp, h]
    · rw [if_neg hp]
      symm
      apply sum_map_eq_zero
      intro e _
      simp [hp]
  have e2 : (es.map fun e => if Lf e.nids.1 ∧ Lf e.nids.2 ∧ lw e.nids.2 = p then denE es t (o :: w) e.nids.2 else 0).sum =
      (es.map fun e' => (opc e' o * denE es t w e'.nids.2) *
        (es.map fun e => if (Lf e.nids.1 ∧ Lf e.nids.2 ∧ lw e.nids.2 = p) ∧ e'.nids.1 = e.nids.2 then (1 : κ) else 0).sum).sum := by
    have : ∀ e' ∈ es, (opc e' o * denE es t w e'.nids.2) *
        (es.map fun e => if (Lf e.nids.1 ∧ Lf e.nids.2 ∧ lw e.nids.2 = p) ∧ e'.nids.1 = e.nids.2 then (1 : κ) else 0).sum =
        (es.map fun e => if (Lf e.nids.1 ∧ Lf e.nids.2 ∧ lw e.nids.2 = p) ∧ e'.nids.1 = e.nids.2
          then opc e' o * denE es t w e'.nids.2 else 0).sum := by
      intro e' _
      rw [← sum_map_const_mul]
      apply sum_map_congr
      intro e _
      split <;> simp
    rw [sum_map_congr _ _ _ this, sum_map_swap]
    apply sum_map_congr
    intro e _
    by_cases hc : Lf e.nids.1 ∧ Lf e.nids.2 ∧ lw e.nids.2 = p
    · rw [if_pos hc, denE_cons, if_neg (H.src_ne_t hc.2.1)]
      apply sum_map_congr
      intro e' _
      simp [hc]
    · rw [if_neg hc]
      symm
      apply sum_map_eq_zero
      intro e' _
      simp [hc]
  rw [e1, e2, ← List.sum_map_add]
  apply sum_map_congr
  intro e' he'
  rw [← mul_add, H.mult p e' he']
  split <;> simp


/-- a left-left edge is a forest edge -/
theorem Forests.wl (H : Forests es s t Lf RG lw rw) (e : Edge κ) (he : e ∈ es) (h1 : Lf e.nids.1) (h2 : Lf e.nids.2) :
    e.ec = 1 ∧ lw e.nids.2 = lw e.nids.1 ++ [e.eo] := by
  rcases H.cls e he with ⟨_, _, h3, h4⟩ | ⟨h, _⟩ | ⟨_, h, _⟩
  · exact ⟨h3, h4⟩
  · exact absurd h1 h
  · exact absurd h2 h

/-- the crossing word of an edge -/
def Edge.cross (lw rw : Int → Word) (e : Edge κ) : Word := lw e.nids.1 ++ e.eo :: rw e.nids.2

theorem ite_add_ite_disj (A B C : Prop) [Decidable A] [Decidable B] [Decidable C] (c : κ) (h1 : C ↔ A ∨ B) (h2 : ¬ (A ∧ B)) :
    (if A then c else 0) + (if B then c else 0) = if C then c else 0 := by
  by_cases hA : A <;> by_cases hB : B <;> simp_all

theorem cross_split (p u r : Word) (o a : Int) (w : Word) :
    (p ++ o :: w = u ++ a :: r ∧ p.length ≤ u.length) ↔
      ((p ++ [o] ++ w = u ++ a :: r ∧ (p ++ [o]).length ≤ u.length) ∨ (u = p ∧ a = o ∧ w = r)) := by
  constructor
  · rintro ⟨h, hl⟩
    by_cases hlen : p.length = u.length
    · obtain ⟨h1, h2⟩ := append_inj h hlen
      injection h2 with h3 h4
      exact Or.inr ⟨h1.symm, h3.symm, h4⟩
    · refine Or.inl ⟨by simpa using h, ?_⟩
      simp only [length_append, length_cons, length_nil]
      omega
  · rintro (⟨h, hl⟩ | ⟨rfl, rfl, rfl⟩)
    · refine ⟨by simpa using h, ?_⟩
      simp only [length_append, length_cons, length_nil] at hl
      omega
    · exact ⟨rfl, le_refl _⟩

theorem Forests.leftSum_eq [DecidableEq κ] [DecidablePred Lf] (H : Forests es s t Lf RG lw rw) :
    ∀ (w p : Word), leftSum es s t Lf lw p w =
      (es.map fun e => if (Lf e.nids.1 ∧ ¬ Lf e.nids.2) ∧ p ++ w = e.cross lw rw ∧ p.length ≤ (lw e.nids.1).length
        then e.ec else 0).sum := by
  intro w
  induction w with
  | nil =>
    intro p
    unfold leftSum
    rw [denE_nil, if_neg (H.src_ne_t H.hs.1), ite_self, zero_add]
    rw [sum_map_eq_zero, sum_map_eq_zero]
    · intro e _
      rw [if_neg]
      rintro ⟨_, h2, h3⟩
      have := congrArg List.length h2
      simp only [Edge.cross, append_nil, length_append, length_cons] at this
      omega
    · intro e _
      split
      · next h => rw [denE_nil, if_neg (H.src_ne_t h.2.1)]
      · rfl
  | cons o w ih =>
    intro p
    rw [H.leftSum_cons]
    have step : (es.map fun e' => if Lf e'.nids.1 ∧ lw e'.nids.1 = p then opc e' o * denE es t w e'.nids.2 else 0).sum =
        leftSum es s t Lf lw (p ++ [o]) w +
        (es.map fun e => if (Lf e.nids.1 ∧ ¬ Lf e.nids.2) ∧ (lw e.nids.1 = p ∧ e.eo = o ∧ w = rw e.nids.2)
          then e.ec else 0).sum := by
      unfold leftSum
      rw [if_neg (show ¬ (p ++ [o] = []) by simp), zero_add, ← List.sum_map_add]
      apply sum_map_congr
      intro e he
      by_cases h1 : Lf e.nids.1
      · by_cases h2 : Lf e.nids.2
        · obtain ⟨hc, hw⟩ := H.wl e he h1 h2
          simp only [h1, h2, true_and, not_true_eq_false, and_false, false_and, if_false, add_zero]
          rw [opc_of_single e (H.single e he), hc, hw]
          by_cases hp : lw e.nids.1 = p
          · by_cases ho : e.eo = o
            · simp [h1, h2, hp, ho]
            · have : ¬ (p ++ [e.eo] = p ++ [o]) := by simpa using ho
              simp [h1, h2, hp, ho, this]
          · have : ¬ (lw e.nids.1 ++ [e.eo] = p ++ [o]) := by
              intro hc
              exact hp (append_inj' hc rfl).1
            simp [h1, h2, hp, this]
        · have hrg : RG e.nids.2 := by
            rcases H.cls e he with ⟨_, h, _⟩ | ⟨h, _⟩ | ⟨_, _, h⟩
            · exact absurd h h2
            · exact absurd h1 h
            · exact h
          simp only [h1, h2, true_and, not_false_eq_true, and_false, false_and, if_false, zero_add]
          rw [opc_of_single e (H.single e he), H.den_right w _ hrg]
          by_cases hp : lw e.nids.1 = p <;> by_cases ho : e.eo = o <;> by_cases hv : w = rw e.nids.2 <;>
            simp [h1, h2, hp, ho, hv]
      · simp [h1]
    rw [step, ih, ← List.sum_map_add]
    apply sum_map_congr
    intro e _
    by_cases hT : Lf e.nids.1 ∧ ¬ Lf e.nids.2
    · simp only [hT, not_false_eq_true, and_self, true_and]
      apply ite_add_ite_disj
      · unfold Edge.cross
        exact cross_split p _ _ o _ w
      · rintro ⟨⟨_, h1⟩, h2, _⟩
        rw [h2] at h1
        simp at h1
    · simp [hT]

/-- **Path sums of a left forest / right forest / crossing edges graph**: the coefficient of `w` on source-sink paths is the sum of the
coefficients of the crossing edges whose crossing word is `w` -/
theorem Forests.den [DecidableEq κ] [DecidablePred Lf] (H : Forests es s t Lf RG lw rw) (w : Word) :
    denE es t w s = (es.map fun e => if (Lf e.nids.1 ∧ ¬ Lf e.nids.2) ∧ e.cross lw rw = w then e.ec else 0).sum := by
  have h := H.leftSum_eq w []
  unfold leftSum at h
  rw [if_pos rfl, sum_map_eq_zero, add_zero] at h
  · rw [h]
    apply sum_map_congr
    intro e _
    simp only [nil_append, length_nil, Nat.zero_le, and_true]
    by_cases hc : w = e.cross lw rw
    · simp [hc]
    · have : ¬ (e.cross lw rw = w) := fun h => hc h.symm
      simp [hc, this]
  · intro e he
    rw [if_neg]
    rintro ⟨h1, h2, h3⟩
    rw [(H.wl e he h1 h2).2] at h3
    simp at h3

end Ptn.Og

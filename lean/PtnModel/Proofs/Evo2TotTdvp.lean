import PtnModel.Proofs.Evo2TotUpdate
/-!
# Totality of two-site TDVP (`integrate_local_twosite`), every split tolerance `0 ≤ tol < 1`

With the positive-norm invariant `PInv` (mixed canonical, non-zero centre tensor, block sparse) every sub-call of the loop
bodies returns:
* `centre_stepP`   : the one-site Krylov step at the centre (unitary, so the centre tensor stays non-zero);
* `window_left`, `window_right` : the environment step after a split exists (`C04.left_step_dense` / `right_step_dense`)
  and turns the window invariant back into the one-site invariant;
* `tdvp2Left_ok`, `tdvp2Right_ok`, `tdvp2Step_ok`, `tdvp2_ok`.
-/
set_option linter.unusedSectionVars false

namespace Ptn.Evo
open Ptn Ptn.BondOps Ptn.Ortho Ptn.Env Ptn.Krylov Ptn.Dense Finset

/-- descending loop `for i in reversed(range(n))` whose bodies return -/
theorem foldIdx_rev_ok {σ : Type} (f : σ → Nat → Except Err σ) (P : Nat → σ → Prop) :
    ∀ (n : Nat), (∀ i, i < n → ∀ s, P (i + 1) s → ∃ s', f s i = .ok s' ∧ P i s') →
    ∀ s, P n s → ∃ r, foldIdx f (List.range n).reverse s = .ok r ∧ P 0 r
  | 0, _, s, h0 => ⟨s, rfl, h0⟩
  | n + 1, step, s, h0 => by
    obtain ⟨t, h1, ht⟩ := step n (by omega) s h0
    obtain ⟨r, h2, hr⟩ := foldIdx_rev_ok f P n (fun i hi => step i (by omega)) t ht
    refine ⟨r, ?_, hr⟩
    rw [List.range_succ, List.reverse_append, List.reverse_singleton, List.singleton_append, foldIdx_cons_ok]
    exact ⟨t, h1, h2⟩

variable {𝕜 : Type} [RCLike 𝕜] [DecidableEq 𝕜]
variable {k : EvoKernels 𝕜 ℝ} {H : MPO 𝕜} {qd : List Int} {numiter : Nat}

/-- **the one-site Krylov step at the centre returns** (purely imaginary time argument) and keeps `PInv` -/
theorem centre_stepP (ctx : SweepCtx k H qd numiter) (hexp : ∀ x : ℝ, ‖k.dexp (RCLike.I * (x : 𝕜))‖ = 1)
    (hm : 1 ≤ numiter) (hH : HistWf.HOk H qd) {s : Sweep 𝕜} {c : Nat} (h : PInv H qd s c) {δ : 𝕜} {t : ℝ}
    (hδ : -δ = RCLike.I * (t : 𝕜)) :
    ∃ A1, localHamiltonianStep k (getBL s c) (getBR s c) (H.A.getD c zeroT4) (getA s c) δ numiter = .ok A1 ∧
      PInv H qd (⟨s.A.setIfInBounds c A1, s.qD, s.BL, s.BR⟩ : Sweep 𝕜) c := by
  have hc := h.can.hc
  obtain ⟨A1, h1⟩ := localStep_isOk (k := k) (L := getBL s c) (R := getBR s c) (W := H.A.getD c zeroT4)
    (A := getA s c) ctx.norm (cnorm_pos_flat3 ctx.norm h.pos) hm (ctx.eigh _ _) δ
  obtain ⟨hF, hHerm⟩ := canon_local h.can ctx.hH ctx.herm
  obtain ⟨a0, a1, a2, hfrob⟩ := localStep_norm ctx.norm hF hHerm (ctx.eigh _ _) hexp hδ h1
  have hX := HistWf.localStep_wf hH h.sp hc (Nat.le_refl _) (Nat.le_refl _) (h.sp.site c hc) h1
  have hg : getA (⟨s.A.setIfInBounds c A1, s.qD, s.BL, s.BR⟩ : Sweep 𝕜) c = A1 :=
    getD_setIfInBounds_eq _ _ _ (by rw [h.can.wf.sizeA]; exact hc)
  exact ⟨A1, h1, canon_replace h.can ⟨a0, a1, a2⟩, by rw [hg, hfrob]; exact h.pos, HistWf.evoSparse_site h.sp hX⟩

/-- after a split with the singular values on the right: the new left block exists and the centre moves to `i+1` -/
theorem window_left (ctx : SweepCtx k H qd numiter) (hH : HistWf.HOk H qd) {s : Sweep 𝕜} {i : Nat}
    (h : Canon2 H qd s i) (hsp : HistWf.EvoSparse H qd s i (i + 1)) (hiso : LeftIso (getA s i))
    (hpos : 0 < frob3 (getA s (i + 1))) :
    ∃ BLn, Op.opStepLeft (getA s i) (getA s i) (H.A.getD i zeroT4) (getBL s i) = .ok BLn ∧
      PInv H qd (⟨s.A, s.qD, s.BL.setIfInBounds (i + 1) BLn, s.BR⟩ : Sweep 𝕜) (i + 1) := by
  have hi := h.hi
  obtain ⟨BLn, hBL, _⟩ := C04.left_step_dense h.shaped ctx.hH h.len (i := i) (by rw [h.len]; omega)
    (cur_getElem? qd s (by rw [h.wf.sizeA]; omega)) (getD_some H.A (by omega) zeroT4) (h.bl i (Nat.le_refl i))
  obtain ⟨hbl, _⟩ := hsp.bl i (Nat.le_refl _) (by omega)
  have hAi := hsp.site i (by omega)
  obtain ⟨hBLn, b0, _, b2⟩ := HistWf.opStepLeft_sparse hBL hAi.sp hAi.sp (hH.sp i) hbl
  exact ⟨BLn, hBL, h.toL ctx.hH hiso hBL, hpos, HistWf.evoSparse_setBL hsp (Nat.le_refl _) hi hBLn (b2.trans b0.symm)⟩

/-- after a split with the singular values on the left: the new right block exists and the centre is `i` -/
theorem window_right (ctx : SweepCtx k H qd numiter) (hH : HistWf.HOk H qd) {s : Sweep 𝕜} {i : Nat}
    (h : Canon2 H qd s i) (hsp : HistWf.EvoSparse H qd s i (i + 1)) (hiso : RightIso (getA s (i + 1)))
    (hpos : 0 < frob3 (getA s i)) :
    ∃ BRn, Op.opStepRight (getA s (i + 1)) (getA s (i + 1)) (H.A.getD (i + 1) zeroT4) (getBR s (i + 1)) = .ok BRn ∧
      PInv H qd (⟨s.A, s.qD, s.BL, s.BR.setIfInBounds i BRn⟩ : Sweep 𝕜) i := by
  have hi := h.hi
  obtain ⟨BRn, hBR, _⟩ := right_step_dense h.shaped ctx.hH h.len (i := i + 1) (by rw [h.len]; omega)
    (cur_getElem? qd s (by rw [h.wf.sizeA]; omega)) (getD_some H.A hi zeroT4) (h.br (i + 1) (Nat.le_refl _) hi)
  obtain ⟨hbr, _⟩ := hsp.br (i + 1) (Nat.le_refl _) hi
  have hAi := hsp.site (i + 1) hi
  obtain ⟨hBRn, b0, _, b2⟩ := HistWf.opStepRight_sparse hBR hAi.sp hAi.sp (hH.sp (i + 1)) hbr
  exact ⟨BRn, hBR, h.toR ctx.hH hiso hBR, hpos, HistWf.evoSparse_setBR hsp (Nat.le_refl _) (by omega) hBRn (b2.trans b0.symm)⟩

variable {tol : ℝ}

/-- **the left-to-right loop body of a two-site TDVP step returns** and keeps `PInv` (centre `i → i+1`) -/
theorem tdvp2Left_ok (ctx : SweepCtx k H qd numiter) (hk : Compress.SvdKernel k.svd)
    (hexp : ∀ x : ℝ, ‖k.dexp (RCLike.I * (x : 𝕜))‖ = 1)
    {hh τ : ℝ} (hhalf : k.half = ((hh : ℝ) : 𝕜)) {dt : 𝕜} (hdt : dt = RCLike.I * ((τ : ℝ) : 𝕜)) (hm : 1 ≤ numiter)
    (hH : HistWf.HOk H qd) (ht0 : 0 ≤ tol) (ht1 : tol < 1) {s : Sweep 𝕜} {i : Nat} (h : PInv H qd s i)
    (hi1 : i + 1 < H.A.length) :
    ∃ s', tdvp2Left k H qd dt numiter tol s i = .ok s' ∧ PInv H qd s' (i + 1) := by
  have hδ1 : -(k.half * dt) = RCLike.I * ((-(hh * τ) : ℝ) : 𝕜) := by rw [hhalf, hdt]; push_cast; ring
  have hδ2 : -(-(k.half * dt)) = RCLike.I * ((hh * τ : ℝ) : 𝕜) := by rw [hhalf, hdt]; push_cast; ring
  obtain ⟨s1, h1, hcan1, hsp1, hl, _, _, _⟩ := twoSiteUpdate_ok ctx hk hexp hm hH (h.can.toTwoL hi1) h.sp (Nat.le_refl i)
    (Nat.le_succ i) (by rw [mergedA_frob_L h.can hi1 ctx.hH]; exact h.pos) hδ1 (Nat.le_refl 1) ht0 ht1
  rw [Nat.min_self, Nat.max_eq_right (Nat.le_succ i)] at hsp1
  obtain ⟨hiso, hp1⟩ := hl rfl
  obtain ⟨BLn, h2, hP2⟩ := window_left ctx hH hcan1 hsp1 hiso hp1
  obtain ⟨An, h3, hP3⟩ := centre_stepP ctx hexp hm hH hP2 hδ2
  have gBL : getBL (⟨s1.A, s1.qD, s1.BL.setIfInBounds (i + 1) BLn, s1.BR⟩ : Sweep 𝕜) (i + 1) = BLn :=
    getD_setIfInBounds_eq _ _ _ (by rw [hcan1.sizeBL]; exact hi1)
  rw [gBL] at h3
  refine ⟨_, ?_, hP3⟩
  unfold tdvp2Left
  rw [bind_ok]
  refine ⟨s1, h1, ?_⟩
  rw [bind_ok]
  refine ⟨BLn, h2, ?_⟩
  rw [bind_ok]
  exact ⟨An, h3, rfl⟩

/-- **the right-to-left loop body of a two-site TDVP step returns** and keeps `PInv` (centre `i+1 → i`) -/
theorem tdvp2Right_ok (ctx : SweepCtx k H qd numiter) (hk : Compress.SvdKernel k.svd)
    (hexp : ∀ x : ℝ, ‖k.dexp (RCLike.I * (x : 𝕜))‖ = 1)
    {hh τ : ℝ} (hhalf : k.half = ((hh : ℝ) : 𝕜)) {dt : 𝕜} (hdt : dt = RCLike.I * ((τ : ℝ) : 𝕜)) (hm : 1 ≤ numiter)
    (hH : HistWf.HOk H qd) (ht0 : 0 ≤ tol) (ht1 : tol < 1) {s : Sweep 𝕜} {i : Nat} (h : PInv H qd s (i + 1)) :
    ∃ s', tdvp2Right k H qd dt numiter tol s i = .ok s' ∧ PInv H qd s' i := by
  have hδ1 : -(k.half * dt) = RCLike.I * ((-(hh * τ) : ℝ) : 𝕜) := by rw [hhalf, hdt]; push_cast; ring
  have hδ2 : -(-(k.half * dt)) = RCLike.I * ((hh * τ : ℝ) : 𝕜) := by rw [hhalf, hdt]; push_cast; ring
  obtain ⟨An, h1, hP0⟩ := centre_stepP ctx hexp hm hH h hδ2
  obtain ⟨s1, h2, hcan1, hsp1, _, hr, _, _⟩ := twoSiteUpdate_ok ctx hk hexp hm hH hP0.can.toTwoR hP0.sp (Nat.le_succ i)
    (Nat.le_refl _) (by rw [mergedA_frob_R hP0.can ctx.hH]; exact hP0.pos) hδ1 (Nat.zero_le 1) ht0 ht1
  rw [Nat.min_eq_right (Nat.le_succ i), Nat.max_self] at hsp1
  obtain ⟨hiso, hp0⟩ := hr rfl
  obtain ⟨BRn, h3, hP2⟩ := window_right ctx hH hcan1 hsp1 hiso hp0
  refine ⟨_, ?_, hP2⟩
  unfold tdvp2Right
  rw [bind_ok]
  refine ⟨An, h1, ?_⟩
  rw [bind_ok]
  refine ⟨s1, h2, ?_⟩
  rw [bind_ok]
  exact ⟨BRn, h3, rfl⟩

/-- **one complete two-site TDVP time step returns** (`L ≥ 2`) and keeps `PInv` (centre `0`) -/
theorem tdvp2Step_ok (ctx : SweepCtx k H qd numiter) (hk : Compress.SvdKernel k.svd)
    (hexp : ∀ x : ℝ, ‖k.dexp (RCLike.I * (x : 𝕜))‖ = 1)
    {hh τ : ℝ} (hhalf : k.half = ((hh : ℝ) : 𝕜)) {dt : 𝕜} (hdt : dt = RCLike.I * ((τ : ℝ) : 𝕜)) (hm : 1 ≤ numiter)
    (hH : HistWf.HOk H qd) (ht0 : 0 ≤ tol) (ht1 : tol < 1) (hL2 : 2 ≤ H.A.length) {s : Sweep 𝕜} (h : PInv H qd s 0) :
    ∃ s', tdvp2Step k H qd dt numiter tol s = .ok s' ∧ PInv H qd s' 0 := by
  obtain ⟨s1, h1, hs1⟩ := foldIdx_range_ok (tdvp2Left k H qd dt numiter tol) (fun i t => PInv H qd t i) (H.A.length - 2)
    (fun i hi t ht => tdvp2Left_ok ctx hk hexp hhalf hdt hm hH ht0 ht1 ht (by omega)) s h
  have hδ : -dt = RCLike.I * ((-τ : ℝ) : 𝕜) := by rw [hdt]; push_cast; ring
  have hi1 : H.A.length - 2 + 1 < H.A.length := by omega
  obtain ⟨s2, h2, hcan2, hsp2, _, hr, _, _⟩ := twoSiteUpdate_ok ctx hk hexp hm hH (hs1.can.toTwoL hi1) hs1.sp
    (Nat.le_refl _) (Nat.le_succ _) (by rw [mergedA_frob_L hs1.can hi1 ctx.hH]; exact hs1.pos) hδ (Nat.zero_le 1) ht0 ht1
  rw [Nat.min_self, Nat.max_eq_right (Nat.le_succ _)] at hsp2
  obtain ⟨hiso, hp0⟩ := hr rfl
  obtain ⟨BRn, h3, hP3⟩ := window_right ctx hH hcan2 hsp2 hiso hp0
  obtain ⟨s', h4, hs'⟩ := foldIdx_rev_ok (tdvp2Right k H qd dt numiter tol) (fun i t => PInv H qd t i) (H.A.length - 2)
    (fun i hi t ht => tdvp2Right_ok ctx hk hexp hhalf hdt hm hH ht0 ht1 ht) _ hP3
  refine ⟨s', ?_, hs'⟩
  unfold tdvp2Step
  rw [bind_ok]
  refine ⟨s1, h1, ?_⟩
  rw [bind_ok]
  refine ⟨s2, h2, ?_⟩
  rw [bind_ok]
  exact ⟨BRn, h3, h4⟩

/-- **`integrate_local_twosite` returns**, every tolerance `0 ≤ tol < 1` -/
theorem tdvp2_ok {ψ : MPS 𝕜} (ctx : SweepCtx k H ψ.qd numiter) (hk : Compress.SvdKernel k.svd)
    (hexp : ∀ x : ℝ, ‖k.dexp (RCLike.I * (x : 𝕜))‖ = 1)
    {hh τ : ℝ} (hhalf : k.half = ((hh : ℝ) : 𝕜)) {dt : 𝕜} (hdt : dt = RCLike.I * ((τ : ℝ) : 𝕜)) (hm : 1 ≤ numiter)
    (hH : HistWf.HOk H ψ.qd) (hlast : (H.qD.getD H.A.length []).getD 0 0 = 0) (hadm : Admissible ψ)
    (hlen : H.A.length = ψ.A.length) (hL2 : 2 ≤ H.A.length) (ht0 : 0 ≤ tol) (ht1 : tol < 1) (numsteps : Nat) :
    ∃ ψ' nrm, integrateLocalTwosite k H ψ dt numsteps numiter tol = .ok (ψ', nrm) := by
  obtain ⟨s0, nrm, E0, hp, hinv0⟩ := prologue_ok ctx hH hlast hadm hlen
  obtain ⟨s, hit, _⟩ := iterate_ok (tdvp2Step k H ψ.qd dt numiter tol) (fun t => PInv H ψ.qd t 0)
    (fun t ht => tdvp2Step_ok ctx hk hexp hhalf hdt hm hH ht0 ht1 hL2 ht) numsteps s0 (hinv0.toP ctx)
  refine ⟨toMPS ψ s, nrm, ?_⟩
  unfold integrateLocalTwosite
  rw [pyAssert_bind]
  refine ⟨by simp [hlen], ?_⟩
  rw [pyAssert_bind]
  refine ⟨by simpa using hL2, ?_⟩
  rw [bind_ok]
  refine ⟨(s0, nrm), hp, ?_⟩
  dsimp only
  rw [bind_ok]
  exact ⟨s, hit, rfl⟩

end Ptn.Evo

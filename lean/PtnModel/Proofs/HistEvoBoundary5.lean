import PtnModel.Proofs.HistEvoBoundary4
import PtnModel.Proofs.Evo2TotDmrg
import PtnModel.Proofs.Evo2Dmrg
import PtnModel.Proofs.Evo2Example
import PtnModel.Props.C02Evo
/-!
# C02: two-site DMRG keeps the leading bond charges of a non-zero state

The two-site updates rewrite `qD[1..L-1]` only; the final `local_orthonormalize_right_qr` of the first site rewrites `qD[0]`
with the negated intermediate charge of a block QR with the single column charge `-qD[0][0]` — the same charge unless the QR
takes its dummy branch, i.e. unless the first tensor is zero after the sweeps (`normalizeFirst_q0`).  The dummy branch is
excluded in two settings:

* `dmrg2_boundary_contract` — `tol_split = 0`, `L ≥ 2`, the kernel contracts of C10 (`SweepCtx`, `Compress.SvdKernel`):
  the state held by the sweep has norm one (`Evo.dmrg2Sweep_inv`, the two-site analogue of the invariant used for
  `dmrg1_boundary_contract`);
* `dmrg2_boundary_tol` — **every tolerance `0 ≤ tol < 1`, every `L ≥ 1`**, under the hypotheses of the totality theorem
  `C10.dmrg2_total` (block-sparse compatible Hamiltonian with trailing bond charge zero, `numiter ≥ 1`): the positive-norm
  invariant `Evo.PInv` of the totality proof says that the centre tensor is never zero; `dmrg2_boundary_total` is the
  unconditional form (the call returns and keeps both boundary charges).
-/
set_option linter.unusedSectionVars false
namespace Ptn.HistWf
open Ptn Ptn.Evo Ptn.Krylov Ptn.Ortho Ptn.BondOps Ptn.Dense Finset
variable {𝕜 : Type} [RCLike 𝕜] [DecidableEq 𝕜]
variable {k : EvoKernels 𝕜 ℝ} {H : MPO 𝕜} {qd : List Int} {numiter : Nat} {tol : ℝ}

/-! ## the loop bodies do not touch `qD[0]` -/

theorem dmrg2Left_q0 {se se' : Sweep 𝕜 × ℝ} {i : Nat} (h : dmrg2Left k H qd numiter tol se i = .ok se') :
    getQ se'.1 0 = getQ se.1 0 := by
  obtain ⟨s1, en, BLn, h1, _, rfl⟩ := dmrg2Left_unfold h
  obtain ⟨Aopt, A0, A1, qb, _, _, rfl⟩ := Evo.dmrg2Update_unfold h1
  show (se.1.qD.setIfInBounds (i + 1) qb).getD 0 [] = se.1.qD.getD 0 []
  rw [getD_setIfInBounds_ne _ _ _ (by omega)]

theorem dmrg2Right_q0 {se se' : Sweep 𝕜 × ℝ} {i : Nat} (h : dmrg2Right k H qd numiter tol se i = .ok se') :
    getQ se'.1 0 = getQ se.1 0 := by
  obtain ⟨s1, en, BRn, h1, _, rfl⟩ := dmrg2Right_unfold h
  obtain ⟨Aopt, A0, A1, qb, _, _, rfl⟩ := Evo.dmrg2Update_unfold h1
  show (se.1.qD.setIfInBounds (i + 1) qb).getD 0 [] = se.1.qD.getD 0 []
  rw [getD_setIfInBounds_ne _ _ _ (by omega)]

omit [DecidableEq 𝕜] in
/-- a tensor of positive Frobenius norm has a non-zero entry -/
theorem exists_entry_of_pos {A : T3 𝕜} (h : 0 < frob3 A) :
    ∃ σ a b, σ < A.d0 ∧ a < A.d1 ∧ b < A.d2 ∧ A.f σ a b ≠ 0 := by
  have hne : frob3 A ≠ 0 := ne_of_gt h
  unfold frob3 at hne
  obtain ⟨σ, hσ, h1⟩ := Finset.exists_ne_zero_of_sum_ne_zero hne
  obtain ⟨a, ha, h2⟩ := Finset.exists_ne_zero_of_sum_ne_zero h1
  obtain ⟨b, hb, h3⟩ := Finset.exists_ne_zero_of_sum_ne_zero h2
  refine ⟨σ, a, b, Finset.mem_range.1 hσ, Finset.mem_range.1 ha, Finset.mem_range.1 hb, ?_⟩
  intro h0
  apply h3
  rw [h0]; simp

/-! ## zero tolerance, contracts of C10 -/

/-- one two-site DMRG sweep at zero tolerance keeps `qD[0]` (contracts of C10, `L ≥ 2`) -/
theorem dmrg2Sweep_q0 (ctx : SweepCtx k H qd numiter) (hk : Compress.SvdKernel k.svd) (hL2 : 2 ≤ H.A.length)
    {s s' : Sweep 𝕜} {es es' : List ℝ} {E : ℝ} (h : DInv H qd s 0 E)
    (hrun : dmrg2Sweep k H qd numiter (0 : ℝ) (s, es) = .ok (s', es')) : getQ s' 0 = getQ s 0 := by
  obtain ⟨s1, e1, s2, e2, s3, h1, h2, h3, h4⟩ := dmrg2Sweep_unfold hrun
  injection h4 with h4a h4b
  subst h4a h4b
  dsimp only at h1
  have hleft := foldIdx_up (dmrg2Left k H qd numiter 0)
    (fun i (t : Sweep 𝕜 × ℝ) => (∃ E', DInv H qd t.1 i E') ∧ getQ t.1 0 = getQ s 0) (H.A.length - 2)
    (fun i hi t t' ht ht' => by
      obtain ⟨⟨E', hinv⟩, hq⟩ := ht
      have hq' := dmrg2Left_q0 ht'
      obtain ⟨t1, t2⟩ := t
      obtain ⟨t1', t2'⟩ := t'
      obtain ⟨hinv', _, _⟩ := dmrg2Left_inv ctx hk hinv (by omega) ht'
      exact ⟨⟨t2', hinv'⟩, hq'.trans hq⟩)
    (s, 0) (s1, e1) ⟨⟨E, h⟩, rfl⟩ h1
  have hright := foldIdx_rev (dmrg2Right k H qd numiter 0)
    (fun j (t : Sweep 𝕜 × ℝ) => (∃ E', DInv H qd t.1 (min j (H.A.length - 2)) E') ∧ getQ t.1 0 = getQ s 0)
    (H.A.length - 1)
    (fun i hi t t' ht ht' => by
      obtain ⟨⟨E', hinv⟩, hq⟩ := ht
      have hq' := dmrg2Right_q0 ht'
      obtain ⟨t1, t2⟩ := t
      obtain ⟨t1', t2'⟩ := t'
      dsimp only at hinv
      have h2' : DInv2 H qd t1 i E' := by
        by_cases hc : i = H.A.length - 2
        · have e : min (i + 1) (H.A.length - 2) = i := by omega
          rw [e] at hinv
          exact ⟨hinv.can.toTwoL (by omega), hinv.nrm, hinv.en⟩
        · have e : min (i + 1) (H.A.length - 2) = i + 1 := by omega
          rw [e] at hinv
          exact ⟨hinv.can.toTwoR, hinv.nrm, hinv.en⟩
      obtain ⟨hinv', _, _⟩ := dmrg2Right_inv ctx hk h2' ht'
      have e : min i (H.A.length - 2) = i := by omega
      exact ⟨⟨t2', by rw [e]; exact hinv'⟩, hq'.trans hq⟩)
    (s1, e1) (s2, e2)
    ⟨by
      obtain ⟨E1, hinv1⟩ := hleft.1
      have e : min (H.A.length - 1) (H.A.length - 2) = H.A.length - 2 := by omega
      exact ⟨E1, by rw [e]; exact hinv1⟩, hleft.2⟩ h2
  obtain ⟨⟨E2, hinv2⟩, hq2⟩ := hright
  dsimp only at hinv2 hq2
  rw [Nat.zero_min] at hinv2
  have hL : 0 < H.A.length := by omega
  have hfrob : frob3 (getA s2 0) = 1 := by
    have hc := (canon_centre hinv2.can ctx.hH).1
    rw [hinv2.nrm] at hc
    exact_mod_cast hc.symm
  obtain ⟨σ, a, b, hσ, ha, hb, hne⟩ := exists_entry_of_frob hfrob
  have hd1 : (getA s2 0).d1 = 1 := (hinv2.can.wf.shape 0 hL).2.1.trans hinv2.can.q0
  rw [← hq2]
  exact normalizeFirst_q0 ctx.qr.contract.shape hinv2.can.q0 hd1 (by rw [hinv2.can.wf.sizeQ]; omega) hσ ha hb hne h3

/-- reading the leading charge off the final sweep state -/
theorem head_of_q0 {ψ ψ1 : MPS 𝕜} {nrm : ℝ} {dqr : Mat 𝕜 → Mat 𝕜 × Mat 𝕜} (hshape : ∀ B, ShapeAt dqr B)
    (hadm : Admissible ψ) (ho : MPS.orthonormalize (ρ := ℝ) dqr ψ false = .ok (ψ1, nrm)) (hn : nrm ≠ 0)
    {s : Sweep 𝕜} (hsz : 0 < s.qD.size) (hq : getQ s 0 = ψ1.qD.getD 0 []) :
    (toMPS ψ s).qD.head? = ψ.qD.head? := by
  obtain ⟨b1, _⟩ := ortho_mps_boundary hshape (by show RCLike.re (0 : 𝕜) = 0; simp) ho hn
  obtain ⟨hadm1, _, hlen⟩ := C01.ortho_wf (dqr := dqr) hshape hadm ho
  obtain ⟨hl1, _⟩ := wf_index hadm1.wf
  rw [← b1]
  show s.qD.toList.head? = _
  have hsz' : 0 < s.qD.toList.length := by rw [Array.length_toList]; exact hsz
  rw [head?_eq_getD hsz', head?_eq_getD (by omega), toList_getD]
  exact congrArg some hq

/-- **DMRG2 boundary (zero tolerance, contracts)**: for a non-zero admissible state, `L ≥ 2`, `tol_split = 0` and kernels
satisfying the contracts of C10 (`SweepCtx`: QR contract of C01, norm contract, `eigh_tridiagonal` contract at the Lanczos
runs, Hermitian shaped Hamiltonian; `Compress.SvdKernel`: SVD / norm / argsort contracts of `split_matrix_svd`), if
`calculate_ground_state_local_twosite` returns then `qD[0]` and `qD[L]` are kept -/
theorem dmrg2_boundary_contract {ψ ψ' : MPS 𝕜} (ctx : SweepCtx k H ψ.qd numiter) (hk : Compress.SvdKernel k.svd)
    (hL2 : 2 ≤ H.A.length) (hadm : Admissible ψ) {numsweeps : Nat} {en : List ℝ}
    (h : dmrgTwosite k H ψ numsweeps numiter (0 : ℝ) = .ok (ψ', en))
    {σ : List Nat} (hσ : σ ∈ Env.digitsU ψ.qd.length ψ.A.length) (hne : ψ.amp σ ≠ 0) :
    ψ'.qD.head? = ψ.qD.head? ∧ ψ'.qD.getLast? = ψ.qD.getLast? := by
  refine ⟨?_, dmrg2_last ctx.qr.contract.shape hadm h (ortho_norm_ne_zero ctx.qr hadm hσ hne)⟩
  obtain ⟨s0, nrm, s, hp, hit, rfl⟩ := dmrgTwosite_unfold h
  obtain ⟨ψ1', E0, ho1, _, hinv0⟩ := prologue_inv ctx rfl hadm hp
  obtain ⟨hHL, ψ1, BR, ho, _, _, rfl⟩ := prologue_unfold hp
  have ho' : MPS.orthonormalize (ρ := ℝ) k.dqr ψ false = .ok (ψ1, nrm) := ho
  have hn := ortho_norm_ne_zero ctx.qr hadm hσ hne ψ1 nrm ho'
  have hinv := iterate_inv (dmrg2Sweep k H ψ.qd numiter 0)
    (fun (t : Sweep 𝕜 × List ℝ) => (∃ E', DInv H ψ.qd t.1 0 E') ∧ getQ t.1 0 = ψ1.qD.getD 0 [])
    (fun t t' ht ht' => by
      obtain ⟨⟨E', hd⟩, hq⟩ := ht
      obtain ⟨t1, t2⟩ := t
      obtain ⟨t1', t2'⟩ := t'
      obtain ⟨e, _, hd', _, _⟩ := dmrg2Sweep_inv ctx hk hL2 hd ht'
      exact ⟨⟨e, hd'⟩, (dmrg2Sweep_q0 ctx hk hL2 hd ht').trans hq⟩)
    numsweeps (_, []) (s, en) ⟨⟨E0, hinv0⟩, by
      show ψ1.qD.toArray.getD 0 [] = _
      rw [Evo.toArray_getD]⟩ hit
  obtain ⟨⟨E', hd⟩, hq⟩ := hinv
  exact head_of_q0 ctx.qr.contract.shape hadm ho' hn (by rw [hd.can.wf.sizeQ]; omega) hq

/-! ## every tolerance `0 ≤ tol < 1`, hypotheses of the totality theorem -/

/-- the loop bodies keep the positive-norm invariant whenever they return (they do: `dmrg2Left_ok`) -/
theorem dmrg2Left_P (ctx : SweepCtx k H qd numiter) (hk : Compress.SvdKernel k.svd) (hm : 1 ≤ numiter)
    (hH : HOk H qd) (ht0 : 0 ≤ tol) (ht1 : tol < 1) {s : Sweep 𝕜} {e : ℝ} {i : Nat} (h : WInv H qd s i)
    {se' : Sweep 𝕜 × ℝ} (hrun : dmrg2Left k H qd numiter tol (s, e) i = .ok se') : PInv H qd se'.1 (i + 1) := by
  obtain ⟨se'', h1, h2⟩ := dmrg2Left_ok (e := e) ctx hk hm hH ht0 ht1 h
  rw [hrun] at h1
  injection h1 with h1
  rw [h1]; exact h2

theorem dmrg2Right_P (ctx : SweepCtx k H qd numiter) (hk : Compress.SvdKernel k.svd) (hm : 1 ≤ numiter)
    (hH : HOk H qd) (ht0 : 0 ≤ tol) (ht1 : tol < 1) {s : Sweep 𝕜} {e : ℝ} {i : Nat} (h : WInv H qd s i)
    {se' : Sweep 𝕜 × ℝ} (hrun : dmrg2Right k H qd numiter tol (s, e) i = .ok se') : PInv H qd se'.1 i := by
  obtain ⟨se'', h1, h2⟩ := dmrg2Right_ok (e := e) ctx hk hm hH ht0 ht1 h
  rw [hrun] at h1
  injection h1 with h1
  rw [h1]; exact h2

/-- one two-site DMRG sweep keeps the positive-norm invariant and `qD[0]` (every `0 ≤ tol < 1`, every `L ≥ 1`) -/
theorem dmrg2Sweep_P_q0 (ctx : SweepCtx k H qd numiter) (hk : Compress.SvdKernel k.svd) (hm : 1 ≤ numiter)
    (hH : HOk H qd) (ht0 : 0 ≤ tol) (ht1 : tol < 1) {s : Sweep 𝕜} {es : List ℝ} (h : PInv H qd s 0)
    {se' : Sweep 𝕜 × List ℝ} (hrun : dmrg2Sweep k H qd numiter tol (s, es) = .ok se') :
    PInv H qd se'.1 0 ∧ getQ se'.1 0 = getQ s 0 := by
  obtain ⟨s1, e1, s2, e2, s3, h1, h2, h3, rfl⟩ := dmrg2Sweep_unfold hrun
  dsimp only at h1
  have hL : 0 < H.A.length := h.can.hc
  have hleft := foldIdx_up (dmrg2Left k H qd numiter tol)
    (fun i (t : Sweep 𝕜 × ℝ) => PInv H qd t.1 i ∧ getQ t.1 0 = getQ s 0) (H.A.length - 2)
    (fun i hi t t' ht ht' => by
      obtain ⟨hinv, hq⟩ := ht
      have hq' := dmrg2Left_q0 ht'
      obtain ⟨t1, t2⟩ := t
      exact ⟨dmrg2Left_P ctx hk hm hH ht0 ht1 (PInv.toWL hinv (by omega) ctx.hH) ht', hq'.trans hq⟩)
    (s, 0) (s1, e1) ⟨h, rfl⟩ h1
  have hright := foldIdx_rev (dmrg2Right k H qd numiter tol)
    (fun j (t : Sweep 𝕜 × ℝ) => PInv H qd t.1 (min j (H.A.length - 2)) ∧ getQ t.1 0 = getQ s 0)
    (H.A.length - 1)
    (fun i hi t t' ht ht' => by
      obtain ⟨hinv, hq⟩ := ht
      have hq' := dmrg2Right_q0 ht'
      obtain ⟨t1, t2⟩ := t
      dsimp only at hinv
      have hw : WInv H qd t1 i := by
        by_cases hc : i = H.A.length - 2
        · have e : min (i + 1) (H.A.length - 2) = i := by omega
          rw [e] at hinv
          exact PInv.toWL hinv (by omega) ctx.hH
        · have e : min (i + 1) (H.A.length - 2) = i + 1 := by omega
          rw [e] at hinv
          exact PInv.toWR hinv ctx.hH
      have e : min i (H.A.length - 2) = i := by omega
      exact ⟨by rw [e]; exact dmrg2Right_P ctx hk hm hH ht0 ht1 hw ht', hq'.trans hq⟩)
    (s1, e1) (s2, e2)
    ⟨by
      have e : min (H.A.length - 1) (H.A.length - 2) = H.A.length - 2 := by omega
      rw [e]; exact hleft.1, hleft.2⟩ h2
  obtain ⟨hinv2, hq2⟩ := hright
  dsimp only at hinv2 hq2
  rw [Nat.zero_min] at hinv2
  obtain ⟨s3', h3', hP3, _⟩ := normalizeP ctx hinv2
  rw [h3] at h3'
  injection h3' with h3'
  subst h3'
  obtain ⟨σ, a, b, hσ, ha, hb, hne⟩ := exists_entry_of_pos hinv2.pos
  have hd1 : (getA s2 0).d1 = 1 := (hinv2.can.wf.shape 0 hL).2.1.trans hinv2.can.q0
  refine ⟨hP3, ?_⟩
  show getQ s3 0 = _
  rw [← hq2]
  exact normalizeFirst_q0 ctx.qr.contract.shape hinv2.can.q0 hd1 (by rw [hinv2.can.wf.sizeQ]; omega) hσ ha hb hne h3

/-- **DMRG2 boundary (every tolerance)**: for a non-zero admissible state, a well-formed (block-sparse), shaped,
dense-Hermitian MPO compatible with the state (`HOk`) whose trailing bond charge is zero, `numiter ≥ 1`, every chain length
and every `0 ≤ tol < 1`, under the kernel contracts: if `calculate_ground_state_local_twosite` returns (it does,
`Evo.dmrg2_ok`) then `qD[0]` and `qD[L]` are kept -/
theorem dmrg2_boundary_tol {ψ ψ' : MPS 𝕜} (ctx : SweepCtx k H ψ.qd numiter) (hk : Compress.SvdKernel k.svd)
    (hm : 1 ≤ numiter) (hH : HOk H ψ.qd) (hadm : Admissible ψ) (ht0 : 0 ≤ tol) (ht1 : tol < 1)
    {numsweeps : Nat} {en : List ℝ} (h : dmrgTwosite k H ψ numsweeps numiter tol = .ok (ψ', en))
    {σ : List Nat} (hσ : σ ∈ Env.digitsU ψ.qd.length ψ.A.length) (hne : ψ.amp σ ≠ 0) :
    ψ'.qD.head? = ψ.qD.head? ∧ ψ'.qD.getLast? = ψ.qD.getLast? := by
  refine ⟨?_, dmrg2_last ctx.qr.contract.shape hadm h (ortho_norm_ne_zero ctx.qr hadm hσ hne)⟩
  obtain ⟨s0, nrm, s, hp, hit, rfl⟩ := dmrgTwosite_unfold h
  have hL := prologue_pos hp
  obtain ⟨ψ1', E0, ho1, _, hinv0⟩ := prologue_inv ctx rfl hadm hp
  have hT : TInv H ψ.qd s0 0 E0 := ⟨hinv0, prologue_sparse ctx.qr.contract.shape hH hadm.wf hp hL⟩
  obtain ⟨hHL, ψ1, BR, ho, _, _, rfl⟩ := prologue_unfold hp
  have ho' : MPS.orthonormalize (ρ := ℝ) k.dqr ψ false = .ok (ψ1, nrm) := ho
  have hn := ortho_norm_ne_zero ctx.qr hadm hσ hne ψ1 nrm ho'
  have hinv := iterate_inv (dmrg2Sweep k H ψ.qd numiter tol)
    (fun (t : Sweep 𝕜 × List ℝ) => PInv H ψ.qd t.1 0 ∧ getQ t.1 0 = ψ1.qD.getD 0 [])
    (fun t t' ht ht' => by
      obtain ⟨hd, hq⟩ := ht
      obtain ⟨t1, t2⟩ := t
      obtain ⟨hd', hq'⟩ := dmrg2Sweep_P_q0 ctx hk hm hH ht0 ht1 hd ht'
      exact ⟨hd', hq'.trans hq⟩)
    numsweeps (_, []) (s, en) ⟨hT.toP ctx, by
      show ψ1.qD.toArray.getD 0 [] = _
      rw [Evo.toArray_getD]⟩ hit
  obtain ⟨hd, hq⟩ := hinv
  exact head_of_q0 ctx.qr.contract.shape hadm ho' hn (by rw [hd.can.wf.sizeQ]; omega) hq

/-- **DMRG2 boundary — unconditional form**: under the hypotheses of `C10.dmrg2_total` the call returns and keeps `qD[0]`
and `qD[L]` of a non-zero state -/
theorem dmrg2_boundary_total {ψ : MPS 𝕜} (ctx : SweepCtx k H ψ.qd numiter) (hk : Compress.SvdKernel k.svd)
    (hm : 1 ≤ numiter) (hH : HOk H ψ.qd) (hlast : (H.qD.getD H.A.length []).getD 0 0 = 0) (hadm : Admissible ψ)
    (hlen : H.A.length = ψ.A.length) (ht0 : 0 ≤ tol) (ht1 : tol < 1) (numsweeps : Nat)
    {σ : List Nat} (hσ : σ ∈ Env.digitsU ψ.qd.length ψ.A.length) (hne : ψ.amp σ ≠ 0) :
    ∃ ψ' en, dmrgTwosite k H ψ numsweeps numiter tol = .ok (ψ', en) ∧
      ψ'.qD.head? = ψ.qD.head? ∧ ψ'.qD.getLast? = ψ.qD.getLast? := by
  obtain ⟨ψ', en, h⟩ := dmrg2_ok ctx hk hm hH hlast hadm hlen ht0 ht1 numsweeps
  exact ⟨ψ', en, h, dmrg2_boundary_tol ctx hk hm hH hadm ht0 ht1 h hσ hne⟩

/-! ## non-vacuity

The kernels `Evo.exK2` over `ℂ` (QR kernel `realQR`, 2-norm, eigen-decomposition of `1 × 1` matrices, the SVD kernels
`Compress.exKernels ℂ`), one Lanczos iteration, the Hermitian block-sparse two-site MPO `exOC = Z ⊗ 1 + 1 ⊗ Z` and the
admissible non-zero two-site state `exψC = |01⟩ + i|10⟩` satisfy all hypotheses of the three theorems (other than the run,
which `dmrg2_boundary_total` provides). -/

theorem exψC_amp_ne : ∃ σ : List Nat, σ ∈ Env.digitsU exψC.qd.length exψC.A.length ∧ exψC.amp σ ≠ 0 := by
  have hne : ∑ s ∈ Env.digitsU exψC.qd.length exψC.A.length, ‖exψC.amp s‖ ^ 2 ≠ 0 := by
    rw [exψC_normsq]; norm_num
  obtain ⟨σ, hσ, h0⟩ := Finset.exists_ne_zero_of_sum_ne_zero hne
  exact ⟨σ, hσ, fun h => h0 (by rw [h]; simp)⟩

example : SweepCtx exK2 exOC exψC.qd 1 ∧ Compress.SvdKernel exK2.svd ∧ 2 ≤ exOC.A.length ∧ 1 ≤ 1 ∧ HOk exOC exψC.qd ∧
    (exOC.qD.getD exOC.A.length []).getD 0 0 = 0 ∧ Admissible exψC ∧ exOC.A.length = exψC.A.length ∧
    (0 : ℝ) ≤ 1 / 2 ∧ (1 / 2 : ℝ) < 1 :=
  ⟨exK2_ctx, exK2_svd, by decide, le_refl 1, hOk_of_wf C02.exOC_wf C02.exCompat.1 C02.exCompat.2, rfl, exψC_adm, rfl,
    by norm_num, by norm_num⟩

/-- an actual driver-level run with a genuine tolerance keeps both boundary charge lists, every number of sweeps -/
example (numsweeps : Nat) : ∃ ψ' en, dmrgTwosite exK2 exOC exψC numsweeps 1 (1 / 2 : ℝ) = .ok (ψ', en) ∧
    ψ'.qD.head? = exψC.qD.head? ∧ ψ'.qD.getLast? = exψC.qD.getLast? := by
  obtain ⟨σ, hσ, hne⟩ := exψC_amp_ne
  exact dmrg2_boundary_total (k := exK2) (H := exOC) (ψ := exψC) exK2_ctx exK2_svd (le_refl 1)
    (hOk_of_wf C02.exOC_wf C02.exCompat.1 C02.exCompat.2) rfl exψC_adm rfl (by norm_num) (by norm_num) numsweeps hσ hne

/-- the same at zero tolerance through `dmrg2_boundary_contract` -/
example (numsweeps : Nat) : ∃ ψ' en, dmrgTwosite exK2 exOC exψC numsweeps 1 (0 : ℝ) = .ok (ψ', en) ∧
    ψ'.qD.head? = exψC.qD.head? ∧ ψ'.qD.getLast? = exψC.qD.getLast? := by
  obtain ⟨σ, hσ, hne⟩ := exψC_amp_ne
  obtain ⟨ψ', en, h⟩ := dmrg2_ok (k := exK2) (H := exOC) (ψ := exψC) (tol := 0) exK2_ctx exK2_svd (le_refl 1)
    (hOk_of_wf C02.exOC_wf C02.exCompat.1 C02.exCompat.2) rfl exψC_adm rfl (le_refl 0) zero_lt_one numsweeps
  exact ⟨ψ', en, h, dmrg2_boundary_contract exK2_ctx exK2_svd (by decide) exψC_adm h hσ hne⟩

end Ptn.HistWf

import PtnModel.Proofs.EvoLocal
/-!
# Reading the `do` blocks of `Model/Evolution.lean`

For every sweep function: a successful call decomposes into its successful sub-calls and the explicit new sweep state.
Also: `foldlM` / `iterate` invariants in `Except`, `getD` of `setIfInBounds`.
-/
set_option linter.unusedSectionVars false

namespace Ptn.Evo
open Ptn Ptn.Krylov Ptn.Dense

/-! ## generic plumbing -/

theorem getD_setIfInBounds {α : Type} (a : Array α) (i j : Nat) (v d : α) :
    (a.setIfInBounds i v).getD j d = if j = i ∧ i < a.size then v else a.getD j d := by
  simp only [Array.getD_eq_getD_getElem?, Array.getElem?_setIfInBounds]
  by_cases h : i = j
  · subst h
    by_cases h2 : i < a.size
    · simp [h2]
    · simp [h2]
  · have : ¬ j = i := fun e => h e.symm
    simp [h, this]

theorem getD_setIfInBounds_ne {α : Type} (a : Array α) {i j : Nat} (v d : α) (h : j ≠ i) :
    (a.setIfInBounds i v).getD j d = a.getD j d := by
  rw [getD_setIfInBounds, if_neg (fun hh => h hh.1)]

theorem getD_setIfInBounds_eq {α : Type} (a : Array α) {i : Nat} (v d : α) (h : i < a.size) :
    (a.setIfInBounds i v).getD i d = v := by
  rw [getD_setIfInBounds, if_pos ⟨rfl, h⟩]

theorem foldlM_ok_cons {σ β : Type} (f : σ → β → Except Err σ) (s : σ) (x : β) (xs : List β) (r : σ) :
    (x :: xs).foldlM f s = .ok r ↔ ∃ s', f s x = .ok s' ∧ xs.foldlM f s' = .ok r := by
  rw [List.foldlM_cons, bind_ok]

theorem foldlM_ok_nil {σ β : Type} (f : σ → β → Except Err σ) (s r : σ) :
    ([] : List β).foldlM f s = .ok r ↔ s = r := by
  rw [List.foldlM_nil, pure_ok]

/-- invariant of a successful `foldIdx`, with the position in the index list: `P pre s` holds after the indices `pre` -/
theorem foldIdx_ind {σ : Type} (f : σ → Nat → Except Err σ) (P : List Nat → σ → Prop)
    (step : ∀ pre x s s', P pre s → f s x = .ok s' → P (pre ++ [x]) s') :
    ∀ (l pre : List Nat) (s r : σ), P pre s → foldIdx f l s = .ok r → P (pre ++ l) r := by
  intro l
  induction l with
  | nil => intro pre s r h hr; unfold foldIdx at hr; rw [foldlM_ok_nil] at hr; subst hr; simpa using h
  | cons x xs ih =>
    intro pre s r h hr
    unfold foldIdx at hr
    rw [foldlM_ok_cons] at hr
    obtain ⟨s', h1, h2⟩ := hr
    have := ih (pre ++ [x]) s' r (step pre x s s' h h1) h2
    simpa using this

/-- plain invariant of a successful `foldIdx` over indices satisfying `Q` -/
theorem foldIdx_inv {σ : Type} (f : σ → Nat → Except Err σ) (P : σ → Prop) (Q : Nat → Prop)
    (step : ∀ x s s', Q x → P s → f s x = .ok s' → P s') (l : List Nat) (hl : ∀ x ∈ l, Q x) (s r : σ) (h : P s)
    (hr : foldIdx f l s = .ok r) : P r := by
  induction l generalizing s with
  | nil => unfold foldIdx at hr; rw [foldlM_ok_nil] at hr; subst hr; exact h
  | cons x xs ih =>
    unfold foldIdx at hr
    rw [foldlM_ok_cons] at hr
    obtain ⟨s', h1, h2⟩ := hr
    exact ih (fun y hy => hl y (List.mem_cons_of_mem _ hy)) s' (step x s s' (hl x List.mem_cons_self) h h1) h2

theorem iterate_inv {σ : Type} (f : σ → Except Err σ) (P : σ → Prop) (step : ∀ s s', P s → f s = .ok s' → P s') :
    ∀ (n : Nat) (s r : σ), P s → iterate f n s = .ok r → P r
  | 0, s, r, h, hr => by
    unfold iterate at hr
    injection hr with hr; subst hr; exact h
  | n + 1, s, r, h, hr => by
    unfold iterate at hr
    rw [bind_ok] at hr
    obtain ⟨s', h1, h2⟩ := hr
    exact iterate_inv f P step n s' r (step s s' h h1) h2

variable {𝕜 : Type} [RCLike 𝕜] [DecidableEq 𝕜]

/-- `einsum(A[i+1], (0,3,2), C, (1,3), (0,1,2))`: multiply the next tensor with `C` from the left -/
def pushLeft (An : T3 𝕜) (C1 : Mat 𝕜) : T3 𝕜 :=
  (⟨An.d0, C1.m, An.d2, fun sp p c => sumRange An.d1 fun b => An.f sp b c * C1.f p b⟩ : T3 𝕜).tab

/-- `einsum(A[i-1], (0,1,3), C, (3,2), (0,1,2))`: multiply the previous tensor with `C` from the right -/
def pushRight (Ap : T3 𝕜) (C1 : Mat 𝕜) : T3 𝕜 :=
  (⟨Ap.d0, Ap.d1, C1.n, fun sp a p => sumRange Ap.d2 fun b => Ap.f sp a b * C1.f b p⟩ : T3 𝕜).tab

/-! ## prologue -/

theorem prologue_unfold {k : EvoKernels 𝕜 ℝ} {H : MPO 𝕜} {ψ : MPS 𝕜} {s0 : Sweep 𝕜} {nrm : ℝ}
    (h : prologue k H ψ = .ok (s0, nrm)) :
    H.A.length = ψ.A.length ∧ ∃ ψ1 BR, MPS.orthonormalize (ρ := ℝ) k.dqr ψ false = .ok (ψ1, nrm) ∧
      Op.rightBlocks ψ1 H = .ok BR ∧
      (∀ i, i < BR.length → blockSparse (BR.getD i emptyT3) (ψ1.qD.getD (i + 1) []) (H.qD.getD (i + 1) []) = true) ∧
      s0 = ⟨ψ1.A.toArray, ψ1.qD.toArray, (Array.replicate H.A.length emptyT3).setIfInBounds 0 ones111, BR.toArray⟩ := by
  unfold prologue at h
  rw [pyAssert_bind] at h
  obtain ⟨hL, h⟩ := h
  rw [bind_ok] at h
  obtain ⟨⟨ψ1, nrm'⟩, h1, h⟩ := h
  dsimp only at h
  rw [bind_ok] at h
  obtain ⟨BR, h2, h⟩ := h
  rw [bind_ok] at h
  obtain ⟨u, h3, h⟩ := h
  rw [pure_ok] at h
  injection h with ha hb
  subst hb
  refine ⟨by simpa using hL, ψ1, BR, h1, h2, ?_, ha.symm⟩
  -- the consistency loop
  intro i hi
  have key : ∀ (l : List Nat) (u : PUnit),
      (forIn l PUnit.unit fun i (_ : PUnit) => (do
        pyAssert (blockSparse (BR.getD i emptyT3) (ψ1.qD.getD (i + 1) []) (H.qD.getD (i + 1) []))
        pure (ForInStep.yield PUnit.unit) : Except Err (ForInStep PUnit))) = Except.ok u →
      ∀ i ∈ l, blockSparse (BR.getD i emptyT3) (ψ1.qD.getD (i + 1) []) (H.qD.getD (i + 1) []) = true := by
    intro l
    induction l with
    | nil => intro _ _ i hi; simp at hi
    | cons x xs ih =>
      intro u hu i hi
      rw [List.forIn_cons, bind_ok] at hu
      obtain ⟨st, hst, hu⟩ := hu
      rw [pyAssert_bind] at hst
      obtain ⟨hx, hst⟩ := hst
      rw [pure_ok] at hst
      subst hst
      rcases List.mem_cons.1 hi with rfl | hi
      · exact hx
      · exact ih u hu i hi
  exact key _ u h3 i (List.mem_range.2 hi)

/-! ## single-site TDVP -/

theorem tdvp1Left_unfold {k : EvoKernels 𝕜 ℝ} {H : MPO 𝕜} {qd : List Int} {dt : 𝕜} {numiter : Nat} {s s' : Sweep 𝕜}
    {i : Nat} (h : tdvp1Left k H qd dt numiter s i = .ok s') :
    ∃ A1 Q C qb BLn C1,
      localHamiltonianStep k (getBL s i) (getBR s i) (H.A.getD i zeroT4) (getA s i) (k.half * dt) numiter = .ok A1 ∧
      BondOps.qr k.dqr A1.flattenLeft.tab (QN.flatten2 qd (getQ s i)) (getQ s (i + 1)) = .ok (Q, C, qb) ∧
      Op.opStepLeft (T3.ofFlattenLeft Q A1.d0 A1.d1).tab (T3.ofFlattenLeft Q A1.d0 A1.d1).tab (H.A.getD i zeroT4)
        (getBL s i) = .ok BLn ∧
      localBondStep k BLn (getBR s i) C (-(k.half * dt)) numiter = .ok C1 ∧
      C1.n = (getA s (i + 1)).d1 ∧
      s' = ⟨(s.A.setIfInBounds i (T3.ofFlattenLeft Q A1.d0 A1.d1).tab).setIfInBounds (i + 1) (pushLeft (getA s (i + 1)) C1),
        s.qD.setIfInBounds (i + 1) qb, s.BL.setIfInBounds (i + 1) BLn, s.BR⟩ := by
  unfold tdvp1Left at h
  rw [bind_ok] at h
  obtain ⟨A1, h1, h⟩ := h
  rw [bind_ok] at h
  obtain ⟨⟨Q, C, qb⟩, h2, h⟩ := h
  dsimp only at h
  rw [bind_ok] at h
  obtain ⟨BLn, h3, h⟩ := h
  rw [bind_ok] at h
  obtain ⟨C1, h4, h⟩ := h
  by_cases hc : C1.n = (getA s (i + 1)).d1
  · simp only [hc, ne_eq, not_true_eq_false, if_false] at h
    rw [pure_ok] at h
    exact ⟨A1, Q, C, qb, BLn, C1, h1, h2, h3, h4, hc, h.symm⟩
  · simp only [hc, ne_eq, not_false_eq_true, if_true, throw_bind_ne] at h

theorem tdvp1Right_unfold {k : EvoKernels 𝕜 ℝ} {H : MPO 𝕜} {qd : List Int} {dt : 𝕜} {numiter : Nat} {s s' : Sweep 𝕜}
    {i : Nat} (h : tdvp1Right k H qd dt numiter s i = .ok s') :
    ∃ Q C qb BRn C1 Ap2,
      BondOps.qr k.dqr (getA s i).swap12.flattenLeft.tab (QN.flatten2 qd (QN.neg (getQ s (i + 1)))) (QN.neg (getQ s i)) =
        .ok (Q, C, qb) ∧
      Op.opStepRight (T3.ofFlattenLeft Q (getA s i).d0 (getA s i).d2).swap12.tab
        (T3.ofFlattenLeft Q (getA s i).d0 (getA s i).d2).swap12.tab (H.A.getD i zeroT4) (getBR s i) = .ok BRn ∧
      localBondStep k (getBL s i) BRn C.transpose.tab (-(k.half * dt)) numiter = .ok C1 ∧
      C1.m = (getA s (i - 1)).d2 ∧
      localHamiltonianStep k
        (getBL (⟨s.A.setIfInBounds i (T3.ofFlattenLeft Q (getA s i).d0 (getA s i).d2).swap12.tab,
          s.qD.setIfInBounds i (QN.neg qb), s.BL, s.BR.setIfInBounds (i - 1) BRn⟩ : Sweep 𝕜) (i - 1))
        BRn (H.A.getD (i - 1) zeroT4) (pushRight (getA s (i - 1)) C1) (k.half * dt) numiter = .ok Ap2 ∧
      s' = ⟨(s.A.setIfInBounds i (T3.ofFlattenLeft Q (getA s i).d0 (getA s i).d2).swap12.tab).setIfInBounds (i - 1) Ap2,
        s.qD.setIfInBounds i (QN.neg qb), s.BL, s.BR.setIfInBounds (i - 1) BRn⟩ := by
  unfold tdvp1Right at h
  rw [bind_ok] at h
  obtain ⟨⟨Q, C, qb⟩, h1, h⟩ := h
  dsimp only at h
  rw [bind_ok] at h
  obtain ⟨BRn, h2, h⟩ := h
  rw [bind_ok] at h
  obtain ⟨C1, h3, h⟩ := h
  by_cases hc : C1.m = (getA s (i - 1)).d2
  · simp only [hc, ne_eq, not_true_eq_false, if_false] at h
    rw [bind_ok] at h
    obtain ⟨Ap2, h4, h⟩ := h
    rw [pure_ok] at h
    exact ⟨Q, C, qb, BRn, C1, Ap2, h1, h2, h3, hc, h4, h.symm⟩
  · simp only [hc, ne_eq, not_false_eq_true, if_true, throw_bind_ne] at h

theorem tdvp1Step_unfold {k : EvoKernels 𝕜 ℝ} {H : MPO 𝕜} {qd : List Int} {dt : 𝕜} {numiter : Nat} {s s' : Sweep 𝕜}
    (h : tdvp1Step k H qd dt numiter s = .ok s') :
    ∃ s1 Al,
      foldIdx (tdvp1Left k H qd dt numiter) (List.range (H.A.length - 1)) s = .ok s1 ∧
      localHamiltonianStep k (getBL s1 (H.A.length - 1)) (getBR s1 (H.A.length - 1)) (H.A.getD (H.A.length - 1) zeroT4)
        (getA s1 (H.A.length - 1)) dt numiter = .ok Al ∧
      foldIdx (tdvp1Right k H qd dt numiter) ((List.range (H.A.length - 1)).reverse.map (· + 1))
        ⟨s1.A.setIfInBounds (H.A.length - 1) Al, s1.qD, s1.BL, s1.BR⟩ = .ok s' := by
  unfold tdvp1Step at h
  rw [bind_ok] at h
  obtain ⟨s1, h1, h⟩ := h
  rw [bind_ok] at h
  obtain ⟨Al, h2, h⟩ := h
  exact ⟨s1, Al, h1, h2, h⟩

theorem integrate1_unfold {k : EvoKernels 𝕜 ℝ} {H : MPO 𝕜} {ψ ψ' : MPS 𝕜} {dt : 𝕜} {numsteps numiter : Nat} {nrm : ℝ}
    (h : integrateLocalSinglesite k H ψ dt numsteps numiter = .ok (ψ', nrm)) :
    ∃ s0 s, prologue k H ψ = .ok (s0, nrm) ∧ H.A.length ≠ 0 ∧
      iterate (tdvp1Step k H ψ.qd dt numiter) numsteps s0 = .ok s ∧ ψ' = toMPS ψ s := by
  unfold integrateLocalSinglesite at h
  rw [bind_ok] at h
  obtain ⟨⟨s0, nrm'⟩, h1, h⟩ := h
  dsimp only at h
  by_cases hL : H.A.length = 0
  · simp only [hL, if_true, throw_bind_ne] at h
  · simp only [hL, if_false] at h
    rw [bind_ok] at h
    obtain ⟨s, h2, h⟩ := h
    rw [pure_ok] at h
    injection h with ha hb
    subst hb
    exact ⟨s0, s, h1, hL, h2, ha.symm⟩

/-! ## two-site TDVP -/

theorem twoSiteUpdate_unfold {k : EvoKernels 𝕜 ℝ} {H : MPO 𝕜} {qd : List Int} {tau : 𝕜} {numiter : Nat} {tol : ℝ}
    {distr : Nat} {s s' : Sweep 𝕜} {i : Nat} (h : twoSiteUpdate k H qd tau numiter tol distr s i = .ok s') :
    ∃ Am1 A0 A1 qb,
      localHamiltonianStep k (getBL s i) (getBR s (i + 1))
        (MPO.mergePair (H.A.getD i zeroT4) (H.A.getD (i + 1) zeroT4)).tab
        (MPS.mergePair (getA s i) (getA s (i + 1))).tab tau numiter = .ok Am1 ∧
      MPS.splitMpsTensor k.svd k.dsqrt Am1 qd qd (getQ s i) (getQ s (i + 2)) distr tol = .ok (A0, A1, qb) ∧
      s' = ⟨(s.A.setIfInBounds i A0).setIfInBounds (i + 1) A1, s.qD.setIfInBounds (i + 1) qb, s.BL, s.BR⟩ := by
  unfold twoSiteUpdate at h
  rw [bind_ok] at h
  obtain ⟨Am1, h1, h⟩ := h
  rw [bind_ok] at h
  obtain ⟨⟨A0, A1, qb⟩, h2, h⟩ := h
  dsimp only at h
  rw [pure_ok] at h
  exact ⟨Am1, A0, A1, qb, h1, h2, h.symm⟩

theorem tdvp2Left_unfold {k : EvoKernels 𝕜 ℝ} {H : MPO 𝕜} {qd : List Int} {dt : 𝕜} {numiter : Nat} {tol : ℝ}
    {s s' : Sweep 𝕜} {i : Nat} (h : tdvp2Left k H qd dt numiter tol s i = .ok s') :
    ∃ s1 BLn An,
      twoSiteUpdate k H qd (k.half * dt) numiter tol 1 s i = .ok s1 ∧
      Op.opStepLeft (getA s1 i) (getA s1 i) (H.A.getD i zeroT4) (getBL s1 i) = .ok BLn ∧
      localHamiltonianStep k BLn (getBR s1 (i + 1)) (H.A.getD (i + 1) zeroT4) (getA s1 (i + 1)) (-(k.half * dt)) numiter
        = .ok An ∧
      s' = ⟨s1.A.setIfInBounds (i + 1) An, s1.qD, s1.BL.setIfInBounds (i + 1) BLn, s1.BR⟩ := by
  unfold tdvp2Left at h
  rw [bind_ok] at h
  obtain ⟨s1, h1, h⟩ := h
  rw [bind_ok] at h
  obtain ⟨BLn, h2, h⟩ := h
  rw [bind_ok] at h
  obtain ⟨An, h3, h⟩ := h
  rw [pure_ok] at h
  exact ⟨s1, BLn, An, h1, h2, h3, h.symm⟩

theorem tdvp2Right_unfold {k : EvoKernels 𝕜 ℝ} {H : MPO 𝕜} {qd : List Int} {dt : 𝕜} {numiter : Nat} {tol : ℝ}
    {s s' : Sweep 𝕜} {i : Nat} (h : tdvp2Right k H qd dt numiter tol s i = .ok s') :
    ∃ An s1 BRn,
      localHamiltonianStep k (getBL s (i + 1)) (getBR s (i + 1)) (H.A.getD (i + 1) zeroT4) (getA s (i + 1))
        (-(k.half * dt)) numiter = .ok An ∧
      twoSiteUpdate k H qd (k.half * dt) numiter tol 0 ⟨s.A.setIfInBounds (i + 1) An, s.qD, s.BL, s.BR⟩ i = .ok s1 ∧
      Op.opStepRight (getA s1 (i + 1)) (getA s1 (i + 1)) (H.A.getD (i + 1) zeroT4) (getBR s1 (i + 1)) = .ok BRn ∧
      s' = ⟨s1.A, s1.qD, s1.BL, s1.BR.setIfInBounds i BRn⟩ := by
  unfold tdvp2Right at h
  rw [bind_ok] at h
  obtain ⟨An, h1, h⟩ := h
  rw [bind_ok] at h
  obtain ⟨s1, h2, h⟩ := h
  rw [bind_ok] at h
  obtain ⟨BRn, h3, h⟩ := h
  rw [pure_ok] at h
  exact ⟨An, s1, BRn, h1, h2, h3, h.symm⟩

theorem tdvp2Step_unfold {k : EvoKernels 𝕜 ℝ} {H : MPO 𝕜} {qd : List Int} {dt : 𝕜} {numiter : Nat} {tol : ℝ}
    {s s' : Sweep 𝕜} (h : tdvp2Step k H qd dt numiter tol s = .ok s') :
    ∃ s1 s2 BRn,
      foldIdx (tdvp2Left k H qd dt numiter tol) (List.range (H.A.length - 2)) s = .ok s1 ∧
      twoSiteUpdate k H qd dt numiter tol 0 s1 (H.A.length - 2) = .ok s2 ∧
      Op.opStepRight (getA s2 (H.A.length - 2 + 1)) (getA s2 (H.A.length - 2 + 1)) (H.A.getD (H.A.length - 2 + 1) zeroT4)
        (getBR s2 (H.A.length - 2 + 1)) = .ok BRn ∧
      foldIdx (tdvp2Right k H qd dt numiter tol) (List.range (H.A.length - 2)).reverse
        ⟨s2.A, s2.qD, s2.BL, s2.BR.setIfInBounds (H.A.length - 2) BRn⟩ = .ok s' := by
  unfold tdvp2Step at h
  rw [bind_ok] at h
  obtain ⟨s1, h1, h⟩ := h
  rw [bind_ok] at h
  obtain ⟨s2, h2, h⟩ := h
  rw [bind_ok] at h
  obtain ⟨BRn, h3, h⟩ := h
  exact ⟨s1, s2, BRn, h1, h2, h3, h⟩

theorem integrate2_unfold {k : EvoKernels 𝕜 ℝ} {H : MPO 𝕜} {ψ ψ' : MPS 𝕜} {dt : 𝕜} {numsteps numiter : Nat} {tol nrm : ℝ}
    (h : integrateLocalTwosite k H ψ dt numsteps numiter tol = .ok (ψ', nrm)) :
    ∃ s0 s, prologue k H ψ = .ok (s0, nrm) ∧ 2 ≤ H.A.length ∧
      iterate (tdvp2Step k H ψ.qd dt numiter tol) numsteps s0 = .ok s ∧ ψ' = toMPS ψ s := by
  unfold integrateLocalTwosite at h
  rw [pyAssert_bind] at h
  obtain ⟨_, h⟩ := h
  rw [pyAssert_bind] at h
  obtain ⟨hL, h⟩ := h
  rw [bind_ok] at h
  obtain ⟨⟨s0, nrm'⟩, h1, h⟩ := h
  dsimp only at h
  rw [bind_ok] at h
  obtain ⟨s, h2, h⟩ := h
  rw [pure_ok] at h
  injection h with ha hb
  subst hb
  exact ⟨s0, s, h1, of_decide_eq_true hL, h2, ha.symm⟩

/-! ## single-site DMRG -/

theorem dmrg1Left_unfold {k : EvoKernels 𝕜 ℝ} {H : MPO 𝕜} {qd : List Int} {numiter : Nat} {se se' : Sweep 𝕜 × ℝ}
    {i : Nat} (h : dmrg1Left k H qd numiter se i = .ok se') :
    ∃ en Aopt Ai An qb BLn,
      minimizeLocalEnergy k (getBL se.1 i) (getBR se.1 i) (H.A.getD i zeroT4) (getA se.1 i) numiter = .ok (en, Aopt) ∧
      MPS.localOrthoLeftQr k.dqr Aopt (getA se.1 (i + 1)) qd (getQ se.1 i) (getQ se.1 (i + 1)) = .ok (Ai, An, qb) ∧
      Op.opStepLeft Ai Ai (H.A.getD i zeroT4) (getBL se.1 i) = .ok BLn ∧
      se' = (⟨(se.1.A.setIfInBounds i Ai).setIfInBounds (i + 1) An, se.1.qD.setIfInBounds (i + 1) qb,
        se.1.BL.setIfInBounds (i + 1) BLn, se.1.BR⟩, en) := by
  unfold dmrg1Left at h
  rw [bind_ok] at h
  obtain ⟨⟨en, Aopt⟩, h1, h⟩ := h
  dsimp only at h
  rw [bind_ok] at h
  obtain ⟨⟨Ai, An, qb⟩, h2, h⟩ := h
  dsimp only at h
  rw [bind_ok] at h
  obtain ⟨BLn, h3, h⟩ := h
  rw [pure_ok] at h
  exact ⟨en, Aopt, Ai, An, qb, BLn, h1, h2, h3, h.symm⟩

theorem dmrg1Right_unfold {k : EvoKernels 𝕜 ℝ} {H : MPO 𝕜} {qd : List Int} {numiter : Nat} {se se' : Sweep 𝕜 × ℝ}
    {i : Nat} (h : dmrg1Right k H qd numiter se i = .ok se') :
    ∃ en Aopt Ai Ap qb BRn,
      minimizeLocalEnergy k (getBL se.1 i) (getBR se.1 i) (H.A.getD i zeroT4) (getA se.1 i) numiter = .ok (en, Aopt) ∧
      MPS.localOrthoRightQr k.dqr Aopt (getA se.1 (i - 1)) qd (getQ se.1 i) (getQ se.1 (i + 1)) = .ok (Ai, Ap, qb) ∧
      Op.opStepRight Ai Ai (H.A.getD i zeroT4) (getBR se.1 i) = .ok BRn ∧
      se' = (⟨(se.1.A.setIfInBounds i Ai).setIfInBounds (i - 1) Ap, se.1.qD.setIfInBounds i qb, se.1.BL,
        se.1.BR.setIfInBounds (i - 1) BRn⟩, en) := by
  unfold dmrg1Right at h
  rw [bind_ok] at h
  obtain ⟨⟨en, Aopt⟩, h1, h⟩ := h
  dsimp only at h
  rw [bind_ok] at h
  obtain ⟨⟨Ai, Ap, qb⟩, h2, h⟩ := h
  dsimp only at h
  rw [bind_ok] at h
  obtain ⟨BRn, h3, h⟩ := h
  rw [pure_ok] at h
  exact ⟨en, Aopt, Ai, Ap, qb, BRn, h1, h2, h3, h.symm⟩

theorem dmrgNormalizeFirst_unfold {k : EvoKernels 𝕜 ℝ} {qd : List Int} {s s' : Sweep 𝕜}
    (h : dmrgNormalizeFirst k qd s = .ok s') :
    ∃ A0 X qb, MPS.localOrthoRightQr k.dqr (getA s 0) MPS.ones111 qd (getQ s 0) (getQ s 1) = .ok (A0, X, qb) ∧
      s' = ⟨s.A.setIfInBounds 0 A0, s.qD.setIfInBounds 0 qb, s.BL, s.BR⟩ := by
  unfold dmrgNormalizeFirst at h
  rw [bind_ok] at h
  obtain ⟨⟨A0, X, qb⟩, h1, h⟩ := h
  dsimp only at h
  rw [pure_ok] at h
  exact ⟨A0, X, qb, h1, h.symm⟩

theorem dmrg1Sweep_unfold {k : EvoKernels 𝕜 ℝ} {H : MPO 𝕜} {qd : List Int} {numiter : Nat}
    {se se' : Sweep 𝕜 × List ℝ} (h : dmrg1Sweep k H qd numiter se = .ok se') :
    ∃ s1 e1 s2 e2 s3,
      foldIdx (dmrg1Left k H qd numiter) (List.range (H.A.length - 1)) (se.1, (0 : ℝ)) = .ok (s1, e1) ∧
      foldIdx (dmrg1Right k H qd numiter) ((List.range (H.A.length - 1)).reverse.map (· + 1)) (s1, e1) = .ok (s2, e2) ∧
      dmrgNormalizeFirst k qd s2 = .ok s3 ∧ se' = (s3, se.2 ++ [e2]) := by
  unfold dmrg1Sweep at h
  rw [bind_ok] at h
  obtain ⟨⟨s1, e1⟩, h1, h⟩ := h
  dsimp only at h
  rw [bind_ok] at h
  obtain ⟨⟨s2, e2⟩, h2, h⟩ := h
  dsimp only at h
  rw [bind_ok] at h
  obtain ⟨s3, h3, h⟩ := h
  rw [pure_ok] at h
  exact ⟨s1, e1, s2, e2, s3, h1, h2, h3, h.symm⟩

theorem dmrgSinglesite_unfold {k : EvoKernels 𝕜 ℝ} {H : MPO 𝕜} {ψ ψ' : MPS 𝕜} {numsweeps numiter : Nat} {en : List ℝ}
    (h : dmrgSinglesite k H ψ numsweeps numiter = .ok (ψ', en)) :
    ∃ s0 nrm s, prologue k H ψ = .ok (s0, nrm) ∧
      iterate (dmrg1Sweep k H ψ.qd numiter) numsweeps (s0, []) = .ok (s, en) ∧ ψ' = toMPS ψ s := by
  unfold dmrgSinglesite at h
  rw [bind_ok] at h
  obtain ⟨⟨s0, nrm⟩, h1, h⟩ := h
  dsimp only at h
  rw [bind_ok] at h
  obtain ⟨⟨s, en'⟩, h2, h⟩ := h
  dsimp only at h
  rw [pure_ok] at h
  injection h with ha hb
  subst hb
  exact ⟨s0, nrm, s, h1, h2, ha.symm⟩

end Ptn.Evo

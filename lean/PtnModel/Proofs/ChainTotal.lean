import PtnModel.Proofs.ChainInv
import PtnModel.Props.C18
/-!
# One sweep step of `from_opchains` does not raise and re-establishes the invariant
-/
set_option linter.unusedSectionVars false

namespace Ptn.Ch
open Ptn Ptn.Og Ptn.Bip List

variable {κ : Type} [CommRing κ] [DecidableEq κ]

theorem mem_zip_of_mem_left {α β : Type} : ∀ (l1 : List α) (l2 : List β), l1.length = l2.length →
    ∀ a ∈ l1, ∃ b, (a, b) ∈ l1.zip l2 := by
  intro l1
  induction l1 with
  | nil => intro l2 _ a ha; simp at ha
  | cons x l1 ih =>
    intro l2 hl a ha
    cases l2 with
    | nil => simp at hl
    | cons y l2 =>
      rcases mem_cons.1 ha with rfl | ha
      · exact ⟨y, by simp⟩
      · obtain ⟨b, hb⟩ := ih l2 (by simpa using hl) a ha
        exact ⟨b, by simp [hb]⟩

theorem siteStep_total {L : Nat} {id : Int} {k : Nat} {lay : Int → Nat} (s : ChState κ)
    (w : WInv L id k lay s) (hk : k < L) :
    ∃ s', siteStep s = .ok s' ∧ (∃ lay', WInv L id (k + 1) lay' s') ∧ (k + 1 = L → s'.vlistNext.length = 1) := by
  -- the partition
  obtain ⟨p, hp⟩ := sitePartition_ok s.vlistNext s.coeffsNext (fun h hh => by
    have := w.hc h hh
    exact ⟨by have := this.olen; omega, this.qlen⟩)
  have hI := sitePartition_inv _ _ _ hp
  have hz : s.vlistNext.zip s.coeffsNext ≠ [] := by
    intro h0
    rcases zip_eq_nil_iff.1 h0 with h0 | h0
    · exact w.hne h0
    · have := w.len; rw [h0] at this
      exact w.hne (length_eq_zero_iff.1 this)
  obtain ⟨e0, he0⟩ := exists_mem_of_ne_nil _ (hI.nonempty hz)
  have hr0 := hI.range e0 he0
  -- the bipartite graph and the cover
  obtain ⟨bg, hbg, hwf, hnU, hnV, hadj⟩ := bgraph_mk'_spec p.ulist.length p.vlist.length p.edges (by omega) (by omega)
    hI.range
  have c : Ctx L id k lay s p bg := ⟨w, hI, hwf, hnU, hnV, hadj⟩
  obtain ⟨uc, vc, hmvc⟩ := Ptn.C18.mvc_total hwf
  obtain ⟨m, hhk, huc, hvc, hucn, _, hcover, hsize⟩ := Ptn.C18.cover_valid_and_size hwf hmvc
  -- the two loops
  have hM0 : MW s p bg [] [] ({ s with vlistNext := [], coeffsNext := [], edges := p.edges } : ChState κ) :=
    ⟨w.star, le_refl _, fun _ _ => rfl, ⟨[], by simp, by simp⟩, hI.nodup, by simp, rfl, by simp, by simp,
      by rintro ⟨e, he, hne⟩; exact absurd he hne, fun x h1 (h2 : x < s.nidNext) => by omega,
      by intro e he hne; exact absurd he hne⟩
  obtain ⟨t2, ht2, hM2⟩ := uLoop_mw c uc [] _ hM0 (fun i hi => ⟨by rw [← hnU]; exact huc i hi, by simp⟩) hucn
  obtain ⟨t3, ht3, hM3⟩ := vLoop_mw c ([] ++ uc) vc [] t2 hM2 (fun j hj => by rw [← hnV]; exact hvc j hj)
  simp only [nil_append] at hM3
  have hempty : t3.edges = [] := by
    rw [eq_nil_iff_forall_not_mem]
    intro e he
    obtain ⟨h1, h2, h3⟩ := (hM3.emem e).1 he
    rcases hcover e.1 e.2 ((hadj e.1 e.2).2 h1) with h | h
    · exact h2 h
    · exact h3 h
  have hstep : siteStep s = .ok t3 := by
    unfold siteStep
    simp only [bind_ok_iff, pyAssert_ok_iff, pure_ok_iff]
    exact ⟨p, hp, bg, hbg, (uc, vc), hmvc, t2, ht2, t3, ht3, (), by simp [hempty], rfl⟩
  refine ⟨t3, hstep, ⟨fun x => if s.nidNext ≤ x then k + 1 else lay x, ?_⟩, ?_⟩
  · -- the invariant after the step
    have hpos := w.star.nnPos
    obtain ⟨new, hnew, hnew'⟩ := hM3.ext
    have hne3 : t3.vlistNext ≠ [] := hM3.handled ⟨e0, he0, by rw [hempty]; simp⟩
    have hsrc : ∀ h ∈ t3.vlistNext, ∃ h0 ∈ s.vlistNext, ∃ o q, h0.oids = o :: h.oids ∧ h0.qnums = q :: h.qnums := by
      intro h hh
      obtain ⟨_, _, _, v, hv, ho, hq⟩ := hM3.hc h hh
      obtain ⟨_, _, hc0, hc1, o, q, h1, h2⟩ := hI.vsrc v hv
      exact ⟨hc0.1, (of_mem_zip (a := hc0.1) (b := hc0.2) hc1).1, o, q, by rw [ho]; exact h1, by rw [hq]; exact h2⟩
    refine ⟨hM3.star, by show (if s.nidNext ≤ 0 then k + 1 else lay 0) = 0; rw [if_neg (by omega)]; exact w.lay0, ?_, ?_, ?_, hne3, hM3.len, ?_, ?_, ?_⟩
    · intro e he
      rw [hnew, mem_append] at he
      rcases he with he | he
      · have := w.star.edgeOK e he
        have h1 : ¬ s.nidNext ≤ e.nids.2 := by omega
        have h2 : ¬ s.nidNext ≤ e.nids.1 := by omega
        simp only [h1, h2, if_false]
        exact w.layE e he
      · obtain ⟨h1, u, hu, h2⟩ := hnew' e he
        obtain ⟨_, hul, hlay, _⟩ := c.u_ok hu
        have h3 : ¬ s.nidNext ≤ u.nidl := by omega
        simp only [h1, h3, if_true, if_false, h2, hlay]
    · intro x hx1 hx2
      by_cases hx : s.nidNext ≤ x
      · simp only [hx, if_true]; omega
      · simp only [hx, if_false]
        have := w.layN x hx1 (by omega)
        omega
    · obtain ⟨h, hh⟩ := exists_mem_of_ne_nil _ hne3
      obtain ⟨h1, h2, _⟩ := hM3.hc h hh
      have := w.created
      omega
    · intro h hh
      obtain ⟨h1, h2, hq, v, hv, ho, hqn⟩ := hM3.hc h hh
      obtain ⟨h0, hh0, o, q, e1, e2⟩ := hsrc h hh
      have H0 := w.hc h0 hh0
      have hlen1 : h0.oids.length = h.oids.length + 1 := by rw [e1]; simp
      have hlen2 : h0.qnums.length = h.qnums.length + 1 := by rw [e2]; simp
      have hol := H0.olen
      have hql := H0.qlen
      refine ⟨by omega, h2, by simp [h1], hq, by omega, by omega, ?_, ?_⟩
      · have hne : h.oids ≠ [] := by
          intro h0'; rw [h0'] at hlen1; simp at hlen1; omega
        have := H0.last
        rw [e1, getLast?_cons_of_ne_nil hne] at this
        exact this
      · obtain ⟨front, hf⟩ := H0.tail
        cases front with
        | nil =>
          have : h0.qnums.length = 2 := by rw [hf]; simp
          omega
        | cons a front =>
          rw [e2, cons_append] at hf
          exact ⟨front, (cons.inj hf).2⟩
    · intro x hx0 hx2 hlx
      by_cases hx : s.nidNext ≤ x
      · simp only [hx, if_true] at hlx; omega
      · simp only [hx, if_false] at hlx
        have hxs : x < s.nidNext := by omega
        by_cases hlk : lay x < k
        · exact outIds_mono _ _ new hnew _ (w.out x hx0 hxs hlk)
        · obtain ⟨h, hh, hhx⟩ := w.ref x hx0 hxs (by omega)
          obtain ⟨cf, hcf⟩ := mem_zip_of_mem_left _ _ w.len h hh
          obtain ⟨e, he, u, hu, hun⟩ := hI.hcedge (h, cf) hcf
          have := hM3.outh e he (by rw [hempty]; simp) u hu
          rw [hun, hhx] at this
          exact this
    · intro x hx0 hx2 hlx
      by_cases hx : s.nidNext ≤ x
      · exact hM3.newref x hx hx2
      · simp only [hx, if_false] at hlx
        exfalso
        by_cases hx1 : 1 ≤ x
        · have := w.layN x hx1 (by omega); omega
        · have : x = 0 := by omega
          rw [this, w.lay0] at hlx
          omega
  · -- the last step leaves a single half-chain
    intro hkL
    have hall : ∀ v ∈ p.vlist, v = ⟨[id], [0, 0], -1⟩ := by
      intro v hv
      obtain ⟨hn, hl, hc0, hc1, o, q, e1, e2⟩ := hI.vsrc v hv
      have H0 := w.hc hc0.1 (of_mem_zip (a := hc0.1) (b := hc0.2) hc1).1
      have hol := H0.olen
      have hql := H0.qlen
      have hlen1 : hc0.1.oids.length = v.oids.length + 1 := by rw [e1]; simp
      have hlen2 : hc0.1.qnums.length = v.qnums.length + 1 := by rw [e2]; simp
      have hvo : v.oids = [id] := by
        have h1 : v.oids.length = 1 := by omega
        obtain ⟨a, ha⟩ := length_eq_one_iff.1 h1
        have := H0.last
        rw [e1, ha] at this
        simp at this
        rw [ha, this]
      have hvq : v.qnums = [0, 0] := by
        obtain ⟨front, hf⟩ := H0.tail
        have h1 : front.length = 1 := by
          have : hc0.1.qnums.length = front.length + 2 := by rw [hf]; simp
          omega
        obtain ⟨a, ha⟩ := length_eq_one_iff.1 h1
        rw [e2, ha] at hf
        exact (cons.inj hf).2
      cases v
      simp_all
    have hV1 : p.vlist.length = 1 := by
      have h1 : p.vlist.length ≤ 1 := by
        match hvl : p.vlist, hI.vnodup, hall with
        | [], _, _ => simp
        | [_], _, _ => simp
        | a :: b :: rest, hnd, hall' =>
          exfalso
          have ha := hall' a (by simp)
          have hb := hall' b (by simp)
          rw [ha, hb] at hnd
          simp at hnd
      omega
    have hadj1 : ∀ i, (bg.adjU.getD i []).length ≤ 1 := by
      intro i
      have hnd := hwf.nodupU i
      have hr : ∀ v ∈ bg.adjU.getD i [], v = 0 := by
        intro v hv
        have := hwf.rangeU i v hv
        omega
      match hl : bg.adjU.getD i [], hnd, hr with
      | [], _, _ => simp
      | [_], _, _ => simp
      | a :: b :: rest, hnd', hr' =>
        exfalso
        have ha := hr' a (by simp)
        have hb := hr' b (by simp)
        rw [ha, hb] at hnd'
        simp at hnd'
    have hm1 : m.length ≤ 1 := by
      obtain ⟨hme, _, hmv⟩ := Ptn.C18.matching_valid hwf hhk
      have hr : ∀ x ∈ m.map Prod.snd, x = 0 := by
        intro x hx
        obtain ⟨pq, hpq, rfl⟩ := mem_map.1 hx
        have := hwf.rangeU pq.1 pq.2 (hme pq hpq)
        omega
      have : (m.map Prod.snd).length ≤ 1 := by
        match hl : m.map Prod.snd, hmv, hr with
        | [], _, _ => simp
        | [_], _, _ => simp
        | a :: b :: rest, hnd', hr' =>
          exfalso
          have ha := hr' a (by simp)
          have hb := hr' b (by simp)
          rw [ha, hb] at hnd'
          simp at hnd'
      simpa using this
    have hcnt := hM3.cnt
    have hsum : (uc.map fun i => (bg.adjU.getD i []).length).sum ≤ uc.length := by
      have : ∀ l : List Nat, (l.map fun i => (bg.adjU.getD i []).length).sum ≤ l.length := by
        intro l
        induction l with
        | nil => simp
        | cons a l ih =>
          simp only [map_cons, sum_cons, length_cons]
          have := hadj1 a
          omega
      exact this uc
    have hne3 : t3.vlistNext ≠ [] := hM3.handled ⟨e0, he0, by rw [hempty]; simp⟩
    have : 1 ≤ t3.vlistNext.length := by
      cases hl : t3.vlistNext with
      | nil => exact absurd hl hne3
      | cons _ _ => simp
    omega

end Ptn.Ch

import PtnModel.Proofs.ChainGraph
/-!
# From `is_consistent` to the walk sum

* `isConsistent_facts`: the first three clauses of `is_consistent` as propositions;
* `denFrom_eq_fwd`: on a graph satisfying them (plus distinct edge keys and duplicate-free `eidsOut`) the model's
  `denFrom` is the walk sum `fwd` over the bare edge list;
* `pre_congr`: `pre` only depends on the operators of the edges below the node in question;
* `scaleFold_spec`: the loop that multiplies the trailing coefficient into the edges entering the end node.
-/
set_option linter.unusedSectionVars false

namespace Ptn.Ch
open Ptn Ptn.Og List

variable {κ : Type} [CommRing κ] [DecidableEq κ]

theorem isConsistent_facts (g : Graph κ) (h : g.isConsistent = true) :
    (∀ k n, (k, n) ∈ g.nodes → k = n.nid ∧
      ∀ d, ∀ eid ∈ n.eids d, ∃ e, dGet? g.edges eid = some e ∧ e.nid (!d) = n.nid) ∧
    (∀ k e, (k, e) ∈ g.edges → k = e.eid ∧
      ∀ d, ∃ n, dGet? g.nodes (e.nid d) = some n ∧ e.eid ∈ n.eids (!d)) ∧
    (∀ d, ∃ n, dGet? g.nodes (g.term d) = some n ∧ n.eids d = []) := by
  unfold Graph.isConsistent at h
  simp only [Bool.and_eq_true, List.all_eq_true] at h
  obtain ⟨⟨⟨hn, he⟩, ht⟩, _⟩ := h
  refine ⟨?_, ?_, ?_⟩
  · intro k n hkn
    obtain ⟨h1, h2⟩ := hn (k, n) hkn
    refine ⟨by simpa using h1, ?_⟩
    intro d eid heid
    have := h2 d (by cases d <;> simp) eid heid
    cases hd : dGet? g.edges eid with
    | none => simp only [hd] at this; cases this
    | some e => simp only [hd] at this; exact ⟨e, rfl, by simpa using this⟩
  · intro k e hke
    obtain ⟨⟨h1, h2⟩, _⟩ := he (k, e) hke
    refine ⟨by simpa using h1, ?_⟩
    intro d
    have := h2 d (by cases d <;> simp)
    cases hd : dGet? g.nodes (e.nid d) with
    | none => simp only [hd] at this; cases this
    | some n => simp only [hd] at this; exact ⟨n, rfl, by simpa using this⟩
  · intro d
    have := ht d (by cases d <;> simp)
    cases hd : dGet? g.nodes (g.term d) with
    | none => simp only [hd] at this; cases this
    | some n => simp only [hd] at this; exact ⟨n, rfl, by simpa using this⟩

/-- what `denFrom_eq_fwd` needs about a graph -/
structure CValid (g : Graph κ) : Prop where
  edgesKeys : (dKeys g.edges).Nodup
  outNodup : ∀ k n, dGet? g.nodes k = some n → n.eidsOut.Nodup
  nodeEdge : ∀ k n, dGet? g.nodes k = some n → ∀ eid ∈ n.eidsOut, ∃ e, (eid, e) ∈ g.edges ∧ e.nids.1 = k
  edgeNode : ∀ k e, (k, e) ∈ g.edges → ∃ n, dGet? g.nodes e.nids.1 = some n ∧ k ∈ n.eidsOut
  termOut : ∃ n, dGet? g.nodes (g.term true) = some n ∧ n.eidsOut = []

theorem CValid.of_consistent (g : Graph κ) (h : g.isConsistent = true) (hk : (dKeys g.edges).Nodup)
    (hn : NodesOK g.nodes) : CValid g := by
  obtain ⟨fn, fe, ft⟩ := isConsistent_facts g h
  refine ⟨hk, ?_, ?_, ?_, ?_⟩
  · intro k n hkn
    exact (hn _ (mem_of_dGet? hkn)).2
  · intro k n hkn eid heid
    obtain ⟨h1, h2⟩ := fn k n (mem_of_dGet? hkn)
    obtain ⟨e, he, hx⟩ := h2 true eid (by simpa [Node.eids] using heid)
    refine ⟨e, mem_of_dGet? he, ?_⟩
    rw [h1]
    simpa [Edge.nid] using hx
  · intro k e hke
    obtain ⟨h1, h2⟩ := fe k e hke
    obtain ⟨n, hn1, hn2⟩ := h2 false
    refine ⟨n, by simpa [Edge.nid] using hn1, ?_⟩
    rw [h1]
    simpa [Node.eids] using hn2
  · obtain ⟨n, hn1, hn2⟩ := ft true
    exact ⟨n, hn1, by simpa [Node.eids] using hn2⟩

/-- the outgoing edge ids of a node are, up to order, the keys of the edges leaving it -/
theorem CValid.out_perm {g : Graph κ} (h : CValid g) {x : Int} {n : Node} (hn : dGet? g.nodes x = some n) :
    n.eidsOut.Perm ((g.edges.filter fun p => decide (p.2.nids.1 = x)).map (·.1)) := by
  rw [perm_ext_iff_of_nodup]
  · intro a
    constructor
    · intro ha
      obtain ⟨e, he, hx⟩ := h.nodeEdge x n hn a ha
      exact mem_map.2 ⟨(a, e), mem_filter.2 ⟨he, by simpa using hx⟩, rfl⟩
    · intro ha
      obtain ⟨⟨k, e⟩, hp, hk⟩ := mem_map.1 ha
      simp only at hk; subst hk
      obtain ⟨he, hx⟩ := mem_filter.1 hp
      simp only [decide_eq_true_eq] at hx
      obtain ⟨n', hn', hk'⟩ := h.edgeNode k e he
      rw [hx, hn] at hn'
      cases hn'
      exact hk'
  · exact h.outNodup x n hn
  · exact h.edgesKeys.sublist ((filter_sublist).map _)

/-- the inner sum of `denFrom` over the operators of an edge -/
theorem opics_sum (e : Edge κ) (o : Int) (c : κ) :
    Ptn.sumList (e.opics.map fun p => if p.1 = o then p.2 * c else 0) = opc e o * c := by
  rw [sumList_eq_sum]
  unfold opc
  rw [← sum_map_mul_const]
  apply sum_map_congr
  intro p _
  by_cases h : p.1 = o <;> simp [h]

/-- sum over the outgoing edge ids of a node = sum over the edges leaving it -/
theorem CValid.sum_out {g : Graph κ} (h : CValid g) {x : Int} {n : Node} (hn : dGet? g.nodes x = some n)
    (φ : Edge κ → κ) :
    (n.eidsOut.map fun eid => match dGet? g.edges eid with | none => 0 | some e => φ e).sum
      = ((edgeList g).map fun e => if e.nids.1 = x then φ e else 0).sum := by
  rw [(h.out_perm hn).map _ |>.sum_eq]
  unfold edgeList
  rw [sum_map_ite_zero, map_map, filter_map, map_map]
  apply sum_map_congr
  intro p hp
  obtain ⟨k, e⟩ := p
  have he := (mem_filter.1 hp).1
  simp only [Function.comp]
  rw [dGet?_of_mem h.edgesKeys he]

/-- **Bridge**: the model's `denFrom` is the walk sum over the edge list. -/
theorem denFrom_eq_fwd {g : Graph κ} (h : CValid g) :
    ∀ (w : Word) (x : Int), g.denFrom w x = fwd (edgeList g) (g.term true) w x := by
  intro w
  induction w with
  | nil => intro x; simp [Graph.denFrom, fwd]
  | cons o w ih =>
    intro x
    unfold Graph.denFrom fwd
    have hnone : ∀ y, dGet? g.nodes y = none ∨ (∃ n, dGet? g.nodes y = some n ∧ n.eidsOut = []) →
        ((edgeList g).map fun e => if e.nids.1 = y then opc e o * fwd (edgeList g) (g.term true) w e.nids.2 else 0).sum = 0 := by
      intro y hy
      apply sum_map_eq_zero
      intro e he
      obtain ⟨⟨k, e'⟩, hp, rfl⟩ := mem_map.1 he
      by_cases hxe : e'.nids.1 = y
      · exfalso
        obtain ⟨n, hn, hkn⟩ := h.edgeNode k e' hp
        rw [hxe] at hn
        rcases hy with hy | ⟨n', hn', hemp⟩
        · rw [hy] at hn; cases hn
        · rw [hn'] at hn; cases hn
          rw [hemp] at hkn
          simp at hkn
      · simp [hxe]
    by_cases hx : x = g.term true
    · simp only [hx, if_true]
      exact (hnone _ (Or.inr h.termOut)).symm
    · simp only [hx, if_false]
      cases hl : dGet? g.nodes x with
      | none =>
        simp only
        exact (hnone x (Or.inl hl)).symm
      | some n =>
        simp only
        rw [sumList_eq_sum]
        have key := h.sum_out hl (fun e => opc e o * g.denFrom w e.nids.2)
        refine Eq.trans ?_ (Eq.trans key ?_)
        · apply sum_map_congr
          intro eid _
          cases dGet? g.edges eid with
          | none => rfl
          | some e => simp only; rw [opics_sum]
        · apply sum_map_congr
          intro e _
          rw [ih]

/-! ## `pre` under a change of the operators near the end node -/

theorem pre_congr {α : Type} (l : List α) (f g : α → Edge κ) (s B : Int)
    (hn : ∀ a ∈ l, (f a).nids = (g a).nids) (hmono : ∀ a ∈ l, (f a).nids.1 < (f a).nids.2)
    (hop : ∀ a ∈ l, (f a).nids.2 < B → ∀ o, opc (f a) o = opc (g a) o) :
    ∀ (r : List Int) (x : Int), x < B → pre (l.map f) s r x = pre (l.map g) s r x := by
  intro r
  induction r with
  | nil => intro x _; simp [pre]
  | cons o r ih =>
    intro x hx
    simp only [pre, map_map]
    apply sum_map_congr
    intro a ha
    simp only [Function.comp]
    rw [← hn a ha]
    by_cases h : (f a).nids.2 = x
    · simp only [h, if_true]
      have h1 := hmono a ha
      rw [ih _ (by omega), hop a ha (by omega)]
    · simp [h]

/-- at the end node `t` itself, when exactly the operators of the edges entering `t` are multiplied by `c` -/
theorem pre_scaled {α : Type} (l : List α) (f g : α → Edge κ) (s t : Int) (c : κ)
    (hn : ∀ a ∈ l, (f a).nids = (g a).nids) (hmono : ∀ a ∈ l, (f a).nids.1 < (f a).nids.2)
    (hop : ∀ a ∈ l, ∀ o, opc (g a) o = opc (f a) o * (if (f a).nids.2 = t then c else 1))
    (o : Int) (r : List Int) : pre (l.map g) s (o :: r) t = c * pre (l.map f) s (o :: r) t := by
  simp only [pre, map_map]
  rw [← sum_map_const_mul]
  apply sum_map_congr
  intro a ha
  simp only [Function.comp]
  rw [← hn a ha]
  by_cases h : (f a).nids.2 = t
  · simp only [h, if_true]
    have h1 := hmono a ha
    rw [← pre_congr l f g s t hn hmono (fun b hb hlt o' => by
      rw [hop b hb o', if_neg (by omega), mul_one]) r _ (by omega), hop a ha o, if_pos h]
    ring
  · simp [h]

/-! ## the trailing-coefficient loop -/

/-- `edge.opics = [(i, c * coeff) for i, c in edge.opics]` -/
def scaleEdge (c : κ) (e : Edge κ) : Edge κ := { e with opics := e.opics.map (fun p => (p.1, p.2 * c)) }

theorem opc_scaleEdge (c : κ) (e : Edge κ) (o : Int) : opc (scaleEdge c e) o = opc e o * c := by
  unfold opc scaleEdge
  rw [← sum_map_mul_const, map_map]
  apply sum_map_congr
  intro p _
  by_cases h : p.1 = o <;> simp [h]

theorem dReplace_eq_map {β : Type} (d : List (Int × β)) (hn : (dKeys d).Nodup) (k : Int) (v : β) :
    dReplace d k v = d.map fun p => if p.1 = k then (p.1, v) else p := by
  induction d with
  | nil => simp [dReplace]
  | cons q rest ih =>
    obtain ⟨k', v'⟩ := q
    simp only [dKeys, map_cons, nodup_cons] at hn
    unfold dReplace
    by_cases hk : k' = k
    · subst hk
      simp only [beq_self_eq_true, if_true, map_cons, cons.injEq, true_and]
      symm
      rw [← map_id rest]
      simp only [map_map]
      apply map_congr_left
      intro p hp
      have : p.1 ≠ k' := fun hpk => hn.1 (hpk ▸ mem_map_of_mem hp)
      simp [this]
    · have hb : (k' == k) = false := by simpa using hk
      simp only [hb, Bool.false_eq_true, if_false, map_cons, hk]
      rw [ih (by simpa [dKeys] using hn.2)]

theorem modifyEdge_ok_iff (g g' : Graph κ) (k : Int) (f : Edge κ → Except Err (Edge κ)) :
    g.modifyEdge k f = .ok g' ↔
      ∃ e, dGet? g.edges k = some e ∧ ∃ e', f e = .ok e' ∧ g' = { g with edges := dReplace g.edges k e' } := by
  unfold Graph.modifyEdge
  simp only [bind_ok_iff, dGet_ok_iff, pure_ok_iff]
  constructor
  · rintro ⟨n, hn, n', hn', rfl⟩; exact ⟨n, hn, n', hn', rfl⟩
  · rintro ⟨n, hn, n', hn', rfl⟩; exact ⟨n, hn, n', hn', rfl⟩

theorem scaleFold_spec (c : κ) : ∀ (eids : List Int) (g g' : Graph κ),
    eids.foldlM (fun (g : Graph κ) eid =>
      g.modifyEdge eid (fun e => pure { e with opics := e.opics.map (fun p => (p.1, p.2 * c)) })) g = .ok g' →
    (dKeys g.edges).Nodup → eids.Nodup →
    g'.nodes = g.nodes ∧ g'.nidTerminal = g.nidTerminal ∧
    g'.edges = g.edges.map fun p => if p.1 ∈ eids then (p.1, scaleEdge c p.2) else p := by
  intro eids
  induction eids with
  | nil =>
    intro g g' h _ _
    simp only [foldlM_nil, pure_ok_iff] at h
    subst h
    simp
  | cons a rest ih =>
    intro g g' h hk hnd
    simp only [foldlM_cons, bind_ok_iff, modifyEdge_ok_iff, pure_ok_iff] at h
    obtain ⟨g1, ⟨e, he, e', he', hg1⟩, h2⟩ := h
    subst he' hg1
    simp only [nodup_cons] at hnd
    obtain ⟨h1, h2', h3⟩ := ih _ g' h2 (by simpa [dKeys_dReplace] using hk) hnd.2
    refine ⟨h1, h2', ?_⟩
    rw [h3]
    simp only
    rw [dReplace_eq_map _ hk, map_map]
    apply map_congr_left
    intro p hp
    simp only [Function.comp]
    by_cases hpa : p.1 = a
    · have : p.1 ∉ rest := fun hm => hnd.1 (hpa ▸ hm)
      have hpe : p.2 = e := by
        have := dGet?_of_mem hk (k := p.1) (v := p.2) hp
        rw [hpa, he] at this
        exact (Option.some.inj this).symm
      simp [hpa, hnd.1, scaleEdge, hpe]
    · simp [hpa]

end Ptn.Ch

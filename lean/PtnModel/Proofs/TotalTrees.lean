import PtnModel.Proofs.TreeLevels
import PtnModel.Proofs.Ham2Fermi
import PtnModel.Proofs.OgAdd
import PtnModel.Proofs.ChainGraph
import PtnModel.Proofs.OgTotal
/-!
# `OpGraph.from_optrees` returns

Progress of `_insert_opchain`, `_insert_subtree` and the loop over the trees under the guards of the code.  The only invariant needed
for progress is `EidsOk`: every edge id listed at a node is a key of the edge dictionary (so `max(edges) + 1` is never listed);
node keys only grow and the quantum number stored under an existing key never changes (`Ext`).
-/
set_option linter.unusedSectionVars false

namespace Ptn.Og
open List Ptn.Dense

variable {κ : Type} [CommRing κ] [DecidableEq κ]

/-- every edge id listed at a node is a key of the edge dictionary -/
def EidsOk (g : Graph κ) : Prop :=
  (∀ p ∈ g.nodes, ∀ d, ∀ eid ∈ p.2.eids d, eid ∈ dKeys g.edges) ∧ (∀ p ∈ g.nodes, p.2.nid = p.1)

/-- the quantum number stored under `k` -/
def nqn (g : Graph κ) (k : Int) : Option Int := (dGet? g.nodes k).map (·.qnum)

/-- `g'` extends `g`: same terminals, node keys grow, charges of existing nodes are kept, `EidsOk` holds -/
structure Ext (g g' : Graph κ) : Prop where
  term : g'.nidTerminal = g.nidTerminal
  keys : ∀ k, k ∈ dKeys g.nodes → k ∈ dKeys g'.nodes
  qn : ∀ k, k ∈ dKeys g.nodes → nqn g' k = nqn g k
  ok : EidsOk g'

theorem Ext.refl {g : Graph κ} (h : EidsOk g) : Ext g g := ⟨rfl, fun _ h => h, fun _ _ => rfl, h⟩

theorem Ext.trans {g g' g'' : Graph κ} (h1 : Ext g g') (h2 : Ext g' g'') : Ext g g'' :=
  ⟨by rw [h2.term, h1.term], fun k hk => h2.keys k (h1.keys k hk),
    fun k hk => by rw [h2.qn k (h1.keys k hk), h1.qn k hk], h2.ok⟩

theorem Ext.term' {g g' : Graph κ} (h : Ext g g') (d : Bool) : g'.term d = g.term d := by
  simp [Graph.term, h.term]

theorem mem_keys_of_nqn {g : Graph κ} {k q : Int} (h : nqn g k = some q) : k ∈ dKeys g.nodes := by
  unfold nqn at h
  cases hk : dGet? g.nodes k with
  | none => rw [hk] at h; cases h
  | some n => exact Ptn.Ham2.dGet?_some_mem_keys hk

/-! ## `plusNode` / `plusEdge` -/

theorem eidsOk_plusNode {g : Graph κ} (h : EidsOk g) (k q : Int) : EidsOk (g.plusNode k q) := by
  constructor
  · intro p hp d eid heid
    simp only [Graph.plusNode, mem_append, mem_singleton] at hp
    rcases hp with hp | rfl
    · exact h.1 p hp d eid heid
    · cases d <;> simp [Node.eids] at heid
  · intro p hp
    simp only [Graph.plusNode, mem_append, mem_singleton] at hp
    rcases hp with hp | rfl
    · exact h.2 p hp
    · rfl

theorem ext_plusNode {g : Graph κ} (h : EidsOk g) (k q : Int) : Ext g (g.plusNode k q) := by
  refine ⟨rfl, ?_, ?_, eidsOk_plusNode h k q⟩
  · intro k' hk'; rw [plusNode_keys]; exact mem_append_left _ hk'
  · intro k' hk'
    obtain ⟨n, hn⟩ := Ptn.Ham2.mem_keys_dGet? hk'
    unfold nqn
    show (dGet? (g.nodes ++ [(k, _)]) k').map _ = _
    rw [dGet?_append, hn]
    rfl

theorem nqn_plusNode_self {g : Graph κ} (k q : Int) (hk : k ∉ dKeys g.nodes) : nqn (g.plusNode k q) k = some q := by
  unfold nqn
  show (dGet? (g.nodes ++ [(k, _)]) k).map _ = _
  rw [dGet?_append_single_self _ _ _ hk]
  rfl

theorem mem_nodesAdd (ns : List (Int × Node)) (k eid : Int) (d : Bool) (p : Int × Node) (hp : p ∈ nodesAdd ns k eid d) :
    p ∈ ns ∨ ∃ n, (k, n) ∈ ns ∧ p.2 = n.setEids d (n.eids d ++ [eid]) := by
  unfold nodesAdd at hp
  cases hk : dGet? ns k with
  | none => rw [hk] at hp; exact Or.inl hp
  | some n =>
    rw [hk] at hp
    rcases Ptn.Ch.mem_dReplace _ _ _ _ hp with hp | hp
    · exact Or.inl hp
    · exact Or.inr ⟨n, mem_of_dGet?_eq_some hk, hp⟩

theorem mem_dReplace_key {β : Type} (d : List (Int × β)) (k : Int) (v : β) (p : Int × β) (h : p ∈ dReplace d k v) :
    p ∈ d ∨ (p.1 = k ∧ p.2 = v) := by
  induction d with
  | nil => simp [dReplace] at h
  | cons q rest ih =>
    obtain ⟨k', v'⟩ := q
    unfold dReplace at h
    by_cases hk : (k' == k) = true
    · simp only [hk, if_true, mem_cons] at h
      rcases h with h | h
      · right; rw [h]; exact ⟨by simpa using hk, rfl⟩
      · left; exact mem_cons_of_mem _ h
    · have hb : (k' == k) = false := by simpa using hk
      simp only [hb, Bool.false_eq_true, if_false, mem_cons] at h
      rcases h with h | h
      · left; rw [h]; exact mem_cons_self
      · rcases ih h with h | h
        · left; exact mem_cons_of_mem _ h
        · right; exact h

theorem eids_setEids_subset (n : Node) (d d' : Bool) (eid x : Int) (hx : x ∈ (n.setEids d (n.eids d ++ [eid])).eids d') :
    x ∈ n.eids d' ∨ x = eid := by
  cases d <;> cases d' <;> simp [Node.setEids, Node.eids] at hx ⊢ <;> tauto

theorem eidsOk_plusEdge {g : Graph κ} (h : EidsOk g) (e : Edge κ) : EidsOk (g.plusEdge e) := by
  have hkeys : ∀ x, x ∈ dKeys g.edges ∨ x = e.eid → x ∈ dKeys (g.plusEdge e).edges := by
    intro x hx
    simp only [plusEdge_edges, dKeys, map_append, map_cons, map_nil, mem_append, mem_singleton]
    rcases hx with hx | hx
    · exact Or.inl (by simpa [dKeys] using hx)
    · exact Or.inr hx
  have step : ∀ (ns : List (Int × Node)) (k : Int) (d0 : Bool),
      (∀ p ∈ ns, ∀ d, ∀ x ∈ p.2.eids d, x ∈ dKeys g.edges ∨ x = e.eid) →
      ∀ p ∈ nodesAdd ns k e.eid d0, ∀ d, ∀ x ∈ p.2.eids d, x ∈ dKeys g.edges ∨ x = e.eid := by
    intro ns k d0 hns p hp d x hx
    rcases mem_nodesAdd ns k e.eid d0 p hp with hp | ⟨n, hn, hp⟩
    · exact hns p hp d x hx
    · rw [hp] at hx
      rcases eids_setEids_subset n d0 d e.eid x hx with hx | hx
      · exact hns (k, n) hn d x hx
      · exact Or.inr hx
  have stepN : ∀ (ns : List (Int × Node)) (k : Int) (d0 : Bool), (∀ p ∈ ns, p.2.nid = p.1) →
      ∀ p ∈ nodesAdd ns k e.eid d0, p.2.nid = p.1 := by
    intro ns k d0 hns p hp
    unfold nodesAdd at hp
    cases hk : dGet? ns k with
    | none => rw [hk] at hp; exact hns p hp
    | some n =>
      rw [hk] at hp
      rcases mem_dReplace_key _ _ _ _ hp with hp' | ⟨hp1, hp2⟩
      · exact hns p hp'
      · have hnk := hns (k, n) (mem_of_dGet?_eq_some hk)
        rw [hp2, hp1]
        cases d0 <;> simpa [Node.setEids] using hnk
  constructor
  · intro p hp d x hx
    apply hkeys
    exact step _ _ false (step _ _ true (fun p hp d x hx => Or.inl (h.1 p hp d x hx))) p hp d x hx
  · exact stepN _ _ false (stepN _ _ true h.2)

theorem ext_plusEdge {g : Graph κ} (h : EidsOk g) (e : Edge κ) : Ext g (g.plusEdge e) :=
  ⟨rfl, fun k hk => by rw [plusEdge_keys]; exact hk, fun k _ => Ptn.Ham2.plusEdge_qnum g e k, eidsOk_plusEdge h e⟩

/-! ## freshness -/

theorem fresh_eid {g : Graph κ} (h : EidsOk g) {k : Int} {n : Node} (hn : dGet? g.nodes k = some n) (d : Bool) {eid : Int}
    (he : eid ∉ dKeys g.edges) : eid ∉ n.eids d :=
  fun hc => he (h.1 (k, n) (mem_of_dGet?_eq_some hn) d eid hc)

theorem maxKeysD_fresh {β : Type} (dd : List (Int × β)) : maxKeysD dd + 1 ∉ dKeys dd := by
  intro hc
  have := le_maxKeysD dd _ hc
  omega

theorem maxInt?_some_of_mem {l : List Int} {k : Int} (h : k ∈ l) : ∃ m, maxInt? l = some m := by
  cases l with
  | nil => simp at h
  | cons x xs => exact ⟨_, rfl⟩

/-- `add_connect_edge` of an edge with a fresh id always succeeds -/
theorem addConnectEdge_total {g : Graph κ} (h : EidsOk g) (e : Edge κ) (he : e.eid ∉ dKeys g.edges) :
    g.addConnectEdge e = .ok (g.plusEdge e) := by
  have key : ∃ g', g.addConnectEdge e = .ok g' := by
    rw [addConnectEdge_eq]
    have h1 : g.addEdge e = .ok { g with edges := g.edges ++ [(e.eid, e)] } := addEdge_ok.2 ⟨he, rfl⟩
    rw [h1]
    simp only [bind, Except.bind]
    -- first end point
    have step1 : ∃ g2 : Graph κ, (if dHas g.nodes e.nids.1 = true then
          ({ g with edges := g.edges ++ [(e.eid, e)] } : Graph κ).modifyNode e.nids.1 (fun n => n.addEdgeId e.eid true)
        else pure { g with edges := g.edges ++ [(e.eid, e)] }) = .ok g2 ∧
        ∀ k n, dGet? g2.nodes k = some n → e.eid ∉ n.eids false := by
      by_cases hx : dHas g.nodes e.nids.1 = true
      · obtain ⟨nx, hnx⟩ := Ptn.Ham2.mem_keys_dGet? (dHas_iff.1 hx)
        refine ⟨{ g with edges := g.edges ++ [(e.eid, e)], nodes := dReplace g.nodes e.nids.1 (nx.setEids true (nx.eids true ++ [e.eid])) }, ?_, ?_⟩
        · simp only [hx, if_true]
          exact modifyNode_ok.2 ⟨nx, _, hnx, addEdgeId_ok.2 ⟨fresh_eid h hnx true he, rfl⟩, rfl⟩
        · intro k n hn
          simp only at hn
          rcases Ptn.Ch.mem_dReplace _ _ _ _ (mem_of_dGet?_eq_some hn) with hm | hm
          · exact fun hc => he (h.1 _ hm false _ hc)
          · simp only at hm
            rw [hm]
            intro hc
            have : e.eid ∈ nx.eids false := by simpa [Node.setEids, Node.eids] using hc
            exact fresh_eid h hnx false he this
      · have hx' : dHas g.nodes e.nids.1 = false := by simpa using hx
        refine ⟨{ g with edges := g.edges ++ [(e.eid, e)] }, by simp [hx', pure, Except.pure], ?_⟩
        intro k n hn
        exact fresh_eid h hn false he
    obtain ⟨g2, hg2, hfr⟩ := step1
    rw [hg2]
    simp only
    by_cases hy : dHas g2.nodes e.nids.2 = true
    · obtain ⟨ny, hny⟩ := Ptn.Ham2.mem_keys_dGet? (dHas_iff.1 hy)
      simp only [hy, if_true]
      exact ⟨_, modifyNode_ok.2 ⟨ny, _, hny, addEdgeId_ok.2 ⟨hfr _ _ hny, rfl⟩, rfl⟩⟩
    · have hy' : dHas g2.nodes e.nids.2 = false := by simpa using hy
      exact ⟨g2, by simp [hy', pure, Except.pure]⟩
  obtain ⟨g', hg'⟩ := key
  rw [hg', (addConnectEdge_eq_plusEdge hg').1]

/-! ## `_insert_opchain` -/

theorem insertOpchainLoop_total :
    ∀ (triples : List (Int × κ × Int)) (g : Graph κ) (nidCur nidNext eidNext : Int), EidsOk g →
      (∀ k ∈ dKeys g.nodes, k < nidNext) → (∀ k ∈ dKeys g.edges, k < eidNext) →
      ∃ g' c' e', insertOpchainLoop true triples g nidCur nidNext eidNext = .ok (g', c', e') ∧ Ext g g' ∧
        (∀ k ∈ dKeys g'.edges, k < e') := by
  intro triples
  induction triples with
  | nil =>
    intro g nidCur nidNext eidNext h _ he
    exact ⟨g, nidCur, eidNext, rfl, Ext.refl h, he⟩
  | cons tr rest ih =>
    intro g nidCur nidNext eidNext h hn he
    obtain ⟨oid, coeff, qnum⟩ := tr
    have hfresh : nidNext ∉ dKeys g.nodes := fun hc => by have := hn _ hc; omega
    have h1 : g.addNode ⟨nidNext, [], [], qnum⟩ = .ok (g.plusNode nidNext qnum) := addNode_ok.2 ⟨hfresh, rfl⟩
    have hok1 := eidsOk_plusNode h nidNext qnum
    have hefresh : (Edge.mk' eidNext (nidCur, nidNext) [(oid, coeff)]).eid ∉ dKeys (g.plusNode nidNext qnum).edges := by
      rw [Edge.mk'_eid, plusNode_edges]
      intro hc; have := he _ hc; omega
    have h2 := addConnectEdge_total hok1 _ hefresh
    obtain ⟨g', c', e', h3, hext, he'⟩ := ih ((g.plusNode nidNext qnum).plusEdge (Edge.mk' eidNext (nidCur, nidNext) [(oid, coeff)]))
      nidNext (nidNext + 1) (eidNext + 1) (eidsOk_plusEdge hok1 _)
      (by
        intro k hk
        rw [plusEdge_keys, plusNode_keys, mem_append, mem_singleton] at hk
        rcases hk with hk | hk
        · have := hn k hk; omega
        · omega)
      (by
        intro k hk
        simp only [plusEdge_edges, plusNode_edges, dKeys, map_append, map_cons, map_nil, mem_append, mem_singleton,
          Edge.mk'_eid] at hk
        rcases hk with hk | hk
        · have := he k (by simpa [dKeys] using hk); omega
        · omega)
    refine ⟨g', c', e', ?_, ((ext_plusNode h nidNext qnum).trans (ext_plusEdge hok1 _)).trans hext, he'⟩
    simp only [insertOpchainLoop, if_true, Node.mk'_nil]
    rw [bind_ok]
    refine ⟨_, rfl, ?_⟩
    rw [bind_ok]
    refine ⟨_, h1, ?_⟩
    rw [bind_ok]
    exact ⟨_, h2, h3⟩

theorem insertOpchain_total {g : Graph κ} (h : EidsOk g) {nidStart nidEnd : Int} {oids : List Int} {coeffs : List κ}
    {qnums : List Int} (hs : nidStart ∈ dKeys g.nodes) (he : nidEnd ∈ dKeys g.nodes)
    (hl1 : oids.length = coeffs.length) (hl2 : oids.length = qnums.length + 1) :
    ∃ g', g.insertOpchain nidStart nidEnd oids coeffs qnums true = .ok g' ∧ Ext g g' := by
  obtain ⟨mx, hmx⟩ := maxInt?_some_of_mem hs
  obtain ⟨node, hnode⟩ := Ptn.Ham2.mem_keys_dGet? hs
  obtain ⟨g1, c1, e1, hloop, hext, he1⟩ := insertOpchainLoop_total (oids.dropLast.zip (coeffs.dropLast.zip qnums)) g node.nid
    (mx + 1) (maxKeysD g.edges + 1) h
    (by intro k hk; have := le_maxInt? hmx k hk; omega)
    (by intro k hk; have := le_maxKeysD g.edges k hk; omega)
  obtain ⟨oL, hoL⟩ : ∃ x, oids.getLast? = some x := by
    cases oids with
    | nil => simp at hl2
    | cons a b => exact ⟨_, List.getLast?_eq_some_getLast (by simp)⟩
  obtain ⟨cL, hcL⟩ : ∃ x, coeffs.getLast? = some x := by
    cases coeffs with
    | nil => simp at hl1; rw [hl1] at hl2; simp at hl2
    | cons a b => exact ⟨_, List.getLast?_eq_some_getLast (by simp)⟩
  have hfr : (Edge.mk' e1 (c1, nidEnd) [(oL, cL)]).eid ∉ dKeys g1.edges := by
    rw [Edge.mk'_eid]; intro hc; have := he1 _ hc; omega
  have hlast := addConnectEdge_total hext.ok _ hfr
  refine ⟨g1.plusEdge (Edge.mk' e1 (c1, nidEnd) [(oL, cL)]), ?_, hext.trans (ext_plusEdge hext.ok _)⟩
  unfold Graph.insertOpchain
  rw [pyAssert_bind]
  refine ⟨dHas_iff.2 hs, ?_⟩
  rw [pyAssert_bind]
  refine ⟨dHas_iff.2 he, ?_⟩
  rw [pyAssert_bind]
  refine ⟨by simpa using hl1, ?_⟩
  rw [pyAssert_bind]
  refine ⟨by simpa using hl2, ?_⟩
  simp only [hmx]
  rw [bind_ok]
  refine ⟨mx + 1, rfl, ?_⟩
  rw [bind_ok]
  refine ⟨node, dGet_eq_ok_iff.2 hnode, ?_⟩
  rw [bind_ok]
  refine ⟨(g1, c1, e1), hloop, ?_⟩
  simp only [hoL, hcL]
  exact hlast

/-! ## `_insert_subtree` -/

mutual
/-- the guard of `_insert_subtree(T, ·, dist, ·)`: the subtree fits into `dist` sites (a leaf anywhere, an inner node only with
`dist ≥ 1`), and a node reached exactly at distance 0 -- it is identified with the end node -- carries the end node's charge `qT` -/
def TNode.fits (qT : Int) : TNode κ → Int → Bool
  | .mk _ [], dist => decide (0 ≤ dist)
  | .mk _ (c :: cs), dist => decide (1 ≤ dist) && kidsFit qT (c :: cs) dist
/-- the same for a list of child edges at distance `dist ≥ 1` from the end node -/
def kidsFit (qT : Int) : List (Int × κ × TNode κ) → Int → Bool
  | [], _ => true
  | (_, _, t) :: cs, dist => (decide (dist ≠ 1) || t.qnum == qT) && t.fits qT (dist - 1) && kidsFit qT cs dist
end

theorem fits_nonneg (qT : Int) (T : TNode κ) (dist : Int) (h : T.fits qT dist = true) : 0 ≤ dist := by
  cases T with
  | mk q cs =>
    cases cs with
    | nil => simpa [TNode.fits] using h
    | cons c cs =>
      simp only [TNode.fits, Bool.and_eq_true, decide_eq_true_eq] at h
      omega

/-- progress statement for a subtree -/
def SubTotal (id qT : Int) (T : TNode κ) : Prop :=
  ∀ (g : Graph κ) (r dist : Int), EidsOk g → nqn g r = some T.qnum → T.fits qT dist = true →
    (dist = 0 → r = g.term true) → nqn g (g.term true) = some qT →
    ∃ g', Graph.insertSubtree id T r dist g = .ok g' ∧ Ext g g'

/-- progress statement for a list of child edges -/
def KidsTotal (id qT : Int) (cs : List (Int × κ × TNode κ)) : Prop :=
  ∀ (g : Graph κ) (r dist : Int), EidsOk g → r ∈ dKeys g.nodes → 1 ≤ dist → kidsFit qT cs dist = true →
    nqn g (g.term true) = some qT →
    ∃ g', Graph.insertChildren id cs r r dist g = .ok g' ∧ Ext g g'

theorem pyRepeat_length' {α : Type} (n : Int) (x : α) : (pyRepeat n x).length = n.toNat := by simp [pyRepeat]

theorem subTotal_node (id qT q : Int) (cs : List (Int × κ × TNode κ)) (ih : KidsTotal id qT cs) :
    SubTotal id qT (.mk q cs) := by
  intro g r dist hok hq hfit h0 hT
  have hd0 := fits_nonneg qT _ dist hfit
  have hr := mem_keys_of_nqn hq
  obtain ⟨node, hnode⟩ := Ptn.Ham2.mem_keys_dGet? hr
  have hnq : node.qnum = q := by
    unfold nqn at hq; rw [hnode] at hq; simpa [TNode.qnum] using hq
  rw [insertSubtree_eq]
  rw [if_neg (by omega)]
  have hget : g.getNode r = .ok node := dGet_eq_ok_iff.2 hnode
  simp only [hget, bind, Except.bind]
  have hb : (node.qnum != q) = false := by simp [hnq]
  simp only [hb, Bool.false_eq_true, if_false]
  cases cs with
  | nil =>
    simp only
    by_cases hd : dist > 0
    · simp only [hd, if_true]
      exact insertOpchain_total hok hr (mem_keys_of_nqn hT) (by simp [pyRepeat_length'])
        (by simp only [pyRepeat_length']; omega)
    · have : dist = 0 := by omega
      simp only [hd, if_false]
      have hrt := h0 this
      refine ⟨g, ?_, Ext.refl hok⟩
      simp [hrt, pyAssert, pure, Except.pure]
  | cons c cs =>
    simp only [TNode.fits, Bool.and_eq_true, decide_eq_true_eq] at hfit
    have hnid : node.nid = r := hok.2 (r, node) (mem_of_dGet?_eq_some hnode)
    rw [hnid]
    exact ih g r dist hok hr hfit.1 hfit.2 hT

theorem kidsTotal_nil (id qT : Int) : KidsTotal (κ := κ) id qT [] := by
  intro g r dist hok _ _ _ _
  exact ⟨g, insertChildren_nil id r r dist g, Ext.refl hok⟩

/-- the three primitives of a child step with a fresh node return, and compose to `plusNode` + `plusEdge` -/
theorem child_fresh_total {g : Graph κ} (hok : EidsOk g) {r y : Int} (hr : r ∈ dKeys g.nodes) (hy : y ∉ dKeys g.nodes)
    (q : Int) (ops : List (Int × κ)) :
    ∃ g1 g2, g.modifyNode r (fun n => n.addEdgeId (maxKeysD g.edges + 1) true) = .ok g1 ∧
      g1.addEdge (Edge.mk' (maxKeysD g.edges + 1) (r, y) ops) = .ok g2 ∧
      g2.addNode ⟨y, [maxKeysD g.edges + 1], [], q⟩
        = .ok ((g.plusNode y q).plusEdge (Edge.mk' (maxKeysD g.edges + 1) (r, y) ops)) := by
  obtain ⟨nr, hnr⟩ := Ptn.Ham2.mem_keys_dGet? hr
  have hefresh : maxKeysD g.edges + 1 ∉ dKeys g.edges := maxKeysD_fresh g.edges
  obtain ⟨g1, h1⟩ : ∃ g1, g.modifyNode r (fun n => n.addEdgeId (maxKeysD g.edges + 1) true) = .ok g1 :=
    ⟨_, modifyNode_ok.2 ⟨nr, _, hnr, addEdgeId_ok.2 ⟨fresh_eid hok hnr true hefresh, rfl⟩, rfl⟩⟩
  obtain ⟨_, _, _, _, hg1⟩ := modifyNode_ok.1 h1
  obtain ⟨g2, h2⟩ : ∃ g2, g1.addEdge (Edge.mk' (maxKeysD g.edges + 1) (r, y) ops) = .ok g2 :=
    ⟨_, addEdge_ok.2 ⟨by rw [Edge.mk'_eid, hg1]; exact hefresh, rfl⟩⟩
  obtain ⟨_, hg2⟩ := addEdge_ok.1 h2
  obtain ⟨g3, h3⟩ : ∃ g3, g2.addNode ⟨y, [maxKeysD g.edges + 1], [], q⟩ = .ok g3 :=
    ⟨_, addNode_ok.2 ⟨by rw [hg2, hg1]; simp only [dKeys_dReplace]; exact hy, rfl⟩⟩
  have := (child_step_fresh h1 h2 h3).1
  rw [this] at h3
  exact ⟨g1, g2, h1, h2, h3⟩

/-- the three primitives of a child step into the end node return, and compose to `plusEdge` -/
theorem child_term_total {g : Graph κ} (hok : EidsOk g) {r t : Int} (hr : r ∈ dKeys g.nodes) (ht : t ∈ dKeys g.nodes)
    (ops : List (Int × κ)) :
    ∃ g1 g2, g.modifyNode r (fun n => n.addEdgeId (maxKeysD g.edges + 1) true) = .ok g1 ∧
      g1.addEdge (Edge.mk' (maxKeysD g.edges + 1) (r, t) ops) = .ok g2 ∧
      g2.modifyNode t (fun n => n.addEdgeId (maxKeysD g.edges + 1) false)
        = .ok (g.plusEdge (Edge.mk' (maxKeysD g.edges + 1) (r, t) ops)) := by
  obtain ⟨nr, hnr⟩ := Ptn.Ham2.mem_keys_dGet? hr
  have hefresh : maxKeysD g.edges + 1 ∉ dKeys g.edges := maxKeysD_fresh g.edges
  obtain ⟨g1, h1⟩ : ∃ g1, g.modifyNode r (fun n => n.addEdgeId (maxKeysD g.edges + 1) true) = .ok g1 :=
    ⟨_, modifyNode_ok.2 ⟨nr, _, hnr, addEdgeId_ok.2 ⟨fresh_eid hok hnr true hefresh, rfl⟩, rfl⟩⟩
  obtain ⟨nr', nr'', hnr', hadd, hg1⟩ := modifyNode_ok.1 h1
  rw [hnr] at hnr'; cases hnr'
  obtain ⟨_, hnr''⟩ := addEdgeId_ok.1 hadd
  obtain ⟨g2, h2⟩ : ∃ g2, g1.addEdge (Edge.mk' (maxKeysD g.edges + 1) (r, t) ops) = .ok g2 :=
    ⟨_, addEdge_ok.2 ⟨by rw [Edge.mk'_eid, hg1]; exact hefresh, rfl⟩⟩
  obtain ⟨_, hg2⟩ := addEdge_ok.1 h2
  -- the end node in `g2`
  have htk : t ∈ dKeys g2.nodes := by rw [hg2, hg1]; simp only [dKeys_dReplace]; exact ht
  obtain ⟨nt, hnt⟩ := Ptn.Ham2.mem_keys_dGet? htk
  have hfr : maxKeysD g.edges + 1 ∉ nt.eids false := by
    have hm : (t, nt) ∈ dReplace g.nodes r nr'' := by
      have := mem_of_dGet?_eq_some hnt
      rw [hg2, hg1] at this
      exact this
    rcases mem_dReplace_key _ _ _ _ hm with hm | ⟨_, hm⟩
    · exact fun hc => hefresh (hok.1 _ hm false _ hc)
    · simp only at hm
      rw [hm, hnr'']
      intro hc
      have : maxKeysD g.edges + 1 ∈ nr.eids false := by simpa [Node.setEids, Node.eids] using hc
      exact fresh_eid hok hnr false hefresh this
  obtain ⟨g3, h3⟩ : ∃ g3, g2.modifyNode t (fun n => n.addEdgeId (maxKeysD g.edges + 1) false) = .ok g3 :=
    ⟨_, modifyNode_ok.2 ⟨nt, _, hnt, addEdgeId_ok.2 ⟨hfr, rfl⟩, rfl⟩⟩
  have := (child_step_term h1 h2 h3).1
  rw [this] at h3
  exact ⟨g1, g2, h1, h2, h3⟩

theorem kidsTotal_cons (id qT oid : Int) (coeff : κ) (child : TNode κ) (rest : List (Int × κ × TNode κ))
    (ih1 : SubTotal id qT child) (ih2 : KidsTotal id qT rest) : KidsTotal id qT ((oid, coeff, child) :: rest) := by
  intro g r dist hok hr hd1 hfit hT
  simp only [kidsFit, Bool.and_eq_true, Bool.or_eq_true, decide_eq_true_eq, beq_iff_eq] at hfit
  obtain ⟨⟨hq1, hfc⟩, hfr⟩ := hfit
  have htk := mem_keys_of_nqn hT
  by_cases hd : dist > 1
  · rw [insertChildren_cons_gt _ _ _ _ _ _ _ _ _ hd]
    obtain ⟨m, hm⟩ := maxInt?_some_of_mem hr
    simp only [hm]
    have hyfresh : m + 1 ∉ dKeys g.nodes := fun hc => by have := le_maxInt? hm _ hc; omega
    obtain ⟨g1, g2, h1, h2, h3⟩ := child_fresh_total hok hr hyfresh child.qnum [(oid, coeff)]
    have hok1 := eidsOk_plusNode hok (m + 1) child.qnum
    have hext3 : Ext g ((g.plusNode (m + 1) child.qnum).plusEdge (Edge.mk' (maxKeysD g.edges + 1) (r, m + 1) [(oid, coeff)])) :=
      (ext_plusNode hok _ _).trans (ext_plusEdge hok1 _)
    obtain ⟨g4, h4, hext4⟩ := ih1 _ (m + 1) (dist - 1) hext3.ok
      (by
        show nqn ((g.plusNode (m + 1) child.qnum).plusEdge _) (m + 1) = _
        unfold nqn
        rw [Ptn.Ham2.plusEdge_qnum]
        exact nqn_plusNode_self _ _ hyfresh)
      hfc (by omega) (by rw [hext3.term' true, hext3.qn _ htk]; exact hT)
    have hext : Ext g g4 := hext3.trans hext4
    obtain ⟨g5, h5, hext5⟩ := ih2 g4 r dist hext.ok (hext.keys r hr) hd1 hfr
      (by rw [hext.term' true, hext.qn _ htk]; exact hT)
    refine ⟨g5, ?_, hext.trans hext5⟩
    rw [bind_ok]
    refine ⟨g1, h1, ?_⟩
    rw [bind_ok]
    refine ⟨g2, h2, ?_⟩
    rw [Node.mk'_single, bind_ok]
    refine ⟨_, rfl, ?_⟩
    rw [bind_ok]
    refine ⟨_, h3, ?_⟩
    rw [bind_ok]
    exact ⟨g4, h4, h5⟩
  · have hd' : dist = 1 := by omega
    rw [insertChildren_cons_le _ _ _ _ _ _ _ _ _ hd]
    obtain ⟨g1, g2, h1, h2, h3⟩ := child_term_total hok hr htk [(oid, coeff)]
    have hext3 : Ext g (g.plusEdge (Edge.mk' (maxKeysD g.edges + 1) (r, g.term true) [(oid, coeff)])) := ext_plusEdge hok _
    have hcq : child.qnum = qT := by
      rcases hq1 with h | h
      · exact absurd hd' h
      · exact h
    obtain ⟨g4, h4, hext4⟩ := ih1 _ (g.term true) (dist - 1) hext3.ok
      (by rw [hext3.qn _ htk, hcq]; exact hT) hfc (fun _ => (hext3.term' true).symm)
      (by rw [hext3.term' true, hext3.qn _ htk]; exact hT)
    have hext : Ext g g4 := hext3.trans hext4
    obtain ⟨g5, h5, hext5⟩ := ih2 g4 r dist hext.ok (hext.keys r hr) hd1 hfr
      (by rw [hext.term' true, hext.qn _ htk]; exact hT)
    refine ⟨g5, ?_, hext.trans hext5⟩
    rw [bind_ok]
    refine ⟨g1, h1, ?_⟩
    rw [bind_ok]
    refine ⟨g2, h2, ?_⟩
    rw [bind_ok]
    refine ⟨_, h3, ?_⟩
    rw [bind_ok]
    exact ⟨g4, h4, h5⟩

theorem subtree_kids_total (id qT : Int) :
    (∀ T : TNode κ, SubTotal id qT T) ∧ (∀ cs : List (Int × κ × TNode κ), KidsTotal id qT cs) :=
  TNode.induct2 (fun q cs ih => subTotal_node id qT q cs ih) (kidsTotal_nil id qT)
    (fun oid c t cs ih1 ih2 => kidsTotal_cons id qT oid c t cs ih1 ih2)

/-! ## the loop over the trees and `from_optrees` -/

/-- **the guards of `from_optrees` on one tree**: start site inside the lattice, root charge 0 when the tree starts at site 0 (its root
is the start node), the tree fits into the remaining `L - istart` sites and every node reached exactly at the last site carries
charge 0 (it is identified with the end node) -/
def TreeOk (L : Int) (t : OpTree κ) : Prop :=
  0 ≤ t.istart ∧ t.istart < L ∧ (t.istart = 0 → t.root.qnum = 0) ∧ t.root.fits 0 (L - t.istart) = true

instance (L : Int) (t : OpTree κ) : Decidable (TreeOk L t) := by unfold TreeOk; infer_instance

/-- what the loop over the trees keeps -/
structure LoopInv (g : Graph κ) : Prop where
  ok : EidsOk g
  term : g.nidTerminal = (0, 1)
  q0 : nqn g 0 = some 0
  q1 : nqn g 1 = some 0

theorem LoopInv.of_ext {g g' : Graph κ} (h : LoopInv g) (e : Ext g g') : LoopInv g' :=
  ⟨e.ok, by rw [e.term, h.term], by rw [e.qn 0 (mem_keys_of_nqn h.q0)]; exact h.q0,
    by rw [e.qn 1 (mem_keys_of_nqn h.q1)]; exact h.q1⟩

theorem fromOptreesLoop_total (L id : Int) {g : Graph κ} (hI : LoopInv g) (tree : OpTree κ) (ht : TreeOk L tree) :
    ∃ g', fromOptreesLoop L id g tree = .ok g' ∧ LoopInv g' := by
  obtain ⟨hs0, hsL, hq, hfit⟩ := ht
  have hk0 := mem_keys_of_nqn hI.q0
  have t1 : g.term true = 1 := by simp [Graph.term, hI.term]
  by_cases hpos : tree.istart > 0
  · rw [fromOptreesLoop_pos _ _ _ _ hpos]
    obtain ⟨m, hm⟩ := maxInt?_some_of_mem hk0
    simp only [hm]
    have hfresh : m + 1 ∉ dKeys g.nodes := fun hc => by have := le_maxInt? hm _ hc; omega
    have h1 : g.addNode ⟨m + 1, [], [], tree.root.qnum⟩ = .ok (g.plusNode (m + 1) tree.root.qnum) := addNode_ok.2 ⟨hfresh, rfl⟩
    have hext1 := ext_plusNode hI.ok (m + 1) tree.root.qnum
    obtain ⟨g2, h2, hext2⟩ := insertOpchain_total (g := g.plusNode (m + 1) tree.root.qnum) hext1.ok
      (nidStart := 0) (nidEnd := m + 1) (oids := pyRepeat tree.istart id) (coeffs := pyRepeat tree.istart (1 : κ))
      (qnums := pyRepeat (tree.istart - 1) (0 : Int)) (hext1.keys 0 hk0)
      (by rw [plusNode_keys]; simp) (by simp [pyRepeat_length']) (by simp only [pyRepeat_length']; omega)
    have hext : Ext g g2 := hext1.trans hext2
    have hI2 := hI.of_ext hext
    obtain ⟨g3, h3, hext3⟩ := (subtree_kids_total id 0).1 tree.root g2 (m + 1) (L - tree.istart) hext.ok
      (by rw [hext2.qn _ (by rw [plusNode_keys]; simp)]; exact nqn_plusNode_self _ _ hfresh)
      hfit (fun h0 => by omega)
      (by
        have : g2.term true = 1 := by simp [Graph.term, hI2.term]
        rw [this]; exact hI2.q1)
    refine ⟨g3, ?_, hI2.of_ext hext3⟩
    rw [bind_ok]
    refine ⟨_, h1, ?_⟩
    rw [bind_ok]
    exact ⟨g2, h2, h3⟩
  · rw [fromOptreesLoop_nonpos _ _ _ _ hpos]
    have hz : tree.istart = 0 := by omega
    obtain ⟨g3, h3, hext3⟩ := (subtree_kids_total id 0).1 tree.root g 0 (L - tree.istart) hI.ok
      (by rw [hq hz]; exact hI.q0) hfit (fun h0 => by omega) (by rw [t1]; exact hI.q1)
    exact ⟨g3, h3, hI.of_ext hext3⟩

theorem foldlM_total_inv' {σ α : Type} (f : σ → α → Except Err σ) (P : σ → Prop) :
    ∀ (l : List α), (∀ x ∈ l, ∀ s, P s → ∃ s', f s x = .ok s' ∧ P s') → ∀ s, P s → ∃ r, l.foldlM f s = .ok r ∧ P r := by
  intro l
  induction l with
  | nil => intro _ s h; exact ⟨s, rfl, h⟩
  | cons x xs ih =>
    intro step s h
    obtain ⟨s1, h1, p1⟩ := step x (by simp) s h
    obtain ⟨r, h2, p2⟩ := ih (fun y hy => step y (by simp [hy])) s1 p1
    exact ⟨r, by rw [foldlM_ok_cons]; exact ⟨s1, h1, h2⟩, p2⟩

/-- **Totality of `OpGraph.from_optrees`** under the guards of the code -/
theorem fromOptrees_total (trees : List (OpTree κ)) (L id : Int) (h : ∀ t ∈ trees, TreeOk L t) :
    ∃ gp g, fromOptreesPre trees L id = .ok gp ∧ Valid gp ∧ gp.simplify = .ok g ∧ fromOptrees trees L id = .ok g := by
  have hI0 : LoopInv (g00 : Graph κ) := by
    refine ⟨⟨?_, ?_⟩, rfl, rfl, rfl⟩
    · intro p hp d eid heid
      simp only [g00, mem_cons, not_mem_nil, or_false] at hp
      rcases hp with rfl | rfl <;> cases d <;> simp [Node.eids] at heid
    · intro p hp
      simp only [g00, mem_cons, not_mem_nil, or_false] at hp
      rcases hp with rfl | rfl <;> rfl
  obtain ⟨gp, hgp, _⟩ := foldlM_total_inv' (fromOptreesLoop L id) LoopInv trees
    (fun t ht g hI => fromOptreesLoop_total L id hI t (h t ht)) g00 hI0
  have hpre : fromOptreesPre trees L id = .ok gp := hgp
  have hv := fromOptreesPre_valid hpre (fun t ht => (h t ht).1)
  obtain ⟨g, hg⟩ := simplify_total hv
  refine ⟨gp, g, hpre, hv, hg, ?_⟩
  rw [fromOptrees_eq, hpre]
  exact hg

end Ptn.Og

import Mathlib.Algebra.Order.BigOperators.Group.List
import Mathlib.Data.List.Perm.Basic
import PtnModel.Model.BondOps
/-!
# C12 helper lemmas, part 1: `cumsumAlong` and threshold counting

* `cumAux`: list form of the fold inside `Ptn.BondOps.cumsumAlong`; `cumsumAlong_eq_cumAux`;
* `prefSum s σ p`: the sum of `s` along `σ` up to and including position `p`;
* `cumsumAlong_getD_pos`: for duplicate-free `σ` the value written at index `σ[p]` is `prefSum s σ p`;
* `countBelow` / `countBelow_spec`: the number of positions satisfying a downward-closed predicate is its threshold.
-/
namespace Ptn.C12
open Ptn.BondOps

section cum
variable {ρ : Type} [AddCommMonoid ρ]
/-- list version of the loop of `cumsumAlong` -/
def cumAux (s : List ρ) : ρ → List ρ → List Nat → List ρ
  | _, out, [] => out
  | c, out, i :: σ => cumAux s (c + s.getD i 0) (out.set i (c + s.getD i 0)) σ

theorem cumAux_length (s : List ρ) (c : ρ) (out : List ρ) (σ : List Nat) :
    (cumAux s c out σ).length = out.length := by
  induction σ generalizing c out with
  | nil => rfl
  | cons i σ ih => simp [cumAux, ih]

theorem cumAux_getD_of_not_mem (s : List ρ) (c : ρ) (out : List ρ) (σ : List Nat) (j : Nat) (d : ρ)
    (hj : j ∉ σ) : (cumAux s c out σ).getD j d = out.getD j d := by
  induction σ generalizing c out with
  | nil => rfl
  | cons i σ ih =>
    simp only [List.mem_cons, not_or] at hj
    simp only [cumAux]
    rw [ih _ _ hj.2]
    simp only [List.getD_eq_getElem?_getD, List.getElem?_set]
    rw [if_neg (fun h => hj.1 h.symm)]

/-- cumulative sum of `s` along `σ` up to and including position `p` -/
def prefSum (s : List ρ) (σ : List Nat) (p : Nat) : ρ := ((σ.take (p + 1)).map fun i => s.getD i 0).sum

theorem cumAux_getD_pos (s : List ρ) (c : ρ) (out : List ρ) (σ : List Nat) (hnd : σ.Nodup)
    (p : Nat) (hp : p < σ.length) (hlt : σ[p] < out.length) (d : ρ) :
    (cumAux s c out σ).getD σ[p] d = c + prefSum s σ p := by
  induction σ generalizing c out p with
  | nil => simp at hp
  | cons i σ ih =>
    rw [List.nodup_cons] at hnd
    simp only [cumAux]
    cases p with
    | zero =>
      simp only [List.getElem_cons_zero] at hlt ⊢
      rw [cumAux_getD_of_not_mem _ _ _ _ _ _ hnd.1]
      simp [prefSum, hlt]
    | succ p =>
      simp only [List.getElem_cons_succ] at hlt ⊢
      rw [ih _ _ hnd.2 p (by simpa using hp) (by simpa using hlt)]
      simp [prefSum, add_assoc]

theorem cumsumAlong_eq_cumAux (s : List ρ) (σ : List Nat) :
    cumsumAlong s σ = cumAux s 0 s σ := by
  unfold cumsumAlong
  suffices h : ∀ (c : ρ) (out : Array ρ),
      (σ.foldl (fun (st : ρ × Array ρ) i =>
        let c := st.1 + s.toArray.getD i 0
        (c, st.2.setIfInBounds i c)) (c, out)).2.toList = cumAux s c out.toList σ by
    simpa using h 0 s.toArray
  induction σ with
  | nil => intro c out; rfl
  | cons i σ ih =>
    intro c out
    simp only [List.foldl_cons, cumAux]
    rw [ih]
    simp

theorem cumsumAlong_length (s : List ρ) (σ : List Nat) : (cumsumAlong s σ).length = s.length := by
  rw [cumsumAlong_eq_cumAux, cumAux_length]

theorem cumsumAlong_getD_pos (s : List ρ) (σ : List Nat) (hnd : σ.Nodup)
    (p : Nat) (hp : p < σ.length) (hlt : σ[p] < s.length) (d : ρ) :
    (cumsumAlong s σ).getD σ[p] d = prefSum s σ p := by
  rw [cumsumAlong_eq_cumAux, cumAux_getD_pos s 0 s σ hnd p hp hlt, zero_add]

theorem prefSum_succ (s : List ρ) (σ : List Nat) (p : Nat) (hp : p + 1 < σ.length) :
    prefSum s σ (p + 1) = prefSum s σ p + s.getD σ[p + 1] 0 := by
  unfold prefSum
  rw [List.take_succ_eq_append_getElem hp, List.map_append, List.sum_append]
  simp

theorem prefSum_eq_take_add (s : List ρ) (σ : List Nat) (p : Nat) (hp : p < σ.length) :
    prefSum s σ p = ((σ.take p).map fun i => s.getD i 0).sum + s.getD σ[p] 0 := by
  unfold prefSum
  rw [List.take_succ_eq_append_getElem hp, List.map_append, List.sum_append]
  simp

end cum

/-- number of `p < n` satisfying `P` -/
def countBelow (P : Nat → Prop) [DecidablePred P] (n : Nat) : Nat :=
  ((List.range n).filter fun p => decide (P p)).length

theorem countBelow_le (P : Nat → Prop) [DecidablePred P] (n : Nat) : countBelow P n ≤ n := by
  unfold countBelow
  exact (List.length_filter_le _ _).trans (by simp)

/-- for a downward-closed predicate the count is the threshold -/
theorem countBelow_spec (P : Nat → Prop) [DecidablePred P] (hP : ∀ p q, p ≤ q → P q → P p) (n : Nat) :
    ∀ p < n, P p ↔ p < countBelow P n := by
  induction n with
  | zero => intro p hp; omega
  | succ n ih =>
    have hle := countBelow_le P n
    have hsucc : countBelow P (n + 1) = countBelow P n + if P n then 1 else 0 := by
      unfold countBelow
      rw [List.range_succ, List.filter_append, List.length_append]
      by_cases h : P n <;> simp [h]
    intro p hp
    by_cases hn : P n
    · have hall : countBelow P n = n := by
        rcases Nat.eq_zero_or_pos n with h0 | hpos
        · omega
        · have := (ih (n - 1) (by omega)).1 (hP _ _ (by omega) hn)
          omega
      rw [hsucc, if_pos hn, hall]
      exact ⟨fun _ => by omega, fun _ => hP _ _ (by omega) hn⟩
    · rw [hsucc, if_neg hn, Nat.add_zero]
      rcases Nat.lt_or_ge p n with h | h
      · exact ih p h
      · have : p = n := by omega
        subst this
        exact ⟨fun h => absurd h hn, fun h => by omega⟩

end Ptn.C12

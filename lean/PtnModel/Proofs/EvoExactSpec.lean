import PtnModel.Proofs.Evo2Gauge
/-!
# A calculus of spectral functions of Hermitian maps applied to vectors

`Spec n Afun E γ x y` says: `y = E(γ · A) x` in the spectral sense, witnessed by ONE decomposition of `x` into eigenvectors
of `Afun` (entrywise on the first `n` entries): `x = ∑ b_f w_f`, `y = ∑ E(γ μ_f) b_f w_f`.

* `spec_of_run`    : an exhausted Hermitian Krylov exponential with time argument `τ` returns `r` with `Spec … τ v r`;
* `spec_run`       : if the start vector `v` of such a run satisfies `Spec … γ x v`, then `Spec … (γ + τ) x r`
                     (needs `E((γ+τ) μ) = E(τ μ) E(γ μ)`);
* `spec_one`       : `Spec … γ x y` with `E(γ μ) = 1` for all real `μ` gives `y = x` (entrywise);
* `spec_transport` : spectral relations are transported by a linear map `G` (rectangular matrix) that intertwines the two
                     maps: `A' (G u) = G (A u)`.
-/
set_option linter.unusedSectionVars false

namespace Ptn.Evo
open Ptn Ptn.Krylov Finset

variable {𝕜 : Type} [RCLike 𝕜]
local notation "conj" => starRingEnd 𝕜

/-- `y = E(γ A) x`, witnessed by a decomposition of `x` into eigenvectors of `Afun` -/
def Spec (n : Nat) (Afun : List 𝕜 → List 𝕜) (E : 𝕜 → 𝕜) (γ : 𝕜) (x y : List 𝕜) : Prop :=
  ∃ (K : Nat) (μ : Nat → ℝ) (b : Nat → 𝕜) (w : Nat → List 𝕜),
    (∀ f, f < K → IsEigen n Afun (μ f) (w f)) ∧
    (∀ i, i < n → vget x i = ∑ f ∈ range K, b f * vget (w f) i) ∧
    (∀ i, i < n → vget y i = ∑ f ∈ range K, E (γ * ((μ f : ℝ) : 𝕜)) * b f * vget (w f) i)

/-- `Spec` only looks at the first `n` entries of `x` and `y` -/
theorem Spec.congr {n : Nat} {Afun : List 𝕜 → List 𝕜} {E : 𝕜 → 𝕜} {γ : 𝕜} {x y x' y' : List 𝕜}
    (h : Spec n Afun E γ x y) (hx : ∀ i, i < n → vget x' i = vget x i) (hy : ∀ i, i < n → vget y' i = vget y i) :
    Spec n Afun E γ x' y' := by
  obtain ⟨K, μ, b, w, hw, h1, h2⟩ := h
  exact ⟨K, μ, b, w, hw, fun i hi => by rw [hx i hi, h1 i hi], fun i hi => by rw [hy i hi, h2 i hi]⟩

/-- `Spec` only looks at the first `n` entries of the images of vectors of length `n` -/
theorem Spec.congr_fun {n : Nat} {Afun Afun' : List 𝕜 → List 𝕜} {E : 𝕜 → 𝕜} {γ : 𝕜} {x y : List 𝕜}
    (h : Spec n Afun E γ x y) (hf : ∀ u : List 𝕜, u.length = n → ∀ i, i < n → vget (Afun' u) i = vget (Afun u) i) :
    Spec n Afun' E γ x y := by
  obtain ⟨K, μ, b, w, hw, h1, h2⟩ := h
  exact ⟨K, μ, b, w, fun f hf' => ⟨(hw f hf').1, fun i hi => by rw [hf _ (hw f hf').1 i hi, (hw f hf').2 i hi]⟩, h1, h2⟩

theorem Spec.congr_time {n : Nat} {Afun : List 𝕜 → List 𝕜} {E : 𝕜 → 𝕜} {γ γ' : 𝕜} {x y : List 𝕜}
    (h : Spec n Afun E γ x y) (e : γ = γ') : Spec n Afun E γ' x y := e ▸ h

/-- an exhausted Hermitian Krylov exponential is a spectral function of the start vector -/
theorem spec_of_run {Afun : List 𝕜 → List 𝕜} {dnorm : List 𝕜 → ℝ} {deigh : List ℝ → List ℝ → List ℝ × Mat ℝ}
    {dexp : 𝕜 → 𝕜} {dexpm : Mat 𝕜 → Mat 𝕜} (hN : NormContract dnorm) {v r : List 𝕜} {m : Nat}
    {M : Nat → Nat → 𝕜} (hM : ActsAs v.length Afun M)
    (hH : ∀ i j, i < v.length → j < v.length → conj (M i j) = M j i) {τ : 𝕜}
    (hE : C15.EighAt Afun dnorm deigh v m) (hX : C15.Exhausted Afun dnorm v m)
    (h : expmKrylov Afun dnorm deigh dexp dexpm v τ m true = .ok r) :
    r.length = v.length ∧ Spec v.length Afun dexp τ v r := by
  obtain ⟨k, θ, c, u, hu, hvc, hrl, hr⟩ := C15.expm_exact_partial hN hM hH hE hX h
  exact ⟨hrl, k, θ, c, u, fun e he => ⟨(hu e he).1, (hu e he).2.2⟩, hvc, hr⟩

/-- a further exhausted run composes the spectral functions -/
theorem spec_run {Afun : List 𝕜 → List 𝕜} {dnorm : List 𝕜 → ℝ} {deigh : List ℝ → List ℝ → List ℝ × Mat ℝ}
    {dexp : 𝕜 → 𝕜} {dexpm : Mat 𝕜 → Mat 𝕜} (hN : NormContract dnorm) {x v r : List 𝕜} {m : Nat}
    {M : Nat → Nat → 𝕜} (hM : ActsAs v.length Afun M)
    (hH : ∀ i j, i < v.length → j < v.length → conj (M i j) = M j i) {γ τ : 𝕜}
    (hs : Spec v.length Afun dexp γ x v)
    (hE : C15.EighAt Afun dnorm deigh v m) (hX : C15.Exhausted Afun dnorm v m)
    (h : expmKrylov Afun dnorm deigh dexp dexpm v τ m true = .ok r)
    (hadd : ∀ μ : ℝ, dexp ((γ + τ) * ((μ : ℝ) : 𝕜)) = dexp (τ * ((μ : ℝ) : 𝕜)) * dexp (γ * ((μ : ℝ) : 𝕜))) :
    r.length = v.length ∧ Spec v.length Afun dexp (γ + τ) x r := by
  obtain ⟨K, μ, b, w, hw, h1, h2⟩ := hs
  obtain ⟨hl, hres⟩ := expm_spectral_any hN hM hH hE hX h (a := fun f => dexp (γ * ((μ f : ℝ) : 𝕜)) * b f) hw
    (fun i hi => by
      rw [h2 i hi])
  refine ⟨hl, K, μ, b, w, hw, h1, fun i hi => ?_⟩
  rw [hres i hi]
  refine sum_congr rfl fun f _ => ?_
  rw [hadd (μ f)]
  ring

/-- a spectral function that is identically one is the identity -/
theorem spec_one {n : Nat} {Afun : List 𝕜 → List 𝕜} {E : 𝕜 → 𝕜} {γ : 𝕜} {x y : List 𝕜}
    (h : Spec n Afun E γ x y) (h1 : ∀ μ : ℝ, E (γ * ((μ : ℝ) : 𝕜)) = 1) : ∀ i, i < n → vget y i = vget x i := by
  obtain ⟨K, μ, b, w, _, hx, hy⟩ := h
  intro i hi
  rw [hy i hi, hx i hi]
  refine sum_congr rfl fun f _ => ?_
  rw [h1 (μ f), one_mul]

/-- `G x` for a rectangular `n' × n` matrix `G`, as a list of length `n'` -/
noncomputable def mvecR (n' n : Nat) (G : Nat → Nat → 𝕜) (x : List 𝕜) : List 𝕜 :=
  (List.range n').map fun i => ∑ j ∈ range n, G i j * vget x j

theorem mvecR_length (n' n : Nat) (G : Nat → Nat → 𝕜) (x : List 𝕜) : (mvecR n' n G x).length = n' := by simp [mvecR]

theorem vget_mvecR {n' n : Nat} (G : Nat → Nat → 𝕜) (x : List 𝕜) {i : Nat} (hi : i < n') :
    vget (mvecR n' n G x) i = ∑ j ∈ range n, G i j * vget x j := by
  unfold mvecR
  rw [vget_map_range, if_pos hi]

/-- an intertwiner (on vectors: `A' (G u) = G (A u)`) maps eigenvectors to eigenvectors -/
theorem isEigen_mvecR {n n' : Nat} {Afun Afun' : List 𝕜 → List 𝕜} {G : Nat → Nat → 𝕜}
    (hG : ∀ u : List 𝕜, u.length = n → ∀ i, i < n' →
      vget (Afun' (mvecR n' n G u)) i = ∑ j ∈ range n, G i j * vget (Afun u) j)
    {θ : ℝ} {u : List 𝕜} (hu : IsEigen n Afun θ u) : IsEigen n' Afun' θ (mvecR n' n G u) := by
  refine ⟨mvecR_length n' n G u, fun i hi => ?_⟩
  rw [hG u hu.1 i hi, vget_mvecR G u hi, mul_sum]
  refine sum_congr rfl fun j hj => ?_
  rw [hu.2 j (mem_range.1 hj)]
  ring

/-- **Transport of a spectral relation along an intertwiner.** -/
theorem spec_transport {n n' : Nat} {Afun Afun' : List 𝕜 → List 𝕜} {E : 𝕜 → 𝕜} {γ : 𝕜} {G : Nat → Nat → 𝕜}
    {x y x' y' : List 𝕜} (h : Spec n Afun E γ x y)
    (hG : ∀ u : List 𝕜, u.length = n → ∀ i, i < n' →
      vget (Afun' (mvecR n' n G u)) i = ∑ j ∈ range n, G i j * vget (Afun u) j)
    (hx' : ∀ i, i < n' → vget x' i = ∑ j ∈ range n, G i j * vget x j)
    (hy' : ∀ i, i < n' → vget y' i = ∑ j ∈ range n, G i j * vget y j) :
    Spec n' Afun' E γ x' y' := by
  obtain ⟨K, μ, b, w, hw, hx, hy⟩ := h
  refine ⟨K, μ, b, fun f => mvecR n' n G (w f), fun f hf => isEigen_mvecR hG (hw f hf), fun i hi => ?_, fun i hi => ?_⟩
  · rw [hx' i hi]
    have e1 : ∀ j ∈ range n, G i j * vget x j = ∑ f ∈ range K, b f * (G i j * vget (w f) j) := by
      intro j hj
      rw [hx j (mem_range.1 hj), mul_sum]
      exact sum_congr rfl fun f _ => by ring
    rw [sum_congr rfl e1, sum_comm]
    refine sum_congr rfl fun f _ => ?_
    rw [vget_mvecR G (w f) hi, mul_sum]
  · rw [hy' i hi]
    have e1 : ∀ j ∈ range n, G i j * vget y j =
        ∑ f ∈ range K, E (γ * ((μ f : ℝ) : 𝕜)) * b f * (G i j * vget (w f) j) := by
      intro j hj
      rw [hy j (mem_range.1 hj), mul_sum]
      exact sum_congr rfl fun f _ => by ring
    rw [sum_congr rfl e1, sum_comm]
    refine sum_congr rfl fun f _ => ?_
    rw [vget_mvecR G (w f) hi, mul_sum]

end Ptn.Evo

import PtnModel.Proofs.OgConsistent
import PtnModel.Proofs.DenseExcept
/-!
# Generic lemmas for the graph constructions (`from_automaton`, `from_optrees`)

* `Except` plumbing for `foldlM`,
* the dictionary primitives (`dReplace`, `dErase`, appends) and the graph primitives
  (`addNode`, `addEdge`, `modifyNode … addEdgeId`, `addConnectEdge`, `removeNode`) keep `NoDup`,
* the operator list of `Edge.mk'` (merge equal ids, sort) has the same per-id coefficient sums as its input
  (`opc_mk'`) and is a fixed point of `sortOpics`.
-/
set_option linter.unusedSectionVars false

namespace Ptn.Og
open List Ptn.Dense

/-! ## `foldlM` in `Except` -/

theorem foldlM_ok_cons {σ α : Type} (f : σ → α → Except Err σ) (s : σ) (x : α) (xs : List α) (r : σ) :
    (x :: xs).foldlM f s = .ok r ↔ ∃ s', f s x = .ok s' ∧ xs.foldlM f s' = .ok r := by
  rw [List.foldlM_cons, bind_ok]

theorem foldlM_ok_nil {σ α : Type} (f : σ → α → Except Err σ) (s r : σ) :
    ([] : List α).foldlM f s = .ok r ↔ s = r := by
  rw [List.foldlM_nil, pure_ok]

/-- prefix-indexed invariant of a successful `foldlM` -/
theorem foldlM_ok_ind {σ α : Type} (f : σ → α → Except Err σ) (R : List α → σ → Prop)
    (step : ∀ pre x s s', R pre s → f s x = .ok s' → R (pre ++ [x]) s') :
    ∀ (l pre : List α) (s r : σ), R pre s → l.foldlM f s = .ok r → R (pre ++ l) r := by
  intro l
  induction l with
  | nil => intro pre s r h hr; rw [foldlM_ok_nil] at hr; subst hr; simpa using h
  | cons x xs ih =>
    intro pre s r h hr
    rw [foldlM_ok_cons] at hr
    obtain ⟨s', h1, h2⟩ := hr
    have := ih (pre ++ [x]) s' r (step pre x s s' h h1) h2
    simpa using this

/-- plain invariant of a successful `foldlM` -/
theorem foldlM_ok_inv {σ α : Type} (f : σ → α → Except Err σ) (P : σ → Prop)
    (step : ∀ x s s', P s → f s x = .ok s' → P s') (l : List α) (s r : σ) (h : P s)
    (hr : l.foldlM f s = .ok r) : P r :=
  foldlM_ok_ind f (fun _ s => P s) (fun _ x s s' => step x s s') l [] s r h hr

theorem mapM_ok_nil {α β : Type} (f : α → Except Err β) (r : List β) :
    ([] : List α).mapM f = .ok r ↔ r = [] := by
  rw [List.mapM_nil, pure_ok]; exact eq_comm

theorem mapM_ok_cons {α β : Type} (f : α → Except Err β) (x : α) (xs : List α) (r : List β) :
    (x :: xs).mapM f = .ok r ↔ ∃ y ys, f x = .ok y ∧ xs.mapM f = .ok ys ∧ r = y :: ys := by
  rw [List.mapM_cons, bind_ok]
  constructor
  · rintro ⟨y, h1, h2⟩
    rw [bind_ok] at h2
    obtain ⟨ys, h3, h4⟩ := h2
    rw [pure_ok] at h4
    exact ⟨y, ys, h1, h3, h4.symm⟩
  · rintro ⟨y, ys, h1, h2, h3⟩
    refine ⟨y, h1, ?_⟩
    rw [bind_ok]
    exact ⟨ys, h2, by rw [pure_ok]; exact h3.symm⟩

/-- a successful `mapM` is the pointwise relation -/
theorem mapM_ok_forall₂ {α β : Type} (f : α → Except Err β) :
    ∀ (l : List α) (r : List β), l.mapM f = .ok r ↔ List.Forall₂ (fun x y => f x = .ok y) l r := by
  intro l
  induction l with
  | nil => intro r; rw [mapM_ok_nil]; constructor
           · rintro rfl; exact .nil
           · intro h; cases h; rfl
  | cons x xs ih =>
    intro r
    rw [mapM_ok_cons]
    constructor
    · rintro ⟨y, ys, h1, h2, rfl⟩
      exact .cons h1 ((ih ys).1 h2)
    · intro h
      cases h with
      | cons h1 h2 => exact ⟨_, _, h1, (ih _).2 h2, rfl⟩

theorem nodup_append_single {α : Type} {l : List α} {x : α} (h : l.Nodup) (hx : x ∉ l) : (l ++ [x]).Nodup := by
  rw [nodup_append]
  refine ⟨h, by simp, ?_⟩
  intro a ha b hb
  simp only [mem_singleton] at hb
  subst hb
  intro hab; subst hab; exact hx ha

/-! ## dictionaries -/

section Dict
variable {β : Type}

theorem dKeys_append (d e : List (Int × β)) : dKeys (d ++ e) = dKeys d ++ dKeys e := by
  simp [dKeys]

theorem dKeys_dReplace (d : List (Int × β)) (k : Int) (v : β) : dKeys (dReplace d k v) = dKeys d := by
  induction d with
  | nil => rfl
  | cons p rest ih =>
    obtain ⟨k', v'⟩ := p
    unfold dReplace
    by_cases h : (k' == k) = true
    · simp [h, dKeys]
    · simp only [dKeys, map_cons] at ih ⊢
      simp [h, ih]

theorem dGet?_dReplace (d : List (Int × β)) (k : Int) (v : β) (k' : Int) :
    dGet? (dReplace d k v) k' = if k' = k then (dGet? d k).map (fun _ => v) else dGet? d k' := by
  induction d with
  | nil => simp [dReplace, dGet?]
  | cons p rest ih =>
    obtain ⟨k1, v1⟩ := p
    unfold dReplace
    by_cases h : k1 = k
    · subst h
      by_cases h' : k' = k1
      · subst h'; simp [dGet?]
      · have hb : (k' == k1) = false := by simpa using h'
        simp [dGet?, lookup_cons, hb, h']
    · have hb : (k1 == k) = false := by simpa using h
      simp only [hb, Bool.false_eq_true, if_false]
      simp only [dGet?, lookup_cons] at ih ⊢
      by_cases h' : k' = k1
      · subst h'
        have : ¬ k' = k := h
        simp [this]
      · have hb' : (k' == k1) = false := by simpa using h'
        have hk : (k == k1) = false := by simpa using (Ne.symm h)
        rw [hb', ih]
        by_cases h2 : k' = k
        · subst h2; simp [hb']
        · simp [h2]

theorem dGet?_append (d e : List (Int × β)) (k : Int) :
    dGet? (d ++ e) k = (dGet? d k).orElse (fun _ => dGet? e k) := by
  induction d with
  | nil => simp [dGet?]
  | cons p rest ih =>
    obtain ⟨k1, v1⟩ := p
    simp only [dGet?, cons_append, lookup_cons] at ih ⊢
    cases (k == k1) <;> simp [ih]

theorem dGet?_append_single_of_ne (d : List (Int × β)) (k k' : Int) (v : β) (h : k' ≠ k) :
    dGet? (d ++ [(k, v)]) k' = dGet? d k' := by
  rw [dGet?_append]
  have hb : (k' == k) = false := by simpa using h
  cases dGet? d k' <;> simp [dGet?, h]

theorem dGet?_append_single_self (d : List (Int × β)) (k : Int) (v : β) (h : k ∉ dKeys d) :
    dGet? (d ++ [(k, v)]) k = some v := by
  rw [dGet?_append, dGet?_eq_none_iff.2 h]
  simp [dGet?]

theorem dGet?_dErase_of_ne (d : List (Int × β)) (k k' : Int) (h : k' ≠ k) :
    dGet? (dErase d k) k' = dGet? d k' := by
  induction d with
  | nil => simp [dErase]
  | cons p rest ih =>
    obtain ⟨k1, v1⟩ := p
    unfold dErase
    by_cases h1 : k1 = k
    · subst h1
      have hb : (k' == k1) = false := by simpa using h
      simp [dGet?, lookup_cons, hb]
    · have hb : (k1 == k) = false := by simpa using h1
      simp only [hb, Bool.false_eq_true, if_false]
      simp only [dGet?, lookup_cons] at ih ⊢
      rw [ih]

theorem dErase_sublist (d : List (Int × β)) (k : Int) : (dErase d k).Sublist d := by
  induction d with
  | nil => simp [dErase]
  | cons p rest ih =>
    obtain ⟨k1, v1⟩ := p
    unfold dErase
    by_cases h1 : (k1 == k) = true
    · simp [h1]
    · simp only [h1]; exact ih.cons_cons _

theorem mem_dReplace {d : List (Int × β)} (hn : (dKeys d).Nodup) {k k' : Int} {v v' : β} :
    (k', v') ∈ dReplace d k v ↔ (k' = k ∧ v' = v ∧ k ∈ dKeys d) ∨ (k' ≠ k ∧ (k', v') ∈ d) := by
  have hn' : (dKeys (dReplace d k v)).Nodup := by rw [dKeys_dReplace]; exact hn
  constructor
  · intro h
    have h1 := dGet?_eq_some_of_mem hn' h
    rw [dGet?_dReplace] at h1
    by_cases hk : k' = k
    · subst hk
      simp only [if_true] at h1
      cases hl : dGet? d k' with
      | none => rw [hl] at h1; simp at h1
      | some x =>
        rw [hl] at h1
        simp only [Option.map_some, Option.some.injEq] at h1
        left
        refine ⟨rfl, h1.symm, ?_⟩
        by_contra hc
        rw [← dGet?_eq_none_iff] at hc
        rw [hc] at hl; cases hl
    · simp only [hk, if_false] at h1
      exact Or.inr ⟨hk, mem_of_dGet?_eq_some h1⟩
  · intro h
    apply mem_of_dGet?_eq_some
    rw [dGet?_dReplace]
    rcases h with ⟨rfl, rfl, hk⟩ | ⟨hk, hm⟩
    · simp only [if_true]
      cases hl : dGet? d k' with
      | none => rw [dGet?_eq_none_iff] at hl; exact absurd hk hl
      | some x => simp
    · simp only [hk, if_false]
      exact dGet?_eq_some_of_mem hn hm

end Dict

/-! ## graph primitives -/

variable {κ : Type}

theorem Node.mk'_nil (k q : Int) : Node.mk' k [] [] q = .ok ⟨k, [], [], q⟩ := rfl

theorem addNode_ok {g g' : Graph κ} {n : Node} :
    g.addNode n = .ok g' ↔ n.nid ∉ dKeys g.nodes ∧ g' = { g with nodes := g.nodes ++ [(n.nid, n)] } := by
  unfold Graph.addNode
  by_cases h : dHas g.nodes n.nid = true
  · simp only [h, if_true]
    constructor
    · intro h'; cases h'
    · rintro ⟨h1, _⟩; exact absurd (dHas_iff.1 h) h1
  · simp only [h]
    have : n.nid ∉ dKeys g.nodes := fun hc => h (dHas_iff.2 hc)
    simp only [Bool.false_eq_true, if_false, Except.ok.injEq, this, not_false_eq_true, true_and]
    exact eq_comm

theorem addEdge_ok {g g' : Graph κ} {e : Edge κ} :
    g.addEdge e = .ok g' ↔ e.eid ∉ dKeys g.edges ∧ g' = { g with edges := g.edges ++ [(e.eid, e)] } := by
  unfold Graph.addEdge
  by_cases h : dHas g.edges e.eid = true
  · simp only [h, if_true]
    constructor
    · intro h'; cases h'
    · rintro ⟨h1, _⟩; exact absurd (dHas_iff.1 h) h1
  · simp only [h]
    have : e.eid ∉ dKeys g.edges := fun hc => h (dHas_iff.2 hc)
    simp only [Bool.false_eq_true, if_false, Except.ok.injEq, this, not_false_eq_true, true_and]
    exact eq_comm

theorem addEdgeId_ok {n n' : Node} {eid : Int} {d : Bool} :
    n.addEdgeId eid d = .ok n' ↔ eid ∉ n.eids d ∧ n' = n.setEids d (n.eids d ++ [eid]) := by
  unfold Node.addEdgeId
  rw [pyAssert_bind, pure_ok]
  simp only [Bool.not_eq_true', contains_eq_mem, decide_eq_false_iff_not]
  exact and_congr_right fun _ => eq_comm

theorem modifyNode_ok {g g' : Graph κ} {k : Int} {f : Node → Except Err Node} :
    g.modifyNode k f = .ok g' ↔
      ∃ n n', dGet? g.nodes k = some n ∧ f n = .ok n' ∧ g' = { g with nodes := dReplace g.nodes k n' } := by
  unfold Graph.modifyNode
  rw [bind_ok]
  constructor
  · rintro ⟨n, h1, h2⟩
    rw [bind_ok] at h2
    obtain ⟨n', h3, h4⟩ := h2
    rw [pure_ok] at h4
    exact ⟨n, n', dGet_eq_ok_iff.1 h1, h3, h4.symm⟩
  · rintro ⟨n, n', h1, h2, h3⟩
    refine ⟨n, dGet_eq_ok_iff.2 h1, ?_⟩
    rw [bind_ok]
    exact ⟨n', h2, by rw [pure_ok]; exact h3.symm⟩

@[simp] theorem Node.setEids_eids_self (n : Node) (d : Bool) (l : List Int) : (n.setEids d l).eids d = l := by
  cases d <;> rfl

@[simp] theorem Node.setEids_eids_not (n : Node) (d : Bool) (l : List Int) : (n.setEids d l).eids (!d) = n.eids (!d) := by
  cases d <;> rfl

@[simp] theorem Node.setEids_nid (n : Node) (d : Bool) (l : List Int) : (n.setEids d l).nid = n.nid := by
  cases d <;> rfl

@[simp] theorem Node.setEids_qnum (n : Node) (d : Bool) (l : List Int) : (n.setEids d l).qnum = n.qnum := by
  cases d <;> rfl

theorem Node.setEids_eids (n : Node) (d d' : Bool) (l : List Int) :
    (n.setEids d l).eids d' = if d' = d then l else n.eids d' := by
  cases d <;> cases d' <;> rfl

theorem removeNode_ok {g g' : Graph κ} {k : Int} {n : Node} :
    g.removeNode k = .ok (n, g') ↔ dGet? g.nodes k = some n ∧ g' = { g with nodes := dErase g.nodes k } := by
  unfold Graph.removeNode dPop
  cases h : g.nodes.lookup k with
  | none =>
    simp only [dGet?, h]
    constructor
    · intro h'; cases h'
    · rintro ⟨h1, _⟩; cases h1
  | some v =>
    simp only [dGet?, h, Option.some.injEq]
    constructor
    · intro h'
      simp only [bind, Except.bind, pure, Except.pure, Except.ok.injEq, Prod.mk.injEq] at h'
      exact ⟨h'.1, h'.2.symm⟩
    · rintro ⟨rfl, rfl⟩; rfl

/-! ### `NoDup` is kept by every primitive -/

section
variable [CommRing κ] [DecidableEq κ]

theorem NoDup.addNode {g g' : Graph κ} {n : Node} (h : NoDup g) (hn : ∀ d, (n.eids d).Nodup)
    (hr : g.addNode n = .ok g') : NoDup g' := by
  obtain ⟨hk, rfl⟩ := addNode_ok.1 hr
  refine ⟨?_, h.edgesKeys, ?_⟩
  · simp only [dKeys_append]
    exact nodup_append_single h.nodesKeys hk
  · intro k m hm d
    rcases mem_append.1 hm with hm | hm
    · exact h.eidsNodup k m hm d
    · simp only [mem_singleton, Prod.mk.injEq] at hm
      rw [hm.2]; exact hn d

theorem NoDup.addEdge {g g' : Graph κ} {e : Edge κ} (h : NoDup g) (hr : g.addEdge e = .ok g') : NoDup g' := by
  obtain ⟨hk, rfl⟩ := addEdge_ok.1 hr
  refine ⟨h.nodesKeys, ?_, h.eidsNodup⟩
  simp only [dKeys_append]
  exact nodup_append_single h.edgesKeys hk

theorem NoDup.modifyNode_addEdgeId {g g' : Graph κ} {k eid : Int} {d : Bool} (h : NoDup g)
    (hr : g.modifyNode k (fun n => n.addEdgeId eid d) = .ok g') : NoDup g' := by
  obtain ⟨n, n', h1, h2, rfl⟩ := modifyNode_ok.1 hr
  obtain ⟨h3, rfl⟩ := addEdgeId_ok.1 h2
  refine ⟨by simpa [dKeys_dReplace] using h.nodesKeys, h.edgesKeys, ?_⟩
  intro k' m hm d'
  rcases (mem_dReplace h.nodesKeys).1 hm with ⟨rfl, rfl, _⟩ | ⟨_, hm⟩
  · have hold := h.eidsNodup k' n (mem_of_dGet?_eq_some h1)
    rw [Node.setEids_eids]
    by_cases hd : d' = d
    · subst hd
      simp only [if_true]
      exact nodup_append_single (hold d') h3
    · simp only [hd, if_false]; exact hold d'
  · exact h.eidsNodup k' m hm d'

theorem NoDup.removeNode {g g' : Graph κ} {k : Int} {n : Node} (h : NoDup g)
    (hr : g.removeNode k = .ok (n, g')) : NoDup g' := by
  obtain ⟨_, rfl⟩ := removeNode_ok.1 hr
  refine ⟨?_, h.edgesKeys, ?_⟩
  · exact h.nodesKeys.sublist ((dErase_sublist g.nodes k).map _)
  · intro k' m hm d
    exact h.eidsNodup k' m ((dErase_sublist g.nodes k).subset hm) d

/-- the optional `node.add_edge_id` of `add_connect_edge` -/
theorem NoDup.condAddEdgeId {g g' : Graph κ} {k eid : Int} {d : Bool} (h : NoDup g)
    (hr : (if dHas g.nodes k then g.modifyNode k (fun n => n.addEdgeId eid d) else pure g) = .ok g') :
    NoDup g' ∧ g'.edges = g.edges ∧ dKeys g'.nodes = dKeys g.nodes ∧ g'.nidTerminal = g.nidTerminal := by
  by_cases hk : dHas g.nodes k = true
  · simp only [hk, if_true] at hr
    refine ⟨h.modifyNode_addEdgeId hr, ?_⟩
    obtain ⟨n, n', _, _, rfl⟩ := modifyNode_ok.1 hr
    exact ⟨rfl, dKeys_dReplace _ _ _, rfl⟩
  · simp only [hk, Bool.false_eq_true, if_false] at hr
    rw [pure_ok] at hr
    subst hr
    exact ⟨h, rfl, rfl, rfl⟩

theorem addConnectEdge_eq (g : Graph κ) (e : Edge κ) :
    g.addConnectEdge e = g.addEdge e >>= fun g1 =>
      (if dHas g1.nodes e.nids.1 then g1.modifyNode e.nids.1 (fun n => n.addEdgeId e.eid true) else pure g1) >>= fun g2 =>
      (if dHas g2.nodes e.nids.2 then g2.modifyNode e.nids.2 (fun n => n.addEdgeId e.eid false) else pure g2) := by
  unfold Graph.addConnectEdge
  cases g.addEdge e with
  | error _ => rfl
  | ok g1 =>
    simp only [bind, Except.bind]
    by_cases h : dHas g1.nodes e.nids.1 = true <;> simp only [h, if_true, Bool.false_eq_true, if_false]

theorem NoDup.addConnectEdge {g g' : Graph κ} {e : Edge κ} (h : NoDup g) (hr : g.addConnectEdge e = .ok g') :
    NoDup g' ∧ g'.edges = g.edges ++ [(e.eid, e)] ∧ e.eid ∉ dKeys g.edges ∧
      dKeys g'.nodes = dKeys g.nodes ∧ g'.nidTerminal = g.nidTerminal := by
  rw [addConnectEdge_eq, bind_ok] at hr
  obtain ⟨g1, h1, hr⟩ := hr
  rw [bind_ok] at hr
  obtain ⟨g2, h2, hr⟩ := hr
  have n1 := h.addEdge h1
  obtain ⟨hk, rfl⟩ := addEdge_ok.1 h1
  obtain ⟨n2, e2, k2, t2⟩ := n1.condAddEdgeId h2
  obtain ⟨n3, e3, k3, t3⟩ := n2.condAddEdgeId hr
  exact ⟨n3, by rw [e3, e2], hk, by rw [k3, k2], by rw [t3, t2]⟩

theorem NoDup.setTerm {g : Graph κ} (h : NoDup g) (d : Bool) (v : Int) : NoDup (g.setTerm d v) := by
  cases d <;> exact ⟨h.nodesKeys, h.edgesKeys, h.eidsNodup⟩

/-! ## the operator list of `Edge.mk'` -/

/-- per-id coefficient sum of an operator list -/
def opcL (l : List (Int × κ)) (o : Int) : κ := (l.map fun p => if p.1 = o then p.2 else 0).sum

theorem opc_eq_opcL (e : Edge κ) (o : Int) : opc e o = opcL e.opics o := rfl

theorem opcL_append (l l' : List (Int × κ)) (o : Int) : opcL (l ++ l') o = opcL l o + opcL l' o := by
  simp [opcL]

theorem opcL_eraseP (l : List (Int × κ)) (P : Int × κ → Bool) (p : Int × κ) (o : Int)
    (h : l.find? P = some p) : opcL (l.eraseP P) o + (if p.1 = o then p.2 else 0) = opcL l o := by
  induction l with
  | nil => simp at h
  | cons x xs ih =>
    by_cases hx : P x = true
    · rw [find?_cons_of_pos hx] at h
      cases h
      rw [eraseP_cons_of_pos hx]
      simp only [opcL, map_cons, sum_cons]
      ring
    · rw [find?_cons_of_neg hx] at h
      rw [eraseP_cons_of_neg hx]
      have := ih h
      simp only [opcL, map_cons, sum_cons] at this ⊢
      rw [← this]; ring

theorem opcL_mergeOpic (acc : List (Int × κ)) (i : Int) (c : κ) (o : Int) :
    opcL (mergeOpic acc i c) o = opcL acc o + (if i = o then c else 0) := by
  unfold mergeOpic
  cases h : acc.find? (fun p => p.1 == i) with
  | none => simp [opcL]
  | some p =>
    simp only
    have hp : p.1 = i := by simpa using find?_some h
    rw [opcL_append, ← opcL_eraseP acc _ p o h]
    simp only [opcL, map_cons, map_nil, sum_cons, sum_nil, hp]
    by_cases hio : i = o <;> simp [hio]
    ring

theorem opcL_foldl_mergeOpic (l acc : List (Int × κ)) (o : Int) :
    opcL (l.foldl (fun acc p => mergeOpic acc p.1 p.2) acc) o = opcL acc o + opcL l o := by
  induction l generalizing acc with
  | nil => simp [opcL]
  | cons x xs ih =>
    rw [foldl_cons, ih, opcL_mergeOpic]
    simp only [opcL, map_cons, sum_cons]
    ring

theorem opcL_insertOpic (x : Int × κ) (l : List (Int × κ)) (o : Int) :
    opcL (insertOpic x l) o = (if x.1 = o then x.2 else 0) + opcL l o := by
  induction l with
  | nil => simp [insertOpic, opcL]
  | cons y ys ih =>
    unfold insertOpic
    by_cases h : x.1 ≤ y.1
    · simp [h, opcL]
    · simp only [h, if_false]
      simp only [opcL, map_cons, sum_cons] at ih ⊢
      rw [ih]; ring

theorem opcL_sortOpics (l : List (Int × κ)) (o : Int) : opcL (sortOpics l) o = opcL l o := by
  unfold sortOpics
  induction l with
  | nil => rfl
  | cons x xs ih =>
    rw [foldr_cons, opcL_insertOpic, ih]
    simp [opcL]

/-- **`Edge.mk'` keeps the per-id coefficient sums** (equal ids are merged, the list is sorted) -/
theorem opc_mk' (eid : Int) (nids : Int × Int) (opics : List (Int × κ)) (o : Int) :
    opc (Edge.mk' eid nids opics) o = opcL opics o := by
  rw [opc_eq_opcL]
  simp only [Edge.mk']
  rw [opcL_sortOpics, opcL_foldl_mergeOpic]
  simp [opcL]

/-- sorted by operator id -/
def OpicsSorted (l : List (Int × κ)) : Prop := l.Pairwise (fun a b => a.1 ≤ b.1)

theorem insertOpic_mem (x : Int × κ) (l : List (Int × κ)) (y : Int × κ) :
    y ∈ insertOpic x l ↔ y = x ∨ y ∈ l := by
  induction l with
  | nil => simp [insertOpic]
  | cons z zs ih =>
    unfold insertOpic
    by_cases h : x.1 ≤ z.1
    · simp [h]
    · simp only [h, if_false, mem_cons, ih]
      tauto

theorem insertOpic_sorted (x : Int × κ) (l : List (Int × κ)) (h : OpicsSorted l) : OpicsSorted (insertOpic x l) := by
  induction l with
  | nil => simp [insertOpic, OpicsSorted]
  | cons z zs ih =>
    unfold OpicsSorted at h ih ⊢
    rw [pairwise_cons] at h
    unfold insertOpic
    by_cases hx : x.1 ≤ z.1
    · simp only [hx, if_true]
      rw [pairwise_cons, pairwise_cons]
      refine ⟨?_, h⟩
      intro a ha
      rcases mem_cons.1 ha with rfl | ha
      · exact hx
      · exact le_trans hx (h.1 a ha)
    · simp only [hx, if_false]
      rw [pairwise_cons]
      refine ⟨?_, ih h.2⟩
      intro a ha
      rcases (insertOpic_mem x zs a).1 ha with rfl | ha
      · omega
      · exact h.1 a ha

theorem sortOpics_sorted (l : List (Int × κ)) : OpicsSorted (sortOpics l) := by
  unfold sortOpics
  induction l with
  | nil => simp [OpicsSorted]
  | cons x xs ih => rw [foldr_cons]; exact insertOpic_sorted x _ ih

theorem sortOpics_of_sorted (l : List (Int × κ)) (h : OpicsSorted l) : sortOpics l = l := by
  induction l with
  | nil => rfl
  | cons x xs ih =>
    unfold OpicsSorted at h
    rw [pairwise_cons] at h
    have : sortOpics (x :: xs) = insertOpic x (sortOpics xs) := rfl
    rw [this, ih h.2]
    cases xs with
    | nil => rfl
    | cons y ys =>
      unfold insertOpic
      simp [h.1 y (by simp)]

theorem sortOpics_idem (l : List (Int × κ)) : sortOpics (sortOpics l) = sortOpics l :=
  sortOpics_of_sorted _ (sortOpics_sorted l)

theorem mk'_opics_sorted (eid : Int) (nids : Int × Int) (opics : List (Int × κ)) :
    (Edge.mk' eid nids opics).opics = sortOpics (Edge.mk' eid nids opics).opics := by
  simp only [Edge.mk']
  rw [sortOpics_idem]

end

end Ptn.Og

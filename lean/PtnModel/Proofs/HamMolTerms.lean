import PtnModel.Proofs.HamMolLookup
import PtnModel.Proofs.HamMolChains
import Mathlib.Tactic.SplitIfs
/-!
# All look-ups of `_molecular_hamiltonian_graph_add_term` are defined, for every `L ≥ 4`

For every hopping term and every interaction term the case analysis of `_molecular_hamiltonian_graph_add_term`
(position of the sorted sites relative to `L//2`, coinciding sites) only consults node-table entries that exist, and its
internal assertions hold: the call reduces to a single `add_connect_edge` of an edge with the next free id.
-/
set_option linter.unusedSectionVars false
set_option linter.unusedSimpArgs false

namespace Ptn.Ham
open Ptn.Og List

variable {κ : Type} [Add κ] [Mul κ] [Neg κ] [OfNat κ 0] [OfNat κ 1] [DecidableEq κ]

theorem ok_bind {α β : Type} (a : α) (f : α → Except Err β) : ((Except.ok a : Except Err α) >>= f) = f a := rfl

/-- evaluation of the case analysis with every look-up replaced by its value -/
macro "term_eval" : tactic =>
  `(tactic| simp (disch := omega) only [sortPairs, List.foldr, insertPair_nil, insertPair_le, insertPair_gt, mC, mA, mN, mI, mZ,
      beq_iff_eq, if_pos, if_neg, decide_eq_true, pyAssert_true_bind, ok_bind, pure_bind, MolNodes.get, sort2,
      beq_self_eq_true, Bool.and_self, Bool.and_true, Bool.true_and, ite_true, ite_false, Bool.false_eq_true, ↓reduceIte,
      Bool.and_eq_true, and_false, false_and, true_and, and_true, and_self,
      aDagL_get, aDagL_dGet, aAnnL_get, aAnnL_dGet, aDagADagL_get, aDagADagL_dGet, aAnnAAnnL_get, aAnnAAnnL_dGet,
      aDagAAnnL_get, aDagAAnnL_dGet, aDagR_get, aDagR_dGet, aAnnR_get, aAnnR_dGet, aDagADagR_get, aDagADagR_dGet,
      aAnnAAnnR_get, aAnnAAnnR_dGet, aDagAAnnR_get, aDagAAnnR_dGet, identityL_dGet, identityR_dGet])

/-- finish: exhibit the two end nodes and the operator of the single new edge -/
macro "term_done" : tactic =>
  `(tactic| first
    | (exfalso; omega)
    | (term_eval; exact ⟨⟨_, [], [], 0⟩, ⟨_, [], [], 0⟩, _, rfl⟩))

/-- **hopping terms**: for every `L ≥ 4` and all orbitals `i, j` the call adds exactly one edge with the next free id -/
theorem molAddTerm_hop (L : Int) (hL : 4 ≤ L) (g : Graph κ) (m : Int) (hm : maxInt? (dKeys g.edges) = some m) (coeff : κ)
    (i j : Int) (hi : 0 ≤ i) (hiL : i < L) (hj : 0 ≤ j) (hjL : j < L) :
    ∃ (n0 n1 : Node) (oid : Int), molAddTerm g (MolNodes.init L) [(i, mC), (j, mA)] coeff
      = g.addConnectEdge (Edge.mk' (m + 1) (n0.nid, n1.nid) [(oid, coeff)]) := by
  unfold molAddTerm
  rw [hm]
  have hLinit : (MolNodes.init L).L = L := rfl
  simp only [hLinit, pure_bind]
  have t := Int.lt_trichotomy i j
  rcases t with h | h | h
  · by_cases c1 : j ≤ L / 2 <;> by_cases c2 : i ≥ L / 2 <;> term_done
  · subst h
    term_done
  · by_cases c1 : i ≤ L / 2 <;> by_cases c2 : j ≥ L / 2 <;> term_done

/-- evaluation of the sorting and of the decided branch conditions only -/
macro "sort_eval" : tactic =>
  `(tactic| simp (disch := omega) only [sortPairs, List.foldr, insertPair_nil, insertPair_le, insertPair_gt, mC, mA, mN, mI, mZ,
      beq_iff_eq, if_pos, if_neg, decide_eq_true, pyAssert_true_bind, ok_bind, pure_bind,
      beq_self_eq_true, Bool.and_self, Bool.and_true, Bool.true_and, ite_true, ite_false, Bool.false_eq_true, ↓reduceIte])

/-- interaction terms with `i < k` -/
theorem molAddTerm_int_lt (L : Int) (hL : 4 ≤ L) (g : Graph κ) (m : Int) (hm : maxInt? (dKeys g.edges) = some m) (coeff : κ)
    (i j k l : Int) (hi : 0 ≤ i) (hij : i < j) (hjL : j < L) (hk : 0 ≤ k) (hkl : k < l) (hlL : l < L) (h1 : i < k) :
    ∃ (n0 n1 : Node) (oid : Int), molAddTerm g (MolNodes.init L) [(i, mC), (j, mC), (l, mA), (k, mA)] coeff
      = g.addConnectEdge (Edge.mk' (m + 1) (n0.nid, n1.nid) [(oid, coeff)]) := by
  unfold molAddTerm
  rw [hm]
  have hLinit : (MolNodes.init L).L = L := rfl
  simp only [hLinit, pure_bind]
  have t2 := Int.lt_trichotomy i l
  have t3 := Int.lt_trichotomy j k
  have t4 := Int.lt_trichotomy j l
  rcases t2 with h2 | h2 | h2 <;> rcases t3 with h3 | h3 | h3 <;> rcases t4 with h4 | h4 | h4 <;>
    first
    | (exfalso; omega)
    | (subst_vars
       sort_eval
       first
       | (split_ifs <;> term_done)
       | term_done)

/-- interaction terms with `i = k` -/
theorem molAddTerm_int_eq (L : Int) (hL : 4 ≤ L) (g : Graph κ) (m : Int) (hm : maxInt? (dKeys g.edges) = some m) (coeff : κ)
    (i j k l : Int) (hi : 0 ≤ i) (hij : i < j) (hjL : j < L) (hk : 0 ≤ k) (hkl : k < l) (hlL : l < L) (h1 : i = k) :
    ∃ (n0 n1 : Node) (oid : Int), molAddTerm g (MolNodes.init L) [(i, mC), (j, mC), (l, mA), (k, mA)] coeff
      = g.addConnectEdge (Edge.mk' (m + 1) (n0.nid, n1.nid) [(oid, coeff)]) := by
  unfold molAddTerm
  rw [hm]
  have hLinit : (MolNodes.init L).L = L := rfl
  simp only [hLinit, pure_bind]
  have t2 := Int.lt_trichotomy i l
  have t3 := Int.lt_trichotomy j k
  have t4 := Int.lt_trichotomy j l
  rcases t2 with h2 | h2 | h2 <;> rcases t3 with h3 | h3 | h3 <;> rcases t4 with h4 | h4 | h4 <;>
    first
    | (exfalso; omega)
    | (subst_vars
       sort_eval
       first
       | (split_ifs <;> term_done)
       | term_done)

/-- interaction terms with `k < i` -/
theorem molAddTerm_int_gt (L : Int) (hL : 4 ≤ L) (g : Graph κ) (m : Int) (hm : maxInt? (dKeys g.edges) = some m) (coeff : κ)
    (i j k l : Int) (hi : 0 ≤ i) (hij : i < j) (hjL : j < L) (hk : 0 ≤ k) (hkl : k < l) (hlL : l < L) (h1 : k < i) :
    ∃ (n0 n1 : Node) (oid : Int), molAddTerm g (MolNodes.init L) [(i, mC), (j, mC), (l, mA), (k, mA)] coeff
      = g.addConnectEdge (Edge.mk' (m + 1) (n0.nid, n1.nid) [(oid, coeff)]) := by
  unfold molAddTerm
  rw [hm]
  have hLinit : (MolNodes.init L).L = L := rfl
  simp only [hLinit, pure_bind]
  have t2 := Int.lt_trichotomy i l
  have t3 := Int.lt_trichotomy j k
  have t4 := Int.lt_trichotomy j l
  rcases t2 with h2 | h2 | h2 <;> rcases t3 with h3 | h3 | h3 <;> rcases t4 with h4 | h4 | h4 <;>
    first
    | (exfalso; omega)
    | (subst_vars
       sort_eval
       first
       | (split_ifs <;> term_done)
       | term_done)

/-- **interaction terms**: for every `L ≥ 4` and all `i < j`, `k < l` the call adds exactly one edge with the next free id -/
theorem molAddTerm_int (L : Int) (hL : 4 ≤ L) (g : Graph κ) (m : Int) (hm : maxInt? (dKeys g.edges) = some m) (coeff : κ)
    (i j k l : Int) (hi : 0 ≤ i) (hij : i < j) (hjL : j < L) (hk : 0 ≤ k) (hkl : k < l) (hlL : l < L) :
    ∃ (n0 n1 : Node) (oid : Int), molAddTerm g (MolNodes.init L) [(i, mC), (j, mC), (l, mA), (k, mA)] coeff
      = g.addConnectEdge (Edge.mk' (m + 1) (n0.nid, n1.nid) [(oid, coeff)]) := by
  rcases Int.lt_trichotomy i k with h1 | h1 | h1
  · exact molAddTerm_int_lt L hL g m hm coeff i j k l hi hij hjL hk hkl hlL h1
  · exact molAddTerm_int_eq L hL g m hm coeff i j k l hi hij hjL hk hkl hlL h1
  · exact molAddTerm_int_gt L hL g m hm coeff i j k l hi hij hjL hk hkl hlL h1

end Ptn.Ham

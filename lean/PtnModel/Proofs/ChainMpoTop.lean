import PtnModel.Proofs.ChainMpoDense
import PtnModel.Proofs.ChainDen
/-!
# `from_opgraph`: top level, and the expansion of the dense path sum over words
-/
set_option linter.unusedSectionVars false

namespace Ptn.Ch
open Ptn Ptn.Og List

variable {κ : Type} [CommRing κ] [DecidableEq κ]

/-- what `MPO.from_opgraph` returns, in terms of the layer walk -/
theorem fromOpgraph_spec (qd : List Int) (g : Graph κ) (opmap : OpMap κ) (on : Bool) (out : MpoOut κ)
    (h : fromOpgraph qd g opmap on = .ok out) :
    0 < qd.length ∧ ∃ t0 Ls Ts, dGet? g.nodes (g.term false) = some t0 ∧
      Run g opmap qd.length [g.term false] Ls Ts ∧ out.tensors = Ts ∧
      out.qD = [t0.qnum] :: Ls.map (layerQ g) ∧
      out.nidMap = nidMapAfter on (if on then [(g.term false, (0, 0))] else []) 1 Ls := by
  unfold fromOpgraph at h
  by_cases hd : (qd.length == 0) = true
  · simp [hd, throw, throwThe, MonadExceptOf.throw, bind, Except.bind] at h
  · have hd' : 0 < qd.length := by
      have : qd.length ≠ 0 := by simpa using hd
      omega
    simp only [hd, Bool.false_eq_true, if_false] at h
    simp only [bind_ok_iff, pure_ok_iff, Graph.getNode, dGet_ok_iff] at h
    obtain ⟨t0, ht0, out1, hloop, _, _, _, _, rfl⟩ := h
    obtain ⟨Ls, Ts, hrun, ht, hq, hn⟩ := loop_spec g opmap qd.length on _ _ _ _ _ hloop
    exact ⟨hd', t0, Ls, Ts, ht0, hrun, by simpa using ht, by simpa using hq, hn⟩

end Ptn.Ch

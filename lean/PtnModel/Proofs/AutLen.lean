import PtnModel.Proofs.AutSem
/-!
# `from_automaton`: the unrolled graph has the requested length
-/
set_option linter.unusedSectionVars false

namespace Ptn.Og
open List Ptn.Dense

variable {κ : Type} [CommRing κ] [DecidableEq κ]

theorem mem_zip_idRange {l : List Int} (hl : l.Nodup) (start : Int) (p : Int × Int) :
    p ∈ l.zip (idRange start l.length) ↔ p.1 ∈ l ∧ p.2 = start + (l.idxOf p.1 : Nat) := by
  induction l generalizing start with
  | nil => simp
  | cons v l ih =>
    rw [nodup_cons] at hl
    rw [length_cons, idRange_succ', zip_cons_cons, mem_cons, ih hl.2]
    obtain ⟨p1, p2⟩ := p
    constructor
    · rintro (h | ⟨h1, h2⟩)
      · cases h; simp
      · have hne : p1 ≠ v := fun hc => hl.1 (hc ▸ h1)
        refine ⟨mem_cons_of_mem _ h1, ?_⟩
        simp only at h2 ⊢
        rw [List.idxOf_cons_ne _ (Ne.symm hne), h2]
        push_cast; omega
    · rintro ⟨h1, h2⟩
      simp only at h1 h2
      by_cases hpv : p1 = v
      · subst hpv
        left
        simp [h2]
      · right
        rcases mem_cons.1 h1 with h | h
        · exact absurd h hpv
        · refine ⟨h, ?_⟩
          simp only
          rw [h2, List.idxOf_cons_ne _ (Ne.symm hpv)]
          push_cast; omega

/-- the records of site `j` -/
theorem mem_siteRecs {a : AutOp κ} {act : List (List Int)} {j : Nat} (hnd : (act.getD (j + 1) []).Nodup)
    (r : ERec κ) :
    r ∈ siteRecs a act j ↔ ∃ v ∈ act.getD (j + 1) [], ∃ e ∈ inEv a v, e.active j = true ∧ e.nids.1 ∈ act.getD j [] ∧
      r = ((gnode act j e.nids.1, gnode act (j + 1) v), normOpics (e.opics j)) := by
  unfold siteRecs recsLayerV
  simp only [mem_flatMap, mapsF, actLen]
  constructor
  · rintro ⟨⟨v, y⟩, hzip, hr⟩
    obtain ⟨hv, hy⟩ := (mem_zip_idRange hnd _ _).1 hzip
    simp only at hv hy hr
    simp only [recsNode, mem_filterMap] at hr
    obtain ⟨e, he, hr⟩ := hr
    by_cases hc : e.active j = true ∧ e.nids.1 ∈ act.getD j []
    · simp only [hc.1, contains_eq_mem, hc.2, decide_true, Bool.and_self, if_true, Option.some.injEq] at hr
      refine ⟨v, hv, e, he, hc.1, hc.2, ?_⟩
      rw [← hr, idRange_getD _ _ _ (List.idxOf_lt_length_iff.2 hc.2), hy]
      rfl
    · exfalso
      by_cases h1 : e.active j = true
      · have h2 : e.nids.1 ∉ act.getD j [] := fun h2 => hc ⟨h1, h2⟩
        simp only [h1, Bool.true_and, contains_eq_mem, h2, decide_false, Bool.false_eq_true, if_false] at hr
        cases hr
      · simp [h1] at hr
  · rintro ⟨v, hv, e, he, h1, h2, rfl⟩
    refine ⟨(v, gnode act (j + 1) v), (mem_zip_idRange hnd _ _).2 ⟨hv, rfl⟩, ?_⟩
    simp only [recsNode, mem_filterMap]
    refine ⟨e, he, ?_⟩
    simp only [h1, contains_eq_mem, h2, decide_true, Bool.and_self, if_true, Option.some.injEq]
    rw [idRange_getD _ _ _ (List.idxOf_lt_length_iff.2 h2)]
    rfl

theorem act_nonempty {a : AutOp κ} {L : Nat} {act : List (List Int)} (data : AutData a L act) :
    ∀ j, j ≤ L → act.getD j [] ≠ [] := by
  intro j
  induction j with
  | zero => intro _; rw [data.act0]; simp
  | succ j ih =>
    intro hj
    obtain ⟨u, hu⟩ := List.exists_mem_of_ne_nil _ (ih (by omega))
    obtain ⟨v, hv, _⟩ := data.succ j (by omega) u hu
    exact List.ne_nil_of_mem hv

theorem le_lo {a : AutOp κ} {L : Nat} {act : List (List Int)} (data : AutData a L act) :
    ∀ j, j ≤ L + 1 → j ≤ lo act j := by
  intro j
  induction j with
  | zero => intro _; exact Nat.zero_le _
  | succ j ih =>
    intro hj
    have h1 := ih (by omega)
    have h2 : 0 < actLen act j := List.length_pos_iff.2 (act_nonempty data j (by omega))
    simp only [lo]
    omega

/-- the source and target of an edge of the unrolled graph lie in neighbouring layers -/
theorem edge_layers {a : AutOp κ} {L : Nat} {act : List (List Int)} (data : AutData a L act) {g : Graph κ}
    (hrecs : g.recs = (List.range L).flatMap (siteRecs a act)) {k : Int} {e : Edge κ} (he : (k, e) ∈ g.edges) :
    ∃ j, j < L ∧ ∃ u ∈ act.getD j [], ∃ v ∈ act.getD (j + 1) [], e.nids = (gnode act j u, gnode act (j + 1) v) := by
  have : (e.nids, e.opics) ∈ g.recs := mem_map.2 ⟨(k, e), he, rfl⟩
  rw [hrecs, mem_flatMap] at this
  obtain ⟨j, hj, hr⟩ := this
  have hjL := List.mem_range.1 hj
  obtain ⟨v, hv, ae, _, _, h2, hr⟩ := (mem_siteRecs (data.actNodup (j + 1) (by omega)) _).1 hr
  exact ⟨j, hjL, ae.nids.1, h2, v, hv, (Prod.mk.inj hr).1⟩

theorem depth_loop {a : AutOp κ} {L : Nat} {act : List (List Int)} (data : AutData a L act) {g : Graph κ}
    (sv : SValid g) (hrecs : g.recs = (List.range L).flatMap (siteRecs a act))
    (ht : g.term true = (lo act L : Int)) :
    ∀ (n j : Nat), j + n = L → ∀ u ∈ act.getD j [], ∀ node, dGet? g.nodes (gnode act j u) = some node →
      ∀ fuel depth, n < fuel → g.nodeDepthLoop true fuel node depth = .ok (depth + n) := by
  intro n
  induction n with
  | zero =>
    intro j hj u hu node hnode fuel depth hfuel
    have hjL : j = L := by omega
    subst hjL
    rw [data.actL] at hu
    simp only [mem_singleton] at hu
    subst hu
    have hx : gnode act j (a.term true) = g.term true := by rw [gnode, data.actL, ht]; simp
    obtain ⟨n', hn', he'⟩ := sv.termNode true
    rw [hx, dGet?_eq_some_of_mem sv.nodesKeys hn'] at hnode
    cases hnode
    obtain ⟨fuel, rfl⟩ : ∃ f, fuel = f + 1 := ⟨fuel - 1, by omega⟩
    unfold Graph.nodeDepthLoop
    rw [he']
    rfl
  | succ n ih =>
    intro j hj u hu node hnode fuel depth hfuel
    have hjL : j < L := by omega
    have hnode' := mem_of_dGet?_eq_some hnode
    -- the node has an outgoing edge
    obtain ⟨v, hv, ae, hae, hact, h1⟩ := data.succ j hjL u hu
    have hr : ((gnode act j ae.nids.1, gnode act (j + 1) v), normOpics (ae.opics j)) ∈ g.recs := by
      rw [hrecs, mem_flatMap]
      exact ⟨j, List.mem_range.2 hjL, (mem_siteRecs (data.actNodup (j + 1) (by omega)) _).2
        ⟨v, hv, ae, hae, hact, h1 ▸ hu, rfl⟩⟩
    obtain ⟨⟨k, ge⟩, hge, hgr⟩ := mem_map.1 hr
    simp only [Prod.mk.injEq] at hgr
    obtain ⟨n', hn', hk⟩ := sv.edgeNode k ge hge false
    have hsrc : ge.nid false = gnode act j u := by rw [Edge.nid]; simp [hgr.1, h1]
    rw [hsrc] at hn'
    have := sv.node_unique hn' hnode'
    subst this
    simp only [Bool.not_false] at hk
    obtain ⟨eid0, rest, heids⟩ : ∃ eid0 rest, n'.eids true = eid0 :: rest := by
      cases h : n'.eids true with
      | nil => rw [h] at hk; simp at hk
      | cons x xs => exact ⟨x, xs, rfl⟩
    -- follow the first one
    obtain ⟨e0, he0, hsrc0⟩ := sv.nodeEdge _ n' hnode' true eid0 (by rw [heids]; simp)
    obtain ⟨j', hj', u0, hu0, v0, hv0, hnids⟩ := edge_layers data hrecs he0
    have hjj : j' = j := by
      by_contra hne
      apply gnode_ne_of_layer_ne act hu0 hu hne
      have : e0.nids.1 = gnode act j u := by simpa [Edge.nid] using hsrc0
      rw [← this, hnids]
    subst hjj
    obtain ⟨n1, hn1, _⟩ := sv.edgeNode eid0 e0 he0 true
    have htgt : e0.nid true = gnode act (j' + 1) v0 := by rw [Edge.nid]; simp [hnids]
    obtain ⟨fuel, rfl⟩ : ∃ f, fuel = f + 1 := ⟨fuel - 1, by omega⟩
    unfold Graph.nodeDepthLoop
    rw [heids]
    simp only
    have hE : g.getEdge eid0 = .ok e0 := dGet_eq_ok_iff.2 (dGet?_eq_some_of_mem sv.edgesKeys he0)
    have hN : g.getNode (e0.nid true) = .ok n1 := dGet_eq_ok_iff.2 (dGet?_eq_some_of_mem sv.nodesKeys hn1)
    rw [hE]
    simp only [bind, Except.bind]
    rw [hN]
    simp only
    rw [htgt] at hn1
    rw [ih (j' + 1) (by omega) v0 hv0 n1 (dGet?_eq_some_of_mem sv.nodesKeys hn1) fuel (depth + 1) (by omega)]
    congr 1
    omega

/-- **the unrolled graph has the requested length** -/
theorem fromAutomaton_length {a : AutOp κ} (hv : AutValid a) {L : Int} {g : Graph κ}
    (h : fromAutomaton a L = .ok g) : g.length = .ok L.toNat := by
  obtain ⟨hL, back, fwd, hb, hf, h0, hLa, hrecs, hnd, hcons, hterm, hkeys, hnodes⟩ := fromAutomaton_unrolled h
  have data := autData_of_layers hv hb hf h0 hLa hnodes
  have sv := SValid.of_isConsistent hnd hcons
  have ht1 : g.term true = (lo (actOf back fwd) L.toNat : Int) := by simp [Graph.term, hterm]
  have ht0 : g.term false = gnode (actOf back fwd) 0 (a.term false) := by
    rw [gnode, h0]
    simp [Graph.term, hterm, lo]
  obtain ⟨n0, hn0, _⟩ := sv.termNode false
  have hn0' := dGet?_eq_some_of_mem sv.nodesKeys hn0
  unfold Graph.length Graph.nodeDepth
  have hN : g.getNode (g.term false) = .ok n0 := dGet_eq_ok_iff.2 hn0'
  rw [hN]
  simp only [bind, Except.bind]
  have hlen : g.nodes.length = lo (actOf back fwd) (L.toNat + 1) := by
    have := congrArg List.length hkeys
    simp only [dKeys, length_map, length_cons, idRange_length] at this
    have h1 := le_lo data 1 (by omega)
    have h2 := lo_mono (actOf back fwd) (show 1 ≤ L.toNat + 1 by omega)
    omega
  rw [ht0] at hn0'
  have := depth_loop data sv hrecs ht1 L.toNat 0 (by omega) (a.term false) (by rw [h0]; simp) n0 hn0'
    (g.nodes.length + 1) 0 (by have := le_lo data (L.toNat + 1) (by omega); omega)
  rw [this]
  simp

end Ptn.Og

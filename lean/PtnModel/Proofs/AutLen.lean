import PtnModel.Proofs.AutSem
/-!
# `from_automaton`: the unrolled graph has the requested length
-/
set_option linter.unusedSectionVars false

namespace Ptn.Og
open List Ptn.Dense

variable {κ : Type} [CommRing κ] [DecidableEq κ]

theorem mem_zip_idRange {l : List Int} (hl : l.Nodup) (start : Int) (p : Int × Int) :
    p ∈ l.zip (idRange start l.length) ↔ p.1 ∈ l ∧ p.2 = start + (l.idxOf p.1 : Nat) := by
  induction l generalizing start with
  | nil => simp
  | cons v l ih =>
    rw [nodup_cons] at hl
    rw [length_cons, idRange_succ', zip_cons_cons, mem_cons, ih hl.2]
    obtain ⟨p1, p2⟩ := p
    constructor
    · rintro (h | ⟨h1, h2⟩)
      · cases h; simp
      · have hne : p1 ≠ v := fun hc => hl.1 (hc ▸ h1)
        refine ⟨mem_cons_of_mem _ h1, ?_⟩
        simp only at h2 ⊢
        rw [List.idxOf_cons_ne _ (Ne.symm hne), h2]
        push_cast; omega
    · rintro ⟨h1, h2⟩
      simp only at h1 h2
      by_cases hpv : p1 = v
      · subst hpv
        left
        simp [h2]
      · right
        rcases mem_cons.1 h1 with h | h
        · exact absurd h hpv
        · refine ⟨h, ?_⟩
          simp only
          rw [h2, List.idxOf_cons_ne _ (Ne.symm hpv)]
          push_cast; omega

/-- the records of site `j` -/
theorem mem_siteRecs {a : AutOp κ} {act : List (List Int)} {j : Nat} (hnd : (act.getD (j + 1) []).Nodup)
    (r : ERec κ) :
    r ∈ siteRecs a act j ↔ ∃ v ∈ act.getD (j + 1) [], ∃ e ∈ inEv a v, e.active j = true ∧ e.nids.1 ∈ act.getD j [] ∧
      r = ((gnode act j e.nids.1, gnode act (j + 1) v), normOpics (e.opics j)) := by
  unfold siteRecs recsLayerV
  simp only [mem_flatMap, mapsF, actLen]
  constructor
  · rintro ⟨⟨v, y⟩, hzip, hr⟩
    obtain ⟨hv, hy⟩ := (mem_zip_idRange hnd _ _).1 hzip
    simp only at hv hy hr
    simp only [recsNode, mem_filterMap] at hr
    obtain ⟨e, he, hr⟩ := hr
    by_cases hc : e.active j = true ∧ e.nids.1 ∈ act.getD j []
    · simp only [hc.1, contains_eq_mem, hc.2, decide_true, Bool.and_self, if_true, Option.some.injEq] at hr
      refine ⟨v, hv, e, he, hc.1, hc.2, ?_⟩
      rw [← hr, idRange_getD _ _ _ (List.idxOf_lt_length_iff.2 hc.2), hy]
      rfl
    · exfalso
      by_cases h1 : e.active j = true
      · have h2 : e.nids.1 ∉ act.getD j [] := fun h2 => hc ⟨h1, h2⟩
        simp only [h1, Bool.true_and, contains_eq_mem, h2, decide_false, Bool.false_eq_true, if_false] at hr
        cases hr
      · simp [h1] at hr
  · rintro ⟨v, hv, e, he, h1, h2, rfl⟩
    refine ⟨(v, gnode act (j + 1) v), (mem_zip_idRange hnd _ _).2 ⟨hv, rfl⟩, ?_⟩
    simp only [recsNode, mem_filterMap]
    refine ⟨e, he, ?_⟩
    simp only [h1, contains_eq_mem, h2, decide_true, Bool.and_self, if_true, Option.some.injEq]
    rw [idRange_getD _ _ _ (List.idxOf_lt_length_iff.2 h2)]
    rfl

end Ptn.Og

import PtnModel.Proofs.KryExpMatrix
/-!
# Polynomials of `A` on the start vector, once the Lanczos run exhausted the Krylov space

`lanczos_intertwine` : `A V = V T` as an identity of Mathlib matrices (`V : n × k` the returned matrix, `T` the returned
tridiagonal matrix), and `v = ‖v‖ · V e₀`;
`lanczos_poly`       : `p(A) v = ‖v‖ · V p(T) e₀` for every polynomial `p = ∑_{j<d} a_j X^j`.
-/
set_option linter.unusedSectionVars false
namespace Ptn.Krylov
open Ptn Finset Matrix

variable {𝕜 : Type} [RCLike 𝕜]
local notation "conj" => starRingEnd 𝕜

/-- the returned tridiagonal matrix as a Mathlib matrix -/
noncomputable def tridiagMatrix (k : Nat) (alpha beta : List ℝ) : Matrix (Fin k) (Fin k) 𝕜 :=
  fun a b => ((tridiag alpha beta a b : ℝ) : 𝕜)

/-- the first unit vector -/
def e0 (k : Nat) : Fin k → 𝕜 := fun c => if (c : Nat) = 0 then 1 else 0

theorem mulVec_e0 {m k : Nat} (hk : 0 < k) (F : Nat → Nat → 𝕜) (i : Fin m) : (toRect m k F *ᵥ e0 k) i = F i 0 := by
  have : (toRect m k F *ᵥ e0 k) i = ∑ c ∈ range k, F i c * (if c = 0 then (1 : 𝕜) else 0) := by
    rw [← Fin.sum_univ_eq_sum_range (fun c => F i c * (if c = 0 then (1 : 𝕜) else 0)) k]
    rfl
  rw [this, Finset.sum_eq_single 0]
  · rw [if_pos rfl, mul_one]
  · intro c _ hc; rw [if_neg hc, mul_zero]
  · intro h; exact absurd (mem_range.2 hk) h

variable {Afun : List 𝕜 → List 𝕜} {dnorm : List 𝕜 → ℝ}

/-- **`A V = V T`** once the last Lanczos residual vanishes, and `v = ‖v‖ · V e₀` -/
theorem lanczos_intertwine (hN : NormContract dnorm) {v : List 𝕜} {numiter : Nat} {M : Nat → Nat → 𝕜}
    (hM : ActsAs v.length Afun M) (hH : ∀ i j, i < v.length → j < v.length → conj (M i j) = M j i)
    (hX : C15.Exhausted Afun dnorm v numiter) {alpha beta : List ℝ} {V : Mat 𝕜}
    (hl : lanczos Afun dnorm v numiter = .ok (alpha, beta, V)) :
    toMatrix v.length M * toRect v.length V.n V.f = toRect v.length V.n V.f * tridiagMatrix V.n alpha beta ∧
    toVec v.length v = ((dnorm v : ℝ) : 𝕜) • (toRect v.length V.n V.f *ᵥ e0 V.n) := by
  have hA : IsHermitian v.length Afun := hM.isHermitian hH
  have hX' := hX alpha beta V hl
  obtain ⟨st, hc, rfl, rfl, rfl⟩ := lanczos_ok Afun dnorm hl
  obtain ⟨k, _, hf⟩ := lanczosCore_fin hN hA hc
  obtain ⟨h0, _, _⟩ := lanczosCore_ok Afun dnorm hc
  have h0' : 0 < dnorm v := of_decide_eq_true h0
  have hnrm : ((dnorm v : ℝ) : 𝕜) ≠ 0 := by exact_mod_cast h0'.ne'
  have hv : (colsMat v.length st.V).n = k := hf.sized.2.2
  have hfirst := lanczosCore_first Afun dnorm hc
  have hz : ∀ i, i < v.length → vget (lzRes Afun v.length st (k - 1)) i = 0 := by
    intro i _
    rw [hv, lanczosResidual_eq hf] at hX'
    exact hN.vget_eq_zero hX' i
  have hVf : ∀ j c, (colsMat v.length st.V).f j c = vget (st.vec c) j := fun _ _ => rfl
  constructor
  · funext i b
    have hb : (b : Nat) < k := by rw [← hv]; exact b.isLt
    rw [toRect_mul, Matrix.mul_apply]
    have e1 := hM (st.vec b) (hf.len b hb) i i.isLt
    have e2 := hf.strong hz hb i.isLt
    have e3 : ∑ j ∈ range v.length, M i j * (colsMat v.length st.V).f j b = vget (Afun (st.vec b)) i := by
      rw [e1]; rfl
    rw [e3, e2, ← hv, Finset.sum_range]
    refine Finset.sum_congr rfl fun a _ => ?_
    show _ = (colsMat v.length st.V).f i a * ((tridiag st.alpha st.beta a b : ℝ) : 𝕜)
    rw [hVf]; ring
  · funext i
    rw [Pi.smul_apply, mulVec_e0 (by rw [hv]; exact hf.kpos)]
    show vget v i = _ * vget (st.V.getD 0 []) i
    rw [hfirst, vget_vdiv i.isLt, ofReal_eq]
    show vget v i = ((dnorm v : ℝ) : 𝕜) * (vget v i / ((dnorm v : ℝ) : 𝕜))
    field_simp

/-- **Polynomials are exact on an exhausted Krylov space**: `p(A) v = ‖v‖ · V p(T) e₀` for `p = ∑_{j<d} a_j X^j` -/
theorem lanczos_poly (hN : NormContract dnorm) {v : List 𝕜} {numiter : Nat} {M : Nat → Nat → 𝕜}
    (hM : ActsAs v.length Afun M) (hH : ∀ i j, i < v.length → j < v.length → conj (M i j) = M j i)
    (hX : C15.Exhausted Afun dnorm v numiter) {alpha beta : List ℝ} {V : Mat 𝕜}
    (hl : lanczos Afun dnorm v numiter = .ok (alpha, beta, V)) (d : Nat) (a : Nat → 𝕜) :
    (∑ j ∈ range d, a j • toMatrix v.length M ^ j) *ᵥ toVec v.length v =
      ((dnorm v : ℝ) : 𝕜) • (toRect v.length V.n V.f *ᵥ
        ((∑ j ∈ range d, a j • tridiagMatrix V.n alpha beta ^ j) *ᵥ e0 V.n)) := by
  obtain ⟨hAV, hv⟩ := lanczos_intertwine hN hM hH hX hl
  rw [hv, Matrix.mulVec_smul, Matrix.mulVec_mulVec, Matrix.mulVec_mulVec]
  congr 2
  rw [Matrix.sum_mul, Matrix.mul_sum]
  refine Finset.sum_congr rfl fun j _ => ?_
  rw [Matrix.smul_mul, Matrix.mul_smul, pow_intertwine _ _ _ hAV j]

end Ptn.Krylov

import PtnModel.Proofs.HistEvoBoundary4
import PtnModel.Proofs.HistEvoDmrg1
/-!
# C10: the DMRG energies are bounded below by the ground-state energy of the quantum-number SECTOR of the state

* `chargeSum qd σ`      : total physical charge `Σ_i qd[σ_i]` of a basis state;
* `ampRow_support`      : a row of amplitudes moving through block-sparse tensors stays supported on bond indices whose
                          charge is the start charge plus the physical charges consumed so far;
* `amp_support`         : the dense amplitudes of a block-sparse sweep state (`HistWf.EvoSparse`) vanish outside the sector
                          `qD[L][0] - qD[0][0]`;
* `SectorLower H qd Q μ`: `μ ‖x‖² ≤ ⟨x|H|x⟩` for all dense vectors supported on the sector `Q`;
* `sector_le_energy`    : a normalised (`Evo.DInv`) block-sparse state has energy `≥` every such `μ`;
* `SInv`, `dmrg1Left_sinv`, `dmrg1Right_sinv`, `dmrg1Sweep_sinv`, `sweeps_sector`: the variational invariant of C10
  (`DInv`), the block-sparsity invariant of C02 (`EvoSparse`) and the boundary charges, carried together through the sweeps;
* `dmrg1_sector_main`, `dmrg1_sector_start`: single-site DMRG.
-/

set_option linter.unusedSectionVars false
namespace Ptn.Sector
open Ptn Ptn.Evo Ptn.Krylov Ptn.Ortho Ptn.BondOps Ptn.Dense Ptn.Env Ptn.HistWf Finset

variable {𝕜 : Type} [RCLike 𝕜] [DecidableEq 𝕜]

/-- total physical charge of a basis state: `Σ_i qd[σ_i]` -/
def chargeSum (qd : List Int) : List Nat → Int
  | [] => 0
  | s :: ss => qd.getD s 0 + chargeSum qd ss

/-- **support of a row of amplitudes**: moving through block-sparse tensors with bond charges `Q i, Q (i+1), …`, a row vector
supported on bond indices of charge `c` becomes a row vector supported on bond indices of charge `c + Σ qd[s]` -/
theorem ampRow_support {qd : List Int} (Q : Nat → List Int) :
    ∀ (As : List (T3 𝕜)) (ss : List Nat) (i : Nat) (v : Nat → 𝕜) (c : Int),
      (∀ j, j < As.length → T3Wf (As.getD j emptyT3) qd (Q (i + j)) (Q (i + j + 1))) →
      ss.length = As.length → (∀ s ∈ ss, s < qd.length) →
      (∀ a, a < (Q i).length → v a ≠ 0 → (Q i).getD a 0 = c) →
      ∀ b, b < (Q (i + As.length)).length → MPS.ampRow As ss v b ≠ 0 →
        (Q (i + As.length)).getD b 0 = c + chargeSum qd ss
  | [], ss, i, v, c, _, hlen, _, hv, b, hb, hne => by
    have : ss = [] := List.eq_nil_of_length_eq_zero hlen
    subst this
    simpa [chargeSum] using hv b hb hne
  | A :: As, [], i, v, c, _, hlen, _, _, _, _, _ => by simp at hlen
  | A :: As, s :: ss, i, v, c, hA, hlen, hs, hv, b, hb, hne => by
    have hA0 : T3Wf A qd (Q i) (Q (i + 1)) := by simpa using hA 0 (by simp)
    have ih := ampRow_support Q As ss (i + 1) (fun b => sumRange A.d1 fun a => v a * A.f s a b) (c + qd.getD s 0)
      (fun j hj => by
        have := hA (j + 1) (by simpa using hj)
        simpa [Nat.add_assoc, Nat.add_comm 1 j] using this)
      (by simpa using hlen) (fun t ht => hs t (List.mem_cons_of_mem _ ht))
      (fun b' hb' hne' => by
        rw [Env.sumRange_eq] at hne'
        obtain ⟨a, ha, hne''⟩ := Finset.exists_ne_zero_of_sum_ne_zero hne'
        have ha := Finset.mem_range.1 ha
        have h1 : v a ≠ 0 := fun h0 => hne'' (by rw [h0, zero_mul])
        have h2 : A.f s a b' ≠ 0 := fun h0 => hne'' (by rw [h0, mul_zero])
        have e1 := hv a (by rw [← hA0.d1]; exact ha) h1
        have e2 := hA0.sp s a b' (by rw [hA0.d0]; exact hs s (List.mem_cons_self ..)) ha
          (by rw [hA0.d2]; exact hb') h2
        omega)
      b (by simpa [Nat.add_assoc, Nat.add_comm 1] using hb) hne
    have e : i + (A :: As).length = i + 1 + As.length := by simp; omega
    rw [e, ih, chargeSum]; omega


theorem lt_of_mem_digitsU {d : Nat} : ∀ {L : Nat} {σ : List Nat}, σ ∈ digitsU d L → ∀ s ∈ σ, s < d
  | 0, σ, h, s, hs => by
    simp [digitsU] at h
    subst h
    simp at hs
  | L + 1, σ, h, s, hs => by
    rw [digitsU, List.replicate_succ] at h
    obtain ⟨x, t, hx, ht, rfl⟩ := mem_digits_cons.1 h
    rcases List.mem_cons.1 hs with rfl | hs'
    · exact hx
    · exact lt_of_mem_digitsU ht s hs'

/-- the quantum-number sector of a sweep state: trailing minus leading bond charge -/
def sectorOf (s : Sweep 𝕜) (L : Nat) : Int := (getQ s L).getD 0 0 - (getQ s 0).getD 0 0

/-- **the dense amplitudes of a block-sparse sweep state vanish outside its sector** -/
theorem amp_support {H : MPO 𝕜} {qd : List Int} {s : Sweep 𝕜} {cl cr : Nat} (h : EvoSparse H qd s cl cr)
    (hqL : 0 < (getQ s H.A.length).length) {σ : List Nat} (hσ : σ ∈ digitsU qd.length H.A.length)
    (hne : (cur qd s).amp σ ≠ 0) : chargeSum qd σ = sectorOf s H.A.length := by
  have hlen : s.A.toList.length = H.A.length := by rw [Array.length_toList, h.sizeA]
  have := ampRow_support (qd := qd) (getQ s) s.A.toList σ 0 (fun a => if a = 0 then 1 else 0) ((getQ s 0).getD 0 0)
    (fun j hj => by
      rw [toList_getD', Nat.zero_add]
      exact h.site j (by rw [← hlen]; exact hj))
    (by rw [length_of_mem_digits hσ, List.length_replicate, hlen])
    (lt_of_mem_digitsU hσ)
    (fun a _ ha => by
      by_cases h0 : a = 0
      · subst h0; rfl
      · rw [if_neg h0] at ha; exact absurd rfl ha)
    0 (by rw [Nat.zero_add, hlen]; exact hqL) hne
  rw [Nat.zero_add, hlen] at this
  unfold sectorOf
  omega


/-- `μ` is a lower bound of the quadratic form of the dense operator ON THE SECTOR `Q`: on all dense vectors supported on
the basis states `σ` with `Σ_i qd[σ_i] = Q` -/
def SectorLower (H : MPO 𝕜) (qd : List Int) (Q : Int) (μ : ℝ) : Prop :=
  ∀ x : List Nat → 𝕜, (∀ σ, σ ∈ digitsU qd.length H.A.length → x σ ≠ 0 → chargeSum qd σ = Q) →
    μ * ∑ σ ∈ digitsU qd.length H.A.length, ‖x σ‖ ^ 2 ≤
      RCLike.re (∑ σ ∈ digitsU qd.length H.A.length, ∑ τ ∈ digitsU qd.length H.A.length, star (x σ) * H.elem σ τ * x τ)

omit [DecidableEq 𝕜] in
/-- a lower bound of the whole operator is a lower bound on every sector -/
theorem SectorLower.of_dense {H : MPO 𝕜} {qd : List Int} {μ : ℝ} (h : DenseLower H qd.length μ) (Q : Int) :
    SectorLower H qd Q μ := fun x _ => h x

/-- **a normalised block-sparse state has energy at least every lower bound on its sector** -/
theorem sector_le_energy {H : MPO 𝕜} {qd : List Int} {s : Sweep 𝕜} {c cl cr : Nat} {E μ : ℝ}
    (h : DInv H qd s c E) (hs : EvoSparse H qd s cl cr) (hμ : SectorLower H qd (sectorOf s H.A.length) μ) : μ ≤ E := by
  have := hμ (fun σ => (cur qd s).amp σ)
    (fun σ hσ hne => amp_support hs (by rw [h.can.qL]; exact Nat.one_pos) hσ hne)
  have hn := h.nrm
  have he := h.en
  rw [normSq_real, h.can.len] at hn
  have hn' : ∑ σ ∈ digitsU qd.length H.A.length, ‖(cur qd s).amp σ‖ ^ 2 = 1 := by exact_mod_cast hn
  unfold energy at he
  rw [h.can.len] at he
  rw [hn', he, mul_one, RCLike.ofReal_re] at this
  exact this


variable {k : EvoKernels 𝕜 ℝ} {H : MPO 𝕜} {qd : List Int} {numiter : Nat}

/-- invariant of the half sweeps: mixed-canonical normalised state with energy `E'`, block sparse, boundary charges of `s0` -/
structure SInv (H : MPO 𝕜) (qd : List Int) (s0 s : Sweep 𝕜) (c : Nat) (E' : ℝ) : Prop where
  inv : DInv H qd s c E'
  sp : EvoSparse H qd s c c
  q0 : getQ s 0 = getQ s0 0
  qL : getQ s H.A.length = getQ s0 H.A.length

theorem SInv.sector {s0 s : Sweep 𝕜} {c : Nat} {E' : ℝ} (h : SInv H qd s0 s c E') :
    sectorOf s H.A.length = sectorOf s0 H.A.length := by
  unfold sectorOf; rw [h.q0, h.qL]

theorem SInv.le {s0 s : Sweep 𝕜} {c : Nat} {E' μ : ℝ} (h : SInv H qd s0 s c E')
    (hμ : SectorLower H qd (sectorOf s0 H.A.length) μ) : μ ≤ E' :=
  sector_le_energy h.inv h.sp (by rw [h.sector]; exact hμ)

theorem dmrg1Left_sinv (ctx : SweepCtx k H qd numiter) (hH : HOk H qd) {s0 : Sweep 𝕜} {se se' : Sweep 𝕜 × ℝ} {E : ℝ}
    {c : Nat} (h : SInv H qd s0 se.1 c E) (hc1 : c + 1 < H.A.length)
    (hrun : dmrg1Left k H qd numiter se c = .ok se') : SInv H qd s0 se'.1 (c + 1) se'.2 ∧ se'.2 ≤ E := by
  obtain ⟨s, e⟩ := se
  obtain ⟨s', e'⟩ := se'
  obtain ⟨hinv, hle, _⟩ := dmrg1Left_inv ctx h.inv hc1 hrun
  have hsp := dmrg1Left_sparse ctx.qr.contract.shape hH h.sp hc1 hrun
  obtain ⟨en, Aopt, Ai, An, qb, BLn, -, -, -, e1⟩ := dmrg1Left_unfold hrun
  injection e1 with e1 _
  have hsz : c + 1 < s.qD.size := by rw [h.sp.sizeQ]; omega
  refine ⟨⟨hinv, hsp, ?_, ?_⟩, hle⟩
  · rw [← h.q0]; dsimp only; rw [e1]
    show (s.qD.setIfInBounds (c + 1) qb).getD 0 [] = s.qD.getD 0 []
    rw [getD_setIfInBounds_ne _ _ _ (by omega)]
  · rw [← h.qL]; dsimp only; rw [e1]
    show (s.qD.setIfInBounds (c + 1) qb).getD H.A.length [] = s.qD.getD H.A.length []
    rw [getD_setIfInBounds_ne _ _ _ (by omega)]

theorem dmrg1Right_sinv (ctx : SweepCtx k H qd numiter) (hH : HOk H qd) {s0 : Sweep 𝕜} {se se' : Sweep 𝕜 × ℝ} {E : ℝ}
    {j : Nat} (h : SInv H qd s0 se.1 (j + 1) E) (hj : j + 1 < H.A.length)
    (hrun : dmrg1Right k H qd numiter se (j + 1) = .ok se') : SInv H qd s0 se'.1 j se'.2 ∧ se'.2 ≤ E := by
  obtain ⟨s, e⟩ := se
  obtain ⟨s', e'⟩ := se'
  obtain ⟨hinv, hle, _⟩ := dmrg1Right_inv ctx h.inv hrun
  have hsp := dmrg1Right_sparse ctx.qr.contract.shape hH h.sp hj hrun
  obtain ⟨en, Aopt, Ai, Ap, qb, BRn, -, -, -, e1⟩ := dmrg1Right_unfold hrun
  injection e1 with e1 _
  refine ⟨⟨hinv, hsp, ?_, ?_⟩, hle⟩
  · rw [← h.q0]; dsimp only; rw [e1]
    show (s.qD.setIfInBounds (j + 1) qb).getD 0 [] = s.qD.getD 0 []
    rw [getD_setIfInBounds_ne _ _ _ (by omega)]
  · rw [← h.qL]; dsimp only; rw [e1]
    show (s.qD.setIfInBounds (j + 1) qb).getD H.A.length [] = s.qD.getD H.A.length []
    rw [getD_setIfInBounds_ne _ _ _ (by omega)]


/-- **one DMRG sweep** (`L ≥ 2`): the reported energy is the energy of a normalised block-sparse state in the sector of the
state before the sweep, hence at least every lower bound on that sector; the invariant is re-established -/
theorem dmrg1Sweep_sinv (ctx : SweepCtx k H qd numiter) (hH : HOk H qd) (hL2 : 2 ≤ H.A.length) {s0 s s' : Sweep 𝕜}
    {es es' : List ℝ} {E : ℝ} (h : SInv H qd s0 s 0 E) (hrun : dmrg1Sweep k H qd numiter (s, es) = .ok (s', es')) :
    ∃ e, es' = es ++ [e] ∧ SInv H qd s0 s' 0 e ∧ e ≤ E ∧
      ∀ μ, SectorLower H qd (sectorOf s0 H.A.length) μ → μ ≤ e := by
  obtain ⟨s1, e1, s2, e2, s3, h1, h2, h3, h4⟩ := dmrg1Sweep_unfold hrun
  injection h4 with h4a h4b
  subst h4a h4b
  dsimp only at h1
  have hleft := foldIdx_up (dmrg1Left k H qd numiter)
    (fun i (t : Sweep 𝕜 × ℝ) => ∃ E', SInv H qd s0 t.1 i E' ∧ E' ≤ E ∧ (0 < i → t.2 = E'))
    (H.A.length - 1)
    (fun i hi t t' ht ht' => by
      obtain ⟨E', hinv, hle, _⟩ := ht
      obtain ⟨hinv', hle'⟩ := dmrg1Left_sinv ctx hH hinv (by omega) ht'
      exact ⟨t'.2, hinv', le_trans hle' hle, fun _ => rfl⟩)
    (s, 0) (s1, e1) ⟨E, h, le_refl E, fun h0 => absurd h0 (lt_irrefl 0)⟩ h1
  obtain ⟨E1, hinv1, hle1, hpos1⟩ := hleft
  have hE1 : e1 = E1 := hpos1 (by omega)
  subst hE1
  have hright := foldIdx_dn (dmrg1Right k H qd numiter)
    (fun i (t : Sweep 𝕜 × ℝ) => SInv H qd s0 t.1 i t.2 ∧ t.2 ≤ E)
    (H.A.length - 1)
    (fun i hi t t' ht ht' => by
      obtain ⟨hinv, hle⟩ := ht
      obtain ⟨hinv', hle'⟩ := dmrg1Right_sinv ctx hH hinv (by omega) ht'
      exact ⟨hinv', le_trans hle' hle⟩)
    (s1, e1) (s2, e2) ⟨hinv1, hle1⟩ h2
  obtain ⟨hinv2, hle2⟩ := hright
  dsimp only at hinv2 hle2
  have hL : 0 < H.A.length := by omega
  -- the final normalisation
  have hfrob : frob3 (getA s2 0) = 1 := by
    have hc := (canon_centre hinv2.inv.can ctx.hH).1
    rw [hinv2.inv.nrm] at hc
    exact_mod_cast hc.symm
  obtain ⟨σ, a, b, hσ, ha, hb, hne⟩ := exists_entry_of_frob hfrob
  have hd1 : (getA s2 0).d1 = 1 := (hinv2.inv.can.wf.shape 0 hL).2.1.trans hinv2.inv.can.q0
  have hq0 := normalizeFirst_q0 ctx.qr.contract.shape hinv2.inv.can.q0 hd1
    (by rw [hinv2.inv.can.wf.sizeQ]; omega) hσ ha hb hne h3
  have hqL : getQ s' H.A.length = getQ s2 H.A.length := by
    obtain ⟨A0, X, qb, -, rfl⟩ := dmrgNormalizeFirst_unfold h3
    show (s2.qD.setIfInBounds 0 qb).getD H.A.length [] = s2.qD.getD H.A.length []
    rw [getD_setIfInBounds_ne _ _ _ (by omega)]
  refine ⟨e2, rfl, ⟨normalize_inv ctx hinv2.inv h3, dmrgNormalizeFirst_sparse ctx.qr.contract.shape hL hinv2.sp h3,
    hq0.trans hinv2.q0, hqL.trans hinv2.qL⟩, hle2, fun μ hμ => hinv2.le hμ⟩

/-- invariant of the sweep loop of the driver -/
def SweepsSector (H : MPO 𝕜) (qd : List Int) (s0 : Sweep 𝕜) (t : Sweep 𝕜 × List ℝ) : Prop :=
  (∃ E', SInv H qd s0 t.1 0 E') ∧ ∀ e ∈ t.2, ∀ μ, SectorLower H qd (sectorOf s0 H.A.length) μ → μ ≤ e

theorem sweeps_sector (ctx : SweepCtx k H qd numiter) (hH : HOk H qd) (hL2 : 2 ≤ H.A.length) {s0 : Sweep 𝕜}
    (n : Nat) (t t' : Sweep 𝕜 × List ℝ) (h : SweepsSector H qd s0 t)
    (hr : iterate (dmrg1Sweep k H qd numiter) n t = .ok t') : SweepsSector H qd s0 t' :=
  iterate_inv (dmrg1Sweep k H qd numiter) (SweepsSector H qd s0)
    (fun t t' ht ht' => by
      obtain ⟨⟨E', hinv⟩, hall⟩ := ht
      obtain ⟨s, es⟩ := t
      obtain ⟨s', es'⟩ := t'
      obtain ⟨e, rfl, hinv', _, hlow⟩ := dmrg1Sweep_sinv ctx hH hL2 hinv ht'
      refine ⟨⟨e, hinv'⟩, fun x hx => ?_⟩
      rcases List.mem_append.1 hx with hx | hx
      · exact hall x hx
      · have : x = e := by simpa using hx
        subst this; exact hlow)
    n t t' h hr


/-- the quantum-number sector of an MPS: `qD[-1][0] - qD[0][0]` -/
def sectorMPS (ψ : MPS 𝕜) : Int := (ψ.qD.getLast?.getD []).getD 0 0 - (ψ.qD.head?.getD []).getD 0 0

/-- **single-site DMRG: every reported energy is bounded below on the sector of the returned state** -/
theorem dmrg1_sector_main {ψ ψ' : MPS 𝕜} (ctx : SweepCtx k H ψ.qd numiter) (hH : HOk H ψ.qd) (hL2 : 2 ≤ H.A.length)
    (hadm : Admissible ψ) {numsweeps : Nat} {en : List ℝ}
    (h : dmrgSinglesite k H ψ numsweeps numiter = .ok (ψ', en)) :
    ∀ e ∈ en, ∀ μ, SectorLower H ψ.qd (sectorMPS ψ') μ → μ ≤ e := by
  obtain ⟨s0, nrm, s, hp, hit, rfl⟩ := dmrgSinglesite_unfold h
  obtain ⟨ψ1, E0, _, _, hinv0⟩ := prologue_inv ctx rfl hadm hp
  have hL : 0 < H.A.length := by omega
  have hsp0 := prologue_sparse ctx.qr.contract.shape hH hadm.wf hp hL
  obtain ⟨⟨E', hfin⟩, hall⟩ := sweeps_sector ctx hH hL2 numsweeps (s0, []) (s, en)
    ⟨⟨E0, ⟨hinv0, hsp0, rfl, rfl⟩⟩, fun e he => absurd he (by simp)⟩ hit
  have hsec : sectorMPS (toMPS ψ s) = sectorOf s0 H.A.length := by
    rw [← hfin.sector]
    unfold sectorMPS sectorOf
    show (s.qD.toList.getLast?.getD []).getD 0 0 - (s.qD.toList.head?.getD []).getD 0 0 = _
    have hsz : s.qD.toList.length = H.A.length + 1 := by rw [Array.length_toList, hfin.sp.sizeQ]
    rw [getLast?_eq_getD hsz, head?_eq_getD (by omega), Option.getD_some, Option.getD_some, toList_getD s.qD H.A.length [],
      toList_getD s.qD 0 []]
    rfl
  intro e he μ hμ
  rw [hsec] at hμ
  exact hall e he μ hμ

/-- the same for the sector of the START state, provided it is not the zero state -/
theorem dmrg1_sector_start {ψ ψ' : MPS 𝕜} (ctx : SweepCtx k H ψ.qd numiter) (hH : HOk H ψ.qd) (hL2 : 2 ≤ H.A.length)
    (hadm : Admissible ψ) {numsweeps : Nat} {en : List ℝ}
    (h : dmrgSinglesite k H ψ numsweeps numiter = .ok (ψ', en))
    {σ : List Nat} (hσ : σ ∈ digitsU ψ.qd.length ψ.A.length) (hne : ψ.amp σ ≠ 0) :
    sectorMPS ψ' = sectorMPS ψ ∧ ∀ e ∈ en, ∀ μ, SectorLower H ψ.qd (sectorMPS ψ) μ → μ ≤ e := by
  obtain ⟨b0, bL⟩ := dmrg1_boundary_contract ctx hL2 hadm h hσ hne
  have hs : sectorMPS ψ' = sectorMPS ψ := by unfold sectorMPS; rw [b0, bL]
  exact ⟨hs, fun e he μ hμ => dmrg1_sector_main ctx hH hL2 hadm h e he μ (by rw [hs]; exact hμ)⟩


/-- **the dense amplitudes of a well-formed (block-sparse) MPS vanish outside its sector** `qD[-1][0] - qD[0][0]` -/
theorem mps_amp_support {ψ : MPS 𝕜} (hw : ψ.wellFormed = true) (hl : 0 < (ψ.qD.getLast?.getD []).length)
    {σ : List Nat} (hσ : σ ∈ digitsU ψ.qd.length ψ.A.length) (hne : ψ.amp σ ≠ 0) :
    chargeSum ψ.qd σ = sectorMPS ψ := by
  obtain ⟨hlen, hsite⟩ := (wellFormed_iff_idx ψ).1 hw
  have hlast := getLast?_eq_getD hlen
  have hhead := head?_eq_getD (l := ψ.qD) (by omega)
  rw [hlast, Option.getD_some] at hl
  have := ampRow_support (qd := ψ.qd) (fun i => ψ.qD.getD i []) ψ.A σ 0 (fun a => if a = 0 then 1 else 0)
    ((ψ.qD.getD 0 []).getD 0 0)
    (fun j hj => by
      have e : ψ.A.getD j emptyT3 = ψ.A[j] := by simp [List.getD_eq_getElem?_getD, hj]
      rw [e, Nat.zero_add]
      exact hsite j hj)
    (by rw [length_of_mem_digits hσ, List.length_replicate])
    (lt_of_mem_digitsU hσ)
    (fun a _ ha => by
      by_cases h0 : a = 0
      · subst h0; rfl
      · rw [if_neg h0] at ha; exact absurd rfl ha)
    0 (by rw [Nat.zero_add]; exact hl) hne
  rw [Nat.zero_add] at this
  unfold sectorMPS
  rw [hlast, hhead, Option.getD_some, Option.getD_some]
  omega

end Ptn.Sector

import PtnModel.Proofs.ExplLab
import PtnModel.Proofs.TotalSpinMol
/-!
# Explicit spin-orbital molecular graph, part 0: shared definitions

Labels of the nodes of `SpinMolecularOpGraphNodes` (`Lab = (family tag, outer key, bond index)`; tags 0..9 = the ten families of
`spinSpecs` in creation order, 10 = `identity_l`, 11 = `identity_r`; outer keys `[i, σ]` resp. `[i, σ, j, τ]`), the index ranges of
`__init__` (`sLabOk`), the edges of `generate_graph` as label triples (`sseg1 … sseg12`, `swireGen`), a label-level mirror of
`_spin_molecular_hamiltonian_graph_add_term` (`stermE`), and the words / charges of the labels: the letter of a label at site `q` is the
pair `(letter at mode 2q, letter at mode 2q+1)` of the *spinless* label on the `2 L` modes `m = 2 i + σ` (`modeLab`, `letOf`).
-/
set_option linter.unusedSectionVars false
set_option linter.unusedVariables false

namespace Ptn.Ham
open Ptn.Og List

/-! ## node tables -/

def SpinNodes.fam (n : SpinNodes) : Nat → Fam
  | 0 => n.aDagL | 1 => n.aAnnL | 2 => n.aDagADagL | 3 => n.aAnnAAnnL | 4 => n.aDagAAnnL
  | 5 => n.aDagR | 6 => n.aAnnR | 7 => n.aDagADagR | 8 => n.aAnnAAnnR | 9 => n.aDagAAnnR
  | _ => []

/-- the inner dictionary a label refers to -/
def SpinNodes.inner (n : SpinNodes) (lab : Lab) : List (Int × Node) :=
  match lab.1 with
  | 10 => n.identityL
  | 11 => n.identityR
  | t => innerOf (n.fam t) lab.2.1

def SpinNodes.nodeAt (n : SpinNodes) (lab : Lab) : Node := nodeOf (n.inner lab) lab.2.2
def SpinNodes.nidOf (n : SpinNodes) (lab : Lab) : Int := (n.nodeAt lab).nid

/-- the table look-up `fam[key][k]` resp. `identity_l[k]`, `identity_r[k]` -/
def SpinNodes.look (n : SpinNodes) (lab : Lab) : Except Err Node :=
  match lab.1 with
  | 10 => dGet n.identityL lab.2.2
  | 11 => dGet n.identityR lab.2.2
  | t => (n.fam t).get2 lab.2.1 lab.2.2

/-- all nodes with their labels, in the order of `nodeList` -/
def SpinNodes.tabN (n : SpinNodes) : List (Lab × Node) :=
  idTabN 10 n.identityL ++ idTabN 11 n.identityR ++
  famTabN 0 n.aDagL ++ famTabN 1 n.aAnnL ++ famTabN 5 n.aDagR ++ famTabN 6 n.aAnnR ++
  famTabN 2 n.aDagADagL ++ famTabN 3 n.aAnnAAnnL ++ famTabN 4 n.aDagAAnnL ++
  famTabN 7 n.aDagADagR ++ famTabN 8 n.aAnnAAnnR ++ famTabN 9 n.aDagAAnnR

/-- the label of a node id (junk for ids that are not in the table) -/
def SpinNodes.labOf (n : SpinNodes) (x : Int) : Lab :=
  ((n.tabN.map fun p => (p.2.nid, p.1)).lookup x).getD default

/-- `(i, σ) < (j, τ)` as a proposition -/
def pLtP (i s j t : Int) : Prop := i < j ∨ (i = j ∧ s < t)

/-- the index ranges of `SpinMolecularOpGraphNodes.__init__` -/
def sLabOk (L : Int) : Lab → Prop
  | (0, [i, s], k) => 0 ≤ i ∧ i < L - 1 ∧ 0 ≤ s ∧ s ≤ 1 ∧ i + 1 ≤ k ∧ k < L
  | (1, [i, s], k) => 0 ≤ i ∧ i < L - 1 ∧ 0 ≤ s ∧ s ≤ 1 ∧ i + 1 ≤ k ∧ k < L
  | (2, [i, s, j, t], k) => 0 ≤ i ∧ i ≤ j ∧ j < L / 2 ∧ 0 ≤ s ∧ s ≤ 1 ∧ 0 ≤ t ∧ t ≤ 1 ∧ (i < j ∨ (i = j ∧ s < t)) ∧
      j + 1 ≤ k ∧ k < L / 2 + 1
  | (3, [i, s, j, t], k) => 0 ≤ j ∧ j ≤ i ∧ i < L / 2 ∧ 0 ≤ s ∧ s ≤ 1 ∧ 0 ≤ t ∧ t ≤ 1 ∧ (j < i ∨ (j = i ∧ t < s)) ∧
      i + 1 ≤ k ∧ k < L / 2 + 1
  | (4, [i, s, j, t], k) => 0 ≤ i ∧ i < L / 2 ∧ 0 ≤ j ∧ j < L / 2 ∧ 0 ≤ s ∧ s ≤ 1 ∧ 0 ≤ t ∧ t ≤ 1 ∧
      max i j + 1 ≤ k ∧ k < L / 2 + 1
  | (5, [i, s], k) => 1 ≤ i ∧ i < L ∧ 0 ≤ s ∧ s ≤ 1 ∧ 1 ≤ k ∧ k < i + 1
  | (6, [i, s], k) => 1 ≤ i ∧ i < L ∧ 0 ≤ s ∧ s ≤ 1 ∧ 1 ≤ k ∧ k < i + 1
  | (7, [i, s, j, t], k) => L / 2 + 1 ≤ i ∧ i ≤ j ∧ j < L ∧ 0 ≤ s ∧ s ≤ 1 ∧ 0 ≤ t ∧ t ≤ 1 ∧ (i < j ∨ (i = j ∧ s < t)) ∧
      L / 2 + 1 ≤ k ∧ k < i + 1
  | (8, [i, s, j, t], k) => L / 2 + 1 ≤ j ∧ j ≤ i ∧ i < L ∧ 0 ≤ s ∧ s ≤ 1 ∧ 0 ≤ t ∧ t ≤ 1 ∧ (j < i ∨ (j = i ∧ t < s)) ∧
      L / 2 + 1 ≤ k ∧ k < j + 1
  | (9, [i, s, j, t], k) => L / 2 + 1 ≤ i ∧ i < L ∧ L / 2 + 1 ≤ j ∧ j < L ∧ 0 ≤ s ∧ s ≤ 1 ∧ 0 ≤ t ∧ t ≤ 1 ∧
      L / 2 + 1 ≤ k ∧ k < min i j + 1
  | (10, [], k) => 0 ≤ k ∧ k < L
  | (11, [], k) => 1 ≤ k ∧ k < L + 1
  | _ => False

theorem mem_prodRS {a b : Int} {p : Int × Int} : p ∈ prodRS a b ↔ a ≤ p.1 ∧ p.1 < b ∧ (p.2 = 0 ∨ p.2 = 1) := by
  obtain ⟨i, s⟩ := p
  simp only [prodRS, mem_flatMap, mem_pyRange, mem_cons, Prod.mk.injEq, not_mem_nil, or_false]
  constructor
  · rintro ⟨i', ⟨h1, h2⟩, ⟨rfl, rfl⟩ | ⟨rfl, rfl⟩⟩
    · exact ⟨h1, h2, Or.inl rfl⟩
    · exact ⟨h1, h2, Or.inr rfl⟩
  · rintro ⟨h1, h2, rfl | rfl⟩
    · exact ⟨i, ⟨h1, h2⟩, Or.inl ⟨rfl, rfl⟩⟩
    · exact ⟨i, ⟨h1, h2⟩, Or.inr ⟨rfl, rfl⟩⟩

theorem pLt_iff (x y : Int × Int) : pLt x y = true ↔ (x.1 < y.1 ∨ (x.1 = y.1 ∧ x.2 < y.2)) := by
  simp [pLt]

/-! ## the edges of `generate_graph` as label triples -/

/-- the operator on the edge into / out of `a_dag_a_ann_*[i, σ, i, τ]` -/
def diagOid (s t : Int) : Int := if s < t then sCA else if s = t then pick sNI sIN s else sAC

section segs
variable {α : Type} (mk : Lab → Lab → Int → α) (L : Int)

def sseg1 : List α := (pyRange 0 (L - 1)).flatMap (fun i => [mk (10, [], i) (10, [], i + 1) sId])
def sseg2 : List α := (pyRange 1 L).flatMap (fun i => [mk (11, [], i) (11, [], i + 1) sId])
def sseg3 : List α := (prodRS 0 (L - 1)).flatMap (fun p => mk (10, [], p.1) (0, [p.1, p.2], p.1 + 1) (pick sCZ sIC p.2) ::
      (pyRange (p.1 + 1) (L - 1)).flatMap fun j => [mk (0, [p.1, p.2], j) (0, [p.1, p.2], j + 1) sZZ])
def sseg4 : List α := (prodRS 0 (L - 1)).flatMap (fun p => mk (10, [], p.1) (1, [p.1, p.2], p.1 + 1) (pick sAZ sIA p.2) ::
      (pyRange (p.1 + 1) (L - 1)).flatMap fun j => [mk (1, [p.1, p.2], j) (1, [p.1, p.2], j + 1) sZZ])
def sseg5 : List α := (prodRS 0 (L / 2)).flatMap (fun p => (prodRS p.1 (L / 2)).flatMap fun q =>
      if pLt p q then
        (if p.1 < q.1 then mk (0, [p.1, p.2], q.1) (2, [p.1, p.2, q.1, q.2], q.1 + 1) (pick sCI sZC q.2)
          else mk (10, [], q.1) (2, [p.1, p.2, q.1, q.2], q.1 + 1) sCC) ::
        (pyRange (q.1 + 1) (L / 2)).flatMap fun k => [mk (2, [p.1, p.2, q.1, q.2], k) (2, [p.1, p.2, q.1, q.2], k + 1) sId]
      else [])
def sseg6 : List α := (prodRS 0 (L / 2)).flatMap (fun p => (prodRS 0 (p.1 + 1)).flatMap fun q =>
      if pLt q p then
        (if p.1 > q.1 then mk (1, [q.1, q.2], p.1) (3, [p.1, p.2, q.1, q.2], p.1 + 1) (pick sAI sZA p.2)
          else mk (10, [], p.1) (3, [p.1, p.2, q.1, q.2], p.1 + 1) sAA) ::
        (pyRange (p.1 + 1) (L / 2)).flatMap fun k => [mk (3, [p.1, p.2, q.1, q.2], k) (3, [p.1, p.2, q.1, q.2], k + 1) sId]
      else [])
def sseg7 : List α := (prodRS 0 (L / 2)).flatMap (fun p => (prodRS 0 (L / 2)).flatMap fun q =>
      (if p.1 < q.1 then mk (0, [p.1, p.2], q.1) (4, [p.1, p.2, q.1, q.2], q.1 + 1) (pick sAI sZA q.2)
        else if p.1 = q.1 then mk (10, [], p.1) (4, [p.1, p.2, q.1, q.2], p.1 + 1) (diagOid p.2 q.2)
        else mk (1, [q.1, q.2], p.1) (4, [p.1, p.2, q.1, q.2], p.1 + 1) (pick sCI sZC p.2)) ::
      (pyRange (max p.1 q.1 + 1) (L / 2)).flatMap fun k => [mk (4, [p.1, p.2, q.1, q.2], k) (4, [p.1, p.2, q.1, q.2], k + 1) sId])
def sseg8 : List α := (prodRS 1 L).flatMap (fun p =>
      (pyRange 1 p.1).flatMap (fun j => [mk (5, [p.1, p.2], j) (5, [p.1, p.2], j + 1) sZZ]) ++
      [mk (5, [p.1, p.2], p.1) (11, [], p.1 + 1) (pick sCI sZC p.2)])
def sseg9 : List α := (prodRS 1 L).flatMap (fun p =>
      (pyRange 1 p.1).flatMap (fun j => [mk (6, [p.1, p.2], j) (6, [p.1, p.2], j + 1) sZZ]) ++
      [mk (6, [p.1, p.2], p.1) (11, [], p.1 + 1) (pick sAI sZA p.2)])
def sseg10 : List α := (prodRS (L / 2 + 1) L).flatMap (fun p => (prodRS p.1 L).flatMap fun q =>
      if pLt p q then
        (pyRange (L / 2 + 1) p.1).flatMap (fun k => [mk (7, [p.1, p.2, q.1, q.2], k) (7, [p.1, p.2, q.1, q.2], k + 1) sId]) ++
        [if p.1 < q.1 then mk (7, [p.1, p.2, q.1, q.2], p.1) (5, [q.1, q.2], p.1 + 1) (pick sCZ sIC p.2)
          else mk (7, [p.1, p.2, q.1, q.2], p.1) (11, [], p.1 + 1) sCC]
      else [])
def sseg11 : List α := (prodRS (L / 2 + 1) L).flatMap (fun p => (prodRS (L / 2 + 1) (p.1 + 1)).flatMap fun q =>
      if pLt q p then
        (pyRange (L / 2 + 1) q.1).flatMap (fun k => [mk (8, [p.1, p.2, q.1, q.2], k) (8, [p.1, p.2, q.1, q.2], k + 1) sId]) ++
        [if p.1 > q.1 then mk (8, [p.1, p.2, q.1, q.2], q.1) (6, [p.1, p.2], q.1 + 1) (pick sAZ sIA q.2)
          else mk (8, [p.1, p.2, q.1, q.2], q.1) (11, [], q.1 + 1) sAA]
      else [])
def sseg12 : List α := (prodRS (L / 2 + 1) L).flatMap (fun p => (prodRS (L / 2 + 1) L).flatMap fun q =>
      (pyRange (L / 2 + 1) (min p.1 q.1)).flatMap
        (fun k => [mk (9, [p.1, p.2, q.1, q.2], k) (9, [p.1, p.2, q.1, q.2], k + 1) sId]) ++
      [if p.1 < q.1 then mk (9, [p.1, p.2, q.1, q.2], p.1) (6, [q.1, q.2], p.1 + 1) (pick sCZ sIC p.2)
        else if p.1 = q.1 then mk (9, [p.1, p.2, q.1, q.2], p.1) (11, [], p.1 + 1) (diagOid p.2 q.2)
        else mk (9, [p.1, p.2, q.1, q.2], q.1) (5, [p.1, p.2], q.1 + 1) (pick sAZ sIA q.2)])

/-- the edges of `generate_graph` in creation order, as (source label, target label, operator id), with an arbitrary edge maker -/
def swireGen : List α := sseg1 mk L ++ (sseg2 mk L ++ (sseg3 mk L ++ (sseg4 mk L ++ (sseg5 mk L ++ (sseg6 mk L ++
    (sseg7 mk L ++ (sseg8 mk L ++ (sseg9 mk L ++ (sseg10 mk L ++ (sseg11 mk L ++ sseg12 mk L))))))))))

end segs

/-! ## label-level mirror of `_spin_molecular_hamiltonian_graph_add_term` -/

/-- label of `nodes.get(oplist, connection)[k]` (`KeyError` for operators other than `C`, `A`) -/
def sgetLabE (oplist : List (Int × Int × Int)) (left : Bool) (k : Int) : Except Err Lab :=
  match oplist with
  | [(i, s, oid)] =>
    if oid == mC then .ok (if left then 0 else 5, [i, s], k)
    else if oid == mA then .ok (if left then 1 else 6, [i, s], k)
    else .error .key
  | [(i, s, oid0), (j, t, oid1)] =>
    if oid0 == mC && oid1 == mC then
      .ok (if left then 2 else 7, (if pLt (j, t) (i, s) then [j, t, i, s] else [i, s, j, t]), k)
    else if oid0 == mA && oid1 == mA then
      .ok (if left then 3 else 8, (if pLt (i, s) (j, t) then [j, t, i, s] else [i, s, j, t]), k)
    else if oid0 == mC && oid1 == mA then .ok (if left then 4 else 9, [i, s, j, t], k)
    else if oid0 == mA && oid1 == mC then .ok (if left then 4 else 9, [j, t, i, s], k)
    else .error .key
  | _ => .error .key

/-- the edge `_spin_molecular_hamiltonian_graph_add_term` adds for a *sorted* operator list: (source label, target label, operator id);
all table look-ups are replaced by the construction of the label, everything else (case analysis, assertions, `to_spin_operator`) is
as in the code -/
def stermE (L : Int) (xs : List (Int × Int × Int)) : Except Err (Lab × Lab × Int) :=
  match xs with
  | [(i, s, oid0), (j, t, oid1)] =>
    if i == j then
      (toSpinOperator [(s, oid0), (t, oid1)] true true).map fun so => ((10, [], i), (11, [], i + 1), so)
    else if !(decide (i < j)) then .error .assertion
    else if j ≤ L / 2 then
      (sgetLabE [(i, s, oid0)] true j).bind fun a =>
      (toSpinOperator [(t, oid1)] false true).map fun so => (a, (11, [], j + 1), so)
    else if i ≥ L / 2 then
      (sgetLabE [(j, t, oid1)] false (i + 1)).bind fun b =>
      (toSpinOperator [(s, oid0)] true false).map fun so => ((10, [], i), b, so)
    else
      (sgetLabE [(i, s, oid0)] true (L / 2)).bind fun a =>
      (sgetLabE [(j, t, oid1)] false (L / 2 + 1)).map fun b => (a, b, sZZ)
  | [(i, s, oid0), (j, t, oid1), (k, m, oid2), (l, u, oid3)] =>
    if i == j && j == k && k == l then
      (toSpinOperator [(s, oid0), (t, oid1), (m, oid2), (u, oid3)] true true).map fun so => ((10, [], i), (11, [], i + 1), so)
    else if i == j && j == k then
      (sgetLabE [(l, u, oid3)] false (i + 1)).bind fun b =>
      (toSpinOperator [(s, oid0), (t, oid1), (m, oid2)] true false).map fun so => ((10, [], i), b, so)
    else if j == k && k == l then
      (sgetLabE [(i, s, oid0)] true j).bind fun a =>
      (toSpinOperator [(t, oid1), (m, oid2), (u, oid3)] false true).map fun so => (a, (11, [], j + 1), so)
    else if j == k then
      (sgetLabE [(i, s, oid0)] true j).bind fun a =>
      (sgetLabE [(l, u, oid3)] false (j + 1)).bind fun b =>
      (toSpinOperator [(t, oid1), (m, oid2)] false false).map fun so => (a, b, so)
    else if k ≤ L / 2 then
      (sgetLabE [(i, s, oid0), (j, t, oid1)] true k).bind fun a =>
      if k == l then
        (toSpinOperator [(m, oid2), (u, oid3)] true true).map fun so => (a, (11, [], k + 1), so)
      else
        (sgetLabE [(l, u, oid3)] false (k + 1)).bind fun b =>
        (toSpinOperator [(m, oid2)] true false).map fun so => (a, b, so)
    else if j ≥ L / 2 then
      (sgetLabE [(k, m, oid2), (l, u, oid3)] false (j + 1)).bind fun b =>
      if i == j then
        (toSpinOperator [(s, oid0), (t, oid1)] true true).map fun so => ((10, [], j), b, so)
      else
        (sgetLabE [(i, s, oid0)] true j).bind fun a =>
        (toSpinOperator [(t, oid1)] false true).map fun so => (a, b, so)
    else
      (sgetLabE [(i, s, oid0), (j, t, oid1)] true (L / 2)).bind fun a =>
      (sgetLabE [(k, m, oid2), (l, u, oid3)] false (L / 2 + 1)).map fun b => (a, b, sId)
  | _ => .error .runtime

/-- value of an `Except` (junk on error) -/
def exVal {α : Type} [Inhabited α] : Except Err α → α
  | .ok a => a
  | .error _ => default

/-- the label triple of the hopping term `a†_{iσ} a_{jσ}` -/
def shopLab (L i j s : Int) : Lab × Lab × Int := exVal (stermE L (sortTrips [(i, s, mC), (j, s, mA)]))
/-- the label triple of the interaction term `a†_{iσ} a†_{jτ} a_{lυ} a_{kμ}` -/
def sintLab (L i s j t k m l u : Int) : Lab × Lab × Int :=
  exVal (stermE L (sortTrips [(i, s, mC), (j, t, mC), (l, u, mA), (k, m, mA)]))

/-! ## letters, words and charges of the labels -/

/-- mode `2 i + σ` -/
def md (i s : Int) : Int := 2 * i + s

/-- the spinless label on `2 L` modes whose path has the same operators -/
def modeLab : Lab → Lab
  | (t, [i, s], k) => (t, [md i s], 2 * k)
  | (t, [i, s, j, u], k) => (t, [md i s, md j u], 2 * k)
  | (t, key, k) => (t, key, 2 * k)

/-- the letter at mode `p` on the path through the node labelled `a` -/
def mletOf (a : Lab) (p : Int) : Int := letOf (modeLab a) p

/-- `oid_single_pair_map[(x, y)]`, total -/
def pairOid (x y : Int) : Int := (oidSinglePairMap.lookup (x, y)).getD (-1)

/-- the pair of single-mode operators of a `SpinMolecularOID` -/
def unpairOid (o : Int) : Int × Int := ((oidSinglePairMap.find? fun p => p.2 == o).map (·.1)).getD (mI, mI)

/-- the letter at site `q` on the path through the node labelled `a` -/
def sletOf (a : Lab) (q : Int) : Int := pairOid (mletOf a (2 * q)) (mletOf a (2 * q + 1))

/-- word on the path from the left terminal to the node -/
def slwLab (a : Lab) : Word := (List.range a.2.2.toNat).map fun (q : Nat) => sletOf a (q : Int)
/-- word on the path from the node to the right terminal -/
def srwLab (L : Int) (a : Lab) : Word := (List.range (L - a.2.2).toNat).map fun (q : Nat) => sletOf a (a.2.2 + (q : Int))

/-- the word on `L` sites with the pairs of the letters `F` on `2 L` modes -/
def pw (L : Nat) (F : Nat → Int) : Word := (List.range L).map fun q => pairOid (F (2 * q)) (F (2 * q + 1))

/-- the charge `(N, S_z)` of the nodes with a label (as in `spinSpecs`; identity chains: 0) -/
def stagQ : Lab → Int
  | (0, [_, s], _) => encPair 1 (sgn s)
  | (1, [_, s], _) => encPair (-1) (-sgn s)
  | (2, [_, s, _, t], _) => encPair 2 (sgn s + sgn t)
  | (3, [_, s, _, t], _) => encPair (-2) (-sgn s + -sgn t)
  | (4, [_, s, _, t], _) => encPair 0 (sgn s + -sgn t)
  | (5, [_, s], _) => encPair (-1) (-sgn s)
  | (6, [_, s], _) => encPair 1 (sgn s)
  | (7, [_, s, _, t], _) => encPair (-2) (-sgn s + -sgn t)
  | (8, [_, s, _, t], _) => encPair 2 (sgn s + sgn t)
  | (9, [_, s, _, t], _) => encPair 0 (-sgn s + sgn t)
  | _ => 0

/-- the charge `(N, S_z)` an operator adds -/
def sopQ (o : Int) : Int := encPair (ch (unpairOid o).1 + ch (unpairOid o).2) (ch (unpairOid o).1 - ch (unpairOid o).2)

/-- a `SpinMolecularOID` of the table -/
def isSpinOid (o : Int) : Prop := 0 ≤ o ∧ o ≤ 22

/-! ## classification of edges (label triples) -/

/-- structural part: end labels inside the index ranges, one layer apart, charges add up, operator in the table -/
structure SOk (L : Int) (x : Lab × Lab × Int) : Prop where
  ok1 : sLabOk L x.1
  ok2 : sLabOk L x.2.1
  lev : x.2.1.2.2 = x.1.2.2 + 1
  pos : 0 ≤ x.1.2.2
  le : x.2.1.2.2 ≤ L
  oid : isSpinOid x.2.2
  chg : stagQ x.2.1 = stagQ x.1 + sopQ x.2.2

/-- a wiring edge of the left forest: the target's left word is the source's left word plus the operator -/
structure SWLw (x : Lab × Lab × Int) : Prop where
  pre : ∀ p : Int, 0 ≤ p → p < 2 * x.1.2.2 → mletOf x.2.1 p = mletOf x.1 p
  last : pairOid (mletOf x.2.1 (2 * x.1.2.2)) (mletOf x.2.1 (2 * x.1.2.2 + 1)) = x.2.2

/-- a wiring edge of the right forest: the source's right word is the operator plus the target's right word -/
structure SWRw (L : Int) (x : Lab × Lab × Int) : Prop where
  first : pairOid (mletOf x.1 (2 * x.1.2.2)) (mletOf x.1 (2 * x.1.2.2 + 1)) = x.2.2
  post : ∀ p : Int, 2 * x.1.2.2 + 2 ≤ p → p < 2 * L → mletOf x.1 p = mletOf x.2.1 p

/-- a crossing edge whose path spells the pair word of the letters `F` on the `2 L` modes -/
structure STw (L : Int) (F : Nat → Int) (x : Lab × Lab × Int) : Prop where
  pre : ∀ p : Nat, (p : Int) < 2 * x.1.2.2 → mletOf x.1 p = F p
  mid : x.2.2 = pairOid (F (2 * x.1.2.2.toNat)) (F (2 * x.1.2.2.toNat + 1))
  post : ∀ p : Nat, 2 * x.1.2.2 + 2 ≤ (p : Int) → (p : Int) < 2 * L → mletOf x.2.1 p = F p

/-! ## the facts about the node tables the edge programs use (proved in `SpinExplTab`) -/

/-- every look-up with a label inside the index ranges is defined and returns the labelled node -/
structure STab (L : Int) : Prop where
  fam : ∀ (t : Nat) (key : List Int) (k : Int), t < 10 → sLabOk L (t, key, k) →
    ((SpinNodes.init L).fam t).get key = .ok (innerOf ((SpinNodes.init L).fam t) key) ∧
    dGet (innerOf ((SpinNodes.init L).fam t) key) k = .ok ((SpinNodes.init L).nodeAt (t, key, k))
  idL : ∀ k : Int, 0 ≤ k → k < L → dGet (SpinNodes.init L).identityL k = .ok ((SpinNodes.init L).nodeAt (10, [], k))
  idR : ∀ k : Int, 1 ≤ k → k < L + 1 → dGet (SpinNodes.init L).identityR k = .ok ((SpinNodes.init L).nodeAt (11, [], k))
  look : ∀ lab : Lab, sLabOk L lab → (SpinNodes.init L).look lab = .ok ((SpinNodes.init L).nodeAt lab)

end Ptn.Ham

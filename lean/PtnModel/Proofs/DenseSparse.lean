import PtnModel.Proofs.DenseMergeMpo
import PtnModel.Proofs.MatBasic
import PtnModel.Model.MPOSparse
/-!
# One pass of the site loop of `as_matrix(sparse_format=True)`

Row layout of the running operator: after `k` sites `op` is the `(d^k · d^k) × D_k` matrix whose row
`flat(s_0..s_{k-1}) · d^k + flat(t_0..t_{k-1})` is the row vector `e₀ · A_0[s_0,t_0] ⋯ A_{k-1}[s_{k-1},t_{k-1}]`.
`sparseStep_spec`: one pass (the `d` products `op @ T_j`, `reshape((n, -1))`, `hstack`, `reshape(((n·d)², -1))`) maps the
row `S · n + U` to the rows `(S · d + j) · (n · d) + (U · d + t)`, multiplied by `T[j, t]`.
-/
namespace Ptn.MPO
open Finset Dense
variable {R : Type} [CommRing R]

/-- flat position in the `hstack`ed array of the entry that ends up at row `(S·d+j)·(n·d) + (U·d+t)`, column `b` -/
theorem sparse_idx_out (d n D S U j t b : Nat) :
    ((S * d + j) * (n * d) + (U * d + t)) * D + b
      = S * (d * (n * (d * D))) + (j * (n * (d * D)) + ((U * d + t) * D + b)) := by ring

/-- flat position in `op @ T_j` of the entry at row `S` and column `(U·d+t)·D + b` of its reshape to `n` rows -/
theorem sparse_idx_in (d n D S U t b : Nat) :
    S * (n * (d * D)) + ((U * d + t) * D + b) = (S * n + U) * (d * D) + (t * D + b) := by ring

/-- the value of one pass of the site loop when no exception is raised -/
def sparseStepVal (d n : Nat) (op : Mat R) (T : T4 R) : Mat R :=
  reshape2 (hstackBlocks d n (op.m * (T.d1 * T.d3) / n) fun j =>
      reshape2 (op.mul (sparseSlice T j)) n (op.m * (T.d1 * T.d3) / n)).tab
    ((n * d) * (n * d)) (n * (d * (op.m * (T.d1 * T.d3) / n)) / ((n * d) * (n * d)))

theorem sparseStep_ok (d n : Nat) (op : Mat R) (T : T4 R) (hd : 0 < d) (hn : 0 < n)
    (hm : op.m = n * n) (h0 : T.d0 = d) (h1 : T.d1 = d) (h2 : T.d2 = op.n) (hpos : 0 < T.d2) :
    sparseStep d n op T = .ok (sparseStepVal d n op T) := by
  have hnd : 0 < (n * d) * (n * d) := Nat.mul_pos (Nat.mul_pos hn hd) (Nat.mul_pos hn hd)
  have etot : op.m * (T.d1 * T.d3) = n * (n * (d * T.d3)) := by rw [hm, h1]; ring
  have ecols : op.m * (T.d1 * T.d3) / n = n * (d * T.d3) := by
    rw [etot, Nat.mul_div_cancel_left _ hn]
  have emod : op.m * (T.d1 * T.d3) % n = 0 := by rw [etot]; exact Nat.mul_mod_right _ _
  have esize : n * (d * (n * (d * T.d3))) = (n * d) * (n * d) * T.d3 := by ring
  have emod2 : n * (d * (n * (d * T.d3))) % ((n * d) * (n * d)) = 0 := by
    rw [esize]; exact Nat.mul_mod_right _ _
  have hd0 : d ≠ 0 := by omega
  have hn0 : n ≠ 0 := by omega
  have hp0 : op.n ≠ 0 := by omega
  simp only [sparseStep, reshapeRows, sparseStepVal, h0, hd0, hn0, h2, emod, Mat.tab_m, Mat.tab_n, hstackBlocks,
    ne_eq, not_true_eq_false, if_false, false_or, ecols, emod2, hnd.ne']
  rw [if_neg hp0]

theorem sparseStepVal_dims (d n : Nat) (op : Mat R) (T : T4 R) (hd : 0 < d) (hn : 0 < n)
    (hm : op.m = n * n) (h1 : T.d1 = d) :
    (sparseStepVal d n op T).m = (n * d) * (n * d) ∧ (sparseStepVal d n op T).n = T.d3 := by
  have hnd : 0 < (n * d) * (n * d) := Nat.mul_pos (Nat.mul_pos hn hd) (Nat.mul_pos hn hd)
  have etot : op.m * (T.d1 * T.d3) = n * (n * (d * T.d3)) := by rw [hm, h1]; ring
  have ecols : op.m * (T.d1 * T.d3) / n = n * (d * T.d3) := by
    rw [etot, Nat.mul_div_cancel_left _ hn]
  have esize : n * (d * (n * (d * T.d3))) = (n * d) * (n * d) * T.d3 := by ring
  refine ⟨rfl, ?_⟩
  simp only [sparseStepVal, reshape2, ecols]
  rw [esize, Nat.mul_div_cancel_left _ hnd]

theorem sparseStepVal_f (d n : Nat) (op : Mat R) (T : T4 R) (hd : 0 < d) (hn : 0 < n)
    (hm : op.m = n * n) (h1 : T.d1 = d) (h2 : T.d2 = op.n)
    (S U j t b : Nat) (hS : S < n) (hU : U < n) (hj : j < d) (ht : t < d) (hb : b < T.d3) :
    (sparseStepVal d n op T).f ((S * d + j) * (n * d) + (U * d + t)) b
      = step T j t (fun a => op.f (S * n + U) a) b := by
  have hnd : 0 < (n * d) * (n * d) := Nat.mul_pos (Nat.mul_pos hn hd) (Nat.mul_pos hn hd)
  have etot : op.m * (T.d1 * T.d3) = n * (n * (d * T.d3)) := by rw [hm, h1]; ring
  have ecols : op.m * (T.d1 * T.d3) / n = n * (d * T.d3) := by
    rw [etot, Nat.mul_div_cancel_left _ hn]
  have esize : n * (d * (n * (d * T.d3))) = (n * d) * (n * d) * T.d3 := by ring
  have ediv2 : n * (d * (n * (d * T.d3))) / ((n * d) * (n * d)) = T.d3 := by
    rw [esize, Nat.mul_div_cancel_left _ hnd]
  -- bounds
  have hx : (U * d + t) * T.d3 + b < n * (d * T.d3) := by
    rw [← Nat.mul_assoc]; exact fused_lt (fused_lt hU ht) hb
  have hc : j * (n * (d * T.d3)) + ((U * d + t) * T.d3 + b) < d * (n * (d * T.d3)) := fused_lt hj hx
  have htb : t * T.d3 + b < d * T.d3 := fused_lt ht hb
  simp only [sparseStepVal, reshape2, ecols, ediv2, Mat.tab_n, hstackBlocks]
  rw [sparse_idx_out, fused_div hc, fused_mod hc]
  rw [Mat.tab_f _ (by exact hS) (by exact hc)]
  simp only
  rw [fused_div hx, fused_mod hx, sparse_idx_in]
  simp only [Mat.mul, sparseSlice, h1]
  rw [fused_div htb, fused_mod htb, fused_div hb, fused_mod hb, sumRange_eq, step, h2]

/-- invariant of the site loop of the sparse path -/
theorem sparseLoop_spec (d : Nat) (hd : 0 < d) : ∀ (rest : List (T4 R)) (n : Nat) (op : Mat R) (Dr : Nat),
    0 < n → op.m = n * n → Chain d op.n rest Dr → (∀ A ∈ rest, 0 < A.d2) →
    ∃ op', sparseLoop d rest n op = .ok (n * d ^ rest.length, op') ∧
      op'.m = (n * d ^ rest.length) * (n * d ^ rest.length) ∧ op'.n = Dr ∧
      ∀ S < n, ∀ U < n, ∀ ss ts, Digits d rest.length ss → Digits d rest.length ts → ∀ c < Dr,
        op'.f (flatFrom d S ss * (n * d ^ rest.length) + flatFrom d U ts) c
          = elemRow rest ss ts (fun b => op.f (S * n + U) b) c
  | [], n, op, Dr, hn, hm, hc, _ => by
      have hc : op.n = Dr := hc
      refine ⟨op, by simp [sparseLoop], by simpa using hm, hc, ?_⟩
      intro S _ U _ ss ts hss hts c _
      have : ss = [] := by simpa [Digits] using hss.1
      subst this
      have : ts = [] := by simpa [Digits] using hts.1
      subst this
      simp [flatFrom_nil, elemRow_nil]
  | A :: rest, n, op, Dr, hn, hm, hc, hpos => by
      obtain ⟨hA0, hA1, hA2, hc'⟩ := hc
      have hposA : 0 < A.d2 := hpos A (by simp)
      have hdims := sparseStepVal_dims d n op A hd hn hm hA1
      have hnd : 0 < n * d := Nat.mul_pos hn hd
      obtain ⟨op', i0, i1, i2, i3⟩ := sparseLoop_spec d hd rest (n * d) (sparseStepVal d n op A) Dr hnd hdims.1
        (by rw [hdims.2]; exact hc') (fun B hB => hpos B (by simp [hB]))
      have e : n * d ^ (A :: rest).length = n * d * d ^ rest.length := by
        rw [List.length_cons, pow_succ]; ring
      rw [e]
      refine ⟨op', ?_, i1, i2, ?_⟩
      · simp only [sparseLoop, sparseStep_ok d n op A hd hn hm hA0 hA1 hA2 hposA]
        exact i0
      · intro S hS U hU ss ts hss hts c hcl
        match ss, ts, hss, hts with
        | s1 :: ss', t1 :: ts', hss, hts =>
          have hs1 : s1 < d := hss.head
          have ht1 : t1 < d := hts.head
          rw [flatFrom_cons, flatFrom_cons, elemRow_cons]
          rw [i3 (S * d + s1) (fused_lt hS hs1) (U * d + t1) (fused_lt hU ht1) ss' ts' hss.tail hts.tail c hcl]
          apply elemRow_congr d rest ss' ts' A.d3 Dr _ _ hc' hss.tail.1 hts.tail.1 _ c hcl
          intro b hb
          exact sparseStepVal_f d n op A hd hn hm hA1 hA2 S U s1 t1 b hS hU hs1 ht1 hb

omit [CommRing R] in
/-- the starting operator `A[0].reshape((-1, D_1))`: row `s0 · d + t0` is `A_0[s0, t0, 0, :]` -/
theorem flattenLeft_row (A0 : T4 R) (d s0 t0 : Nat) (h1 : A0.d1 = d) (h2 : A0.d2 = 1) (ht0 : t0 < d) (b : Nat) :
    (flattenLeft A0).f (s0 * d + t0) b = A0.f s0 t0 0 b := by
  simp only [flattenLeft, h1, h2, Nat.mul_one, Nat.div_one, Nat.mod_one, fused_div ht0, fused_mod ht0]

/-- `as_matrix(sparse_format=True)` returns, and lists the matrix elements in row-major digit order -/
theorem asMatrixSparse_elem (o : MPO R) (d : Nat) (ho : Shaped o d) (hd : 0 < d ∨ o.A.length = 1)
    (hpos : ∀ A ∈ o.A, 0 < A.d2) :
    ∃ m, o.asMatrixSparse = .ok m ∧ m.m = d ^ o.A.length ∧ m.n = d ^ o.A.length ∧
      ∀ s t, Digits d o.A.length s → Digits d o.A.length t → m.f (flat d s) (flat d t) = o.elem s t := by
  have hc := ho.chain
  have hqd := ho.qd_len
  unfold asMatrixSparse
  split
  · rename_i hA; exact absurd hA ho.nonempty
  · rename_i A0 rest hA
    rw [hA] at hc hpos hd ⊢
    obtain ⟨h0, h1, h2, hc'⟩ := hc
    rw [hqd]
    have hm0 : (flattenLeft A0).m = d * d := by simp [flattenLeft, h0, h1, h2]
    have hd3 : A0.d3 ≠ 0 := by
      cases rest with
      | nil => have : A0.d3 = 1 := hc'; omega
      | cons B r => have h := hc'.2.2.1; have := hpos B (by simp); omega
    rw [if_neg (by omega : ¬ A0.d2 ≠ 1), if_neg hd3]
    cases rest with
    | nil =>
      have hn1 : A0.d3 = 1 := hc'
      have hn1' : (flattenLeft A0).n = 1 := hn1
      simp only [sparseLoop]
      rw [if_neg (by omega : ¬ (flattenLeft A0).n ≠ 1), if_neg (by rw [hm0, hn1']; omega)]
      refine ⟨_, rfl, by simp [reshape2], by simp [reshape2], ?_⟩
      intro s t hs ht
      match s, t, hs, ht with
      | [s0], [t0], hs, ht =>
        have ht0 : t0 < d := ht.head
        simp only [reshape2, hn1', Nat.div_one, Nat.mod_one, flat_cons, flatFrom_nil]
        rw [flattenLeft_row A0 d s0 t0 h1 h2 ht0, elem_eq, hA, elemRow_cons, step_e0 _ _ _ h2, elemRow_nil]
    | cons B r =>
      have hd' : 0 < d := by
        rcases hd with h | h
        · exact h
        · simp at h
      obtain ⟨op', i0, i1, i2, i3⟩ := sparseLoop_spec d hd' (B :: r) d (flattenLeft A0) 1 hd' hm0 hc'
        (fun X hX => hpos X (by simp [hX]))
      have e : d * d ^ (B :: r).length = d ^ (A0 :: B :: r).length := by
        simp only [List.length_cons, pow_succ]; ring
      rw [e] at i0 i1 i3
      rw [i0]
      simp only
      rw [if_neg (by omega : ¬ op'.n ≠ 1), if_neg (by rw [i1, i2]; omega)]
      refine ⟨_, rfl, rfl, rfl, ?_⟩
      intro s t hs ht
      match s, t, hs, ht with
      | s0 :: ss, t0 :: ts, hs, ht =>
        have hs0 : s0 < d := hs.head
        have ht0 : t0 < d := ht.head
        simp only [reshape2, i2, Nat.div_one, Nat.mod_one, flat_cons]
        rw [i3 s0 hs0 t0 ht0 ss ts hs.tail ht.tail 0 (by omega)]
        rw [elem_eq, hA, elemRow_cons, step_e0 _ _ _ h2]
        congr 1
        funext b
        exact flattenLeft_row A0 d s0 t0 h1 h2 ht0 b

/-! ### The hypotheses of `asMatrixSparse_elem` are necessary: the sparse path raises on an empty physical space with
more than one site (`hstack([])`) and on a bond of dimension 0 (`reshape(0, -1)`), where the dense path returns. -/

theorem sparseLoop_d0 (B : T4 R) (r : List (T4 R)) (n : Nat) (op : Mat R) (hB : B.d0 = 0) :
    sparseLoop 0 (B :: r) n op = .error .index := by
  simp [sparseLoop, sparseStep, hB]

theorem sparseLoop_zero_bond (d : Nat) (hd : 0 < d) : ∀ (rest : List (T4 R)) (n : Nat) (op : Mat R) (Dr : Nat),
    0 < n → op.m = n * n → Chain d op.n rest Dr → (∃ A ∈ rest, A.d2 = 0) →
    sparseLoop d rest n op = .error .value
  | [], _, _, _, _, _, _, h => by simp at h
  | A :: rest, n, op, Dr, hn, hm, hc, h => by
      obtain ⟨hA0, hA1, hA2, hc'⟩ := hc
      by_cases hz : A.d2 = 0
      · simp [sparseLoop, sparseStep, hA0, hd.ne', hz]
      · have hposA : 0 < A.d2 := by omega
        have hdims := sparseStepVal_dims d n op A hd hn hm hA1
        have h' : ∃ X ∈ rest, X.d2 = 0 := by
          obtain ⟨X, hX, hX0⟩ := h
          rcases List.mem_cons.1 hX with rfl | hX'
          · exact absurd hX0 hz
          · exact ⟨X, hX', hX0⟩
        have ih := sparseLoop_zero_bond d hd rest (n * d) (sparseStepVal d n op A) Dr (Nat.mul_pos hn hd) hdims.1
          (by rw [hdims.2]; exact hc') h'
        simp only [sparseLoop, sparseStep_ok d n op A hd hn hm hA0 hA1 hA2 hposA]
        exact ih

theorem asMatrixSparse_error (o : MPO R) (d : Nat) (ho : Shaped o d)
    (h : (d = 0 ∧ o.A.length ≠ 1) ∨ ∃ A ∈ o.A, A.d2 = 0) : ∃ e, o.asMatrixSparse = .error e := by
  have hc := ho.chain
  have hqd := ho.qd_len
  unfold asMatrixSparse
  split
  · exact ⟨_, rfl⟩
  · rename_i A0 rest hA
    rw [hA] at hc h
    obtain ⟨h0, h1, h2, hc'⟩ := hc
    rw [hqd, if_neg (by omega : ¬ A0.d2 ≠ 1)]
    by_cases hd3 : A0.d3 = 0
    · rw [if_pos hd3]; exact ⟨_, rfl⟩
    rw [if_neg hd3]
    have hm0 : (flattenLeft A0).m = d * d := by simp [flattenLeft, h0, h1, h2]
    -- in both cases there is a second site
    have hne : rest ≠ [] := by
      rcases h with ⟨_, hl⟩ | ⟨X, hX, hX0⟩
      · intro hr; subst hr; simp at hl
      · rcases List.mem_cons.1 hX with rfl | hX'
        · omega
        · exact List.ne_nil_of_mem hX'
    match rest, hne, hc', h with
    | B :: r, _, hc', h =>
      by_cases hd : d = 0
      · subst hd
        rw [sparseLoop_d0 B r 0 _ hc'.1]
        exact ⟨_, rfl⟩
      · have hd' : 0 < d := by omega
        have hz : ∃ X ∈ B :: r, X.d2 = 0 := by
          rcases h with ⟨hd0, _⟩ | ⟨X, hX, hX0⟩
          · exact absurd hd0 hd
          · rcases List.mem_cons.1 hX with rfl | hX'
            · omega
            · exact ⟨X, hX', hX0⟩
        rw [sparseLoop_zero_bond d hd' (B :: r) d (flattenLeft A0) 1 hd' hm0 hc' hz]
        exact ⟨_, rfl⟩

end Ptn.MPO

import PtnModel.Proofs.GaugeGood
import PtnModel.Proofs.HamChains
/-!
# Gauge transform: one half of the function returns a unitary matrix

`gaugeSide_good`: for a unitary `u`, if the look-ups of the ten statements are defined (`SideDefs`: whenever a membership test of the
Python text succeeds, the `nid_map` / table look-ups that follow are defined) and the look-ups are in range and injective
(`SideHyp`), then the half `gaugeSide` of `molecular_hamiltonian_orbital_gauge_transform` returns a `dim × dim` matrix `v` with
`vᴴ v = 1` -- in particular its closing assertion holds.

The statements touch pairwise different columns because they process pairwise different tags `(table, outer key)`; after each
table the set of processed tags is weakened to "all tags of the tables so far".
-/
set_option linter.unusedSectionVars false

namespace Ptn.Ham.Gauge
open Ptn.Og Finset

variable {α : Type} [CommRing α] [HasConj α] [DecidableEq α]

local notation "cj" => (HasConj.conj : α → α)

/-- definedness of the look-ups of one half of the function: `fams 0 .. 4` are the tables `a_dag_x`, `a_ann_x`, `a_dag_a_dag_x`,
`a_ann_a_ann_x`, `a_dag_a_ann_x`, `kk` the inner key, `n` the number of sites -/
structure SideDefs (h : GaugeH) (fams : Nat → Fam) (kk i n : Int) : Prop where
  d : ∀ a, a = 0 ∨ a = 1 → famHas (fams a) [i] kk = true →
    ∃ j0 j1, h.tabCol (fams a) [i] kk = .ok j0 ∧ h.tabCol (fams a) [i + 1] kk = .ok j1
  dd_lo : ∀ k, 0 ≤ k → k < i → famHas (fams 2) [k, i] kk = true →
    ∃ j0 j1, h.tabCol (fams 2) [k, i] kk = .ok j0 ∧ h.tabCol (fams 2) [k, i + 1] kk = .ok j1
  dd_hi : ∀ k, i + 2 ≤ k → k < n → famHas (fams 2) [i, k] kk = true →
    ∃ j0 j1, h.tabCol (fams 2) [i, k] kk = .ok j0 ∧ h.tabCol (fams 2) [i + 1, k] kk = .ok j1
  dd_one : famHas (fams 2) [i, i + 1] kk = true → ∃ j, h.tabCol (fams 2) [i, i + 1] kk = .ok j
  aa_lo : ∀ k, 0 ≤ k → k < i → famHas (fams 3) [i, k] kk = true →
    ∃ j0 j1, h.tabCol (fams 3) [i, k] kk = .ok j0 ∧ h.tabCol (fams 3) [i + 1, k] kk = .ok j1
  aa_hi : ∀ k, i + 2 ≤ k → k < n → famHas (fams 3) [k, i] kk = true →
    ∃ j0 j1, h.tabCol (fams 3) [k, i] kk = .ok j0 ∧ h.tabCol (fams 3) [k, i + 1] kk = .ok j1
  aa_one : famHas (fams 3) [i + 1, i] kk = true → ∃ j, h.tabCol (fams 3) [i + 1, i] kk = .ok j
  da_a : ∀ k, (0 ≤ k ∧ k < i) ∨ (i + 2 ≤ k ∧ k < n) → famHas (fams 4) [i, k] kk = true →
    ∃ j0 j1, h.tabCol (fams 4) [i, k] kk = .ok j0 ∧ h.tabCol (fams 4) [i + 1, k] kk = .ok j1
  da_b : ∀ k, (0 ≤ k ∧ k < i) ∨ (i + 2 ≤ k ∧ k < n) → famHas (fams 4) [k, i] kk = true →
    ∃ j0 j1, h.tabCol (fams 4) [k, i] kk = .ok j0 ∧ h.tabCol (fams 4) [k, i + 1] kk = .ok j1
  da_q : famHas (fams 4) [i, i + 1] kk = true →
    ∃ j00 j01 j10 j11, h.tabCol (fams 4) [i, i] kk = .ok j00 ∧ h.tabCol (fams 4) [i, i + 1] kk = .ok j01 ∧
      h.tabCol (fams 4) [i + 1, i] kk = .ok j10 ∧ h.tabCol (fams 4) [i + 1, i + 1] kk = .ok j11

theorem foldlM_cons_ok {s : Mat α → Except Err (Mat α)} {rest : List (Mat α → Except Err (Mat α))} {v w : Mat α}
    (e : s v = .ok w) : (s :: rest).foldlM (fun v s => s v) v = rest.foldlM (fun v s => s v) w := by
  simp only [List.foldlM_cons, e]
  rfl

theorem pair2 {x y x' y' : Int} : ([x, y] : List Int) = [x', y'] ↔ x = x' ∧ y = y' := by
  simp

section
variable {h : GaugeH} {fams : Nat → Fam} {kk i : Int} {n : Nat} {dim : Nat}

/-- **one half of the function returns a unitary matrix** -/
theorem gaugeSide_good (hc : ConjLaws α) (u : Mat α)
    (hu : Unitary2 (u.entry 0 0) (u.entry 0 1) (u.entry 1 0) (u.entry 1 1))
    (sh : SideHyp h fams kk dim) (sd : SideDefs h fams kk i (h.nsites : Int)) :
    ∃ v, gaugeSide h (fams 0) (fams 1) (fams 2) (fams 3) (fams 4) kk dim u i = .ok v ∧ IsSquare v dim ∧ isUnitary v = true := by
  let col := colOf h fams kk
  -- weakening helper
  have weaken : ∀ {S S' : Tag → Prop} {v : Mat α}, Good dim (TS col S) v → (∀ t, S t → S' t) → Good dim (TS col S') v :=
    fun hg hss => hg.mono fun j ⟨t, ht, et⟩ => ⟨t, hss t ht, et⟩
  have hMU := pair_block hu
  have hMUc := pair_block_conj hc hu
  -- start
  have g0 : Good dim (TS col fun t => t.1 < 0) (Mat.identity dim : Mat α) :=
    (good_identity hc dim).mono fun j hf => hf.elim
  -- a^†_i
  obtain ⟨v1, e1, g1⟩ := pairStep_good hc sh 0 [i] [i + 1] (u.entry 0 0, u.entry 0 1, u.entry 1 0, u.entry 1 1)
    (by simp) (sd.d 0 (Or.inl rfl)) hMU _ (by simp) (by simp) _ g0
  have g1 : Good dim (TS col fun t => t.1 < 1) v1 := weaken g1 (by
    rintro t (ht | rfl | rfl) <;> simp_all)
  -- a_i
  obtain ⟨v2, e2, g2⟩ := pairStep_good hc sh 1 [i] [i + 1] (cj (u.entry 0 0), cj (u.entry 0 1), cj (u.entry 1 0), cj (u.entry 1 1))
    (by simp) (sd.d 1 (Or.inr rfl)) hMUc _ (by simp) (by simp) _ g1
  have g2 : Good dim (TS col fun t => t.1 < 2) v2 := weaken g2 (by
    rintro t (ht | rfl | rfl)
    · show t.1 < 2
      omega
    · simp
    · simp)
  -- a^†_i a^†_j, first loop
  obtain ⟨v3, e3, g3⟩ := forSteps_good (h := h) (fams := fams) (kk := kk) (n := dim)
    (fun k => pairStep h (fams 2) [k, i] [k, i + 1] kk (u.entry 0 0, u.entry 0 1, u.entry 1 0, u.entry 1 1))
    (fun k t => t = (2, [k, i]) ∨ t = (2, [k, i + 1])) (pyRange 0 i)
    (by
      intro k hk S v hS hg
      have hk' := mem_pyRange.1 hk
      exact pairStep_good hc sh 2 [k, i] [k, i + 1] _ (by simp) (sd.dd_lo k hk'.1 hk'.2) hMU S
        (hS _ (Or.inl rfl)) (hS _ (Or.inr rfl)) v hg)
    (pyRange_nodup 0 i)
    (by
      rintro k _ k' _ hne t (rfl | rfl) (e | e) <;> simp at e <;> omega)
    _ v2
    (by
      rintro k _ t (rfl | rfl) ht <;> simp at ht)
    g2
  have g3 : Good dim (TS col fun t => t.1 < 2 ∨ (t.1 = 2 ∧ ∃ x y, t.2 = [x, y] ∧ x < i)) v3 := weaken g3 (by
    rintro t (ht | ⟨k, hk, rfl | rfl⟩)
    · exact Or.inl ht
    · exact Or.inr ⟨rfl, k, i, rfl, (mem_pyRange.1 hk).2⟩
    · exact Or.inr ⟨rfl, k, i + 1, rfl, (mem_pyRange.1 hk).2⟩)
  -- second loop
  obtain ⟨v4, e4, g4⟩ := forSteps_good (h := h) (fams := fams) (kk := kk) (n := dim)
    (fun k => pairStep h (fams 2) [i, k] [i + 1, k] kk (u.entry 0 0, u.entry 0 1, u.entry 1 0, u.entry 1 1))
    (fun k t => t = (2, [i, k]) ∨ t = (2, [i + 1, k])) (pyRange (i + 2) (h.nsites : Int))
    (by
      intro k hk S v hS hg
      have hk' := mem_pyRange.1 hk
      exact pairStep_good hc sh 2 [i, k] [i + 1, k] _ (by simp) (sd.dd_hi k hk'.1 hk'.2) hMU S
        (hS _ (Or.inl rfl)) (hS _ (Or.inr rfl)) v hg)
    (pyRange_nodup _ _)
    (by
      rintro k _ k' _ hne t (rfl | rfl) (e | e) <;> simp at e <;> omega)
    _ v3
    (by
      rintro k hk t (rfl | rfl) ht
      · rcases ht with ht | ⟨_, x, y, e, hx⟩
        · simp at ht
        · simp only [pair2] at e
          omega
      · rcases ht with ht | ⟨_, x, y, e, hx⟩
        · simp at ht
        · simp only [pair2] at e
          omega)
    g3
  have g4 : Good dim (TS col fun t => t.1 < 2 ∨ (t.1 = 2 ∧ ∃ x y, t.2 = [x, y] ∧ (x < i ∨ i + 2 ≤ y))) v4 := weaken g4 (by
    rintro t ((ht | ⟨h2, x, y, e, hx⟩) | ⟨k, hk, rfl | rfl⟩)
    · exact Or.inl ht
    · exact Or.inr ⟨h2, x, y, e, Or.inl hx⟩
    · exact Or.inr ⟨rfl, i, k, rfl, Or.inr (mem_pyRange.1 hk).1⟩
    · exact Or.inr ⟨rfl, i + 1, k, rfl, Or.inr (mem_pyRange.1 hk).1⟩)
  -- det
  obtain ⟨v5, e5, g5⟩ := oneStep_good hc sh 2 [i, i + 1] (u.entry 0 0 * u.entry 1 1 - u.entry 0 1 * u.entry 1 0)
    sd.dd_one (det_block hc hu) _
    (by
      rintro (ht | ⟨_, x, y, e, hx⟩)
      · simp at ht
      · simp only [pair2] at e
        omega)
    v4 g4
  have g5 : Good dim (TS col fun t => t.1 < 3) v5 := weaken g5 (by
    rintro t ((ht | ⟨h2, _⟩) | rfl)
    · show t.1 < 3
      omega
    · show t.1 < 3
      omega
    · simp)
  -- a_i a_j, first loop
  obtain ⟨v6, e6, g6⟩ := forSteps_good (h := h) (fams := fams) (kk := kk) (n := dim)
    (fun k => pairStep h (fams 3) [i, k] [i + 1, k] kk (cj (u.entry 0 0), cj (u.entry 0 1), cj (u.entry 1 0), cj (u.entry 1 1)))
    (fun k t => t = (3, [i, k]) ∨ t = (3, [i + 1, k])) (pyRange 0 i)
    (by
      intro k hk S v hS hg
      have hk' := mem_pyRange.1 hk
      exact pairStep_good hc sh 3 [i, k] [i + 1, k] _ (by simp) (sd.aa_lo k hk'.1 hk'.2) hMUc S
        (hS _ (Or.inl rfl)) (hS _ (Or.inr rfl)) v hg)
    (pyRange_nodup 0 i)
    (by
      rintro k _ k' _ hne t (rfl | rfl) (e | e) <;> simp at e <;> omega)
    _ v5
    (by
      rintro k _ t (rfl | rfl) ht <;> simp at ht)
    g5
  have g6 : Good dim (TS col fun t => t.1 < 3 ∨ (t.1 = 3 ∧ ∃ x y, t.2 = [x, y] ∧ y < i)) v6 := weaken g6 (by
    rintro t (ht | ⟨k, hk, rfl | rfl⟩)
    · exact Or.inl ht
    · exact Or.inr ⟨rfl, i, k, rfl, (mem_pyRange.1 hk).2⟩
    · exact Or.inr ⟨rfl, i + 1, k, rfl, (mem_pyRange.1 hk).2⟩)
  -- second loop
  obtain ⟨v7, e7, g7⟩ := forSteps_good (h := h) (fams := fams) (kk := kk) (n := dim)
    (fun k => pairStep h (fams 3) [k, i] [k, i + 1] kk (cj (u.entry 0 0), cj (u.entry 0 1), cj (u.entry 1 0), cj (u.entry 1 1)))
    (fun k t => t = (3, [k, i]) ∨ t = (3, [k, i + 1])) (pyRange (i + 2) (h.nsites : Int))
    (by
      intro k hk S v hS hg
      have hk' := mem_pyRange.1 hk
      exact pairStep_good hc sh 3 [k, i] [k, i + 1] _ (by simp) (sd.aa_hi k hk'.1 hk'.2) hMUc S
        (hS _ (Or.inl rfl)) (hS _ (Or.inr rfl)) v hg)
    (pyRange_nodup _ _)
    (by
      rintro k _ k' _ hne t (rfl | rfl) (e | e) <;> simp at e <;> omega)
    _ v6
    (by
      rintro k hk t (rfl | rfl) ht
      · rcases ht with ht | ⟨_, x, y, e, hx⟩
        · simp at ht
        · simp only [pair2] at e
          omega
      · rcases ht with ht | ⟨_, x, y, e, hx⟩
        · simp at ht
        · simp only [pair2] at e
          omega)
    g6
  have g7 : Good dim (TS col fun t => t.1 < 3 ∨ (t.1 = 3 ∧ ∃ x y, t.2 = [x, y] ∧ (y < i ∨ i + 2 ≤ x))) v7 := weaken g7 (by
    rintro t ((ht | ⟨h2, x, y, e, hx⟩) | ⟨k, hk, rfl | rfl⟩)
    · exact Or.inl ht
    · exact Or.inr ⟨h2, x, y, e, Or.inl hx⟩
    · exact Or.inr ⟨rfl, k, i, rfl, Or.inr (mem_pyRange.1 hk).1⟩
    · exact Or.inr ⟨rfl, k, i + 1, rfl, Or.inr (mem_pyRange.1 hk).1⟩)
  -- conj det
  obtain ⟨v8, e8, g8⟩ := oneStep_good hc sh 3 [i + 1, i] (cj (u.entry 0 0 * u.entry 1 1 - u.entry 0 1 * u.entry 1 0))
    sd.aa_one (det_block_conj hc hu) _
    (by
      rintro (ht | ⟨_, x, y, e, hx⟩)
      · simp at ht
      · simp only [pair2] at e
        omega)
    v7 g7
  have g8 : Good dim (TS col fun t => t.1 < 4) v8 := weaken g8 (by
    rintro t ((ht | ⟨h2, _⟩) | rfl)
    · show t.1 < 4
      omega
    · show t.1 < 4
      omega
    · simp)
  -- a^†_i a_j loop
  have hks : ∀ k ∈ pyRange 0 i ++ pyRange (i + 2) (h.nsites : Int), (0 ≤ k ∧ k < i) ∨ (i + 2 ≤ k ∧ k < (h.nsites : Int)) := by
    intro k hk
    rcases List.mem_append.1 hk with hk | hk
    · exact Or.inl (mem_pyRange.1 hk)
    · exact Or.inr (mem_pyRange.1 hk)
  obtain ⟨v9, e9, g9⟩ := forSteps_good (h := h) (fams := fams) (kk := kk) (n := dim)
    (daBody h (fams 4) i kk (u.entry 0 0, u.entry 0 1, u.entry 1 0, u.entry 1 1)
      (cj (u.entry 0 0), cj (u.entry 0 1), cj (u.entry 1 0), cj (u.entry 1 1)))
    (fun k t => (t = (4, [i, k]) ∨ t = (4, [i + 1, k])) ∨ (t = (4, [k, i]) ∨ t = (4, [k, i + 1])))
    (pyRange 0 i ++ pyRange (i + 2) (h.nsites : Int))
    (by
      intro k hk S v hS hg
      have hk' := hks k hk
      obtain ⟨w1, f1, q1⟩ := pairStep_good hc sh 4 [i, k] [i + 1, k] (u.entry 0 0, u.entry 0 1, u.entry 1 0, u.entry 1 1)
        (by simp) (sd.da_a k hk') hMU S (hS _ (Or.inl (Or.inl rfl))) (hS _ (Or.inl (Or.inr rfl))) v hg
      obtain ⟨w2, f2, q2⟩ := pairStep_good hc sh 4 [k, i] [k, i + 1]
        (cj (u.entry 0 0), cj (u.entry 0 1), cj (u.entry 1 0), cj (u.entry 1 1))
        (by simp) (sd.da_b k hk') hMUc _
        (by
          rintro (hs | e | e)
          · exact hS _ (Or.inr (Or.inl rfl)) hs
          · simp at e; omega
          · simp at e; omega)
        (by
          rintro (hs | e | e)
          · exact hS _ (Or.inr (Or.inr rfl)) hs
          · simp at e; omega
          · simp at e; omega)
        w1 q1
      refine ⟨w2, ?_, weaken q2 ?_⟩
      · simp only [daBody, f1]; exact f2
      · rintro t ((hs | e | e) | e | e)
        · exact Or.inl hs
        · exact Or.inr (Or.inl (Or.inl e))
        · exact Or.inr (Or.inl (Or.inr e))
        · exact Or.inr (Or.inr (Or.inl e))
        · exact Or.inr (Or.inr (Or.inr e)))
    (by
      apply List.Nodup.append (pyRange_nodup _ _) (pyRange_nodup _ _)
      intro k hk1 hk2
      have := mem_pyRange.1 hk1
      have := mem_pyRange.1 hk2
      omega)
    (by
      intro k hk k' hk' hne t ht ht'
      have a1 := hks k hk
      have a2 := hks k' hk'
      rcases ht with (rfl | rfl) | (rfl | rfl) <;> rcases ht' with (e | e) | (e | e) <;> simp at e <;> omega)
    _ v8
    (by
      rintro k _ t ((rfl | rfl) | (rfl | rfl)) ht <;> simp at ht)
    g8
  have g9 : Good dim (TS col fun t => t.1 < 4 ∨ (t.1 = 4 ∧ ∃ x y, t.2 = [x, y] ∧
      ¬ ((x = i ∨ x = i + 1) ∧ (y = i ∨ y = i + 1)))) v9 := weaken g9 (by
    rintro t (ht | ⟨k, hk, hkt⟩)
    · exact Or.inl ht
    · have a1 := hks k hk
      rcases hkt with (rfl | rfl) | (rfl | rfl)
      · exact Or.inr ⟨rfl, i, k, rfl, by omega⟩
      · exact Or.inr ⟨rfl, i + 1, k, rfl, by omega⟩
      · exact Or.inr ⟨rfl, k, i, rfl, by omega⟩
      · exact Or.inr ⟨rfl, k, i + 1, rfl, by omega⟩)
  -- the 4 x 4 block
  obtain ⟨v10, e10, T', g10⟩ := quadStep_good hc sh 4 i hu sd.da_q _
    (by
      rintro x y hx hy (ht | ⟨_, x', y', e, hn⟩)
      · simp at ht
      · simp only [pair2] at e
        apply hn
        omega)
    v9 g9
  refine ⟨v10, ?_, g10.1, (isUnitary_iff g10.1).2 g10.2.2⟩
  unfold gaugeSide
  simp only
  rw [foldlM_cons_ok e1, foldlM_cons_ok e2, foldlM_cons_ok e3, foldlM_cons_ok e4, foldlM_cons_ok e5, foldlM_cons_ok e6,
    foldlM_cons_ok e7, foldlM_cons_ok e8, foldlM_cons_ok e9, foldlM_cons_ok e10]
  simp only [List.foldlM_nil, pure, Except.pure, (isUnitary_iff g10.1).2 g10.2.2, if_true]

end
end Ptn.Ham.Gauge

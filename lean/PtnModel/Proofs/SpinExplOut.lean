import PtnModel.Proofs.SpinExplDefs
import PtnModel.Proofs.SpinExplTermHop
/-!
# Explicit spin-orbital molecular graph: every left-forest node is the source of a term edge

For every label `a` of the left forest inside the index ranges (`sLabOk`, `isLeft`) there is a hopping term or an interaction term with
the spin pattern accepted by `get_vint_coeff` whose edge (label-level mirror `stermE` of `_spin_molecular_hamiltonian_graph_add_term`)
starts at the node labelled `a` (`sleft_hasTerm`); spin analogue of `src_idL … src_aDagAAnnL` in `ExplDense`.  Hence no node of the left
forest is a dead end.
-/
set_option linter.unusedSectionVars false
set_option linter.unusedSimpArgs false
set_option linter.unusedVariables false
set_option linter.unusedTactic false
set_option linter.unreachableTactic false

namespace Ptn.Ham
open Ptn.Og List

theorem sxo_pLt_t (a b c d : Int) (h : a < c ∨ (a = c ∧ b < d)) : pLt (a, b) (c, d) = true := by
  rw [pLt_iff]; exact h

theorem sxo_pLt_f (a b c d : Int) (h : c < a ∨ (c = a ∧ d ≤ b)) : pLt (a, b) (c, d) = false := by
  rw [← Bool.not_eq_true, pLt_iff]; dsimp only; omega

theorem sxo_so1 : toSpinOperator [((0 : Int), (-1 : Int)), ((1 : Int), (-1 : Int)), ((1 : Int), (1 : Int))] false true = .ok 12 := rfl
theorem sxo_so2 : toSpinOperator [((0 : Int), (-1 : Int)), ((0 : Int), (1 : Int)), ((1 : Int), (-1 : Int))] false true = .ok 16 := rfl
theorem sxo_so3 : toSpinOperator [((0 : Int), (1 : Int)), ((1 : Int), (-1 : Int)), ((1 : Int), (1 : Int))] false true = .ok 7 := rfl
theorem sxo_so4 : toSpinOperator [((0 : Int), (-1 : Int)), ((0 : Int), (1 : Int)), ((1 : Int), (1 : Int))] false true = .ok 15 := rfl
theorem sxo_so5 : toSpinOperator [((0 : Int), (-1 : Int)), ((1 : Int), (-1 : Int))] true true = .ok 11 := rfl
theorem sxo_so6 : toSpinOperator [((0 : Int), (1 : Int)), ((1 : Int), (1 : Int))] true true = .ok 5 := rfl
theorem sxo_so7 : toSpinOperator [((0 : Int), (-1 : Int)), ((1 : Int), (1 : Int))] true true = .ok 10 := rfl
theorem sxo_so8 : toSpinOperator [((0 : Int), (1 : Int)), ((1 : Int), (-1 : Int))] true true = .ok 6 := rfl

theorem sxo_glCC (i s j t k : Int) (l : Bool) : sgetLabE [(i, s, (1 : Int)), (j, t, (1 : Int))] l k =
    .ok (if l then 2 else 7, (if pLt (j, t) (i, s) then [j, t, i, s] else [i, s, j, t]), k) := rfl
theorem sxo_glAA (i s j t k : Int) (l : Bool) : sgetLabE [(i, s, (-1 : Int)), (j, t, (-1 : Int))] l k =
    .ok (if l then 3 else 8, (if pLt (i, s) (j, t) then [j, t, i, s] else [i, s, j, t]), k) := rfl
theorem sxo_glCA (i s j t k : Int) (l : Bool) : sgetLabE [(i, s, (1 : Int)), (j, t, (-1 : Int))] l k =
    .ok (if l then 4 else 9, [i, s, j, t], k) := rfl
theorem sxo_glAC (i s j t k : Int) (l : Bool) : sgetLabE [(i, s, (-1 : Int)), (j, t, (1 : Int))] l k =
    .ok (if l then 4 else 9, [j, t, i, s], k) := rfl

section branches
variable (L i s o0 j t o1 k m o2 l u o3 : Int)

theorem sxo_b3 (h1 : i ≠ j) (h2 : j = k) (h3 : k = l) :
    stermE L [(i, s, o0), (j, t, o1), (k, m, o2), (l, u, o3)] =
      (sgetLabE [(i, s, o0)] true j).bind fun a =>
      (toSpinOperator [(t, o1), (m, o2), (u, o3)] false true).map fun so => (a, (11, [], j + 1), so) := by
  subst h2 h3
  have : (i == j) = false := by rw [beq_eq_false_iff_ne]; exact h1
  simp only [stermE, beq_self_eq_true, Bool.and_self, this, Bool.false_and, Bool.false_eq_true, if_false, if_true]

theorem sxo_b5a (h2 : j ≠ k) (c1 : k ≤ L / 2) (h3 : k = l) :
    stermE L [(i, s, o0), (j, t, o1), (k, m, o2), (l, u, o3)] =
      (sgetLabE [(i, s, o0), (j, t, o1)] true k).bind fun a =>
        (toSpinOperator [(m, o2), (u, o3)] true true).map fun so => (a, (11, [], k + 1), so) := by
  subst h3
  have e2 : (j == k) = false := by rw [beq_eq_false_iff_ne]; exact h2
  simp only [stermE, beq_self_eq_true, e2, Bool.false_and, Bool.and_false, Bool.false_eq_true, if_false, if_true, if_pos c1]

theorem sxo_b5b (h2 : j ≠ k) (c1 : k ≤ L / 2) (h3 : k ≠ l) :
    stermE L [(i, s, o0), (j, t, o1), (k, m, o2), (l, u, o3)] =
      (sgetLabE [(i, s, o0), (j, t, o1)] true k).bind fun a =>
        (sgetLabE [(l, u, o3)] false (k + 1)).bind fun b =>
        (toSpinOperator [(m, o2)] true false).map fun so => (a, b, so) := by
  have e2 : (j == k) = false := by rw [beq_eq_false_iff_ne]; exact h2
  have e3 : (k == l) = false := by rw [beq_eq_false_iff_ne]; exact h3
  simp only [stermE, e2, e3, Bool.false_and, Bool.and_false, Bool.false_eq_true, if_false, if_true, if_pos c1]

end branches

/-- sort the operators, evaluate `stermE` on the sorted list, and close `∃ x, .ok _ = .ok x ∧ x.1 = a` -/
macro "sxo_eval" : tactic =>
  `(tactic| (simp (disch := omega) only [sortTrips, List.foldr, insertTrip_nil, insertTrip_le, insertTrip_gt, mC, mA] <;>
      simp (disch := omega) only [sxo_b3, sxo_b5a, sxo_b5b] <;>
      simp (disch := omega) only [sxo_so1, sxo_so2, sxo_so3, sxo_so4, sxo_so5, sxo_so6, sxo_so7, sxo_so8,
        sxh_so3, sxh_so4, sxh_so5, sxh_so9, sxh_so10, sxh_gl1, sxh_gl2, sxo_glCC, sxo_glAA, sxo_glCA, sxo_glAC,
        sxo_pLt_t, sxo_pLt_f, Except.map, Except.bind, ite_true, ite_false, Bool.false_eq_true, ↓reduceIte] <;>
      exact ⟨_, rfl, rfl⟩))

/-- `a_dag_l[(i, s)][k]` -/
theorem sxo_t0 (L i s k : Int) (hs : s = 0 ∨ s = 1) (h : i < k) :
    ∃ x, stermE L (sortTrips [(i, s, mC), (k, 1 - s, mC), (k, 1, mA), (k, 0, mA)]) = .ok x ∧ x.1 = (0, [i, s], k) := by
  rcases hs with rfl | rfl <;> sxo_eval

/-- `a_ann_l[(i, s)][k]` -/
theorem sxo_t1 (L i s k : Int) (hs : s = 0 ∨ s = 1) (h : i < k) :
    ∃ x, stermE L (sortTrips [(k, 0, mC), (k, 1, mC), (k, 1 - s, mA), (i, s, mA)]) = .ok x ∧ x.1 = (1, [i, s], k) := by
  rcases hs with rfl | rfl <;> sxo_eval

/-- `a_dag_a_dag_l[(i, s), (j, t)][k]`, different spins -/
theorem sxo_t2a (L i s j t k : Int) (hst : (s = 0 ∧ t = 1) ∨ (s = 1 ∧ t = 0)) (h : i < j ∨ (i = j ∧ s < t)) (hk : j < k)
    (c : k ≤ L / 2) :
    ∃ x, stermE L (sortTrips [(i, s, mC), (j, t, mC), (k, 1, mA), (k, 0, mA)]) = .ok x ∧ x.1 = (2, [i, s, j, t], k) := by
  rcases hst with ⟨rfl, rfl⟩ | ⟨rfl, rfl⟩ <;> sxo_eval

/-- `a_dag_a_dag_l[(i, s), (j, s)][k]` -/
theorem sxo_t2b (L i s j k : Int) (hs : s = 0 ∨ s = 1) (h : i < j) (hk : j < k) (c : k ≤ L / 2) :
    ∃ x, stermE L (sortTrips [(i, s, mC), (j, s, mC), (k + 1, s, mA), (k, s, mA)]) = .ok x ∧ x.1 = (2, [i, s, j, s], k) := by
  rcases hs with rfl | rfl <;> sxo_eval

/-- `a_ann_a_ann_l[(i, s), (j, t)][k]` (key `(j, t) < (i, s)`), different spins -/
theorem sxo_t3a (L i s j t k : Int) (hst : (s = 0 ∧ t = 1) ∨ (s = 1 ∧ t = 0)) (h : j < i ∨ (j = i ∧ t < s)) (hk : i < k)
    (c : k ≤ L / 2) :
    ∃ x, stermE L (sortTrips [(k, 0, mC), (k, 1, mC), (i, s, mA), (j, t, mA)]) = .ok x ∧ x.1 = (3, [i, s, j, t], k) := by
  rcases hst with ⟨rfl, rfl⟩ | ⟨rfl, rfl⟩ <;> sxo_eval

theorem sxo_t3b (L i s j k : Int) (hs : s = 0 ∨ s = 1) (h : j < i) (hk : i < k) (c : k ≤ L / 2) :
    ∃ x, stermE L (sortTrips [(k, s, mC), (k + 1, s, mC), (i, s, mA), (j, s, mA)]) = .ok x ∧ x.1 = (3, [i, s, j, s], k) := by
  rcases hs with rfl | rfl <;> sxo_eval

/-- `a_dag_a_ann_l[(i, s), (j, s)][k]` -/
theorem sxo_t4a (L i s j k : Int) (hs : s = 0 ∨ s = 1) (hk : i < k) (hk' : j < k) (c : k ≤ L / 2) :
    ∃ x, stermE L (sortTrips [(i, s, mC), (k, 0, mC), (k, 0, mA), (j, s, mA)]) = .ok x ∧ x.1 = (4, [i, s, j, s], k) := by
  rcases Int.lt_trichotomy i j with h | rfl | h <;> rcases hs with rfl | rfl <;> sxo_eval

/-- `a_dag_a_ann_l[(i, s), (j, t)][k]`, different spins -/
theorem sxo_t4b (L i s j t k : Int) (hst : (s = 0 ∧ t = 1) ∨ (s = 1 ∧ t = 0)) (hk : i < k) (hk' : j < k) (c : k ≤ L / 2) :
    ∃ x, stermE L (sortTrips [(i, s, mC), (k, t, mC), (k, s, mA), (j, t, mA)]) = .ok x ∧ x.1 = (4, [i, s, j, t], k) := by
  rcases Int.lt_trichotomy i j with h | rfl | h <;> rcases hst with ⟨rfl, rfl⟩ | ⟨rfl, rfl⟩ <;> sxo_eval


/-- **every left-forest node is the source of the edge of some term**: `identity_l[k]` of the on-site hopping term `a†_{k↑} a_{k↑}`,
every other left node of an interaction term that is accepted by `get_vint_coeff` (spin pattern `(s, t) = (m, u)` or `(u, m)`) -/
theorem sleft_hasTerm (L : Int) (hL : 2 ≤ L) (a : Lab) (ha : sLabOk L a) (hl : isLeft a = true) :
    (∃ i j s : Int, 0 ≤ i ∧ i < L ∧ 0 ≤ j ∧ j < L ∧ (s = 0 ∨ s = 1) ∧
       ∃ x, stermE L (sortTrips [(i, s, mC), (j, s, mA)]) = .ok x ∧ x.1 = a) ∨
    (∃ i s j t k m l u : Int, 0 ≤ i ∧ j < L ∧ 0 ≤ k ∧ l < L ∧ (s = 0 ∨ s = 1) ∧ (t = 0 ∨ t = 1) ∧ (m = 0 ∨ m = 1) ∧ (u = 0 ∨ u = 1) ∧
       (i < j ∨ (i = j ∧ s < t)) ∧ (k < l ∨ (k = l ∧ m < u)) ∧ ((s = m ∧ t = u) ∨ (s = u ∧ t = m)) ∧
       ∃ x, stermE L (sortTrips [(i, s, mC), (j, t, mC), (l, u, mA), (k, m, mA)]) = .ok x ∧ x.1 = a) := by
  unfold sLabOk at ha
  split at ha
  · -- a_dag_l
    rename_i i s k
    obtain ⟨h0, h1, h2, h3, h4, h5⟩ := ha
    have hs : s = 0 ∨ s = 1 := by omega
    exact Or.inr ⟨i, s, k, 1 - s, k, 0, k, 1, h0, h5, by omega, h5, hs, by omega, Or.inl rfl, Or.inr rfl, by omega, by omega,
      by omega, sxo_t0 L i s k hs (by omega)⟩
  · -- a_ann_l
    rename_i i s k
    obtain ⟨h0, h1, h2, h3, h4, h5⟩ := ha
    have hs : s = 0 ∨ s = 1 := by omega
    exact Or.inr ⟨k, 0, k, 1, i, s, k, 1 - s, by omega, h5, h0, h5, Or.inl rfl, Or.inr rfl, hs, by omega, by omega, by omega,
      by omega, sxo_t1 L i s k hs (by omega)⟩
  · -- a_dag_a_dag_l
    rename_i i s j t k
    obtain ⟨h0, h1, h2, h3, h4, h5, h6, h7, h8, h9⟩ := ha
    by_cases hst : s = t
    · subst hst
      have hs : s = 0 ∨ s = 1 := by omega
      exact Or.inr ⟨i, s, j, s, k, s, k + 1, s, h0, by omega, by omega, by omega, hs, hs, hs, hs, h7, by omega, by omega,
        sxo_t2b L i s j k hs (by omega) (by omega) (by omega)⟩
    · have hst' : (s = 0 ∧ t = 1) ∨ (s = 1 ∧ t = 0) := by omega
      exact Or.inr ⟨i, s, j, t, k, 0, k, 1, h0, by omega, by omega, by omega, by omega, by omega, Or.inl rfl, Or.inr rfl, h7,
        by omega, by omega, sxo_t2a L i s j t k hst' h7 (by omega) (by omega)⟩
  · -- a_ann_a_ann_l
    rename_i i s j t k
    obtain ⟨h0, h1, h2, h3, h4, h5, h6, h7, h8, h9⟩ := ha
    by_cases hst : s = t
    · subst hst
      have hs : s = 0 ∨ s = 1 := by omega
      exact Or.inr ⟨k, s, k + 1, s, j, s, i, s, by omega, by omega, h0, by omega, hs, hs, hs, hs, by omega, h7, by omega,
        sxo_t3b L i s j k hs (by omega) (by omega) (by omega)⟩
    · have hst' : (s = 0 ∧ t = 1) ∨ (s = 1 ∧ t = 0) := by omega
      exact Or.inr ⟨k, 0, k, 1, j, t, i, s, by omega, by omega, h0, by omega, Or.inl rfl, Or.inr rfl, by omega, by omega,
        by omega, h7, by omega, sxo_t3a L i s j t k hst' h7 (by omega) (by omega)⟩
  · -- a_dag_a_ann_l
    rename_i i s j t k
    obtain ⟨h0, h1, h2, h3, h4, h5, h6, h7, h8, h9⟩ := ha
    by_cases hst : s = t
    · subst hst
      have hs : s = 0 ∨ s = 1 := by omega
      exact Or.inr ⟨i, s, k, 0, j, s, k, 0, h0, by omega, h2, by omega, hs, Or.inl rfl, hs, Or.inl rfl, by omega, by omega,
        by omega, sxo_t4a L i s j k hs (by omega) (by omega) (by omega)⟩
    · have hst' : (s = 0 ∧ t = 1) ∨ (s = 1 ∧ t = 0) := by omega
      exact Or.inr ⟨i, s, k, t, j, t, k, s, h0, by omega, h2, by omega, by omega, by omega, by omega, by omega, by omega,
        by omega, by omega, sxo_t4b L i s j t k hst' (by omega) (by omega) (by omega)⟩
  · cases hl
  · cases hl
  · cases hl
  · cases hl
  · cases hl
  · -- identity_l
    rename_i k
    obtain ⟨h0, h1⟩ := ha
    exact Or.inl ⟨k, k, 0, h0, h1, h0, h1, Or.inl rfl, _, shop_eval_eq L k 0 (Or.inl rfl), rfl⟩
  · cases hl
  · exact ha.elim

/-- the hypotheses of `sleft_hasTerm` are satisfiable (`a_dag_a_ann_l[(0, ↑), (1, ↓)][2]` for `L = 4`) -/
example : sLabOk 4 (4, [0, 0, 1, 1], 2) ∧ isLeft (4, [0, 0, 1, 1], 2) = true := by
  refine ⟨?_, rfl⟩
  simp only [sLabOk]; omega

end Ptn.Ham

import PtnModel.Proofs.ExplProg
/-!
# Explicit molecular graph, part 2: the label table of the node families

Every node of `MolecularOpGraphNodes` carries a label (family, outer key, inner key).  The table `tabN` lists the nodes with their
labels in the order of `generate_graph`'s node list; since node ids are pairwise distinct (`molNodes_ids_nodup`), the id of a
node determines its label.
-/
set_option linter.unusedSectionVars false
set_option linter.unusedSimpArgs false

namespace Ptn.Ham
open Ptn.Og List

def famTabN (t : Nat) (f : Fam) : List (Lab × Node) := f.flatMap fun e => e.2.map fun p => ((t, e.1, p.1), p.2)
def idTabN (t : Nat) (d : List (Int × Node)) : List (Lab × Node) := d.map fun p => ((t, [], p.1), p.2)

/-- all nodes with their labels, in the order of `nodeList` -/
def MolNodes.tabN (n : MolNodes) : List (Lab × Node) :=
  idTabN 10 n.identityL ++ idTabN 11 n.identityR ++
  famTabN 0 n.aDagL ++ famTabN 1 n.aAnnL ++ famTabN 5 n.aDagR ++ famTabN 6 n.aAnnR ++
  famTabN 2 n.aDagADagL ++ famTabN 3 n.aAnnAAnnL ++ famTabN 4 n.aDagAAnnL ++
  famTabN 7 n.aDagADagR ++ famTabN 8 n.aAnnAAnnR ++ famTabN 9 n.aDagAAnnR

theorem famTabN_nodes (t : Nat) (f : Fam) : (famTabN t f).map (·.2) = f.nodes := by
  simp [famTabN, Fam.nodes, map_flatMap, Function.comp_def]

theorem idTabN_nodes (t : Nat) (d : List (Int × Node)) : (idTabN t d).map (·.2) = d.map (·.2) := by
  simp [idTabN, Function.comp_def]

theorem tabN_nodes (n : MolNodes) : n.tabN.map (·.2) = n.nodeList := by
  simp only [MolNodes.tabN, MolNodes.nodeList, map_append, famTabN_nodes, idTabN_nodes]

theorem tabN_ids_nodup (L : Int) : ((MolNodes.init L).tabN.map fun x => x.2.nid).Nodup := by
  have := molNodes_ids_nodup L
  rw [← tabN_nodes, map_map] at this
  exact this

theorem mem_of_lookup {α β : Type} [BEq α] [LawfulBEq α] : ∀ (l : List (α × β)) (k : α) (v : β), l.lookup k = some v → (k, v) ∈ l := by
  intro l
  induction l with
  | nil => intro k v h; simp at h
  | cons p l ih =>
    intro k v h
    obtain ⟨a, b⟩ := p
    simp only [List.lookup] at h
    cases hk : (k == a) with
    | true =>
      rw [hk] at h
      simp only [Option.some.injEq] at h
      have : k = a := by simpa using hk
      subst this; subst h
      exact mem_cons_self ..
    | false =>
      rw [hk] at h
      exact mem_cons_of_mem _ (ih k v h)

theorem nodeOf_mem (d : List (Int × Node)) (k : Int) (h : k ∈ d.map (·.1)) : (k, nodeOf d k) ∈ d := by
  have := dGet_of_mem d k h
  unfold dGet at this
  unfold nodeOf
  cases hl : d.lookup k with
  | none => rw [hl] at this; cases this
  | some v => exact mem_of_lookup d k v hl

theorem famTabN_mem (t : Nat) (f : Fam) (key ks : List Int) (k : Int) (h : (famKeys f).lookup key = some ks) (hk : k ∈ ks) :
    ((t, key, k), nodeOf (innerOf f key) k) ∈ famTabN t f := by
  obtain ⟨h1, h2⟩ := fam_get_of_keys f key ks h
  have hm : (key, innerOf f key) ∈ f := by
    unfold Fam.get at h1
    unfold innerOf
    cases hl : f.lookup key with
    | none => rw [hl] at h1; cases h1
    | some d => exact mem_of_lookup f key d hl
  have hn := nodeOf_mem (innerOf f key) k (by rw [h2]; exact hk)
  unfold famTabN
  exact mem_flatMap.2 ⟨_, hm, mem_map.2 ⟨_, hn, rfl⟩⟩

theorem idTabN_mem (t : Nat) (d : List (Int × Node)) (k : Int) (h : k ∈ d.map (·.1)) :
    ((t, [], k), nodeOf d k) ∈ idTabN t d :=
  mem_map.2 ⟨_, nodeOf_mem d k h, rfl⟩

theorem identityL_keys (L : Int) : (MolNodes.init L).identityL.map (·.1) = pyRange 0 L := by
  show ((pyRange 0 L).map fun i => (i, (⟨i, [], [], 0⟩ : Node))).map (·.1) = _
  rw [map_map]; exact map_id' _

theorem identityR_keys (L : Int) : (MolNodes.init L).identityR.map (·.1) = pyRange 1 (L + 1) := by
  show ((pyRange 1 (L + 1)).map fun i => (i, (⟨L + i - 1, [], [], 0⟩ : Node))).map (·.1) = _
  rw [map_map]; exact map_id' _

/-- **every label inside the index ranges occurs in the table**, with the node the look-up returns -/
theorem lab_mem_tabN (L : Int) (lab : Lab) (h : labOk L lab) : (lab, (MolNodes.init L).nodeAt lab) ∈ (MolNodes.init L).tabN := by
  unfold labOk at h
  unfold MolNodes.tabN
  simp only [mem_append]
  split at h
  · obtain ⟨a, b, c, d⟩ := h
    exact Or.inl (Or.inl (Or.inl (Or.inl (Or.inl (Or.inl (Or.inl (Or.inl (Or.inl (Or.inr
      (famTabN_mem 0 _ _ _ _ (aDagL_keys L _ a b) (mem_pyRange.2 ⟨c, d⟩)))))))))))
  · obtain ⟨a, b, c, d⟩ := h
    exact Or.inl (Or.inl (Or.inl (Or.inl (Or.inl (Or.inl (Or.inl (Or.inl (Or.inr
      (famTabN_mem 1 _ _ _ _ (aAnnL_keys L _ a b) (mem_pyRange.2 ⟨c, d⟩))))))))))
  · obtain ⟨a, b, c, d, e, f⟩ := h
    exact Or.inl (Or.inl (Or.inl (Or.inl (Or.inl (Or.inr
      (famTabN_mem 2 _ _ _ _ (aDagADagL_keys L _ _ a b c d) (mem_pyRange.2 ⟨e, f⟩)))))))
  · obtain ⟨a, b, c, d, e, f⟩ := h
    exact Or.inl (Or.inl (Or.inl (Or.inl (Or.inr
      (famTabN_mem 3 _ _ _ _ (aAnnAAnnL_keys L _ _ a b c d) (mem_pyRange.2 ⟨e, f⟩))))))
  · obtain ⟨a, b, c, d, e, f⟩ := h
    exact Or.inl (Or.inl (Or.inl (Or.inr
      (famTabN_mem 4 _ _ _ _ (aDagAAnnL_keys L _ _ a b c d) (mem_pyRange.2 ⟨e, f⟩)))))
  · obtain ⟨a, b, c, d⟩ := h
    exact Or.inl (Or.inl (Or.inl (Or.inl (Or.inl (Or.inl (Or.inl (Or.inr
      (famTabN_mem 5 _ _ _ _ (aDagR_keys L _ a b) (mem_pyRange.2 ⟨c, d⟩)))))))))
  · obtain ⟨a, b, c, d⟩ := h
    exact Or.inl (Or.inl (Or.inl (Or.inl (Or.inl (Or.inl (Or.inr
      (famTabN_mem 6 _ _ _ _ (aAnnR_keys L _ a b) (mem_pyRange.2 ⟨c, d⟩))))))))
  · obtain ⟨a, b, c, d, e, f⟩ := h
    exact Or.inl (Or.inl (Or.inr
      (famTabN_mem 7 _ _ _ _ (aDagADagR_keys L _ _ a b c d) (mem_pyRange.2 ⟨e, f⟩))))
  · obtain ⟨a, b, c, d, e, f⟩ := h
    exact Or.inl (Or.inr
      (famTabN_mem 8 _ _ _ _ (aAnnAAnnR_keys L _ _ a b c d) (mem_pyRange.2 ⟨e, f⟩)))
  · obtain ⟨a, b, c, d, e, f⟩ := h
    exact Or.inr
      (famTabN_mem 9 _ _ _ _ (aDagAAnnR_keys L _ _ a b c d) (mem_pyRange.2 ⟨e, f⟩))
  · obtain ⟨a, b⟩ := h
    exact Or.inl (Or.inl (Or.inl (Or.inl (Or.inl (Or.inl (Or.inl (Or.inl (Or.inl (Or.inl (Or.inl
      (idTabN_mem 10 _ _ (by rw [identityL_keys]; exact mem_pyRange.2 ⟨a, b⟩))))))))))))
  · obtain ⟨a, b⟩ := h
    exact Or.inl (Or.inl (Or.inl (Or.inl (Or.inl (Or.inl (Or.inl (Or.inl (Or.inl (Or.inl (Or.inr
      (idTabN_mem 11 _ _ (by rw [identityR_keys]; exact mem_pyRange.2 ⟨a, b⟩))))))))))))
  · exact h.elim

/-- two table entries with the same node id are the same entry -/
theorem tabN_inj (L : Int) (x y : Lab × Node) (hx : x ∈ (MolNodes.init L).tabN) (hy : y ∈ (MolNodes.init L).tabN)
    (h : x.2.nid = y.2.nid) : x = y := by
  have hnd := tabN_ids_nodup L
  exact inj_on_of_nodup_map hnd hx hy h

/-- **the node id determines the label** -/
theorem nidOf_inj (L : Int) (a b : Lab) (ha : labOk L a) (hb : labOk L b)
    (h : (MolNodes.init L).nidOf a = (MolNodes.init L).nidOf b) : a = b := by
  have := tabN_inj L _ _ (lab_mem_tabN L a ha) (lab_mem_tabN L b hb) h
  exact congrArg Prod.fst this

theorem nodeAt_mem (L : Int) (a : Lab) (ha : labOk L a) : (MolNodes.init L).nodeAt a ∈ (MolNodes.init L).nodeList := by
  rw [← tabN_nodes]
  exact mem_map.2 ⟨_, lab_mem_tabN L a ha, rfl⟩

/-- the label of a node id (junk for ids that are not in the table) -/
def MolNodes.labOf (n : MolNodes) (x : Int) : Lab :=
  ((n.tabN.map fun p => (p.2.nid, p.1)).lookup x).getD default

theorem labOf_nidOf (L : Int) (a : Lab) (ha : labOk L a) : (MolNodes.init L).labOf ((MolNodes.init L).nidOf a) = a := by
  unfold MolNodes.labOf
  rw [lookup_of_mem _ (by rw [map_map]; exact tabN_ids_nodup L) ((MolNodes.init L).nidOf a) a
    (mem_map.2 ⟨_, lab_mem_tabN L a ha, rfl⟩)]
  rfl

end Ptn.Ham

import PtnModel.Proofs.AutLen
import PtnModel.Proofs.BridgeAut
import PtnModel.Proofs.TreeLevels
import PtnModel.Proofs.Ham2Fermi
/-!
# `OpGraph.from_automaton` returns

* `layers_total`   : on a valid automaton the forward / backward reachability analysis returns, and all layers consist of states;
* `sweep_total`    : the left-to-right sweep returns (no id clash, every look-up defined) and keeps the graph structurally valid;
* `fromAutomaton_total` : hence `from_automaton(a, L)` returns for `L ≥ 1` as soon as its two assertions on `nids_active` hold;
  the final `assert graph.is_consistent()` holds because the unrolled graph is layered.
-/
set_option linter.unusedSectionVars false

namespace Ptn.Og
open List Ptn.Dense

variable {κ : Type} [CommRing κ] [DecidableEq κ]

/-! ## generic: a `foldlM` returns if every step does, under an invariant -/

theorem foldlM_total_inv {σ α : Type} (f : σ → α → Except Err σ) (P : σ → Prop) :
    ∀ (l : List α), (∀ x ∈ l, ∀ s, P s → ∃ s', f s x = .ok s' ∧ P s') → ∀ s, P s → ∃ r, l.foldlM f s = .ok r ∧ P r := by
  intro l
  induction l with
  | nil => intro _ s h; exact ⟨s, rfl, h⟩
  | cons x xs ih =>
    intro step s h
    obtain ⟨s1, h1, p1⟩ := step x (by simp) s h
    obtain ⟨r, h2, p2⟩ := ih (fun y hy => step y (by simp [hy])) s1 p1
    exact ⟨r, by rw [foldlM_ok_cons]; exact ⟨s1, h1, h2⟩, p2⟩

theorem mapM_total' {α β : Type} (f : α → Except Err β) : ∀ (l : List α),
    (∀ a ∈ l, ∃ b, f a = .ok b) → ∃ bs, l.mapM f = .ok bs := by
  intro l
  induction l with
  | nil => intro _; exact ⟨[], rfl⟩
  | cons a l ih =>
    intro h
    obtain ⟨b, hb⟩ := h a (by simp)
    obtain ⟨bs, hbs⟩ := ih (fun a' ha' => h a' (by simp [ha']))
    refine ⟨b :: bs, ?_⟩
    rw [List.mapM_cons, hb, bind_ok]
    exact ⟨b, rfl, by rw [hbs]; rfl⟩

/-! ## the reachability analysis returns -/

theorem stepActive_total {a : AutOp κ} (hv : AutValid a) (d : Bool) (i : Nat) (prev : List Int)
    (hp : ∀ x ∈ prev, x ∈ dKeys a.nodes) :
    ∃ cur, a.stepActive d i prev = .ok cur ∧ ∀ x ∈ cur, x ∈ dKeys a.nodes := by
  have : ∃ cur, a.stepActive d i prev = .ok cur := by
    unfold AutOp.stepActive
    obtain ⟨r, hr, _⟩ := foldlM_total_inv (fun acc nid => do
        let node ← dGet a.nodes nid
        (node.eids d).foldlM (fun acc eid => do
          let edge ← dGet a.edges eid
          pure (if edge.active i then insertAsc (edge.nid d) acc else acc)) acc) (fun _ => True) prev (by
      intro nid hnid acc _
      obtain ⟨n, hn⟩ := Ptn.Ham2.mem_keys_dGet? (hp nid hnid)
      obtain ⟨r, hr, _⟩ := foldlM_total_inv (fun (acc : List Int) eid => do
          let edge ← dGet a.edges eid
          pure (if edge.active i then insertAsc (edge.nid d) acc else acc)) (fun _ => True) (n.eids d) (by
        intro eid heid acc _
        obtain ⟨e, he, _⟩ := hv.nodeEdge nid n hn d eid heid
        exact ⟨_, by rw [bind_ok]; exact ⟨e, dGet_eq_ok_iff.2 he, rfl⟩, trivial⟩) acc trivial
      exact ⟨r, by rw [bind_ok]; exact ⟨n, dGet_eq_ok_iff.2 hn, hr⟩, trivial⟩) [] trivial
    exact ⟨r, hr⟩
  obtain ⟨cur, hc⟩ := this
  refine ⟨cur, hc, ?_⟩
  intro x hx
  obtain ⟨nid, _, node, _, eid, _, e, he, _, hex⟩ := ((stepActive_spec hc).2 x).1 hx
  obtain ⟨n, hn, _⟩ := hv.edgeNode eid e he d
  rw [hex] at hn
  exact Ptn.Ham2.dGet?_some_mem_keys hn

theorem forwardLayers_total {a : AutOp κ} (hv : AutValid a) (ht : a.term false ∈ dKeys a.nodes) (L : Nat) :
    ∃ fwd, a.forwardLayers L = .ok fwd ∧ ∀ layer ∈ fwd, ∀ x ∈ layer, x ∈ dKeys a.nodes := by
  unfold AutOp.forwardLayers
  apply foldlM_total_inv _ (fun layers : List (List Int) => ∀ layer ∈ layers, ∀ x ∈ layer, x ∈ dKeys a.nodes)
  · intro i _ layers hl
    have hlast : ∀ x ∈ layers.getLastD [], x ∈ dKeys a.nodes := by
      intro x hx
      cases hll : layers.getLast? with
      | none => rw [List.getLastD_eq_getLast?, hll] at hx; simp at hx
      | some last =>
        rw [List.getLastD_eq_getLast?, hll] at hx
        exact hl last (List.mem_of_getLast? hll) x hx
    obtain ⟨cur, hc, hcn⟩ := stepActive_total hv true i _ hlast
    refine ⟨layers ++ [cur], by rw [bind_ok]; exact ⟨cur, hc, rfl⟩, ?_⟩
    intro layer hlayer
    rcases mem_append.1 hlayer with h | h
    · exact hl layer h
    · simp only [mem_singleton] at h; subst h; exact hcn
  · intro layer hlayer x hx
    simp only [mem_singleton] at hlayer
    subst hlayer
    simp only [mem_singleton] at hx
    subst hx
    exact ht

theorem backwardLayers_total {a : AutOp κ} (hv : AutValid a) (ht : a.term true ∈ dKeys a.nodes) (L : Nat) :
    ∃ back, a.backwardLayers L = .ok back ∧ ∀ layer ∈ back, ∀ x ∈ layer, x ∈ dKeys a.nodes := by
  unfold AutOp.backwardLayers
  apply foldlM_total_inv _ (fun layers : List (List Int) => ∀ layer ∈ layers, ∀ x ∈ layer, x ∈ dKeys a.nodes)
  · intro i _ layers hl
    have hhead : ∀ x ∈ layers.headD [], x ∈ dKeys a.nodes := by
      intro x hx
      cases layers with
      | nil => simp at hx
      | cons l0 ls => exact hl l0 (by simp) x hx
    obtain ⟨cur, hc, hcn⟩ := stepActive_total hv false i _ hhead
    refine ⟨cur :: layers, by rw [bind_ok]; exact ⟨cur, hc, rfl⟩, ?_⟩
    intro layer hlayer
    rcases mem_cons.1 hlayer with h | h
    · subst h; exact hcn
    · exact hl layer h
  · intro layer hlayer x hx
    simp only [mem_singleton] at hlayer
    subst hlayer
    simp only [mem_singleton] at hx
    subst hx
    exact ht

/-! ## the sweep returns -/

/-- what the sweep of `from_automaton` keeps about its state, beyond `SweepInv` -/
structure TI (s : AutState κ) : Prop where
  sv : SValid s.graph
  term : s.graph.nidTerminal = (0, -1)
  keys : ∀ x, x ∈ dKeys s.graph.nodes ↔ (x = -1 ∨ (0 ≤ x ∧ x < s.nidNext))
  ekeys : ∀ x ∈ dKeys s.graph.edges, x < s.eidNext
  pos : 1 ≤ s.nidNext
  dummy : dGet? s.graph.nodes (-1) = some ⟨-1, [], [], 0⟩

theorem mk'_eid (eid : Int) (nids : Int × Int) (opics : List (Int × κ)) : (Edge.mk' eid nids opics).eid = eid := rfl
theorem mk'_nids (eid : Int) (nids : Int × Int) (opics : List (Int × κ)) : (Edge.mk' eid nids opics).nids = nids := rfl

theorem autEdgesStep_total {actPrev mapPrev : List Int} {i : Nat} {y : Int} {s : AutState κ} (e : AEdge κ)
    (hI : TI s) (hy1 : 1 ≤ y) (hy2 : y < s.nidNext) (hm : ∀ m ∈ mapPrev, 0 ≤ m ∧ m < y)
    (hlen : mapPrev.length = actPrev.length) :
    ∃ s', autEdgesStep actPrev mapPrev i y s e = .ok s' ∧ TI s' ∧ s'.nidNext = s.nidNext := by
  unfold autEdgesStep
  by_cases h1 : e.active i = true
  · by_cases h2 : actPrev.contains e.nids.1 = true
    · simp only [h1, h2, Bool.not_true, Bool.false_eq_true, if_false]
      have hidx : actPrev.idxOf e.nids.1 < mapPrev.length := by
        rw [hlen]; exact List.idxOf_lt_length_iff.2 (by simpa using h2)
      obtain ⟨hm0, hm1⟩ := hm _ (getElem_mem hidx)
      generalize hmm : mapPrev[actPrev.idxOf e.nids.1] = m at hm0 hm1
      have hpy : pyIdx mapPrev (actPrev.idxOf e.nids.1) = .ok m := by
        unfold pyIdx; rw [getElem?_eq_getElem hidx, hmm]
      -- the new edge
      have hk : (Edge.mk' s.eidNext (m, y) (e.opics i)).eid ∉ dKeys s.graph.edges := by
        intro hc
        have := hI.ekeys _ hc
        rw [mk'_eid] at this
        omega
      obtain ⟨nx, hx⟩ := Ptn.Ham2.mem_keys_dGet? ((hI.keys m).2 (Or.inr ⟨hm0, by omega⟩))
      obtain ⟨ny, hy⟩ := Ptn.Ham2.mem_keys_dGet? ((hI.keys y).2 (Or.inr ⟨by omega, hy2⟩))
      have hxy : (Edge.mk' s.eidNext (m, y) (e.opics i)).nids.1 ≠ (Edge.mk' s.eidNext (m, y) (e.opics i)).nids.2 := by
        rw [mk'_nids]; simp only; omega
      have hadd := Ptn.Ham2.addConnectEdge_plusEdge hI.sv hk (nx := nx) (ny := ny) hx hy hxy
      refine ⟨{ s with graph := s.graph.plusEdge (Edge.mk' s.eidNext (m, y) (e.opics i)), eidNext := s.eidNext + 1 }, ?_, ?_, rfl⟩
      · rw [hpy, bind_ok]
        exact ⟨m, rfl, by rw [hadd]; rfl⟩
      · refine ⟨hI.sv.plusEdge hk hx hy hxy ?_ ?_ (mk'_opics_sorted _ _ _), ?_, ?_, ?_, hI.pos, ?_⟩
        · rw [mk'_nids]; simp only [Graph.term, hI.term, if_true]; omega
        · rw [mk'_nids]; simp only [Graph.term, hI.term, Bool.false_eq_true, if_false]; omega
        · simp only [plusEdge_term]; exact hI.term
        · intro x; simp only [plusEdge_keys]; exact hI.keys x
        · intro x hx'
          show x < s.eidNext + 1
          simp only [plusEdge_edges, dKeys, map_append, map_cons, map_nil, mem_append, mem_singleton] at hx'
          rcases hx' with hx' | hx'
          · have := hI.ekeys x (by simpa [dKeys] using hx'); omega
          · rw [mk'_eid] at hx'; omega
        · show dGet? (nodesConnect s.graph.nodes s.eidNext m y) (-1) = _
          rw [nodesConnect_get hx hy (by omega : m ≠ y), if_neg (by omega), if_neg (by omega)]
          exact hI.dummy
    · have h2' : actPrev.contains e.nids.1 = false := by simpa using h2
      simp only [h1, h2', Bool.not_true, Bool.false_eq_true, if_false, Bool.not_false, if_true]
      exact ⟨s, rfl, hI, rfl⟩
  · have h1' : e.active i = false := by simpa using h1
    simp only [h1', Bool.not_false, if_true]
    exact ⟨s, rfl, hI, rfl⟩

theorem autLayerStep_total {a : AutOp κ} {actPrev mapPrev : List Int} {i : Nat} {s : AutState κ} (m0 : List Int)
    (nodeAut : Node) (hI : TI s) (hm : ∀ m ∈ mapPrev, 0 ≤ m ∧ m < s.nidNext) (hlen : mapPrev.length = actPrev.length)
    (hin : ∀ eid ∈ nodeAut.eidsIn, eid ∈ dKeys a.edges) :
    ∃ s', autLayerStep a actPrev mapPrev i (s, m0) nodeAut = .ok (s', m0 ++ [s.nidNext]) ∧ TI s' ∧
      s'.nidNext = s.nidNext + 1 := by
  unfold autLayerStep
  simp only [Node.mk'_nil]
  have hfresh : s.nidNext ∉ dKeys s.graph.nodes := by
    intro hc
    rcases (hI.keys _).1 hc with h | h
    · have := hI.pos; omega
    · omega
  have hadd : s.graph.addNode ⟨s.nidNext, [], [], nodeAut.qnum⟩ = .ok (s.graph.plusNode s.nidNext nodeAut.qnum) :=
    addNode_ok.2 ⟨hfresh, rfl⟩
  have hI1 : TI ({ s with graph := s.graph.plusNode s.nidNext nodeAut.qnum, nidNext := s.nidNext + 1 } : AutState κ) := by
    refine ⟨hI.sv.plusNode _ hfresh, by simp only [plusNode_term]; exact hI.term, ?_, ?_, by have := hI.pos; simp only; omega, ?_⟩
    · intro x
      simp only [plusNode_keys, mem_append, mem_singleton, hI.keys x]
      constructor
      · rintro ((h | h) | h)
        · exact Or.inl h
        · exact Or.inr ⟨h.1, by omega⟩
        · have := hI.pos; exact Or.inr ⟨by omega, by omega⟩
      · rintro (h | ⟨h1, h2⟩)
        · exact Or.inl (Or.inl h)
        · by_cases hx : x = s.nidNext
          · exact Or.inr hx
          · exact Or.inl (Or.inr ⟨h1, by omega⟩)
    · intro x hx; exact hI.ekeys x hx
    · show dGet? (s.graph.nodes ++ [(s.nidNext, _)]) (-1) = _
      rw [dGet?_append_single_of_ne _ _ _ _ (by have := hI.pos; omega)]
      exact hI.dummy
  obtain ⟨es, hes⟩ := mapM_total' (fun eid => dGet a.edges eid) nodeAut.eidsIn (by
    intro eid heid
    obtain ⟨e, he⟩ := Ptn.Ham2.mem_keys_dGet? (hin eid heid)
    exact ⟨e, dGet_eq_ok_iff.2 he⟩)
  obtain ⟨s', hs', hI', hn'⟩ := foldlM_total_inv (autEdgesStep actPrev mapPrev i s.nidNext)
    (fun t : AutState κ => TI t ∧ t.nidNext = s.nidNext + 1) es (by
      intro e _ t ⟨hIt, hnt⟩
      obtain ⟨t', ht', hIt', hnt'⟩ := autEdgesStep_total (actPrev := actPrev) (mapPrev := mapPrev) (i := i) (y := s.nidNext) e hIt
        hI.pos (by omega) hm hlen
      exact ⟨t', ht', hIt', by omega⟩)
    { s with graph := s.graph.plusNode s.nidNext nodeAut.qnum, nidNext := s.nidNext + 1 } ⟨hI1, rfl⟩
  refine ⟨s', ?_, hI', hn'⟩
  rw [bind_ok]
  refine ⟨_, rfl, ?_⟩
  rw [bind_ok]
  refine ⟨_, hadd, ?_⟩
  rw [bind_ok]
  refine ⟨es, hes, ?_⟩
  rw [bind_ok]
  exact ⟨s', hs', rfl⟩

theorem autSiteStep_total {a : AutOp κ} (hv : AutValid a) {act : List (List Int)} {s : AutState κ} {maps : List (List Int)}
    {i : Nat} (hI : TI s) (hm : ∀ m ∈ maps.getD i [], 0 ≤ m ∧ m < s.nidNext)
    (hlen : (maps.getD i []).length = (act.getD i []).length) (hact : ∀ v ∈ act.getD (i + 1) [], v ∈ dKeys a.nodes) :
    ∃ sm', autSiteStep a act (s, maps) i = .ok sm' ∧ TI sm'.1 := by
  unfold autSiteStep
  obtain ⟨ns, hns⟩ := mapM_total' (fun nid => dGet a.nodes nid) (act.getD (i + 1) []) (by
    intro v hv'
    obtain ⟨n, hn⟩ := Ptn.Ham2.mem_keys_dGet? (hact v hv')
    exact ⟨n, dGet_eq_ok_iff.2 hn⟩)
  have hnsmem : ∀ n ∈ ns, ∃ k, dGet? a.nodes k = some n := by
    intro n hn
    rw [(mapM_dGet_ok _ _ _ hns).1, mem_filterMap] at hn
    obtain ⟨k, _, hk⟩ := hn
    exact ⟨k, hk⟩
  obtain ⟨x, hx, hIx, _⟩ := foldlM_total_inv (autLayerStep a (act.getD i []) (maps.getD i []) i)
    (fun (t : AutState κ × List Int) => TI t.1 ∧ s.nidNext ≤ t.1.nidNext) ns (by
      intro n hn t ⟨hIt, hnt⟩
      obtain ⟨k, hk⟩ := hnsmem n hn
      obtain ⟨t', ht', hIt', hnt'⟩ := autLayerStep_total (a := a) (actPrev := act.getD i []) (mapPrev := maps.getD i [])
        (i := i) (s := t.1) t.2 n hIt (fun m hm' => ⟨(hm m hm').1, by have := (hm m hm').2; omega⟩) hlen (by
          intro eid heid
          obtain ⟨e, he, _⟩ := hv.nodeEdge k n hk false eid (by simpa [Node.eids] using heid)
          exact Ptn.Ham2.dGet?_some_mem_keys he)
      exact ⟨(t', t.2 ++ [t.1.nidNext]), ht', hIt', by simp only; omega⟩) (s, []) ⟨hI, le_refl _⟩
  refine ⟨(x.1, maps ++ [x.2]), ?_, hIx⟩
  rw [bind_ok]
  refine ⟨ns, hns, ?_⟩
  rw [bind_ok]
  exact ⟨x, hx, rfl⟩

theorem foldlM_range_total {σ : Type} (f : σ → Nat → Except Err σ) (R : Nat → σ → Prop) :
    ∀ (n : Nat) (s : σ), (∀ i s, i < n → R i s → ∃ s', f s i = .ok s' ∧ R (i + 1) s') → R 0 s →
      ∃ r, (List.range n).foldlM f s = .ok r ∧ R n r := by
  intro n
  induction n with
  | zero => intro s _ h0; exact ⟨s, rfl, h0⟩
  | succ n ih =>
    intro s step h0
    obtain ⟨m, h1, hm⟩ := ih s (fun i s hi => step i s (by omega)) h0
    obtain ⟨r, h2, hr⟩ := step n m (by omega) hm
    refine ⟨r, ?_, hr⟩
    rw [List.range_succ, List.foldlM_append, bind_ok]
    exact ⟨m, h1, by rw [foldlM_ok_cons]; exact ⟨r, h2, rfl⟩⟩

/-! ## the unrolled graph is consistent -/

open Classical in
/-- the layer of a graph node id: the `j` with `lo act j ≤ x < lo act (j+1)` -/
noncomputable def layerOf (act : List (List Int)) (x : Int) : Int :=
  if h : ∃ j : Nat, (lo act j : Int) ≤ x ∧ x < (lo act (j + 1) : Int) then ((Classical.choose h : Nat) : Int) else 0

open Classical in
theorem layerOf_eq (act : List (List Int)) (x : Int) (j : Nat) (h1 : (lo act j : Int) ≤ x) (h2 : x < (lo act (j + 1) : Int)) :
    layerOf act x = j := by
  unfold layerOf
  have hex : ∃ j : Nat, (lo act j : Int) ≤ x ∧ x < (lo act (j + 1) : Int) := ⟨j, h1, h2⟩
  rw [dif_pos hex]
  obtain ⟨c1, c2⟩ := Classical.choose_spec hex
  generalize Classical.choose hex = j' at c1 c2
  congr 1
  rcases Nat.lt_trichotomy j' j with h | h | h
  · have := lo_mono act (show j' + 1 ≤ j by omega); omega
  · exact h
  · have := lo_mono act (show j + 1 ≤ j' by omega); omega

theorem mem_dErase_iff {β : Type} {d : List (Int × β)} (hn : (dKeys d).Nodup) (k0 k : Int) (v : β) :
    (k, v) ∈ dErase d k0 ↔ k ≠ k0 ∧ (k, v) ∈ d := by
  have hn' : (dKeys (dErase d k0)).Nodup := by rw [dKeys_dErase]; exact hn.erase _
  constructor
  · intro h
    have hk : k ∈ dKeys (dErase d k0) := mem_map.2 ⟨(k, v), h, rfl⟩
    rw [dKeys_dErase] at hk
    have hne : k ≠ k0 := (hn.mem_erase_iff.1 hk).1
    refine ⟨hne, ?_⟩
    have := dGet?_eq_some_of_mem hn' h
    rw [dGet?_dErase_of_ne _ _ _ hne] at this
    exact mem_of_dGet?_eq_some this
  · rintro ⟨hne, h⟩
    have := dGet?_eq_some_of_mem hn h
    rw [← dGet?_dErase_of_ne _ k0 _ hne] at this
    exact mem_of_dGet?_eq_some this

/-- the graph handed back by `from_automaton` after a successful sweep is valid -/
theorem final_valid {a : AutOp κ} {L : Nat} {act : List (List Int)} (data : AutData a L act) (hL : 1 ≤ L) {s : AutState κ}
    (hI : TI s) (hrecs : s.graph.recs = (List.range L).flatMap (siteRecs a act)) (hnid : s.nidNext = lo act (L + 1)) :
    Valid ({ s.graph.setTerm true (lo act L : Int) with nodes := dErase s.graph.nodes (-1) } : Graph κ) := by
  have sv := hI.sv
  have hlenL : actLen act L = 1 := by unfold actLen; rw [data.actL]; rfl
  have hloL : lo act (L + 1) = lo act L + 1 := by simp [lo, hlenL]
  have hlo1 : 1 ≤ lo act L := le_trans hL (le_lo data L (by omega))
  -- no edge touches the dummy node
  have hdummy : ∀ k e, (k, e) ∈ s.graph.edges → ∀ d, e.nid d ≠ -1 := by
    intro k e he d hc
    obtain ⟨n, hn, hk⟩ := sv.edgeNode k e he d
    rw [hc] at hn
    have := sv.node_unique hn (mem_of_dGet?_eq_some hI.dummy)
    subst this
    cases d <;> simp [Node.eids] at hk
  -- every edge leads from a layer to the next
  have hlay : ∀ k e, (k, e) ∈ s.graph.edges → ∃ j, j < L ∧ (lo act j : Int) ≤ e.nids.1 ∧ e.nids.1 < (lo act (j + 1) : Int) ∧
      (lo act (j + 1) : Int) ≤ e.nids.2 ∧ e.nids.2 < (lo act (j + 2) : Int) := by
    intro k e he
    obtain ⟨j, hj, u, hu, v, hv', hn⟩ := edge_layers data hrecs he
    have b1 := gnode_bounds act j hu
    have b2 := gnode_bounds act (j + 1) hv'
    rw [hn]
    exact ⟨j, hj, b1.1, b1.2, b2.1, b2.2⟩
  have svF : SValid ({ s.graph.setTerm true (lo act L : Int) with nodes := dErase s.graph.nodes (-1) } : Graph κ) := by
    have hmem := fun k v => mem_dErase_iff (d := s.graph.nodes) sv.nodesKeys (-1) k v
    refine ⟨?_, ?_, ?_, ?_, ?_, ?_, ?_, ?_, ?_⟩
    · show (dKeys (dErase s.graph.nodes (-1))).Nodup
      rw [dKeys_dErase]; exact sv.nodesKeys.erase _
    · exact sv.edgesKeys
    · intro k n hkn; exact sv.nodeKey k n ((hmem k n).1 hkn).2
    · exact sv.edgeKey
    · intro k n hkn; exact sv.eidsNodup k n ((hmem k n).1 hkn).2
    · intro k n hkn; exact sv.nodeEdge k n ((hmem k n).1 hkn).2
    · intro k e he d
      obtain ⟨n, hn, hk⟩ := sv.edgeNode k e he d
      exact ⟨n, (hmem _ n).2 ⟨hdummy k e he d, hn⟩, hk⟩
    · intro d
      cases d
      · obtain ⟨n, hn, he⟩ := sv.termNode false
        have ht : s.graph.term false = 0 := by simp [Graph.term, hI.term]
        refine ⟨n, ?_, he⟩
        show ((s.graph.setTerm true (lo act L : Int)).term false, n) ∈ dErase s.graph.nodes (-1)
        have ht' : (s.graph.setTerm true (lo act L : Int)).term false = 0 := by simp [Graph.term, Graph.setTerm, hI.term]
        rw [ht']
        rw [ht] at hn
        exact (hmem 0 n).2 ⟨by omega, hn⟩
      · have hk : ((lo act L : Nat) : Int) ∈ dKeys s.graph.nodes := (hI.keys _).2 (Or.inr ⟨by omega, by rw [hnid, hloL]; push_cast; omega⟩)
        obtain ⟨n, hn⟩ := Ptn.Ham2.mem_keys_dGet? hk
        have hnm := mem_of_dGet?_eq_some hn
        refine ⟨n, ?_, ?_⟩
        · show ((s.graph.setTerm true (lo act L : Int)).term true, n) ∈ dErase s.graph.nodes (-1)
          have ht' : (s.graph.setTerm true (lo act L : Int)).term true = (lo act L : Int) := by simp [Graph.term, Graph.setTerm]
          rw [ht']
          exact (hmem _ n).2 ⟨by omega, hnm⟩
        · cases hne : n.eids true with
          | nil => rfl
          | cons eid rest =>
            exfalso
            obtain ⟨e, he, hx⟩ := sv.nodeEdge _ n hnm true eid (by rw [hne]; simp)
            obtain ⟨j, hj, _, b2, _, _⟩ := hlay eid e he
            have : e.nids.1 = (lo act L : Int) := by simpa [Edge.nid] using hx
            have := lo_mono act (show j + 1 ≤ L by omega)
            omega
    · exact sv.opicsSorted
  apply valid_of_lev svF (ℓ := layerOf act)
  intro e he
  obtain ⟨⟨k, e'⟩, hke, rfl⟩ := mem_map.1 he
  obtain ⟨j, hj, b1, b2, b3, b4⟩ := hlay k e' hke
  show layerOf act e'.nids.2 = layerOf act e'.nids.1 + 1
  rw [layerOf_eq act _ j b1 b2, layerOf_eq act _ (j + 1) b3 b4]
  push_cast; ring

/-! ## `from_automaton` returns -/

/-- **Totality of `OpGraph.from_automaton`.**  For a valid automaton whose terminals are states, `L ≥ 1`, and reachability layers
whose intersection starts with `[terminal 0]` and ends with `[terminal 1]` (the two assertions of the code), the call returns. -/
theorem fromAutomaton_total {a : AutOp κ} (hv : AutValid a) (ht0 : a.term false ∈ dKeys a.nodes) {L : Int} (hL : 1 ≤ L)
    {back fwd : List (List Int)} (hb : a.backwardLayers L.toNat = .ok back) (hf : a.forwardLayers L.toNat = .ok fwd)
    (hbn : ∀ layer ∈ back, ∀ x ∈ layer, x ∈ dKeys a.nodes)
    (h0 : (actOf back fwd).getD 0 [] = [a.term false]) (h1 : (actOf back fwd).getD L.toNat [] = [a.term true]) :
    ∃ g, fromAutomaton a L = .ok g := by
  obtain ⟨bl, _, _⟩ := backwardLayers_spec hb
  obtain ⟨fl, _, _⟩ := forwardLayers_spec hf
  have hlenA : (actOf back fwd).length = L.toNat + 1 := by simp [actOf, bl, fl]
  -- active states are states
  have hnodes : ∀ j, j ≤ L.toNat → ∀ v ∈ (actOf back fwd).getD j [], v ∈ dKeys a.nodes := by
    intro j hj v hv'
    rw [actOf_getD back fwd j (by omega) (by omega)] at hv'
    have hvb : v ∈ back.getD j [] := (mem_filter.1 hv').1
    have hjb : j < back.length := by omega
    rw [List.getD_eq_getElem?_getD, getElem?_eq_getElem hjb] at hvb
    exact hbn _ (getElem_mem hjb) v hvb
  have data := autData_of_layers hv hb hf h0 h1 hnodes
  generalize hact : actOf back fwd = act at *
  have hA0 : actLen act 0 = 1 := by unfold actLen; rw [h0]; rfl
  obtain ⟨term0, hterm0⟩ := Ptn.Ham2.mem_keys_dGet? ht0
  -- the sweep
  let g0 : Graph κ := ⟨[(0, ⟨0, [], [], term0.qnum⟩), (-1, ⟨-1, [], [], 0⟩)], [], (0, -1)⟩
  have hsv0 : SValid g0 := by
    have := Ptn.Ham2.svalid_nodes (κ := κ) [⟨0, [], [], term0.qnum⟩, ⟨-1, [], [], 0⟩] ⟨0, [], [], term0.qnum⟩ ⟨-1, [], [], 0⟩
      (by simp) (by simp) (by simp) (by intro m hm; simp at hm; rcases hm with rfl | rfl <;> rfl)
      (by intro m hm; simp at hm; rcases hm with rfl | rfl <;> rfl)
    exact this
  have hTI0 : TI (⟨g0, 1, 0⟩ : AutState κ) := by
    refine ⟨hsv0, rfl, ?_, by simp [g0, dKeys], le_refl _, rfl⟩
    intro x
    simp only [g0, dKeys, map_cons, map_nil, mem_cons, not_mem_nil, or_false]
    constructor
    · rintro (rfl | rfl)
      · exact Or.inr ⟨le_refl _, by decide⟩
      · exact Or.inl rfl
    · rintro (rfl | ⟨h1', h2'⟩)
      · exact Or.inr rfl
      · exact Or.inl (by omega)
  have hSI0 : SweepInv a act 0 ((⟨g0, 1, 0⟩ : AutState κ), [[0]]) := by
    refine ⟨⟨by simp [g0, dKeys], by simp [g0, dKeys], ?_⟩, rfl, ?_, by simp [lo, hA0], by simp [g0, Graph.recs],
      by simp [g0, lo, hA0, dKeys, idRange], rfl, ?_⟩
    · intro k n hm d
      simp only [g0, mem_cons, Prod.mk.injEq, not_mem_nil, or_false] at hm
      rcases hm with ⟨_, rfl⟩ | ⟨_, rfl⟩ <;> cases d <;> simp [Node.eids]
    · intro j hj
      have : j = 0 := by omega
      subst this
      simp [mapsF, lo, hA0, idRange]
    · intro j hj v hv'
      have : j = 0 := by omega
      subst this
      exact hnodes 0 (by omega) v hv'
  obtain ⟨⟨s, maps⟩, hsweep, hTI, hSI⟩ := foldlM_range_total (autSiteStep a act)
    (fun k (sm : AutState κ × List (List Int)) => TI sm.1 ∧ SweepInv a act k sm) L.toNat
    ((⟨g0, 1, 0⟩ : AutState κ), [[0]]) (by
      rintro i ⟨t, mp⟩ hi ⟨hIt, hSt⟩
      have hmaps : mp.getD i [] = mapsF act i := hSt.maps i (le_refl _)
      have hnid : t.nidNext = lo act (i + 1) := hSt.nidNext
      obtain ⟨sm', hsm', hI'⟩ := autSiteStep_total hv (act := act) (s := t) (maps := mp) (i := i) hIt (by
          intro m hm
          rw [hmaps, mapsF, mem_idRange] at hm
          rw [hnid]
          simp only [lo]
          push_cast
          constructor <;> omega) (by rw [hmaps, mapsF, idRange_length]; rfl) (hnodes (i + 1) (by omega))
      exact ⟨sm', hsm', hI', sweep_step hA0 hSt hsm'⟩) ⟨hTI0, hSI0⟩
  simp only at hTI
  -- the final steps
  have hlo1 : 1 ≤ lo act L.toNat := le_trans (by omega) (le_lo data L.toNat (by omega))
  have hlenL : actLen act L.toNat = 1 := by unfold actLen; rw [h1]; rfl
  have hkeys := hSI.keys
  simp only at hkeys
  have hmax : maxInt? (dKeys s.graph.nodes) = some (lo act L.toNat : Int) := by
    rw [hkeys]
    simp only [cons_append, nil_append, maxInt?, foldl_cons]
    rw [foldl_max_idRange]
    simp only [lo, hlenL]
    have : lo act L.toNat + 1 - 1 ≠ 0 := by omega
    simp only [this, if_false]
    congr 1
  have hvalid := final_valid data (by omega) hTI hSI.recs hSI.nidNext
  refine ⟨({ s.graph.setTerm true (lo act L.toNat : Int) with nodes := dErase s.graph.nodes (-1) } : Graph κ), ?_⟩
  unfold fromAutomaton
  have hL' : ¬ L < 1 := by omega
  simp only [hL', if_false]
  rw [bind_ok]
  refine ⟨back, hb, ?_⟩
  rw [bind_ok]
  refine ⟨fwd, hf, ?_⟩
  rw [← actOf, hact]
  rw [pyAssert_bind]
  refine ⟨by simp [hlenA], ?_⟩
  rw [pyAssert_bind]
  refine ⟨by rw [headD_eq_getD, h0]; simp, ?_⟩
  rw [pyAssert_bind]
  refine ⟨by rw [getLastD_eq_getD _ _ hlenA, h1]; simp, ?_⟩
  rw [bind_ok]
  refine ⟨term0, dGet_eq_ok_iff.2 hterm0, ?_⟩
  simp only [Node.mk'_nil]
  rw [bind_ok]
  refine ⟨_, rfl, ?_⟩
  rw [bind_ok]
  refine ⟨_, rfl, ?_⟩
  rw [bind_ok]
  refine ⟨g0, rfl, ?_⟩
  rw [bind_ok]
  refine ⟨(s, maps), hsweep, ?_⟩
  simp only [hmax]
  rw [bind_ok]
  refine ⟨_, rfl, ?_⟩
  rw [bind_ok]
  refine ⟨(⟨-1, [], [], 0⟩, _), removeNode_ok.2 ⟨by simp only [Graph.setTerm, if_true]; exact hTI.dummy, rfl⟩, ?_⟩
  rw [pyAssert_bind]
  exact ⟨hvalid.isConsistent, rfl⟩

/-! ## the condition in terms of the layers -/

/-- **the decidable condition under which `from_automaton(a, L)` passes its two assertions**: the reachability analysis returns,
terminal 0 is co-reachable from terminal 1 in `L` active steps (`terminal0 ∈ back[0]`) and terminal 1 is reachable from terminal 0
in `L` active steps (`terminal1 ∈ fwd[L]`) -/
def AutActive (a : AutOp κ) (L : Nat) : Prop :=
  match a.backwardLayers L, a.forwardLayers L with
  | .ok back, .ok fwd => a.term false ∈ back.getD 0 [] ∧ a.term true ∈ fwd.getD L []
  | _, _ => False

instance (a : AutOp κ) (L : Nat) : Decidable (AutActive a L) := by
  unfold AutActive
  cases a.backwardLayers L <;> cases a.forwardLayers L <;> infer_instance

theorem filter_single_eq {l : List Int} (hl : l.Nodup) (t : Int) :
    l.filter (fun x => [t].contains x) = [t] ↔ t ∈ l := by
  constructor
  · intro h
    have : t ∈ l.filter (fun x => [t].contains x) := by rw [h]; simp
    exact (mem_filter.1 this).1
  · intro h
    have e : l.filter (fun x => [t].contains x) = l.filter (· == t) := by
      apply filter_congr; intro x _
      by_cases hx : x = t <;> simp [hx]
    rw [e, List.filter_beq, List.count_eq_one_of_mem hl h]
    rfl

/-- the assertions of `from_automaton` on `nids_active`, in terms of the layers -/
theorem active_iff {a : AutOp κ} {L : Nat} {back fwd : List (List Int)} (hb : a.backwardLayers L = .ok back)
    (hf : a.forwardLayers L = .ok fwd) :
    ((actOf back fwd).getD 0 [] = [a.term false] ∧ (actOf back fwd).getD L [] = [a.term true]) ↔
      (a.term false ∈ back.getD 0 [] ∧ a.term true ∈ fwd.getD L []) := by
  obtain ⟨bl, bL, bstep⟩ := backwardLayers_spec hb
  obtain ⟨fl, f0, _⟩ := forwardLayers_spec hf
  rw [actOf_getD back fwd 0 (by omega) (by omega), actOf_getD back fwd L (by omega) (by omega), f0, bL]
  have hnd : (back.getD 0 []).Nodup := by
    by_cases hL : 0 < L
    · exact (stepActive_spec (bstep 0 hL)).1.nodup
    · have : L = 0 := by omega
      subst this
      rw [bL]; simp
  rw [filter_single_eq hnd]
  constructor
  · rintro ⟨h1, h2⟩
    refine ⟨h1, ?_⟩
    have : a.term true ∈ [a.term true].filter (fun x => (fwd.getD L []).contains x) := by rw [h2]; simp
    simpa using (mem_filter.1 this).2
  · rintro ⟨h1, h2⟩
    refine ⟨h1, ?_⟩
    have hc : (fwd.getD L []).contains (a.term true) = true := by simpa using h2
    simp only [filter_cons, hc, if_true, filter_nil]

/-- **`from_automaton(a, L)` returns iff `L ≥ 1` and the automaton admits an active path** (`AutActive`), for valid automata
whose terminals are states -/
theorem fromAutomaton_returns_iff {a : AutOp κ} (hv : AutValid a) (ht0 : a.term false ∈ dKeys a.nodes)
    (ht1 : a.term true ∈ dKeys a.nodes) (L : Int) :
    (∃ g, fromAutomaton a L = .ok g) ↔ (1 ≤ L ∧ AutActive a L.toNat) := by
  constructor
  · rintro ⟨g, hg⟩
    obtain ⟨hL, back, fwd, hb, hf, h0, h1, _⟩ := fromAutomaton_unrolled hg
    refine ⟨hL, ?_⟩
    unfold AutActive
    rw [hb, hf]
    exact (active_iff hb hf).1 ⟨h0, h1⟩
  · rintro ⟨hL, hact⟩
    obtain ⟨back, hb, hbn⟩ := backwardLayers_total hv ht1 L.toNat
    obtain ⟨fwd, hf, _⟩ := forwardLayers_total hv ht0 L.toNat
    unfold AutActive at hact
    rw [hb, hf] at hact
    obtain ⟨h0, h1⟩ := (active_iff hb hf).2 hact
    exact fromAutomaton_total hv ht0 hL hb hf hbn h0 h1

end Ptn.Og

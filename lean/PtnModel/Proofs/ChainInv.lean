import PtnModel.Proofs.ChainProg
import PtnModel.Proofs.ChainBip
import PtnModel.Proofs.ChainSem
/-!
# The full invariant of the sweep of `from_opchains` and the totality of the cover loops

`WInv L id k lay s`: the state after `k` sweep steps -- the graph satisfies `GStar`, `lay` is a layer function
(0 at the start node, +1 along every edge), every half-chain sits at a node of layer `k` whose quantum number is
the leading quantum number of the half-chain, has `L + 1 - k` operators ending with the dummy identity and
quantum numbers ending with `0, 0`.
`MW …`: the invariant of the two cover loops inside one sweep step.
-/
set_option linter.unusedSectionVars false

namespace Ptn.Ch
open Ptn Ptn.Og Ptn.Bip List

variable {κ : Type} [CommRing κ] [DecidableEq κ]

theorem pyIdx_eq_ok {α : Type} {l : List α} {i : Nat} {x : α} (h : l[i]? = some x) : pyIdx l i = .ok x :=
  (pyIdx_ok_iff l i x).2 h

/-- what the sweep knows about one half-chain -/
structure HC (L : Nat) (id : Int) (k : Nat) (lay : Int → Nat) (g : Graph κ) (nn : Int) (h : HalfChain) : Prop where
  lo : 0 ≤ h.nidl
  hi : h.nidl < nn
  lay : lay h.nidl = k
  q : ∃ q0, h.qnums[0]? = some q0 ∧ nodeQ g h.nidl = some q0
  olen : h.oids.length + k = L + 1
  qlen : h.qnums.length = h.oids.length + 1
  last : h.oids.getLast? = some id
  tail : ∃ front, h.qnums = front ++ [0, 0]

structure WInv (L : Nat) (id : Int) (k : Nat) (lay : Int → Nat) (s : ChState κ) : Prop where
  star : GStar s.graph s.nidNext s.eidNext
  lay0 : lay 0 = 0
  layE : ∀ e ∈ edgeList s.graph, lay e.nids.2 = lay e.nids.1 + 1
  layN : ∀ x, 1 ≤ x → x < s.nidNext → 1 ≤ lay x ∧ lay x ≤ k
  created : (k : Int) + 1 ≤ s.nidNext
  hne : s.vlistNext ≠ []
  len : s.vlistNext.length = s.coeffsNext.length
  hc : ∀ h ∈ s.vlistNext, HC L id k lay s.graph s.nidNext h
  out : ∀ x, 0 ≤ x → x < s.nidNext → lay x < k → outIds s.graph x ≠ []
  ref : ∀ x, 0 ≤ x → x < s.nidNext → lay x = k → ∃ h ∈ s.vlistNext, h.nidl = x

/-- the data of one sweep step after the partition and the bipartite graph have been built -/
structure Ctx (L : Nat) (id : Int) (k : Nat) (lay : Int → Nat) (s : ChState κ) (p : Partition κ) (bg : BGraph) : Prop where
  w : WInv L id k lay s
  pinv : PInv (s.vlistNext.zip s.coeffsNext) p
  wf : bg.WF
  nU : bg.numU = p.ulist.length
  nV : bg.numV = p.vlist.length
  adj : ∀ i j, j ∈ bg.adjU.getD i [] ↔ (i, j) ∈ p.edges

section
variable {L : Nat} {id : Int} {k : Nat} {lay : Int → Nat} {s : ChState κ} {p : Partition κ} {bg : BGraph}

theorem Ctx.u_ok (c : Ctx L id k lay s p bg) {u : UNode} (hu : u ∈ p.ulist) :
    0 ≤ u.nidl ∧ u.nidl < s.nidNext ∧ lay u.nidl = k ∧ nodeQ s.graph u.nidl = some u.qnum0 := by
  obtain ⟨hc, hc1, hc2, hc3⟩ := c.pinv.usrc u hu
  have hh := c.w.hc hc.1 (of_mem_zip (a := hc.1) (b := hc.2) hc1).1
  obtain ⟨q0, hq0, hq0'⟩ := hh.q
  rw [hc3] at hq0
  cases hq0
  rw [hc2]
  exact ⟨hh.lo, hh.hi, hh.lay, hq0'⟩

theorem Ctx.gamma_ok (c : Ctx L id k lay s p bg) {e : Nat × Nat} (he : e ∈ p.edges) :
    ∃ x, p.gamma.lookup e = some x := by
  rw [← c.pinv.keys] at he
  obtain ⟨ec, hec, rfl⟩ := mem_map.1 he
  exact ⟨ec.2, lookup_of_mem_nodup p.gamma (by rw [c.pinv.keys]; exact c.pinv.nodup) ec hec⟩

theorem Ctx.adjU_get (c : Ctx L id k lay s p bg) {i : Nat} (hi : i < p.ulist.length) :
    bg.adjU[i]? = some (bg.adjU.getD i []) := by
  have : i < bg.adjU.length := by rw [c.wf.lenU, c.nU]; exact hi
  simp [List.getD_eq_getElem?_getD, this]

theorem Ctx.adjV_get (c : Ctx L id k lay s p bg) {j : Nat} (hj : j < p.vlist.length) :
    bg.adjV[j]? = some (bg.adjV.getD j []) := by
  have : j < bg.adjV.length := by rw [c.wf.lenV, c.nV]; exact hj
  simp [List.getD_eq_getElem?_getD, this]

/-- the invariant of the two cover loops -/
structure MW (s : ChState κ) (p : Partition κ) (bg : BGraph) (doneU doneV : List Nat) (t : ChState κ) : Prop where
  star : GStar t.graph t.nidNext t.eidNext
  bnd : s.nidNext ≤ t.nidNext
  nq : ∀ x, x < s.nidNext → nodeQ t.graph x = nodeQ s.graph x
  ext : ∃ new, edgeList t.graph = edgeList s.graph ++ new ∧
    ∀ e ∈ new, s.nidNext ≤ e.nids.2 ∧ ∃ u ∈ p.ulist, e.nids.1 = u.nidl
  enodup : t.edges.Nodup
  emem : ∀ e, e ∈ t.edges ↔ (e ∈ p.edges ∧ e.1 ∉ doneU ∧ e.2 ∉ doneV)
  len : t.vlistNext.length = t.coeffsNext.length
  hc : ∀ h ∈ t.vlistNext, s.nidNext ≤ h.nidl ∧ h.nidl < t.nidNext ∧
    (∃ q0, h.qnums[0]? = some q0 ∧ nodeQ t.graph h.nidl = some q0) ∧
    ∃ v ∈ p.vlist, h.oids = v.oids ∧ h.qnums = v.qnums
  cnt : t.vlistNext.length = (doneU.map fun i => (bg.adjU.getD i []).length).sum + doneV.length
  handled : (∃ e ∈ p.edges, e ∉ t.edges) → t.vlistNext ≠ []
  newref : ∀ x, s.nidNext ≤ x → x < t.nidNext → ∃ h ∈ t.vlistNext, h.nidl = x
  outh : ∀ e ∈ p.edges, e ∉ t.edges → ∀ u, p.ulist[e.1]? = some u → outIds t.graph u.nidl ≠ []

theorem nodeQ_append (g : Graph κ) (nn : Int) (n : Node) (nodes : List (Int × Node)) (edges : List (Int × Edge κ))
    (hf : dHas nodes nn = false) (x : Int) :
    nodeQ { g with nodes := nodes ++ [(nn, n)], edges := edges } x
      = if x = nn then some n.qnum else nodeQ { g with nodes := nodes, edges := edges } x := by
  unfold nodeQ
  simp only [dGet?_append]
  by_cases hx : x = nn
  · subst hx
    have : dGet? nodes x = none := by
      rw [dHas_eq_isSome] at hf
      cases h : dGet? nodes x with
      | none => rfl
      | some _ => rw [h] at hf; cases hf
    simp [this]
  · simp [hx]

/-- one round of `for i in u_cover` -/
theorem uStep_mw (c : Ctx L id k lay s p bg) (doneU : List Nat) (t : ChState κ) (i : Nat)
    (hM : MW s p bg doneU [] t) (hi : i < p.ulist.length) (hid : i ∉ doneU) :
    ∃ t', uCoverStep p.ulist p.vlist p.gamma bg.adjU t i = .ok t' ∧ MW s p bg (doneU ++ [i]) [] t' := by
  obtain ⟨u, hu⟩ : ∃ u, p.ulist[i]? = some u := ⟨p.ulist[i], getElem?_eq_getElem hi⟩
  have humem : u ∈ p.ulist := mem_of_getElem? hu
  obtain ⟨hu0, hul, _, huq⟩ := c.u_ok humem
  have hbnd := hM.bnd
  obtain ⟨n, hn⟩ := hM.star.node_exists (k := u.nidl) ⟨hu0, by omega⟩
  have hnq : n.qnum = u.qnum0 := by
    have := hM.nq u.nidl hul
    rw [huq] at this
    unfold nodeQ at this
    rw [hn] at this
    simpa using this
  have hadj := c.adjU_get hi
  have hpre : ∀ j ∈ bg.adjU.getD i [], (∃ v, p.vlist[j]? = some v ∧ v.oids.length + 1 = v.qnums.length) ∧
      (∃ x, p.gamma.lookup (i, j) = some x) ∧ (i, j) ∈ t.edges := by
    intro j hj
    have he := (c.adj i j).1 hj
    have hr := c.pinv.range _ he
    refine ⟨⟨p.vlist[j], getElem?_eq_getElem hr.2, (c.pinv.vsrc _ (getElem_mem hr.2)).2.1⟩, c.gamma_ok he, ?_⟩
    rw [hM.emem]
    exact ⟨he, hid, by simp⟩
  obtain ⟨t', ht'⟩ := uCoverStep_ok p.ulist p.vlist p.gamma bg.adjU t i u n _ hu hM.star ⟨hu0, by omega⟩ hn hnq hadj
    (c.wf.nodupU i) hpre
  refine ⟨t', ht', ?_⟩
  obtain ⟨u', nodePrev, items, hu', _, hnp, _, _, hfresh, hit, hia, hg, hnn, hen, hvl, hcs, hperm⟩ :=
    uCoverStep_spec _ _ _ _ t t' i ht'
  rw [hu] at hu'; cases hu'
  rw [hn] at hnp; cases hnp
  rw [hadj] at hia
  have hia' : items.map (·.1) = bg.adjU.getD i [] := (Option.some.inj hia).symm
  have hstar' := hM.star.insert_u u.nidl u.oid u.qnum1 (1 : κ) n hu0 (by omega) hn
  have hqall : ∀ x, x ≠ t.nidNext → nodeQ t'.graph x = nodeQ t.graph x := by
    intro x hx
    rw [hg]
    have e1 := nodeQ_append t.graph t.nidNext ⟨t.nidNext, [t.eidNext], [], u.qnum1⟩
      (dReplace t.graph.nodes u.nidl (n.setEids true (n.eidsOut ++ [t.eidNext])))
      (t.graph.edges ++ [(t.eidNext, ⟨t.eidNext, (u.nidl, t.nidNext), [(u.oid, 1)]⟩)]) (by rw [dHas_dReplace]; exact hfresh) x
    rw [if_neg hx] at e1
    exact e1.trans (nodeQ_dReplace t.graph u.nidl n _ _ hn (by simp [Node.setEids]) x)
  have hqnew : nodeQ t'.graph t.nidNext = some u.qnum1 := by
    rw [hg]
    have e1 := nodeQ_append t.graph t.nidNext ⟨t.nidNext, [t.eidNext], [], u.qnum1⟩
      (dReplace t.graph.nodes u.nidl (n.setEids true (n.eidsOut ++ [t.eidNext])))
      (t.graph.edges ++ [(t.eidNext, ⟨t.eidNext, (u.nidl, t.nidNext), [(u.oid, 1)]⟩)]) (by rw [dHas_dReplace]; exact hfresh) t.nidNext
    rw [if_pos rfl] at e1
    exact e1
  have hel : edgeList t'.graph = edgeList t.graph ++ [⟨t.eidNext, (u.nidl, t.nidNext), [(u.oid, 1)]⟩] := by
    rw [hg]; simp [edgeList]
  -- the bipartite edges handled in this round
  have hitems : ∀ e, e ∈ items.map (fun t1 => (i, t1.1)) ↔ (e ∈ p.edges ∧ e.1 = i) := by
    intro e
    constructor
    · intro he
      obtain ⟨t1, ht1, rfl⟩ := mem_map.1 he
      have : t1.1 ∈ bg.adjU.getD i [] := by rw [← hia']; exact mem_map_of_mem ht1
      exact ⟨(c.adj i t1.1).1 this, rfl⟩
    · rintro ⟨he, rfl⟩
      have : e.2 ∈ bg.adjU.getD e.1 [] := (c.adj e.1 e.2).2 he
      rw [← hia'] at this
      obtain ⟨t1, ht1, h2⟩ := mem_map.1 this
      exact mem_map.2 ⟨t1, ht1, by rw [h2]⟩
  have hnd' : (items.map (fun t1 => (i, t1.1)) ++ t'.edges).Nodup := hperm.nodup_iff.1 hM.enodup
  have hmem' : ∀ e, e ∈ t'.edges ↔ (e ∈ t.edges ∧ e.1 ≠ i) := by
    intro e
    have hp := hperm.mem_iff (a := e)
    rw [mem_append] at hp
    constructor
    · intro he
      refine ⟨hp.2 (Or.inr he), ?_⟩
      intro hei
      have h1 : e ∈ items.map (fun t1 => (i, t1.1)) :=
        (hitems e).2 ⟨((hM.emem e).1 (hp.2 (Or.inr he))).1, hei⟩
      exact (nodup_append.1 hnd').2.2 e h1 e he rfl
    · rintro ⟨he, hei⟩
      rcases hp.1 he with h1 | h1
      · exact absurd ((hitems e).1 h1).2 hei
      · exact h1
  refine ⟨by rw [hg, hnn, hen]; exact hstar', by omega, ?_, ?_, (nodup_append.1 hnd').2.1, ?_, ?_, ?_, ?_, ?_, ?_, ?_⟩
  · intro x hx
    rw [hqall x (by omega)]
    exact hM.nq x hx
  · obtain ⟨new, hnew, hnew'⟩ := hM.ext
    refine ⟨new ++ [⟨t.eidNext, (u.nidl, t.nidNext), [(u.oid, 1)]⟩], by rw [hel, hnew, append_assoc], ?_⟩
    intro e he
    rcases mem_append.1 he with he | he
    · exact hnew' e he
    · simp only [mem_singleton] at he
      subst he
      exact ⟨hbnd, u, humem, rfl⟩
  · intro e
    rw [hmem', hM.emem]
    simp only [mem_append, mem_singleton, not_or, not_mem_nil, not_false_eq_true, and_true]
    constructor
    · rintro ⟨⟨h1, h2⟩, h3⟩; exact ⟨h1, h2, h3⟩
    · rintro ⟨h1, h2, h3⟩; exact ⟨⟨h1, h2⟩, h3⟩
  · rw [hvl, hcs, length_append, length_append, hM.len, length_map, length_map]
  · intro h hh
    rw [hvl, mem_append] at hh
    rcases hh with hh | hh
    · obtain ⟨h1, h2, ⟨q0, h3, h4⟩, h5⟩ := hM.hc h hh
      exact ⟨h1, by omega, ⟨q0, h3, by rw [hqall _ (by omega)]; exact h4⟩, h5⟩
    · obtain ⟨t1, ht1, rfl⟩ := mem_map.1 hh
      obtain ⟨hv1, _⟩ := hit t1 ht1
      have he : (i, t1.1) ∈ p.edges := ((hitems (i, t1.1)).1 (mem_map.2 ⟨t1, ht1, rfl⟩)).1
      have hqm := c.pinv.qmatch (i, t1.1) he u t1.2.1 hu hv1
      exact ⟨hbnd, by simp only [reattach]; omega, ⟨u.qnum1, hqm, hqnew⟩, t1.2.1, mem_of_getElem? hv1, rfl, rfl⟩
  · rw [hvl, length_append, length_map, hM.cnt, map_append, sum_append]
    simp only [map_cons, map_nil, sum_cons, sum_nil, length_nil, Nat.add_zero]
    rw [← hia', length_map]
  · rintro ⟨e, he, hne⟩
    rw [hvl]
    by_cases het : e ∈ t.edges
    · have : e.1 = i := by
        by_contra h
        exact hne ((hmem' e).2 ⟨het, h⟩)
      have h1 : e ∈ items.map (fun t1 => (i, t1.1)) := (hitems e).2 ⟨he, this⟩
      obtain ⟨t1, ht1, _⟩ := mem_map.1 h1
      intro h0
      have := (append_eq_nil_iff.1 h0).2
      rw [map_eq_nil_iff] at this
      rw [this] at ht1
      simp at ht1
    · intro h0
      exact hM.handled ⟨e, he, het⟩ (append_eq_nil_iff.1 h0).1
  · intro x hx1 hx2
    rw [hnn] at hx2
    by_cases hx : x = t.nidNext
    · subst hx
      -- the new node is referenced because `u_i` has an edge
      obtain ⟨j, hj⟩ := c.pinv.uedge i hi
      have h1 : (i, j) ∈ items.map (fun t1 => (i, t1.1)) := (hitems (i, j)).2 ⟨hj, rfl⟩
      obtain ⟨t1, ht1, _⟩ := mem_map.1 h1
      exact ⟨reattach t1.2.1 t.nidNext, by rw [hvl]; exact mem_append_right _ (mem_map_of_mem ht1), rfl⟩
    · obtain ⟨h, hh, hx'⟩ := hM.newref x hx1 (by omega)
      exact ⟨h, by rw [hvl]; exact mem_append_left _ hh, hx'⟩
  · intro e he hne u'' hu''
    by_cases het : e ∈ t.edges
    · have hei : e.1 = i := by
        by_contra h
        exact hne ((hmem' e).2 ⟨het, h⟩)
      rw [hei, hu] at hu''
      cases hu''
      rw [hg]
      unfold outIds edgeList
      simp
    · exact outIds_mono _ _ _ hel _ (hM.outh e he het u'' hu'')

theorem vCoverStep_eq (ulist : List UNode) (vlist : List HalfChain) (gamma : List ((Nat × Nat) × κ))
    (adjV : List (List Nat)) (t : ChState κ) (j : Nat) (v : HalfChain) (q : Int) (adj : List Nat)
    (hv : vlist[j]? = some v) (hq : v.qnums[0]? = some q) (hf : dHas t.graph.nodes t.nidNext = false)
    (hl : v.oids.length + 1 = v.qnums.length) (hadj : adjV[j]? = some adj) :
    vCoverStep ulist vlist gamma adjV t j
      = adj.foldlM (vInner ulist gamma j t.nidNext)
          { t with graph := { t.graph with nodes := t.graph.nodes ++ [(t.nidNext, ⟨t.nidNext, [], [], q⟩)] }, nidNext := t.nidNext + 1, vlistNext := t.vlistNext ++ [reattach v t.nidNext], coeffsNext := t.coeffsNext ++ [1] } := by
  unfold vCoverStep
  have h1 : HalfChain.mk' v.oids v.qnums t.nidNext = .ok ⟨v.oids, v.qnums, t.nidNext⟩ :=
    (halfChain_mk'_ok_iff _ _ _ _).2 ⟨hl, rfl⟩
  have h2 : Node.mk' t.nidNext [] [] q = .ok ⟨t.nidNext, [], [], q⟩ := rfl
  have h3 : t.graph.addNode ⟨t.nidNext, [], [], q⟩ = .ok { t.graph with nodes := t.graph.nodes ++ [(t.nidNext, ⟨t.nidNext, [], [], q⟩)] } :=
    (addNode_ok_iff _ _ _).2 ⟨hf, rfl⟩
  simp only [pyIdx_eq_ok hv, pyIdx_eq_ok hq, pyIdx_eq_ok hadj, h2, h3, h1, bind, Except.bind]
  rfl

/-- one round of `for j in v_cover` -/
theorem vStep_mw (c : Ctx L id k lay s p bg) (doneU doneV : List Nat) (t : ChState κ) (j : Nat)
    (hM : MW s p bg doneU doneV t) (hj : j < p.vlist.length) :
    ∃ t', vCoverStep p.ulist p.vlist p.gamma bg.adjV t j = .ok t' ∧ MW s p bg doneU (doneV ++ [j]) t' := by
  obtain ⟨v, hv⟩ : ∃ v, p.vlist[j]? = some v := ⟨p.vlist[j], getElem?_eq_getElem hj⟩
  have hvmem : v ∈ p.vlist := mem_of_getElem? hv
  have hvl := (c.pinv.vsrc v hvmem).2.1
  obtain ⟨q, hq⟩ : ∃ q, v.qnums[0]? = some q := ⟨v.qnums[0]'(by omega), getElem?_eq_getElem (by omega)⟩
  have hbnd := hM.bnd
  have hnn := hM.star.nnPos
  have hfresh := hM.star.node_fresh
  have hadj := c.adjV_get hj
  have heq := vCoverStep_eq p.ulist p.vlist p.gamma bg.adjV t j v q _ hv hq hfresh hvl hadj
  have hq1 : ∀ x, nodeQ ({ t.graph with nodes := t.graph.nodes ++ [(t.nidNext, ⟨t.nidNext, [], [], q⟩)] } : Graph κ) x
      = if x = t.nidNext then some q else nodeQ t.graph x :=
    fun x => nodeQ_append t.graph t.nidNext ⟨t.nidNext, [], [], q⟩ t.graph.nodes t.graph.edges hfresh x
  obtain ⟨t', ht', hs', hn', hq', hvl', hcs', hnd', hmem', ⟨new2, hnew2, hnew2'⟩, hout⟩ :=
    vInnerLoop_ok p.ulist p.gamma j t.nidNext q (bg.adjV.getD j [])
      { t with graph := { t.graph with nodes := t.graph.nodes ++ [(t.nidNext, ⟨t.nidNext, [], [], q⟩)] }, nidNext := t.nidNext + 1, vlistNext := t.vlistNext ++ [reattach v t.nidNext], coeffsNext := t.coeffsNext ++ [1] }
      (hM.star.add_node q) ⟨by omega, by simp⟩ (by rw [hq1, if_pos rfl]) hM.enodup (by
        intro i _ hmem
        have he := ((hM.emem _).1 hmem).1
        have hr := c.pinv.range _ he
        have hr1 : i < p.ulist.length := hr.1
        have hu : p.ulist[i]? = some p.ulist[i] := getElem?_eq_getElem hr1
        obtain ⟨x, hx⟩ := c.gamma_ok he
        obtain ⟨hu0, hul, _, huq⟩ := c.u_ok (getElem_mem hr1)
        refine ⟨p.ulist[i], x, hu, hx, hu0, by omega, ?_, ?_⟩
        · rw [hq1, if_neg (by omega), hM.nq _ hul]; exact huq
        · have := c.pinv.qmatch (i, j) he _ v hu hv
          rw [hq] at this
          exact (Option.some.inj this).symm)
  simp only at hn' hq' hvl' hcs' hmem' hnew2 hout
  refine ⟨t', by rw [heq]; exact ht', ?_⟩
  have hqold : ∀ x, x ≠ t.nidNext → nodeQ t'.graph x = nodeQ t.graph x := by
    intro x hx; rw [hq', hq1, if_neg hx]
  have hel : edgeList t'.graph = edgeList t.graph ++ new2 := hnew2
  refine ⟨hs', by omega, ?_, ?_, hnd', ?_, ?_, ?_, ?_, ?_, ?_, ?_⟩
  · intro x hx
    rw [hqold x (by omega)]
    exact hM.nq x hx
  · obtain ⟨new, hnew, hnew'⟩ := hM.ext
    refine ⟨new ++ new2, by rw [hel, hnew, append_assoc], ?_⟩
    intro e he
    rcases mem_append.1 he with he | he
    · exact hnew' e he
    · obtain ⟨h1, h2⟩ := hnew2' e he
      exact ⟨by rw [h1]; exact hbnd, h2⟩
  · intro e
    rw [hmem', hM.emem]
    simp only [mem_append, mem_singleton, not_or]
    constructor
    · rintro ⟨⟨h1, h2, h3⟩, h4⟩
      refine ⟨h1, h2, h3, ?_⟩
      intro hej
      apply h4
      refine ⟨hej, ?_⟩
      have : e.2 ∈ bg.adjU.getD e.1 [] := (c.adj e.1 e.2).2 h1
      rw [← hej]
      exact (c.wf.consistent e.1 e.2).1 this
    · rintro ⟨h1, h2, h3, h4⟩
      exact ⟨⟨h1, h2, h3⟩, fun h => h4 h.1⟩
  · rw [hvl', hcs', length_append, length_append, hM.len]; rfl
  · intro h hh
    rw [hvl', mem_append] at hh
    rcases hh with hh | hh
    · obtain ⟨h1, h2, ⟨q0, h3, h4⟩, h5⟩ := hM.hc h hh
      exact ⟨h1, by omega, ⟨q0, h3, by rw [hqold _ (by omega)]; exact h4⟩, h5⟩
    · simp only [mem_singleton] at hh
      subst hh
      refine ⟨hbnd, by simp only [reattach]; omega, ⟨q, hq, ?_⟩, v, hvmem, rfl, rfl⟩
      simp only [reattach]
      rw [hq', hq1, if_pos rfl]
  · rw [hvl', length_append, hM.cnt, length_append]
    simp only [length_cons, length_nil]
    omega
  · intro _
    rw [hvl']
    simp
  · intro x hx1 hx2
    rw [hn'] at hx2
    by_cases hx : x = t.nidNext
    · subst hx
      exact ⟨reattach v t.nidNext, by rw [hvl']; simp, rfl⟩
    · obtain ⟨h, hh, hx'⟩ := hM.newref x hx1 (by omega)
      exact ⟨h, by rw [hvl']; exact mem_append_left _ hh, hx'⟩
  · intro e he hne u hu
    by_cases het : e ∈ t.edges
    · have : e.2 = j ∧ e.1 ∈ bg.adjV.getD j [] := by
        by_contra h
        exact hne ((hmem' e).2 ⟨het, h⟩)
      have hej : e = (e.1, j) := Prod.ext rfl this.1
      exact hout e.1 this.2 (by rw [← hej]; exact het) u hu
    · have h1 := hM.outh e he het u hu
      have h2 : edgeList ({ t.graph with nodes := t.graph.nodes ++ [(t.nidNext, ⟨t.nidNext, [], [], q⟩)] } : Graph κ)
          = edgeList t.graph := rfl
      exact outIds_mono _ _ new2 hel _ h1

/-- `for i in u_cover` -/
theorem uLoop_mw (c : Ctx L id k lay s p bg) : ∀ (rest doneU : List Nat) (t : ChState κ),
    MW s p bg doneU [] t → (∀ i ∈ rest, i < p.ulist.length ∧ i ∉ doneU) → rest.Nodup →
    ∃ t', rest.foldlM (uCoverStep p.ulist p.vlist p.gamma bg.adjU) t = .ok t' ∧ MW s p bg (doneU ++ rest) [] t' := by
  intro rest
  induction rest with
  | nil => intro doneU t hM _ _; exact ⟨t, rfl, by simpa using hM⟩
  | cons i rest ih =>
    intro doneU t hM hr hnd
    simp only [nodup_cons] at hnd
    obtain ⟨t1, ht1, hM1⟩ := uStep_mw c doneU t i hM (hr i (by simp)).1 (hr i (by simp)).2
    obtain ⟨t', ht', hM'⟩ := ih (doneU ++ [i]) t1 hM1 (by
      intro i' hi'
      refine ⟨(hr i' (by simp [hi'])).1, ?_⟩
      simp only [mem_append, mem_singleton, not_or]
      exact ⟨(hr i' (by simp [hi'])).2, fun h => hnd.1 (h ▸ hi')⟩) hnd.2
    exact ⟨t', by rw [foldlM_cons, ht1]; exact ht', by simpa using hM'⟩

/-- `for j in v_cover` -/
theorem vLoop_mw (c : Ctx L id k lay s p bg) (doneU : List Nat) : ∀ (rest doneV : List Nat) (t : ChState κ),
    MW s p bg doneU doneV t → (∀ j ∈ rest, j < p.vlist.length) →
    ∃ t', rest.foldlM (vCoverStep p.ulist p.vlist p.gamma bg.adjV) t = .ok t' ∧ MW s p bg doneU (doneV ++ rest) t' := by
  intro rest
  induction rest with
  | nil => intro doneV t hM _; exact ⟨t, rfl, by simpa using hM⟩
  | cons j rest ih =>
    intro doneV t hM hr
    obtain ⟨t1, ht1, hM1⟩ := vStep_mw c doneU doneV t j hM (hr j (by simp))
    obtain ⟨t', ht', hM'⟩ := ih (doneV ++ [j]) t1 hM1 (fun j' hj' => hr j' (by simp [hj']))
    exact ⟨t', by rw [foldlM_cons, ht1]; exact ht', by simpa using hM'⟩

end

/-- `_site_partition_halfchains` does not raise on half-chains with at least one operator -/
theorem partitionStep_ok (p : Partition κ) (chain : HalfChain) (coeff : κ)
    (h1 : 1 ≤ chain.oids.length) (h2 : chain.qnums.length = chain.oids.length + 1) :
    ∃ p', partitionStep p chain coeff = .ok p' := by
  unfold partitionStep
  have e1 : chain.oids[0]? = some (chain.oids[0]'(by omega)) := getElem?_eq_getElem (by omega)
  have e2 : chain.qnums[0]? = some (chain.qnums[0]'(by omega)) := getElem?_eq_getElem (by omega)
  have e3 : chain.qnums[1]? = some (chain.qnums[1]'(by omega)) := getElem?_eq_getElem (by omega)
  have e4 : HalfChain.mk' (chain.oids.drop 1) (chain.qnums.drop 1) (-1)
      = .ok ⟨chain.oids.drop 1, chain.qnums.drop 1, -1⟩ :=
    (halfChain_mk'_ok_iff _ _ _ _).2 ⟨by simp only [length_drop]; omega, rfl⟩
  simp only [pyIdx_eq_ok e1, pyIdx_eq_ok e2, pyIdx_eq_ok e3, e4, bind, Except.bind]
  repeat' split
  all_goals exact ⟨_, rfl⟩

theorem sitePartition_ok (hs : List HalfChain) (cs : List κ)
    (h : ∀ hc ∈ hs, 1 ≤ hc.oids.length ∧ hc.qnums.length = hc.oids.length + 1) :
    ∃ p, sitePartition hs cs = .ok p := by
  unfold sitePartition
  have key : ∀ (l : List (HalfChain × κ)) (p0 : Partition κ),
      (∀ hc ∈ l, 1 ≤ hc.1.oids.length ∧ hc.1.qnums.length = hc.1.oids.length + 1) →
      ∃ p, l.foldlM (fun p (cc : HalfChain × κ) => partitionStep p cc.1 cc.2) p0 = .ok p := by
    intro l
    induction l with
    | nil => intro p0 _; exact ⟨p0, rfl⟩
    | cons a l ih =>
      intro p0 hl
      obtain ⟨p1, hp1⟩ := partitionStep_ok p0 a.1 a.2 (hl a (by simp)).1 (hl a (by simp)).2
      obtain ⟨p2, hp2⟩ := ih p1 (fun hc hhc => hl hc (by simp [hhc]))
      exact ⟨p2, by rw [foldlM_cons, hp1]; exact hp2⟩
  exact key _ _ (fun hc hhc => h hc.1 (of_mem_zip (a := hc.1) (b := hc.2) hhc).1)

end Ptn.Ch

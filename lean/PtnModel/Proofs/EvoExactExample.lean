import PtnModel.Proofs.EvoExactCalls
import PtnModel.Proofs.EvoRevExample2
import PtnModel.Proofs.EvoExactExampleAux4
/-!
# A complete non-vacuity witness for the exactness theorems of single-site TDVP on a complete manifold

`tdvp1Step_exact`, `tdvp1Steps_exact` (`EvoExactStep.lean`) and `tdvp1_call_exact` (`EvoExactCalls.lean`) are conditional on
`SweepCtx`, `ExpLaw`, `half + half = 1`, `Admissible`, `CompleteMPS` / `Complete` and the trace predicate `RunExact false`.
Here ALL of them are exhibited jointly for actual runs of arbitrary length `n` and arbitrary real `τ` (`dt = i τ`) on a
two-site system with local dimension `2`, all quantum numbers zero and the maximal bond dimensions `[1, 2, 1]`:

* `exH2` : two-site MPO whose dense operator is `2 · 𝟙` on `ℂ⁴`; `exψ2` : the complex state `(ψ[00], ψ[01], ψ[10], ψ[11]) = (1, i, 0, 1)` with bond
  dimensions `[1, 2, 1]` (`EvoExactExampleAux3.lean`);
* kernels `exK1` (QR kernel `realQR`, 2-norm, eigen-solver of `1 × 1` matrices, `half = 1/2`, `dexp = Complex.exp`), one Lanczos
  iteration.

Why it works: the dense operator is scalar, so every effective one-site and zero-site operator met at a canonical sweep
state is `2 · 𝟙` (`scalar_canon`, `scalarBond_left/right`, `EvoExactExampleAux1.lean`), every start vector is an eigenvector
and one Lanczos iteration exhausts every Krylov space (`midExact_scalar`, `leftExact_scalar`, `rightExact_scalar`,
`EvoExactExampleAux2.lean`); with a single charge sector the block QR of a `2 × 2` matrix returns two columns (`qr_zero22`),
so the bond charges `[0], [0,0], [0]` are kept by every sub-step (`QInv`, `EvoExactExampleAux4.lean`).  Both centres
`m = 1` (site `0` is square as a left isometry: `2 · 1 = 2`) and `m = 0` (site `1` is square as a right isometry: `2 = 2 · 1`)
are admissible.

* `exExact2_full`  : the joint hypotheses for actual runs (existential form);
* `exExact2_calls` : the hypotheses of `tdvp1_call_exact` in their universally quantified form;
* `exExact2_concl` : the conclusion of `tdvp1_call_exact` for this instance, in closed form:
                     `ψ'[σ] = exp(-(n · iτ) · 2) · ψ₀[σ]`.
-/
set_option linter.unusedSectionVars false

namespace Ptn.Evo
open Ptn Ptn.BondOps Ptn.Ortho Ptn.Env Ptn.Krylov Ptn.Dense Finset

/-- bond dimensions `[1, 2, 1]`, `d = 2`, two sites: complete with centre `1` and with centre `0` -/
theorem ex2_completeMPS {ψ0 : MPS ℂ} (hqD : ψ0.qD = [[0], [0, 0], [0]]) (hqd : ψ0.qd = [0, 0]) (hlen : ψ0.A.length = 2) :
    CompleteMPS ψ0 1 ∧ CompleteMPS ψ0 0 := by
  unfold CompleteMPS
  rw [hqD, hqd, hlen]
  refine ⟨⟨by decide, fun j hj => ?_, fun j hj hj' => ?_⟩, ⟨by decide, fun j hj => ?_, fun j hj hj' => ?_⟩⟩
  · interval_cases j; rfl
  · omega
  · omega
  · interval_cases j; rfl

/-- the prologue state has the bond charges `[0]`, `[0,0]`, `[0]` -/
theorem ex2_prologue_q {s0 : Sweep ℂ} {ψ0 : MPS ℂ} (hcur : cur exψ2.qd s0 = ψ0) (hqD : ψ0.qD = [[0], [0, 0], [0]]) :
    QInv s0 := by
  refine ⟨?_, ?_, ?_⟩
  · rw [← getQ_cur exψ2.qd s0 0, hcur, hqD]; rfl
  · rw [← getQ_cur exψ2.qd s0 1, hcur, hqD]; rfl
  · rw [← getQ_cur exψ2.qd s0 2, hcur, hqD]; rfl

/-- **all hypotheses of `tdvp1Step_exact`, `tdvp1Steps_exact` and `tdvp1_call_exact` hold jointly for actual runs**
(two sites, `d = 2`, bond dimensions `[1, 2, 1]`, complex state, `n` time steps with `dt = iτ`; centres `m = 1` and `m = 0`) -/
theorem exExact2_full (n : Nat) (τ : ℝ) : ∃ (ψ' ψ0 : MPS ℂ) (nrm : ℝ) (s0 b : Sweep ℂ),
    SweepCtx exK1 exH2 exψ2.qd 1 ∧ ExpLaw exK1.dexp ∧ exK1.half + exK1.half = 1 ∧ Admissible exψ2 ∧
    integrateLocalSinglesite exK1 exH2 exψ2 (Complex.I * τ) n 1 = .ok (ψ', nrm) ∧
    MPS.orthonormalize (ρ := ℝ) exK1.dqr exψ2 false = .ok (ψ0, nrm) ∧ CompleteMPS ψ0 1 ∧ CompleteMPS ψ0 0 ∧
    prologue exK1 exH2 exψ2 = .ok (s0, nrm) ∧ Canon exH2 exψ2.qd s0 0 ∧
    Complete exψ2.qd exH2.A.length 1 s0 ∧ Complete exψ2.qd exH2.A.length 0 s0 ∧
    iterate (tdvp1Step exK1 exH2 exψ2.qd (Complex.I * τ) 1) n s0 = .ok b ∧
    RunExact false exK1 exH2 exψ2.qd (Complex.I * τ) 1 n s0 := by
  obtain ⟨ψ', nrm, h1⟩ := C08.tdvp1_total (k := exK1) (H := exH2) (ψ := exψ2) exE2_ctx exK1_exp (hh := 1 / 2) (τ := τ) rfl
    (dt := Complex.I * τ) rfl (le_refl 1) exH2_wf exCompat2 rfl exψ2_adm rfl n
  obtain ⟨s0, b, ψ0, hp, ho, hcur, hcan0, hit, _, _⟩ := integrate1_canon (k := exK1) (H := exH2) exE2_ctx exψ2_adm h1
  have hqD := ex2_ortho_qD ho
  obtain ⟨_, hqd0, hlen0⟩ := C01.ortho_wf (dqr := exK1.dqr) exK1_shape exψ2_adm ho
  have hq0 : QInv s0 := ex2_prologue_q hcur hqD
  obtain ⟨hc1, hc0⟩ := ex2_completeMPS hqD hqd0 hlen0
  have hLen : ψ0.A.length = exH2.A.length := hlen0
  exact ⟨ψ', ψ0, nrm, s0, b, exE2_ctx, exK1_expLaw, exK1_half, exψ2_adm, h1, ho, hc1, hc0, hp, hcan0,
    complete_of_mps hcur hqd0 hLen hc1, complete_of_mps hcur hqd0 hLen hc0, hit,
    ex2_runExact (Complex.I * τ) n s0 hcan0 hq0⟩

/-- the hypotheses of `tdvp1_call_exact` in their universally quantified form (both centres) -/
theorem exExact2_calls (n : Nat) (τ : ℝ) : ∃ (ψ' : MPS ℂ) (nrm : ℝ),
    SweepCtx exK1 exH2 exψ2.qd 1 ∧ ExpLaw exK1.dexp ∧ exK1.half + exK1.half = 1 ∧ Admissible exψ2 ∧
    integrateLocalSinglesite exK1 exH2 exψ2 (Complex.I * τ) n 1 = .ok (ψ', nrm) ∧
    (∀ ψ0, MPS.orthonormalize (ρ := ℝ) exK1.dqr exψ2 false = .ok (ψ0, nrm) → CompleteMPS ψ0 1) ∧
    (∀ ψ0, MPS.orthonormalize (ρ := ℝ) exK1.dqr exψ2 false = .ok (ψ0, nrm) → CompleteMPS ψ0 0) ∧
    (∀ s0, prologue exK1 exH2 exψ2 = .ok (s0, nrm) → RunExact false exK1 exH2 exψ2.qd (Complex.I * τ) 1 n s0) := by
  obtain ⟨ψ', ψ0, nrm, s0, b, ctx, hE, hhalf, hadm, h1, ho, hc1, hc0, hp, _, _, _, _, hex⟩ := exExact2_full n τ
  refine ⟨ψ', nrm, ctx, hE, hhalf, hadm, h1, ?_, ?_, ?_⟩
  · intro ψ0' ho'
    rw [ho] at ho'
    injection ho' with e
    injection e with e _
    rw [← e]; exact hc1
  · intro ψ0' ho'
    rw [ho] at ho'
    injection ho' with e
    injection e with e _
    rw [← e]; exact hc0
  · intro s0' hp'
    rw [hp] at hp'
    injection hp' with e
    injection e with e _
    rw [← e]; exact hex

/-- every vector is an eigenvector of the dense operator `2 · 𝟙` of `exH2` -/
theorem exH2_denseEig (w : List Nat → ℂ) : DenseEig exH2 2 2 w := by
  intro σ hσ
  have e : ∀ τ ∈ digitsU 2 exH2.A.length, exH2.elem σ τ * w τ = if σ = τ then (RCLike.ofReal (2 : ℝ) : ℂ) * w τ else 0 := by
    intro τ hτ
    rw [exH2_scalar σ hσ τ hτ]
    by_cases h : σ = τ
    · rw [if_pos h, if_pos h]
    · rw [if_neg h, if_neg h, zero_mul]
  rw [sum_congr rfl e, Finset.sum_ite_eq, if_pos hσ]

/-- **the conclusion of `tdvp1_call_exact` for this instance**, in closed form: the call returns the normalised input state
`ψ₀ = ψ / nrm` multiplied by the phase `exp(-(n · iτ) · 2)` -/
theorem exExact2_concl (n : Nat) (τ : ℝ) : ∃ (ψ' ψ0 : MPS ℂ) (nrm : ℝ),
    integrateLocalSinglesite exK1 exH2 exψ2 (Complex.I * τ) n 1 = .ok (ψ', nrm) ∧
    MPS.orthonormalize (ρ := ℝ) exK1.dqr exψ2 false = .ok (ψ0, nrm) ∧
    (∀ σ, σ ∈ digitsU 2 2 → (nrm : ℂ) * ψ0.amp σ = exψ2.amp σ) ∧
    (∑ σ ∈ digitsU 2 2, ‖ψ0.amp σ‖ ^ 2 = 1) ∧
    DenseExp exH2 2 Complex.exp (-((n : ℂ) * (Complex.I * τ))) ψ0.amp ψ'.amp ∧
    ∀ σ, σ ∈ digitsU 2 2 → ψ'.amp σ = Complex.exp (-((n : ℂ) * (Complex.I * τ)) * 2) * ψ0.amp σ := by
  obtain ⟨ψ', nrm, ctx, hE, hhalf, hadm, h1, hc1, _, hex⟩ := exExact2_calls n τ
  obtain ⟨ψ0, ho, hd, hu, he⟩ := tdvp1_call_exact ctx hE hhalf hadm h1 hc1 hex
  refine ⟨ψ', ψ0, nrm, h1, ho, hd, hu, he, ?_⟩
  intro σ hσ
  have := he 1 (fun _ => 2) (fun _ => 1) (fun _ => ψ0.amp) (fun _ _ => exH2_denseEig _)
    (fun τ' _ => by rw [Finset.sum_range_one, one_mul]) σ hσ
  rw [this, Finset.sum_range_one, mul_one]
  norm_num
  exact Or.inl rfl

end Ptn.Evo

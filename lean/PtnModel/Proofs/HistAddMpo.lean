import PtnModel.Proofs.HistAdd
import PtnModel.Proofs.DenseAddMpoOk
/-!
# C02: the result of `add_mpo` is well-formed (as `HistAdd.lean`, for MPO tensors)
-/
set_option linter.unusedSectionVars false
namespace Ptn.HistWf
open Ptn.Hist Ptn.Ortho Ptn.Dense Ptn.MPO
variable {𝕜 : Type} [CommRing 𝕜] [DecidableEq 𝕜]

/-- the first tensor `[X | α·Y]` of an MPO sum is block sparse w.r.t. `(q_a, q_b ++ q_b')` -/
theorem t4wf_catLast {X Y : T4 𝕜} {qd qa qb qb' : List Int} (α : 𝕜) (hX : T4Wf X qd qa qb) (hY : T4Wf Y qd qa qb') :
    T4Wf (catLast X (scaleT4 α Y)) qd qa (qb ++ qb') := by
  refine ⟨hX.d0, hX.d1, hX.d2, ?_, ?_⟩
  · show X.d3 + Y.d3 = _
    rw [List.length_append, hX.d3, hY.d3]
  · intro s t a b hs ht ha hb hne
    have hs' : s < X.d0 := hs
    have ht' : t < X.d1 := ht
    have ha' : a < X.d2 := ha
    have hb' : b < X.d3 + Y.d3 := hb
    simp only [catLast, scaleT4] at hne
    by_cases hb2 : b < X.d3
    · rw [if_pos hb2] at hne
      rw [List.getD_append _ _ _ _ (by rw [← hX.d3]; exact hb2)]
      exact hX.sp s t a b hs' ht' ha' hb2 hne
    · rw [if_neg hb2] at hne
      have hY0 : Y.f s t a (b - X.d3) ≠ 0 := fun h0 => hne (by rw [h0, mul_zero])
      rw [List.getD_append_right _ _ _ _ (by rw [← hX.d3]; omega), ← hX.d3]
      exact hY.sp s t a (b - X.d3) (by rw [hY.d0, ← hX.d0]; exact hs') (by rw [hY.d1, ← hX.d1]; exact ht')
        (by rw [hY.d2, ← hX.d2]; exact ha') (by omega) hY0

theorem addMpo_wf (ψ0 ψ1 r : MPO 𝕜) (α : 𝕜) (w0 : ψ0.wellFormed = true) (w1 : ψ1.wellFormed = true)
    (h : MPO.add ψ0 ψ1 α = .ok r) : r.wellFormed = true := by
  rw [mpo_wellFormed_iff_idx] at w0 w1
  obtain ⟨l0, s0⟩ := w0
  obtain ⟨l1, s1⟩ := w1
  unfold MPO.add at h
  simp only [pyAssert_bind] at h
  obtain ⟨h1, h2, h⟩ := h
  have hqd : ψ0.qd = ψ1.qd := by simpa using h2
  have hlen : ψ0.A.length = ψ1.A.length := by simpa using h1
  split at h
  · rw [pure_ok] at h
    subst h
    rfl
  · rename_i X Y hX hY
    simp only [pyAssert_bind] at h
    obtain ⟨_, _, h⟩ := h
    split at h
    · simp [throw_bind_ne] at h
    · rename_i hne
      simp only [pyAssert_bind, pure_ok] at h
      obtain ⟨hsp, rfl⟩ := h
      rw [mpo_wellFormed_iff_idx]
      refine ⟨rfl, fun i hi => ?_⟩
      have hi0 : i = 0 := by simpa using hi
      subst hi0
      have hw := s0 0 (by rw [hX]; simp)
      simp only [hX, List.getElem_cons_zero] at hw
      refine T4Wf.tab ⟨hw.d0, hw.d1, hw.d2, hw.d3, (Ortho.isSparseT4_iff _ _ _ _).1 hsp⟩
  · rename_i X Xs Y Ys hnil hX hY
    simp only [pyAssert_bind] at h
    obtain ⟨hb0, hbL, h⟩ := h
    split at h
    · simp [throw_bind_ne] at h
    · rename_i hne
      simp only [not_or, not_not] at hne
      simp only [bind_ok, pure_ok] at h
      obtain ⟨rest, hrest, u, hloop, rfl⟩ := h
      obtain ⟨rl, rget⟩ := addInterior_get _ _ _ hrest
      have hL : ψ0.A.length = Xs.length + 1 := by rw [hX]; rfl
      have hYs : Ys.length = Xs.length := by rw [hX, hY] at hlen; simpa using hlen.symm
      have hXs : 0 < Xs.length := by
        rcases Nat.eq_zero_or_pos Xs.length with h0 | h0
        · exact absurd (List.length_eq_zero_iff.1 (hYs.trans h0)) (hnil (List.length_eq_zero_iff.1 h0))
        · exact h0
      have hb0' : ψ0.qD.getD 0 [] = ψ1.qD.getD 0 [] := by simpa using hb0
      have hbL' : ψ0.qD.getD ψ0.A.length [] = ψ1.qD.getD ψ0.A.length [] := by simpa using hbL
      have hP := forIn_unit_spec (fun i => i ≥ 1 → ∃ A, ((catLast X (scaleT4 α Y)).tab :: rest)[i]? = some A ∧
          QN.isSparseT4 A ψ0.qd
            (((List.range (ψ0.A.length + 1)).map fun i =>
              if i = 0 ∨ i = ψ0.A.length then ψ0.qD.getD i [] else ψ0.qD.getD i [] ++ ψ1.qD.getD i []).getD i [])
            (((List.range (ψ0.A.length + 1)).map fun i =>
              if i = 0 ∨ i = ψ0.A.length then ψ0.qD.getD i [] else ψ0.qD.getD i [] ++ ψ1.qD.getD i []).getD (i + 1) [])
            = true) _ (by
        intro i r hr
        by_cases hi1 : i ≥ 1
        · simp only [hi1, if_true] at hr
          split at hr
          · rename_i A hA
            simp only [pyAssert_bind, pure_ok] at hr
            exact ⟨hr.2.symm, fun _ => ⟨A, hA, hr.1⟩⟩
          · simp [throw_map_ne] at hr
        · simp only [hi1, if_false, pure_ok] at hr
          exact ⟨hr.symm, fun h => absurd h hi1⟩) _ u hloop
      rw [mpo_wellFormed_iff_idx]
      refine ⟨by simp [hL, rl], fun i hi => ?_⟩
      have hi' : i < Xs.length + 1 := by simpa [rl] using hi
      show T4Wf _ ψ0.qd
        (((List.range (ψ0.A.length + 1)).map fun i =>
          if i = 0 ∨ i = ψ0.A.length then ψ0.qD.getD i [] else ψ0.qD.getD i [] ++ ψ1.qD.getD i []).getD i [])
        (((List.range (ψ0.A.length + 1)).map fun i =>
          if i = 0 ∨ i = ψ0.A.length then ψ0.qD.getD i [] else ψ0.qD.getD i [] ++ ψ1.qD.getD i []).getD (i + 1) [])
      rw [MPS.getD_map_range _ _ i (by omega), MPS.getD_map_range _ _ (i + 1) (by omega)]
      match i with
      | 0 =>
        have c1 : ¬ (0 + 1 = 0 ∨ 0 + 1 = ψ0.A.length) := by omega
        rw [if_pos (Or.inl rfl), if_neg c1]
        have hw0 := s0 0 (by omega)
        have hw1 := s1 0 (by omega)
        simp only [hX, List.getElem_cons_zero] at hw0
        simp only [hY, List.getElem_cons_zero] at hw1
        rw [← hqd, ← hb0'] at hw1
        exact T4Wf.tab (t4wf_catLast α hw0 hw1)
      | j + 1 =>
        have hj : j < Xs.length := by omega
        obtain ⟨A, hA, hsp⟩ := hP (j + 1) (List.mem_range.2 (by omega)) (by omega)
        rw [MPS.getD_map_range _ _ (j + 1) (by omega), MPS.getD_map_range _ _ (j + 1 + 1) (by omega)] at hsp
        have hA' : ((catLast X (scaleT4 α Y)).tab :: rest)[j + 1] = A := by
          rw [List.getElem?_eq_getElem hi] at hA
          exact Option.some.inj hA
        rw [hA']
        have hg := rget j Xs[j] (Ys[j]'(by omega)) (List.getElem?_eq_getElem hj) (List.getElem?_eq_getElem (by omega))
        have hAr : rest[j]? = some A := by simpa using hA
        rw [hAr] at hg
        have hAeq := Option.some.inj hg
        have hw0 := s0 (j + 1) (by omega)
        have hw1 := s1 (j + 1) (by omega)
        simp only [hX, List.getElem_cons_succ] at hw0
        simp only [hY, List.getElem_cons_succ] at hw1
        have c1 : ¬ (j + 1 = 0 ∨ j + 1 = ψ0.A.length) := by omega
        rw [if_neg c1] at hsp ⊢
        refine ⟨?_, ?_, ?_, ?_, (Ortho.isSparseT4_iff _ _ _ _).1 hsp⟩
        · rw [hAeq]; split <;> exact hw0.d0
        · rw [hAeq]; split <;> exact hw0.d1
        · rw [hAeq, List.length_append, ← hw0.d2, ← hw1.d2]; split <;> rfl
        · by_cases hlast : j + 1 = Xs.length
          · rw [hAeq, if_pos hlast, if_pos (Or.inr (by omega))]
            exact hw0.d3
          · rw [hAeq, if_neg hlast, if_neg (by omega), List.length_append, ← hw0.d3, ← hw1.d3]
            rfl
  · simp [throw_ne] at h

end Ptn.HistWf

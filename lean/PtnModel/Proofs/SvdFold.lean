import Mathlib.Algebra.Order.Field.Basic
import PtnModel.Proofs.QrAlg
/-!
# The loop `for qn in qis` of `split_matrix_svd` on sorted quantum numbers

The `(D, u, v, q)` components of the SVD loop state evolve exactly like the `(D, Q, R, qinterm)` components of
the QR loop for the kernel `toQr dsvd = B ↦ (U, Vh)` (as long as `len(s) = U.shape[1]` at every block), so the
bookkeeping invariant `BaseInv` and the column-orthonormality invariant `IsoInv` are inherited.  New here:

* `SvdInv`     : `len(s) = D` and the projection to the QR state;
* `IsoRInv`    : the first `D` rows of `v` are orthonormal;
* `SProdInv`   : `u[:, :D] · diag(s) · v[:D, :]` is `As` restricted to the processed charges;
* `NonnegInv`  : the accumulated singular values are non-negative.
-/
set_option linter.unusedSectionVars false

namespace Ptn.BondOps
open Finset

variable {𝕜 : Type} [CommRing 𝕜] [DecidableEq 𝕜]
variable {ρ : Type} [Field ρ] [LinearOrder ρ] [IsStrictOrderedRing ρ]

/-- forget the singular values: the pair `(U, Vh)` as a "QR-like" kernel -/
def toQr (dsvd : Mat 𝕜 → Mat 𝕜 × List ρ × Mat 𝕜) : Mat 𝕜 → Mat 𝕜 × Mat 𝕜 := fun B => ((dsvd B).1, (dsvd B).2.2)

/-- forget the singular values of a loop state -/
def SVDState.toQr (st : SVDState 𝕜 ρ) : QRState 𝕜 := ⟨st.D, st.u, st.v, st.q⟩

/-- shape clause of the SVD kernel contract (`full_matrices=False`) at the matrix `B` -/
def SvdShapeAt (dsvd : Mat 𝕜 → Mat 𝕜 × List ρ × Mat 𝕜) (B : Mat 𝕜) : Prop :=
  0 < B.m → 0 < B.n →
    (dsvd B).1.m = B.m ∧ (dsvd B).1.n = min B.m B.n ∧ (dsvd B).2.1.length = min B.m B.n ∧
    (dsvd B).2.2.m = min B.m B.n ∧ (dsvd B).2.2.n = B.n

theorem SvdShapeAt.toQr {dsvd : Mat 𝕜 → Mat 𝕜 × List ρ × Mat 𝕜} {B : Mat 𝕜} (h : SvdShapeAt dsvd B) :
    ShapeAt (toQr dsvd) B := fun hm hn => by
  obtain ⟨h1, h2, -, h4, h5⟩ := h hm hn
  exact ⟨h1, h2, h4, h5⟩

theorem svdStep_eq (dsvd : Mat 𝕜 → Mat 𝕜 × List ρ × Mat 𝕜) (As : Mat 𝕜) (q0s q1s : List Int)
    (st : SVDState 𝕜 ρ) (c : Int) :
    svdStep dsvd As q0s q1s st c =
      { D := st.D + (dsvd (blk As q0s q1s c)).2.1.length,
        u := st.u.setBlock (firstIdx q0s c) st.D (dsvd (blk As q0s q1s c)).1,
        v := st.v.setBlock st.D (firstIdx q1s c) (dsvd (blk As q0s q1s c)).2.2,
        s := st.s ++ (dsvd (blk As q0s q1s c)).2.1,
        q := st.q ++ List.replicate (dsvd (blk As q0s q1s c)).2.1.length c } := rfl

theorem svdStep_toQr (dsvd : Mat 𝕜 → Mat 𝕜 × List ρ × Mat 𝕜) (As : Mat 𝕜) (q0s q1s : List Int)
    (st : SVDState 𝕜 ρ) (c : Int)
    (h : (dsvd (blk As q0s q1s c)).2.1.length = (dsvd (blk As q0s q1s c)).1.n) :
    (svdStep dsvd As q0s q1s st c).toQr = qrStep (toQr dsvd) As q0s q1s st.toQr c := by
  rw [svdStep_eq, qrStep_eq]
  simp only [SVDState.toQr, toQr, h]

theorem svdStep_s (dsvd : Mat 𝕜 → Mat 𝕜 × List ρ × Mat 𝕜) (As : Mat 𝕜) (q0s q1s : List Int)
    (st : SVDState 𝕜 ρ) (c : Int) :
    (svdStep dsvd As q0s q1s st c).s = st.s ++ (dsvd (blk As q0s q1s c)).2.1 := rfl

section
variable {dsvd : Mat 𝕜 → Mat 𝕜 × List ρ × Mat 𝕜} {As : Mat 𝕜} {q0s q1s : List Int}

/-- hypotheses on the sorted data for the SVD loop -/
structure SvdCtx (dsvd : Mat 𝕜 → Mat 𝕜 × List ρ × Mat 𝕜) (As : Mat 𝕜) (q0s q1s : List Int) : Prop where
  hs0 : q0s.Pairwise (· ≤ ·)
  hs1 : q1s.Pairwise (· ≤ ·)
  hl0 : q0s.length = As.m
  hl1 : q1s.length = As.n
  shape : ∀ c, c ∈ q0s → c ∈ q1s → SvdShapeAt dsvd (blk As q0s q1s c)

theorem SvdCtx.toQr (C : SvdCtx dsvd As q0s q1s) : SortedCtx (toQr dsvd) As q0s q1s :=
  ⟨C.hs0, C.hs1, C.hl0, C.hl1, fun c h0 h1 => (C.shape c h0 h1).toQr⟩

/-- at a block of a shared charge the spectrum has as many entries as `U` has columns -/
theorem SvdCtx.len_eq (C : SvdCtx dsvd As q0s q1s) {c : Int} (h0 : c ∈ q0s) (h1 : c ∈ q1s) :
    (dsvd (blk As q0s q1s c)).2.1.length = (dsvd (blk As q0s q1s c)).1.n := by
  obtain ⟨a1, a2⟩ := block_nonempty h0
  obtain ⟨b1, b2⟩ := block_nonempty h1
  have hm : (blk As q0s q1s c).m = lastIdxSucc q0s c - firstIdx q0s c := rfl
  have hn : (blk As q0s q1s c).n = lastIdxSucc q1s c - firstIdx q1s c := rfl
  obtain ⟨-, s2, s3, -, -⟩ := C.shape c h0 h1 (by omega) (by omega)
  rw [s2, s3]

/-- `len(s) = D`, and the QR projection satisfies the bookkeeping invariant -/
structure SvdInv (As : Mat 𝕜) (q0s q1s : List Int) (P : List Int) (st : SVDState 𝕜 ρ) : Prop where
  base : BaseInv As q0s q1s P st.toQr
  slen : st.s.length = st.D

theorem svdInv_init (As : Mat 𝕜) (q0s q1s : List Int) (m' n' m'' n'' : Nat) :
    SvdInv As q0s q1s [] (⟨0, Mat.zero m' n', Mat.zero m'' n'', [], []⟩ : SVDState 𝕜 ρ) :=
  ⟨baseInv_init As q0s q1s m' n' m'' n'', rfl⟩

theorem svdInv_step (C : SvdCtx dsvd As q0s q1s) {P : List Int} {st : SVDState 𝕜 ρ} {c : Int}
    (I : SvdInv As q0s q1s P st) (hP : ∀ c' ∈ P, c' < c) (h0 : c ∈ q0s) (h1 : c ∈ q1s) :
    SvdInv As q0s q1s (P ++ [c]) (svdStep dsvd As q0s q1s st c) := by
  refine ⟨?_, ?_⟩
  · rw [svdStep_toQr dsvd As q0s q1s st c (C.len_eq h0 h1)]
    exact baseInv_step C.toQr I.base hP h0 h1
  · rw [svdStep_eq]
    simp only [List.length_append, I.slen]

/-- entries of the spectrum after one step -/
theorem svdStep_s_getD {P : List Int} {st : SVDState 𝕜 ρ} (I : SvdInv As q0s q1s P st) (c : Int) (p : Nat) :
    (svdStep dsvd As q0s q1s st c).s.getD p 0 =
      if p < st.D then st.s.getD p 0 else (dsvd (blk As q0s q1s c)).2.1.getD (p - st.D) 0 := by
  rw [svdStep_s]
  simp only [List.getD_eq_getElem?_getD]
  by_cases h : p < st.D
  · rw [if_pos h, List.getElem?_append_left (by rw [I.slen]; exact h)]
  · rw [if_neg h, List.getElem?_append_right (by rw [I.slen]; omega), I.slen]

/-! ### rows of `v` are orthonormal (stated for QR states and an arbitrary kernel) -/

variable [StarRing 𝕜]

/-- row-orthonormality of the second factor at the matrix `B` -/
def IsoRAt (dqr : Mat 𝕜 → Mat 𝕜 × Mat 𝕜) (B : Mat 𝕜) : Prop :=
  ∀ (p p' : Nat), p < min B.m B.n → p' < min B.m B.n →
    ∑ j ∈ range B.n, (dqr B).2.f p j * star ((dqr B).2.f p' j) = if p = p' then 1 else 0

def IsoROn (dqr : Mat 𝕜 → Mat 𝕜 × Mat 𝕜) (As : Mat 𝕜) (q0s q1s : List Int) : Prop :=
  ∀ c, c ∈ q0s → c ∈ q1s → IsoRAt dqr (blk As q0s q1s c)

/-- the first `D` rows of `R` are orthonormal -/
def IsoRInv (As : Mat 𝕜) (st : QRState 𝕜) : Prop :=
  ∀ p p', p < st.D → p' < st.D →
    ∑ j ∈ range As.n, st.R.f p j * star (st.R.f p' j) = if p = p' then 1 else 0

theorem isoRInv_init (As : Mat 𝕜) (Q R : Mat 𝕜) : IsoRInv As ⟨0, Q, R, []⟩ := by
  intro p p' hp _
  exact absurd hp (Nat.not_lt_zero _)

variable {dqr : Mat 𝕜 → Mat 𝕜 × Mat 𝕜}

theorem step_crossR (C : SortedCtx dqr As q0s q1s) {P : List Int} {st : QRState 𝕜} {c : Int}
    (I : BaseInv As q0s q1s P st) (hP : ∀ c' ∈ P, c' < c) (h0 : c ∈ q0s) (h1 : c ∈ q1s)
    (j p p' : Nat) (hp : p < (dqr (blk As q0s q1s c)).1.n) (hp' : p' < st.D) :
    (qrStep dqr As q0s q1s st c).R.f (st.D + p) j = 0 ∨ (qrStep dqr As q0s q1s st c).R.f p' j = 0 := by
  have hcP : c ∉ P := fun h => lt_irrefl c (hP c h)
  rw [step_R_new C I h0 h1 p j hp, step_R_old st c p' j hp']
  by_cases hb : firstIdx q1s c ≤ j ∧ j < lastIdxSucc q1s c
  · right
    by_contra hne
    obtain ⟨x1, x2, x3⟩ := I.Rsupp p' j hne
    have hj : q1s.getD j 0 = c := block_mem C.hs1 h1 hb.1 hb.2
    have := I.qmem p' x2
    rw [x3, hj] at this
    exact hcP this
  · left; rw [if_neg hb]

theorem isoRInv_step (C : SortedCtx dqr As q0s q1s) (hiso : IsoROn dqr As q0s q1s) {P : List Int}
    {st : QRState 𝕜} {c : Int} (I : BaseInv As q0s q1s P st) (J : IsoRInv As st)
    (hP : ∀ c' ∈ P, c' < c) (h0 : c ∈ q0s) (h1 : c ∈ q1s) :
    IsoRInv As (qrStep dqr As q0s q1s st c) := by
  obtain ⟨a1, a2, b1, b2, hm, hn, s1, s2, s3, s4⟩ := C.blk_shape h0 h1
  intro p p' hp hp'
  rw [step_D] at hp hp'
  by_cases h : p < st.D
  · by_cases h' : p' < st.D
    · rw [← J p p' h h']
      apply sum_congr rfl
      intro j _
      rw [step_R_old st c p j h, step_R_old st c p' j h']
    · obtain ⟨t, rfl⟩ := Nat.exists_eq_add_of_le (Nat.le_of_not_lt h')
      rw [if_neg (by omega)]
      apply sum_eq_zero
      intro j _
      rcases step_crossR C I hP h0 h1 j t p (by omega) h with hz | hz
      · rw [hz, star_zero, mul_zero]
      · rw [hz, zero_mul]
  · obtain ⟨t, rfl⟩ := Nat.exists_eq_add_of_le (Nat.le_of_not_lt h)
    by_cases h' : p' < st.D
    · rw [if_neg (by omega)]
      apply sum_eq_zero
      intro j _
      rcases step_crossR C I hP h0 h1 j t p' (by omega) h' with hz | hz
      · rw [hz, zero_mul]
      · rw [hz, star_zero, mul_zero]
    · obtain ⟨t', rfl⟩ := Nat.exists_eq_add_of_le (Nat.le_of_not_lt h')
      have e : ∀ j ∈ range As.n,
          (qrStep dqr As q0s q1s st c).R.f (st.D + t) j * star ((qrStep dqr As q0s q1s st c).R.f (st.D + t') j) =
          if firstIdx q1s c ≤ j ∧ j < firstIdx q1s c + (lastIdxSucc q1s c - firstIdx q1s c) then
            (dqr (blk As q0s q1s c)).2.f t (j - firstIdx q1s c) *
              star ((dqr (blk As q0s q1s c)).2.f t' (j - firstIdx q1s c)) else 0 := by
        intro j _
        rw [step_R_new C I h0 h1 t j (by omega), step_R_new C I h0 h1 t' j (by omega)]
        by_cases hb : firstIdx q1s c ≤ j ∧ j < lastIdxSucc q1s c
        · rw [if_pos hb, if_pos hb, if_pos (by omega)]
        · rw [if_neg hb, if_neg hb, if_neg (by omega), zero_mul]
      rw [sum_congr rfl e, sum_range_block As.n _ _ (by omega)
        (fun k => (dqr (blk As q0s q1s c)).2.f t k * star ((dqr (blk As q0s q1s c)).2.f t' k))]
      have := hiso c h0 h1 t t' (by rw [hm, hn]; omega) (by rw [hm, hn]; omega)
      rw [hn] at this
      rw [this]
      by_cases htt : t = t'
      · rw [if_pos htt, if_pos (by omega)]
      · rw [if_neg htt, if_neg (by omega)]

theorem isoRInv_foldl (C : SortedCtx dqr As q0s q1s) (hiso : IsoROn dqr As q0s q1s) {qis : List Int}
    (hq : qis.Pairwise (· < ·)) (hmem : ∀ c ∈ qis, c ∈ q0s ∧ c ∈ q1s) (m' n' m'' n'' : Nat) :
    IsoRInv As (qis.foldl (qrStep dqr As q0s q1s) ⟨0, Mat.zero m' n', Mat.zero m'' n'', []⟩) := by
  have := foldl_prefix_inv (qrStep dqr As q0s q1s)
    (fun P st => BaseInv As q0s q1s P st ∧ IsoRInv As st) qis []
    ⟨0, Mat.zero m' n', Mat.zero m'' n'', []⟩ ?_
    ⟨baseInv_init As q0s q1s m' n' m'' n'', isoRInv_init As _ _⟩
  · simpa using this.2
  · intro P' st' c rest' he I
    have he' : qis = P' ++ c :: rest' := by simpa using he
    have hc := hmem c (by rw [he']; simp)
    have hlt := prefix_lt_of_pairwise hq he'
    exact ⟨baseInv_step C I.1 hlt hc.1 hc.2, isoRInv_step C hiso I.1 I.2 hlt hc.1 hc.2⟩

end
end Ptn.BondOps

import PtnModel.Proofs.CompressBridge
/-!
# `MPS.compress` raises no exception on admissible input (under the kernel contracts, `0 ≤ tol < 1`)

Needed for the non-vacuity of the C13 theorems: the hypothesis "the run returned `(ψ', nrm, scale)`" is satisfiable.
-/
set_option linter.unusedSectionVars false
set_option linter.unusedVariables false
namespace Ptn.Compress
open Ptn.BondOps Ptn.Ortho Ptn.Env Finset

variable {𝕜 : Type} [RCLike 𝕜] [DecidableEq 𝕜]
attribute [local instance] rcRealLike

variable {k : MPS.SvdKernels 𝕜 ℝ} {tol : ℝ} {qd : List Int}

/-- no exception in a local left SVD step on admissible input (shape clause of the SVD contract only) -/
theorem localLeftSvd_ok (hk : SvdKernel k) {A Anext : T3 𝕜} {qL qR : List Int}
    (hA : T3Wf A qd qL qR) (hd : 0 < qd.length) (hL : 0 < qL.length) (hR : 0 < qR.length)
    (hN : Anext.d1 = qR.length) :
    ∃ A' Anext' qb, MPS.localOrthoLeftSvd k A Anext qd qL qR tol = .ok (A', Anext', qb) := by
  have H := qrInput_flattenLeft hA hd hL hR
  have hc := hk.svd.on A.flattenLeft.tab (QN.flatten2 qd qL) qR
  obtain ⟨U, s, V, qb, hrun⟩ := C12.split_ok k.dnorm k.dargsort tol hc.shape H.hq0 H.hq1 H.hm H.hn H.hsp
  have hdm := C12.split_dims k.dnorm k.dargsort tol hc.shape H.hq0 H.hq1 H.hm H.hn H.hsp hrun
  refine ⟨(T3.ofFlattenLeft U A.d0 A.d1).tab, pushR (svMat s V).tab Anext, qb, ?_⟩
  rw [localLeftSvd_eq, hrun]
  dsimp only
  rw [if_neg]
  rw [not_not, hdm.2.2.2.1, hN]
  exact hA.d2

theorem sweepLeftSvd_ok (hk : SvdKernel k) (htol : 0 ≤ tol) (htol1 : tol < 1) (hd : 0 < qd.length) :
    ∀ {rest : List (T3 𝕜)} {A : T3 𝕜} {qL : List Int} {qRs : List (List Int)}, 0 < qL.length →
    WfChain qd qL (A :: rest) qRs → ((qL :: qRs).getLast?.getD []).length = 1 → (∀ B ∈ rest, RightIso B) →
    0 < frobT A → ∃ As qs T, MPS.sweepLeftSvd k qd tol A qL rest qRs = .ok (As, qs, T)
  | [], A, qL, [], _, h, _, _, _ => by simp at h
  | [], A, qL, [qR], hL, h, h1, _, hpos => by
    simp only [wfChain_cons] at h
    have h1' : qR.length = 1 := by simpa using h1
    obtain ⟨A', T, qb, hl⟩ := localLeftSvd_ok (tol := tol) (Anext := MPS.ones111) hk h.1 hd hL h.2.1 h1'.symm
    have hst := locL_sem hk htol htol1 hd hl h.1 hL h.2.1 h1'.symm hpos
    have hsp : QN.isSparseT3 A' qd qL qb = true := (isSparseT3_iff _ _ _ _).2 hst.dims.wfA.sp
    exact ⟨[A'], [qb], T, by rw [MPS.sweepLeftSvd, hl]; simp only [bind, Except.bind, pyAssert, hsp, if_true]; rfl⟩
  | [], A, qL, _ :: _ :: _, _, h, _, _, _ => by simp at h
  | Anext :: rest, A, qL, [], _, h, _, _, _ => by simp at h
  | Anext :: rest, A, qL, [qR], _, h, _, _, _ => by simp at h
  | Anext :: rest, A, qL, qR :: qR' :: qRest, hL, h, h1, hiso, hpos => by
    simp only [wfChain_cons] at h
    obtain ⟨hA, hR, hN, hR', hrest⟩ := h
    obtain ⟨A', Anext', qb, hl⟩ := localLeftSvd_ok (tol := tol) (Anext := Anext) hk hA hd hL hR hN.d1
    have hst := locL_sem hk htol htol1 hd hl hA hL hR hN.d1 hpos
    have hsp : QN.isSparseT3 A' qd qL qb = true := (isSparseT3_iff _ _ _ _).2 hst.dims.wfA.sp
    have hN' := hst.wfNext hN
    have hwt := hst.weightNext hA (hiso Anext (by simp))
    have hpos' : 0 < frobT Anext' := by
      have : 0 < (1 - tol) * frobT A := mul_pos (by linarith) hpos
      linarith [hwt.2]
    have h1' : ((qb :: qR' :: qRest).getLast?.getD []).length = 1 := by
      rw [List.getLast?_cons_cons] at h1 ⊢
      rw [List.getLast?_cons_cons] at h1
      exact h1
    obtain ⟨As, qs, T, hs⟩ := sweepLeftSvd_ok hk htol htol1 hd (rest := rest) (A := Anext') (qL := qb)
      (qRs := qR' :: qRest) hst.dims.pos (by simp only [wfChain_cons]; exact ⟨hN', hR', hrest⟩) h1'
      (fun B hB => hiso B (List.mem_cons_of_mem _ hB)) hpos'
    exact ⟨A' :: As, qb :: qs, T, by
      rw [MPS.sweepLeftSvd, hl]; simp only [bind, Except.bind, pyAssert, hsp, if_true, hs]; rfl⟩

/-- no exception in a local right SVD step on admissible (mirrored) input -/
theorem localRightSvd_ok (hk : SvdKernel k) {A Aprev : T3 𝕜} {qL qR : List Int}
    (hA : T3Wf A.swap12 qd (QN.neg qR) (QN.neg qL)) (hd : 0 < qd.length) (hL : 0 < qL.length)
    (hR : 0 < qR.length) (hN : Aprev.d2 = qL.length) :
    ∃ A' Aprev' qb, MPS.localOrthoRightSvd k A Aprev qd qL qR tol = .ok (A', Aprev', qb) := by
  have H := qrInput_rightMat hA hd (by rw [neg_length]; exact hR) (by rw [neg_length]; exact hL)
  rw [neg_neg, neg_neg] at H
  have hc := hk.svd.on A.swap01.flattenRight.tab qL (QN.flatten2 (QN.neg qd) qR)
  obtain ⟨U, s, V, qb, hrun⟩ := C12.split_ok k.dnorm k.dargsort tol hc.shape H.hq0 H.hq1 H.hm H.hn H.hsp
  have hdm := C12.split_dims k.dnorm k.dargsort tol hc.shape H.hq0 H.hq1 H.hm H.hn H.hsp hrun
  refine ⟨(T3.ofFlattenRight V A.d0 A.d2).swap01.tab, pushUS s U Aprev, qb, ?_⟩
  rw [localRightSvd_eq, hrun]
  dsimp only
  rw [if_neg]
  rw [not_not, hdm.1, hN, ← neg_length qL]
  exact hA.d2

/-- block sparsity of the new tensor of a right step, in the original orientation -/
theorem sparse_of_mirror {B : T3 𝕜} {qb qR : List Int} (h : T3Wf B.swap12 qd (QN.neg qR) (QN.neg qb)) :
    QN.isSparseT3 B qd qb qR = true := by
  rw [isSparseT3_iff]
  intro s a b hs ha hb hne
  have := h.sp s b a hs hb ha hne
  rw [neg_getD, neg_getD] at this
  omega

theorem sweepRightSvd_ok (hk : SvdKernel k) (htol : 0 ≤ tol) (htol1 : tol < 1) (hd : 0 < qd.length) :
    ∀ {rest : List (T3 𝕜)} {A : T3 𝕜} {qR : List Int} {qLs : List (List Int)}, 0 < qR.length →
    WfChain qd (QN.neg qR) ((A :: rest).map T3.swap12) (qLs.map QN.neg) →
    (((QN.neg qR) :: qLs.map QN.neg).getLast?.getD []).length = 1 →
    (∀ B ∈ rest.map T3.swap12, RightIso B) → 0 < frobT A.swap12 →
    ∃ As qs T, MPS.sweepRightSvd k qd tol A qR rest qLs = .ok (As, qs, T)
  | [], A, qR, [], _, h, _, _, _ => by simp at h
  | [], A, qR, [qL], hR, h, h1, _, hpos => by
    simp only [List.map_cons, List.map_nil, wfChain_cons, wfChain_nil, and_true] at h
    have h1' : qL.length = 1 := by simpa [neg_length] using h1
    obtain ⟨A', T, qb, hl⟩ := localRightSvd_ok (tol := tol) (Aprev := MPS.ones111) hk h.1 hd (by omega) hR h1'.symm
    have hst := locR_sem hk htol htol1 hd (locR_of_run hl) h.1 (by rw [neg_length]; exact hR) h.2
      (by rw [neg_length, h1']; rfl) hpos
    have hsp : QN.isSparseT3 A' qd qb qR = true := sparse_of_mirror hst.dims.wfA
    exact ⟨[A'], [qb], T, by rw [MPS.sweepRightSvd, hl]; simp only [bind, Except.bind, pyAssert, hsp, if_true]; rfl⟩
  | [], A, qR, _ :: _ :: _, _, h, _, _, _ => by simp at h
  | Aprev :: rest, A, qR, [], _, h, _, _, _ => by simp at h
  | Aprev :: rest, A, qR, [qL], _, h, _, _, _ => by simp at h
  | Aprev :: rest, A, qR, qL :: qL' :: qRest, hR, h, h1, hiso, hpos => by
    simp only [List.map_cons, wfChain_cons] at h
    obtain ⟨hA, hL, hN, hL', hrest⟩ := h
    have hLpos : 0 < qL.length := by rw [neg_length] at hL; exact hL
    have hRn : 0 < (QN.neg qR).length := by rw [neg_length]; exact hR
    obtain ⟨A', Aprev', qb, hl⟩ := localRightSvd_ok (tol := tol) (Aprev := Aprev) hk hA hd hLpos hR
      (by have := hN.d1; rw [neg_length] at this; exact this)
    have hst := locR_sem hk htol htol1 hd (locR_of_run hl) hA hRn hL hN.d1 hpos
    have hsp : QN.isSparseT3 A' qd qb qR = true := sparse_of_mirror hst.dims.wfA
    have hN' := hst.wfNext hN
    have hwt := hst.weightNext hA (hiso Aprev.swap12 (by simp))
    have hpos' : 0 < frobT Aprev'.swap12 := by
      have : 0 < (1 - tol) * frobT A.swap12 := mul_pos (by linarith) hpos
      linarith [hwt.2]
    have h1' : (((QN.neg qb) :: (qL' :: qRest).map QN.neg).getLast?.getD []).length = 1 := by
      simp only [List.map_cons] at h1 ⊢
      rw [List.getLast?_cons_cons] at h1 ⊢
      rw [List.getLast?_cons_cons] at h1
      exact h1
    obtain ⟨As, qs, T, hs⟩ := sweepRightSvd_ok hk htol htol1 hd (rest := rest) (A := Aprev') (qR := qb)
      (qLs := qL' :: qRest) (by have := hst.dims.pos; rw [neg_length] at this; exact this)
      (by simp only [List.map_cons, wfChain_cons]; exact ⟨hN', hL', hrest⟩) h1'
      (fun B hB => hiso B (by simp only [List.map_cons]; exact List.mem_cons_of_mem _ hB)) hpos'
    exact ⟨A' :: As, qb :: qs, T, by
      rw [MPS.sweepRightSvd, hl]; simp only [bind, Except.bind, pyAssert, hsp, if_true, hs]; rfl⟩

variable {dqr : Mat 𝕜 → Mat 𝕜 × Mat 𝕜} {dabs : 𝕜 → ℝ} {divR : 𝕜 → ℝ → 𝕜} {ψ : MPS 𝕜}

/-- `compress` raises no exception on admissible input, in both modes -/
theorem compress_ok' (hq : C01.QRKernel dqr) (hk : SvdKernel k) (hadm : Admissible ψ) (htol : 0 ≤ tol)
    (htol1 : tol < 1) (left : Bool) :
    ∃ ψ' nrm scale, MPS.compress dqr k dabs divR ψ tol left = .ok (ψ', nrm, scale) := by
  obtain ⟨ψ1, nrm, ho⟩ := C01.ortho_ok (dqr := dqr) hq.contract.shape hadm (!left)
  have hc : OppCanon left ψ1 := oppCanon_of_ortho hq hadm ho
  cases left with
  | true =>
    obtain ⟨A0, rest, q0, qrest, hA, hq'⟩ := hc.1.exists_cons
    obtain ⟨hw, h0, hl⟩ := hc.1.chain hA hq'
    have hiso : ∀ B ∈ A0 :: rest, RightIso B := by rw [← hA]; exact hc.2
    have hF := frobT_first hc.1 hA hq' (hiso A0 (by simp))
    have hpos : 0 < frobT A0 := by rw [hF]; exact one_pos
    obtain ⟨As, qs, T, hs⟩ := sweepLeftSvd_ok hk htol htol1 hc.1.d_pos (by omega) hw hl
      (fun B hB => hiso B (List.mem_cons_of_mem _ hB)) hpos
    have S := (sweepLeftSvd_of_run hs).toS
      (fun h hA hL hR hN hpos => locL_sem hk htol htol1 hc.1.d_pos h hA hL hR hN hpos) htol1 (by omega) hw hl
      (fun B hB => hiso B (List.mem_cons_of_mem _ hB)) hpos
    obtain ⟨-, -, t0, t1, t2, -, -⟩ := S.wf
    have hT : (T.d0 == 1 && T.d1 == 1 && T.d2 == 1) = true := (dims_one_iff T).2 ⟨t0, t1, t2⟩
    unfold MPS.compress
    simp only [if_true]
    have ho' : MPS.orthonormalize (ρ := ℝ) dqr ψ false = .ok (ψ1, nrm) := ho
    rw [ho']
    simp only [bind, Except.bind, hA, hq', hs, pyAssert, hT, if_true]
    exact ⟨_, _, _, rfl⟩
  | false =>
    have hm := admissible_mirror hc.1
    obtain ⟨B0, brest, p0, prest, hA', hq''⟩ := hm.exists_cons
    obtain ⟨hw, h0, hl⟩ := hm.chain hA' hq''
    -- the reversed lists of the model
    have hAr : ψ1.A.reverse = B0.swap12 :: brest.map T3.swap12 := by
      have : (ψ1.A.reverse.map T3.swap12).map T3.swap12 = (B0 :: brest).map T3.swap12 := by
        rw [← hA']; rfl
      rw [List.map_map] at this
      have e : (T3.swap12 ∘ T3.swap12) = (id : T3 𝕜 → T3 𝕜) := by funext A; rfl
      rw [e, List.map_id] at this
      rw [this]; rfl
    have hqr : ψ1.qD.reverse = QN.neg p0 :: prest.map QN.neg := by
      have : (ψ1.qD.reverse.map QN.neg).map QN.neg = (p0 :: prest).map QN.neg := by
        rw [← hq'']; rfl
      rw [List.map_map] at this
      have e : (QN.neg ∘ QN.neg) = id := by funext q; exact neg_neg q
      rw [e, List.map_id] at this
      rw [this]; rfl
    have hiso : ∀ B ∈ B0 :: brest, RightIso B := by rw [← hA']; exact hc.mirror_iso
    have hF := frobT_first hm hA' hq'' (hiso B0 (by simp))
    have hpos : 0 < frobT B0 := by rw [hF]; exact one_pos
    have e1 : (B0.swap12 :: brest.map T3.swap12).map T3.swap12 = B0 :: brest := by
      rw [List.map_cons, List.map_map]
      have e : (T3.swap12 ∘ T3.swap12) = (id : T3 𝕜 → T3 𝕜) := by funext A; rfl
      rw [e, List.map_id]; rfl
    have e2 : (prest.map QN.neg).map QN.neg = prest := by
      rw [List.map_map]
      have e : (QN.neg ∘ QN.neg) = id := by funext q; exact neg_neg q
      rw [e, List.map_id]
    have hw' : WfChain ψ1.qd (QN.neg (QN.neg p0)) ((B0.swap12 :: brest.map T3.swap12).map T3.swap12)
        ((prest.map QN.neg).map QN.neg) := by
      rw [e1, e2, neg_neg]; exact hw
    have hl' : (((QN.neg (QN.neg p0)) :: (prest.map QN.neg).map QN.neg).getLast?.getD []).length = 1 := by
      rw [e2, neg_neg]; exact hl
    have hiso' : ∀ B ∈ (brest.map T3.swap12).map T3.swap12, RightIso B := by
      intro B hB
      have : (brest.map T3.swap12).map T3.swap12 = brest := by
        have := e1
        rw [List.map_cons] at this
        exact (List.cons.inj this).2
      rw [this] at hB
      exact hiso B (List.mem_cons_of_mem _ hB)
    obtain ⟨As, qs, T, hs⟩ := sweepRightSvd_ok hk htol htol1 hc.1.d_pos (rest := brest.map T3.swap12)
      (A := B0.swap12) (qR := QN.neg p0) (qLs := prest.map QN.neg)
      (by rw [neg_length]; omega) hw' hl' hiso' hpos
    have S := (sweepRightSvd_of_run hs).toS (qd := ψ1.qd)
      (fun h hA hL hR hN hpos => locR_sem hk htol htol1 hc.1.d_pos h hA hL hR hN hpos) htol1
      (by rw [neg_length, neg_length]; omega) hw' hl' hiso' hpos
    obtain ⟨-, -, t0, t1, t2, -, -⟩ := S.wf
    have hT : (T.d0 == 1 && T.d1 == 1 && T.d2 == 1) = true := (dims_one_iff T).2 ⟨t0, t2, t1⟩
    unfold MPS.compress
    simp only [Bool.false_eq_true, if_false]
    have ho' : MPS.orthonormalize (ρ := ℝ) dqr ψ true = .ok (ψ1, nrm) := ho
    rw [ho']
    simp only [bind, Except.bind, hAr, hqr, hs, pyAssert, hT, if_true]
    exact ⟨_, _, _, rfl⟩

end Ptn.Compress

import PtnModel.Proofs.HistEvoBoundary3
import PtnModel.Proofs.EvoDmrgMain
/-!
# C02: single-site DMRG keeps the leading bond charges of a non-zero state (under the contracts of C10)

The final `local_orthonormalize_right_qr` of the first site rewrites `qD[0]` with the negated intermediate charges of a
block QR whose column charges are `-qD[0]` (one entry).  Unless the QR takes its dummy branch (all entries zero), every
intermediate charge is a common charge of rows and columns, hence equal to `-qD[0][0]`, and there is exactly one: the
rewritten list equals the old one.  Under the kernel contracts of C10 the state held by the sweep has norm one, so its
centre tensor is not zero and the dummy branch is excluded.
-/
set_option linter.unusedSectionVars false
namespace Ptn.HistWf
open Ptn Ptn.Evo Ptn.Krylov Ptn.Ortho Ptn.BondOps Ptn.Dense Finset
variable {𝕜 : Type} [RCLike 𝕜] [DecidableEq 𝕜]

/-- in the regular branch of `qr` every intermediate charge is a common charge of rows and columns -/
theorem qr_bond_mem {dqr : Mat 𝕜 → Mat 𝕜 × Mat 𝕜} (hshape : ∀ B, ShapeAt dqr B) {A Q R : Mat 𝕜} {q0 q1 qi : List Int}
    (hrun : qr dqr A q0 q1 = .ok (Q, R, qi)) (hne : intersect1d q0 q1 ≠ []) :
    0 < qi.length ∧ qi.length ≤ min A.m A.n ∧ ∀ p, p < qi.length → qi.getD p 0 ∈ intersect1d q0 q1 := by
  obtain ⟨hq0, hq1, hsp⟩ := qr_asserts hrun
  obtain ⟨c, hc⟩ := List.exists_mem_of_ne_nil _ hne
  obtain ⟨hc0, hc1⟩ := mem_intersect1d.1 hc
  have hm : 0 < A.m := by rw [← hq0]; exact List.length_pos_of_mem hc0
  have hn : 0 < A.n := by rw [← hq1]; exact List.length_pos_of_mem hc1
  have H : QRInput A q0 q1 := ⟨hq0, hq1, hm, hn, (isSparseMat_iff A q0 q1).1 hsp⟩
  have hres := result_of_run (fun B _ => hshape B) H hrun
  have hb := loopState_base A q0 q1 (fun B _ => hshape B) hq0 hq1
  have e := qr_nonempty (fun B _ => hshape B) H hne
  rw [hrun] at e
  injection e with e
  injection e with _ e
  injection e with _ e
  refine ⟨hres.pos, hres.le, ?_⟩
  intro p hp
  rw [e] at hp ⊢
  exact hb.qmem p (by rw [← hb.qlen]; exact hp)

variable {k : EvoKernels 𝕜 ℝ} {H : MPO 𝕜} {qd : List Int} {numiter : Nat}

/-- **the final normalisation keeps `qD[0]`** when the first bond has dimension one and the first tensor is not zero -/
theorem normalizeFirst_q0 (hshape : ∀ B, ShapeAt k.dqr B) {s s' : Sweep 𝕜} (hq0 : (getQ s 0).length = 1)
    (hd1 : (getA s 0).d1 = 1) (hsize : 0 < s.qD.size)
    {σ a b : Nat} (hσ : σ < (getA s 0).d0) (ha : a < (getA s 0).d1) (hb : b < (getA s 0).d2)
    (hne : (getA s 0).f σ a b ≠ 0) (hrun : dmrgNormalizeFirst k qd s = .ok s') : getQ s' 0 = getQ s 0 := by
  obtain ⟨A0, X, qb, h1, rfl⟩ := dmrgNormalizeFirst_unfold hrun
  show (s.qD.setIfInBounds 0 qb).getD 0 [] = _
  rw [getD_setIfInBounds_eq _ _ _ hsize]
  rw [localRight_eq] at h1
  cases hq : qr k.dqr (getA s 0).swap12.flattenLeft.tab (QN.flatten2 qd (QN.neg (getQ s 1))) (QN.neg (getQ s 0)) with
  | error e => rw [hq] at h1; cases h1
  | ok r =>
    obtain ⟨Q, R, qb'⟩ := r
    rw [hq] at h1
    dsimp only at h1
    by_cases hc : R.n ≠ (MPS.ones111 : T3 𝕜).d2
    · rw [if_pos hc] at h1; cases h1
    · rw [if_neg hc] at h1
      injection h1 with h1
      injection h1 with _ h1
      injection h1 with _ e3
      subst e3
      obtain ⟨hl0, hl1, hsp⟩ := qr_asserts hq
      -- the dummy branch is excluded by the non-zero entry
      have hne' : intersect1d (QN.flatten2 qd (QN.neg (getQ s 1))) (QN.neg (getQ s 0)) ≠ [] := by
        intro h0
        have he : (intersect1d (QN.flatten2 qd (QN.neg (getQ s 1))) (QN.neg (getQ s 0))).isEmpty = true := by
          rw [h0]; rfl
        rw [qr_empty_cases k.dqr hl0 hl1 hsp he] at hq
        split at hq
        · rename_i hz
          have hz' := (all_zero_iff _).1 hz (σ * (getA s 0).d2 + b) a
            (Ortho.fused_lt hσ hb) ha
          apply hne
          rw [Env.mat_tab_f _ (Ortho.fused_lt hσ hb) ha] at hz'
          have e : (getA s 0).swap12.flattenLeft.f (σ * (getA s 0).d2 + b) a = (getA s 0).f σ a b := by
            show (getA s 0).f ((σ * (getA s 0).d2 + b) / (getA s 0).d2) a ((σ * (getA s 0).d2 + b) % (getA s 0).d2) = _
            rw [Ortho.fused_div hb, Ortho.fused_mod hb]
          rw [← e]; exact hz'
        · cases hq
      obtain ⟨hpos, hle, hmem⟩ := qr_bond_mem hshape hq hne'
      have hn1 : (getA s 0).swap12.flattenLeft.tab.n = 1 := hd1
      have hlen : qb'.length = 1 := by rw [hn1] at hle; omega
      have h0mem := (mem_intersect1d.1 (hmem 0 (by omega))).2
      -- the only element of `-qD[0]`
      obtain ⟨c, hc⟩ : ∃ c, getQ s 0 = [c] := by
        match hg : getQ s 0, hq0 with
        | [c], _ => exact ⟨c, rfl⟩
      obtain ⟨x, hx⟩ : ∃ x, qb' = [x] := by
        match qb', hlen with
        | [x], _ => exact ⟨x, rfl⟩
      rw [hc] at h0mem ⊢
      rw [hx] at h0mem ⊢
      simp only [QN.neg, List.map_cons, List.map_nil, List.getD_cons_zero, List.mem_singleton] at h0mem ⊢
      rw [h0mem]
      simp

/-- a tensor of Frobenius norm one has a non-zero entry -/
theorem exists_entry_of_frob {A : T3 𝕜} (h : frob3 A = 1) :
    ∃ σ a b, σ < A.d0 ∧ a < A.d1 ∧ b < A.d2 ∧ A.f σ a b ≠ 0 := by
  have hne : frob3 A ≠ 0 := by rw [h]; exact one_ne_zero
  unfold frob3 at hne
  obtain ⟨σ, hσ, h1⟩ := Finset.exists_ne_zero_of_sum_ne_zero hne
  obtain ⟨a, ha, h2⟩ := Finset.exists_ne_zero_of_sum_ne_zero h1
  obtain ⟨b, hb, h3⟩ := Finset.exists_ne_zero_of_sum_ne_zero h2
  refine ⟨σ, a, b, Finset.mem_range.1 hσ, Finset.mem_range.1 ha, Finset.mem_range.1 hb, ?_⟩
  intro h0
  apply h3
  rw [h0]; simp

/-- one DMRG sweep keeps `qD[0]` (contracts of C10, `L ≥ 2`) -/
theorem dmrg1Sweep_q0 (ctx : SweepCtx k H qd numiter) (hL2 : 2 ≤ H.A.length) {s s' : Sweep 𝕜} {es es' : List ℝ} {E : ℝ}
    (h : DInv H qd s 0 E) (hrun : dmrg1Sweep k H qd numiter (s, es) = .ok (s', es')) : getQ s' 0 = getQ s 0 := by
  obtain ⟨s1, e1, s2, e2, s3, h1, h2, h3, h4⟩ := dmrg1Sweep_unfold hrun
  injection h4 with h4a h4b
  subst h4a h4b
  dsimp only at h1
  have hleft := foldIdx_up (dmrg1Left k H qd numiter)
    (fun i (t : Sweep 𝕜 × ℝ) => (∃ E', DInv H qd t.1 i E') ∧ getQ t.1 0 = getQ s 0) (H.A.length - 1)
    (fun i hi t t' ht ht' => by
      obtain ⟨⟨E', hinv⟩, hq⟩ := ht
      obtain ⟨t1, t2⟩ := t
      obtain ⟨t1', t2'⟩ := t'
      obtain ⟨hinv', _, _⟩ := dmrg1Left_inv ctx hinv (by omega) ht'
      refine ⟨⟨t2', hinv'⟩, ?_⟩
      obtain ⟨en, Aopt, Ai, An, qb, BLn, -, -, -, e⟩ := dmrg1Left_unfold ht'
      injection e with e _
      rw [e, ← hq]
      show (t1.qD.setIfInBounds (i + 1) qb).getD 0 [] = t1.qD.getD 0 []
      rw [getD_setIfInBounds_ne _ _ _ (by omega)])
    (s, 0) (s1, e1) ⟨⟨E, h⟩, rfl⟩ h1
  have hright := foldIdx_dn (dmrg1Right k H qd numiter)
    (fun i (t : Sweep 𝕜 × ℝ) => (∃ E', DInv H qd t.1 i E') ∧ getQ t.1 0 = getQ s 0) (H.A.length - 1)
    (fun i hi t t' ht ht' => by
      obtain ⟨⟨E', hinv⟩, hq⟩ := ht
      obtain ⟨t1, t2⟩ := t
      obtain ⟨t1', t2'⟩ := t'
      obtain ⟨hinv', _, _⟩ := dmrg1Right_inv ctx hinv ht'
      refine ⟨⟨t2', hinv'⟩, ?_⟩
      obtain ⟨en, Aopt, Ai, Ap, qb, BRn, -, -, -, e⟩ := dmrg1Right_unfold ht'
      injection e with e _
      rw [e, ← hq]
      show (t1.qD.setIfInBounds (i + 1) qb).getD 0 [] = t1.qD.getD 0 []
      rw [getD_setIfInBounds_ne _ _ _ (by omega)])
    (s1, e1) (s2, e2) hleft h2
  obtain ⟨⟨E2, hinv2⟩, hq2⟩ := hright
  dsimp only at hinv2 hq2
  have hL : 0 < H.A.length := by omega
  have hfrob : frob3 (getA s2 0) = 1 := by
    have hc := (canon_centre hinv2.can ctx.hH).1
    rw [hinv2.nrm] at hc
    exact_mod_cast hc.symm
  obtain ⟨σ, a, b, hσ, ha, hb, hne⟩ := exists_entry_of_frob hfrob
  have hd1 : (getA s2 0).d1 = 1 := (hinv2.can.wf.shape 0 hL).2.1.trans hinv2.can.q0
  rw [← hq2]
  exact normalizeFirst_q0 ctx.qr.contract.shape hinv2.can.q0 hd1 (by rw [hinv2.can.wf.sizeQ]; omega) hσ ha hb hne h3

/-- **DMRG1 boundary (contracts)**: for a non-zero admissible state, `L ≥ 2` and kernels satisfying the contracts of C10
(`SweepCtx`: QR contract of C01, norm contract, `eigh_tridiagonal` contract at the Lanczos runs, Hermitian shaped
Hamiltonian), `calculate_ground_state_local_singlesite` keeps `qD[0]` and `qD[L]` -/
theorem dmrg1_boundary_contract {ψ ψ' : MPS 𝕜} (ctx : SweepCtx k H ψ.qd numiter) (hL2 : 2 ≤ H.A.length)
    (hadm : Admissible ψ) {numsweeps : Nat} {en : List ℝ}
    (h : dmrgSinglesite k H ψ numsweeps numiter = .ok (ψ', en))
    {σ : List Nat} (hσ : σ ∈ Env.digitsU ψ.qd.length ψ.A.length) (hne : ψ.amp σ ≠ 0) :
    ψ'.qD.head? = ψ.qD.head? ∧ ψ'.qD.getLast? = ψ.qD.getLast? := by
  refine ⟨?_, dmrg1_last ctx.qr.contract.shape hadm h (ortho_norm_ne_zero ctx.qr hadm hσ hne)⟩
  obtain ⟨s0, nrm, s, hp, hit, rfl⟩ := dmrgSinglesite_unfold h
  obtain ⟨ψ1', E0, ho1, _, hinv0⟩ := prologue_inv ctx rfl hadm hp
  obtain ⟨hHL, ψ1, BR, ho, _, _, rfl⟩ := prologue_unfold hp
  have ho' : MPS.orthonormalize (ρ := ℝ) k.dqr ψ false = .ok (ψ1, nrm) := ho
  have hn := ortho_norm_ne_zero ctx.qr hadm hσ hne ψ1 nrm ho'
  obtain ⟨b1, _⟩ := ortho_mps_boundary ctx.qr.contract.shape (by show RCLike.re (0 : 𝕜) = 0; simp) ho' hn
  obtain ⟨hadm1, _, hlen⟩ := C01.ortho_wf (dqr := k.dqr) ctx.qr.contract.shape hadm ho'
  have hinv := iterate_inv (dmrg1Sweep k H ψ.qd numiter)
    (fun (t : Sweep 𝕜 × List ℝ) => (∃ E', DInv H ψ.qd t.1 0 E') ∧ getQ t.1 0 = ψ1.qD.getD 0 [])
    (fun t t' ht ht' => by
      obtain ⟨⟨E', hd⟩, hq⟩ := ht
      obtain ⟨t1, t2⟩ := t
      obtain ⟨t1', t2'⟩ := t'
      obtain ⟨e, _, hd', _, _⟩ := dmrg1Sweep_inv ctx hL2 hd ht'
      exact ⟨⟨e, hd'⟩, (dmrg1Sweep_q0 ctx hL2 hd ht').trans hq⟩)
    numsweeps (_, []) (s, en) ⟨⟨E0, hinv0⟩, by
      show ψ1.qD.toArray.getD 0 [] = _
      rw [Evo.toArray_getD]⟩ hit
  obtain ⟨⟨E', hd⟩, hq⟩ := hinv
  obtain ⟨hl1, _⟩ := wf_index hadm1.wf
  rw [← b1]
  show s.qD.toList.head? = _
  have hsz : 0 < s.qD.toList.length := by rw [Array.length_toList, hd.can.wf.sizeQ]; omega
  rw [head?_eq_getD hsz, head?_eq_getD (by omega), toList_getD]
  exact congrArg some hq

end Ptn.HistWf

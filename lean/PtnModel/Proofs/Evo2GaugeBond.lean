import PtnModel.Proofs.Evo2Gauge
import PtnModel.Proofs.EvoProj
/-!
# The zero-site step across a change of the QR gauge

In the forward call the zero-site (bond) operator is built from a left isometry `Q`, in the backward call from another
left isometry `Q' = Q · U` with the same column space (`U` unitary: the QR gauge is not unique).  The two bond operators are
intertwined by `X ↦ Uᴴ X`:

* `bond_gauge_left`       : `K'(Uᴴ X) = Uᴴ K(X)` for the bond maps built from `Q'` and `Q`;
* `bondStep_cancel_gauge` : `_local_bond_step` with `(K, Ct, δ)` returning `C1`, followed by `_local_bond_step` with
  `(K', Uᴴ C1, -δ)`, returns `Uᴴ Ct` (exact local exponentials).  With `U = 1` this is the zero-site analogue of
  `C09.step_cancel`.
-/
set_option linter.unusedSectionVars false

namespace Ptn.Evo
open Ptn Ptn.Krylov Ptn.Dense Ptn.BondOps Ptn.Ortho Finset

variable {𝕜 : Type} [RCLike 𝕜] [DecidableEq 𝕜]
local notation "conj" => starRingEnd 𝕜

/-- `Uᴴ X` -/
def adjMul (U X : Mat 𝕜) : Mat 𝕜 := ⟨U.n, X.n, fun p b => ∑ r ∈ range U.m, star (U.f r p) * X.f r b⟩

/-- the matrix of `X ↦ Uᴴ X` on flat `D × n` matrices -/
def adjFlat (U : Mat 𝕜) (n : Nat) (i j : Nat) : 𝕜 := if i % n = j % n then star (U.f (j / n) (i / n)) else 0

omit [DecidableEq 𝕜] in
theorem adjFlat_apply (U : Mat 𝕜) {D n : Nat} (x : List 𝕜) {i : Nat} (hi : i < D * n) :
    ∑ j ∈ range (D * n), adjFlat U n i j * vget x j = ∑ r ∈ range D, star (U.f r (i / n)) * vget x (r * n + i % n) := by
  have hb : i % n < n := Ortho.mod_lt_of_lt_mul hi
  rw [Ortho.sum_fused D n]
  refine sum_congr rfl fun r _ => ?_
  have e : ∀ b ∈ range n, adjFlat U n i (r * n + b) * vget x (r * n + b) =
      if i % n = b then star (U.f r (i / n)) * vget x (r * n + b) else 0 := by
    intro b hb'
    unfold adjFlat
    rw [Ortho.fused_mod (mem_range.1 hb'), Ortho.fused_div (mem_range.1 hb')]
    by_cases h : i % n = b
    · rw [if_pos h, if_pos h]
    · rw [if_neg h, if_neg h, zero_mul]
  rw [sum_congr rfl e, sum_ite_eq (range n) (i % n), if_pos (mem_range.2 hb)]

omit [DecidableEq 𝕜] in
/-- `Q' · (Uᴴ X) = Q · X` when `Q' = Q · U` and `U Uᴴ = 1` -/
theorem mulRight_gauge {Q Q' : T3 𝕜} {U X : Mat 𝕜} (q2 : Q'.d2 = Q.d2) (hUm : U.m = Q.d2)
    (hUU : ∀ q r, q < Q.d2 → r < Q.d2 → ∑ p ∈ range Q.d2, U.f q p * star (U.f r p) = if q = r then 1 else 0)
    {s a : Nat} (hQ' : ∀ p, p < Q.d2 → Q'.f s a p = ∑ q ∈ range Q.d2, Q.f s a q * U.f q p) (b : Nat) :
    (mulRight Q' (adjMul U X)).f s a b = (mulRight Q X).f s a b := by
  show ∑ p ∈ range Q'.d2, Q'.f s a p * ∑ r ∈ range U.m, star (U.f r p) * X.f r b =
    ∑ q ∈ range Q.d2, Q.f s a q * X.f q b
  rw [q2, hUm]
  have e1 : ∀ p ∈ range Q.d2, Q'.f s a p * ∑ r ∈ range Q.d2, star (U.f r p) * X.f r b =
      ∑ q ∈ range Q.d2, ∑ r ∈ range Q.d2, Q.f s a q * X.f r b * (U.f q p * star (U.f r p)) := by
    intro p hp
    rw [hQ' p (mem_range.1 hp), sum_mul]
    refine sum_congr rfl fun q _ => ?_
    rw [mul_sum]
    exact sum_congr rfl fun r _ => by ring
  rw [sum_congr rfl e1, sum_comm]
  refine sum_congr rfl fun q hq => ?_
  rw [sum_comm]
  have e2 : ∀ r ∈ range Q.d2, ∑ p ∈ range Q.d2, Q.f s a q * X.f r b * (U.f q p * star (U.f r p)) =
      if q = r then Q.f s a q * X.f r b else 0 := by
    intro r hr
    rw [← mul_sum, hUU q r (mem_range.1 hq) (mem_range.1 hr)]
    by_cases h : q = r
    · rw [if_pos h, if_pos h, mul_one]
    · rw [if_neg h, if_neg h, mul_zero]
  rw [sum_congr rfl e2, sum_ite_eq (range Q.d2) q, if_pos hq]

omit [DecidableEq 𝕜] in
/-- the one-site map only reads the in-range entries of its argument -/
theorem applyLocal_congr {L R : T3 𝕜} {W : T4 𝕜} {d0 d1 d2 : Nat} (hF : LocalFits L R W d0 d1 d2) {A B TA TB : T3 𝕜}
    (a0 : A.d0 = d0) (a1 : A.d1 = d1) (a2 : A.d2 = d2) (b0 : B.d0 = d0) (b1 : B.d1 = d1) (b2 : B.d2 = d2)
    (hAB : ∀ s a b, s < d0 → a < d1 → b < d2 → A.f s a b = B.f s a b)
    (hTA : Op.applyLocalHamiltonian L R W A = .ok TA) (hTB : Op.applyLocalHamiltonian L R W B = .ok TB) :
    ∀ s a b, s < d0 → a < d1 → b < d2 → TA.f s a b = TB.f s a b := by
  obtain ⟨T1, h1, _, _, _, f1⟩ := applyLocal_ker hF a0 a1 a2
  obtain ⟨T2, h2, _, _, _, f2⟩ := applyLocal_ker hF b0 b1 b2
  have := Except.ok.inj (h1.symm.trans hTA); subst this
  have := Except.ok.inj (h2.symm.trans hTB); subst this
  intro s a b hs ha hb
  rw [f1 s a b hs ha hb, f2 s a b hs ha hb]
  refine sum_congr rfl fun s' hs' => sum_congr rfl fun a' ha' => sum_congr rfl fun b' hb' => ?_
  rw [hAB s' a' b' (mem_range.1 hs') (mem_range.1 ha') (mem_range.1 hb')]

omit [DecidableEq 𝕜] in
/-- the bond map only reads the in-range entries of its argument -/
theorem applyBond_congr {L R : T3 𝕜} {m n : Nat} (hF : BondFits L R m n) {C C' T T' : Mat 𝕜}
    (c0 : C.m = m) (c1 : C.n = n) (c0' : C'.m = m) (c1' : C'.n = n)
    (hCC : ∀ a b, a < m → b < n → C.f a b = C'.f a b)
    (hT : Op.applyLocalBondContraction L R C = .ok T) (hT' : Op.applyLocalBondContraction L R C' = .ok T') :
    ∀ a b, a < m → b < n → T.f a b = T'.f a b := by
  obtain ⟨T1, h1, _, _, f1⟩ := applyBond_ker hF c0 c1
  obtain ⟨T2, h2, _, _, f2⟩ := applyBond_ker hF c0' c1'
  have := Except.ok.inj (h1.symm.trans hT); subst this
  have := Except.ok.inj (h2.symm.trans hT'); subst this
  intro a b ha hb
  rw [f1 a b ha hb, f2 a b ha hb]
  refine sum_congr rfl fun a' ha' => sum_congr rfl fun b' hb' => ?_
  rw [hCC a' b' (mem_range.1 ha') (mem_range.1 hb')]

omit [DecidableEq 𝕜] in
/-- **The bond operators of two gauges are intertwined by `Uᴴ`.** -/
theorem bond_gauge_left {BL BR : T3 𝕜} {W : T4 𝕜} {Q Q' BLn BLn' : T3 𝕜} {n : Nat} {U : Mat 𝕜}
    (hF : LocalFits BL BR W Q.d0 Q.d1 n) (q0 : Q'.d0 = Q.d0) (q1 : Q'.d1 = Q.d1) (q2 : Q'.d2 = Q.d2)
    (hUm : U.m = Q.d2) (hUn : U.n = Q.d2)
    (hUU : ∀ q r, q < Q.d2 → r < Q.d2 → ∑ p ∈ range Q.d2, U.f q p * star (U.f r p) = if q = r then 1 else 0)
    (hQ' : ∀ s a p, s < Q.d0 → a < Q.d1 → p < Q.d2 → Q'.f s a p = ∑ q ∈ range Q.d2, Q.f s a q * U.f q p)
    (hBLn : Op.opStepLeft Q Q W BL = .ok BLn) (hBLn' : Op.opStepLeft Q' Q' W BL = .ok BLn')
    {X KX KX' : Mat 𝕜} (hXm : X.m = Q.d2) (hXn : X.n = n)
    (hK : Op.applyLocalBondContraction BLn BR X = .ok KX)
    (hK' : Op.applyLocalBondContraction BLn' BR (adjMul U X) = .ok KX') :
    ∀ p b, p < Q.d2 → b < n → KX'.f p b = ∑ r ∈ range Q.d2, star (U.f r p) * KX.f r b := by
  obtain ⟨_, hproj⟩ := bond_proj_left hF hBLn
  have hF' : LocalFits BL BR W Q'.d0 Q'.d1 n := by rw [q0, q1]; exact hF
  obtain ⟨_, hproj'⟩ := bond_proj_left hF' hBLn'
  obtain ⟨T, hT, _, _, _, _⟩ := applyLocal_ker hF (A := mulRight Q X) rfl rfl hXn
  obtain ⟨T', hT', _, _, _, _⟩ := applyLocal_ker hF (A := mulRight Q' (adjMul U X)) q0 q1 hXn
  have hTT : ∀ s a b, s < Q.d0 → a < Q.d1 → b < n → T'.f s a b = T.f s a b :=
    applyLocal_congr hF (A := mulRight Q' (adjMul U X)) (B := mulRight Q X) q0 q1 hXn rfl rfl hXn
      (fun s a b hs ha _ => mulRight_gauge q2 hUm hUU (fun p hp => hQ' s a p hs ha hp) b) hT' hT
  intro p b hp hb
  have hT'' : Op.applyLocalHamiltonian BL BR W (mulRight Q' (adjMul U X)) = .ok T' := hT'
  rw [hproj' (adjMul U X) KX' T' (by show U.n = Q'.d2; rw [hUn, q2]) hXn hK' hT'' p b (by rw [q2]; exact hp) hb, q0, q1]
  have e1 : ∀ s' ∈ range Q.d0, ∀ a' ∈ range Q.d1, star (Q'.f s' a' p) * T'.f s' a' b =
      ∑ q ∈ range Q.d2, star (U.f q p) * (star (Q.f s' a' q) * T.f s' a' b) := by
    intro s' hs' a' ha'
    rw [hQ' s' a' p (mem_range.1 hs') (mem_range.1 ha') hp, hTT s' a' b (mem_range.1 hs') (mem_range.1 ha') hb,
      star_sum, sum_mul]
    refine sum_congr rfl fun q _ => ?_
    rw [star_mul']
    ring
  rw [sum_congr rfl fun s' hs' => sum_congr rfl fun a' ha' => e1 s' hs' a' ha']
  have e2 : ∀ s' ∈ range Q.d0, (∑ a' ∈ range Q.d1, ∑ q ∈ range Q.d2, star (U.f q p) * (star (Q.f s' a' q) * T.f s' a' b)) =
      ∑ q ∈ range Q.d2, ∑ a' ∈ range Q.d1, star (U.f q p) * (star (Q.f s' a' q) * T.f s' a' b) := fun s' _ => sum_comm
  rw [sum_congr rfl e2, sum_comm]
  refine sum_congr rfl fun q hq => ?_
  rw [hproj X KX T hXm hXn hK hT q b (mem_range.1 hq) hb, mul_sum]
  refine sum_congr rfl fun s' _ => ?_
  rw [mul_sum]

/-- **A forward and a backward zero-site step cancel across a change of gauge.**  `Q` and `Q' = Q · U` (`U Uᴴ = 1`, `U`
square) are site tensors of the same shape, `BLn`, `BLn'` the left blocks built from them; the one-site operator between
`BL` and `BR` is well-dimensioned and Hermitian.  `_local_bond_step(BLn, BR, Ct, δ, m)` returns `C1`,
`_local_bond_step(BLn', BR, C', -δ, m')` with `C' = Uᴴ C1` returns `C1'`; both Lanczos runs exhaust their Krylov spaces;
`E(a) E(-a) = 1`.  Then `C1' = Uᴴ Ct` — for every complex `δ`. -/
theorem bondStep_cancel_gauge {k : EvoKernels 𝕜 ℝ} {BL BR : T3 𝕜} {W : T4 𝕜} {Q Q' BLn BLn' : T3 𝕜} {n : Nat}
    {U Ct C1 C' C1' : Mat 𝕜} {δ : 𝕜} {m m' : Nat} (hN : NormContract k.cnorm)
    (hF : LocalFits BL BR W Q.d0 Q.d1 n) (hH : LocalHermitian BL BR W Q.d0 Q.d1 n)
    (q0 : Q'.d0 = Q.d0) (q1 : Q'.d1 = Q.d1) (q2 : Q'.d2 = Q.d2) (hUm : U.m = Q.d2) (hUn : U.n = Q.d2)
    (hUU : ∀ q r, q < Q.d2 → r < Q.d2 → ∑ p ∈ range Q.d2, U.f q p * star (U.f r p) = if q = r then 1 else 0)
    (hQ' : ∀ s a p, s < Q.d0 → a < Q.d1 → p < Q.d2 → Q'.f s a p = ∑ q ∈ range Q.d2, Q.f s a q * U.f q p)
    (hBLn : Op.opStepLeft Q Q W BL = .ok BLn) (hBLn' : Op.opStepLeft Q' Q' W BL = .ok BLn')
    (hCtm : Ct.m = Q.d2) (hCtn : Ct.n = n)
    (hE : C15.EighAt (localBondFun BLn BR Ct.m Ct.n) k.cnorm k.deigh (flat2 Ct) m)
    (hX : C15.Exhausted (localBondFun BLn BR Ct.m Ct.n) k.cnorm (flat2 Ct) m)
    (h1 : localBondStep k BLn BR Ct δ m = .ok C1)
    (hC'm : C'.m = Q.d2) (hC'n : C'.n = n)
    (hC' : ∀ p b, p < Q.d2 → b < n → C'.f p b = ∑ r ∈ range Q.d2, star (U.f r p) * C1.f r b)
    (hE' : C15.EighAt (localBondFun BLn' BR C'.m C'.n) k.cnorm k.deigh (flat2 C') m')
    (hX' : C15.Exhausted (localBondFun BLn' BR C'.m C'.n) k.cnorm (flat2 C') m')
    (h2 : localBondStep k BLn' BR C' (-δ) m' = .ok C1')
    (hexp : ∀ x : ℝ, k.dexp (δ * (x : 𝕜)) * k.dexp (-δ * (x : 𝕜)) = 1) :
    C1'.m = Q.d2 ∧ C1'.n = n ∧
      ∀ p b, p < Q.d2 → b < n → C1'.f p b = ∑ r ∈ range Q.d2, star (U.f r p) * Ct.f r b := by
  obtain ⟨y, hy, rfl⟩ := bondStep_unfold h1
  obtain ⟨z, hz, rfl⟩ := bondStep_unfold h2
  rw [hCtm, hCtn] at hy hE hX
  rw [hC'm, hC'n] at hz hE' hX'
  have hF' : LocalFits BL BR W Q'.d0 Q'.d1 n := by rw [q0, q1]; exact hF
  have hH' : LocalHermitian BL BR W Q'.d0 Q'.d1 n := by rw [q0, q1]; exact hH
  obtain ⟨hFB, hHB⟩ := bondHermitian_left hF hH hBLn
  obtain ⟨hFB', hHB'⟩ := bondHermitian_left hF' hH' hBLn'
  rw [q2] at hFB' hHB'
  have hA := isHermitian_localBondFun hFB hHB
  have hM := actsAs_localBondFun hFB
  have hHM := herm_matrix_of_actsAs hA hM
  have hA' := isHermitian_localBondFun hFB' hHB'
  have hM' := actsAs_localBondFun hFB'
  have hHM' := herm_matrix_of_actsAs hA' hM'
  have hvl : (flat2 Ct).length = Q.d2 * n := by rw [length_flat2, hCtm, hCtn]
  have hv'l : (flat2 C').length = (flat2 Ct).length := by rw [length_flat2, hC'm, hC'n, hvl]
  rw [← hvl] at hM hHM hM' hHM'
  -- the intermediate vector
  obtain ⟨_, _, _, _, _, _, hyl, _⟩ := C15.expm_exact_partial hN hM hHM hE hX hy
  rw [hvl] at hyl
  have hC1f : ∀ r b, r < Q.d2 → b < n → (unflat2 y Ct.m Ct.n).tab.f r b = vget y (r * n + b) := by
    intro r b hr hb
    rw [Env.mat_tab_f (unflat2 y Ct.m Ct.n) (by show r < Ct.m; rw [hCtm]; exact hr) (by show b < Ct.n; rw [hCtn]; exact hb),
      unflat2_f, hCtn]
  -- the start vector of the backward run is `G y`
  have hv' : ∀ i, i < (flat2 Ct).length →
      vget (flat2 C') i = ∑ j ∈ range (flat2 Ct).length, adjFlat U n i j * vget y j := by
    intro i hi
    rw [hvl] at hi ⊢
    have ha : i / n < Q.d2 := Ortho.div_lt_of_lt_mul hi
    have hb : i % n < n := Ortho.mod_lt_of_lt_mul hi
    rw [adjFlat_apply U y hi]
    have : vget (flat2 C') i = C'.f (i / n) (i % n) := by
      unfold flat2
      rw [vget_map_range, hC'm, hC'n, if_pos hi]
    rw [this, hC' _ _ ha hb]
    exact sum_congr rfl fun r hr => by rw [hC1f r _ (mem_range.1 hr) hb]
  -- the intertwining relation on vectors
  have hG : ∀ x : List 𝕜, x.length = (flat2 Ct).length → ∀ i, i < (flat2 Ct).length →
      vget (localBondFun BLn' BR Q.d2 n (mvec (flat2 Ct).length (adjFlat U n) x)) i =
        ∑ j ∈ range (flat2 Ct).length, adjFlat U n i j * vget (localBondFun BLn BR Q.d2 n x) j := by
    intro x hx i hi
    rw [hvl] at hx hi ⊢
    have ha : i / n < Q.d2 := Ortho.div_lt_of_lt_mul hi
    have hb : i % n < n := Ortho.mod_lt_of_lt_mul hi
    obtain ⟨KX, hKX, eK, k0, k1⟩ := localBondFun_eq hFB x
    obtain ⟨KG, hKG, eG, g0, g1⟩ := localBondFun_eq hFB' (mvec (Q.d2 * n) (adjFlat U n) x)
    obtain ⟨KX', hKX', a0, a1, _⟩ := applyBond_ker hFB' (C := adjMul U (unflat2 x Q.d2 n)) hUn rfl
    have hcong := applyBond_congr hFB' (C := unflat2 (mvec (Q.d2 * n) (adjFlat U n) x) Q.d2 n)
      (C' := adjMul U (unflat2 x Q.d2 n)) rfl rfl hUn rfl
      (fun a b ha' hb' => by
        rw [unflat2_f, vget_mvec (adjFlat U n) x (Ortho.fused_lt ha' hb'), adjFlat_apply U x (Ortho.fused_lt ha' hb'),
          Ortho.fused_div hb', Ortho.fused_mod hb']
        show _ = ∑ r ∈ range U.m, star (U.f r a) * (unflat2 x Q.d2 n).f r b
        rw [hUm]
        exact sum_congr rfl fun r _ => by rw [unflat2_f]) hKG hKX'
    have hgl := bond_gauge_left hF q0 q1 q2 hUm hUn hUU hQ' hBLn hBLn' (X := unflat2 x Q.d2 n) rfl rfl hKX hKX'
    rw [eG, eK, adjFlat_apply U (flat2 KX) hi]
    have e1 : vget (flat2 KG) i = KG.f (i / n) (i % n) := by
      unfold flat2
      rw [vget_map_range, g0, g1, if_pos hi]
    rw [e1, hcong _ _ ha hb, hgl _ _ ha hb]
    refine sum_congr rfl fun r hr => ?_
    have : vget (flat2 KX) (r * n + i % n) = KX.f r (i % n) := by
      have := vget_flat2 KX (i := r) (j := i % n) (by rw [k0]; exact mem_range.1 hr) (by rw [k1]; exact hb)
      rw [k1] at this
      exact this
    rw [this]
  obtain ⟨hzl, hzv⟩ := krylov_cancel_gauge' hN hM hHM hM' hHM' hG hE hX hy hv'l hv' hE' hX' hz (fun x => by
    have := hexp x
    rw [_root_.neg_neg]
    exact this)
  rw [hvl] at hzl hzv
  refine ⟨hC'm, hC'n, ?_⟩
  intro p b hp hb
  rw [Env.mat_tab_f (unflat2 z C'.m C'.n) (by show p < C'.m; rw [hC'm]; exact hp) (by show b < C'.n; rw [hC'n]; exact hb),
    unflat2_f, hC'n, hzv _ (Ortho.fused_lt hp hb), adjFlat_apply U (flat2 Ct) (Ortho.fused_lt hp hb),
    Ortho.fused_div hb, Ortho.fused_mod hb]
  refine sum_congr rfl fun r hr => ?_
  have := vget_flat2 Ct (i := r) (j := b) (by rw [hCtm]; exact mem_range.1 hr) (by rw [hCtn]; exact hb)
  rw [hCtn] at this
  rw [this]

end Ptn.Evo

import PtnModel.Proofs.EvoTdvp
/-!
# Two-site windows of a mixed-canonical matrix product state

For the two-site sweeps (`twoSiteUpdate`, `dmrg2Update`) the natural invariant is `Canon2 H qd s i`: the tensors left of
the window `(i, i+1)` are left isometries, the tensors right of it are right isometries, `BL[j]` (`j ≤ i`) and `BR[j]`
(`j ≥ i+1`) are the partial contractions of the current tensors.  Both `Canon … i` and `Canon … (i+1)` imply it.

* `two_mixed_inner`  : in such a state the inner product of two states that differ only in the two-site tensor of the
                       window is the inner product of the two-site tensors;
* `two_of_blocks`    : the two-site effective operator is well-dimensioned and Hermitian (from `C04.two_site_*`);
* `canon2_centre`    : norm and energy of `ψ[(i,i+1) := X]` are `‖X‖²` and `⟨X, H_eff X⟩`;
* `canon2_update`    : replacing the pair of the window keeps `Canon2` and the new amplitudes are those of the merged
                       pair inserted into the old state;
* `Canon2.toL`, `Canon2.toR` : back to the one-site invariant once the new block is stored.
-/
set_option linter.unusedSectionVars false

namespace Ptn.Evo
open Ptn Ptn.BondOps Ptn.Ortho Ptn.Env Ptn.Krylov Ptn.Dense Finset

variable {𝕜 : Type} [RCLike 𝕜] [DecidableEq 𝕜]
local notation "conj" => starRingEnd 𝕜

/-! ## MPS level -/

/-- **Two-site mixed-canonical inner product.** -/
theorem two_mixed_inner {ψ : MPS 𝕜} {d : Nat} (hψ : C04.MPS.Shaped ψ d) {i : Nat} (hi : i + 1 < ψ.A.length)
    (hl : ∀ j, j < i → LeftIso (ψ.A.getD j emptyT3))
    (hr : ∀ j, i + 1 < j → j < ψ.A.length → RightIso (ψ.A.getD j emptyT3)) {A B : T3 𝕜}
    (hA1 : A.d1 = mpsBond ψ i) (hA2 : A.d2 = mpsBond ψ (i + 2))
    (hB1 : B.d1 = mpsBond ψ i) (hB2 : B.d2 = mpsBond ψ (i + 2)) :
    ∑ σ ∈ digitsU d ψ.A.length, star (ampTwo ψ d i B σ) * ampTwo ψ d i A σ =
      ∑ s ∈ range (d * d), ∑ a ∈ range (mpsBond ψ i), ∑ b ∈ range (mpsBond ψ (i + 2)),
        star (B.f s a b) * A.f s a b := by
  have hψ' := hψ.2
  have hi0 : i ≤ ψ.A.length := by omega
  have cL : Chain3 (List.replicate i d) (ψ.A.take i) 1 (mpsBond ψ i) := by
    have := chain3_take hψ' i hi0
    rwa [take_replicate_le hi0] at this
  have cR : Chain3 (List.replicate (ψ.A.length - (i + 2)) d) (ψ.A.drop (i + 2)) (mpsBond ψ (i + 2)) 1 := by
    have := chain3_drop hψ' (i + 2) (Nat.succ_le_of_lt hi)
    rwa [drop_replicate'] at this
  have key := mixed_inner_chain (d := d * d) (A := A) (B := B) cL cR
    (fun X hX => by
      obtain ⟨j, hj, _, rfl⟩ := mem_take_getD hX
      exact hl j hj)
    (fun X hX => by
      obtain ⟨j, hj, hj', rfl⟩ := mem_drop_getD hX
      exact hr j (by omega) hj') hA2 hB2
  rw [sum_digits_append] at key
  simp only [sum_digits_cons] at key
  rw [← key]
  unfold digitsU
  rw [replicate_split2 hi, sum_digits_mid2]
  refine sum_congr rfl fun σl hσl => ?_
  rw [sum_fused d d]
  refine sum_congr rfl fun s0 _ => sum_congr rfl fun s1 _ => sum_congr rfl fun σr hσr => ?_
  rw [ampTwo_eq hψ' hi hB1 hB2 s0 s1 hσl hσr, ampTwo_eq hψ' hi hA1 hA2 s0 s1 hσl hσr]

/-- squared norm of `ψ` with the two-site tensor `X` inserted at `(i, i+1)` -/
noncomputable def normSq2 (ψ : MPS 𝕜) (d i : Nat) (X : T3 𝕜) : 𝕜 :=
  ∑ σ ∈ digitsU d ψ.A.length, star (ampTwo ψ d i X σ) * ampTwo ψ d i X σ

/-- energy of `ψ` with the two-site tensor `X` inserted at `(i, i+1)` -/
noncomputable def energy2 (ψ : MPS 𝕜) (o : MPO 𝕜) (d i : Nat) (X : T3 𝕜) : 𝕜 :=
  ∑ σ ∈ digitsU d ψ.A.length, ∑ τ ∈ digitsU d ψ.A.length, star (ampTwo ψ d i X σ) * o.elem σ τ * ampTwo ψ d i X τ

omit [DecidableEq 𝕜] in
theorem digitsU_window {d L i : Nat} (hi : i + 1 < L) {σ : List Nat} (hσ : σ ∈ digitsU d L) :
    σ.getD i 0 < d ∧ σ.getD (i + 1) 0 < d := by
  obtain ⟨σl, s0, s1, σr, hl, h0, h1, _, rfl⟩ := mem_digits_split2_inv hi hσ
  have hlen : σl.length = i := by simpa using length_of_mem_digits hl
  obtain ⟨_, f2, f3, _⟩ := split2_facts (σr := σr) (s0 := s0) (s1 := s1) hlen
  rw [f2, f3]; exact ⟨h0, h1⟩

omit [DecidableEq 𝕜] in
/-- `ampTwo` only reads the in-range entries of the inserted tensor -/
theorem ampTwo_congr {ψ : MPS 𝕜} {d i : Nat} {X Y : T3 𝕜} (h : T3Eqv X Y) (hd : X.d0 = d * d) {σ : List Nat}
    (h0 : σ.getD i 0 < d) (h1 : σ.getD (i + 1) 0 < d) : ampTwo ψ d i X σ = ampTwo ψ d i Y σ := by
  unfold ampTwo
  rw [← h.d1, ← h.d2]
  refine sum_congr rfl fun a ha => sum_congr rfl fun b hb => ?_
  rw [h.f _ a b (by rw [hd]; exact fused_lt h0 h1) (mem_range.1 ha) (mem_range.1 hb)]

omit [DecidableEq 𝕜] in
/-- `ampTwo` only reads the tensors outside the window -/
theorem ampTwo_outside {ψ ψ' : MPS 𝕜} {d i : Nat} (ht : ψ'.A.take i = ψ.A.take i)
    (hd : ψ'.A.drop (i + 2) = ψ.A.drop (i + 2)) (X : T3 𝕜) (σ : List Nat) : ampTwo ψ' d i X σ = ampTwo ψ d i X σ := by
  unfold ampTwo ampPrefix ampSuffix
  rw [ht, hd]

omit [DecidableEq 𝕜] in
theorem normSq2_energy2_congr {ψ : MPS 𝕜} {o : MPO 𝕜} {d i : Nat} (hi : i + 1 < ψ.A.length) {X Y : T3 𝕜}
    (h : T3Eqv X Y) (hd : X.d0 = d * d) :
    normSq2 ψ d i X = normSq2 ψ d i Y ∧ energy2 ψ o d i X = energy2 ψ o d i Y := by
  have e : ∀ σ ∈ digitsU d ψ.A.length, ampTwo ψ d i X σ = ampTwo ψ d i Y σ := fun σ hσ =>
    ampTwo_congr h hd (digitsU_window hi hσ).1 (digitsU_window hi hσ).2
  unfold normSq2 energy2
  constructor
  · exact sum_congr rfl fun σ hσ => by rw [e σ hσ]
  · exact sum_congr rfl fun σ hσ => sum_congr rfl fun τ hτ => by rw [e σ hσ, e τ hτ]

/-- **Bridge (two sites).**  Environment blocks of a Hermitian MPO give a well-dimensioned Hermitian two-site map. -/
theorem two_of_blocks {ψ : MPS 𝕜} {o : MPO 𝕜} {d : Nat} (hψ : C04.MPS.Shaped ψ d) (ho : C04.MPO.Shaped o d)
    (hL : ψ.A.length = o.A.length) (hH : C04.MPO.DenseHermitian o d) {i : Nat} (hi : i + 1 < ψ.A.length) {W0 W1 : T4 𝕜}
    (hW0 : o.A[i]? = some W0) (hW1 : o.A[i + 1]? = some W1) {Lb Rb : T3 𝕜} (hLb : IsLeftBlock ψ o d i Lb)
    (hRb : IsRightBlock ψ o d (i + 2) Rb) :
    LocalFits Lb Rb (MPO.mergePair W0 W1) (d * d) (mpsBond ψ i) (mpsBond ψ (i + 2)) ∧
    LocalHermitian Lb Rb (MPO.mergePair W0 W1) (d * d) (mpsBond ψ i) (mpsBond ψ (i + 2)) := by
  constructor
  · obtain ⟨T, hT, t0, t1, t2, _⟩ := C04.two_site_projection hψ ho hL hi hW0 hW1
      (A2 := zero3 (d * d) (mpsBond ψ i) (mpsBond ψ (i + 2))) (B2 := zero3 (d * d) (mpsBond ψ i) (mpsBond ψ (i + 2)))
      rfl rfl rfl rfl rfl rfl hLb hRb
    exact localFits_of_ok hT t0 t1 t2
  · intro A B TA TB a0 a1 a2 b0 b1 b2 hTA hTB
    obtain ⟨TA', TB', hTA', hTB', e⟩ := C04.two_site_hermitian hψ ho hL hH hi hW0 hW1 a0 a1 a2 b0 b1 b2 hLb hRb
    have e1 : TA' = TA := Except.ok.inj (hTA'.symm.trans hTA)
    have e2 : TB' = TB := Except.ok.inj (hTB'.symm.trans hTB)
    subst e1 e2
    obtain ⟨T1, h1, s0, s1, s2, _⟩ := C04.two_site_projection hψ ho hL hi hW0 hW1 a0 a1 a2 b0 b1 b2 hLb hRb
    obtain ⟨T2, h2, r0, r1, r2, _⟩ := C04.two_site_projection hψ ho hL hi hW0 hW1 b0 b1 b2 a0 a1 a2 hLb hRb
    have e3 : T1 = TA' := Except.ok.inj (h1.symm.trans hTA)
    have e4 : T2 = TB' := Except.ok.inj (h2.symm.trans hTB)
    subst e3 e4
    unfold inner3
    rw [s0, s1, s2, r0, r1, r2]
    simp only [starRingEnd_apply]
    exact e

/-! ## memoised operator tensors -/

omit [DecidableEq 𝕜] in
theorem localFits_tab {L R : T3 𝕜} {W : T4 𝕜} {d0 d1 d2 : Nat} (hF : LocalFits L R W d0 d1 d2) :
    LocalFits L R W.tab d0 d1 d2 := ⟨hF.r0, hF.r2, hF.w0, hF.w1, hF.w3, hF.l0, hF.l2, hF.w2⟩

omit [DecidableEq 𝕜] in
/-- the one-site map does not see the memoisation of the operator tensor -/
theorem applyLocal_tabW {L R : T3 𝕜} {W : T4 𝕜} {d0 d1 d2 : Nat} (hF : LocalFits L R W d0 d1 d2) {A T T' : T3 𝕜}
    (h0 : A.d0 = d0) (h1 : A.d1 = d1) (h2 : A.d2 = d2) (hT : Op.applyLocalHamiltonian L R W A = .ok T)
    (hT' : Op.applyLocalHamiltonian L R W.tab A = .ok T') (B : T3 𝕜) : inner3 B T' = inner3 B T := by
  obtain ⟨T1, e1, a0, a1, a2, f1⟩ := applyLocal_ker hF h0 h1 h2
  obtain ⟨T2, e2, b0, b1, b2, f2⟩ := applyLocal_ker (localFits_tab hF) h0 h1 h2
  have := Except.ok.inj (e1.symm.trans hT)
  subst this
  have := Except.ok.inj (e2.symm.trans hT')
  subst this
  unfold inner3
  rw [a0, a1, a2, b0, b1, b2]
  refine sum_congr rfl fun s hs => sum_congr rfl fun a ha => sum_congr rfl fun b hb => ?_
  rw [f1 s a b (mem_range.1 hs) (mem_range.1 ha) (mem_range.1 hb),
    f2 s a b (mem_range.1 hs) (mem_range.1 ha) (mem_range.1 hb)]
  congr 1
  refine sum_congr rfl fun s' hs' => sum_congr rfl fun a' _ => sum_congr rfl fun b' _ => ?_
  congr 1
  unfold localKer
  show ∑ w ∈ range W.d2, ∑ w' ∈ range W.d3, _ = _
  refine sum_congr rfl fun w hw => sum_congr rfl fun w' hw' => ?_
  rw [Env.t4_tab_f W (by rw [hF.w0]; exact mem_range.1 hs) (by rw [hF.w1]; exact mem_range.1 hs') (mem_range.1 hw)
    (mem_range.1 hw')]

omit [DecidableEq 𝕜] in
theorem localHermitian_tab {L R : T3 𝕜} {W : T4 𝕜} {d0 d1 d2 : Nat} (hF : LocalFits L R W d0 d1 d2)
    (hH : LocalHermitian L R W d0 d1 d2) : LocalHermitian L R W.tab d0 d1 d2 := by
  intro A B TA TB a0 a1 a2 b0 b1 b2 hTA hTB
  obtain ⟨TA0, hTA0, _⟩ := applyLocal_ker hF a0 a1 a2
  obtain ⟨TB0, hTB0, _⟩ := applyLocal_ker hF b0 b1 b2
  rw [applyLocal_tabW hF a0 a1 a2 hTA0 hTA B, applyLocal_tabW hF b0 b1 b2 hTB0 hTB A]
  exact hH A B TA0 TB0 a0 a1 a2 b0 b1 b2 hTA0 hTB0

/-! ## the two-site sweep invariant -/

/-- the sweep invariant with window `(i, i+1)` -/
structure Canon2 (H : MPO 𝕜) (qd : List Int) (s : Sweep 𝕜) (i : Nat) : Prop where
  wf : SweepWf qd H.A.length s
  sizeBL : s.BL.size = H.A.length
  sizeBR : s.BR.size = H.A.length
  hi : i + 1 < H.A.length
  q0 : (getQ s 0).length = 1
  qL : (getQ s H.A.length).length = 1
  liso : ∀ j, j < i → LeftIso (getA s j)
  riso : ∀ j, i + 1 < j → j < H.A.length → RightIso (getA s j)
  bl : ∀ j, j ≤ i → IsLeftBlock (cur qd s) H qd.length j (getBL s j)
  br : ∀ j, i + 1 ≤ j → j < H.A.length → IsRightBlock (cur qd s) H qd.length (j + 1) (getBR s j)

variable {H : MPO 𝕜} {qd : List Int} {s : Sweep 𝕜} {i : Nat}

omit [DecidableEq 𝕜] in
theorem Canon.toTwoL (h : Canon H qd s i) (hi : i + 1 < H.A.length) : Canon2 H qd s i :=
  ⟨h.wf, h.sizeBL, h.sizeBR, hi, h.q0, h.qL, h.liso, fun j hj hj' => h.riso j (by omega) hj', h.bl,
    fun j hj hj' => h.br j (by omega) hj'⟩

omit [DecidableEq 𝕜] in
theorem Canon.toTwoR (h : Canon H qd s (i + 1)) : Canon2 H qd s i :=
  ⟨h.wf, h.sizeBL, h.sizeBR, h.hc, h.q0, h.qL, fun j hj => h.liso j (by omega), h.riso,
    fun j hj => h.bl j (by omega), h.br⟩

omit [DecidableEq 𝕜] in
theorem Canon2.shaped (h : Canon2 H qd s i) : C04.MPS.Shaped (cur qd s) qd.length :=
  shaped_cur h.wf (by have := h.hi; omega) h.q0 h.qL

omit [DecidableEq 𝕜] in
theorem Canon2.bond (h : Canon2 H qd s i) {j : Nat} (hj : j ≤ H.A.length) :
    mpsBond (cur qd s) j = (getQ s j).length :=
  mpsBond_cur h.wf (by have := h.hi; omega) h.q0 h.qL hj

omit [DecidableEq 𝕜] in
theorem Canon2.len (h : Canon2 H qd s i) : (cur qd s).A.length = H.A.length := by rw [cur_length, h.wf.sizeA]

omit [DecidableEq 𝕜] in
theorem getD_some {β : Type} (l : List β) {j : Nat} (hj : j < l.length) (d : β) : l[j]? = some (l.getD j d) := by
  rw [List.getD_eq_getElem?_getD, List.getElem?_eq_getElem hj]; rfl

/-- the merged operator tensor of the window, as the model builds it -/
def mergedW (H : MPO 𝕜) (i : Nat) : T4 𝕜 := (MPO.mergePair (H.A.getD i zeroT4) (H.A.getD (i + 1) zeroT4)).tab

/-- the merged state tensor of the window, as the model builds it -/
def mergedA (s : Sweep 𝕜) (i : Nat) : T3 𝕜 := (MPS.mergePair (getA s i) (getA s (i + 1))).tab

/-- the two-site effective operator of the window is well-dimensioned and Hermitian -/
theorem canon2_local (h : Canon2 H qd s i) (hH : C04.MPO.Shaped H qd.length)
    (hHerm : C04.MPO.DenseHermitian H qd.length) :
    LocalFits (getBL s i) (getBR s (i + 1)) (mergedW H i) (qd.length * qd.length) (getQ s i).length
      (getQ s (i + 2)).length ∧
    LocalHermitian (getBL s i) (getBR s (i + 1)) (mergedW H i) (qd.length * qd.length) (getQ s i).length
      (getQ s (i + 2)).length := by
  have hi := h.hi
  have hi' : i + 1 < (cur qd s).A.length := by rw [h.len]; exact hi
  have b1 := h.bond (j := i) (by omega)
  have b2 := h.bond (j := i + 2) (by omega)
  obtain ⟨hF, hHm⟩ := two_of_blocks h.shaped hH h.len hHerm hi' (getD_some H.A (by omega) zeroT4)
    (getD_some H.A hi zeroT4) (h.bl i (Nat.le_refl i)) (h.br (i + 1) (Nat.le_refl _) hi)
  rw [b1, b2] at hF hHm
  exact ⟨localFits_tab hF, localHermitian_tab hF hHm⟩

/-- **norm and energy in a two-site window**: for every two-site tensor `X` of the shape of the window -/
theorem canon2_centre (h : Canon2 H qd s i) (hH : C04.MPO.Shaped H qd.length) {X : T3 𝕜}
    (hX : X.d0 = qd.length * qd.length ∧ X.d1 = (getQ s i).length ∧ X.d2 = (getQ s (i + 2)).length) :
    normSq2 (cur qd s) qd.length i X = ((frob3 X : ℝ) : 𝕜) ∧
    ∀ T, Op.applyLocalHamiltonian (getBL s i) (getBR s (i + 1)) (mergedW H i) X = .ok T →
      energy2 (cur qd s) H qd.length i X = inner3 X T := by
  have hi := h.hi
  have hi' : i + 1 < (cur qd s).A.length := by rw [h.len]; exact hi
  have b1 := h.bond (j := i) (by omega)
  have b2 := h.bond (j := i + 2) (by omega)
  obtain ⟨x0, x1, x2⟩ := hX
  constructor
  · unfold normSq2
    rw [two_mixed_inner h.shaped hi' (fun j hj => by rw [cur_getD]; exact h.liso j hj)
      (fun j hj hj' => by rw [cur_getD]; exact h.riso j hj (by rw [h.len] at hj'; exact hj'))
      (x1.trans b1.symm) (x2.trans b2.symm) (x1.trans b1.symm) (x2.trans b2.symm), ← inner3_self]
    unfold inner3
    rw [x0, x1, x2, b1, b2]
    rfl
  · intro T hT
    obtain ⟨T0, hT0, t0, t1, t2, e⟩ := C04.two_site_projection h.shaped hH h.len hi'
      (getD_some H.A (by omega) zeroT4) (getD_some H.A hi zeroT4) (A2 := X) (B2 := X) x0 (x1.trans b1.symm)
      (x2.trans b2.symm) x0 (x1.trans b1.symm) (x2.trans b2.symm) (h.bl i (Nat.le_refl i))
      (h.br (i + 1) (Nat.le_refl _) hi)
    have hF : LocalFits (getBL s i) (getBR s (i + 1))
        (MPO.mergePair (H.A.getD i zeroT4) (H.A.getD (i + 1) zeroT4)) X.d0 X.d1 X.d2 :=
      localFits_of_ok hT0 (t0.trans x0.symm) (t1.trans (b1.trans x1.symm)) (t2.trans (b2.trans x2.symm))
    rw [show inner3 X T = inner3 X T0 from applyLocal_tabW hF rfl rfl rfl hT0 hT X]
    unfold energy2
    rw [← e]
    unfold inner3
    rw [t0, t1, t2]
    rfl

/-- the current state is the merged pair inserted into the window -/
theorem canon2_amp (h : Canon2 H qd s i) {σ : List Nat} (hσ : σ ∈ digitsU qd.length H.A.length) :
    ampTwo (cur qd s) qd.length i (mergedA s i) σ = (cur qd s).amp σ := by
  have hi := h.hi
  have hi' : i + 1 < (cur qd s).A.length := by rw [h.len]; exact hi
  have hσ' : σ ∈ digitsU qd.length (cur qd s).A.length := by rw [h.len]; exact hσ
  rw [← C04.merge_dense_mps h.shaped hi' (cur_getElem? qd s (by rw [h.wf.sizeA]; omega))
    (cur_getElem? qd s (by rw [h.wf.sizeA]; omega)) hσ']
  refine ampTwo_congr (T3Eqv.tab _) ?_ (digitsU_window hi hσ).1 (digitsU_window hi hσ).2
  show (getA s i).d0 * (getA s (i + 1)).d0 = _
  rw [(h.wf.shape i (by omega)).1, (h.wf.shape (i + 1) hi).1]

/-- norm and energy of the current state through the window -/
theorem canon2_cur (h : Canon2 H qd s i) :
    normSq (cur qd s) qd.length = normSq2 (cur qd s) qd.length i (mergedA s i) ∧
    energy (cur qd s) H qd.length = energy2 (cur qd s) H qd.length i (mergedA s i) := by
  have e : ∀ σ ∈ digitsU qd.length (cur qd s).A.length,
      (cur qd s).amp σ = ampTwo (cur qd s) qd.length i (mergedA s i) σ := fun σ hσ =>
    (canon2_amp h (by rw [← h.len]; exact hσ)).symm
  unfold normSq normSq2 energy energy2
  constructor
  · exact sum_congr rfl fun σ hσ => by rw [e σ hσ]
  · exact sum_congr rfl fun σ hσ => sum_congr rfl fun τ hτ => by rw [e σ hσ, e τ hτ]

omit [DecidableEq 𝕜] in
theorem mergedA_dims (h : Canon2 H qd s i) :
    (mergedA s i).d0 = qd.length * qd.length ∧ (mergedA s i).d1 = (getQ s i).length ∧
      (mergedA s i).d2 = (getQ s (i + 2)).length := by
  have hi := h.hi
  obtain ⟨a0, a1, _⟩ := h.wf.shape i (by omega)
  obtain ⟨b0, _, b2⟩ := h.wf.shape (i + 1) hi
  refine ⟨?_, a1, b2⟩
  show (getA s i).d0 * (getA s (i + 1)).d0 = _
  rw [a0, b0]

/-! ## replacing the pair of the window -/

/-- **Replacing the pair of the window** by tensors `(X', Y')` with a new bond between them keeps the window invariant, and
the new amplitudes are those of the merged pair inserted into the old state. -/
theorem canon2_update (h : Canon2 H qd s i) {X' Y' : T3 𝕜} {qb : List Int}
    (hX' : X'.d0 = qd.length ∧ X'.d1 = (getQ s i).length ∧ X'.d2 = qb.length)
    (hY' : Y'.d0 = qd.length ∧ Y'.d1 = qb.length ∧ Y'.d2 = (getQ s (i + 2)).length) (hq : 0 < qb.length) :
    Canon2 H qd (⟨(s.A.setIfInBounds i X').setIfInBounds (i + 1) Y', s.qD.setIfInBounds (i + 1) qb, s.BL, s.BR⟩ :
      Sweep 𝕜) i ∧
    ∀ σ, σ ∈ digitsU qd.length H.A.length →
      (cur qd (⟨(s.A.setIfInBounds i X').setIfInBounds (i + 1) Y', s.qD.setIfInBounds (i + 1) qb, s.BL, s.BR⟩ :
        Sweep 𝕜)).amp σ = ampTwo (cur qd s) qd.length i (MPS.mergePair X' Y') σ := by
  set s' : Sweep 𝕜 := ⟨(s.A.setIfInBounds i X').setIfInBounds (i + 1) Y', s.qD.setIfInBounds (i + 1) qb, s.BL, s.BR⟩
    with hs'
  have hc1 := h.hi
  have hL : 0 < H.A.length := by omega
  have hA : ∀ m, getA s' m = if m = i then X' else if m = i + 1 then Y' else getA s m := by
    intro m
    show ((s.A.setIfInBounds i _).setIfInBounds (i + 1) _).getD m emptyT3 = _
    rw [getD_setIfInBounds, getD_setIfInBounds, Array.size_setIfInBounds, h.wf.sizeA]
    by_cases h1 : m = i
    · subst h1; rw [if_neg (by omega), if_pos ⟨rfl, by omega⟩, if_pos rfl]
    · rw [if_neg h1]
      by_cases h2 : m = i + 1
      · rw [if_pos ⟨h2, hc1⟩, if_pos h2]
      · rw [if_neg (fun hh => h2 hh.1), if_neg (fun hh => h1 hh.1), if_neg h2]; rfl
  have hQ : ∀ m, getQ s' m = if m = i + 1 then qb else getQ s m := by
    intro m
    show (s.qD.setIfInBounds (i + 1) qb).getD m [] = _
    rw [getD_setIfInBounds, h.wf.sizeQ]
    by_cases h2 : m = i + 1
    · rw [if_pos ⟨h2, by omega⟩, if_pos h2]
    · rw [if_neg (fun hh => h2 hh.1), if_neg h2]; rfl
  have hwf : SweepWf qd H.A.length s' :=
    wf_update_pair h.wf hc1 (by simp [hs', h.wf.sizeA]) (by simp [hs', h.wf.sizeQ]) hA hQ hX' hY' hq
  have hq0 : (getQ s' 0).length = 1 := by rw [hQ, if_neg (by omega)]; exact h.q0
  have hqL : (getQ s' H.A.length).length = 1 := by rw [hQ, if_neg (by omega)]; exact h.qL
  have hsh' := shaped_cur hwf hL hq0 hqL
  have hlen' : (cur qd s').A.length = H.A.length := by rw [cur_length, hwf.sizeA]
  have hcurA : (cur qd s').A = ((cur qd s).A.set i X').set (i + 1) Y' := by simp [cur, hs']
  have hcan : Canon2 H qd s' i := by
    refine ⟨hwf, h.sizeBL, h.sizeBR, hc1, hq0, hqL, ?_, ?_, ?_, ?_⟩
    · intro j hj
      rw [hA, if_neg (by omega), if_neg (by omega)]; exact h.liso j hj
    · intro j hj hj'
      rw [hA, if_neg (by omega), if_neg (by omega)]; exact h.riso j hj hj'
    · intro j hj
      show IsLeftBlock (cur qd s') H qd.length j (getBL s j)
      refine isLeftBlock_congr ?_ (by rw [h.len]; omega) (by rw [hlen']; omega) (h.bl j hj)
      rw [hcurA, List.take_set_of_le (by omega), List.take_set_of_le hj]
    · intro j hj hj'
      show IsRightBlock (cur qd s') H qd.length (j + 1) (getBR s j)
      refine isRightBlock_congr ?_ (by rw [hlen', h.len]) ?_ (h.br j hj hj')
      · rw [hcurA, List.drop_set_of_lt (by omega), List.drop_set_of_lt (by omega)]
      · rw [mpsBond_cur hwf hL hq0 hqL (show j + 1 ≤ H.A.length by omega), h.bond (show j + 1 ≤ H.A.length by omega),
          hQ, if_neg (by omega)]
  refine ⟨hcan, ?_⟩
  intro σ hσ
  have hσ' : σ ∈ digitsU qd.length (cur qd s').A.length := by rw [hlen']; exact hσ
  have g0 : (cur qd s').A[i]? = some X' := by
    rw [cur_getElem? qd s' (by rw [hwf.sizeA]; omega), hA, if_pos rfl]
  have g1 : (cur qd s').A[i + 1]? = some Y' := by
    rw [cur_getElem? qd s' (by rw [hwf.sizeA]; omega), hA, if_neg (by omega), if_pos rfl]
  rw [← C04.merge_dense_mps hsh' (by rw [hlen']; exact hc1) g0 g1 hσ']
  refine ampTwo_outside ?_ ?_ _ _
  · rw [hcurA, List.take_set_of_le (by omega), List.take_set_of_le (Nat.le_refl i)]
  · rw [hcurA, List.drop_set_of_lt (by omega), List.drop_set_of_lt (by omega)]

/-! ## back to the one-site invariant -/

/-- after a split with the singular values on the right: store the new left block, the centre is `i+1` -/
theorem Canon2.toL (h : Canon2 H qd s i) (hH : C04.MPO.Shaped H qd.length) (hiso : LeftIso (getA s i)) {BLn : T3 𝕜}
    (hBL : Op.opStepLeft (getA s i) (getA s i) (H.A.getD i zeroT4) (getBL s i) = .ok BLn) :
    Canon H qd (⟨s.A, s.qD, s.BL.setIfInBounds (i + 1) BLn, s.BR⟩ : Sweep 𝕜) (i + 1) := by
  have hi := h.hi
  have hBLg : ∀ m, getBL (⟨s.A, s.qD, s.BL.setIfInBounds (i + 1) BLn, s.BR⟩ : Sweep 𝕜) m =
      if m = i + 1 then BLn else getBL s m := by
    intro m
    show (s.BL.setIfInBounds (i + 1) BLn).getD m emptyT3 = _
    rw [getD_setIfInBounds, h.sizeBL]
    by_cases h2 : m = i + 1
    · rw [if_pos ⟨h2, by omega⟩, if_pos h2]
    · rw [if_neg (fun hh => h2 hh.1), if_neg h2]; rfl
  refine ⟨⟨h.wf.sizeA, h.wf.sizeQ, h.wf.qpos, h.wf.shape⟩, by simp [h.sizeBL], h.sizeBR, hi, h.q0, h.qL, ?_, h.riso, ?_,
    h.br⟩
  · intro j hj
    by_cases h1 : j = i
    · subst h1; exact hiso
    · exact h.liso j (by omega)
  · intro j hj
    show IsLeftBlock (cur qd s) H qd.length j _
    rw [hBLg]
    by_cases h1 : j = i + 1
    · subst h1
      rw [if_pos rfl]
      obtain ⟨T, hT, hTb⟩ := C04.left_step_dense h.shaped hH h.len (i := i) (by rw [h.len]; omega)
        (cur_getElem? qd s (by rw [h.wf.sizeA]; omega)) (getD_some H.A (by omega) zeroT4) (h.bl i (Nat.le_refl i))
      have : T = BLn := Except.ok.inj (hT.symm.trans hBL)
      rw [← this]; exact hTb
    · rw [if_neg h1]; exact h.bl j (by omega)

/-- after a split with the singular values on the left: store the new right block, the centre is `i` -/
theorem Canon2.toR (h : Canon2 H qd s i) (hH : C04.MPO.Shaped H qd.length) (hiso : RightIso (getA s (i + 1)))
    {BRn : T3 𝕜}
    (hBR : Op.opStepRight (getA s (i + 1)) (getA s (i + 1)) (H.A.getD (i + 1) zeroT4) (getBR s (i + 1)) = .ok BRn) :
    Canon H qd (⟨s.A, s.qD, s.BL, s.BR.setIfInBounds i BRn⟩ : Sweep 𝕜) i := by
  have hi := h.hi
  have hBRg : ∀ m, getBR (⟨s.A, s.qD, s.BL, s.BR.setIfInBounds i BRn⟩ : Sweep 𝕜) m =
      if m = i then BRn else getBR s m := by
    intro m
    show (s.BR.setIfInBounds i BRn).getD m emptyT3 = _
    rw [getD_setIfInBounds, h.sizeBR]
    by_cases h2 : m = i
    · rw [if_pos ⟨h2, by omega⟩, if_pos h2]
    · rw [if_neg (fun hh => h2 hh.1), if_neg h2]; rfl
  refine ⟨⟨h.wf.sizeA, h.wf.sizeQ, h.wf.qpos, h.wf.shape⟩, h.sizeBL, by simp [h.sizeBR], by omega, h.q0, h.qL, h.liso,
    ?_, h.bl, ?_⟩
  · intro j hj hj'
    by_cases h1 : j = i + 1
    · subst h1; exact hiso
    · exact h.riso j (by omega) hj'
  · intro j hj hj'
    show IsRightBlock (cur qd s) H qd.length (j + 1) _
    rw [hBRg]
    by_cases h1 : j = i
    · subst h1
      rw [if_pos rfl]
      obtain ⟨T, hT, hTb⟩ := right_step_dense h.shaped hH h.len (i := j + 1) (by rw [h.len]; omega)
        (cur_getElem? qd s (by rw [h.wf.sizeA]; omega)) (getD_some H.A hi zeroT4) (h.br (j + 1) (Nat.le_refl _) hi)
      have : T = BRn := Except.ok.inj (hT.symm.trans hBR)
      rw [← this]; exact hTb
    · rw [if_neg h1]; exact h.br j (by omega) hj'

end Ptn.Evo

import PtnModel.Proofs.OgDict
import PtnModel.Proofs.ChainPartition
/-!
# `simplify` only removes nodes and edges

`Shrinks g' g`: the node ids of `g'` are a sublist of the node ids of `g` (same order, nothing new, nothing renamed) and
likewise for the edge ids.  `merge_edges` shrinks, hence `_simplify_step`, the two directional loops and `simplify` shrink.
Consequently, for every assignment of the node ids to layers, no layer gains a node under `simplify`.
-/
set_option linter.unusedSectionVars false
set_option linter.unusedSimpArgs false

namespace Ptn.Ham
open Ptn Ptn.Og Ptn.Og.Rw Ptn.Ch List

variable {κ : Type} [CommRing κ] [DecidableEq κ]

/-- node ids and edge ids of `g'` are sublists of those of `g` -/
def Shrinks (g' g : Graph κ) : Prop :=
  (dKeys g'.nodes).Sublist (dKeys g.nodes) ∧ (dKeys g'.edges).Sublist (dKeys g.edges)

theorem Shrinks.refl (g : Graph κ) : Shrinks g g := ⟨Sublist.refl _, Sublist.refl _⟩

theorem Shrinks.trans {a b c : Graph κ} (h1 : Shrinks a b) (h2 : Shrinks b c) : Shrinks a c :=
  ⟨h1.1.trans h2.1, h1.2.trans h2.2⟩

theorem dKeys_sublist_dErase {β : Type} (d : List (Int × β)) (k : Int) : (dKeys (dErase d k)).Sublist (dKeys d) :=
  (dErase_sublist d k).map _

theorem modifyNode_shrinks (g g' : Graph κ) (k : Int) (f : Node → Except Err Node)
    (h : g.modifyNode k f = .ok g') : Shrinks g' g := by
  unfold Graph.modifyNode at h
  simp only [bind_ok_iff, pure_ok_iff] at h
  obtain ⟨n, _, n', _, rfl⟩ := h
  exact ⟨by simp [dKeys_dReplace], Sublist.refl _⟩

theorem modifyEdge_shrinks (g g' : Graph κ) (k : Int) (f : Edge κ → Except Err (Edge κ))
    (h : g.modifyEdge k f = .ok g') : Shrinks g' g := by
  unfold Graph.modifyEdge at h
  simp only [bind_ok_iff, pure_ok_iff] at h
  obtain ⟨n, _, n', _, rfl⟩ := h
  exact ⟨Sublist.refl _, by simp [dKeys_dReplace]⟩

theorem removeEdge_shrinks (g g' : Graph κ) (k : Int) (e : Edge κ)
    (h : g.removeEdge k = .ok (e, g')) : Shrinks g' g := by
  unfold Graph.removeEdge at h
  simp only [bind_ok_iff, pure_ok_iff] at h
  obtain ⟨⟨e', es⟩, hp, h⟩ := h
  simp only [Prod.mk.injEq] at h
  obtain ⟨_, rfl⟩ := h
  obtain ⟨_, rfl⟩ := dPop_eq_ok.1 hp
  exact ⟨Sublist.refl _, dKeys_sublist_dErase _ _⟩

theorem removeNode_shrinks (g g' : Graph κ) (k : Int) (n : Node)
    (h : g.removeNode k = .ok (n, g')) : Shrinks g' g := by
  unfold Graph.removeNode at h
  simp only [bind_ok_iff, pure_ok_iff] at h
  obtain ⟨⟨n', ns⟩, hp, h⟩ := h
  simp only [Prod.mk.injEq] at h
  obtain ⟨_, rfl⟩ := h
  obtain ⟨_, rfl⟩ := dPop_eq_ok.1 hp
  exact ⟨dKeys_sublist_dErase _ _, Sublist.refl _⟩

theorem foldlM_shrinks {α : Type} (f : Graph κ → α → Except Err (Graph κ))
    (hf : ∀ g a g', f g a = .ok g' → Shrinks g' g) :
    ∀ (l : List α) (g g' : Graph κ), l.foldlM f g = .ok g' → Shrinks g' g := by
  intro l
  induction l with
  | nil =>
    intro g g' h
    simp only [foldlM_nil, pure_ok_iff] at h
    subst h
    exact Shrinks.refl _
  | cons a l ih =>
    intro g g' h
    simp only [foldlM_cons, bind_ok_iff] at h
    obtain ⟨g1, h1, h2⟩ := h
    exact (ih g1 g' h2).trans (hf g a g1 h1)

/-- `merge_edges` removes one edge and possibly one node; nothing is added or renamed -/
theorem mergeEdges_shrinks (g g' : Graph κ) (eid1 eid2 : Int) (d : Bool)
    (h : g.mergeEdges eid1 eid2 d = .ok g') : Shrinks g' g := by
  unfold Graph.mergeEdges at h
  simp only [bind_ok_iff, pure_ok_iff] at h
  obtain ⟨edge1, _, ⟨edge2, g1⟩, hr, _, _, g2, hm, h⟩ := h
  have s1 := removeEdge_shrinks g g1 eid2 edge2 hr
  have s2 := modifyNode_shrinks g1 g2 _ _ hm
  split at h
  · simp only [bind_ok_iff, pure_ok_iff] at h
    obtain ⟨e1, _, hm2⟩ := h
    have s3 := modifyNode_shrinks _ g' _ _ hm2
    refine s3.trans (Shrinks.trans ?_ (s2.trans s1))
    exact ⟨Sublist.refl _, by simp [dKeys_dReplace]⟩
  · simp only [bind_ok_iff, pure_ok_iff] at h
    obtain ⟨_, _, _, _, node1, _, ⟨node2, g3⟩, hrn, _, _, _, _, _, _, _, _, g4, hf, hm3⟩ := h
    have s3 := removeNode_shrinks g2 g3 _ node2 hrn
    have s4 := foldlM_shrinks (fun (g : Graph κ) eid => g.modifyEdge eid (fun e => pure (e.setNid d node1.nid)))
      (fun a b c hc => modifyEdge_shrinks a c b _ hc) _ g3 g4 hf
    have s5 := modifyNode_shrinks g4 g' _ _ hm3
    exact s5.trans (s4.trans (s3.trans (s2.trans s1)))

theorem simplifyWalk_shrinks (d : Bool) : ∀ (fuel : Nat) (g : Graph κ) (nids : List Int) (g' : Graph κ),
    g.simplifyWalk d fuel nids = .ok (some g') → Shrinks g' g := by
  intro fuel
  induction fuel with
  | zero => intro g nids g' h; simp [Graph.simplifyWalk] at h
  | succ fuel ih =>
    intro g nids g' h
    unfold Graph.simplifyWalk at h
    simp only [bind_ok_iff] at h
    obtain ⟨r, _, h⟩ := h
    split at h
    · simp only [bind_ok_iff, pure_ok_iff] at h
      obtain ⟨g1, hm, hg⟩ := h
      simp only [Option.some.injEq] at hg
      subst hg
      exact mergeEdges_shrinks _ _ _ _ _ hm
    · simp only [bind_ok_iff] at h
      obtain ⟨nids1, _, h⟩ := h
      split at h
      · simp [pure, Except.pure] at h
      · exact ih g nids1 g' h

theorem simplifyDir_shrinks (d : Bool) : ∀ (fuel : Nat) (g : Graph κ) (c : Bool) (g' : Graph κ) (c' : Bool),
    Graph.simplifyDir d fuel g c = .ok (g', c') → Shrinks g' g := by
  intro fuel
  induction fuel with
  | zero => intro g c g' c' h; simp [Graph.simplifyDir] at h
  | succ fuel ih =>
    intro g c g' c' h
    unfold Graph.simplifyDir at h
    simp only [bind_ok_iff] at h
    obtain ⟨r, hr, h⟩ := h
    cases r with
    | none =>
      simp only [pure_ok_iff, Prod.mk.injEq] at h
      obtain ⟨rfl, _⟩ := h
      exact Shrinks.refl _
    | some g1 =>
      simp only at h
      exact (ih g1 true g' c' h).trans (simplifyWalk_shrinks d _ g _ g1 hr)

theorem simplifyLoop_shrinks : ∀ (fuel : Nat) (g g' : Graph κ), Graph.simplifyLoop fuel g = .ok g' → Shrinks g' g := by
  intro fuel
  induction fuel with
  | zero => intro g g' h; simp [Graph.simplifyLoop] at h
  | succ fuel ih =>
    intro g g' h
    unfold Graph.simplifyLoop at h
    simp only [bind_ok_iff] at h
    obtain ⟨⟨g0, c0⟩, h0, ⟨g1, c1⟩, h1, h⟩ := h
    have s0 := simplifyDir_shrinks false _ g false g0 c0 h0
    have s1 := simplifyDir_shrinks true _ g0 false g1 c1 h1
    split at h
    · exact (ih g1 g' h).trans (s1.trans s0)
    · simp only [pure_ok_iff] at h
      subst h
      exact s1.trans s0

/-- **`simplify` never creates or renames a node or an edge**: the ids after `simplify` are sublists of the ids before. -/
theorem simplify_shrinks (g g' : Graph κ) (h : g.simplify = .ok g') : Shrinks g' g :=
  simplifyLoop_shrinks _ g g' h

/-- for every layer assignment `lev` of the node ids, no layer has more nodes after `simplify` than before -/
theorem simplify_layer_count (g g' : Graph κ) (h : g.simplify = .ok g') (lev : Int → Nat) (l : Nat) :
    ((dKeys g'.nodes).filter fun nid => lev nid == l).length ≤ ((dKeys g.nodes).filter fun nid => lev nid == l).length :=
  ((simplify_shrinks g g' h).1.filter _).length_le

end Ptn.Ham

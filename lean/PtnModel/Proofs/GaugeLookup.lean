import Mathlib.Tactic.IntervalCases
import PtnModel.Proofs.GaugeSide
import PtnModel.Proofs.HamMolLookup
/-!
# Gauge transform: the look-ups in the node tables and in `nid_map`

* membership tests: `famHas f key k` holds iff the key view `famKeys f` has an entry for `key` whose inner keys contain `k`; then
  `f[key][k]` is defined (`famHas_get2`);
* families created from a specification (`single_*`, `pair_*`): membership is equivalent to the index conditions of `__init__`;
* node ids: a successful look-up `tables[a][key][k]` determines `(a, key, k)` -- different table entries carry different node ids,
  for every `L` (`get2_inj`, from `molNodes_ids_nodup`);
* the bookkeeping predicate `GaugeH.wf`: every table node has a `nid_map` entry on its bond, below the bond dimension, and different
  node ids on one bond sit at different indices (`tabCol_of_wf`, `tabCol_inj`).
-/
set_option linter.unusedSectionVars false

namespace Ptn.Ham.Gauge
open Ptn.Og List

/-! ## generic look-up facts -/

theorem lookup_mem {κ β : Type} [BEq κ] [LawfulBEq κ] : ∀ (l : List (κ × β)) (k : κ) (v : β), l.lookup k = some v → (k, v) ∈ l := by
  intro l
  induction l with
  | nil => intro k v h; simp at h
  | cons p l ih =>
    intro k v h
    obtain ⟨a, b⟩ := p
    simp only [List.lookup] at h
    cases hk : (k == a) with
    | true =>
      rw [hk] at h
      simp only [Option.some.injEq] at h
      have : k = a := by simpa using hk
      subst this; subst h
      exact List.mem_cons_self
    | false =>
      rw [hk] at h
      exact List.mem_cons_of_mem _ (ih k v h)

theorem dHas_iff {β : Type} (d : List (Int × β)) (k : Int) : dHas d k = true ↔ k ∈ d.map (·.1) := by
  unfold dHas
  induction d with
  | nil => simp
  | cons p d ih =>
    obtain ⟨a, b⟩ := p
    simp only [List.lookup, List.map_cons, List.mem_cons]
    cases hk : (k == a) with
    | true =>
      have : k = a := by simpa using hk
      simp [this]
    | false =>
      have : k ≠ a := by simpa using hk
      simp only [this, false_or]
      exact ih

/-- the membership tests of the Python text in terms of the key view -/
theorem famHas_iff (f : Fam) (key : List Int) (k : Int) :
    famHas f key k = true ↔ ∃ ks, (famKeys f).lookup key = some ks ∧ k ∈ ks := by
  unfold famHas famKeys
  rw [lookup_map_snd (fun (d : List (Int × Node)) => d.map (·.1)) f key]
  cases hl : f.lookup key with
  | none => simp
  | some d =>
    simp only [Option.map_some, Option.some.injEq, exists_eq_left']
    exact dHas_iff d k

/-- `fam[key][k]` is defined when the key view says so -/
theorem get2_of_keys (f : Fam) (key ks : List Int) (k : Int) (h : (famKeys f).lookup key = some ks) (hk : k ∈ ks) :
    ∃ nd, f.get2 key k = .ok nd := by
  obtain ⟨h1, h2⟩ := fam_rules f key ks h
  refine ⟨nodeOf (innerOf f key) k, ?_⟩
  unfold Fam.get2
  rw [h1]
  exact h2 k hk

theorem famHas_get2 (f : Fam) (key : List Int) (k : Int) (h : famHas f key k = true) : ∃ nd, f.get2 key k = .ok nd := by
  obtain ⟨ks, h1, h2⟩ := (famHas_iff f key k).1 h
  exact get2_of_keys f key ks k h1 h2

/-- a successful double look-up finds a member of the table -/
theorem get2_mem (f : Fam) (key : List Int) (k : Int) (nd : Node) (h : f.get2 key k = .ok nd) :
    ∃ d, (key, d) ∈ f ∧ (k, nd) ∈ d := by
  unfold Fam.get2 Fam.get at h
  cases hl : f.lookup key with
  | none => rw [hl] at h; cases h
  | some d =>
    rw [hl] at h
    refine ⟨d, lookup_mem f key d hl, ?_⟩
    have h' : dGet d k = .ok nd := h
    unfold dGet at h'
    cases hd : d.lookup k with
    | none => rw [hd] at h'; cases h'
    | some x =>
      rw [hd] at h'
      cases h'
      exact lookup_mem d k nd hd

/-! ## families created from a specification -/

theorem single_has (f : Fam) (A : List Int) (R : Int → List Int) (q : Int → Int)
    (hf : famKeys f = specKeys (A.map fun x => ([x], R x, q x))) (key : List Int) (k : Int) (h : famHas f key k = true) :
    ∃ x ∈ A, key = [x] ∧ k ∈ R x := by
  obtain ⟨ks, h1, h2⟩ := (famHas_iff f key k).1 h
  rw [hf] at h1
  have hm := lookup_mem _ _ _ h1
  simp only [specKeys, List.map_map, List.mem_map, Function.comp] at hm
  obtain ⟨x, hx, e⟩ := hm
  simp only [Prod.mk.injEq] at e
  exact ⟨x, hx, e.1.symm, e.2 ▸ h2⟩

theorem single_get2 (f : Fam) (A : List Int) (R : Int → List Int) (q : Int → Int)
    (hf : famKeys f = specKeys (A.map fun x => ([x], R x, q x))) (x k : Int) (hx : x ∈ A) (hk : k ∈ R x) :
    ∃ nd, f.get2 [x] k = .ok nd :=
  get2_of_keys f [x] (R x) k (by rw [hf]; exact single_lookup A R q x hx) hk

theorem pair_has (f : Fam) (A : List Int) (B : Int → List Int) (R : Int → Int → List Int) (q : Int → Int → Int)
    (hf : famKeys f = specKeys (A.flatMap fun x => (B x).map fun y => ([x, y], R x y, q x y))) (key : List Int) (k : Int)
    (h : famHas f key k = true) :
    ∃ x ∈ A, ∃ y ∈ B x, key = [x, y] ∧ k ∈ R x y := by
  obtain ⟨ks, h1, h2⟩ := (famHas_iff f key k).1 h
  rw [hf] at h1
  have hm := lookup_mem _ _ _ h1
  simp only [specKeys, List.mem_map, List.mem_flatMap] at hm
  obtain ⟨s, ⟨x, hx, y, hy, rfl⟩, e⟩ := hm
  simp only [Prod.mk.injEq] at e
  exact ⟨x, hx, y, hy, e.1.symm, e.2 ▸ h2⟩

theorem pair_get2 (f : Fam) (A : List Int) (B : Int → List Int) (R : Int → Int → List Int) (q : Int → Int → Int)
    (hf : famKeys f = specKeys (A.flatMap fun x => (B x).map fun y => ([x, y], R x y, q x y))) (x y k : Int)
    (hx : x ∈ A) (hy : y ∈ B x) (hk : k ∈ R x y) :
    ∃ nd, f.get2 [x, y] k = .ok nd :=
  get2_of_keys f [x, y] (R x y) k (by rw [hf]; exact pair_lookup A B R q x y hx hy) hk

/-! ## different table entries carry different node ids -/

/-- the entries of a table with the table index: `(a, outer key, inner key, node id)` -/
def tagged (a : Nat) (f : Fam) : List (Nat × List Int × Int × Int) :=
  f.flatMap fun e => e.2.map fun kn => (a, e.1, kn.1, kn.2.nid)

theorem tagged_ids (a : Nat) (f : Fam) : (tagged a f).map (·.2.2.2) = famIds f := by
  unfold tagged famIds Fam.nodes
  induction f with
  | nil => rfl
  | cons e f ih =>
    simp only [List.flatMap_cons, List.map_append, ih, List.map_map]
    rfl

theorem get2_mem_tagged (a : Nat) (f : Fam) (key : List Int) (k : Int) (nd : Node) (h : f.get2 key k = .ok nd) :
    (a, key, k, nd.nid) ∈ tagged a f := by
  obtain ⟨d, h1, h2⟩ := get2_mem f key k nd h
  simp only [tagged, List.mem_flatMap, List.mem_map]
  exact ⟨(key, d), h1, (k, nd), h2, rfl⟩

/-- all table entries in the order of the graph's node list; the index is the position in `GaugeH.tables` -/
def allTagged (n : MolNodes) : List (Nat × List Int × Int × Int) :=
  tagged 0 n.aDagL ++ (tagged 1 n.aAnnL ++ (tagged 5 n.aDagR ++ (tagged 6 n.aAnnR ++ (tagged 2 n.aDagADagL ++
    (tagged 3 n.aAnnAAnnL ++ (tagged 4 n.aDagAAnnL ++ (tagged 7 n.aDagADagR ++ (tagged 8 n.aAnnAAnnR ++ tagged 9 n.aDagAAnnR))))))))

theorem allTagged_nodup (L : Int) : ((allTagged (MolNodes.init L)).map (·.2.2.2)).Nodup := by
  have h := molNodes_ids_nodup L
  have e : (MolNodes.init L).nodeList.map (·.nid)
      = ((MolNodes.init L).identityL.map (·.2)).map (·.nid) ++ (((MolNodes.init L).identityR.map (·.2)).map (·.nid) ++
        (allTagged (MolNodes.init L)).map (·.2.2.2)) := by
    simp only [MolNodes.nodeList, allTagged, List.map_append, List.append_assoc, tagged_ids, famIds]
  rw [e] at h
  exact (List.nodup_append.1 (List.nodup_append.1 h).2.1).2.1

/-- the ten tables by index -/
def tableAt (n : MolNodes) (a : Nat) : Fam :=
  [n.aDagL, n.aAnnL, n.aDagADagL, n.aAnnAAnnL, n.aDagAAnnL, n.aDagR, n.aAnnR, n.aDagADagR, n.aAnnAAnnR, n.aDagAAnnR].getD a []

theorem get2_nil (key : List Int) (k : Int) (nd : Node) : ¬ (Fam.get2 ([] : Fam) key k = .ok nd) := by
  intro h
  obtain ⟨d, hd, _⟩ := get2_mem _ _ _ _ h
  simp at hd

theorem mem_allTagged (n : MolNodes) (a : Nat) (key : List Int) (k : Int) (nd : Node)
    (h : (tableAt n a).get2 key k = .ok nd) : (a, key, k, nd.nid) ∈ allTagged n := by
  by_cases ha : a < 10
  · unfold allTagged
    simp only [List.mem_append]
    interval_cases a
    · exact Or.inl (get2_mem_tagged _ _ _ _ _ h)
    · exact Or.inr (Or.inl (get2_mem_tagged _ _ _ _ _ h))
    · exact Or.inr (Or.inr (Or.inr (Or.inr (Or.inl (get2_mem_tagged _ _ _ _ _ h)))))
    · exact Or.inr (Or.inr (Or.inr (Or.inr (Or.inr (Or.inl (get2_mem_tagged _ _ _ _ _ h))))))
    · exact Or.inr (Or.inr (Or.inr (Or.inr (Or.inr (Or.inr (Or.inl (get2_mem_tagged _ _ _ _ _ h)))))))
    · exact Or.inr (Or.inr (Or.inl (get2_mem_tagged _ _ _ _ _ h)))
    · exact Or.inr (Or.inr (Or.inr (Or.inl (get2_mem_tagged _ _ _ _ _ h))))
    · exact Or.inr (Or.inr (Or.inr (Or.inr (Or.inr (Or.inr (Or.inr (Or.inl (get2_mem_tagged _ _ _ _ _ h))))))))
    · exact Or.inr (Or.inr (Or.inr (Or.inr (Or.inr (Or.inr (Or.inr (Or.inr (Or.inl (get2_mem_tagged _ _ _ _ _ h)))))))))
    · exact Or.inr (Or.inr (Or.inr (Or.inr (Or.inr (Or.inr (Or.inr (Or.inr (Or.inr (get2_mem_tagged _ _ _ _ _ h)))))))))
  · exfalso
    have e : tableAt n a = [] := by
      unfold tableAt
      rw [List.getD_eq_getElem?_getD, List.getElem?_eq_none (by simp; omega)]
      rfl
    rw [e] at h
    exact get2_nil _ _ _ h

/-- **different table entries carry different node ids, for every `L`** -/
theorem get2_inj (L : Int) (a a' : Nat) (key key' : List Int) (k k' : Int) (nd nd' : Node)
    (h : (tableAt (MolNodes.init L) a).get2 key k = .ok nd) (h' : (tableAt (MolNodes.init L) a').get2 key' k' = .ok nd')
    (e : nd.nid = nd'.nid) : a = a' ∧ key = key' ∧ k = k' := by
  have m := mem_allTagged _ a key k nd h
  have m' := mem_allTagged _ a' key' k' nd' h'
  have := List.inj_on_of_nodup_map (allTagged_nodup L) m m' e
  simp only [Prod.mk.injEq] at this
  exact ⟨this.1, this.2.1, this.2.2.1⟩

/-! ## the bookkeeping predicate -/

theorem tables_eq (h : GaugeH) : h.tables = [h.nodes.aDagL, h.nodes.aAnnL, h.nodes.aDagADagL, h.nodes.aAnnAAnnL, h.nodes.aDagAAnnL,
    h.nodes.aDagR, h.nodes.aAnnR, h.nodes.aDagADagR, h.nodes.aAnnAAnnR, h.nodes.aDagAAnnR] := rfl

theorem tableAt_mem (h : GaugeH) (a : Nat) (ha : a < 10) : tableAt h.nodes a ∈ h.tables := by
  rw [tables_eq]
  unfold tableAt
  rw [List.getD_eq_getElem?_getD, List.getElem?_eq_getElem (by simpa using ha)]
  exact List.getElem_mem _

/-- under `wf`, a defined table entry has a `nid_map` entry on its bond, below the bond dimension -/
theorem tabCol_of_wf (h : GaugeH) (hwf : h.wf = true) (a : Nat) (ha : a < 10) (key : List Int) (k : Int) (nd : Node)
    (hg : (tableAt h.nodes a).get2 key k = .ok nd) :
    ∃ j, h.tabCol (tableAt h.nodes a) key k = .ok j ∧ h.nidMap.lookup nd.nid = some (k.toNat, j) ∧ 0 ≤ k ∧
      j < h.bondDims.getD k.toNat 0 := by
  unfold GaugeH.wf at hwf
  rw [Bool.and_eq_true] at hwf
  have h1 := hwf.1
  rw [List.all_eq_true] at h1
  have h2 := h1 _ (tableAt_mem h a ha)
  rw [List.all_eq_true] at h2
  obtain ⟨d, m1, m2⟩ := get2_mem _ key k nd hg
  have hmem : (k, nd.nid) ∈ (tableAt h.nodes a).entries := by
    simp only [Fam.entries, List.mem_flatMap, List.mem_map]
    exact ⟨(key, d), m1, (k, nd), m2, rfl⟩
  have h3 := h2 _ hmem
  simp only at h3
  cases hl : h.nidMap.lookup nd.nid with
  | none => rw [hl] at h3; cases h3
  | some p =>
    obtain ⟨s, j⟩ := p
    rw [hl] at h3
    simp only [Bool.and_eq_true, decide_eq_true_eq] at h3
    have hs : s = k.toNat := by omega
    refine ⟨j, ?_, ?_, by omega, ?_⟩
    · unfold GaugeH.tabCol GaugeH.col
      rw [hg]
      simp only [hl]
    · rw [hs]
    · rw [← hs]; exact h3.2

/-- under `wf`, two node ids with the same `nid_map` value coincide -/
theorem nidMap_inj (h : GaugeH) (hwf : h.wf = true) (nid nid' : Int) (p : Nat × Nat)
    (e : h.nidMap.lookup nid = some p) (e' : h.nidMap.lookup nid' = some p) : nid = nid' := by
  unfold GaugeH.wf at hwf
  rw [Bool.and_eq_true] at hwf
  have h1 := hwf.2
  rw [List.all_eq_true] at h1
  have h2 := h1 _ (lookup_mem _ _ _ e)
  rw [List.all_eq_true] at h2
  have h3 := h2 _ (lookup_mem _ _ _ e')
  simp only [Bool.or_eq_true, beq_iff_eq, bne_iff_ne, ne_eq, not_true_eq_false, or_false] at h3
  exact h3

/-- a successful `tabCol` comes from a defined table entry -/
theorem tabCol_ok_inv (h : GaugeH) (f : Fam) (key : List Int) (k : Int) (j : Nat) (e : h.tabCol f key k = .ok j) :
    ∃ nd s, f.get2 key k = .ok nd ∧ h.nidMap.lookup nd.nid = some (s, j) := by
  unfold GaugeH.tabCol at e
  cases hg : f.get2 key k with
  | error x => rw [hg] at e; cases e
  | ok nd =>
    rw [hg] at e
    simp only [GaugeH.col] at e
    cases hl : h.nidMap.lookup nd.nid with
    | none => rw [hl] at e; cases e
    | some p =>
      rw [hl] at e
      simp only [Except.ok.injEq] at e
      exact ⟨nd, p.1, rfl, by rw [← e]; exact hl⟩

end Ptn.Ham.Gauge

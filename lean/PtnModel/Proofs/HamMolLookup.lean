import PtnModel.Proofs.HamFamLookup
/-!
# Look-up rules for the node tables of `MolecularOpGraphNodes`

For each of the ten families: `fam[key]` and `fam[key][k]` are defined for keys inside the index ranges of `__init__`
(stated as rewrite rules with the results `innerOf` / `nodeOf`), plus the two identity chains.
-/
set_option linter.unusedSectionVars false

namespace Ptn.Ham
open Ptn.Og List

theorem fam_rules (f : Fam) (key ks : List Int) (h : (famKeys f).lookup key = some ks) :
    f.get key = .ok (innerOf f key) ∧ ∀ k ∈ ks, dGet (innerOf f key) k = .ok (nodeOf (innerOf f key) k) := by
  obtain ⟨h1, h2⟩ := fam_get_of_keys f key ks h
  exact ⟨h1, fun k hk => dGet_of_mem _ k (by rw [h2]; exact hk)⟩

theorem molSpecs_len (L : Int) : (molSpecs L).length = 10 := rfl

theorem aDagL_keys (L i : Int) (h0 : 0 ≤ i) (h1 : i < L - 2) :
    (famKeys (MolNodes.init L).aDagL).lookup [i] = some (pyRange (i + 1) (L - 1)) := by
  have e : famKeys (MolNodes.init L).aDagL = specKeys ((molSpecs L).getD 0 []) := by
    show famKeys ((mkFams (molSpecs L) (idCount L)).1.getD 0 []) = _
    exact mkFams_keys _ _ 0
  rw [e]
  exact single_lookup (pyRange (0) (L - 2)) (fun i => pyRange (i + 1) (L - 1)) _ i (mem_pyRange.2 ⟨h0, h1⟩)

theorem aDagL_get (L i : Int) (h0 : 0 ≤ i) (h1 : i < L - 2) :
    (MolNodes.init L).aDagL.get [i] = .ok (innerOf (MolNodes.init L).aDagL [i]) :=
  (fam_rules _ _ _ (aDagL_keys L i h0 h1)).1

theorem aDagL_dGet (L i k : Int) (h0 : 0 ≤ i) (h1 : i < L - 2) (h2 : i + 1 ≤ k) (h3 : k < L - 1) :
    dGet (innerOf (MolNodes.init L).aDagL [i]) k = .ok (nodeOf (innerOf (MolNodes.init L).aDagL [i]) k) :=
  (fam_rules _ _ _ (aDagL_keys L i h0 h1)).2 k (mem_pyRange.2 ⟨h2, h3⟩)

theorem aAnnL_keys (L i : Int) (h0 : 0 ≤ i) (h1 : i < L - 2) :
    (famKeys (MolNodes.init L).aAnnL).lookup [i] = some (pyRange (i + 1) (L - 1)) := by
  have e : famKeys (MolNodes.init L).aAnnL = specKeys ((molSpecs L).getD 1 []) := by
    show famKeys ((mkFams (molSpecs L) (idCount L)).1.getD 1 []) = _
    exact mkFams_keys _ _ 1
  rw [e]
  exact single_lookup (pyRange (0) (L - 2)) (fun i => pyRange (i + 1) (L - 1)) _ i (mem_pyRange.2 ⟨h0, h1⟩)

theorem aAnnL_get (L i : Int) (h0 : 0 ≤ i) (h1 : i < L - 2) :
    (MolNodes.init L).aAnnL.get [i] = .ok (innerOf (MolNodes.init L).aAnnL [i]) :=
  (fam_rules _ _ _ (aAnnL_keys L i h0 h1)).1

theorem aAnnL_dGet (L i k : Int) (h0 : 0 ≤ i) (h1 : i < L - 2) (h2 : i + 1 ≤ k) (h3 : k < L - 1) :
    dGet (innerOf (MolNodes.init L).aAnnL [i]) k = .ok (nodeOf (innerOf (MolNodes.init L).aAnnL [i]) k) :=
  (fam_rules _ _ _ (aAnnL_keys L i h0 h1)).2 k (mem_pyRange.2 ⟨h2, h3⟩)

theorem aDagADagL_keys (L i j : Int) (h0 : 0 ≤ i) (h1 : i < L / 2 - 1) (h4 : i + 1 ≤ j) (h5 : j < L / 2) :
    (famKeys (MolNodes.init L).aDagADagL).lookup [i, j] = some (pyRange (j + 1) (L / 2 + 1)) := by
  have e : famKeys (MolNodes.init L).aDagADagL = specKeys ((molSpecs L).getD 2 []) := by
    show famKeys ((mkFams (molSpecs L) (idCount L)).1.getD 2 []) = _
    exact mkFams_keys _ _ 2
  rw [e]
  exact pair_lookup (pyRange (0) (L / 2 - 1)) (fun i => pyRange (i + 1) (L / 2)) (fun i j => pyRange (j + 1) (L / 2 + 1)) _ i j
    (mem_pyRange.2 ⟨h0, h1⟩) (mem_pyRange.2 ⟨h4, h5⟩)

theorem aDagADagL_get (L i j : Int) (h0 : 0 ≤ i) (h1 : i < L / 2 - 1) (h4 : i + 1 ≤ j) (h5 : j < L / 2) :
    (MolNodes.init L).aDagADagL.get [i, j] = .ok (innerOf (MolNodes.init L).aDagADagL [i, j]) :=
  (fam_rules _ _ _ (aDagADagL_keys L i j h0 h1 h4 h5)).1

theorem aDagADagL_dGet (L i j k : Int) (h0 : 0 ≤ i) (h1 : i < L / 2 - 1) (h4 : i + 1 ≤ j) (h5 : j < L / 2) (h2 : j + 1 ≤ k) (h3 : k < L / 2 + 1) :
    dGet (innerOf (MolNodes.init L).aDagADagL [i, j]) k = .ok (nodeOf (innerOf (MolNodes.init L).aDagADagL [i, j]) k) :=
  (fam_rules _ _ _ (aDagADagL_keys L i j h0 h1 h4 h5)).2 k (mem_pyRange.2 ⟨h2, h3⟩)

theorem aAnnAAnnL_keys (L i j : Int) (h0 : 0 ≤ i) (h1 : i < L / 2) (h4 : 0 ≤ j) (h5 : j < i) :
    (famKeys (MolNodes.init L).aAnnAAnnL).lookup [i, j] = some (pyRange (i + 1) (L / 2 + 1)) := by
  have e : famKeys (MolNodes.init L).aAnnAAnnL = specKeys ((molSpecs L).getD 3 []) := by
    show famKeys ((mkFams (molSpecs L) (idCount L)).1.getD 3 []) = _
    exact mkFams_keys _ _ 3
  rw [e]
  exact pair_lookup (pyRange (0) (L / 2)) (fun i => pyRange (0) (i)) (fun i j => pyRange (i + 1) (L / 2 + 1)) _ i j
    (mem_pyRange.2 ⟨h0, h1⟩) (mem_pyRange.2 ⟨h4, h5⟩)

theorem aAnnAAnnL_get (L i j : Int) (h0 : 0 ≤ i) (h1 : i < L / 2) (h4 : 0 ≤ j) (h5 : j < i) :
    (MolNodes.init L).aAnnAAnnL.get [i, j] = .ok (innerOf (MolNodes.init L).aAnnAAnnL [i, j]) :=
  (fam_rules _ _ _ (aAnnAAnnL_keys L i j h0 h1 h4 h5)).1

theorem aAnnAAnnL_dGet (L i j k : Int) (h0 : 0 ≤ i) (h1 : i < L / 2) (h4 : 0 ≤ j) (h5 : j < i) (h2 : i + 1 ≤ k) (h3 : k < L / 2 + 1) :
    dGet (innerOf (MolNodes.init L).aAnnAAnnL [i, j]) k = .ok (nodeOf (innerOf (MolNodes.init L).aAnnAAnnL [i, j]) k) :=
  (fam_rules _ _ _ (aAnnAAnnL_keys L i j h0 h1 h4 h5)).2 k (mem_pyRange.2 ⟨h2, h3⟩)

theorem aDagAAnnL_keys (L i j : Int) (h0 : 0 ≤ i) (h1 : i < L / 2) (h4 : 0 ≤ j) (h5 : j < L / 2) :
    (famKeys (MolNodes.init L).aDagAAnnL).lookup [i, j] = some (pyRange (max i j + 1) (L / 2 + 1)) := by
  have e : famKeys (MolNodes.init L).aDagAAnnL = specKeys ((molSpecs L).getD 4 []) := by
    show famKeys ((mkFams (molSpecs L) (idCount L)).1.getD 4 []) = _
    exact mkFams_keys _ _ 4
  rw [e]
  exact pair_lookup (pyRange (0) (L / 2)) (fun i => pyRange (0) (L / 2)) (fun i j => pyRange (max i j + 1) (L / 2 + 1)) _ i j
    (mem_pyRange.2 ⟨h0, h1⟩) (mem_pyRange.2 ⟨h4, h5⟩)

theorem aDagAAnnL_get (L i j : Int) (h0 : 0 ≤ i) (h1 : i < L / 2) (h4 : 0 ≤ j) (h5 : j < L / 2) :
    (MolNodes.init L).aDagAAnnL.get [i, j] = .ok (innerOf (MolNodes.init L).aDagAAnnL [i, j]) :=
  (fam_rules _ _ _ (aDagAAnnL_keys L i j h0 h1 h4 h5)).1

theorem aDagAAnnL_dGet (L i j k : Int) (h0 : 0 ≤ i) (h1 : i < L / 2) (h4 : 0 ≤ j) (h5 : j < L / 2) (h2 : max i j + 1 ≤ k) (h3 : k < L / 2 + 1) :
    dGet (innerOf (MolNodes.init L).aDagAAnnL [i, j]) k = .ok (nodeOf (innerOf (MolNodes.init L).aDagAAnnL [i, j]) k) :=
  (fam_rules _ _ _ (aDagAAnnL_keys L i j h0 h1 h4 h5)).2 k (mem_pyRange.2 ⟨h2, h3⟩)

theorem aDagR_keys (L i : Int) (h0 : 2 ≤ i) (h1 : i < L) :
    (famKeys (MolNodes.init L).aDagR).lookup [i] = some (pyRange (2) (i + 1)) := by
  have e : famKeys (MolNodes.init L).aDagR = specKeys ((molSpecs L).getD 5 []) := by
    show famKeys ((mkFams (molSpecs L) (idCount L)).1.getD 5 []) = _
    exact mkFams_keys _ _ 5
  rw [e]
  exact single_lookup (pyRange (2) (L)) (fun i => pyRange (2) (i + 1)) _ i (mem_pyRange.2 ⟨h0, h1⟩)

theorem aDagR_get (L i : Int) (h0 : 2 ≤ i) (h1 : i < L) :
    (MolNodes.init L).aDagR.get [i] = .ok (innerOf (MolNodes.init L).aDagR [i]) :=
  (fam_rules _ _ _ (aDagR_keys L i h0 h1)).1

theorem aDagR_dGet (L i k : Int) (h0 : 2 ≤ i) (h1 : i < L) (h2 : 2 ≤ k) (h3 : k < i + 1) :
    dGet (innerOf (MolNodes.init L).aDagR [i]) k = .ok (nodeOf (innerOf (MolNodes.init L).aDagR [i]) k) :=
  (fam_rules _ _ _ (aDagR_keys L i h0 h1)).2 k (mem_pyRange.2 ⟨h2, h3⟩)

theorem aAnnR_keys (L i : Int) (h0 : 2 ≤ i) (h1 : i < L) :
    (famKeys (MolNodes.init L).aAnnR).lookup [i] = some (pyRange (2) (i + 1)) := by
  have e : famKeys (MolNodes.init L).aAnnR = specKeys ((molSpecs L).getD 6 []) := by
    show famKeys ((mkFams (molSpecs L) (idCount L)).1.getD 6 []) = _
    exact mkFams_keys _ _ 6
  rw [e]
  exact single_lookup (pyRange (2) (L)) (fun i => pyRange (2) (i + 1)) _ i (mem_pyRange.2 ⟨h0, h1⟩)

theorem aAnnR_get (L i : Int) (h0 : 2 ≤ i) (h1 : i < L) :
    (MolNodes.init L).aAnnR.get [i] = .ok (innerOf (MolNodes.init L).aAnnR [i]) :=
  (fam_rules _ _ _ (aAnnR_keys L i h0 h1)).1

theorem aAnnR_dGet (L i k : Int) (h0 : 2 ≤ i) (h1 : i < L) (h2 : 2 ≤ k) (h3 : k < i + 1) :
    dGet (innerOf (MolNodes.init L).aAnnR [i]) k = .ok (nodeOf (innerOf (MolNodes.init L).aAnnR [i]) k) :=
  (fam_rules _ _ _ (aAnnR_keys L i h0 h1)).2 k (mem_pyRange.2 ⟨h2, h3⟩)

theorem aDagADagR_keys (L i j : Int) (h0 : L / 2 + 1 ≤ i) (h1 : i < L - 1) (h4 : i + 1 ≤ j) (h5 : j < L) :
    (famKeys (MolNodes.init L).aDagADagR).lookup [i, j] = some (pyRange (L / 2 + 1) (i + 1)) := by
  have e : famKeys (MolNodes.init L).aDagADagR = specKeys ((molSpecs L).getD 7 []) := by
    show famKeys ((mkFams (molSpecs L) (idCount L)).1.getD 7 []) = _
    exact mkFams_keys _ _ 7
  rw [e]
  exact pair_lookup (pyRange (L / 2 + 1) (L - 1)) (fun i => pyRange (i + 1) (L)) (fun i j => pyRange (L / 2 + 1) (i + 1)) _ i j
    (mem_pyRange.2 ⟨h0, h1⟩) (mem_pyRange.2 ⟨h4, h5⟩)

theorem aDagADagR_get (L i j : Int) (h0 : L / 2 + 1 ≤ i) (h1 : i < L - 1) (h4 : i + 1 ≤ j) (h5 : j < L) :
    (MolNodes.init L).aDagADagR.get [i, j] = .ok (innerOf (MolNodes.init L).aDagADagR [i, j]) :=
  (fam_rules _ _ _ (aDagADagR_keys L i j h0 h1 h4 h5)).1

theorem aDagADagR_dGet (L i j k : Int) (h0 : L / 2 + 1 ≤ i) (h1 : i < L - 1) (h4 : i + 1 ≤ j) (h5 : j < L) (h2 : L / 2 + 1 ≤ k) (h3 : k < i + 1) :
    dGet (innerOf (MolNodes.init L).aDagADagR [i, j]) k = .ok (nodeOf (innerOf (MolNodes.init L).aDagADagR [i, j]) k) :=
  (fam_rules _ _ _ (aDagADagR_keys L i j h0 h1 h4 h5)).2 k (mem_pyRange.2 ⟨h2, h3⟩)

theorem aAnnAAnnR_keys (L i j : Int) (h0 : L / 2 + 1 ≤ i) (h1 : i < L) (h4 : L / 2 + 1 ≤ j) (h5 : j < i) :
    (famKeys (MolNodes.init L).aAnnAAnnR).lookup [i, j] = some (pyRange (L / 2 + 1) (j + 1)) := by
  have e : famKeys (MolNodes.init L).aAnnAAnnR = specKeys ((molSpecs L).getD 8 []) := by
    show famKeys ((mkFams (molSpecs L) (idCount L)).1.getD 8 []) = _
    exact mkFams_keys _ _ 8
  rw [e]
  exact pair_lookup (pyRange (L / 2 + 1) (L)) (fun i => pyRange (L / 2 + 1) (i)) (fun i j => pyRange (L / 2 + 1) (j + 1)) _ i j
    (mem_pyRange.2 ⟨h0, h1⟩) (mem_pyRange.2 ⟨h4, h5⟩)

theorem aAnnAAnnR_get (L i j : Int) (h0 : L / 2 + 1 ≤ i) (h1 : i < L) (h4 : L / 2 + 1 ≤ j) (h5 : j < i) :
    (MolNodes.init L).aAnnAAnnR.get [i, j] = .ok (innerOf (MolNodes.init L).aAnnAAnnR [i, j]) :=
  (fam_rules _ _ _ (aAnnAAnnR_keys L i j h0 h1 h4 h5)).1

theorem aAnnAAnnR_dGet (L i j k : Int) (h0 : L / 2 + 1 ≤ i) (h1 : i < L) (h4 : L / 2 + 1 ≤ j) (h5 : j < i) (h2 : L / 2 + 1 ≤ k) (h3 : k < j + 1) :
    dGet (innerOf (MolNodes.init L).aAnnAAnnR [i, j]) k = .ok (nodeOf (innerOf (MolNodes.init L).aAnnAAnnR [i, j]) k) :=
  (fam_rules _ _ _ (aAnnAAnnR_keys L i j h0 h1 h4 h5)).2 k (mem_pyRange.2 ⟨h2, h3⟩)

theorem aDagAAnnR_keys (L i j : Int) (h0 : L / 2 + 1 ≤ i) (h1 : i < L) (h4 : L / 2 + 1 ≤ j) (h5 : j < L) :
    (famKeys (MolNodes.init L).aDagAAnnR).lookup [i, j] = some (pyRange (L / 2 + 1) (min i j + 1)) := by
  have e : famKeys (MolNodes.init L).aDagAAnnR = specKeys ((molSpecs L).getD 9 []) := by
    show famKeys ((mkFams (molSpecs L) (idCount L)).1.getD 9 []) = _
    exact mkFams_keys _ _ 9
  rw [e]
  exact pair_lookup (pyRange (L / 2 + 1) (L)) (fun i => pyRange (L / 2 + 1) (L)) (fun i j => pyRange (L / 2 + 1) (min i j + 1)) _ i j
    (mem_pyRange.2 ⟨h0, h1⟩) (mem_pyRange.2 ⟨h4, h5⟩)

theorem aDagAAnnR_get (L i j : Int) (h0 : L / 2 + 1 ≤ i) (h1 : i < L) (h4 : L / 2 + 1 ≤ j) (h5 : j < L) :
    (MolNodes.init L).aDagAAnnR.get [i, j] = .ok (innerOf (MolNodes.init L).aDagAAnnR [i, j]) :=
  (fam_rules _ _ _ (aDagAAnnR_keys L i j h0 h1 h4 h5)).1

theorem aDagAAnnR_dGet (L i j k : Int) (h0 : L / 2 + 1 ≤ i) (h1 : i < L) (h4 : L / 2 + 1 ≤ j) (h5 : j < L) (h2 : L / 2 + 1 ≤ k) (h3 : k < min i j + 1) :
    dGet (innerOf (MolNodes.init L).aDagAAnnR [i, j]) k = .ok (nodeOf (innerOf (MolNodes.init L).aDagAAnnR [i, j]) k) :=
  (fam_rules _ _ _ (aDagAAnnR_keys L i j h0 h1 h4 h5)).2 k (mem_pyRange.2 ⟨h2, h3⟩)

theorem identityL_dGet (L i : Int) (h0 : 0 ≤ i) (h1 : i < L) :
    dGet (MolNodes.init L).identityL i = .ok ⟨i, [], [], 0⟩ := by
  unfold dGet
  rw [show (MolNodes.init L).identityL = (pyRange 0 L).map fun i => (i, (⟨i, [], [], 0⟩ : Node)) from rfl,
    lookup_of_mem _ (keys_nodup_map 0 L fun i => ⟨i, [], [], 0⟩) i ⟨i, [], [], 0⟩
      (List.mem_map.2 ⟨i, mem_pyRange.2 ⟨h0, h1⟩, rfl⟩)]

theorem identityR_dGet (L i : Int) (h0 : 1 ≤ i) (h1 : i < L + 1) :
    dGet (MolNodes.init L).identityR i = .ok ⟨L + i - 1, [], [], 0⟩ := by
  unfold dGet
  rw [show (MolNodes.init L).identityR = (pyRange 1 (L + 1)).map fun i => (i, (⟨L + i - 1, [], [], 0⟩ : Node)) from rfl,
    lookup_of_mem _ (keys_nodup_map 1 (L + 1) fun i => ⟨L + i - 1, [], [], 0⟩) i ⟨L + i - 1, [], [], 0⟩
      (List.mem_map.2 ⟨i, mem_pyRange.2 ⟨h0, h1⟩, rfl⟩)]

end Ptn.Ham

import PtnModel.Proofs.ChainPartition
/-!
# `from_opgraph`: local operators of an edge as exact matrices

`opicsDense_entry`: for an operator map all of whose matrices are `d × d`, the matrix
`sum(c * opmap[i] for i, c in edge.opics)` has the entries `Σ_p c_p · opmap[i_p][s][t]`.
-/
set_option linter.unusedSectionVars false

namespace Ptn.Ch
open Ptn Ptn.Og List

variable {κ : Type} [CommRing κ] [DecidableEq κ]

/-- a `d × d` matrix -/
def IsShape (d : Nat) (M : Mat κ) : Prop := M.length = d ∧ ∀ row ∈ M, row.length = d

/-- every matrix of the operator map is `d × d` -/
def OpMapWF (opmap : OpMap κ) (d : Nat) : Prop := ∀ p ∈ opmap, IsShape d p.2

/-- `opmap[o][s][t]` (0 for a missing id) -/
def opEntry (opmap : OpMap κ) (o : Int) (s t : Nat) : κ :=
  match opmap.lookup o with
  | some m => m.entry s t
  | none => 0

theorem entry_of_shape {d : Nat} {M : Mat κ} (h : IsShape d M) (s t : Nat) (hs : s < d) (ht : t < d) :
    ∃ (h1 : s < M.length) (h2 : t < (M[s]'h1).length), M.entry s t = (M[s]'h1)[t]'h2 := by
  have h1 : s < M.length := by rw [h.1]; exact hs
  have h2 : t < (M[s]'h1).length := by rw [h.2 _ (getElem_mem h1)]; exact ht
  refine ⟨h1, h2, ?_⟩
  simp [Mat.entry, List.getD_eq_getElem?_getD, h1, h2]

theorem entry_out_of_range {d : Nat} {M : Mat κ} (h : IsShape d M) (s t : Nat) (hst : ¬ (s < d ∧ t < d)) :
    M.entry s t = 0 := by
  unfold Mat.entry
  by_cases hs : s < d
  · have ht : ¬ t < d := fun ht => hst ⟨hs, ht⟩
    have h1 : s < M.length := by rw [h.1]; exact hs
    have : (M[s]'h1).length = d := h.2 _ (getElem_mem h1)
    simp only [List.getD_eq_getElem?_getD, h1, getElem?_pos, Option.getD_some]
    have : M[s][t]? = none := getElem?_eq_none (by omega)
    rw [this]; rfl
  · have : M.length ≤ s := by rw [h.1]; omega
    simp [List.getD_eq_getElem?_getD, this]

theorem isShape_zero (d : Nat) : IsShape d (Mat.zero d d : Mat κ) := by
  refine ⟨by simp [Mat.zero], ?_⟩
  intro row hrow
  simp only [Mat.zero, mem_replicate] at hrow
  rw [hrow.2]; simp

theorem entry_zero (d s t : Nat) : (Mat.zero d d : Mat κ).entry s t = 0 := by
  by_cases h : s < d ∧ t < d
  · simp [Mat.entry, Mat.zero, List.getD_eq_getElem?_getD, h.1, h.2]
  · exact entry_out_of_range (isShape_zero d) s t h

theorem isShape_scale {d : Nat} {M : Mat κ} (h : IsShape d M) (c : κ) : IsShape d (Mat.scale c M) := by
  refine ⟨by simp [Mat.scale, h.1], ?_⟩
  intro row hrow
  simp only [Mat.scale, mem_map] at hrow
  obtain ⟨r, hr, rfl⟩ := hrow
  simp [h.2 r hr]

theorem entry_scale (M : Mat κ) (c : κ) (s t : Nat) : (Mat.scale c M).entry s t = c * M.entry s t := by
  unfold Mat.entry Mat.scale
  simp only [List.getD_eq_getElem?_getD, getElem?_map]
  cases h1 : M[s]? with
  | none => simp
  | some row =>
    simp only [Option.map_some, Option.getD_some, getElem?_map]
    cases h2 : row[t]? with
    | none => simp
    | some x => simp

theorem isShape_add {d : Nat} {A B : Mat κ} (hA : IsShape d A) (hB : IsShape d B) : IsShape d (Mat.add A B) := by
  refine ⟨by simp [Mat.add, hA.1, hB.1], ?_⟩
  intro row hrow
  unfold Mat.add at hrow
  obtain ⟨i, hi, rfl⟩ := getElem_of_mem hrow
  simp only [length_zipWith] at hi
  simp only [getElem_zipWith, length_zipWith]
  rw [hA.2 _ (getElem_mem _), hB.2 _ (getElem_mem _)]
  simp

theorem entry_add {d : Nat} {A B : Mat κ} (hA : IsShape d A) (hB : IsShape d B) (s t : Nat) :
    (Mat.add A B).entry s t = A.entry s t + B.entry s t := by
  by_cases h : s < d ∧ t < d
  · obtain ⟨a1, a2, ea⟩ := entry_of_shape hA s t h.1 h.2
    obtain ⟨b1, b2, eb⟩ := entry_of_shape hB s t h.1 h.2
    obtain ⟨c1, c2, ec⟩ := entry_of_shape (isShape_add hA hB) s t h.1 h.2
    rw [ea, eb, ec]
    simp [Mat.add]
  · rw [entry_out_of_range (isShape_add hA hB) s t h, entry_out_of_range hA s t h, entry_out_of_range hB s t h]
    simp

theorem opmap_get_ok_iff (opmap : OpMap κ) (o : Int) (m : Mat κ) : opmap.get o = .ok m ↔ opmap.lookup o = some m := by
  unfold OpMap.get
  cases opmap.lookup o <;> simp

theorem mem_of_lookup {α β : Type} [BEq α] [LawfulBEq α] {l : List (α × β)} {k : α} {v : β}
    (h : l.lookup k = some v) : (k, v) ∈ l := by
  induction l with
  | nil => simp at h
  | cons p rest ih =>
    obtain ⟨k', v'⟩ := p
    simp only [lookup_cons] at h
    by_cases hk : k = k'
    · subst hk; simp at h; subst h; simp
    · have hb : (k == k') = false := by simpa using hk
      rw [hb] at h
      exact mem_cons_of_mem _ (ih h)

/-- the dense local operator of an edge -/
def edgeDense (opmap : OpMap κ) (e : Edge κ) (s t : Nat) : κ := (e.opics.map fun p => p.2 * opEntry opmap p.1 s t).sum

theorem opicsDense_entry (opmap : OpMap κ) (d : Nat) (hw : OpMapWF opmap d) :
    ∀ (opics : List (Int × κ)) (acc M : Mat κ), IsShape d acc →
      opics.foldlM (fun acc p => do
        let m ← opmap.get p.1
        pure (Mat.add acc (Mat.scale p.2 m))) acc = .ok M →
      IsShape d M ∧ ∀ s t, M.entry s t = acc.entry s t + (opics.map fun p => p.2 * opEntry opmap p.1 s t).sum := by
  intro opics
  induction opics with
  | nil =>
    intro acc M hacc h
    simp only [foldlM_nil, pure_ok_iff] at h
    subst h
    exact ⟨hacc, by simp⟩
  | cons p rest ih =>
    intro acc M hacc h
    simp only [foldlM_cons, bind_ok_iff, opmap_get_ok_iff, pure_ok_iff] at h
    obtain ⟨acc1, ⟨m, hm, rfl⟩, h2⟩ := h
    have hms : IsShape d m := hw _ (mem_of_lookup hm)
    have hsh := isShape_add hacc (isShape_scale hms p.2)
    obtain ⟨hM, hent⟩ := ih _ M hsh h2
    refine ⟨hM, ?_⟩
    intro s t
    rw [hent, entry_add hacc (isShape_scale hms p.2), entry_scale]
    simp only [map_cons, sum_cons, opEntry, hm]
    ring

theorem opicsDense_spec (opmap : OpMap κ) (d : Nat) (hw : OpMapWF opmap d) (e : Edge κ) (M : Mat κ)
    (h : opicsDense opmap d e.opics = .ok M) : ∀ s t, M.entry s t = edgeDense opmap e s t := by
  intro s t
  have := (opicsDense_entry opmap d hw e.opics (Mat.zero d d) M (isShape_zero d) h).2 s t
  rw [this, entry_zero, zero_add]
  rfl

end Ptn.Ch

import Mathlib.Tactic.Ring
import PtnModel.Proofs.HamMolChains
import PtnModel.Proofs.HamMolNodes
/-!
# `SpinOperatorConverter.to_spin_opchain` succeeds on Jordan-Wigner shaped chains with balanced spin

A single-mode chain is *Jordan-Wigner shaped* (`JW`) if its interleaved charges follow its operators (`C` raises by one,
`A` lowers by one, `I`, `N`, `Z` keep), `Z` only occurs at odd and `I` only at even charge, and all ids are `MolecularOID`s.
`altCharge pos oids` is the total charge of the operators at even mode positions minus that at odd positions
(spin-up minus spin-down particle-number change).  For a well-formed chain on `2 L` modes with these properties and
`altCharge = 0`, `to_spin_opchain` raises no `KeyError` (the pairs `(I, Z)`, `(Z, I)` never occur), its final assertion
`qnums[-1] == 0` holds, and the converted chain is well formed on `L` sites.
-/
set_option linter.unusedSectionVars false
set_option linter.unusedSimpArgs false

namespace Ptn.Ham
open Ptn.Og List

/-- particle-number change of a single-mode operator -/
def ch (o : Int) : Int := if o = mC then 1 else if o = mA then -1 else 0

def isMolOid (o : Int) : Prop := o = mA ∨ o = mI ∨ o = mC ∨ o = mN ∨ o = mZ

/-- Jordan-Wigner shape: `JW q oids qs` with `q` the charge before the first operator and `qs` the charges after each operator -/
def JW : Int → List Int → List Int → Prop
  | _, [], [] => True
  | q, o :: os, q' :: qs => q' = q + ch o ∧ (o = mZ → q % 2 = 1) ∧ (o = mI → q % 2 = 0) ∧ isMolOid o ∧ JW q' os qs
  | _, _, _ => False

def sgnPar (x : Int) : Int := if x % 2 = 0 then 1 else -1

/-- charge of the operators at even positions minus charge of the operators at odd positions, `pos` = position of the first -/
def altCharge : Int → List Int → Int
  | _, [] => 0
  | pos, o :: os => sgnPar pos * ch o + altCharge (pos + 1) os

theorem JW_length : ∀ (q : Int) (oids qs : List Int), JW q oids qs → qs.length = oids.length := by
  intro q oids
  induction oids generalizing q with
  | nil => intro qs h; cases qs with
    | nil => rfl
    | cons _ _ => exact absurd h (by simp [JW])
  | cons o os ih =>
    intro qs h
    cases qs with
    | nil => exact absurd h (by simp [JW])
    | cons q' qs => simp only [JW] at h; simp [ih q' qs h.2.2.2.2]

/-- appending an identity at a chain that ends with charge 0 -/
theorem JW_snoc_I : ∀ (q : Int) (oids qs : List Int), JW q oids qs → (q :: qs).getLast? = some 0 →
    JW q (oids ++ [mI]) (qs ++ [0]) := by
  intro q oids
  induction oids generalizing q with
  | nil =>
    intro qs h hl
    cases qs with
    | nil =>
      simp only [getLast?_singleton, Option.some.injEq] at hl
      subst hl
      simp [JW, ch, mI, mC, mA, mZ, isMolOid]
    | cons _ _ => exact absurd h (by simp [JW])
  | cons o os ih =>
    intro qs h hl
    cases qs with
    | nil => exact absurd h (by simp [JW])
    | cons q' qs =>
      simp only [JW] at h
      simp only [cons_append, JW]
      refine ⟨h.1, h.2.1, h.2.2.1, h.2.2.2.1, ih q' qs h.2.2.2.2 ?_⟩
      rw [getLast?_cons_cons] at hl
      exact hl

theorem altCharge_snoc_I : ∀ (pos : Int) (oids : List Int), altCharge pos (oids ++ [mI]) = altCharge pos oids := by
  intro pos oids
  induction oids generalizing pos with
  | nil => simp [altCharge, ch, mI, mC, mA]
  | cons o os ih => simp [altCharge, ih]

/-- only the parity of the start position matters -/
theorem altCharge_parity : ∀ (l : List Int) (p p' : Int), p % 2 = p' % 2 → altCharge p l = altCharge p' l := by
  intro l
  induction l with
  | nil => intro _ _ _; rfl
  | cons a l ih =>
    intro p p' hp
    simp only [altCharge]
    have : sgnPar p = sgnPar p' := by simp [sgnPar, hp]
    rw [this, ih (p + 1) (p' + 1) (by omega)]

theorem altCharge_cons_I (pos : Int) (oids : List Int) : altCharge pos (mI :: oids) = altCharge (pos + 1) oids := by
  simp [altCharge, ch, mI, mC, mA]

/-! ## the pair look-ups -/

theorem pairMapGet_ok (x y : Int) (hx : isMolOid x) (hy : isMolOid y) (h1 : ¬ (x = mI ∧ y = mZ)) (h2 : ¬ (x = mZ ∧ y = mI)) :
    ∃ v, pairMapGet (x, y) = .ok v := by
  rcases hx with rfl | rfl | rfl | rfl | rfl <;> rcases hy with rfl | rfl | rfl | rfl | rfl <;>
    first
    | exact ⟨_, rfl⟩
    | (exfalso; exact h1 ⟨rfl, rfl⟩)
    | (exfalso; exact h2 ⟨rfl, rfl⟩)

/-- on a Jordan-Wigner shaped chain of even length every aligned pair is in `oid_single_pair_map` -/
theorem pairs_ok : ∀ (n : Nat) (q : Int) (oids qs : List Int), oids.length = 2 * n → JW q oids qs →
    ∃ l, (evenOddPairs oids).mapM pairMapGet = .ok l ∧ l.length = n := by
  intro n
  induction n with
  | zero =>
    intro q oids qs hl _
    have : oids = [] := List.eq_nil_of_length_eq_zero (by omega)
    subst this
    exact ⟨[], by simp [evenOddPairs, pure, Except.pure], rfl⟩
  | succ n ih =>
    intro q oids qs hl hjw
    match oids, qs, hl, hjw with
    | x :: y :: rest, q1 :: q2 :: qs', hl, hjw =>
      simp only [JW] at hjw
      obtain ⟨e1, z1, i1, m1, e2, z2, i2, m2, hrest⟩ := hjw
      obtain ⟨l, hlm, hll⟩ := ih q2 rest qs' (by simp only [List.length_cons] at hl; omega) hrest
      obtain ⟨v, hv⟩ := pairMapGet_ok x y m1 m2
        (by rintro ⟨rfl, rfl⟩
            have := i1 rfl
            have := z2 rfl
            simp only [ch, mI, mC, mA] at e1
            omega)
        (by rintro ⟨rfl, rfl⟩
            have := z1 rfl
            have := i2 rfl
            simp only [ch, mZ, mC, mA] at e1
            omega)
      refine ⟨v :: l, ?_, by simp [hll]⟩
      simp [evenOddPairs, List.mapM_cons, hv, hlm, bind, Except.bind, pure, Except.pure]
    | [_], _, hl, _ => simp at hl; omega
    | [], _, hl, _ => simp at hl
    | _ :: _ :: _, [], _, hjw => simp [JW] at hjw
    | _ :: _ :: _, [_], _, hjw => simp [JW] at hjw

/-! ## the charge loop -/

/-- the list appended by the `for i in range(length // 2)` loop of `to_spin_opchain`, by recursion on the charges -/
def spinQ : List Int → Int → List Int
  | a :: b :: c :: rest, qs => encPair c (qs - (a - 2 * b + c)) :: spinQ (c :: rest) (qs - (a - 2 * b + c))
  | _, _ => []

theorem pyRange_cons (a b : Int) (h : a < b) : pyRange a b = a :: pyRange (a + 1) b := by
  unfold pyRange
  have e : (b - a).toNat = (b - (a + 1)).toNat + 1 := by omega
  rw [e, List.range_succ_eq_map, List.map_cons, List.map_map]
  simp only [Int.natCast_zero, Int.add_zero, List.cons.injEq, true_and]
  apply List.map_congr_left
  intro k _
  simp only [Function.comp, Nat.succ_eq_add_one, Int.natCast_add, Int.natCast_one]
  omega

theorem spinLoop_eq : ∀ (cnt m : Nat) (qn : List Int) (qs : Int) (acc : List Int), qn.length = 2 * (m + cnt) + 1 →
    spinQnumsLoop qn (pyRange (m : Int) ((m + cnt : Nat) : Int)) qs acc = .ok (acc ++ spinQ (qn.drop (2 * m)) qs) := by
  intro cnt
  induction cnt with
  | zero =>
    intro m qn qs acc hl
    have hd : (qn.drop (2 * m)).length = 1 := by simp [hl]
    have : spinQ (qn.drop (2 * m)) qs = [] := by
      match h : qn.drop (2 * m), hd with
      | [_], _ => rfl
    rw [this, pyRange_empty _ _ (by simp)]
    simp [spinQnumsLoop]
  | succ cnt ih =>
    intro m qn qs acc hl
    rw [pyRange_cons _ _ (by push_cast; omega)]
    have h0 : 2 * m < qn.length := by omega
    have h1 : 2 * m + 1 < qn.length := by omega
    have h2 : 2 * m + 2 < qn.length := by omega
    have hd : qn.drop (2 * m) = qn[2 * m] :: qn[2 * m + 1] :: qn[2 * m + 2] :: qn.drop (2 * m + 3) := by
      rw [List.drop_eq_getElem_cons h0, List.drop_eq_getElem_cons h1, List.drop_eq_getElem_cons h2]
    have hd2 : qn.drop (2 * (m + 1)) = qn[2 * m + 2] :: qn.drop (2 * m + 3) := by
      have : 2 * (m + 1) = 2 * m + 2 := by ring
      rw [this, List.drop_eq_getElem_cons h2]
    have i0 : (2 * (m : Int)).toNat = 2 * m := by omega
    have i1 : (2 * (m : Int) + 1).toNat = 2 * m + 1 := by omega
    have i2 : (2 * (m : Int) + 2).toNat = 2 * m + 2 := by omega
    simp only [spinQnumsLoop, i0, i1, i2, pyIdx, List.getElem?_eq_getElem h0, List.getElem?_eq_getElem h1,
      List.getElem?_eq_getElem h2, bind, Except.bind]
    have hnext := ih (m + 1) qn (qs - (qn[2 * m] - 2 * qn[2 * m + 1] + qn[2 * m + 2]))
      (acc ++ [encPair qn[2 * m + 2] (qs - (qn[2 * m] - 2 * qn[2 * m + 1] + qn[2 * m + 2]))]) (by omega)
    have ec : (((m + 1 : Nat) : Int)) = (m : Int) + 1 := by push_cast; ring
    have ec2 : ((m + 1 + cnt : Nat) : Int) = ((m + (cnt + 1) : Nat) : Int) := by push_cast; ring
    rw [ec, ec2] at hnext
    rw [hnext, hd, hd2]
    simp [spinQ]

/-- value and length of the loop result on a Jordan-Wigner shaped chain of even length `2 n` -/
theorem spinQ_spec : ∀ (n : Nat) (q : Int) (oids qs : List Int) (s : Int), oids.length = 2 * n → JW q oids qs →
    (spinQ (q :: qs) s).length = n ∧
    (0 < n → (spinQ (q :: qs) s).getLast? = some (encPair ((q :: qs).getLastD 0) (s + altCharge 0 oids))) := by
  intro n
  induction n with
  | zero =>
    intro q oids qs s hl hjw
    have : oids = [] := List.eq_nil_of_length_eq_zero (by omega)
    subst this
    cases qs with
    | nil => exact ⟨rfl, fun h => absurd h (by omega)⟩
    | cons _ _ => simp [JW] at hjw
  | succ n ih =>
    intro q oids qs s hl hjw
    match oids, qs, hl, hjw with
    | x :: y :: rest, q1 :: q2 :: qs', hl, hjw =>
      simp only [JW] at hjw
      obtain ⟨e1, _, _, _, e2, _, _, _, hrest⟩ := hjw
      have hs : s - (q - 2 * q1 + q2) = s + (ch x - ch y) := by rw [e2, e1]; ring
      obtain ⟨ihl, ihv⟩ := ih q2 rest qs' (s + (ch x - ch y)) (by simp only [List.length_cons] at hl; omega) hrest
      simp only [spinQ, hs]
      refine ⟨by simp [ihl], fun _ => ?_⟩
      have hal : altCharge 0 (x :: y :: rest) = (ch x - ch y) + altCharge 0 rest := by
        simp only [altCharge, sgnPar]
        rw [altCharge_parity rest (0 + 1 + 1) 0 (by omega)]
        simp
        ring
      rcases Nat.eq_zero_or_pos n with hn | hn
      · subst hn
        have : rest = [] := List.eq_nil_of_length_eq_zero (by simp only [List.length_cons] at hl; omega)
        subst this
        cases qs' with
        | nil =>
          simp [spinQ, altCharge, hal, sgnPar]
          congr 1
        | cons _ _ => simp [JW] at hrest
      · have := ihv hn
        have hne : spinQ (q2 :: qs') (s + (ch x - ch y)) ≠ [] := by
          intro h; rw [h] at ihl; simp at ihl; omega
        rw [List.getLast?_cons_of_ne_nil hne] at *
        rw [this, hal]
        congr 2
        ring
    | [_], _, hl, _ => simp at hl; omega
    | [], _, hl, _ => simp at hl
    | _ :: _ :: _, [], _, hjw => simp [JW] at hjw
    | _ :: _ :: _, [_], _, hjw => simp [JW] at hjw

/-! ## `to_spin_opchain` -/

section
variable {κ : Type} [Add κ] [Mul κ] [Neg κ] [OfNat κ 0] [OfNat κ 1] [DecidableEq κ]

/-- hypotheses under which `to_spin_opchain` succeeds: guards on `2 L` modes, Jordan-Wigner shape, balanced spin -/
structure SpinReady (L : Int) (c : OpChain κ) (tail : List Int) : Prop where
  wf : ChainWF (2 * L) c
  hq : c.qnums = 0 :: tail
  jw : JW 0 c.oids tail
  bal : altCharge c.istart c.oids = 0

theorem spinReady_front {L : Int} {c : OpChain κ} {tail : List Int} (h : SpinReady L c tail) (hodd : c.istart % 2 = 1) :
    SpinReady L { c with oids := mI :: c.oids, qnums := 0 :: c.qnums, istart := c.istart - 1 } (0 :: tail) := by
  obtain ⟨w, hq, jw, bal⟩ := h
  refine ⟨⟨?_, ?_, ?_, ?_, rfl, ?_⟩, by simp [hq], ?_, ?_⟩
  · simp [w.lens]
  · simp
  · have := w.start; simp only; omega
  · have := w.fits; simp only [List.length_cons]; push_cast; omega
  · have hne : c.qnums ≠ [] := by rw [hq]; simp
    simp only
    rw [List.getLast?_cons_of_ne_nil hne]
    exact w.qlast
  · simp only [JW]
    exact ⟨by simp [ch, mI, mC, mA], by simp [mI, mZ], by intro _; rfl, Or.inr (Or.inl rfl), jw⟩
  · simp only
    rw [altCharge_cons_I]
    have : c.istart - 1 + 1 = c.istart := by omega
    rw [this]; exact bal

theorem spinReady_back {L : Int} {c : OpChain κ} {tail : List Int} (h : SpinReady L c tail)
    (heven : c.istart % 2 = 0) (hodd : c.oids.length % 2 = 1) :
    SpinReady L { c with oids := c.oids ++ [mI], qnums := c.qnums ++ [0] } (tail ++ [0]) := by
  obtain ⟨w, hq, jw, bal⟩ := h
  refine ⟨⟨?_, ?_, w.start, ?_, ?_, ?_⟩, by simp [hq], ?_, ?_⟩
  · simp [w.lens]
  · simp
  · have := w.fits; simp only [List.length_append, List.length_cons, List.length_nil]; push_cast; omega
  · simp only [hq, List.cons_append, List.head?_cons]
  · simp
  · exact JW_snoc_I 0 c.oids tail jw (by rw [← hq]; exact w.qlast)
  · simp only
    rw [altCharge_snoc_I]; exact bal

/-- the conversion proper: even start, even length -/
theorem toSpin_core (L : Int) (c : OpChain κ) (tail : List Int) (h : SpinReady L c tail)
    (he : c.istart % 2 = 0) (hl : c.oids.length % 2 = 0) :
    ∃ (oids qnums : List Int), (evenOddPairs c.oids).mapM pairMapGet = .ok oids ∧
      spinQnumsLoop c.qnums (pyRange 0 ((c.oids.length / 2 : Nat) : Int)) 0 [0] = .ok qnums ∧
      qnums.getLast? = some 0 ∧ oids.length + 1 = qnums.length ∧ 0 < oids.length ∧ qnums.head? = some 0 ∧
      c.istart / 2 + (oids.length : Int) ≤ L := by
  obtain ⟨w, hq, jw, bal⟩ := h
  obtain ⟨n, hn⟩ : ∃ n, c.oids.length = 2 * n := ⟨c.oids.length / 2, by omega⟩
  have hnpos : 0 < n := by have := w.nonempty; omega
  obtain ⟨oids, ho, hol⟩ := pairs_ok n 0 c.oids tail hn jw
  have hqn : c.qnums.length = 2 * (0 + n) + 1 := by rw [w.lens, hn]; ring
  have hloop := spinLoop_eq n 0 c.qnums 0 [0] hqn
  simp only [Nat.cast_zero, Nat.zero_add, Nat.mul_zero, List.drop_zero] at hloop
  obtain ⟨sl, sv⟩ := spinQ_spec n 0 c.oids tail 0 hn jw
  have hdiv : c.oids.length / 2 = n := by omega
  refine ⟨oids, [0] ++ spinQ c.qnums 0, ho, by rw [hdiv]; exact hloop, ?_, ?_, by omega, rfl, ?_⟩
  · have hne : spinQ c.qnums 0 ≠ [] := by
      intro e; rw [hq] at e; rw [e] at sl; simp at sl; omega
    rw [List.getLast?_append_of_ne_nil _ hne, hq, sv hnpos]
    have hlast : (0 :: tail).getLastD 0 = 0 := by
      have := w.qlast
      rw [hq] at this
      rw [List.getLastD_eq_getLast?, this]; rfl
    have hb : altCharge 0 c.oids = 0 := by
      rw [← altCharge_parity c.oids c.istart 0 (by omega)]; exact bal
    rw [hlast, hb]; rfl
  · rw [hq] at *
    simp [sl, hol]
  · have := w.fits
    have := w.start
    rw [hol]
    omega

/-- **`to_spin_opchain` succeeds** on a chain on `2 L` modes that satisfies the guards, is Jordan-Wigner shaped and spin balanced;
the result satisfies the guards on `L` sites. -/
theorem toSpinOpchain_wf (L : Int) (c : OpChain κ) (tail : List Int) (h : SpinReady L c tail) :
    ∃ sc, toSpinOpchain c = .ok sc ∧ ChainWF L sc := by
  -- front padding
  obtain ⟨c1, t1, h1, he1, hc1⟩ : ∃ (c1 : OpChain κ) (t1 : List Int), SpinReady L c1 t1 ∧ c1.istart % 2 = 0 ∧
      c1 = (if c.istart % 2 == 1 then { c with oids := mI :: c.oids, qnums := 0 :: c.qnums, istart := c.istart - 1 } else c) := by
    by_cases ho : c.istart % 2 = 1
    · exact ⟨_, _, spinReady_front h ho, by simp only; omega, by simp [ho]⟩
    · have : ¬ (c.istart % 2 == 1) = true := by simpa using ho
      exact ⟨c, tail, h, by omega, by simp [this]⟩
  -- back padding
  obtain ⟨c2, t2, h2, he2, hl2, hc2⟩ : ∃ (c2 : OpChain κ) (t2 : List Int), SpinReady L c2 t2 ∧ c2.istart % 2 = 0 ∧
      c2.oids.length % 2 = 0 ∧
      c2 = (if c1.length % 2 == 1 then { c1 with oids := c1.oids ++ [mI], qnums := c1.qnums ++ [0] } else c1) := by
    by_cases ho : c1.oids.length % 2 = 1
    · refine ⟨_, _, spinReady_back h1 he1 ho, he1, ?_, by simp [OpChain.length, ho]⟩
      simp only [List.length_append, List.length_cons, List.length_nil]; omega
    · have : ¬ (c1.length % 2 == 1) = true := by simpa [OpChain.length] using ho
      exact ⟨c1, t1, h1, he1, by omega, by simp [this]⟩
  obtain ⟨oids, qnums, ho, hqs, hlast, hlen, hpos, hhead, hfit⟩ := toSpin_core L c2 t2 h2 he2 hl2
  have hq0 : pyIdx c.qnums 0 = .ok 0 := by rw [h.hq]; rfl
  have hql : c.qnums.getLast? = some 0 := h.wf.qlast
  have hstart : 0 ≤ c2.istart / 2 := by have := h2.wf.start; omega
  refine ⟨⟨oids, qnums, c2.coeff, c2.istart / 2⟩, ?_, ⟨hlen.symm, hpos, hstart, hfit, hhead, hlast⟩⟩
  unfold toSpinOpchain
  simp only [hq0, hql, bind, Except.bind, pyAssert, beq_self_eq_true, if_true, ← hc1]
  simp only [← hc2]
  have hl2' : (c2.length % 2 == 0) = true := by simpa [OpChain.length] using hl2
  have hl2'' : (c2.oids.length % 2 == 0) = true := by simpa using hl2
  simp only [hl2', if_true, ho, OpChain.length, hqs, hlast, beq_self_eq_true, pure, Except.pure, hl2'']
  exact mk'_ok oids qnums c2.coeff (c2.istart / 2) hlen hstart

end
end Ptn.Ham

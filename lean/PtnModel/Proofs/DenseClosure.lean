import PtnModel.Proofs.DenseApplyOk
/-!
# The results of `add_mps`, `add_mpo`, `multiply_mpo`, `apply_operator` are again `Shaped`

so that the dense-meaning theorems compose along chained expressions such as `(A + B) @ C` applied to `ψ`.
-/
namespace Ptn
open Finset Dense

set_option linter.unusedSectionVars false

namespace MPS
variable {R : Type} [CommRing R]

/-- `DimsMatch` by position -/
theorem dimsMatch_iff (d : Nat) : ∀ (As : List (T3 R)) (qD : List (List Int)),
    DimsMatch d As qD ↔ qD.length = As.length + 1 ∧ ∀ i A, As[i]? = some A →
      A.d0 = d ∧ A.d1 = (qD.getD i []).length ∧ A.d2 = (qD.getD (i + 1) []).length
  | [], [] => by simp [DimsMatch]
  | [], [_] => by simp [DimsMatch]
  | [], _ :: _ :: _ => by simp [DimsMatch]
  | _ :: _, [] => by simp [DimsMatch]
  | _ :: _, [_] => by simp [DimsMatch]
  | A :: As, q0 :: q1 :: qs => by
      rw [DimsMatch, dimsMatch_iff d As (q1 :: qs)]
      constructor
      · rintro ⟨h0, h1, h2, hl, hr⟩
        refine ⟨by simp at hl ⊢; omega, ?_⟩
        intro i B hB
        match i with
        | 0 =>
          simp only [List.getElem?_cons_zero, Option.some.injEq] at hB
          subst hB
          exact ⟨h0, by simpa using h1, by simpa using h2⟩
        | i + 1 =>
          simp only [List.getElem?_cons_succ] at hB
          have := hr i B hB
          simpa using this
      · rintro ⟨hl, hr⟩
        have h := hr 0 A rfl
        refine ⟨h.1, by simpa using h.2.1, by simpa using h.2.2, by simp at hl ⊢; omega, ?_⟩
        intro i B hB
        have := hr (i + 1) B (by simpa using hB)
        simpa using this

end MPS

namespace MPO
variable {R : Type} [CommRing R]

theorem dimsMatch_iff (d : Nat) : ∀ (As : List (T4 R)) (qD : List (List Int)),
    DimsMatch d As qD ↔ qD.length = As.length + 1 ∧ ∀ i A, As[i]? = some A →
      A.d0 = d ∧ A.d1 = d ∧ A.d2 = (qD.getD i []).length ∧ A.d3 = (qD.getD (i + 1) []).length
  | [], [] => by simp [DimsMatch]
  | [], [_] => by simp [DimsMatch]
  | [], _ :: _ :: _ => by simp [DimsMatch]
  | _ :: _, [] => by simp [DimsMatch]
  | _ :: _, [_] => by simp [DimsMatch]
  | A :: As, q0 :: q1 :: qs => by
      rw [DimsMatch, dimsMatch_iff d As (q1 :: qs)]
      constructor
      · rintro ⟨h0, h1, h2, h3, hl, hr⟩
        refine ⟨by simp at hl ⊢; omega, ?_⟩
        intro i B hB
        match i with
        | 0 =>
          simp only [List.getElem?_cons_zero, Option.some.injEq] at hB
          subst hB
          exact ⟨h0, h1, by simpa using h2, by simpa using h3⟩
        | i + 1 =>
          simp only [List.getElem?_cons_succ] at hB
          have := hr i B hB
          simpa using this
      · rintro ⟨hl, hr⟩
        have h := hr 0 A rfl
        refine ⟨h.1, h.2.1, by simpa using h.2.2.1, by simpa using h.2.2.2, by simp at hl ⊢; omega, ?_⟩
        intro i B hB
        have := hr (i + 1) B (by simpa using hB)
        simpa using this

end MPO

namespace Dense

theorem zipRel_get {α β γ : Type} (C : α → β → Prop) (g : α → β → γ) :
    ∀ (Xs : List α) (Ys : List β) (Zs : List γ), ZipRel C g Xs Ys Zs →
    ∀ (i : Nat) (Z : γ), Zs[i]? = some Z → ∃ X Y, Xs[i]? = some X ∧ Ys[i]? = some Y ∧ C X Y ∧ Z = g X Y
  | [], [], [], _, i, Z, h => by simp at h
  | X :: Xs, Y :: Ys, Z :: Zs, h, i, Z', hZ => by
      obtain ⟨hC, rfl, h⟩ := h
      match i with
      | 0 =>
        simp only [List.getElem?_cons_zero, Option.some.injEq] at hZ
        subst hZ
        exact ⟨X, Y, rfl, rfl, hC, rfl⟩
      | i + 1 =>
        simp only [List.getElem?_cons_succ] at hZ ⊢
        exact zipRel_get C g Xs Ys Zs h i Z' hZ
  | [], [], _ :: _, h, _, _, _ => by simp [ZipRel] at h
  | [], _ :: _, _, h, _, _, _ => by simp [ZipRel] at h
  | _ :: _, [], _, h, _, _, _ => by simp [ZipRel] at h
  | _ :: _, _ :: _, [], h, _, _, _ => by simp [ZipRel] at h

end Dense

namespace MPO
variable {R : Type} [CommRing R] [DecidableEq R]

theorem getElem?_lt {β : Type} {l : List β} {i : Nat} {x : β} (h : l[i]? = some x) : i < l.length := by
  rcases Nat.lt_or_ge i l.length with h' | h'
  · exact h'
  · simp [List.getElem?_eq_none h'] at h

/-- all fields of a successful `multiply` -/
theorem multiply_fields (o0 o1 r : MPO R) (h : MPO.multiply o0 o1 = .ok r) :
    r.qd = o0.qd ∧
    r.qD = (List.range (o0.A.length + 1)).map (fun i => QN.flatten2 (o0.qD.getD i []) (o1.qD.getD i [])) ∧
    ZipRel (fun X Y : T4 R => X.d1 = Y.d0) (fun X Y => (mulT X Y).tab) o0.A o1.A r.A := by
  have hz := multiply_A o0 o1 r h
  unfold MPO.multiply at h
  simp only [pyAssert_bind] at h
  obtain ⟨_, _, h⟩ := h
  simp only [bind_ok, pure_ok] at h
  obtain ⟨res, _, rfl⟩ := h
  exact ⟨rfl, rfl, hz⟩

/-- the product of two shaped MPOs is shaped -/
theorem multiply_shaped (o0 o1 r : MPO R) (d : Nat) (h0 : Shaped o0 d) (h1 : Shaped o1 d)
    (h : MPO.multiply o0 o1 = .ok r) : Shaped r d := by
  obtain ⟨hqd, hqD, hz⟩ := multiply_fields o0 o1 r h
  obtain ⟨hl1, hlr⟩ := zipRel_length _ _ _ _ _ hz
  obtain ⟨l0, s0⟩ := (dimsMatch_iff d _ _).1 h0.dims
  obtain ⟨l1, s1⟩ := (dimsMatch_iff d _ _).1 h1.dims
  refine ⟨by rw [hqd]; exact h0.qd_len, ?_, ?_, ?_⟩
  · intro hr
    have := h0.nonempty
    rw [hr] at hlr
    exact this (List.length_eq_zero_iff.1 hlr.symm)
  · simpa using zipRel_chain d _ _ _ 1 1 1 1 hz h0.chain h1.chain
  · rw [dimsMatch_iff]
    refine ⟨by rw [hqD, hlr]; simp, ?_⟩
    intro i Z hZ
    have hi : i < o0.A.length := hlr ▸ getElem?_lt hZ
    obtain ⟨X, Y, hX, hY, _, rfl⟩ := zipRel_get _ _ _ _ _ hz i Z hZ
    obtain ⟨x0, x1, x2, x3⟩ := s0 i X hX
    obtain ⟨y0, y1, y2, y3⟩ := s1 i Y hY
    rw [hqD, MPS.getD_map_range _ _ i (by omega), MPS.getD_map_range _ _ (i + 1) (by omega)]
    simp only [T4.tab_d0, T4.tab_d1, T4.tab_d2, T4.tab_d3, mulT, flatten2_length]
    exact ⟨x0, y1, by rw [x2, y2], by rw [x3, y3]⟩

end MPO

namespace Op
variable {R : Type} [CommRing R] [DecidableEq R]

theorem apply_fields (o : MPO R) (ψ r : MPS R) (h : applyOperator o ψ = .ok r) :
    r.qd = ψ.qd ∧
    r.qD = (List.range (ψ.A.length + 1)).map (fun i => QN.flatten2 (o.qD.getD i []) (ψ.qD.getD i [])) ∧
    ZipRel (fun (W : T4 R) (P : T3 R) => W.d1 = P.d0) (fun W P => (appT W P).tab) o.A ψ.A r.A := by
  have hz := apply_A o ψ r h
  unfold applyOperator at h
  simp only [pyAssert_bind] at h
  obtain ⟨_, _, _, h⟩ := h
  simp only [bind_ok, pure_ok] at h
  obtain ⟨res, _, rfl⟩ := h
  exact ⟨rfl, rfl, hz⟩

/-- applying a shaped MPO to a shaped MPS gives a shaped MPS -/
theorem apply_shaped (o : MPO R) (ψ r : MPS R) (d : Nat) (h0 : MPO.Shaped o d) (h1 : MPS.Shaped ψ d)
    (h : applyOperator o ψ = .ok r) : MPS.Shaped r d := by
  obtain ⟨hqd, hqD, hz⟩ := apply_fields o ψ r h
  obtain ⟨hl1, hlr⟩ := zipRel_length _ _ _ _ _ hz
  obtain ⟨l0, s0⟩ := (MPO.dimsMatch_iff d _ _).1 h0.dims
  obtain ⟨l1, s1⟩ := (MPS.dimsMatch_iff d _ _).1 h1.dims
  refine ⟨by rw [hqd]; exact h1.qd_len, ?_, ?_, ?_⟩
  · intro hr
    have := h0.nonempty
    rw [hr] at hlr
    exact this (List.length_eq_zero_iff.1 hlr.symm)
  · simpa using zipRel_chain d _ _ _ 1 1 1 1 hz h0.chain h1.chain
  · rw [MPS.dimsMatch_iff]
    refine ⟨by rw [hqD, hlr, hl1]; simp, ?_⟩
    intro i Z hZ
    have hi : i < ψ.A.length := hl1 ▸ hlr ▸ MPO.getElem?_lt hZ
    obtain ⟨W, P, hW, hP, _, rfl⟩ := zipRel_get _ _ _ _ _ hz i Z hZ
    obtain ⟨x0, x1, x2, x3⟩ := s0 i W hW
    obtain ⟨y0, y1, y2⟩ := s1 i P hP
    rw [hqD, MPS.getD_map_range _ _ i (by omega), MPS.getD_map_range _ _ (i + 1) (by omega)]
    simp only [T3.tab_d0, T3.tab_d1, T3.tab_d2, appT, flatten2_length]
    exact ⟨x0, by rw [x2, y1], by rw [x3, y2]⟩

end Op
end Ptn

import PtnModel.Proofs.HistEvoTwo
import PtnModel.Proofs.EvoExample
/-!
# C02: a successful single-site TDVP run on one site

`tdvp1_one_site_ok`: for a one-site chain, a kernel family with the QR contract of C01, the norm contract and the trivial
eigen-decomposition of `1 × 1` matrices, `integrate_local_singlesite(H, psi, dt, 1, 1)` returns (one time step, one Lanczos
iteration).  Used for the driver-level non-vacuity examples of `Props/C02Evo.lean`.
-/
set_option linter.unusedSectionVars false
namespace Ptn.HistWf
open Ptn Ptn.Evo Ptn.Krylov Ptn.Ortho Ptn.BondOps Ptn.Dense Finset
variable {𝕜 : Type} [RCLike 𝕜] [DecidableEq 𝕜]

theorem rightBlocks_one {A1 : T3 𝕜} {W : T4 𝕜} {ψ1 : MPS 𝕜} {H : MPO 𝕜} (hA : ψ1.A = [A1]) (hW : H.A = [W]) :
    Op.rightBlocks ψ1 H = .ok [(⟨1, 1, 1, fun _ _ _ => 1⟩ : T3 𝕜)] := by
  unfold Op.rightBlocks
  rw [hA, hW]
  rfl

theorem prologue_one {k : EvoKernels 𝕜 ℝ} {H : MPO 𝕜} {ψ ψ1 : MPS 𝕜} {nrm : ℝ} {A1 : T3 𝕜} {W : T4 𝕜}
    (hψL : ψ.A.length = 1) (hW : H.A = [W]) (ho : MPS.orthonormalize (ρ := ℝ) k.dqr ψ false = .ok (ψ1, nrm))
    (hA : ψ1.A = [A1]) (hq1 : (H.qD.getD 1 []).getD 0 0 = 0) :
    prologue k H ψ = .ok (⟨#[A1], ψ1.qD.toArray, #[ones111], #[(⟨1, 1, 1, fun _ _ _ => 1⟩ : T3 𝕜)]⟩, nrm) := by
  have hbs : blockSparse (⟨1, 1, 1, fun _ _ _ => 1⟩ : T3 𝕜) (ψ1.qD.getD 1 []) (H.qD.getD 1 []) = true := by
    rw [blockSparse_iff]
    intro a w b ha hw hb _
    have ha' : a = 0 := by have : a < 1 := ha; omega
    have hw' : w = 0 := by have : w < 1 := hw; omega
    have hb' : b = 0 := by have : b < 1 := hb; omega
    subst ha' hw' hb'
    rw [hq1]; omega
  unfold prologue
  have hlen : (H.A.length == ψ.A.length) = true := by rw [hW, hψL]; rfl
  rw [hlen]
  simp only [pyAssert, if_true, bind, Except.bind]
  have ho' : MPS.orthonormalize k.dqr ψ false = Except.ok (ψ1, nrm) := ho
  rw [ho']
  dsimp only
  rw [rightBlocks_one hA hW]
  dsimp only
  simp only [List.length_singleton, List.range_one, List.forIn_cons, List.forIn_nil, List.getD_cons_zero, hbs, if_true,
    bind, Except.bind, pure, Except.pure, hW, hA]
  rfl

/-- a right isometry with left bond dimension one has a non-zero entry -/
theorem rightIso_entry {A : T3 𝕜} (h : RightIso A) (hd : 0 < A.d1) : ∃ z ∈ flat3 A, z ≠ 0 := by
  have h1 := h 0 0 hd hd
  rw [if_pos rfl] at h1
  have hne : (∑ s ∈ range A.d0, ∑ b ∈ range A.d2, star (A.f s 0 b) * A.f s 0 b) ≠ 0 := by rw [h1]; exact one_ne_zero
  obtain ⟨s, hs, h2⟩ := Finset.exists_ne_zero_of_sum_ne_zero hne
  obtain ⟨b, hb, h3⟩ := Finset.exists_ne_zero_of_sum_ne_zero h2
  have hs' := Finset.mem_range.1 hs
  have hb' := Finset.mem_range.1 hb
  have hz : A.f s 0 b ≠ 0 := fun h0 => h3 (by rw [h0, mul_zero])
  refine ⟨A.f s 0 b, ?_, hz⟩
  have hv := vget_flat3 A hs' hd hb'
  have hlt : (s * A.d1 + 0) * A.d2 + b < (flat3 A).length := by rw [length_flat3]; exact idx3_lt hs' hd hb'
  rw [← hv]
  unfold vget
  rw [List.getD_eq_getElem?_getD, List.getElem?_eq_getElem hlt]
  exact List.getElem_mem hlt

/-- **a one-site single-site-TDVP run returns** (one time step, one Lanczos iteration) -/
theorem tdvp1_one_site_ok {k : EvoKernels 𝕜 ℝ} (hq : C01.QRKernel k.dqr) (hN : NormContract k.cnorm) (hd : k.deigh = triv1)
    {H : MPO 𝕜} {ψ : MPS 𝕜} {W : T4 𝕜} (hadm : Admissible ψ) (hψL : ψ.A.length = 1) (hW : H.A = [W])
    (hq1 : (H.qD.getD 1 []).getD 0 0 = 0) (dt : 𝕜) :
    ∃ r, integrateLocalSinglesite k H ψ dt 1 1 = .ok r := by
  obtain ⟨ψ1, nrm, ho⟩ := C01.ortho_ok (dqr := k.dqr) hq.contract.shape hadm false
  obtain ⟨hadm1, _, hlen⟩ := C01.ortho_wf (dqr := k.dqr) hq.contract.shape hadm ho
  have hiso := C01.ortho_isometry hq hadm ho
  obtain ⟨A1, hA⟩ : ∃ A1, ψ1.A = [A1] := by
    have : ψ1.A.length = 1 := hlen.trans hψL
    match hψ : ψ1.A, this with
    | [A1], _ => exact ⟨A1, rfl⟩
  have hp := prologue_one (k := k) (H := H) hψL hW ho hA hq1
  have hri : RightIso A1 := by
    have := hiso A1 (by rw [hA]; exact List.mem_singleton.2 rfl)
    simpa using this
  -- the left bond of the single tensor has dimension one
  have hd1 : 0 < A1.d1 := by
    obtain ⟨_, hs⟩ := wf_index hadm1.wf
    have h0 := (hs 0 (by rw [hA]; exact Nat.one_pos)).2.1
    have e : ψ1.A.getD 0 emptyT3 = A1 := by rw [hA]; rfl
    rw [e] at h0
    rw [h0]
    apply hadm1.bond_pos
    have hl : 0 < ψ1.qD.length := by have := (wf_index hadm1.wf).1; omega
    rw [List.getD_eq_getElem?_getD, List.getElem?_eq_getElem hl]
    exact List.getElem_mem hl
  have hpos : 0 < k.cnorm (flat3 A1) := (hN.pos_iff _).2 (rightIso_entry hri hd1)
  obtain ⟨Al, hAl⟩ := localStep_ok_one (k := k) hd (L := ones111) (R := (⟨1, 1, 1, fun _ _ _ => 1⟩ : T3 𝕜)) (W := W)
    (A := A1) hN hpos dt
  unfold integrateLocalSinglesite
  rw [hp]
  have hL : H.A.length = 1 := by rw [hW]; rfl
  simp only [bind, Except.bind, hL, Nat.one_ne_zero, if_false]
  unfold iterate iterate tdvp1Step
  simp only [hL, Nat.sub_self, List.range_zero, List.reverse_nil, List.map_nil, foldIdx, List.foldlM_nil, bind,
    Except.bind, pure, Except.pure]
  have e1 : getBL (⟨#[A1], ψ1.qD.toArray, #[ones111], #[(⟨1, 1, 1, fun _ _ _ => 1⟩ : T3 𝕜)]⟩ : Sweep 𝕜) 0 = ones111 := rfl
  have e2 : getBR (⟨#[A1], ψ1.qD.toArray, #[ones111], #[(⟨1, 1, 1, fun _ _ _ => 1⟩ : T3 𝕜)]⟩ : Sweep 𝕜) 0 =
      (⟨1, 1, 1, fun _ _ _ => 1⟩ : T3 𝕜) := rfl
  have e3 : getA (⟨#[A1], ψ1.qD.toArray, #[ones111], #[(⟨1, 1, 1, fun _ _ _ => 1⟩ : T3 𝕜)]⟩ : Sweep 𝕜) 0 = A1 := rfl
  have e4 : H.A.getD 0 (⟨0, 0, 0, 0, fun _ _ _ _ => 0⟩ : T4 𝕜) = W := by rw [hW]; rfl
  rw [e1, e2, e3, e4, hAl]
  exact ⟨_, rfl⟩

end Ptn.HistWf

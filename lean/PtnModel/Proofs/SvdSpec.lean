import PtnModel.Proofs.QrMain
import PtnModel.Proofs.SvdAlg
/-!
# The pipeline of `split_matrix_svd`: sort → loop over shared charges → truncate → un-sort

Named pieces of `BondOps.splitMatrixSvd` (`svdLoopState`, `keptIdx`, `outU`, `outS`, `outV`, `outQn`; the sorted
input `srt` and the list `blocks` of matrices handed to the kernel are those of `qr`), the unfolding lemmas
`split_eq`/`split_eq_zero`, and the entry-wise description of each piece.
-/
set_option linter.unusedSectionVars false

namespace Ptn.BondOps
open Finset

variable {𝕜 : Type} [CommRing 𝕜] [DecidableEq 𝕜]
variable {ρ : Type} [Field ρ] [LinearOrder ρ] [IsStrictOrderedRing ρ]

/-! ### named pieces -/

/-- the state after the loop `for qn in qis` of `split_matrix_svd` -/
def svdLoopState (dsvd : Mat 𝕜 → Mat 𝕜 × List ρ × Mat 𝕜) (A : Mat 𝕜) (q0 q1 : List Int) : SVDState 𝕜 ρ :=
  let s := srt A q0 q1
  let maxdim := min s.2.2.m s.2.2.n
  (intersect1d q0 q1).foldl (svdStep dsvd s.2.2 s.1 s.2.1)
    ⟨0, Mat.zero s.2.2.m maxdim, Mat.zero maxdim s.2.2.n, [], []⟩

/-- the concatenated block spectra (before truncation) -/
def spectrum (dsvd : Mat 𝕜 → Mat 𝕜 × List ρ × Mat 𝕜) (A : Mat 𝕜) (q0 q1 : List Int) : List ρ :=
  (svdLoopState dsvd A q0 q1).s

/-- the retained indices -/
def keptIdx (dnorm : List ρ → ρ) (dargsort : List ρ → List Nat) (dsvd : Mat 𝕜 → Mat 𝕜 × List ρ × Mat 𝕜)
    (A : Mat 𝕜) (q0 q1 : List Int) (tol : ρ) : List Nat :=
  retainedBondIndices dnorm dargsort (spectrum dsvd A q0 q1) tol

def outU (dnorm : List ρ → ρ) (dargsort : List ρ → List Nat) (dsvd : Mat 𝕜 → Mat 𝕜 × List ρ × Mat 𝕜)
    (A : Mat 𝕜) (q0 q1 : List Int) (tol : ρ) : Mat 𝕜 :=
  let u := ((svdLoopState dsvd A q0 q1).u.selectCols (keptIdx dnorm dargsort dsvd A q0 q1 tol)).tab
  if !isIdPerm (stableArgsort q0) then (u.selectRows (invPerm (stableArgsort q0))).tab else u

def outV (dnorm : List ρ → ρ) (dargsort : List ρ → List Nat) (dsvd : Mat 𝕜 → Mat 𝕜 × List ρ × Mat 𝕜)
    (A : Mat 𝕜) (q0 q1 : List Int) (tol : ρ) : Mat 𝕜 :=
  let v := ((svdLoopState dsvd A q0 q1).v.selectRows (keptIdx dnorm dargsort dsvd A q0 q1 tol)).tab
  if !isIdPerm (stableArgsort q1) then (v.selectCols (invPerm (stableArgsort q1))).tab else v

def outS (dnorm : List ρ → ρ) (dargsort : List ρ → List Nat) (dsvd : Mat 𝕜 → Mat 𝕜 × List ρ × Mat 𝕜)
    (A : Mat 𝕜) (q0 q1 : List Int) (tol : ρ) : List ρ :=
  (keptIdx dnorm dargsort dsvd A q0 q1 tol).map fun i => (spectrum dsvd A q0 q1).getD i 0

def outQn (dnorm : List ρ → ρ) (dargsort : List ρ → List Nat) (dsvd : Mat 𝕜 → Mat 𝕜 × List ρ × Mat 𝕜)
    (A : Mat 𝕜) (q0 q1 : List Int) (tol : ρ) : List Int :=
  (keptIdx dnorm dargsort dsvd A q0 q1 tol).map fun i => (svdLoopState dsvd A q0 q1).q.getD i 0

theorem toArray_getD {α : Type} (l : List α) (i : Nat) (d : α) : l.toArray.getD i d = l.getD i d := by
  simp [Array.getD, List.getD_eq_getElem?_getD]
  split <;> simp_all

/-- some in-range entry of `M` is non-zero (`np.any(M)`) -/
def AnyNZ (M : Mat 𝕜) : Prop := ∃ i j, i < M.m ∧ j < M.n ∧ M.f i j ≠ 0

theorem not_anyNZ_iff (M : Mat 𝕜) : ¬ AnyNZ M ↔ ∀ i j, i < M.m → j < M.n → M.f i j = 0 := by
  unfold AnyNZ
  constructor
  · intro h i j hi hj
    by_contra hne
    exact h ⟨i, j, hi, hj, hne⟩
  · rintro h ⟨i, j, hi, hj, hne⟩
    exact hne (h i j hi hj)

theorem all_zero_false_iff (M : Mat 𝕜) : (M.all fun x => decide (x = 0)) = false ↔ AnyNZ M := by
  rw [← Bool.not_eq_true, all_zero_iff, ← not_anyNZ_iff, Classical.not_not]

/-- `split_matrix_svd` when the three input assertions pass, there is a shared charge and the matrix is not zero -/
theorem split_eq (dsvd : Mat 𝕜 → Mat 𝕜 × List ρ × Mat 𝕜) (dnorm : List ρ → ρ) (dargsort : List ρ → List Nat)
    (A : Mat 𝕜) (q0 q1 : List Int) (tol : ρ)
    (hq0 : q0.length = A.m) (hq1 : q1.length = A.n) (hsp : QN.isSparseMat A q0 q1 = true)
    (hne : (intersect1d q0 q1).isEmpty = false) (hnz : (A.all fun x => decide (x = 0)) = false) :
    splitMatrixSvd dsvd dnorm dargsort A q0 q1 tol =
      if (svdLoopState dsvd A q0 q1).D ≤ min (srt A q0 q1).2.2.m (srt A q0 q1).2.2.n then
        .ok (outU dnorm dargsort dsvd A q0 q1 tol, outS dnorm dargsort dsvd A q0 q1 tol,
          outV dnorm dargsort dsvd A q0 q1 tol, outQn dnorm dargsort dsvd A q0 q1 tol)
      else .error .assertion := by
  have key : splitMatrixSvd dsvd dnorm dargsort A q0 q1 tol = (do
      pyAssert (q0.length == A.m)
      pyAssert (q1.length == A.n)
      pyAssert (QN.isSparseMat A q0 q1)
      if (intersect1d q0 q1).isEmpty || (A.all fun x => decide (x = 0)) then
        pyAssert (A.all fun x => decide (x = 0))
        let u : Mat 𝕜 := ⟨A.m, 1, fun i _ => if i = 0 then 1 else 0⟩
        let v : Mat 𝕜 := Mat.zero 1 A.n
        return (u, [0], v, q0.take 1)
      pyAssert ((svdLoopState dsvd A q0 q1).D ≤ min (srt A q0 q1).2.2.m (srt A q0 q1).2.2.n)
      let idx := keptIdx dnorm dargsort dsvd A q0 q1 tol
      let sa := (svdLoopState dsvd A q0 q1).s.toArray
      let qa := (svdLoopState dsvd A q0 q1).q.toArray
      return (outU dnorm dargsort dsvd A q0 q1 tol, idx.map fun i => sa.getD i 0,
        outV dnorm dargsort dsvd A q0 q1 tol, idx.map fun i => qa.getD i 0)) := rfl
  rw [key]
  simp only [hq0, hq1, hsp, hne, hnz, Bool.or_self, beq_self_eq_true, pyAssert, if_true, bind, Except.bind, pure,
    Except.pure, Bool.false_eq_true, if_false, toArray_getD]
  by_cases h : (svdLoopState dsvd A q0 q1).D ≤ min (srt A q0 q1).2.2.m (srt A q0 q1).2.2.n
  · simp [h, outS, outQn, spectrum]
  · simp [h]

/-- `split_matrix_svd` when the three input assertions pass and the matrix is zero (shared charges or not) -/
theorem split_eq_zero (dsvd : Mat 𝕜 → Mat 𝕜 × List ρ × Mat 𝕜) (dnorm : List ρ → ρ) (dargsort : List ρ → List Nat)
    (A : Mat 𝕜) (q0 q1 : List Int) (tol : ρ)
    (hq0 : q0.length = A.m) (hq1 : q1.length = A.n) (hsp : QN.isSparseMat A q0 q1 = true)
    (hz : (A.all fun x => decide (x = 0)) = true) :
    splitMatrixSvd dsvd dnorm dargsort A q0 q1 tol =
      .ok (⟨A.m, 1, fun i _ => if i = 0 then 1 else 0⟩, [0], Mat.zero 1 A.n, q0.take 1) := by
  unfold splitMatrixSvd
  simp only [hq0, hq1, hsp, hz, Bool.or_true, beq_self_eq_true, pyAssert, if_true, bind, Except.bind, pure, Except.pure]

/-! ### contracts at the blocks of the run -/

def SvdShape (dsvd : Mat 𝕜 → Mat 𝕜 × List ρ × Mat 𝕜) (A : Mat 𝕜) (q0 q1 : List Int) : Prop :=
  ∀ B ∈ blocks A q0 q1, SvdShapeAt dsvd B

def SvdProduct (ι : ρ →+* 𝕜) (dsvd : Mat 𝕜 → Mat 𝕜 × List ρ × Mat 𝕜) (A : Mat 𝕜) (q0 q1 : List Int) : Prop :=
  ∀ B ∈ blocks A q0 q1, SvdProdAt ι dsvd B

def SvdIsoU [StarRing 𝕜] (dsvd : Mat 𝕜 → Mat 𝕜 × List ρ × Mat 𝕜) (A : Mat 𝕜) (q0 q1 : List Int) : Prop :=
  ∀ B ∈ blocks A q0 q1, IsoAt (toQr dsvd) B

def SvdIsoV [StarRing 𝕜] (dsvd : Mat 𝕜 → Mat 𝕜 × List ρ × Mat 𝕜) (A : Mat 𝕜) (q0 q1 : List Int) : Prop :=
  ∀ B ∈ blocks A q0 q1, IsoRAt (toQr dsvd) B

def SvdNonneg (dsvd : Mat 𝕜 → Mat 𝕜 × List ρ × Mat 𝕜) (A : Mat 𝕜) (q0 q1 : List Int) : Prop :=
  ∀ B ∈ blocks A q0 q1, SvdNonnegAt dsvd B

section
variable {dsvd : Mat 𝕜 → Mat 𝕜 × List ρ × Mat 𝕜} {A : Mat 𝕜} {q0 q1 : List Int}

theorem svd_ctx (hshape : SvdShape dsvd A q0 q1) (hq0 : q0.length = A.m) (hq1 : q1.length = A.n) :
    SvdCtx dsvd (srt A q0 q1).2.2 (srt A q0 q1).1 (srt A q0 q1).2.1 := by
  obtain ⟨s0, s1, sm, sn, -⟩ := srt_spec A q0 q1 hq0 hq1
  refine ⟨?_, ?_, ?_, ?_, fun _ h0 h1 => hshape _ (mem_blocks A q0 q1 hq0 hq1 h0 h1)⟩
  · rw [s0]; exact stableArgsort_sorted q0
  · rw [s1]; exact stableArgsort_sorted q1
  · rw [s0, sm, permuteList_length, stableArgsort_length, hq0]
  · rw [s1, sn, permuteList_length, stableArgsort_length, hq1]

theorem svdLoopState_inv (hshape : SvdShape dsvd A q0 q1) (hq0 : q0.length = A.m) (hq1 : q1.length = A.n) :
    SvdInv (srt A q0 q1).2.2 (srt A q0 q1).1 (srt A q0 q1).2.1 (intersect1d q0 q1) (svdLoopState dsvd A q0 q1) :=
  svdInv_foldl (pairwise_intersect1d q0 q1) (srt_mem A q0 q1 hq0 hq1) (svd_ctx hshape hq0 hq1) _ _ _ _

/-- the QR projection of the SVD loop is the QR loop of the kernel `toQr dsvd` -/
theorem svdLoopState_toQr (hshape : SvdShape dsvd A q0 q1) (hq0 : q0.length = A.m) (hq1 : q1.length = A.n) :
    (svdLoopState dsvd A q0 q1).toQr = loopState (toQr dsvd) A q0 q1 :=
  svd_foldl_toQr (pairwise_intersect1d q0 q1) (srt_mem A q0 q1 hq0 hq1) (svd_ctx hshape hq0 hq1) _ _ _ _

theorem svdLoopState_prod (ι : ρ →+* 𝕜) (hshape : SvdShape dsvd A q0 q1) (hprod : SvdProduct ι dsvd A q0 q1)
    (hq0 : q0.length = A.m) (hq1 : q1.length = A.n) :
    SProdInv ι (srt A q0 q1).2.2 (srt A q0 q1).1 (srt A q0 q1).2.1 (intersect1d q0 q1) (svdLoopState dsvd A q0 q1) :=
  sProdInv_foldl (pairwise_intersect1d q0 q1) (srt_mem A q0 q1 hq0 hq1) ι (svd_ctx hshape hq0 hq1)
    (fun _ h0 h1 => hprod _ (mem_blocks A q0 q1 hq0 hq1 h0 h1)) _ _ _ _

theorem shape_toQr (hshape : SvdShape dsvd A q0 q1) : QRShape (toQr dsvd) A q0 q1 :=
  fun B hB => (hshape B hB).toQr

theorem svdLoopState_isoU [StarRing 𝕜] (hshape : SvdShape dsvd A q0 q1) (hiso : SvdIsoU dsvd A q0 q1)
    (hq0 : q0.length = A.m) (hq1 : q1.length = A.n) :
    IsoInv (srt A q0 q1).2.2 (svdLoopState dsvd A q0 q1).toQr := by
  rw [svdLoopState_toQr hshape hq0 hq1]
  exact loopState_iso A q0 q1 (shape_toQr hshape) hiso hq0 hq1

theorem svdLoopState_isoV [StarRing 𝕜] (hshape : SvdShape dsvd A q0 q1) (hiso : SvdIsoV dsvd A q0 q1)
    (hq0 : q0.length = A.m) (hq1 : q1.length = A.n) :
    IsoRInv (srt A q0 q1).2.2 (svdLoopState dsvd A q0 q1).toQr := by
  rw [svdLoopState_toQr hshape hq0 hq1]
  exact isoRInv_foldl (srt_ctx A q0 q1 (shape_toQr hshape) hq0 hq1)
    (fun _ h0 h1 => hiso _ (mem_blocks A q0 q1 hq0 hq1 h0 h1)) (pairwise_intersect1d q0 q1)
    (srt_mem A q0 q1 hq0 hq1) _ _ _ _

theorem spectrum_nonneg (hnn : SvdNonneg dsvd A q0 q1) (hq0 : q0.length = A.m) (hq1 : q1.length = A.n) :
    ∀ x ∈ spectrum dsvd A q0 q1, 0 ≤ x :=
  nonneg_foldl (srt_mem A q0 q1 hq0 hq1) (fun _ h0 h1 => hnn _ (mem_blocks A q0 q1 hq0 hq1 h0 h1)) _ _ _ _

theorem svdLoopState_dims (hq0 : q0.length = A.m) (hq1 : q1.length = A.n) :
    (svdLoopState dsvd A q0 q1).u.m = A.m ∧ (svdLoopState dsvd A q0 q1).v.n = A.n := by
  obtain ⟨-, -, sm, sn, -⟩ := srt_spec A q0 q1 hq0 hq1
  obtain ⟨h1, h2⟩ := svd_foldl_dims (dsvd := dsvd) (As := (srt A q0 q1).2.2) (q0s := (srt A q0 q1).1)
    (q1s := (srt A q0 q1).2.1) (intersect1d q0 q1)
    ⟨0, Mat.zero (srt A q0 q1).2.2.m (min (srt A q0 q1).2.2.m (srt A q0 q1).2.2.n),
      Mat.zero (min (srt A q0 q1).2.2.m (srt A q0 q1).2.2.n) (srt A q0 q1).2.2.n, [], []⟩
  exact ⟨h1.trans sm, h2.trans sn⟩

/-! ### the returned factors, entry by entry -/

variable (dnorm : List ρ → ρ) (dargsort : List ρ → List Nat) (tol : ρ)

theorem outU_spec (hq0 : q0.length = A.m) (hq1 : q1.length = A.n) :
    (outU dnorm dargsort dsvd A q0 q1 tol).m = A.m ∧
    (outU dnorm dargsort dsvd A q0 q1 tol).n = (keptIdx dnorm dargsort dsvd A q0 q1 tol).length ∧
    ∀ i t, i < A.m → t < (keptIdx dnorm dargsort dsvd A q0 q1 tol).length →
      (outU dnorm dargsort dsvd A q0 q1 tol).f i t =
        (svdLoopState dsvd A q0 q1).u.f ((invPerm (stableArgsort q0)).getD i 0)
          ((keptIdx dnorm dargsort dsvd A q0 q1 tol).getD t 0) := by
  obtain ⟨um, -⟩ := svdLoopState_dims (dsvd := dsvd) hq0 hq1
  have hσ := stableArgsort_perm q0
  rw [hq0] at hσ
  have hinv := invPerm_spec hσ
  obtain ⟨u1, u2, u3⟩ := unsortRows_spec
    (((svdLoopState dsvd A q0 q1).u.selectCols (keptIdx dnorm dargsort dsvd A q0 q1 tol)).tab)
    (stableArgsort q0) hσ (by simp [um])
  refine ⟨u1, u2.trans (by simp), ?_⟩
  intro i t hi ht
  have := u3 i t hi (by simpa using ht)
  rw [Mat.tab_f _ (by simpa [um] using hinv.τ_lt i hi) (by simpa using ht), Mat.selectCols_f _ _ _ ht] at this
  exact this

theorem outV_spec (hq0 : q0.length = A.m) (hq1 : q1.length = A.n) :
    (outV dnorm dargsort dsvd A q0 q1 tol).m = (keptIdx dnorm dargsort dsvd A q0 q1 tol).length ∧
    (outV dnorm dargsort dsvd A q0 q1 tol).n = A.n ∧
    ∀ t j, t < (keptIdx dnorm dargsort dsvd A q0 q1 tol).length → j < A.n →
      (outV dnorm dargsort dsvd A q0 q1 tol).f t j =
        (svdLoopState dsvd A q0 q1).v.f ((keptIdx dnorm dargsort dsvd A q0 q1 tol).getD t 0)
          ((invPerm (stableArgsort q1)).getD j 0) := by
  obtain ⟨-, vn⟩ := svdLoopState_dims (dsvd := dsvd) hq0 hq1
  have hσ := stableArgsort_perm q1
  rw [hq1] at hσ
  have hinv := invPerm_spec hσ
  obtain ⟨u1, u2, u3⟩ := unsortCols_spec
    (((svdLoopState dsvd A q0 q1).v.selectRows (keptIdx dnorm dargsort dsvd A q0 q1 tol)).tab)
    (stableArgsort q1) hσ (by simp [vn])
  refine ⟨u1.trans (by simp), u2, ?_⟩
  intro t j ht hj
  have := u3 t j (by simpa using ht) hj
  rw [Mat.tab_f _ (by simpa using ht) (by simpa [vn] using hinv.τ_lt j hj), Mat.selectRows_f _ _ _ ht] at this
  exact this

end
end Ptn.BondOps

import PtnModel.Proofs.TreeFinal
import PtnModel.Proofs.OgLevels
/-!
# `from_optrees` (before `simplify`): the graph is layered, hence passes the level clause of `is_consistent`
-/
set_option linter.unusedSectionVars false

namespace Ptn.Og
open List Ptn.Dense

variable {κ : Type} [CommRing κ] [DecidableEq κ]

/-- `ℓ` is a level function: every edge leads to the next level -/
def Lev (g : Graph κ) (ℓ : Int → Int) : Prop := ∀ e ∈ g.edgeList, ℓ e.nids.2 = ℓ e.nids.1 + 1

theorem reach_level {g : Graph κ} (sv : SValid g) {ℓ : Int → Int} (hl : Lev g ℓ) {d : Bool} {x y : Int} {k : Nat}
    (h : ReachFrom g d x k y) : ℓ y = ℓ x + (if d then -(k : Int) else (k : Int)) := by
  induction h with
  | refl x => simp
  | @cons x n eid e k y hn he hlk _ ih =>
    obtain ⟨e', he', hx⟩ := sv.nodeEdge x n (mem_of_dGet?_eq_some hn) (!d) eid he
    have := sv.edge_unique he' (mem_of_dGet?_eq_some hlk)
    subst this
    have hmem : e' ∈ g.edgeList := mem_map.2 ⟨(eid, e'), he', rfl⟩
    have hlev := hl e' hmem
    rw [ih]
    cases d
    · simp only [Bool.not_false, Bool.not_true, Edge.nid, Bool.false_eq_true, if_false, if_true] at hx ⊢
      rw [hlev, hx]; push_cast; ring
    · simp only [Bool.not_true, Bool.not_false, Edge.nid, if_true, Bool.false_eq_true, if_false] at hx ⊢
      have : ℓ e'.nids.1 = ℓ x - 1 := by rw [← hx, hlev]; ring
      rw [this]; push_cast; ring

/-- a level function yields the level clause of `is_consistent` in both directions -/
theorem levelFun_of_lev {g : Graph κ} (sv : SValid g) {ℓ : Int → Int} (hl : Lev g ℓ) (d : Bool) : LevelFun g d := by
  intro y j j' h1 h2
  have e1 := reach_level sv hl h1
  have e2 := reach_level sv hl h2
  cases d <;> simp only [Bool.false_eq_true, if_false, if_true] at e1 e2 <;> omega

theorem valid_of_lev {g : Graph κ} (sv : SValid g) {ℓ : Int → Int} (hl : Lev g ℓ) : Valid g :=
  (valid_iff_levelFun g).2 ⟨sv, levelFun_of_lev sv hl false, levelFun_of_lev sv hl true⟩

/-! ## primitive steps -/

theorem Lev.plusNode {g : Graph κ} {ℓ : Int → Int} (hl : Lev g ℓ) (k q : Int) : Lev (g.plusNode k q) ℓ := hl

/-- a fresh node below `x` gets the next level -/
theorem Lev.plusNodeEdge {g : Graph κ} (sv : SValid g) {ℓ : Int → Int} (hl : Lev g ℓ) {x y q eid : Int}
    {ops : List (Int × κ)} (hx : x ∈ dKeys g.nodes) (hy : y ∉ dKeys g.nodes) :
    Lev ((g.plusNode y q).plusEdge (Edge.mk' eid (x, y) ops)) (Function.update ℓ y (ℓ x + 1)) := by
  intro e he
  rw [plusEdge_edgeList, plusNode_edgeList, mem_append, mem_singleton] at he
  have hxy : x ≠ y := fun hc => hy (hc ▸ hx)
  rcases he with he | rfl
  · have h1 : e.nids.1 ≠ y := fun hc => hy (hc ▸ sv.edge_src_mem he)
    have h2 : e.nids.2 ≠ y := fun hc => hy (hc ▸ sv.edge_tgt_mem he)
    rw [Function.update_of_ne h1, Function.update_of_ne h2]
    exact hl e he
  · simp only [Edge.mk'_nids]
    rw [Function.update_self, Function.update_of_ne hxy]

theorem Lev.plusEdge {g : Graph κ} {ℓ : Int → Int} (hl : Lev g ℓ) {e : Edge κ} (he : ℓ e.nids.2 = ℓ e.nids.1 + 1) :
    Lev (g.plusEdge e) ℓ := by
  intro e' he'
  rw [plusEdge_edgeList, mem_append, mem_singleton] at he'
  rcases he' with he' | rfl
  · exact hl e' he'
  · exact he

/-! ## chains -/

theorem insertOpchainLoop_lev :
    ∀ (triples : List (Int × κ × Int)) (g : Graph κ) (nidCur nidNext eidNext : Int)
      (g' : Graph κ) (nidCur' eidNext' : Int) (ℓ : Int → Int),
      insertOpchainLoop true triples g nidCur nidNext eidNext = .ok (g', nidCur', eidNext') →
      SValid g → nidCur ∈ dKeys g.nodes → nidCur ≠ g.term true → Lev g ℓ →
      ∃ ℓ', Lev g' ℓ' ∧ (∀ k ∈ dKeys g.nodes, ℓ' k = ℓ k) ∧ ℓ' nidCur' = ℓ nidCur + triples.length := by
  intro triples
  induction triples with
  | nil =>
    intro g nidCur nidNext eidNext g' nidCur' eidNext' ℓ h sv hc ht hl
    simp only [insertOpchainLoop, Except.ok.injEq, Prod.mk.injEq] at h
    obtain ⟨rfl, rfl, rfl⟩ := h
    exact ⟨ℓ, hl, fun _ _ => rfl, by simp⟩
  | cons tr rest ih =>
    intro g nidCur nidNext eidNext g' nidCur' eidNext' ℓ h sv hc ht hl
    obtain ⟨oid, coeff, qnum⟩ := tr
    simp only [insertOpchainLoop, if_true, Node.mk'_nil] at h
    rw [bind_ok] at h
    obtain ⟨n, hn, h⟩ := h
    cases hn
    rw [bind_ok] at h
    obtain ⟨g1, hg1, h⟩ := h
    rw [bind_ok] at h
    obtain ⟨g2, hg2, h⟩ := h
    obtain ⟨hfresh, hg1'⟩ := addNode_ok.1 hg1
    have e1 : g1 = g.plusNode nidNext qnum := hg1'
    subst e1
    obtain ⟨e2, hefresh⟩ := addConnectEdge_eq_plusEdge hg2
    subst e2
    simp only [Edge.mk'_eid, plusNode_edges] at hefresh
    have sv2 := sv.plusNodeEdge (q := qnum) (ops := [(oid, coeff)]) hc ht hfresh hefresh
    have hl2 := Lev.plusNodeEdge (q := qnum) (eid := eidNext) (ops := [(oid, coeff)]) sv hl hc hfresh
    have hk2 : dKeys ((g.plusNode nidNext qnum).plusEdge (Edge.mk' eidNext (nidCur, nidNext) [(oid, coeff)])).nodes
        = dKeys g.nodes ++ [nidNext] := by rw [plusEdge_keys, plusNode_keys]
    have hnt : nidNext ≠ g.term true := fun hc' => hfresh (hc' ▸ sv.term_mem true)
    obtain ⟨ℓ', a1, a2, a3⟩ := ih _ nidNext (nidNext + 1) (eidNext + 1) g' nidCur' eidNext' _ h sv2
      (by rw [hk2]; simp) (by simpa using hnt) hl2
    refine ⟨ℓ', a1, ?_, ?_⟩
    · intro k hk
      rw [a2 k (by rw [hk2]; exact mem_append_left _ hk)]
      exact Function.update_of_ne (fun hc' => hfresh (by rw [← hc']; exact hk)) _ _
    · rw [a3, Function.update_self, length_cons]; push_cast; ring

theorem insertOpchain_lev {g g' : Graph κ} {nidStart nidEnd : Int} {oids : List Int} {coeffs : List κ}
    {qnums : List Int} {ℓ : Int → Int}
    (h : g.insertOpchain nidStart nidEnd oids coeffs qnums true = .ok g') (sv : SValid g)
    (hs : nidStart ≠ g.term true) (hl : Lev g ℓ) (hend : ℓ nidEnd = ℓ nidStart + oids.length) :
    ∃ ℓ', Lev g' ℓ' ∧ ∀ k ∈ dKeys g.nodes, ℓ' k = ℓ k := by
  unfold Graph.insertOpchain at h
  rw [pyAssert_bind] at h
  obtain ⟨hS, h⟩ := h
  rw [pyAssert_bind] at h
  obtain ⟨hE, h⟩ := h
  rw [pyAssert_bind] at h
  obtain ⟨hl1, h⟩ := h
  rw [pyAssert_bind] at h
  obtain ⟨hl2, h⟩ := h
  simp only [beq_iff_eq] at hl1 hl2
  rw [dHas_iff] at hS hE
  cases hm : maxInt? (dKeys g.nodes) with
  | none =>
    rw [hm] at h
    simp only at h
    rw [throw_bind_ne] at h
    exact h.elim
  | some mx =>
  rw [hm] at h
  simp only at h
  rw [bind_ok] at h
  obtain ⟨nidNext, hnn, h⟩ := h
  rw [bind_ok] at h
  obtain ⟨node, hnode, h⟩ := h
  have hnid : node.nid = nidStart :=
    sv.nodeKey _ _ (mem_of_dGet?_eq_some (dGet_eq_ok_iff.1 hnode))
  rw [bind_ok] at h
  obtain ⟨⟨g1, nidCur, eidNext⟩, hloop, h⟩ := h
  simp only at h
  rw [hnid] at hloop
  have hlt : (oids.dropLast.zip (coeffs.dropLast.zip qnums)).length = qnums.length := by
    simp only [length_zip, length_dropLast]; omega
  obtain ⟨ℓ', b1, b2, b3⟩ := insertOpchainLoop_lev _ g nidStart nidNext _ g1 nidCur eidNext ℓ hloop sv hS hs hl
  rw [hlt] at b3
  cases hol : oids.getLast? with
  | none => rw [hol] at h; cases h
  | some oLast =>
    cases hcl : coeffs.getLast? with
    | none => rw [hol, hcl] at h; cases h
    | some cLast =>
      rw [hol, hcl] at h
      simp only [if_true] at h
      obtain ⟨e2, _⟩ := addConnectEdge_eq_plusEdge h
      subst e2
      refine ⟨ℓ', Lev.plusEdge b1 ?_, b2⟩
      simp only [Edge.mk'_nids]
      rw [b3, b2 nidEnd hE, hend, hl2]
      push_cast; ring

/-! ## subtrees -/

/-- some edge leaves the node `x` -/
def HasOut (g : Graph κ) (x : Int) : Prop := ∃ e ∈ g.edgeList, e.nids.1 = x

/-- every node other than the end terminal and `r` has an outgoing edge -/
def NDEx (g : Graph κ) (r : Int) : Prop :=
  ∀ x ∈ dKeys g.nodes, x ≠ g.term true → x ≠ r → HasOut g x

/-- every node other than the end terminal has an outgoing edge -/
def AllOut (g : Graph κ) : Prop := ∀ x ∈ dKeys g.nodes, x ≠ g.term true → HasOut g x

theorem HasOut.mono {g g' : Graph κ} {x : Int} (h : HasOut g x) (hsub : ∀ e ∈ g.edgeList, e ∈ g'.edgeList) :
    HasOut g' x := by
  obtain ⟨e, he, hx⟩ := h
  exact ⟨e, hsub e he, hx⟩

theorem Grows.edge_mono {g g' : Graph κ} {r : Int} (h : Grows g g' r) : ∀ e ∈ g.edgeList, e ∈ g'.edgeList := by
  obtain ⟨new, hnew, _⟩ := h.edges
  intro e he
  rw [hnew]; exact mem_append_left _ he

/-- the nodes strictly above `r` (and the terminal) form the set needed by the semantic statement -/
theorem uHyps_of_lev {g : Graph κ} (sv : SValid g) {ℓ : Int → Int} (hl : Lev g ℓ) (r : Int) :
    UHyps g (fun z => z ∈ dKeys g.nodes ∧ (ℓ z > ℓ r ∨ z = g.term true)) r := by
  refine ⟨?_, fun y hy => hy.1, ?_, ?_, ⟨sv.term_mem true, Or.inr rfl⟩⟩
  · intro e he ⟨_, hs⟩
    refine ⟨sv.edge_tgt_mem he, Or.inl ?_⟩
    rcases hs with hs | hs
    · rw [hl e he]; omega
    · exact absurd hs (sv.edge_src_ne_term he)
  · intro hne ⟨_, hc⟩
    rcases hc with hc | hc
    · omega
    · exact hne hc
  · intro e he hs
    refine ⟨sv.edge_tgt_mem he, Or.inl ?_⟩
    rw [hl e he, hs]; omega

def SubtreeLev (id : Int) (T : TNode κ) : Prop :=
  ∀ (g : Graph κ) (r dist : Int) (g' : Graph κ) (ℓ : Int → Int),
    Graph.insertSubtree id T r dist g = .ok g' → SValid g → r ∈ dKeys g.nodes →
    g.term true ≠ g.term false → Lev g ℓ → ℓ r + dist = ℓ (g.term true) → NDEx g r →
    (∃ ℓ', Lev g' ℓ' ∧ ∀ k ∈ dKeys g.nodes, ℓ' k = ℓ k) ∧ AllOut g'

def ChildrenLev (id : Int) (cs : List (Int × κ × TNode κ)) : Prop :=
  ∀ (g : Graph κ) (r dist : Int) (g' : Graph κ) (ℓ : Int → Int),
    Graph.insertChildren id cs r r dist g = .ok g' → SValid g → r ∈ dKeys g.nodes →
    r ≠ g.term true → g.term true ≠ g.term false → Lev g ℓ → ℓ r + dist = ℓ (g.term true) → NDEx g r →
    (∃ ℓ', Lev g' ℓ' ∧ ∀ k ∈ dKeys g.nodes, ℓ' k = ℓ k) ∧ NDEx g' r ∧ (cs ≠ [] → HasOut g' r)

theorem subtreeLev_node (id q : Int) (cs : List (Int × κ × TNode κ)) (ih : ChildrenLev id cs) :
    SubtreeLev id (.mk q cs) := by
  intro g r dist g' ℓ h sv hr ht01 hl hlev hnde
  rw [insertSubtree_eq] at h
  by_cases hneg : dist < 0
  · simp only [hneg, if_true] at h; cases h
  simp only [hneg, if_false] at h
  rw [bind_ok] at h
  obtain ⟨node, hnode, h⟩ := h
  by_cases hq : (node.qnum != q) = true
  · simp only [hq, if_true] at h; cases h
  simp only [hq, Bool.false_eq_true, if_false] at h
  cases cs with
  | nil =>
    simp only at h
    by_cases hpos : dist > 0
    · simp only [hpos, if_true] at h
      have hrne : r ≠ g.term true := fun hc => by rw [hc] at hlev; omega
      refine ⟨insertOpchain_lev h sv hrne hl (by rw [pyRepeat_length]; omega), ?_⟩
      obtain ⟨nidNext, eid0, sv', hterm, hkeys, hedges, _, _, _, _⟩ := insertOpchain_spec h sv hrne ht01 hrne
      rw [pyRepeat_length] at hkeys hedges
      have hlen : (idRange nidNext (dist - 1).toNat ++ [g.term true]).length =
          ((pyRepeat dist id).zip (pyRepeat dist (1 : κ))).length := by
        simp only [length_append, idRange_length, length_cons, length_nil, length_zip, pyRepeat_length]; omega
      have hsrc := chainEdges_sources eid0 r _ ((pyRepeat dist id).zip (pyRepeat dist (1 : κ))) hlen
      rw [← cons_append, dropLast_concat] at hsrc
      intro x hx hxt
      have t' : g'.term true = g.term true := by simp [Graph.term, hterm]
      rw [t'] at hxt
      have hchain : ∀ y ∈ r :: idRange nidNext (dist - 1).toNat, HasOut g' y := by
        intro y hy
        rw [← hsrc, mem_map] at hy
        obtain ⟨e, he, rfl⟩ := hy
        exact ⟨e, by rw [hedges]; exact mem_append_right _ he, rfl⟩
      rw [hkeys, mem_append] at hx
      rcases hx with hx | hx
      · by_cases hxr : x = r
        · exact hchain x (by simp [hxr])
        · exact (hnde x hx hxt hxr).mono (fun e he => by rw [hedges]; exact mem_append_left _ he)
      · exact hchain x (mem_cons_of_mem _ hx)
    · simp only [hpos, if_false] at h
      rw [pyAssert_bind] at h
      obtain ⟨hrt', h⟩ := h
      rw [pure_ok] at h
      subst h
      have hrt'' : r = g.term true := by simpa using hrt'
      exact ⟨⟨ℓ, hl, fun _ _ => rfl⟩, fun x hx hxt => hnde x hx hxt (by rw [hrt'']; exact hxt)⟩
  | cons c cs =>
    simp only at h
    have hnid : node.nid = r := sv.nodeKey _ _ (mem_of_dGet?_eq_some (dGet_eq_ok_iff.1 hnode))
    rw [hnid] at h
    have hrne : r ≠ g.term true := by
      intro hc
      have hd : dist = 0 := by rw [hc] at hlev; omega
      obtain ⟨oid, coeff, child⟩ := c
      rw [insertChildren_cons_le _ _ _ _ _ _ _ _ _ (by omega)] at h
      rw [bind_ok] at h
      obtain ⟨g1, _, h⟩ := h
      rw [bind_ok] at h
      obtain ⟨g2, _, h⟩ := h
      rw [bind_ok] at h
      obtain ⟨g3, _, h⟩ := h
      rw [bind_ok] at h
      obtain ⟨g4, h4, _⟩ := h
      have := insertSubtree_dist_nonneg h4
      omega
    obtain ⟨hlv, hn1, hn2⟩ := ih g r dist g' ℓ h sv hr hrne ht01 hl hlev hnde
    refine ⟨hlv, ?_⟩
    obtain ⟨gr, _⟩ := (subtree_children_spec id).2 (c :: cs) g r dist g' _ h sv hr hrne ht01 (uHyps_of_lev sv hl r)
    intro x hx hxt
    by_cases hxr : x = r
    · rw [hxr]; exact hn2 (by simp)
    · exact hn1 x hx hxt hxr

theorem childrenLev_nil (id : Int) : ChildrenLev (κ := κ) id [] := by
  intro g r dist g' ℓ h sv hr hrt ht01 hl hlev hnde
  rw [insertChildren_nil] at h
  cases h
  exact ⟨⟨ℓ, hl, fun _ _ => rfl⟩, hnde, fun hc => absurd rfl hc⟩

theorem childrenLev_cons (id oid : Int) (coeff : κ) (child : TNode κ) (rest : List (Int × κ × TNode κ))
    (ihc : SubtreeLev id child) (ihr : ChildrenLev id rest) : ChildrenLev id ((oid, coeff, child) :: rest) := by
  intro g r dist g3 ℓ h sv hr hrt ht01 hl hlev hnde
  obtain ⟨y, eid, g1, g2, sv1, term1, edges1, hy, _, h4, h5⟩ := insertChildren_cons_ok h sv hrt ht01
  have t1 : ∀ d, g1.term d = g.term d := fun d => by simp [Graph.term, term1]
  have keys1 : ∀ k ∈ dKeys g.nodes, k ∈ dKeys g1.nodes := by
    intro k hk
    rcases hy with ⟨_, h1⟩ | ⟨_, h1, _⟩ <;> rw [h1]
    · exact mem_append_left _ hk
    · exact hk
  have hy1 : y ∈ dKeys g1.nodes := by
    rcases hy with ⟨_, h1⟩ | ⟨h0, h1, _⟩
    · rw [h1]; simp
    · rw [h1, h0]; exact sv.term_mem true
  -- the level function after the child step
  obtain ⟨ℓ1, hl1, agree1, hy_lev⟩ : ∃ ℓ1, Lev g1 ℓ1 ∧ (∀ k ∈ dKeys g.nodes, ℓ1 k = ℓ k) ∧ ℓ1 y = ℓ r + 1 := by
    rcases hy with ⟨hfresh, _⟩ | ⟨h0, _, hd⟩
    · refine ⟨Function.update ℓ y (ℓ r + 1), ?_, ?_, Function.update_self _ _ _⟩
      · intro e he
        rw [edges1, mem_append, mem_singleton] at he
        rcases he with he | rfl
        · have h1 : e.nids.1 ≠ y := fun hc => hfresh (hc ▸ sv.edge_src_mem he)
          have h2 : e.nids.2 ≠ y := fun hc => hfresh (hc ▸ sv.edge_tgt_mem he)
          rw [Function.update_of_ne h1, Function.update_of_ne h2]
          exact hl e he
        · simp only [Edge.mk'_nids]
          rw [Function.update_self, Function.update_of_ne (fun hc => hfresh (by rw [← hc]; exact hr))]
      · intro k hk
        exact Function.update_of_ne (fun hc => hfresh (by rw [← hc]; exact hk)) _ _
    · refine ⟨ℓ, ?_, fun _ _ => rfl, by rw [h0]; omega⟩
      intro e he
      rw [edges1, mem_append, mem_singleton] at he
      rcases he with he | rfl
      · exact hl e he
      · simp only [Edge.mk'_nids]; rw [h0]; omega
  have hr1 : ℓ1 r = ℓ r := agree1 r hr
  have ht1 : ℓ1 (g.term true) = ℓ (g.term true) := agree1 _ (sv.term_mem true)
  have hlev1 : ℓ1 y + (dist - 1) = ℓ1 (g1.term true) := by rw [t1, ht1, hy_lev]; omega
  have hnde1 : NDEx g1 y := by
    intro x hx hxt hxy
    rw [t1] at hxt
    have hxg : x ∈ dKeys g.nodes := by
      rcases hy with ⟨_, h1⟩ | ⟨_, h1, _⟩
      · rw [h1, mem_append, mem_singleton] at hx
        rcases hx with hx | hx
        · exact hx
        · exact absurd hx hxy
      · rw [h1] at hx; exact hx
    by_cases hxr : x = r
    · exact ⟨Edge.mk' eid (r, y) [(oid, coeff)], by rw [edges1]; simp, by simp [hxr]⟩
    · exact (hnde x hxg hxt hxr).mono (fun e he => by rw [edges1]; exact mem_append_left _ he)
  obtain ⟨⟨ℓ2, hl2, agree2⟩, hall2⟩ := ihc g1 y (dist - 1) g2 ℓ1 h4 sv1 hy1 (by rw [t1, t1]; exact ht01) hl1 hlev1
    hnde1
  -- validity of the graph after the child
  obtain ⟨gc, _⟩ := (subtree_children_spec id).1 child g1 y (dist - 1) g2 _ h4 sv1 hy1
    (by intro hc; rw [hc] at hlev1; omega) (by rw [t1, t1]; exact ht01) (uHyps_of_lev sv1 hl1 y)
  have t2 : ∀ d, g2.term d = g.term d := fun d => by rw [gc.term' d, t1]
  have hr2 : r ∈ dKeys g2.nodes := gc.keys _ (keys1 _ hr)
  have hlev2 : ℓ2 r + dist = ℓ2 (g2.term true) := by
    rw [t2, agree2 r (keys1 _ hr), agree2 _ (keys1 _ (sv.term_mem true)), hr1, ht1]
    exact hlev
  obtain ⟨⟨ℓ3, hl3, agree3⟩, hn3, _⟩ := ihr g2 r dist g3 ℓ2 h5 gc.sv hr2 (by rw [t2]; exact hrt)
    (by rw [t2, t2]; exact ht01) hl2 hlev2 (fun x hx hxt _ => hall2 x hx hxt)
  obtain ⟨gr, _⟩ := (subtree_children_spec id).2 rest g2 r dist g3 _ h5 gc.sv hr2 (by rw [t2]; exact hrt)
    (by rw [t2, t2]; exact ht01) (uHyps_of_lev gc.sv hl2 r)
  refine ⟨⟨ℓ3, hl3, fun k hk => ?_⟩, ?_, fun _ => ?_⟩
  · rw [agree3 k (gc.keys _ (keys1 _ hk)), agree2 k (keys1 _ hk), agree1 k hk]
  · exact hn3
  · have h1 : HasOut g1 r := ⟨Edge.mk' eid (r, y) [(oid, coeff)], by rw [edges1]; simp, by simp⟩
    exact (h1.mono gc.edge_mono).mono gr.edge_mono

theorem subtree_children_lev (id : Int) :
    (∀ T : TNode κ, SubtreeLev id T) ∧ (∀ cs : List (Int × κ × TNode κ), ChildrenLev id cs) :=
  TNode.induct2 (fun q cs ih => subtreeLev_node id q cs ih) (childrenLev_nil id)
    (fun oid c t cs ih1 ih2 => childrenLev_cons id oid c t cs ih1 ih2)

/-! ## all trees -/

theorem fromOptreesLoop_lev {L id : Int} {g g' : Graph κ} {tree : OpTree κ} {ℓ : Int → Int}
    (h : fromOptreesLoop L id g tree = .ok g') (sv : SValid g) (ht : g.nidTerminal = (0, 1))
    (hstart : 0 ≤ tree.istart) (hl : Lev g ℓ) (h0 : ℓ 0 = 0) (h1 : ℓ 1 = L) (hnde : NDEx g 0) :
    (∃ ℓ', Lev g' ℓ' ∧ ℓ' 0 = 0 ∧ ℓ' 1 = L) ∧ AllOut g' := by
  have t0 : g.term false = 0 := by simp [Graph.term, ht]
  have t1 : g.term true = 1 := by simp [Graph.term, ht]
  have hk0 : (0 : Int) ∈ dKeys g.nodes := t0 ▸ sv.term_mem false
  have hk1 : (1 : Int) ∈ dKeys g.nodes := t1 ▸ sv.term_mem true
  by_cases hpos : tree.istart > 0
  · rw [fromOptreesLoop_pos _ _ _ _ hpos] at h
    cases hm : maxInt? (dKeys g.nodes) with
    | none => rw [hm] at h; cases h
    | some m =>
      rw [hm] at h
      simp only at h
      rw [bind_ok] at h
      obtain ⟨g1, hg1, h⟩ := h
      rw [bind_ok] at h
      obtain ⟨g2, h2, h3⟩ := h
      obtain ⟨hfresh, hg1'⟩ := addNode_ok.1 hg1
      simp only at hfresh
      have e1 : g1 = g.plusNode (m + 1) tree.root.qnum := hg1'
      subst e1
      have sv1 := sv.plusNode tree.root.qnum hfresh
      have hr0 : (m + 1) ≠ 0 := fun hc => hfresh (by rw [hc]; exact hk0)
      have hr1 : (m + 1) ≠ 1 := fun hc => hfresh (by rw [hc]; exact hk1)
      -- level of the fresh root
      have hl1 : Lev (g.plusNode (m + 1) tree.root.qnum) (Function.update ℓ (m + 1) tree.istart) := by
        intro e he
        rw [plusNode_edgeList] at he
        have a1 : e.nids.1 ≠ m + 1 := fun hc => hfresh (hc ▸ sv.edge_src_mem he)
        have a2 : e.nids.2 ≠ m + 1 := fun hc => hfresh (hc ▸ sv.edge_tgt_mem he)
        rw [Function.update_of_ne a1, Function.update_of_ne a2]
        exact hl e he
      obtain ⟨nidNext, eid0, sv2, term2, keys2, edges2, _, _, _, _⟩ := insertOpchain_spec h2 sv1
        (by rw [plusNode_term', t1]; decide) (by rw [plusNode_term', t0]; exact hr0) (fun hc => hr0 hc.symm)
      obtain ⟨ℓ2, hl2, agree2⟩ := insertOpchain_lev h2 sv1 (by rw [plusNode_term', t1]; decide) hl1
        (by
          rw [Function.update_self, Function.update_of_ne (fun hc => hr0 hc.symm), h0, pyRepeat_length]
          omega)
      rw [plusNode_keys] at agree2 keys2
      rw [pyRepeat_length] at keys2 edges2
      rw [plusNode_edgeList] at edges2
      simp only [plusNode_term] at term2
      have t2 : ∀ d, g2.term d = g.term d := fun d => by simp [Graph.term, term2]
      have hroot2 : m + 1 ∈ dKeys g2.nodes := by rw [keys2]; simp
      have a0 : ℓ2 0 = 0 := by
        rw [agree2 0 (mem_append_left _ hk0), Function.update_of_ne (fun hc => hr0 hc.symm), h0]
      have a1 : ℓ2 1 = L := by
        rw [agree2 1 (mem_append_left _ hk1), Function.update_of_ne (fun hc => hr1 hc.symm), h1]
      have ar : ℓ2 (m + 1) = tree.istart := by
        rw [agree2 (m + 1) (by simp), Function.update_self]
      -- every node of the chain, and the start node, has an outgoing edge
      have hlen : (idRange nidNext (tree.istart - 1).toNat ++ [m + 1]).length =
          ((pyRepeat tree.istart id).zip (pyRepeat tree.istart (1 : κ))).length := by
        simp only [length_append, idRange_length, length_cons, length_nil, length_zip, pyRepeat_length]; omega
      have hsrc := chainEdges_sources eid0 0 _ ((pyRepeat tree.istart id).zip (pyRepeat tree.istart (1 : κ))) hlen
      rw [← cons_append, dropLast_concat] at hsrc
      have hchain : ∀ y ∈ (0 : Int) :: idRange nidNext (tree.istart - 1).toNat, HasOut g2 y := by
        intro y hy
        rw [← hsrc, mem_map] at hy
        obtain ⟨e, he, rfl⟩ := hy
        exact ⟨e, by rw [edges2]; exact mem_append_right _ he, rfl⟩
      have hnde2 : NDEx g2 (m + 1) := by
        intro x hx hxt hxr
        rw [t2] at hxt
        rw [keys2, mem_append, mem_append, mem_singleton] at hx
        rcases hx with (hx | hx) | hx
        · by_cases hx0 : x = 0
          · exact hchain x (by simp [hx0])
          · exact (hnde x hx hxt hx0).mono (fun e he => by rw [edges2]; exact mem_append_left _ he)
        · exact absurd hx hxr
        · exact hchain x (mem_cons_of_mem _ hx)
      obtain ⟨⟨ℓ3, hl3, agree3⟩, hall⟩ := (subtree_children_lev id).1 tree.root g2 (m + 1) (L - tree.istart) g' ℓ2 h3 sv2
        hroot2 (by rw [t2, t2, t1, t0]; decide) hl2 (by rw [t2, t1, ar, a1]; ring) hnde2
      have k0 : (0 : Int) ∈ dKeys g2.nodes := by rw [keys2]; exact mem_append_left _ (mem_append_left _ hk0)
      have k1 : (1 : Int) ∈ dKeys g2.nodes := by rw [keys2]; exact mem_append_left _ (mem_append_left _ hk1)
      exact ⟨⟨ℓ3, hl3, by rw [agree3 0 k0, a0], by rw [agree3 1 k1, a1]⟩, hall⟩
  · rw [fromOptreesLoop_nonpos _ _ _ _ hpos] at h
    have hz : tree.istart = 0 := by omega
    obtain ⟨⟨ℓ', hl', agree⟩, hall⟩ := (subtree_children_lev id).1 tree.root g 0 (L - tree.istart) g' ℓ h sv hk0
      (by rw [t1, t0]; decide) hl (by rw [t1, h0, h1, hz]; ring) hnde
    exact ⟨⟨ℓ', hl', by rw [agree 0 hk0, h0], by rw [agree 1 hk1, h1]⟩, hall⟩

/-- invariant of the loop over the trees -/
theorem fromOptreesPre_layered {trees : List (OpTree κ)} {L id : Int} {g : Graph κ}
    (h : fromOptreesPre trees L id = .ok g) (hstart : ∀ t ∈ trees, 0 ≤ t.istart) :
    SValid g ∧ g.nidTerminal = (0, 1) ∧ (∃ ℓ, Lev g ℓ ∧ ℓ 0 = 0 ∧ ℓ 1 = L) ∧ NDEx g 0 ∧ (trees ≠ [] → AllOut g) := by
  have := foldlM_ok_ind (fromOptreesLoop L id) (fun pre (g : Graph κ) => (∀ t ∈ pre, 0 ≤ t.istart) →
      SValid g ∧ g.nidTerminal = (0, 1) ∧ (∃ ℓ, Lev g ℓ ∧ ℓ 0 = 0 ∧ ℓ 1 = L) ∧ NDEx g 0 ∧ (pre ≠ [] → AllOut g))
      ?_ trees [] g00 g ?_ h
  · exact this (by simpa using hstart)
  · intro pre tree s s' ih hf hpre
    obtain ⟨sv, ht, ⟨ℓ, hl, h0, h1⟩, hnde, _⟩ := ih (fun t ht => hpre t (by simp [ht]))
    obtain ⟨gr, _⟩ := fromOptreesLoop_spec hf sv ht
    obtain ⟨hlev', hall⟩ := fromOptreesLoop_lev hf sv ht (hpre tree (by simp)) hl h0 h1 hnde
    exact ⟨gr.sv, by rw [gr.term, ht], hlev', fun x hx hxt _ => hall x hx hxt, fun _ => hall⟩
  · intro _
    refine ⟨g00_svalid, rfl, ⟨fun z => if z = 1 then L else 0, ?_, by simp, by simp⟩, ?_, fun hc => absurd rfl hc⟩
    · intro e he
      simp [g00, Graph.edgeList] at he
    · intro x hx hxt hx0
      simp only [g00, dKeys, map_cons, map_nil, mem_cons, not_mem_nil, or_false] at hx
      rcases hx with rfl | rfl
      · exact absurd rfl hx0
      · exact absurd rfl hxt

/-- **`from_optrees` before `simplify` is consistent** (all clauses of `is_consistent`) for trees with
non-negative start sites (what `OpTree.__init__` guarantees). -/
theorem fromOptreesPre_valid {trees : List (OpTree κ)} {L id : Int} {g : Graph κ}
    (h : fromOptreesPre trees L id = .ok g) (hstart : ∀ t ∈ trees, 0 ≤ t.istart) : Valid g := by
  obtain ⟨sv, _, ⟨ℓ, hl, _, _⟩, _, _⟩ := fromOptreesPre_layered h hstart
  exact valid_of_lev sv hl

end Ptn.Og

import PtnModel.Proofs.AutBuild
/-!
# `from_automaton`: the unrolled graph denotes the path sum of the automaton
-/
set_option linter.unusedSectionVars false

namespace Ptn.Og
open List Ptn.Dense

variable {κ : Type} [CommRing κ] [DecidableEq κ]

/-! ## sums -/

theorem sum_map_flatMap {α β : Type} (l : List α) (f : α → List β) (g : β → κ) :
    ((l.flatMap f).map g).sum = (l.map fun a => ((f a).map g).sum).sum := by
  induction l with
  | nil => simp
  | cons a l ih => simp [ih]

theorem sum_map_filterMap {α β : Type} (l : List α) (f : α → Option β) (g : β → κ) :
    ((l.filterMap f).map g).sum = (l.map fun a => match f a with | some b => g b | none => 0).sum := by
  induction l with
  | nil => simp
  | cons a l ih =>
    rw [filterMap_cons]
    cases h : f a <;> simp [ih, h]

/-- `Σ_{v ∈ l} [x = v] c = [x ∈ l] c` for a duplicate-free list -/
theorem sum_map_ite_eq {l : List Int} (hl : l.Nodup) (x : Int) (c : κ) :
    (l.map fun v => if x = v then c else 0).sum = if x ∈ l then c else 0 := by
  induction l with
  | nil => simp
  | cons v l ih =>
    rw [nodup_cons] at hl
    simp only [map_cons, sum_cons, ih hl.2, mem_cons]
    by_cases h : x = v
    · subst h; simp [hl.1]
    · simp [h]

/-- sum over a duplicate-free key list = sum over the dictionary entries selected by `P` -/
theorem sum_keys_dict {β : Type} (d : List (Int × β)) (hd : (dKeys d).Nodup) (l : List Int) (hl : l.Nodup)
    (P : β → Prop) [DecidablePred P]
    (h1 : ∀ k ∈ l, ∃ e, dGet? d k = some e ∧ P e) (h2 : ∀ k e, dGet? d k = some e → P e → k ∈ l) (φ : β → κ) :
    ((l.filterMap (dGet? d)).map φ).sum = (d.map fun ke => if P ke.2 then φ ke.2 else 0).sum := by
  have perm : l.Perm ((d.filter fun ke => decide (P ke.2)).map (·.1)) := by
    rw [perm_ext_iff_of_nodup hl (hd.sublist ((filter_sublist).map _))]
    intro k
    constructor
    · intro hk
      obtain ⟨e, he, hp⟩ := h1 k hk
      exact mem_map.2 ⟨(k, e), mem_filter.2 ⟨mem_of_dGet?_eq_some he, by simpa using hp⟩, rfl⟩
    · intro hk
      obtain ⟨⟨k', e⟩, hm, rfl⟩ := mem_map.1 hk
      obtain ⟨hm, hp⟩ := mem_filter.1 hm
      exact h2 k' e (dGet?_eq_some_of_mem hd hm) (by simpa using hp)
  rw [((perm.filterMap _).map _).sum_eq, sum_map_ite_zero]
  congr 1
  rw [filterMap_map]
  have : ∀ (l' : List (Int × β)), (∀ p ∈ l', p ∈ d) → l'.filterMap (dGet? d ∘ fun x => x.1) = l'.map (·.2) := by
    intro l'
    induction l' with
    | nil => simp
    | cons p l' ih =>
      intro hp
      rw [filterMap_cons]
      have : dGet? d p.1 = some p.2 := dGet?_eq_some_of_mem hd (hp p (by simp))
      simp only [Function.comp, this, map_cons]
      rw [← ih (fun q hq => hp q (by simp [hq]))]
      rfl
  rw [this _ (fun p hp => (mem_filter.1 hp).1), map_map]
  rfl

/-! ## valid automata -/

/-- What `AutOp.__init__`, `AutOpNode.__init__` (duplicate-free keys and id lists) and `is_consistent` guarantee. -/
structure AutValid (a : AutOp κ) : Prop where
  nodesKeys : (dKeys a.nodes).Nodup
  edgesKeys : (dKeys a.edges).Nodup
  eidsNodup : ∀ k n, dGet? a.nodes k = some n → ∀ d, (n.eids d).Nodup
  nodeEdge : ∀ k n, dGet? a.nodes k = some n → ∀ d eid, eid ∈ n.eids d → ∃ e, dGet? a.edges eid = some e ∧ e.nid (!d) = k
  edgeNode : ∀ k e, dGet? a.edges k = some e → ∀ d, ∃ n, dGet? a.nodes (e.nid d) = some n ∧ k ∈ n.eids (!d)

theorem AutValid.of_isConsistent {a : AutOp κ} (hn : (dKeys a.nodes).Nodup) (he : (dKeys a.edges).Nodup)
    (hd : ∀ k n, (k, n) ∈ a.nodes → ∀ d, (n.eids d).Nodup) (hc : a.isConsistent = true) : AutValid a := by
  unfold AutOp.isConsistent at hc
  rw [Bool.and_eq_true, Bool.and_eq_true, all_eq_true, all_eq_true] at hc
  obtain ⟨⟨c1, c2⟩, _⟩ := hc
  refine ⟨hn, he, fun k n h => hd k n (mem_of_dGet?_eq_some h), ?_, ?_⟩
  · intro k n hkn d eid heid
    have := c1 (k, n) (mem_of_dGet?_eq_some hkn)
    simp only [Bool.and_eq_true, beq_iff_eq, all_eq_true] at this
    have h2 := this.2 d (by cases d <;> simp) eid heid
    cases hl : dGet? a.edges eid with
    | none => rw [hl] at h2; simp at h2
    | some e =>
      rw [hl] at h2
      simp only [beq_iff_eq] at h2
      exact ⟨e, rfl, by rw [h2, this.1]⟩
  · intro k e hke d
    have := c2 (k, e) (mem_of_dGet?_eq_some hke)
    simp only [Bool.and_eq_true, beq_iff_eq, all_eq_true] at this
    have h2 := this.2 d (by cases d <;> simp)
    cases hl : dGet? a.nodes (e.nid d) with
    | none => rw [hl] at h2; simp at h2
    | some n =>
      rw [hl] at h2
      simp only [contains_eq_mem, decide_eq_true_eq] at h2
      exact ⟨n, rfl, by rw [this.1]; exact h2⟩

/-- sum over the out-edges of a state = sum over the edge dictionary -/
theorem AutValid.sum_eids {a : AutOp κ} (h : AutValid a) {u : Int} {n : Node} (hn : dGet? a.nodes u = some n)
    (d : Bool) (φ : AEdge κ → κ) :
    (((n.eids d).filterMap (dGet? a.edges)).map φ).sum
      = (a.edges.map fun ke => if ke.2.nid (!d) = u then φ ke.2 else 0).sum := by
  apply sum_keys_dict a.edges h.edgesKeys (n.eids d) (h.eidsNodup u n hn d) (fun e => e.nid (!d) = u)
  · intro k hk
    exact h.nodeEdge u n hn d k hk
  · intro k e hke hp
    obtain ⟨n', hn', hk⟩ := h.edgeNode k e hke (!d)
    rw [hp, hn] at hn'
    cases hn'
    simpa using hk

theorem opcL_sum (l : List (Int × κ)) (o : Int) (c : κ) :
    Ptn.sumList (l.map fun p => if p.1 = o then p.2 * c else 0) = opcL l o * c := by
  rw [sumList_eq_sum]
  unfold opcL
  rw [← sum_map_mul_const]
  apply sum_map_congr
  intro p _
  by_cases h : p.1 = o <;> simp [h]

/-- contribution of the automaton edge `e` at site `j` to the coefficient of `o :: w` -/
def edgeTerm (a : AutOp κ) (o : Int) (w : Word) (j : Nat) (e : AEdge κ) : κ :=
  if e.active j then opcL (e.opics j) o * a.denFrom w (j + 1) e.nids.2 else 0

/-- the path sum of a valid automaton, one step, as a sum over the edge dictionary -/
theorem AutValid.denFrom_cons {a : AutOp κ} (h : AutValid a) (o : Int) (w : Word) (j : Nat) (u : Int) :
    a.denFrom (o :: w) j u = (a.edges.map fun ke => if ke.2.nids.1 = u then edgeTerm a o w j ke.2 else 0).sum := by
  unfold AutOp.denFrom
  cases hn : dGet? a.nodes u with
  | none =>
    simp only
    symm
    apply sum_map_eq_zero
    rintro ⟨k, e⟩ hke
    by_cases hu : e.nids.1 = u
    · exfalso
      obtain ⟨n, hn', _⟩ := h.edgeNode k e (dGet?_eq_some_of_mem h.edgesKeys hke) false
      have : e.nid false = u := by simpa [AEdge.nid] using hu
      rw [this, hn] at hn'
      cases hn'
    · simp [hu]
  | some n =>
    simp only
    rw [sumList_eq_sum]
    have key := h.sum_eids hn true (edgeTerm a o w j)
    simp only [Bool.not_true, AEdge.nid, Bool.false_eq_true, if_false] at key
    rw [← key, sum_map_filterMap]
    apply sum_map_congr
    intro eid _
    cases dGet? a.edges eid with
    | none => rfl
    | some e =>
      simp only [edgeTerm]
      by_cases hact : e.active j = true
      · simp only [hact, if_true]; rw [opcL_sum]
      · simp [hact]

/-! ## list helpers -/

theorem idRange_succ' (start : Int) (n : Nat) : idRange start (n + 1) = start :: idRange (start + 1) n := by
  induction n with
  | zero => simp [idRange]
  | succ n ih =>
    rw [idRange_succ, ih, idRange_succ, cons_append]
    have : start + ((n + 1 : Nat) : Int) = start + 1 + (n : Int) := by push_cast; omega
    rw [this]

theorem idRange_getD (start : Int) (n p : Nat) (h : p < n) : (idRange start n).getD p 0 = start + p := by
  simp [idRange, List.getD_eq_getElem?_getD, h]

theorem sum_zip_idRange {l : List Int} (hl : l.Nodup) (start : Int) (G : Int → Int → κ) :
    ((l.zip (idRange start l.length)).map fun vy => G vy.1 vy.2).sum
      = (l.map fun v => G v (start + (l.idxOf v : Nat))).sum := by
  induction l generalizing start with
  | nil => simp
  | cons v l ih =>
    rw [nodup_cons] at hl
    rw [length_cons, idRange_succ', zip_cons_cons, map_cons, sum_cons, map_cons, sum_cons, ih hl.2]
    congr 1
    · simp
    · apply sum_map_congr
      intro v' hv'
      have hne : v' ≠ v := fun hc => hl.1 (hc ▸ hv')
      rw [List.idxOf_cons_ne _ (Ne.symm hne)]
      congr 1
      push_cast; omega

theorem sum_range_single (L j : Nat) (hj : j < L) (f : Nat → κ) (h : ∀ j', j' < L → j' ≠ j → f j' = 0) :
    ((List.range L).map f).sum = f j := by
  induction L with
  | zero => omega
  | succ L ih =>
    rw [List.range_succ, map_append, sum_append, map_cons, map_nil, sum_cons, sum_nil, add_zero]
    by_cases hjL : j = L
    · subst hjL
      rw [sum_map_eq_zero _ _ (fun j' hj' => h j' (by have := List.mem_range.1 hj'; omega)
        (by have := List.mem_range.1 hj'; omega))]
      simp
    · rw [ih (by omega) (fun j' hj' hne => h j' (by omega) hne), h L (by omega) (fun hc => hjL hc.symm)]
      simp

theorem actOf_getD (back fwd : List (List Int)) (j : Nat) (h1 : j < back.length) (h2 : j < fwd.length) :
    (actOf back fwd).getD j [] = (back.getD j []).filter (fun x => (fwd.getD j []).contains x) := by
  simp [actOf, List.getD_eq_getElem?_getD, h1, h2]

/-! ## sums over the edge records -/

theorem recsNode_sum (actPrev mapPrev : List Int) (i : Nat) (y : Int) (es : List (AEdge κ)) (F : ERec κ → κ) :
    ((recsNode actPrev mapPrev i y es).map F).sum
      = (es.map fun e => if e.active i = true ∧ e.nids.1 ∈ actPrev then
          F ((mapPrev.getD (actPrev.idxOf e.nids.1) 0, y), normOpics (e.opics i)) else 0).sum := by
  unfold recsNode
  rw [sum_map_filterMap]
  apply sum_map_congr
  intro e _
  by_cases h1 : e.active i = true <;> by_cases h2 : e.nids.1 ∈ actPrev <;> simp [h1, h2]

/-- graph node of the state `u` in layer `j` -/
def gnode (act : List (List Int)) (j : Nat) (u : Int) : Int :=
  (lo act j : Int) + ((act.getD j []).idxOf u : Nat)

theorem siteRecs_sum (a : AutOp κ) (act : List (List Int)) (j : Nat) (hnd : (act.getD (j + 1) []).Nodup)
    (F : ERec κ → κ) :
    ((siteRecs a act j).map F).sum
      = ((act.getD (j + 1) []).map fun v => ((inEv a v).map fun e =>
          if e.active j = true ∧ e.nids.1 ∈ act.getD j [] then
            F ((gnode act j e.nids.1, gnode act (j + 1) v), normOpics (e.opics j)) else 0).sum).sum := by
  unfold siteRecs recsLayerV
  rw [sum_map_flatMap]
  have := sum_zip_idRange hnd (lo act (j + 1) : Int) (fun v y =>
    ((recsNode (act.getD j []) (mapsF act j) j y (inEv a v)).map F).sum)
  simp only [mapsF, actLen] at this ⊢
  rw [this]
  apply sum_map_congr
  intro v _
  rw [recsNode_sum]
  apply sum_map_congr
  intro e _
  by_cases h : e.active j = true ∧ e.nids.1 ∈ act.getD j []
  · simp only [h, and_self, if_true]
    rw [idRange_getD _ _ _ (List.idxOf_lt_length_iff.2 h.2)]
    rfl
  · simp only [h, if_false]

theorem gnode_bounds (act : List (List Int)) (j : Nat) {u : Int} (hu : u ∈ act.getD j []) :
    (lo act j : Int) ≤ gnode act j u ∧ gnode act j u < (lo act (j + 1) : Int) := by
  have := List.idxOf_lt_length_iff.2 hu
  simp only [gnode, lo, actLen]
  constructor <;> push_cast <;> omega

theorem gnode_inj (act : List (List Int)) (j : Nat) {u u' : Int} (hu : u ∈ act.getD j [])
    (h : gnode act j u = gnode act j u') : u = u' := by
  simp only [gnode] at h
  have : (act.getD j []).idxOf u = (act.getD j []).idxOf u' := by omega
  exact (List.idxOf_inj hu).1 this

theorem gnode_ne_of_layer_ne (act : List (List Int)) {j j' : Nat} {u u' : Int} (hu : u ∈ act.getD j [])
    (hu' : u' ∈ act.getD j' []) (hne : j ≠ j') : gnode act j u ≠ gnode act j' u' := by
  have b1 := gnode_bounds act j hu
  have b2 := gnode_bounds act j' hu'
  rcases Nat.lt_or_gt_of_ne hne with hlt | hlt
  · have := lo_mono act (show j + 1 ≤ j' by omega)
    omega
  · have := lo_mono act (show j' + 1 ≤ j by omega)
    omega

/-! ## the semantic induction -/

/-- what the reachability analysis provides -/
structure AutData (a : AutOp κ) (L : Nat) (act : List (List Int)) : Prop where
  actNodup : ∀ j, j ≤ L → (act.getD j []).Nodup
  act0 : act.getD 0 [] = [a.term false]
  actL : act.getD L [] = [a.term true]
  actNodes : ∀ j, j ≤ L → ∀ v ∈ act.getD j [], v ∈ dKeys a.nodes
  pruned : ∀ j, j < L → ∀ u ∈ act.getD j [], ∀ k e, (k, e) ∈ a.edges → e.nids.1 = u → e.active j = true →
    e.nids.2 ∉ act.getD (j + 1) [] → ∀ w : Word, w.length + (j + 1) = L → a.denFrom w (j + 1) e.nids.2 = 0
  succ : ∀ j, j < L → ∀ u ∈ act.getD j [], ∃ v ∈ act.getD (j + 1) [], ∃ e ∈ inEv a v,
    e.active j = true ∧ e.nids.1 = u

/-- the summand of `denE` on an edge record -/
def recF (x : Int) (o : Int) (D : Int → κ) (r : ERec κ) : κ :=
  if r.1.1 = x then opcL r.2 o * D r.1.2 else 0

theorem denE_cons_recs (es : List (Edge κ)) (t : Int) (o : Int) (w : Word) (x : Int) (hx : x ≠ t) :
    denE es t (o :: w) x = ((es.map fun e => (e.nids, e.opics)).map (recF x o (denE es t w))).sum := by
  rw [denE_cons, if_neg hx, map_map]
  rfl

theorem inEv_sum {a : AutOp κ} (h : AutValid a) {v : Int} (hv : v ∈ dKeys a.nodes) (φ : AEdge κ → κ) :
    ((inEv a v).map φ).sum = (a.edges.map fun ke => if ke.2.nids.2 = v then φ ke.2 else 0).sum := by
  unfold inEv
  cases hn : dGet? a.nodes v with
  | none => rw [dGet?_eq_none_iff] at hn; exact absurd hv hn
  | some n =>
    simp only [inE]
    have := h.sum_eids hn false φ
    simpa [AEdge.nid, Node.eids] using this

theorem unrolled_sem {a : AutOp κ} (hv : AutValid a) {L : Nat} {act : List (List Int)} (data : AutData a L act)
    (es : List (Edge κ)) (t : Int) (ht : t = (lo act L : Int))
    (hrecs : (es.map fun e => (e.nids, e.opics)) = (List.range L).flatMap (siteRecs a act)) :
    ∀ (n j : Nat), j + n = L → ∀ u ∈ act.getD j [], ∀ w : Word, w.length = n →
      denE es t w (gnode act j u) = a.denFrom w j u := by
  intro n
  induction n with
  | zero =>
    intro j hj u hu w hw
    have hjL : j = L := by omega
    subst hjL
    rw [data.actL] at hu
    simp only [mem_singleton] at hu
    subst hu
    have hw' : w = [] := List.length_eq_zero_iff.1 hw
    subst hw'
    have : gnode act j (a.term true) = t := by
      rw [gnode, data.actL, ht]; simp
    rw [this, denE_nil]
    simp [AutOp.denFrom]
  | succ n ih =>
    intro j hj u hu w hw
    obtain ⟨o, w, rfl⟩ : ∃ o w', w = o :: w' := by
      cases w with
      | nil => simp at hw
      | cons o w' => exact ⟨o, w', rfl⟩
    simp only [length_cons, Nat.add_right_cancel_iff] at hw
    have hjL : j < L := by omega
    have hxt : gnode act j u ≠ t := by
      have b := gnode_bounds act j hu
      have := lo_mono act (show j + 1 ≤ L by omega)
      omega
    rw [denE_cons_recs _ _ _ _ _ hxt, hrecs, sum_map_flatMap]
    -- only site `j` contributes
    rw [sum_range_single L j hjL]
    swap
    · intro j' hj' hne
      rw [siteRecs_sum a act j' (data.actNodup (j' + 1) (by omega))]
      apply sum_map_eq_zero
      intro v _
      apply sum_map_eq_zero
      intro e _
      by_cases h : e.active j' = true ∧ e.nids.1 ∈ act.getD j' []
      · simp only [h, and_self, if_true, recF]
        rw [if_neg (gnode_ne_of_layer_ne act h.2 hu hne)]
      · simp only [h, if_false]
    rw [siteRecs_sum a act j (data.actNodup (j + 1) (by omega))]
    -- rewrite the inner sums over the edge dictionary
    have step1 : ∀ v ∈ act.getD (j + 1) [],
        ((inEv a v).map fun e => if e.active j = true ∧ e.nids.1 ∈ act.getD j [] then
          recF (gnode act j u) o (denE es t w) ((gnode act j e.nids.1, gnode act (j + 1) v), normOpics (e.opics j))
          else 0).sum
        = (a.edges.map fun ke => if ke.2.nids.2 = v then
            (if ke.2.nids.1 = u then edgeTerm a o w j ke.2 else 0) else 0).sum := by
      intro v hv'
      rw [inEv_sum hv (data.actNodes (j + 1) (by omega) v hv')]
      apply sum_map_congr
      rintro ⟨k, e⟩ _
      simp only
      by_cases h2 : e.nids.2 = v
      · simp only [h2, if_true]
        by_cases h1 : e.nids.1 = u
        · subst h1
          simp only [hu, and_true, if_true, recF, edgeTerm]
          by_cases hact : e.active j = true
          · simp only [hact, if_true]
            rw [opcL_normOpics, ih (j + 1) (by omega) v hv' w hw, h2]
          · simp [hact]
        · simp only [h1, if_false]
          by_cases h : e.active j = true ∧ e.nids.1 ∈ act.getD j []
          · simp only [h, and_self, if_true, recF]
            rw [if_neg]
            intro hc
            exact h1 (gnode_inj act j h.2 hc)
          · simp only [h, if_false]
      · simp only [h2, if_false]
    rw [sum_map_congr _ _ _ step1, sum_sum_comm, hv.denFrom_cons]
    apply sum_map_congr
    rintro ⟨k, e⟩ hke
    simp only
    rw [sum_map_ite_eq (data.actNodup (j + 1) (by omega))]
    by_cases h1 : e.nids.1 = u
    · simp only [h1, if_true]
      by_cases h2 : e.nids.2 ∈ act.getD (j + 1) []
      · simp only [h2, if_true]
      · simp only [h2, if_false, edgeTerm]
        by_cases hact : e.active j = true
        · simp only [hact, if_true]
          rw [data.pruned j hjL u hu k e hke h1 hact h2 w (by omega)]
          simp
        · simp [hact]
    · simp [h1]

/-! ## dead states do not contribute -/

/-- a state that is not backward reachable at layer `j` has path sum zero -/
theorem denFrom_eq_zero_of_not_back {a : AutOp κ} (hv : AutValid a) {L : Nat} {back : List (List Int)}
    (hL : back.getD L [] = [a.term true])
    (hstep : ∀ j, j < L → a.stepActive false j (back.getD (j + 1) []) = .ok (back.getD j [])) :
    ∀ (w : Word) (j : Nat) (v : Int), w.length + j = L → v ∉ back.getD j [] → a.denFrom w j v = 0 := by
  intro w
  induction w with
  | nil =>
    intro j v hj hvb
    simp only [length_nil, Nat.zero_add] at hj
    subst hj
    rw [hL] at hvb
    simp only [mem_singleton] at hvb
    simp [AutOp.denFrom, hvb]
  | cons o w ih =>
    intro j v hj hvb
    simp only [length_cons] at hj
    rw [hv.denFrom_cons]
    apply sum_map_eq_zero
    rintro ⟨k, e⟩ hke
    simp only
    by_cases h1 : e.nids.1 = v
    · simp only [h1, if_true, edgeTerm]
      by_cases hact : e.active j = true
      · simp only [hact, if_true]
        rw [ih (j + 1) e.nids.2 (by omega), mul_zero]
        intro hmem
        apply hvb
        have hlook := dGet?_eq_some_of_mem hv.edgesKeys hke
        obtain ⟨n, hn, hk⟩ := hv.edgeNode k e hlook true
        rw [(stepActive_spec (hstep j (by omega))).2]
        exact ⟨e.nids.2, hmem, n, by simpa [AEdge.nid] using hn, k, by simpa using hk, e, hlook, hact,
          by simpa [AEdge.nid] using h1⟩
      · simp [hact]
    · simp [h1]

/-- forward reachable states are closed under active edges -/
theorem mem_fwd_succ {a : AutOp κ} (hv : AutValid a) {L : Nat} {fwd : List (List Int)}
    (hstep : ∀ j, j < L → a.stepActive true j (fwd.getD j []) = .ok (fwd.getD (j + 1) []))
    {j : Nat} (hj : j < L) {u k : Int} {e : AEdge κ} (hu : u ∈ fwd.getD j []) (hke : (k, e) ∈ a.edges)
    (h1 : e.nids.1 = u) (hact : e.active j = true) : e.nids.2 ∈ fwd.getD (j + 1) [] := by
  have hlook := dGet?_eq_some_of_mem hv.edgesKeys hke
  obtain ⟨n, hn, hk⟩ := hv.edgeNode k e hlook false
  rw [(stepActive_spec (hstep j hj)).2]
  exact ⟨u, hu, n, by simpa [AEdge.nid, h1] using hn, k, by simpa using hk, e, hlook, hact, by simp [AEdge.nid]⟩

theorem autData_of_layers {a : AutOp κ} (hv : AutValid a) {L : Nat} {back fwd : List (List Int)}
    (hb : a.backwardLayers L = .ok back) (hf : a.forwardLayers L = .ok fwd)
    (h0 : (actOf back fwd).getD 0 [] = [a.term false]) (hL : (actOf back fwd).getD L [] = [a.term true])
    (hnodes : ∀ j, j ≤ L → ∀ v ∈ (actOf back fwd).getD j [], v ∈ dKeys a.nodes) :
    AutData a L (actOf back fwd) := by
  obtain ⟨bl, bL, bstep⟩ := backwardLayers_spec hb
  obtain ⟨fl, f0, fstep⟩ := forwardLayers_spec hf
  have hact : ∀ j, j ≤ L → (actOf back fwd).getD j [] =
      (back.getD j []).filter (fun x => (fwd.getD j []).contains x) :=
    fun j hj => actOf_getD back fwd j (by omega) (by omega)
  refine ⟨?_, h0, hL, hnodes, ?_, ?_⟩
  rotate_left 2
  · intro j hj u hu
    rw [hact j (by omega)] at hu
    simp only [mem_filter, contains_eq_mem, decide_eq_true_eq] at hu
    obtain ⟨v, hvB, n, hn, eid, heid, e, he, hactive, h1⟩ := (stepActive_spec (bstep j hj)).2 u |>.1 hu.1
    have h1' : e.nids.1 = u := by simpa [AEdge.nid] using h1
    have hfw := mem_fwd_succ hv fstep hj hu.2 (mem_of_dGet?_eq_some he) h1' hactive
    obtain ⟨n', hn', _⟩ := hv.edgeNode eid e he true
    obtain ⟨e', he', hv'⟩ := hv.nodeEdge v n hn false eid heid
    rw [he] at he'; cases he'
    have hv'' : e.nids.2 = v := by simpa [AEdge.nid] using hv'
    refine ⟨v, ?_, e, ?_, hactive, h1'⟩
    · rw [hact (j + 1) (by omega)]
      simp only [mem_filter, contains_eq_mem, decide_eq_true_eq]
      exact ⟨hvB, hv'' ▸ hfw⟩
    · simp only [inEv, hn, inE, mem_filterMap]
      exact ⟨eid, by simpa [Node.eids] using heid, he⟩
  · intro j hj
    rw [hact j hj]
    apply Nodup.filter
    by_cases hjL : j = L
    · subst hjL; rw [bL]; simp
    · exact (stepActive_spec (bstep j (by omega))).1.nodup
  · intro j hj u hu k e hke h1 hactive h2 w hw
    rw [hact j (by omega)] at hu
    rw [hact (j + 1) (by omega)] at h2
    simp only [mem_filter, contains_eq_mem, decide_eq_true_eq, not_and] at hu h2
    have hfw := mem_fwd_succ hv fstep hj hu.2 hke h1 hactive
    exact denFrom_eq_zero_of_not_back hv bL bstep w (j + 1) e.nids.2 hw (fun hc => h2 hc hfw)

/-! ## the result of `from_automaton` -/

theorem SValid.of_isConsistent {g : Graph κ} (hd : NoDup g) (hc : g.isConsistent = true) : SValid g := by
  rw [isConsistent_eq, Bool.and_eq_true] at hc
  exact SValid.of_structOk hc.1 hd

theorem edgeList_recs (g : Graph κ) : (g.edgeList.map fun e => (e.nids, e.opics)) = g.recs := by
  simp [Graph.edgeList, Graph.recs]

/-- **`from_automaton` denotes the automaton's path sum** (dead states are pruned without changing it) -/
theorem fromAutomaton_denF {a : AutOp κ} (hv : AutValid a) {L : Int} {g : Graph κ}
    (h : fromAutomaton a L = .ok g) (w : Word) (hw : (w.length : Int) = L) : g.denF w = a.denF w := by
  obtain ⟨hL, back, fwd, hb, hf, h0, hLa, hrecs, hnd, hcons, hterm, _, hnodes⟩ := fromAutomaton_unrolled h
  have data := autData_of_layers hv hb hf h0 hLa hnodes
  have sv := SValid.of_isConsistent hnd hcons
  rw [denF_eq_denE sv]
  have ht1 : g.term true = (lo (actOf back fwd) L.toNat : Int) := by simp [Graph.term, hterm]
  have ht0 : g.term false = gnode (actOf back fwd) 0 (a.term false) := by
    rw [gnode, h0]
    simp [Graph.term, hterm, lo]
  rw [ht0]
  exact unrolled_sem hv data g.edgeList (g.term true) ht1 (by rw [edgeList_recs, hrecs]) L.toNat 0 (by omega)
    (a.term false) (by rw [h0]; simp) w (by omega)

theorem fromAutomaton_isConsistent {a : AutOp κ} {L : Int} {g : Graph κ}
    (h : fromAutomaton a L = .ok g) : g.isConsistent = true := by
  obtain ⟨_, _, _, _, _, _, _, _, _, hcons, _⟩ := fromAutomaton_unrolled h
  exact hcons

end Ptn.Og

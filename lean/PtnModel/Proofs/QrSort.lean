import Mathlib.Data.List.Sort
import Mathlib.Data.List.Range
import PtnModel.Model.BondOps
/-!
# Sorting facts used by the block QR / SVD of `bond_ops.py`

* `intersect1d a b` is strictly increasing and contains exactly the common values;
* `stableArgsort q` is a permutation of `range q.length` and `q ∘ σ` is sorted;
* `invPerm σ` is the inverse permutation (`PermInv`);
* in a sorted list the positions of a value `v` are exactly `[firstIdx q v, lastIdxSucc q v)`, and the
  blocks of distinct values are ordered.
-/
namespace Ptn.BondOps

/-! ### `insertUnique`, `sortedUnique`, `intersect1d` -/

theorem mem_insertUnique {x y : Int} {l : List Int} : y ∈ insertUnique x l ↔ y = x ∨ y ∈ l := by
  induction l with
  | nil => simp [insertUnique]
  | cons z zs ih =>
    simp only [insertUnique]
    split
    · simp
    · split
      · rename_i h; subst h; simp
      · simp only [List.mem_cons, ih]; tauto

theorem pairwise_insertUnique {x : Int} {l : List Int} (h : l.Pairwise (· < ·)) :
    (insertUnique x l).Pairwise (· < ·) := by
  induction l with
  | nil => simp [insertUnique]
  | cons z zs ih =>
    simp only [insertUnique]
    have h' := List.pairwise_cons.1 h
    split
    · rename_i hxz
      refine List.pairwise_cons.2 ⟨?_, h⟩
      intro a ha
      rcases List.mem_cons.1 ha with rfl | ha
      · exact hxz
      · exact lt_trans hxz (h'.1 a ha)
    · split
      · exact h
      · refine List.pairwise_cons.2 ⟨?_, ih h'.2⟩
        intro a ha
        rcases mem_insertUnique.1 ha with rfl | ha
        · omega
        · exact h'.1 a ha

theorem sortedUnique_aux (l acc : List Int) (hacc : acc.Pairwise (· < ·)) :
    (l.foldl (fun acc x => insertUnique x acc) acc).Pairwise (· < ·) ∧
    ∀ y, y ∈ l.foldl (fun acc x => insertUnique x acc) acc ↔ y ∈ acc ∨ y ∈ l := by
  induction l generalizing acc with
  | nil => simp [hacc]
  | cons x xs ih =>
    simp only [List.foldl_cons]
    obtain ⟨h1, h2⟩ := ih (insertUnique x acc) (pairwise_insertUnique hacc)
    refine ⟨h1, fun y => ?_⟩
    rw [h2, mem_insertUnique, List.mem_cons]; tauto

theorem pairwise_sortedUnique (l : List Int) : (sortedUnique l).Pairwise (· < ·) :=
  (sortedUnique_aux l [] List.Pairwise.nil).1

theorem mem_sortedUnique {l : List Int} {y : Int} : y ∈ sortedUnique l ↔ y ∈ l := by
  have := (sortedUnique_aux l [] List.Pairwise.nil).2 y
  simpa [sortedUnique] using this

/-- `np.intersect1d` returns exactly the common values … -/
theorem mem_intersect1d {a b : List Int} {c : Int} : c ∈ intersect1d a b ↔ c ∈ a ∧ c ∈ b := by
  simp [intersect1d, mem_sortedUnique]

/-- … in strictly increasing order (in particular without duplicates). -/
theorem pairwise_intersect1d (a b : List Int) : (intersect1d a b).Pairwise (· < ·) :=
  (pairwise_sortedUnique a).filter _

theorem nodup_intersect1d (a b : List Int) : (intersect1d a b).Nodup :=
  (pairwise_intersect1d a b).imp (fun h => ne_of_lt h)

/-! ### `insertStable`, `stableArgsort` -/

theorem perm_insertStable (key : Nat → Int) (i : Nat) (l : List Nat) :
    (insertStable key i l).Perm (i :: l) := by
  induction l with
  | nil => simp [insertStable]
  | cons j js ih =>
    simp only [insertStable]
    split
    · exact List.Perm.refl _
    · exact (List.Perm.cons j ih).trans (List.Perm.swap i j js)

theorem pairwise_insertStable (key : Nat → Int) (i : Nat) {l : List Nat}
    (h : l.Pairwise (fun a b => key a ≤ key b)) :
    (insertStable key i l).Pairwise (fun a b => key a ≤ key b) := by
  induction l with
  | nil => simp [insertStable]
  | cons j js ih =>
    simp only [insertStable]
    have h' := List.pairwise_cons.1 h
    split
    · rename_i hij
      refine List.pairwise_cons.2 ⟨?_, h⟩
      intro a ha
      rcases List.mem_cons.1 ha with rfl | ha
      · omega
      · have := h'.1 a ha; omega
    · rename_i hij
      refine List.pairwise_cons.2 ⟨?_, ih h'.2⟩
      intro a ha
      rcases List.mem_cons.1 ((perm_insertStable key i js).mem_iff.1 ha) with rfl | ha
      · omega
      · exact h'.1 a ha

theorem argsort_aux (key : Nat → Int) (l acc : List Nat)
    (hacc : acc.Pairwise (fun a b => key a ≤ key b)) :
    (l.foldl (fun acc i => insertStable key i acc) acc).Pairwise (fun a b => key a ≤ key b) ∧
    (l.foldl (fun acc i => insertStable key i acc) acc).Perm (l ++ acc) := by
  induction l generalizing acc with
  | nil => simp [hacc]
  | cons x xs ih =>
    simp only [List.foldl_cons]
    obtain ⟨h1, h2⟩ := ih (insertStable key x acc) (pairwise_insertStable key x hacc)
    refine ⟨h1, h2.trans ?_⟩
    refine ((List.Perm.append_left xs (perm_insertStable key x acc)).trans ?_)
    simp

/-- `np.argsort(q, kind='mergesort')` is a permutation of `0, …, len(q) - 1`. -/
theorem stableArgsort_perm (q : List Int) : (stableArgsort q).Perm (List.range q.length) := by
  have := (argsort_aux (fun k => q.toArray.getD k 0) (List.range q.length) [] List.Pairwise.nil).2
  simpa [stableArgsort] using this

theorem stableArgsort_length (q : List Int) : (stableArgsort q).length = q.length := by
  simpa using (stableArgsort_perm q).length_eq

/-- `q[np.argsort(q)]` is sorted. -/
theorem stableArgsort_sorted (q : List Int) : (permuteList q (stableArgsort q)).Pairwise (· ≤ ·) := by
  have := (argsort_aux (fun k => q.toArray.getD k 0) (List.range q.length) [] List.Pairwise.nil).1
  rw [permuteList, List.pairwise_map]
  simpa [stableArgsort] using this

theorem permuteList_length (q : List Int) (σ : List Nat) : (permuteList q σ).length = σ.length := by
  simp [permuteList]

theorem permuteList_getD (q : List Int) (σ : List Nat) {i : Nat} (hi : i < σ.length) :
    (permuteList q σ).getD i 0 = q.getD (σ.getD i 0) 0 := by
  simp [permuteList, List.getD_eq_getElem?_getD, hi]

theorem map_getD_range {α} (l : List α) (d : α) : (List.range l.length).map (fun k => l.getD k d) = l := by
  apply List.ext_getElem
  · simp
  · intro i h1 h2
    simp [List.getD_eq_getElem?_getD, h2]

theorem permuteList_range (q : List Int) : permuteList q (List.range q.length) = q :=
  map_getD_range q 0

theorem isIdPerm_iff (σ : List Nat) : isIdPerm σ = true ↔ σ = List.range σ.length := by
  simp [isIdPerm]

/-! ### permutations given as lists and their inverses -/

/-- `σ` and `τ` are mutually inverse permutations of `0, …, n - 1` (entries read with `getD · 0`). -/
structure PermInv (σ τ : List Nat) (n : Nat) : Prop where
  lenσ : σ.length = n
  lenτ : τ.length = n
  σ_lt : ∀ i, i < n → σ.getD i 0 < n
  τ_lt : ∀ i, i < n → τ.getD i 0 < n
  στ : ∀ i, i < n → σ.getD (τ.getD i 0) 0 = i
  τσ : ∀ i, i < n → τ.getD (σ.getD i 0) 0 = i

theorem PermInv.symm {σ τ : List Nat} {n : Nat} (h : PermInv σ τ n) : PermInv τ σ n :=
  ⟨h.lenτ, h.lenσ, h.τ_lt, h.σ_lt, h.τσ, h.στ⟩

theorem getD_mem_of_lt {l : List Nat} {i : Nat} (h : i < l.length) : l.getD i 0 ∈ l := by
  simp [List.getD_eq_getElem?_getD, h]

theorem exists_getD_of_mem {l : List Nat} {x : Nat} (h : x ∈ l) : ∃ k, k < l.length ∧ l.getD k 0 = x := by
  obtain ⟨k, hk, rfl⟩ := List.mem_iff_getElem.1 h
  exact ⟨k, hk, by simp [List.getD_eq_getElem?_getD, hk]⟩

theorem PermInv.of_perm {σ τ : List Nat} {n : Nat} (hσ : σ.Perm (List.range n)) (hτ : τ.Perm (List.range n))
    (h : ∀ i, i < n → σ.getD (τ.getD i 0) 0 = i) : PermInv σ τ n := by
  have lσ : σ.length = n := by simpa using hσ.length_eq
  have lτ : τ.length = n := by simpa using hτ.length_eq
  refine ⟨lσ, lτ, ?_, ?_, h, ?_⟩
  · intro i hi
    have := hσ.mem_iff.1 (getD_mem_of_lt (l := σ) (by omega : i < σ.length))
    simpa using this
  · intro i hi
    have := hτ.mem_iff.1 (getD_mem_of_lt (l := τ) (by omega : i < τ.length))
    simpa using this
  · intro i hi
    obtain ⟨k, hk, hk'⟩ := exists_getD_of_mem (hτ.mem_iff.2 (List.mem_range.2 hi))
    rw [← hk', h k (by omega)]

theorem getD_map_ofNat (σ : List Nat) (k : Nat) : (σ.map Int.ofNat).getD k 0 = Int.ofNat (σ.getD k 0) := by
  simp only [List.getD_eq_getElem?_getD, List.getElem?_map]
  cases σ[k]? <;> rfl

/-- `np.argsort(idx)` of a permutation `idx` is its inverse. -/
theorem invPerm_spec {σ : List Nat} {n : Nat} (hσ : σ.Perm (List.range n)) : PermInv σ (invPerm σ) n := by
  have lσ : σ.length = n := by simpa using hσ.length_eq
  have hτ : (invPerm σ).Perm (List.range n) := by
    have := stableArgsort_perm (σ.map Int.ofNat)
    simpa [invPerm, lσ] using this
  have lτ : (invPerm σ).length = n := by simpa using hτ.length_eq
  refine PermInv.of_perm hσ hτ ?_
  have hs := stableArgsort_sorted (σ.map Int.ofNat)
  have hp : (permuteList (σ.map Int.ofNat) (invPerm σ)).Perm ((List.range n).map Int.ofNat) := by
    have h1 : (permuteList (σ.map Int.ofNat) (invPerm σ)).Perm
        ((List.range n).map fun k => (σ.map Int.ofNat).getD k 0) := hτ.map _
    have h2 : ((List.range n).map fun k => (σ.map Int.ofNat).getD k 0) = σ.map Int.ofNat := by
      have := map_getD_range (σ.map Int.ofNat) 0
      simpa [lσ] using this
    rw [h2] at h1
    exact h1.trans (hσ.map _)
  have hr : ((List.range n).map Int.ofNat).Pairwise (· ≤ ·) := by
    rw [List.pairwise_map]
    exact (List.pairwise_lt_range (n := n)).imp (fun h => by simpa using Nat.le_of_lt h)
  have heq : permuteList (σ.map Int.ofNat) (invPerm σ) = (List.range n).map Int.ofNat :=
    List.Perm.eq_of_pairwise (fun a b _ _ h1 h2 => Int.le_antisymm h1 h2) hs hr hp
  intro i hi
  have : (permuteList (σ.map Int.ofNat) (invPerm σ)).getD i 0 = ((List.range n).map Int.ofNat).getD i 0 := by
    rw [heq]
  rw [permuteList_getD _ _ (by omega), getD_map_ofNat, getD_map_ofNat] at this
  have h3 : (List.range n).getD i 0 = i := by simp [List.getD_eq_getElem?_getD, hi]
  rw [h3] at this
  exact Int.ofNat.inj this

theorem permInv_range (n : Nat) : PermInv (List.range n) (List.range n) n := by
  have h : ∀ i, i < n → (List.range n).getD i 0 = i := fun i hi => by
    simp [List.getD_eq_getElem?_getD, hi]
  refine ⟨by simp, by simp, ?_, ?_, ?_, ?_⟩ <;> intro i hi <;> simp [hi]

/-- the sorting permutation and its inverse, as used by `qr`/`split_matrix_svd` -/
theorem stableArgsort_permInv (q : List Int) : PermInv (stableArgsort q) (invPerm (stableArgsort q)) q.length :=
  invPerm_spec (stableArgsort_perm q)

/-! ### blocks of equal values in a sorted list -/

/-- sortedness, entries read with `getD · 0` -/
theorem sorted_getD {q : List Int} (hs : q.Pairwise (· ≤ ·)) {i j : Nat} (hij : i ≤ j) (hj : j < q.length) :
    q.getD i 0 ≤ q.getD j 0 := by
  rcases Nat.eq_or_lt_of_le hij with rfl | hlt
  · exact le_refl _
  · have := List.pairwise_iff_getElem.1 hs i j (by omega) hj hlt
    simpa [List.getD_eq_getElem?_getD, hj, (by omega : i < q.length)] using this

theorem firstIdx_spec {q : List Int} {v : Int} (h : v ∈ q) :
    firstIdx q v < q.length ∧ q.getD (firstIdx q v) 0 = v ∧
      ∀ i, i < firstIdx q v → q.getD i 0 ≠ v := by
  unfold firstIdx
  cases hf : q.findIdx? (· == v) with
  | none =>
    rw [List.findIdx?_eq_none_iff] at hf
    have := hf v h
    simp at this
  | some a =>
    obtain ⟨ha, h1, h2⟩ := List.findIdx?_eq_some_iff_getElem.1 hf
    simp only [Option.getD_some]
    refine ⟨ha, ?_, ?_⟩
    · simpa [List.getD_eq_getElem?_getD, ha] using h1
    · intro i hi
      have := h2 i hi
      simpa [List.getD_eq_getElem?_getD, (by omega : i < q.length)] using this

theorem lastIdxSucc_spec {q : List Int} {v : Int} (h : v ∈ q) :
    0 < lastIdxSucc q v ∧ lastIdxSucc q v ≤ q.length ∧ q.getD (lastIdxSucc q v - 1) 0 = v ∧
      ∀ i, lastIdxSucc q v ≤ i → i < q.length → q.getD i 0 ≠ v := by
  unfold lastIdxSucc
  cases hf : q.reverse.findIdx? (· == v) with
  | none =>
    rw [List.findIdx?_eq_none_iff] at hf
    have := hf v (List.mem_reverse.2 h)
    simp at this
  | some r =>
    obtain ⟨hr, h1, h2⟩ := List.findIdx?_eq_some_iff_getElem.1 hf
    simp only [Option.getD_some]
    rw [List.length_reverse] at hr
    refine ⟨by omega, by omega, ?_, ?_⟩
    · rw [List.getElem_reverse] at h1
      have hlt : q.length - r - 1 < q.length := by omega
      have : q.length - 1 - r = q.length - r - 1 := by omega
      simp only [this] at h1
      simpa [List.getD_eq_getElem?_getD, hlt] using h1
    · intro i hi hi'
      have := h2 (q.length - 1 - i) (by omega)
      rw [List.getElem_reverse] at this
      have e : q.length - 1 - (q.length - 1 - i) = i := by omega
      simp only [e] at this
      simpa [List.getD_eq_getElem?_getD, hi'] using this

theorem mem_of_getD_eq {q : List Int} {i : Nat} {v : Int} (hi : i < q.length) (h : q.getD i 0 = v) : v ∈ q := by
  rw [← h]; simp [List.getD_eq_getElem?_getD, hi]

/-- a value that occurs has a non-empty block inside the list -/
theorem block_nonempty {q : List Int} {v : Int} (h : v ∈ q) :
    firstIdx q v < lastIdxSucc q v ∧ lastIdxSucc q v ≤ q.length := by
  obtain ⟨a1, a2, a3⟩ := firstIdx_spec h
  obtain ⟨b1, b2, b3, b4⟩ := lastIdxSucc_spec h
  refine ⟨?_, b2⟩
  by_contra hc
  exact b4 (firstIdx q v) (by omega) a1 a2

/-- every position carrying `v` lies in the block (no sortedness needed) -/
theorem block_of_eq {q : List Int} {v : Int} {i : Nat} (hi : i < q.length) (h : q.getD i 0 = v) :
    firstIdx q v ≤ i ∧ i < lastIdxSucc q v := by
  have hm := mem_of_getD_eq hi h
  obtain ⟨a1, a2, a3⟩ := firstIdx_spec hm
  obtain ⟨b1, b2, b3, b4⟩ := lastIdxSucc_spec hm
  constructor
  · by_contra hc; exact a3 i (by omega) h
  · by_contra hc; exact b4 i (by omega) hi h

/-- in a sorted list, every position of the block carries `v` -/
theorem block_mem {q : List Int} (hs : q.Pairwise (· ≤ ·)) {v : Int} (h : v ∈ q) {i : Nat}
    (h1 : firstIdx q v ≤ i) (h2 : i < lastIdxSucc q v) : q.getD i 0 = v := by
  obtain ⟨a1, a2, a3⟩ := firstIdx_spec h
  obtain ⟨b1, b2, b3, b4⟩ := lastIdxSucc_spec h
  have l1 := sorted_getD hs h1 (by omega)
  have l2 := sorted_getD hs (by omega : i ≤ lastIdxSucc q v - 1) (by omega)
  omega

/-- in a sorted list the blocks of `v < v'` are ordered -/
theorem block_order {q : List Int} (hs : q.Pairwise (· ≤ ·)) {v v' : Int} (h : v ∈ q) (h' : v' ∈ q)
    (hlt : v < v') : lastIdxSucc q v ≤ firstIdx q v' := by
  obtain ⟨a1, a2, a3⟩ := firstIdx_spec h'
  obtain ⟨b1, b2, b3, b4⟩ := lastIdxSucc_spec h
  by_contra hc
  have := sorted_getD hs (by omega : firstIdx q v' ≤ lastIdxSucc q v - 1) (by omega)
  omega

end Ptn.BondOps

import PtnModel.Proofs.EvoTdvp
import PtnModel.Proofs.OrthoExample
/-!
# Concrete objects for the non-vacuity examples of C08 / C10

* `triv1`, `eighAt_one`   : with one Lanczos iteration the tridiagonal matrix is `1 × 1` and its eigen-decomposition is
                            trivial, so the per-run contract `C15.EighAt … 1` holds for *every* map and start vector;
* `exK`                   : kernels over `ℂ` satisfying all contracts (QR kernel `Ortho.realQR`, 2-norm, `triv1`,
                            `dexp ≡ 1`, `half = 1/2`);
* `exOC`                  : the Hermitian two-site MPO `Z ⊗ 1 + 1 ⊗ Z` over `ℂ`; `exK_ctx : SweepCtx exK exOC [0,1] 1`;
* `exW`, `exA`            : the genuinely complex Hermitian one-site operator `[[1, i], [-i, -1]]` between trivial blocks
                            and the start tensor `(1, 0)`; `exLocal`; the local routines return on them
                            (`localStep_ok_one`, `minimize_ok_one`).
-/
set_option linter.unusedSectionVars false

namespace Ptn.Evo
open Ptn Ptn.Krylov Ptn.Env Ptn.Ortho Ptn.Dense Finset

variable {𝕜 : Type} [RCLike 𝕜]

/-- eigen-decomposition of a `1 × 1` matrix -/
def triv1 : List ℝ → List ℝ → List ℝ × Mat ℝ := fun al _ => (al, ⟨al.length, al.length, fun _ _ => 1⟩)

theorem eighAt_one (Afun : List 𝕜 → List 𝕜) (dnorm : List 𝕜 → ℝ) (v : List 𝕜) : C15.EighAt Afun dnorm triv1 v 1 := by
  intro alpha beta V hl
  obtain ⟨h1, h2, h3, _, _⟩ := lanczos_sizes _ _ hl
  have hlen : alpha.length = 1 := by omega
  have hb : beta = [] := List.eq_nil_of_length_eq_zero (by omega)
  obtain ⟨a, rfl⟩ : ∃ a, alpha = [a] := by
    match alpha, hlen with
    | [a], _ => exact ⟨a, rfl⟩
  subst hb
  refine ⟨rfl, rfl, rfl, ?_, ?_, ?_, ?_⟩
  · intro i j hij hj
    have : j = 0 := by simpa using hj
    subst this
    have : i = 0 := by omega
    subst this; exact le_refl _
  all_goals
    intro a' b' ha' hb'
    have ha'' : a' = 0 := by simpa using ha'
    have hb'' : b' = 0 := by simpa using hb'
    subst ha''; subst hb''
    simp [triv1, tridiag]

/-- with one iteration and the trivial eigen-decomposition the Hermitian Krylov exponential returns whenever the start
vector has positive norm -/
theorem expm_ok_one {Afun : List 𝕜 → List 𝕜} {dnorm : List 𝕜 → ℝ} {dexp : 𝕜 → 𝕜} {dexpm : Mat 𝕜 → Mat 𝕜} {v : List 𝕜}
    (hN : NormContract dnorm) (hpos : 0 < dnorm v) (dt : 𝕜) : ∃ r, expmKrylov Afun dnorm triv1 dexp dexpm v dt 1 true = .ok r := by
  obtain ⟨⟨alpha, beta, V⟩, hl⟩ := lanczos_isOk Afun dnorm (vstart := v) (numiter := 1) hpos (by omega) (hN.pos_dim hpos)
  have hE' := eighAt_one Afun dnorm v alpha beta V hl
  obtain ⟨h1, _, _, _, hVn⟩ := lanczos_sizes _ _ hl
  unfold expmKrylov
  simp only [if_true]
  rw [hl]
  simp only [bind, Except.bind]
  rw [if_neg (by rw [hE'.Um]; omega), if_neg (by rw [hE'.wlen, hE'.Un]; simp), if_neg (by rw [hVn, hE'.Um]; simp)]
  exact ⟨_, rfl⟩

theorem eigh_ok_one {Afun : List 𝕜 → List 𝕜} {dnorm : List 𝕜 → ℝ} {v : List 𝕜} (hN : NormContract dnorm)
    (hpos : 0 < dnorm v) : ∃ ws u, eighKrylov Afun dnorm triv1 v 1 1 = .ok (ws, u) ∧ ws ≠ [] ∧ u.n ≠ 0 := by
  obtain ⟨⟨alpha, beta, V⟩, hl⟩ := lanczos_isOk Afun dnorm (vstart := v) (numiter := 1) hpos (by omega) (hN.pos_dim hpos)
  have hE' := eighAt_one Afun dnorm v alpha beta V hl
  obtain ⟨h1, _, _, _, hVn⟩ := lanczos_sizes _ _ hl
  unfold eighKrylov
  rw [hl]
  simp only [bind, Except.bind]
  rw [if_neg (by rw [hVn, hE'.Um]; simp)]
  refine ⟨_, _, rfl, ?_, ?_⟩
  · intro h0
    have hw := hE'.wlen
    have : ((triv1 alpha beta).1.take 1).length = 0 := by rw [h0]; rfl
    rw [List.length_take, hw] at this
    omega
  · show min 1 (triv1 alpha beta).2.n ≠ 0
    rw [hE'.Un]; omega

variable [DecidableEq 𝕜]

theorem localStep_ok_one {k : EvoKernels 𝕜 ℝ} (hd : k.deigh = triv1) {L R : T3 𝕜} {W : T4 𝕜} {A : T3 𝕜}
    (hN : NormContract k.cnorm) (hpos : 0 < k.cnorm (flat3 A)) (dt : 𝕜) : ∃ A1, localHamiltonianStep k L R W A dt 1 = .ok A1 := by
  obtain ⟨r, hr⟩ := expm_ok_one (Afun := localHFun L R W A.d0 A.d1 A.d2) (dexp := k.dexp) (dexpm := k.dexpm) hN hpos (-dt)
  unfold localHamiltonianStep
  rw [hd, hr]
  exact ⟨_, rfl⟩

theorem bondStep_ok_one {k : EvoKernels 𝕜 ℝ} (hd : k.deigh = triv1) {L R : T3 𝕜} {C : Mat 𝕜}
    (hN : NormContract k.cnorm) (hpos : 0 < k.cnorm (flat2 C)) (dt : 𝕜) : ∃ C1, localBondStep k L R C dt 1 = .ok C1 := by
  obtain ⟨r, hr⟩ := expm_ok_one (Afun := localBondFun L R C.m C.n) (dexp := k.dexp) (dexpm := k.dexpm) hN hpos (-dt)
  unfold localBondStep
  rw [hd, hr]
  exact ⟨_, rfl⟩

theorem minimize_ok_one {k : EvoKernels 𝕜 ℝ} (hd : k.deigh = triv1) {L R : T3 𝕜} {W : T4 𝕜} {A : T3 𝕜}
    (hN : NormContract k.cnorm) (hpos : 0 < k.cnorm (flat3 A)) : ∃ r, minimizeLocalEnergy k L R W A 1 = .ok r := by
  obtain ⟨ws, u, hr, hws, hun⟩ := eigh_ok_one (Afun := localHFun L R W A.d0 A.d1 A.d2) hN hpos
  unfold minimizeLocalEnergy
  rw [hd, hr]
  cases ws with
  | nil => exact absurd rfl hws
  | cons w0 rest =>
    simp only [bind, Except.bind]
    rw [if_neg hun]
    exact ⟨_, rfl⟩

/-! ## concrete kernels and operators over `ℂ` -/

/-- kernels over `ℂ` satisfying all contracts used by C08 / C10 (with one Lanczos iteration) -/
noncomputable def exK : EvoKernels ℂ ℝ where
  dqr := realQR
  svd := ⟨fun B => (B, [], B), fun _ => 0, fun _ => []⟩
  dsqrt := Real.sqrt
  cnorm := sqrtNorm
  deigh := triv1
  dexp := fun _ => 1
  dexpm := id
  half := ((1 / 2 : ℝ) : ℂ)

/-- `Z ⊗ 1 + 1 ⊗ Z` over `ℂ` (two sites, bond dimension 2) -/
noncomputable def exOC : MPO ℂ := ⟨[0, 1], [[0], [0, 0], [0]],
  [⟨2, 2, 1, 2, fun s t _ b => if s = t then (if b = 0 then (if s = 0 then 1 else -1) else 1) else 0⟩,
   ⟨2, 2, 2, 1, fun s t a _ => if s = t then (if a = 0 then 1 else (if s = 0 then 1 else -1)) else 0⟩]⟩

theorem exOC_shaped : C04.MPO.Shaped exOC 2 := by decide

theorem exOC_herm : C04.MPO.DenseHermitian exOC 2 := by
  intro s hs t ht
  have hs' : s ∈ digits [2, 2] := hs
  have ht' : t ∈ digits [2, 2] := ht
  obtain ⟨s0, r, h0, hr, rfl⟩ := mem_digits_cons.1 hs'
  obtain ⟨s1, r', h1, hr', rfl⟩ := mem_digits_cons.1 hr
  obtain ⟨t0, u, g0, hu, rfl⟩ := mem_digits_cons.1 ht'
  obtain ⟨t1, u', g1, hu', rfl⟩ := mem_digits_cons.1 hu
  simp only [digits_nil, Finset.mem_singleton] at hr' hu'
  subst hr' hu'
  interval_cases s0 <;> interval_cases s1 <;> interval_cases t0 <;> interval_cases t1 <;>
    simp [MPO.elem, MPO.elemRow, exOC, sumRange, List.range_succ]

/-- all hypotheses of the sweep theorems on kernels and Hamiltonian are jointly satisfiable (one Lanczos iteration) -/
theorem exK_ctx : SweepCtx exK exOC [0, 1] 1 :=
  ⟨⟨realQR_contract, realQR_realDiag⟩, sqrtNorm_contract, fun Afun v => eighAt_one Afun _ v, exOC_shaped, exOC_herm,
    by decide⟩

theorem exK_exp : ∀ x : ℝ, ‖exK.dexp (RCLike.I * (x : ℂ))‖ = 1 := fun _ => by simp [exK]

/-- the Hermitian one-site operator `[[1, i], [-i, -1]]` (bond dimensions one) -/
noncomputable def exW : T4 ℂ :=
  ⟨2, 2, 1, 1, fun s t _ _ => if s = t then (if s = 0 then 1 else -1) else (if s = 0 then Complex.I else -Complex.I)⟩

/-- the start tensor `(1, 0)` -/
noncomputable def exA : T3 ℂ := ⟨2, 1, 1, fun s _ _ => if s = 0 then 1 else 0⟩

theorem exA_pos : 0 < exK.cnorm (flat3 exA) := by
  show 0 < sqrtNorm (flat3 exA)
  refine (sqrtNorm_contract.pos_iff _).2 ⟨1, ?_, one_ne_zero⟩
  simp [flat3, exA, List.range_succ]

theorem exLocal_fits : LocalFits (ones111 : T3 ℂ) ones111 exW 2 1 1 := ⟨rfl, rfl, rfl, rfl, rfl, rfl, rfl, rfl⟩

theorem exLocal_herm : LocalHermitian (ones111 : T3 ℂ) ones111 exW 2 1 1 := by
  intro A B TA TB a0 a1 a2 b0 b1 b2 hTA hTB
  obtain ⟨T1, h1, s0, s1, s2, f1⟩ := applyLocal_ker exLocal_fits (A := A) a0 a1 a2
  obtain ⟨T2, h2, r0, r1, r2, f2⟩ := applyLocal_ker exLocal_fits (A := B) b0 b1 b2
  have e1 : T1 = TA := Except.ok.inj (h1.symm.trans hTA)
  have e2 : T2 = TB := Except.ok.inj (h2.symm.trans hTB)
  subst e1 e2
  unfold inner3
  rw [s0, s1, s2, r0, r1, r2]
  simp only [Finset.sum_range_succ, Finset.sum_range_zero, zero_add]
  rw [f1 0 0 0 (by omega) (by omega) (by omega), f1 1 0 0 (by omega) (by omega) (by omega),
    f2 0 0 0 (by omega) (by omega) (by omega), f2 1 0 0 (by omega) (by omega) (by omega)]
  simp only [Finset.sum_range_succ, Finset.sum_range_zero, zero_add, localKer, exW, ones111]
  simp only [map_add, map_mul, Complex.conj_conj]
  simp
  ring

/-- the `1 × 1` bond matrix `[[1]]` -/
noncomputable def exC : Mat ℂ := ⟨1, 1, fun _ _ => 1⟩

theorem exBond_fits : BondFits (ones111 : T3 ℂ) ones111 1 1 := ⟨rfl, rfl, rfl, rfl, rfl⟩

theorem exBond_herm : BondHermitian (ones111 : T3 ℂ) ones111 1 1 := by
  intro C C' T T' c0 c1 c0' c1' hT hT'
  obtain ⟨T1, h1, s0, s1, f1⟩ := applyBond_ker exBond_fits (C := C) c0 c1
  obtain ⟨T2, h2, r0, r1, f2⟩ := applyBond_ker exBond_fits (C := C') c0' c1'
  have e1 : T1 = T := Except.ok.inj (h1.symm.trans hT)
  have e2 : T2 = T' := Except.ok.inj (h2.symm.trans hT')
  subst e1 e2
  unfold inner2
  rw [s0, s1, r0, r1]
  simp only [Finset.sum_range_succ, Finset.sum_range_zero, zero_add]
  rw [f1 0 0 (by omega) (by omega), f2 0 0 (by omega) (by omega)]
  simp only [Finset.sum_range_succ, Finset.sum_range_zero, zero_add, bondKer, ones111]
  simp only [map_mul, Complex.conj_conj]
  simp
  ring

theorem exC_pos : 0 < exK.cnorm (flat2 exC) := by
  show 0 < sqrtNorm (flat2 exC)
  refine (sqrtNorm_contract.pos_iff _).2 ⟨1, ?_, one_ne_zero⟩
  simp [flat2, exC, List.range_succ]

end Ptn.Evo

import PtnModel.Proofs.ChainMpoAll
import PtnModel.Proofs.DenseDefs
/-!
# From the nested-list tensors of `from_opgraph` to an `MPO` value

`toT4 A`            : the nested list `A[s][t][i][j]` read as an index function with the dimensions NumPy reports
                      (`len(A)`, `len(A[0])`, `len(A[0][0])`, `len(A[0][0][0])`);
`MpoOut.toMPO qd o` : the `MPO` value `(qd, qD, A)` the driver / `MPO.from_opgraph` hands back;
`tn_elemRow`        : the right-to-left bond contraction `tn` of `Proofs/ChainMpoDense.lean` and the left-to-right row
                      propagation `MPO.elemRow` of the MPO model agree on every chain of tensors with matching bonds;
`run_chain`         : the tensors produced by the layer walk form such a chain, with the layer sizes as bond dimensions;
`run_last`          : for a consistent graph whose only sink is the end node the last layer is `[end node]`;
`fromOpgraph_elem`  : hence `MPO.Shaped`, the number of tensors is `graph.length`, and `MPO.elem` is the path sum.
-/
set_option linter.unusedSectionVars false

namespace Ptn.Ch
open Ptn Ptn.Og List

variable {κ : Type} [CommRing κ] [DecidableEq κ]

/-- the nested list `A[s][t][i][j]` as an index function with explicit dimensions -/
def toT4 (A : Tensor κ) : T4 κ :=
  ⟨A.length, (A.getD 0 []).length, ((A.getD 0 []).getD 0 []).length, D1of A, fun s t a b => tEntry A s t a b⟩

/-- the `MPO` object `(qd, qD, A)` corresponding to the output of `from_opgraph` -/
def _root_.Ptn.Og.MpoOut.toMPO (qd : List Int) (out : MpoOut κ) : MPO κ := ⟨qd, out.qD, out.tensors.map toT4⟩

theorem sumRange_eq_list (k : Nat) (g : Nat → κ) : sumRange k g = ((List.range k).map g).sum := by
  unfold sumRange
  induction k with
  | zero => simp
  | succ k ih => rw [range_succ, foldl_append, ih, map_append, sum_append]; simp

/-- **`tn` versus `elemRow`.**  For a chain of tensors with matching bond dimensions, any row vector `v` on the left
bond and any weights `fin` on the right bond: `Σ_i v_i · tn(i) = Σ_b elemRow(v)_b · fin_b`. -/
theorem tn_elemRow (d : Nat) (fin : Nat → κ) : ∀ (Ts : List (Tensor κ)) (Dl Dr : Nat),
    MPO.Chain d Dl (Ts.map toT4) Dr → ∀ (ss ts : List Nat), ss.length = Ts.length → ts.length = Ts.length →
    ∀ v : Nat → κ,
      ((List.range Dl).map fun i => v i * tn fin Ts ss ts i).sum
        = ((List.range Dr).map fun b => MPO.elemRow (Ts.map toT4) ss ts v b * fin b).sum := by
  intro Ts
  induction Ts with
  | nil =>
    intro Dl Dr hch ss ts _ _ v
    simp only [MPO.Chain, map_nil] at hch
    subst hch
    cases ss <;> cases ts <;> simp [tn, MPO.elemRow]
  | cons A Ts ih =>
    intro Dl Dr hch ss ts hs ht v
    cases ss with
    | nil => simp at hs
    | cons s ss =>
      cases ts with
      | nil => simp at ht
      | cons t ts =>
        simp only [map_cons, MPO.Chain] at hch
        obtain ⟨_, _, h2, hch'⟩ := hch
        simp only [map_cons, MPO.elemRow, tn]
        rw [← ih (toT4 A).d3 Dr hch' ss ts (by simpa using hs) (by simpa using ht)]
        have hd3 : (toT4 A).d3 = D1of A := rfl
        have hf : ∀ a b, (toT4 A).f s t a b = tEntry A s t a b := fun _ _ => rfl
        rw [hd3, h2]
        simp only [sumRange_eq_list, hf]
        -- exchange the sums
        have h1 : ∀ i, v i * ((List.range (D1of A)).map fun j => tEntry A s t i j * tn fin Ts ss ts j).sum
            = ((List.range (D1of A)).map fun j => v i * tEntry A s t i j * tn fin Ts ss ts j).sum := by
          intro i
          rw [← sum_map_const_mul]
          apply sum_map_congr
          intro j _
          ring
        rw [sum_map_congr _ _ _ (fun i _ => h1 i), sum_sum_comm]
        apply sum_map_congr
        intro j _
        rw [← sum_map_mul_const]


/-! ## shapes along the layer walk -/

theorem toT4_assemble (d D0 D1 : Nat) (contribs : List (Nat × Nat × Og.Mat κ)) (hd : 0 < d) (h0 : 0 < D0) :
    (toT4 (assembleTensor d D0 D1 contribs)).d0 = d ∧ (toT4 (assembleTensor d D0 D1 contribs)).d1 = d ∧
    (toT4 (assembleTensor d D0 D1 contribs)).d2 = D0 ∧ (toT4 (assembleTensor d D0 D1 contribs)).d3 = D1 := by
  refine ⟨?_, ?_, ?_, assemble_D1 d D0 D1 contribs hd h0⟩
  · simp [toT4, assembleTensor]
  · simp only [toT4, assembleTensor]
    rw [getD_map_range d _ 0 _ hd]
    simp
  · simp only [toT4, assembleTensor]
    rw [getD_map_range d _ 0 _ hd, getD_map_range d _ 0 _ hd]
    simp

theorem layerQ_length (g : Graph κ) (S : List Int) : (layerQ g S).length = S.length := by simp [layerQ]

theorem sortInts_ne_nil {l : List Int} (h : l ≠ []) : sortInts l ≠ [] := by
  intro h0
  have := (sortInts_perm l).length_eq
  rw [h0] at this
  exact h (length_eq_zero_iff.1 this.symm)

/-- the tensors of the layer walk form a chain whose bond dimensions are the layer sizes -/
theorem run_chain (g : Graph κ) (opmap : OpMap κ) (d : Nat) (hd : 0 < d) :
    ∀ (Ls : List (List Int)) (Ts : List (Tensor κ)) (nids0 : List Int), Run g opmap d nids0 Ls Ts → nids0 ≠ [] →
      MPO.Chain d nids0.length (Ts.map toT4) (lastLayer nids0 Ls).length ∧
      MPO.DimsMatch d (Ts.map toT4) ((nids0 :: Ls).map (layerQ g)) ∧
      ∀ A ∈ Ts.map toT4, 0 < A.d2 := by
  intro Ls
  induction Ls with
  | nil =>
    intro Ts nids0 h _
    cases Ts with
    | cons _ _ => simp [Run] at h
    | nil => exact ⟨rfl, trivial, by simp⟩
  | cons S Ls ih =>
    intro Ts nids0 h hne
    cases Ts with
    | nil => simp [Run] at h
    | cons A Ts =>
      obtain ⟨nids1, contribs, _, hne1, hS, _, _, hA, hrun⟩ := h
      have hSne : S ≠ [] := by rw [hS]; exact sortInts_ne_nil hne1
      obtain ⟨ih1, ih2, ih3⟩ := ih Ts S hrun hSne
      obtain ⟨a0, a1, a2, a3⟩ := toT4_assemble d nids0.length S.length contribs hd (length_pos_iff.2 hne)
      rw [← hA] at a0 a1 a2 a3
      refine ⟨?_, ?_, ?_⟩
      · simp only [map_cons, MPO.Chain, lastLayer]
        exact ⟨a0, a1, a2, by rw [a3]; exact ih1⟩
      · simp only [map_cons, MPO.DimsMatch, layerQ_length]
        exact ⟨a0, a1, a2, a3, ih2⟩
      · intro T hT
        rw [map_cons] at hT
        rcases mem_cons.1 hT with rfl | hT
        · rw [a2]; exact length_pos_iff.2 hne
        · exact ih3 T hT

theorem lastLayer_mem (nids0 : List Int) (Ls : List (List Int)) : lastLayer nids0 Ls ∈ nids0 :: Ls := by
  induction Ls generalizing nids0 with
  | nil => simp [lastLayer]
  | cons S Ls ih => simp only [lastLayer]; exact mem_cons_of_mem _ (ih S)

theorem lastLayer_getLast (nids0 : List Int) (Ls : List (List Int)) :
    (nids0 :: Ls)[Ls.length]? = some (lastLayer nids0 Ls) := by
  induction Ls generalizing nids0 with
  | nil => rfl
  | cons S Ls ih => simpa [lastLayer] using ih S

/-- every visited layer is non-empty and consists of nodes of the graph -/
theorem run_layers_ok (g : Graph κ) (opmap : OpMap κ) (d : Nat) :
    ∀ (Ls : List (List Int)) (Ts : List (Tensor κ)) (nids0 : List Int), Run g opmap d nids0 Ls Ts →
      ∀ S ∈ Ls, S ≠ [] ∧ ∀ nid ∈ S, ∃ n, dGet? g.nodes nid = some n := by
  intro Ls
  induction Ls with
  | nil => intro _ _ _ S hS; simp at hS
  | cons S0 Ls ih =>
    intro Ts nids0 hrun S hS
    cases Ts with
    | nil => simp [Run] at hrun
    | cons A Ts =>
      obtain ⟨nids1, contribs, _, hne1, hS0, hnodes, _, _, hrun'⟩ := hrun
      rcases mem_cons.1 hS with rfl | hS
      · exact ⟨by rw [hS0]; exact sortInts_ne_nil hne1, hnodes⟩
      · exact ih Ts S0 hrun' S hS

/-! ## proper graphs: a level function and a single sink -/

/-- the end node is the only node without outgoing edges -/
def SingleSink (g : Graph κ) : Prop := ∀ p ∈ g.nodes, p.2.eidsOut = [] → p.1 = g.term true

instance (g : Graph κ) : Decidable (SingleSink g) := by unfold SingleSink; infer_instance

/-- a consistent graph whose only sink is the end node: the last layer visited by `from_opgraph` is `[end node]` -/
theorem run_last (g : Graph κ) (opmap : OpMap κ) (d : Nat) (hc : g.isConsistent = true) (hs : SingleSink g)
    (Ls : List (List Int)) (Ts : List (Tensor κ)) (hrun : Run g opmap d [g.term false] Ls Ts) :
    lastLayer [g.term false] Ls = [g.term true] := by
  obtain ⟨hn, _, ft⟩ := isConsistent_facts g hc
  obtain ⟨t0, ht0, _⟩ := ft false
  have hsorted := run_nodup g opmap d Ls Ts _ hrun
  have hok := run_layers_ok g opmap d Ls Ts _ hrun
  obtain ⟨_, hnosucc⟩ := run_succ g opmap d Ls Ts _ hrun
  have hmem := lastLayer_mem [g.term false] Ls
  generalize lastLayer [g.term false] Ls = last at hmem hnosucc
  have hprops : last ≠ [] ∧ (∀ nid ∈ last, ∃ n, dGet? g.nodes nid = some n) ∧ last.Pairwise (· < ·) := by
    rcases mem_cons.1 hmem with rfl | hm
    · exact ⟨by simp, by intro nid h; simp only [mem_singleton] at h; subst h; exact ⟨t0, ht0⟩, by simp⟩
    · exact ⟨(hok last hm).1, (hok last hm).2, hsorted last hm⟩
  obtain ⟨hne, hnodes, hpw⟩ := hprops
  have hall : ∀ nid ∈ last, nid = g.term true := by
    intro nid hnid
    obtain ⟨node, hnode⟩ := hnodes nid hnid
    apply hs (nid, node) (mem_of_dGet? hnode)
    cases hout : node.eidsOut with
    | nil => rfl
    | cons eid rest =>
      exfalso
      obtain ⟨_, hall⟩ := hn nid node (mem_of_dGet? hnode)
      obtain ⟨e, he, _⟩ := hall true eid (by simp [Node.eids, hout])
      exact hnosucc e.nids.2 ⟨nid, hnid, node, hnode, eid, by simp [hout], e, he, rfl⟩
  cases last with
  | nil => exact absurd rfl hne
  | cons a rest =>
    cases rest with
    | nil => rw [hall a (by simp)]
    | cons b rest =>
      exfalso
      have h1 := hall a (by simp)
      have h2 := hall b (by simp)
      have := (pairwise_cons.1 hpw).1 b (by simp)
      omega

/-- `node_depth` along outgoing edges ends at a node without outgoing edges whose level is the returned depth -/
theorem depthLoop_level (g : Graph κ) (L : List (Int × Nat))
    (hL : ∀ p ∈ L, ∀ node, dGet? g.nodes p.1 = some node → ∀ eid ∈ node.eidsOut, ∀ e, dGet? g.edges eid = some e →
        (e.nids.2, p.2 + 1) ∈ L) :
    ∀ (fuel : Nat) (node : Node) (depth : Nat) (nid : Int) (r : Nat), dGet? g.nodes nid = some node → (nid, depth) ∈ L →
      g.nodeDepthLoop true fuel node depth = .ok r →
      ∃ x nx, dGet? g.nodes x = some nx ∧ nx.eidsOut = [] ∧ (x, r) ∈ L := by
  intro fuel
  induction fuel with
  | zero => intro node depth nid r _ _ h; simp [Graph.nodeDepthLoop] at h
  | succ fuel ih =>
    intro node depth nid r hnode hmem h
    rw [Graph.nodeDepthLoop] at h
    cases hout : node.eidsOut with
    | nil =>
      simp only [Node.eids, if_true, hout] at h
      cases h
      exact ⟨nid, node, hnode, hout, hmem⟩
    | cons eid rest =>
      simp only [Node.eids, if_true, hout, bind_ok_iff, Graph.getEdge, Graph.getNode, dGet_ok_iff] at h
      obtain ⟨e, he, node', hnode', h⟩ := h
      have hnext := hL (nid, depth) hmem node hnode eid (by simp [hout]) e he
      simp only [Edge.nid, if_true] at hnode'
      exact ih node' (depth + 1) e.nids.2 r hnode' hnext h

theorem finOf_single (g : Graph κ) (b : Nat) : finOf g [g.term true] b = if b = 0 then 1 else 0 := by
  unfold finOf
  cases b with
  | zero => simp
  | succ b => simp

/-- **`from_opgraph` as an `MPO` value.**  For a consistent graph of length `n ≥ 1` whose only sink is the end node: the
`MPO` value is shaped (`n` tensors, boundary bonds 1, charge lists as long as the bonds), and its matrix element at
in-range digit lists is the path sum of the graph in the matrix algebra. -/
theorem fromOpgraph_elem (qd : List Int) (g : Graph κ) (opmap : OpMap κ) (on : Bool) (out : MpoOut κ)
    (h : fromOpgraph qd g opmap on = .ok out) (hc : g.isConsistent = true) (hs : SingleSink g)
    (n : Nat) (hlen : g.length = .ok n) (hn : 1 ≤ n) :
    MPO.Shaped (out.toMPO qd) qd.length ∧ (out.toMPO qd).A.length = n ∧ (∀ A ∈ (out.toMPO qd).A, 0 < A.d2) ∧
    (OpMapWF opmap qd.length → ∀ ss ts : List Nat, Digits qd.length n ss → Digits qd.length n ts →
      (out.toMPO qd).elem ss ts = denseFrom g opmap ss ts (g.term false)) := by
  obtain ⟨hd, t0, Ls, Ts, ht0, hrun, hT, hq, _⟩ := fromOpgraph_spec qd g opmap on out h
  have hlast := run_last g opmap qd.length hc hs Ls Ts hrun
  have hTL := run_length g opmap qd.length Ls Ts _ hrun
  obtain ⟨hch, hdm, hpos⟩ := run_chain g opmap qd.length hd Ls Ts _ hrun (by simp)
  rw [hlast] at hch
  -- the number of tensors is the level of the end node
  have hTn : Ts.length = n := by
    obtain ⟨L, hLn, hL0, hLc⟩ := forward_levels g hc
    have huniq : ∀ x a b, (x, a) ∈ L → (x, b) ∈ L → a = b := by
      intro x a b ha hb
      have h1 := dGet?_of_mem (d := L) (by simpa [dKeys] using hLn) ha
      have h2 := dGet?_of_mem (d := L) (by simpa [dKeys] using hLn) hb
      rw [h1] at h2
      exact Option.some.inj h2
    -- the end node has level `n`
    have hend : (g.term true, n) ∈ L := by
      unfold Graph.length Graph.nodeDepth at hlen
      simp only [bind_ok_iff, Graph.getNode, dGet_ok_iff] at hlen
      obtain ⟨node, hnode, hloop⟩ := hlen
      obtain ⟨x, nx, hx, hout, hxL⟩ := depthLoop_level g L hLc _ node 0 _ n hnode hL0 hloop
      rw [← hs (x, nx) (mem_of_dGet? hx) hout]
      exact hxL
    have hlev := run_levels g opmap qd.length L hLc Ls Ts [g.term false] 0 hrun (by simpa using hL0)
    have hgl := lastLayer_getLast [g.term false] Ls
    rw [hlast] at hgl
    rw [hTL]
    cases hLs : Ls.length with
    | zero =>
      rw [hLs] at hgl
      simp only [getElem?_cons_zero, Option.some.injEq] at hgl
      have h1 : g.term false = g.term true := by simpa using hgl
      rw [← h1] at hend
      have := huniq _ _ _ hend hL0
      omega
    | succ k =>
      rw [hLs] at hgl
      simp only [getElem?_cons_succ] at hgl
      have := hlev k _ hgl (g.term true) (by simp)
      have := huniq _ _ _ this hend
      omega
  have hA : (out.toMPO qd).A = Ts.map toT4 := by simp [MpoOut.toMPO, hT]
  have hqD : (out.toMPO qd).qD = ([g.term false] :: Ls).map (layerQ g) := by
    simp [MpoOut.toMPO, hq, layerQ, ht0]
  refine ⟨⟨rfl, ?_, ?_, ?_⟩, by rw [hA, length_map, hTn], by rw [hA]; exact hpos, ?_⟩
  · rw [hA]
    intro h0
    have : Ts.length = 0 := by simpa using congrArg List.length h0
    omega
  · rw [hA]; simpa using hch
  · rw [hA, hqD]; exact hdm
  · intro hw ss ts hss hts
    have hd1 := run_dense g opmap qd.length hd hw Ls Ts [g.term false] hrun (by simp) ss ts
      (by rw [hss.1, hTn]) (by rw [hts.1, hTn]) hss.2 hts.2 0 (by simp)
    rw [hlast] at hd1
    simp only [List.getD_cons_zero] at hd1
    rw [← hd1]
    have hte := tn_elemRow qd.length (finOf g [g.term true]) Ts 1 1 (by simpa using hch) ss ts
      (by rw [hss.1, hTn]) (by rw [hts.1, hTn]) (fun a => if a = 0 then 1 else 0)
    simp only [range_one, map_cons, map_nil, sum_cons, sum_nil, add_zero, if_true, one_mul, finOf_single, mul_one] at hte
    unfold MPO.elem
    rw [hA, hte]

end Ptn.Ch

import PtnModel.Proofs.OrthoMpoFinal
import Mathlib.Tactic.IntervalCases
import Mathlib.Analysis.Complex.Basic
/-!
# A concrete admissible MPS over `ℝ` (non-vacuity of the hypotheses of C01)

`exψ = |01⟩ + |10⟩` as a two-site MPS with physical charges `[0, 1]`, bond charges `[0], [0, 1], [1]`
(bond dimension 2, two charge sectors on the middle bond, norm `√2`).

`exψC = |01⟩ + i|10⟩` over `ℂ`.

`exO = Z ⊗ 1 + 1 ⊗ Z` as a two-site MPO with bond dimension 2 (a repeated bond charge), Frobenius norm `√8`.
-/
namespace Ptn.Ortho
open Ptn.Env Ptn.BondOps Finset

noncomputable def exψ : MPS ℝ := ⟨[0, 1], [[0], [0, 1], [1]],
  [⟨2, 1, 2, fun s _ b => if s = b then 1 else 0⟩, ⟨2, 2, 1, fun s a _ => if s + a = 1 then 1 else 0⟩]⟩

theorem exψ_adm : Admissible exψ := by
  refine ⟨(wellFormed_iff_idx exψ).2 ⟨rfl, ?_⟩, by decide, by simp [exψ], by simp [exψ], rfl, rfl⟩
  intro i hi
  have hi' : i < 2 := hi
  interval_cases i
  · refine ⟨rfl, rfl, rfl, ?_⟩
    intro s a b hs ha hb
    have hs' : s < 2 := hs
    have ha' : a < 1 := ha
    have hb' : b < 2 := hb
    interval_cases s <;> interval_cases a <;> interval_cases b <;> simp [exψ]
  · refine ⟨rfl, rfl, rfl, ?_⟩
    intro s a b hs ha hb
    have hs' : s < 2 := hs
    have ha' : a < 2 := ha
    have hb' : b < 1 := hb
    interval_cases s <;> interval_cases a <;> interval_cases b <;> simp [exψ]

theorem exψ_normsq : ∑ s ∈ digitsU exψ.qd.length exψ.A.length, ‖exψ.amp s‖ ^ 2 = 2 := by
  show ∑ s ∈ digits [2, 2], ‖exψ.amp s‖ ^ 2 = 2
  simp [sum_digits_cons, Finset.sum_range_succ, MPS.amp, MPS.ampRow, Env.sumRange_eq, exψ]
  norm_num

/-- `Z ⊗ 1 + 1 ⊗ Z` as a two-site MPO with bond dimension 2 (physical charges `[0, 1]`, bond charges all zero) -/
noncomputable def exO : MPO ℝ := ⟨[0, 1], [[0], [0, 0], [0]],
  [⟨2, 2, 1, 2, fun s t _ b => if s = t then (if b = 0 then (if s = 0 then 1 else -1) else 1) else 0⟩,
   ⟨2, 2, 2, 1, fun s t a _ => if s = t then (if a = 0 then 1 else (if s = 0 then 1 else -1)) else 0⟩]⟩

theorem exO_adm : MpoAdmissible exO := by
  refine ⟨(mpo_wellFormed_iff_idx exO).2 ⟨rfl, ?_⟩, by decide, by simp [exO], by simp [exO], rfl, rfl⟩
  intro i hi
  have hi' : i < 2 := hi
  interval_cases i
  · refine ⟨rfl, rfl, rfl, rfl, ?_⟩
    intro s t a b hs ht ha hb
    have hs' : s < 2 := hs
    have ht' : t < 2 := ht
    have ha' : a < 1 := ha
    have hb' : b < 2 := hb
    interval_cases s <;> interval_cases t <;> interval_cases a <;> interval_cases b <;> simp [exO]
  · refine ⟨rfl, rfl, rfl, rfl, ?_⟩
    intro s t a b hs ht ha hb
    have hs' : s < 2 := hs
    have ht' : t < 2 := ht
    have ha' : a < 2 := ha
    have hb' : b < 1 := hb
    interval_cases s <;> interval_cases t <;> interval_cases a <;> interval_cases b <;> simp [exO]

theorem exO_normsq : ∑ s ∈ digitsU exO.qd.length exO.A.length, ∑ t ∈ digitsU exO.qd.length exO.A.length,
    ‖exO.elem s t‖ ^ 2 = 8 := by
  show ∑ s ∈ digits [2, 2], ∑ t ∈ digits [2, 2], ‖exO.elem s t‖ ^ 2 = 8
  simp [sum_digits_cons, Finset.sum_range_succ, MPO.elem, MPO.elemRow, Env.sumRange_eq, exO]
  norm_num
/-- `|01⟩ + i|10⟩` over `ℂ`, same charges as `exψ` -/
noncomputable def exψC : MPS ℂ := ⟨[0, 1], [[0], [0, 1], [1]],
  [⟨2, 1, 2, fun s _ b => if s = b then 1 else 0⟩,
   ⟨2, 2, 1, fun s a _ => if s + a = 1 then (if s = 0 then 1 else Complex.I) else 0⟩]⟩

theorem exψC_adm : Admissible exψC := by
  refine ⟨(wellFormed_iff_idx exψC).2 ⟨rfl, ?_⟩, by decide, by simp [exψC], by simp [exψC], rfl, rfl⟩
  intro i hi
  have hi' : i < 2 := hi
  interval_cases i
  · refine ⟨rfl, rfl, rfl, ?_⟩
    intro s a b hs ha hb
    have hs' : s < 2 := hs
    have ha' : a < 1 := ha
    have hb' : b < 2 := hb
    interval_cases s <;> interval_cases a <;> interval_cases b <;> simp [exψC]
  · refine ⟨rfl, rfl, rfl, ?_⟩
    intro s a b hs ha hb
    have hs' : s < 2 := hs
    have ha' : a < 2 := ha
    have hb' : b < 1 := hb
    interval_cases s <;> interval_cases a <;> interval_cases b <;> simp [exψC]

theorem exψC_normsq : ∑ s ∈ digitsU exψC.qd.length exψC.A.length, ‖exψC.amp s‖ ^ 2 = 2 := by
  show ∑ s ∈ digits [2, 2], ‖exψC.amp s‖ ^ 2 = 2
  simp [sum_digits_cons, Finset.sum_range_succ, MPS.amp, MPS.ampRow, Env.sumRange_eq, exψC]
  norm_num
end Ptn.Ortho

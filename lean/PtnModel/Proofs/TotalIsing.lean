import PtnModel.Proofs.TotalAutQ
import PtnModel.Proofs.TotalOpgraph
import PtnModel.Proofs.HamGraphWords
import PtnModel.Proofs.BridgeHam
/-!
# `ising_mpo` returns for every `L ≥ 1` and all parameters
-/
set_option linter.unusedSectionVars false

namespace Ptn.Ham
open Ptn Ptn.Og Ptn.Ch List

variable {κ : Type} [CommRing κ] [DecidableEq κ]

theorem ising_stepB1 (J h g : κ) (j : Nat) : (isingAut J h g).stepActive false j [1] = .ok [0, 1, 2] := rfl
theorem ising_stepB (J h g : κ) (j : Nat) : (isingAut J h g).stepActive false j [0, 1, 2] = .ok [0, 1, 2] := rfl
theorem ising_stepF0 (J h g : κ) (j : Nat) : (isingAut J h g).stepActive true j [0] = .ok [0, 1, 2] := rfl
theorem ising_stepF (J h g : κ) (j : Nat) : (isingAut J h g).stepActive true j [0, 1, 2] = .ok [0, 1, 2] := rfl

/-- the Ising automaton admits an active path of every length `n ≥ 1` -/
theorem ising_active (J h g : κ) (n : Nat) (hn : 1 ≤ n) : AutActive (isingAut J h g) n := by
  have wf := isingAut_wf J h g
  obtain ⟨back, hb, _⟩ := backwardLayers_total wf.valid (by show (1 : Int) ∈ ([0, 1, 2] : List Int); decide) n
  obtain ⟨fwd, hf, _⟩ := forwardLayers_total wf.valid (by show (0 : Int) ∈ ([0, 1, 2] : List Int); decide) n
  obtain ⟨_, bL, bstep⟩ := backwardLayers_spec hb
  obtain ⟨_, f0, fstep⟩ := forwardLayers_spec hf
  have hB : ∀ k, k < n → back.getD (n - 1 - k) [] = [0, 1, 2] := by
    intro k
    induction k with
    | zero =>
      intro _
      have := bstep (n - 1) (by omega)
      rw [show n - 1 + 1 = n by omega, bL] at this
      have e : (isingAut J h g).term true = 1 := rfl
      rw [e, ising_stepB1] at this
      simpa using this.symm
    | succ k ih =>
      intro hk
      have := bstep (n - 1 - (k + 1)) (by omega)
      rw [show n - 1 - (k + 1) + 1 = n - 1 - k by omega, ih (by omega), ising_stepB] at this
      simpa using this.symm
  have hF : ∀ k, k < n → fwd.getD (k + 1) [] = [0, 1, 2] := by
    intro k
    induction k with
    | zero =>
      intro _
      have := fstep 0 (by omega)
      have e : (isingAut J h g).term false = 0 := rfl
      rw [f0, e, ising_stepF0] at this
      simpa using this.symm
    | succ k ih =>
      intro hk
      have := fstep (k + 1) (by omega)
      rw [ih (by omega), ising_stepF] at this
      simpa using this.symm
  unfold AutActive
  rw [hb, hf]
  have hb0 := hB (n - 1) (by omega)
  rw [show n - 1 - (n - 1) = 0 by omega] at hb0
  have hfn := hF (n - 1) (by omega)
  rw [show n - 1 + 1 = n by omega] at hfn
  simp only [hb0, hfn]
  exact ⟨by show (0 : Int) ∈ ([0, 1, 2] : List Int); decide, by show (1 : Int) ∈ ([0, 1, 2] : List Int); decide⟩

end Ptn.Ham

namespace Ptn.Ham
open Ptn Ptn.Og Ptn.Ch List

variable {κ : Type} [CommRing κ] [DecidableEq κ]

theorem normOpics_single (o : Int) (c : κ) : normOpics [(o, c)] = [(o, c)] := by
  simp [normOpics, mergeOpic, sortOpics, insertOpic]

/-- the graph unrolled from the Ising automaton is charge consistent under `qd = [0, 0]` (all charges vanish) -/
theorem ising_opsCharged (J h g : κ) {L : Int} {gr : Graph κ} (hgr : fromAutomaton (isingAut J h g) L = .ok gr) :
    OpsCharged isingQd gr isingOpmap := by
  have wf := isingAut_wf J h g
  have hq : ∀ x, qOf gr x = 0 := by
    intro x
    unfold qOf
    cases hx : dGet? gr.nodes x with
    | none => rfl
    | some n =>
      have := fromAutomaton_qnums (fun q => q = 0) hgr rfl (by
        intro p hp
        simp only [isingAut, mem_cons, not_mem_nil, or_false] at hp
        rcases hp with rfl | rfl | rfl <;> rfl) (x, n) (mem_of_dGet?_eq_some hx)
      simpa using this
  intro p hp oc hoc
  rw [hq, hq]
  obtain ⟨k, ae, hk, j, hop⟩ := fromAutomaton_opics wf.valid hgr p hp
  have hmem := mem_of_dGet?_eq_some hk
  have hid : oc.1 = 0 ∨ oc.1 = 1 ∨ oc.1 = 2 := by
    rw [hop] at hoc
    simp only [isingAut, mem_cons, Prod.mk.injEq, not_mem_nil, or_false] at hmem
    rcases hmem with ⟨_, rfl⟩ | ⟨_, rfl⟩ | ⟨_, rfl⟩ | ⟨_, rfl⟩ | ⟨_, rfl⟩ | ⟨_, rfl⟩ <;>
      (simp only [constEdge, normOpics_single, mem_singleton] at hoc; subst hoc; simp)
  have hshape : ∀ m, (isingOpmap : OpMap κ).lookup oc.1 = some m → TableCharged isingQd (0 - 0) (some m) := by
    intro m hm
    refine ⟨isingOpmap_wf _ (mem_of_lookup hm), ?_⟩
    intro s hs t ht _
    have hs' : s < 2 := hs
    have ht' : t < 2 := ht
    have e1 : isingQd.getD s 0 = 0 := by
      rcases s with _ | _ | s
      · rfl
      · rfl
      · omega
    have e2 : isingQd.getD t 0 = 0 := by
      rcases t with _ | _ | t
      · rfl
      · rfl
      · omega
    rw [e1, e2]; rfl
  rcases hid with h0 | h0 | h0 <;> rw [h0] at hshape ⊢
  · exact hshape _ rfl
  · exact hshape _ rfl
  · exact hshape _ rfl

/-- **`ising_mpo(L, J, h, g)` returns for every `L ≥ 1` and all parameters** -/
theorem isingBuild_total (L : Int) (hL : 1 ≤ L) (J h g : κ) : ∃ b, isingBuild L J h g = .ok b := by
  have wf := isingAut_wf J h g
  obtain ⟨gr, hgr⟩ := (fromAutomaton_returns_iff wf.valid (by show (0 : Int) ∈ ([0, 1, 2] : List Int); decide)
    (by show (1 : Int) ∈ ([0, 1, 2] : List Int); decide) L).2 ⟨hL, ising_active J h g L.toNat (by omega)⟩
  obtain ⟨out, hout⟩ := fromOpgraph_total isingQd gr isingOpmap false (fromAutomaton_isConsistent hgr)
    (by show 1 ≤ ([0, 0] : List Int).length; decide) (ising_opsCharged J h g hgr)
  refine ⟨⟨isingQd, isingOpmap, gr, out⟩, ?_⟩
  unfold isingBuild
  rw [isingAutomaton_eq]
  simp only [bind, Except.bind, hgr, hout, pure, Except.pure]

end Ptn.Ham

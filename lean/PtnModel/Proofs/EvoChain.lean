import PtnModel.Proofs.EvoWf
import PtnModel.Props.C04
/-!
# Chain-level lemmas for the sweep invariants

* `rightIso_chain`   : a chain of right isometries is a right isometry;
* `mixed_inner_chain`: in mixed-canonical form the inner product of two states that differ only in the centre tensor is
                       the inner product of the centre tensors;
* `pmat_pair_chain`  : replacing a neighbouring pair of tensors by a pair with the same two-site product does not change
                       the amplitudes (gauge moves of the sweeps);
* `QRFacts`, `qr_facts` : dimensions, product and isometry clause of a successful block-QR call;
* `bond3_take`, `isLeftBlock_congr`, `isRightBlock_congr` : environment blocks only depend on the tensors they contract.
-/
set_option linter.unusedSectionVars false

namespace Ptn.Evo
open Ptn Ptn.BondOps Ptn.Ortho Ptn.Env Finset

section ring
variable {𝕜 : Type} [CommRing 𝕜] [StarRing 𝕜] [DecidableEq 𝕜]

/-! ## right isometries -/

theorem alg_rightIso {ι : Type} (S : Finset ι) (Ss Sc Sx Sx' : Finset Nat) (A A' : Nat → Nat → 𝕜) (P : ι → Nat → Nat → 𝕜) :
    ∑ s ∈ Ss, ∑ σ ∈ S, ∑ c ∈ Sc, star (∑ x ∈ Sx, A s x * P σ x c) * ∑ x' ∈ Sx', A' s x' * P σ x' c =
    ∑ x ∈ Sx, ∑ x' ∈ Sx', (∑ s ∈ Ss, star (A s x) * A' s x') * ∑ σ ∈ S, ∑ c ∈ Sc, star (P σ x c) * P σ x' c := by
  simp only [star_sum, Finset.sum_mul, Finset.mul_sum, star_mul']
  sum_pull Sx
  sum_pull Sx'
  sum_pull Ss
  sum_pull S
  sum_pull Sc
  ring

/-- a chain of right isometries is a right isometry: `Σ_σ Σ_c conj(P_σ[a,c]) P_σ[a',c] = δ_{a a'}` -/
theorem rightIso_chain {ds : List Nat} {As : List (T3 𝕜)} {Dl Dr : Nat} (h : Chain3 ds As Dl Dr)
    (hiso : ∀ B ∈ As, RightIso B) {a a' : Nat} (ha : a < Dl) (ha' : a' < Dl) :
    ∑ σ ∈ digits ds, ∑ c ∈ range Dr, star (pmat As σ a c) * pmat As σ a' c = if a = a' then 1 else 0 := by
  induction ds generalizing As Dl a a' with
  | nil =>
    cases As with
    | cons _ _ => simp at h
    | nil =>
      simp only [chain3_nil] at h
      subst h
      simp only [digits_nil, Finset.sum_singleton, pmat_nil]
      have e : ∀ c ∈ range Dl, star (if a = c then (1 : 𝕜) else 0) * (if a' = c then 1 else 0) =
          if a = c then (if a = a' then 1 else 0) else 0 := by
        intro c _
        by_cases h1 : a = c
        · subst h1
          by_cases h2 : a = a'
          · subst h2; simp
          · have : ¬ a' = a := fun e => h2 e.symm
            simp [h2, this]
        · simp [h1]
      rw [Finset.sum_congr rfl e, Finset.sum_ite_eq (range Dl) a, if_pos (Finset.mem_range.2 ha)]
  | cons d ds ih =>
    cases As with
    | nil => simp at h
    | cons A As =>
      simp only [chain3_cons] at h
      obtain ⟨h0, h1, hc⟩ := h
      have hA := hiso A (by simp)
      rw [sum_digits_cons]
      simp only [pmat_cons]
      rw [← h0, alg_rightIso (digits ds) (range A.d0) (range Dr) (range A.d2) (range A.d2) (fun s x => A.f s a x)
        (fun s x => A.f s a' x) (fun σ x c => pmat As σ x c)]
      have e : ∀ x ∈ range A.d2, ∀ x' ∈ range A.d2,
          (∑ s ∈ range A.d0, star (A.f s a x) * A.f s a' x') *
            ∑ σ ∈ digits ds, ∑ c ∈ range Dr, star (pmat As σ x c) * pmat As σ x' c =
          if x = x' then ∑ s ∈ range A.d0, star (A.f s a x) * A.f s a' x else 0 := by
        intro x hx x' hx'
        rw [ih hc (fun B hB => hiso B (by simp [hB])) (Finset.mem_range.1 hx) (Finset.mem_range.1 hx')]
        by_cases hxx : x = x'
        · subst hxx; rw [if_pos rfl, if_pos rfl, mul_one]
        · rw [if_neg hxx, if_neg hxx, mul_zero]
      rw [Finset.sum_congr rfl fun x hx => Finset.sum_congr rfl fun x' hx' => e x hx x' hx']
      have e2 : ∀ x ∈ range A.d2, (∑ x' ∈ range A.d2,
          if x = x' then ∑ s ∈ range A.d0, star (A.f s a x) * A.f s a' x else 0) =
          ∑ s ∈ range A.d0, star (A.f s a x) * A.f s a' x := by
        intro x hx
        rw [Finset.sum_ite_eq (range A.d2) x, if_pos hx]
      rw [Finset.sum_congr rfl e2, Finset.sum_comm]
      exact hA a a' (by rw [h1]; exact ha) (by rw [h1]; exact ha')

/-! ## mixed-canonical inner product -/

theorem alg_mixed {ι κ : Type} (S1 : Finset ι) (S2 : Finset κ) (Ss Sx Sx' Sy Sy' : Finset Nat)
    (PL : ι → Nat → 𝕜) (PR : κ → Nat → 𝕜) (A B : Nat → Nat → Nat → 𝕜) :
    ∑ σl ∈ S1, ∑ s ∈ Ss, ∑ σr ∈ S2,
      star (∑ x ∈ Sx, PL σl x * ∑ y ∈ Sy, B s x y * PR σr y) * ∑ x' ∈ Sx', PL σl x' * ∑ y' ∈ Sy', A s x' y' * PR σr y' =
    ∑ s ∈ Ss, ∑ x ∈ Sx, ∑ y ∈ Sy, ∑ x' ∈ Sx', ∑ y' ∈ Sy', star (B s x y) * A s x' y' *
      ((∑ σl ∈ S1, star (PL σl x) * PL σl x') * ∑ σr ∈ S2, star (PR σr y) * PR σr y') := by
  simp only [star_sum, Finset.sum_mul, Finset.mul_sum, star_mul']
  sum_pull Ss
  sum_pull Sx
  sum_pull Sy
  sum_pull Sx'
  sum_pull Sy'
  sum_pull S1
  sum_pull S2
  ring

/-- in mixed-canonical form (left isometries `Ls`, right isometries `Rs`) the inner product of the chains with centre
tensors `B`, `A` is the inner product of the centre tensors -/
theorem mixed_inner_chain {dl dr : List Nat} {d : Nat} {Ls Rs : List (T3 𝕜)} {A B : T3 𝕜} {Dl Dr : Nat}
    (hL : Chain3 dl Ls 1 Dl) (hR : Chain3 dr Rs Dr 1) (hLi : ∀ X ∈ Ls, LeftIso X) (hRi : ∀ X ∈ Rs, RightIso X)
    (hA2 : A.d2 = Dr) (hB2 : B.d2 = Dr) :
    ∑ σ ∈ digits (dl ++ d :: dr), star (pmat (Ls ++ B :: Rs) σ 0 0) * pmat (Ls ++ A :: Rs) σ 0 0 =
      ∑ s ∈ range d, ∑ a ∈ range Dl, ∑ b ∈ range Dr, star (B.f s a b) * A.f s a b := by
  rw [sum_digits_append]
  simp only [sum_digits_cons]
  have e1 : ∀ σl ∈ digits dl, ∀ s ∈ range d, ∀ σr ∈ digits dr,
      star (pmat (Ls ++ B :: Rs) (σl ++ s :: σr) 0 0) * pmat (Ls ++ A :: Rs) (σl ++ s :: σr) 0 0 =
      star (∑ x ∈ range Dl, pmat Ls σl 0 x * ∑ y ∈ range Dr, B.f s x y * pmat Rs σr y 0) *
        ∑ x' ∈ range Dl, pmat Ls σl 0 x' * ∑ y' ∈ range Dr, A.f s x' y' * pmat Rs σr y' 0 := by
    intro σl hl s _ σr _
    rw [pmat_append hL _ hl _ Nat.one_pos 0, pmat_append hL _ hl _ Nat.one_pos 0]
    simp only [pmat_cons, hA2, hB2]
  rw [Finset.sum_congr rfl fun σl hl => Finset.sum_congr rfl fun s hs => Finset.sum_congr rfl fun σr hr =>
    e1 σl hl s hs σr hr]
  rw [alg_mixed (digits dl) (digits dr) (range d) (range Dl) (range Dl) (range Dr) (range Dr)
    (fun σl x => pmat Ls σl 0 x) (fun σr y => pmat Rs σr y 0) A.f B.f]
  refine Finset.sum_congr rfl fun s _ => ?_
  have hl : ∀ x ∈ range Dl, ∀ x' ∈ range Dl, ∑ σl ∈ digits dl, star (pmat Ls σl 0 x) * pmat Ls σl 0 x' =
      if x = x' then 1 else 0 := by
    intro x hx x' hx'
    have := leftIso_chain hL hLi (Finset.mem_range.1 hx) (Finset.mem_range.1 hx')
    simpa using this
  have hr : ∀ y ∈ range Dr, ∀ y' ∈ range Dr, ∑ σr ∈ digits dr, star (pmat Rs σr y 0) * pmat Rs σr y' 0 =
      if y = y' then 1 else 0 := by
    intro y hy y' hy'
    have := rightIso_chain hR hRi (Finset.mem_range.1 hy) (Finset.mem_range.1 hy')
    simpa using this
  refine Finset.sum_congr rfl fun x hx => Finset.sum_congr rfl fun y hy => ?_
  have e2 : ∀ x' ∈ range Dl, (∑ y' ∈ range Dr, star (B.f s x y) * A.f s x' y' *
      ((∑ σl ∈ digits dl, star (pmat Ls σl 0 x) * pmat Ls σl 0 x') *
        ∑ σr ∈ digits dr, star (pmat Rs σr y 0) * pmat Rs σr y' 0)) =
      if x = x' then star (B.f s x y) * A.f s x' y else 0 := by
    intro x' hx'
    have e3 : ∀ y' ∈ range Dr, star (B.f s x y) * A.f s x' y' *
        ((∑ σl ∈ digits dl, star (pmat Ls σl 0 x) * pmat Ls σl 0 x') *
          ∑ σr ∈ digits dr, star (pmat Rs σr y 0) * pmat Rs σr y' 0) =
        if y = y' then (if x = x' then star (B.f s x y) * A.f s x' y' else 0) else 0 := by
      intro y' hy'
      rw [hl x hx x' hx', hr y hy y' hy']
      by_cases h1 : y = y' <;> by_cases h2 : x = x' <;> simp [h1, h2]
    rw [Finset.sum_congr rfl e3, Finset.sum_ite_eq (range Dr) y, if_pos hy]
  rw [Finset.sum_congr rfl e2, Finset.sum_ite_eq (range Dl) x, if_pos hx]

/-! ## gauge moves -/

omit [StarRing 𝕜] in
/-- replacing the pair `(X, Y)` behind the prefix `Ls` by `(X', Y')` with the same two-site product keeps all
amplitudes -/
theorem pmat_pair_chain {dl : List Nat} {Ls Rs : List (T3 𝕜)} {X Y X' Y' : T3 𝕜} {Dl : Nat}
    (hL : Chain3 dl Ls 1 Dl) (hd2 : Y'.d2 = Y.d2) {s s' : Nat}
    (h : ∀ a y, a < Dl → y < Y.d2 →
      ∑ x ∈ range X'.d2, X'.f s a x * Y'.f s' x y = ∑ x ∈ range X.d2, X.f s a x * Y.f s' x y)
    {σl : List Nat} (hσl : σl ∈ digits dl) (σr : List Nat) :
    pmat (Ls ++ X' :: Y' :: Rs) (σl ++ s :: s' :: σr) 0 0 = pmat (Ls ++ X :: Y :: Rs) (σl ++ s :: s' :: σr) 0 0 := by
  rw [pmat_append hL _ hσl _ Nat.one_pos 0, pmat_append hL _ hσl _ Nat.one_pos 0]
  refine Finset.sum_congr rfl fun a ha => ?_
  congr 1
  rw [pmat_cons, pmat_cons]
  exact pmat_pair hd2 (fun y hy => h a y (Finset.mem_range.1 ha) hy)

/-! ## environment blocks only see the tensors they contract -/

omit [CommRing 𝕜] [StarRing 𝕜] [DecidableEq 𝕜] in
theorem bond3_take {α : Type} : ∀ (l : List (T3 α)) (Dl k : Nat), k ≤ l.length → bond3 (l.take k) Dl k = bond3 l Dl k
  | _, _, 0, _ => by simp
  | [], _, k + 1, h => by simp at h
  | A :: As, Dl, k + 1, h => by
    simp only [List.take_succ_cons, bond3_succ]
    exact bond3_take As A.d2 k (by simpa using h)

omit [CommRing 𝕜] [StarRing 𝕜] [DecidableEq 𝕜] in
/-- the bond dimension left of site `k` only depends on the first `k` tensors -/
theorem mpsBond_congr_take {α : Type} {ψ ψ' : MPS α} {k : Nat} (h : ψ'.A.take k = ψ.A.take k) (hk : k ≤ ψ.A.length)
    (hk' : k ≤ ψ'.A.length) : mpsBond ψ' k = mpsBond ψ k := by
  unfold mpsBond
  rw [← bond3_take ψ'.A 1 k hk', ← bond3_take ψ.A 1 k hk, h]

theorem isLeftBlock_congr {ψ ψ' : MPS 𝕜} {o : MPO 𝕜} {d k : Nat} {E : T3 𝕜} (h : ψ'.A.take k = ψ.A.take k)
    (hk : k ≤ ψ.A.length) (hk' : k ≤ ψ'.A.length) (hE : IsLeftBlock ψ o d k E) : IsLeftBlock ψ' o d k E := by
  have hb := mpsBond_congr_take h hk hk'
  unfold IsLeftBlock at hE ⊢
  rw [hb]
  refine ⟨hE.1, hE.2.1, hE.2.2.1, ?_⟩
  intro a w a' ha hw ha'
  rw [hE.2.2.2 a w a' ha hw ha']
  unfold ampPrefix
  rw [h]

theorem isRightBlock_congr {ψ ψ' : MPS 𝕜} {o : MPO 𝕜} {d k : Nat} {E : T3 𝕜} (h : ψ'.A.drop k = ψ.A.drop k)
    (hlen : ψ'.A.length = ψ.A.length) (hb : mpsBond ψ' k = mpsBond ψ k) (hE : IsRightBlock ψ o d k E) :
    IsRightBlock ψ' o d k E := by
  unfold IsRightBlock at hE ⊢
  rw [hb, hlen]
  refine ⟨hE.1, hE.2.1, hE.2.2.1, ?_⟩
  intro a w a' ha hw ha'
  rw [hE.2.2.2 a w a' ha hw ha']
  unfold ampSuffix
  rw [h]

end ring

/-! ## block QR -/

section qr
variable {𝕜 : Type} [RCLike 𝕜] [DecidableEq 𝕜]

/-- what a successful `qr` call on a matrix with positive dimensions returns, under the kernel contract of C11 -/
structure QRFacts (M Q R : Mat 𝕜) (qb : List Int) : Prop where
  Qm : Q.m = M.m
  Qn : Q.n = qb.length
  Rm : R.m = qb.length
  Rn : R.n = M.n
  pos : 0 < qb.length
  le : qb.length ≤ min M.m M.n
  prod : ∀ i j, i < M.m → j < M.n → ∑ p ∈ range qb.length, Q.f i p * R.f p j = M.f i j
  iso : ∀ p p', p < qb.length → p' < qb.length →
    ∑ i ∈ range M.m, star (Q.f i p) * Q.f i p' = if p = p' then 1 else 0

theorem qr_facts {dqr : Mat 𝕜 → Mat 𝕜 × Mat 𝕜} (hc : C11.QRContract dqr) {M : Mat 𝕜} {q0 q1 : List Int}
    {Q R : Mat 𝕜} {qb : List Int} (hm : 0 < M.m) (hn : 0 < M.n) (h : qr dqr M q0 q1 = .ok (Q, R, qb)) :
    QRFacts M Q R qb := by
  obtain ⟨H, hres⟩ := qr_run_facts hc.shape hm hn h
  refine ⟨hres.Qm, hres.Qn, hres.Rm, hres.Rn, hres.pos, hres.le, ?_, ?_⟩
  · intro i j hi hj
    have := product' (fun B _ => hc.shape B) (fun B _ => hc.product B) H h hi hj
    rw [Mat.mul_f, hres.Qn] at this
    exact this
  · intro p p' hp hp'
    exact isometry' (fun B _ => hc.shape B) (fun B _ => hc.iso B) H h (by rw [hres.Qn]; exact hp)
      (by rw [hres.Qn]; exact hp')

end qr
end Ptn.Evo

import PtnModel.Proofs.QrSpec
/-!
# Block QR: the result of a run of `qr`

Everything about the triple returned by `BondOps.qr`, for both branches (shared charges / no shared charge):
`qr_ok'`, `QRResult` (dimensions and block sparsity; shape clause only), `product'`, `isometry'`.
-/
set_option linter.unusedSectionVars false

namespace Ptn.BondOps
open Finset

variable {𝕜 : Type} [CommRing 𝕜] [DecidableEq 𝕜]
variable {dqr : Mat 𝕜 → Mat 𝕜 × Mat 𝕜} {A : Mat 𝕜} {q0 q1 : List Int}

/-- the hypotheses of property C11 on the input of `qr` -/
structure QRInput (A : Mat 𝕜) (q0 q1 : List Int) : Prop where
  hq0 : q0.length = A.m
  hq1 : q1.length = A.n
  hm : 0 < A.m
  hn : 0 < A.n
  hsp : Sparse A q0 q1

theorem PermInv.sum_comp {α : Type} [AddCommMonoid α] {σ τ : List Nat} {n : Nat} (h : PermInv σ τ n) (g : Nat → α) :
    ∑ i ∈ range n, g (τ.getD i 0) = ∑ i ∈ range n, g i := by
  refine sum_nbij' (fun i => τ.getD i 0) (fun i => σ.getD i 0) ?_ ?_ ?_ ?_ ?_
  · intro a ha; exact mem_range.2 (h.τ_lt a (mem_range.1 ha))
  · intro a ha; exact mem_range.2 (h.σ_lt a (mem_range.1 ha))
  · intro a ha; exact h.στ a (mem_range.1 ha)
  · intro a ha; exact h.τσ a (mem_range.1 ha)
  · intro a _; rfl

/-! ### no shared charge -/

/-- the dummy isometry `e₀` returned when no charge is shared -/
def e0 (m : Nat) : Mat 𝕜 := ⟨m, 1, fun i _ => if i = 0 then 1 else 0⟩

theorem all_zero_of_disjoint (H : QRInput A q0 q1) (he : intersect1d q0 q1 = []) :
    ∀ i j, i < A.m → j < A.n → A.f i j = 0 := by
  intro i j hi hj
  by_contra hne
  have h := H.hsp i j hi hj hne
  have h0 : q0.getD i 0 ∈ q0 := mem_of_getD_eq (by rw [H.hq0]; exact hi) rfl
  have h1 : q0.getD i 0 ∈ q1 := mem_of_getD_eq (by rw [H.hq1]; exact hj) h.symm
  have := mem_intersect1d.2 ⟨h0, h1⟩
  rw [he] at this
  exact absurd this (List.not_mem_nil)

theorem qr_disjoint (dqr : Mat 𝕜 → Mat 𝕜 × Mat 𝕜) (H : QRInput A q0 q1) (he : intersect1d q0 q1 = []) :
    qr dqr A q0 q1 = .ok (e0 A.m, Mat.zero 1 A.n, q0.take 1) :=
  qr_eq_empty dqr A q0 q1 H.hq0 H.hq1 ((isSparseMat_iff A q0 q1).2 H.hsp) (by rw [he]; rfl)
    ((all_zero_iff A).2 (all_zero_of_disjoint H he)) (Nat.pos_iff_ne_zero.1 H.hm)

theorem take_one_length (H : QRInput A q0 q1) : (q0.take 1).length = 1 := by
  have := H.hq0; have := H.hm
  rw [List.length_take]; omega

theorem take_one_getD (q : List Int) : (q.take 1).getD 0 0 = q.getD 0 0 := by
  cases q <;> rfl

/-! ### shared charges -/

theorem qr_nonempty (hshape : QRShape dqr A q0 q1) (H : QRInput A q0 q1) (hne : intersect1d q0 q1 ≠ []) :
    qr dqr A q0 q1 = .ok (outQ dqr A q0 q1, outR dqr A q0 q1, (loopState dqr A q0 q1).qinterm) := by
  have hb := loopState_base A q0 q1 hshape H.hq0 H.hq1
  rw [qr_eq dqr A q0 q1 H.hq0 H.hq1 ((isSparseMat_iff A q0 q1).2 H.hsp)
    (by cases h : intersect1d q0 q1 with
        | nil => exact absurd h hne
        | cons _ _ => rfl),
    if_pos (Nat.le_min.2 ⟨hb.Dm, hb.Dn⟩)]

theorem srt_q0_inv (H : QRInput A q0 q1) {i : Nat} (hi : i < A.m) :
    (srt A q0 q1).1.getD ((invPerm (stableArgsort q0)).getD i 0) 0 = q0.getD i 0 := by
  have hp := stableArgsort_permInv q0
  rw [H.hq0] at hp
  rw [srt_q0 A q0 q1 H.hq0 H.hq1 (hp.τ_lt i hi), hp.στ i hi]

theorem srt_q1_inv (H : QRInput A q0 q1) {j : Nat} (hj : j < A.n) :
    (srt A q0 q1).2.1.getD ((invPerm (stableArgsort q1)).getD j 0) 0 = q1.getD j 0 := by
  have hp := stableArgsort_permInv q1
  rw [H.hq1] at hp
  rw [srt_q1 A q0 q1 H.hq0 H.hq1 (hp.τ_lt j hj), hp.στ j hj]

theorem srt_f_inv (H : QRInput A q0 q1) {i j : Nat} (hi : i < A.m) (hj : j < A.n) :
    (srt A q0 q1).2.2.f ((invPerm (stableArgsort q0)).getD i 0) ((invPerm (stableArgsort q1)).getD j 0) = A.f i j := by
  have hp0 := stableArgsort_permInv q0
  rw [H.hq0] at hp0
  have hp1 := stableArgsort_permInv q1
  rw [H.hq1] at hp1
  rw [(srt_spec A q0 q1 H.hq0 H.hq1).2.2.2.2 _ _ (hp0.τ_lt i hi) (hp1.τ_lt j hj), hp0.στ i hi, hp1.στ j hj]

/-! ### dimensions and sparsity (shape clause only) -/

/-- dimensions and block sparsity of a returned triple -/
structure QRResult (A : Mat 𝕜) (q0 q1 : List Int) (Q R : Mat 𝕜) (qi : List Int) : Prop where
  Qm : Q.m = A.m
  Qn : Q.n = qi.length
  Rm : R.m = qi.length
  Rn : R.n = A.n
  le : qi.length ≤ min A.m A.n
  pos : 0 < qi.length
  sparseQ : Sparse Q q0 qi
  sparseR : Sparse R qi q1

theorem result_disjoint (H : QRInput A q0 q1) : QRResult A q0 q1 (e0 A.m) (Mat.zero 1 A.n) (q0.take 1) := by
  have hl := take_one_length H
  refine ⟨rfl, hl.symm, hl.symm, rfl, ?_, by omega, ?_, ?_⟩
  · rw [hl]; have := H.hm; have := H.hn; omega
  · intro i p _ hp hne
    have hp0 : p = 0 := by
      have : p < 1 := hp
      omega
    subst hp0
    by_cases hi : i = 0
    · subst hi; rw [take_one_getD]
    · exact absurd (if_neg hi) hne
  · intro p j _ _ hne
    exact absurd rfl hne

theorem result_nonempty (hshape : QRShape dqr A q0 q1) (H : QRInput A q0 q1) (hne : intersect1d q0 q1 ≠ []) :
    QRResult A q0 q1 (outQ dqr A q0 q1) (outR dqr A q0 q1) (loopState dqr A q0 q1).qinterm := by
  have hb := loopState_base A q0 q1 hshape H.hq0 H.hq1
  obtain ⟨-, -, sm, sn, -⟩ := srt_spec A q0 q1 H.hq0 H.hq1
  obtain ⟨Q1, Q2, Q3⟩ := outQ_spec dqr A q0 q1 H.hq0 H.hq1
  obtain ⟨R1, R2, R3⟩ := outR_spec dqr A q0 q1 H.hq0 H.hq1
  have hp0 := stableArgsort_permInv q0
  rw [H.hq0] at hp0
  have hp1 := stableArgsort_permInv q1
  rw [H.hq1] at hp1
  refine ⟨Q1, Q2.trans hb.qlen.symm, R1.trans hb.qlen.symm, R2, ?_, ?_, ?_, ?_⟩
  · rw [hb.qlen, ← sm, ← sn]; exact Nat.le_min.2 ⟨hb.Dm, hb.Dn⟩
  · -- at least one block of positive width
    rw [hb.qlen]
    cases hq : intersect1d q0 q1 with
    | nil => exact absurd hq hne
    | cons c cs =>
      have C := srt_ctx A q0 q1 hshape H.hq0 H.hq1
      have hmem := srt_mem A q0 q1 H.hq0 H.hq1 c (by rw [hq]; simp)
      obtain ⟨a1, a2, b1, b2, -, -, s1, s2, -, -⟩ := C.blk_shape hmem.1 hmem.2
      have hmono : ∀ (l : List Int) (st : QRState 𝕜),
          st.D ≤ (l.foldl (qrStep dqr (srt A q0 q1).2.2 (srt A q0 q1).1 (srt A q0 q1).2.1) st).D := by
        intro l
        induction l with
        | nil => intro st; exact Nat.le_refl _
        | cons x xs ih =>
          intro st
          simp only [List.foldl_cons]
          exact Nat.le_trans (by rw [step_D]; omega) (ih _)
      unfold loopState
      simp only [hq, List.foldl_cons]
      refine Nat.lt_of_lt_of_le ?_ (hmono cs _)
      rw [step_D, s2]
      omega
  · intro i p hi hp hne'
    rw [Q1] at hi
    rw [Q2] at hp
    rw [Q3 i p hi hp] at hne'
    have := (hb.Qsupp _ _ hne').2.2
    rw [srt_q0_inv H hi] at this
    exact this
  · intro p j hp hj hne'
    rw [R1] at hp
    rw [R2] at hj
    rw [R3 p j hp hj] at hne'
    have := (hb.Rsupp _ _ hne').2.2
    rw [srt_q1_inv H hj] at this
    exact this

/-- `qr` never fails on admissible input (whatever the kernel returns, as long as the shapes are right) -/
theorem qr_ok' (hshape : QRShape dqr A q0 q1) (H : QRInput A q0 q1) :
    ∃ Q R qi, qr dqr A q0 q1 = .ok (Q, R, qi) := by
  by_cases he : intersect1d q0 q1 = []
  · exact ⟨_, _, _, qr_disjoint dqr H he⟩
  · exact ⟨_, _, _, qr_nonempty hshape H he⟩

theorem result_of_run (hshape : QRShape dqr A q0 q1) (H : QRInput A q0 q1) {Q R : Mat 𝕜} {qi : List Int}
    (hrun : qr dqr A q0 q1 = .ok (Q, R, qi)) : QRResult A q0 q1 Q R qi := by
  by_cases he : intersect1d q0 q1 = []
  · rw [qr_disjoint dqr H he] at hrun
    injection hrun with hrun
    injection hrun with h1 hrun
    injection hrun with h2 h3
    subst h1 h2 h3
    exact result_disjoint H
  · rw [qr_nonempty hshape H he] at hrun
    injection hrun with hrun
    injection hrun with h1 hrun
    injection hrun with h2 h3
    subst h1 h2 h3
    exact result_nonempty hshape H he

/-! ### product -/

theorem product_disjoint (H : QRInput A q0 q1) (he : intersect1d q0 q1 = []) {i j : Nat} (hi : i < A.m) (hj : j < A.n) :
    ((e0 A.m).mul (Mat.zero 1 A.n)).f i j = A.f i j := by
  rw [Mat.mul_f, all_zero_of_disjoint H he i j hi hj]
  apply sum_eq_zero
  intro p _
  rw [Mat.zero_f, mul_zero]

theorem product_nonempty (hshape : QRShape dqr A q0 q1) (hprod : QRProduct dqr A q0 q1) (H : QRInput A q0 q1)
    {i j : Nat} (hi : i < A.m) (hj : j < A.n) :
    ((outQ dqr A q0 q1).mul (outR dqr A q0 q1)).f i j = A.f i j := by
  have hJ := loopState_prod A q0 q1 hshape hprod H.hq0 H.hq1
  obtain ⟨-, -, sm, sn, -⟩ := srt_spec A q0 q1 H.hq0 H.hq1
  obtain ⟨Q1, Q2, Q3⟩ := outQ_spec dqr A q0 q1 H.hq0 H.hq1
  obtain ⟨R1, R2, R3⟩ := outR_spec dqr A q0 q1 H.hq0 H.hq1
  have hp0 := stableArgsort_permInv q0
  rw [H.hq0] at hp0
  have hp1 := stableArgsort_permInv q1
  rw [H.hq1] at hp1
  rw [Mat.mul_f, Q2]
  have e : ∀ p ∈ range (loopState dqr A q0 q1).D,
      (outQ dqr A q0 q1).f i p * (outR dqr A q0 q1).f p j =
      (loopState dqr A q0 q1).Q.f ((invPerm (stableArgsort q0)).getD i 0) p *
        (loopState dqr A q0 q1).R.f p ((invPerm (stableArgsort q1)).getD j 0) := by
    intro p hp
    rw [Q3 i p hi (mem_range.1 hp), R3 p j (mem_range.1 hp) hj]
  rw [sum_congr rfl e, hJ _ _ (by rw [sm]; exact hp0.τ_lt i hi) (by rw [sn]; exact hp1.τ_lt j hj),
    srt_q0_inv H hi, srt_q1_inv H hj, srt_f_inv H hi hj]
  by_cases hz : A.f i j = 0
  · rw [hz, ite_self]
  · have h := H.hsp i j hi hj hz
    have h0 : q0.getD i 0 ∈ q0 := mem_of_getD_eq (by rw [H.hq0]; exact hi) rfl
    have h1 : q0.getD i 0 ∈ q1 := mem_of_getD_eq (by rw [H.hq1]; exact hj) h.symm
    rw [if_pos ⟨mem_intersect1d.2 ⟨h0, h1⟩, h⟩]

theorem product' (hshape : QRShape dqr A q0 q1) (hprod : QRProduct dqr A q0 q1) (H : QRInput A q0 q1) {Q R : Mat 𝕜} {qi : List Int}
    (hrun : qr dqr A q0 q1 = .ok (Q, R, qi)) {i j : Nat} (hi : i < A.m) (hj : j < A.n) :
    (Q.mul R).f i j = A.f i j := by
  by_cases he : intersect1d q0 q1 = []
  · rw [qr_disjoint dqr H he] at hrun
    injection hrun with hrun
    injection hrun with h1 hrun
    injection hrun with h2 h3
    subst h1 h2 h3
    exact product_disjoint H he hi hj
  · rw [qr_nonempty hshape H he] at hrun
    injection hrun with hrun
    injection hrun with h1 hrun
    injection hrun with h2 h3
    subst h1 h2 h3
    exact product_nonempty hshape hprod H hi hj

/-! ### isometry -/

variable [StarRing 𝕜]

theorem isometry_disjoint (m : Nat) (hm : 0 < m) {p p' : Nat} (hp : p < 1) (hp' : p' < 1) :
    ∑ i ∈ range m, star ((e0 m : Mat 𝕜).f i p) * (e0 m : Mat 𝕜).f i p' = if p = p' then 1 else 0 := by
  rw [if_pos (by omega)]
  rw [sum_eq_single 0]
  · simp [e0]
  · intro b _ hb
    simp [e0, hb]
  · intro h
    exact absurd (mem_range.2 hm) h

theorem isometry_nonempty (hshape : QRShape dqr A q0 q1) (hiso : QRIso dqr A q0 q1) (H : QRInput A q0 q1)
    {p p' : Nat} (hp : p < (outQ dqr A q0 q1).n) (hp' : p' < (outQ dqr A q0 q1).n) :
    ∑ i ∈ range A.m, star ((outQ dqr A q0 q1).f i p) * (outQ dqr A q0 q1).f i p' = if p = p' then 1 else 0 := by
  have hJ := loopState_iso A q0 q1 hshape hiso H.hq0 H.hq1
  obtain ⟨-, -, sm, sn, -⟩ := srt_spec A q0 q1 H.hq0 H.hq1
  obtain ⟨Q1, Q2, Q3⟩ := outQ_spec dqr A q0 q1 H.hq0 H.hq1
  have hp0 := stableArgsort_permInv q0
  rw [H.hq0] at hp0
  rw [Q2] at hp hp'
  have e : ∀ i ∈ range A.m,
      star ((outQ dqr A q0 q1).f i p) * (outQ dqr A q0 q1).f i p' =
      (fun k => star ((loopState dqr A q0 q1).Q.f k p) * (loopState dqr A q0 q1).Q.f k p')
        ((invPerm (stableArgsort q0)).getD i 0) := by
    intro i hi
    rw [Q3 i p (mem_range.1 hi) hp, Q3 i p' (mem_range.1 hi) hp']
  rw [sum_congr rfl e,
    hp0.sum_comp (fun k => star ((loopState dqr A q0 q1).Q.f k p) * (loopState dqr A q0 q1).Q.f k p'), ← sm]
  exact hJ p p' hp hp'

theorem isometry' (hshape : QRShape dqr A q0 q1) (hiso : QRIso dqr A q0 q1) (H : QRInput A q0 q1) {Q R : Mat 𝕜} {qi : List Int}
    (hrun : qr dqr A q0 q1 = .ok (Q, R, qi)) {p p' : Nat} (hp : p < Q.n) (hp' : p' < Q.n) :
    ∑ i ∈ range A.m, star (Q.f i p) * Q.f i p' = if p = p' then 1 else 0 := by
  by_cases he : intersect1d q0 q1 = []
  · rw [qr_disjoint dqr H he] at hrun
    injection hrun with hrun
    injection hrun with h1 hrun
    injection hrun with h2 h3
    subst h1 h2 h3
    exact isometry_disjoint A.m H.hm hp hp'
  · rw [qr_nonempty hshape H he] at hrun
    injection hrun with hrun
    injection hrun with h1 hrun
    injection hrun with h2 h3
    subst h1 h2 h3
    exact isometry_nonempty hshape hiso H hp hp'

end Ptn.BondOps

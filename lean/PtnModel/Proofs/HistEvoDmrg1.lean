import PtnModel.Proofs.HistEvoTdvp1
import PtnModel.Proofs.HistPush
/-!
# C02: single-site DMRG keeps the block-sparsity invariant

* `localLeft_wf`, `localRight_wf` : `local_orthonormalize_left_qr` / `_right_qr` return well-formed tensors (the reshaped
                                    `Q` factor and the neighbour with the `R` factor absorbed), no positivity assumption;
* `dmrg1Left_sparse`, `dmrg1Right_sparse`, `dmrgNormalizeFirst_sparse`, `dmrg1Sweep_sparse`;
* `dmrg1_wf`                      : `calculate_ground_state_local_singlesite` returns a well-formed MPS.
-/
set_option linter.unusedSectionVars false
namespace Ptn.HistWf
open Ptn Ptn.Krylov Ptn.Evo Ptn.Ortho Ptn.BondOps Ptn.Dense Finset

variable {𝕜 : Type} [RCLike 𝕜] [DecidableEq 𝕜]
variable {dqr : Mat 𝕜 → Mat 𝕜 × Mat 𝕜}

/-! ## local orthonormalization steps -/

theorem localLeft_wf (hshape : ∀ B, ShapeAt dqr B) {A Anext A' Anext' : T3 𝕜} {qd qL qR qn qb : List Int}
    (h : MPS.localOrthoLeftQr dqr A Anext qd qL qR = .ok (A', Anext', qb))
    (h0 : A.d0 = qd.length) (h1 : A.d1 = qL.length) (hN : T3Wf Anext qd qR qn) :
    T3Wf A' qd qL qb ∧ T3Wf Anext' qd qb qn := by
  rw [localLeft_eq] at h
  cases hq : qr dqr A.flattenLeft.tab (QN.flatten2 qd qL) qR with
  | error e => rw [hq] at h; cases h
  | ok r =>
    obtain ⟨Q, R, qb'⟩ := r
    rw [hq] at h
    dsimp only at h
    by_cases hc : R.n ≠ Anext.d1
    · rw [if_pos hc] at h; cases h
    · rw [if_neg hc] at h
      injection h with h
      injection h with e1 h
      injection h with e2 e3
      subst e1 e2 e3
      obtain ⟨hQ, hRs, hRm, _⟩ := leftQ_wf hshape hq h0 h1
      exact ⟨hQ, push_sparse hRs hRm (not_not.1 hc) hN⟩

/-- `np.tensordot(Aprev, R, (2, 1))` with a block-sparse `R` -/
theorem pushL_wf {R : Mat 𝕜} {X : T3 𝕜} {qd qp qL qbond : List Int} (hR : Sparse R qbond (QN.neg qL))
    (hm : R.m = qbond.length) (hn : R.n = X.d2) (hX : T3Wf X qd qp qL) : T3Wf (pushL R X) qd qp (QN.neg qbond) := by
  unfold pushL
  refine T3Wf.tab ⟨hX.d0, hX.d1, by rw [neg_length]; exact hm, ?_⟩
  intro s a p hs ha hp hne
  have hne' : sumRange R.n (fun b => X.f s a b * R.f p b) ≠ 0 := hne
  rw [Env.sumRange_eq] at hne'
  obtain ⟨b, hb, hb0⟩ := Finset.exists_ne_zero_of_sum_ne_zero hne'
  have hb := Finset.mem_range.1 hb
  have h1 : X.f s a b ≠ 0 := fun h0 => hb0 (by rw [h0, zero_mul])
  have h2 : R.f p b ≠ 0 := fun h0 => hb0 (by rw [h0, mul_zero])
  have e1 := hX.sp s a b hs ha (by rw [← hn]; exact hb) h1
  have e2 := hR p b hp hb h2
  rw [neg_getD] at e2 ⊢
  omega

/-- the new tensor of `local_orthonormalize_right_qr(A, Aprev, qd, [qL, qR])` -/
theorem localRight_wfA (hshape : ∀ B, ShapeAt dqr B) {A Aprev A' Aprev' : T3 𝕜} {qd qL qR qb : List Int}
    (h : MPS.localOrthoRightQr dqr A Aprev qd qL qR = .ok (A', Aprev', qb))
    (h0 : A.d0 = qd.length) (h2 : A.d2 = qR.length) : T3Wf A' qd qb qR := by
  rw [localRight_eq] at h
  cases hq : qr dqr A.swap12.flattenLeft.tab (QN.flatten2 qd (QN.neg qR)) (QN.neg qL) with
  | error e => rw [hq] at h; cases h
  | ok r =>
    obtain ⟨Q, R, qb'⟩ := r
    rw [hq] at h
    dsimp only at h
    by_cases hc : R.n ≠ Aprev.d2
    · rw [if_pos hc] at h; cases h
    · rw [if_neg hc] at h
      injection h with h
      injection h with e1 h
      injection h with e2 e3
      subst e1 e2 e3
      exact (rightQ_wf hshape hq h0 h2).1

theorem localRight_wf (hshape : ∀ B, ShapeAt dqr B) {A Aprev A' Aprev' : T3 𝕜} {qd qp qL qR qb : List Int}
    (h : MPS.localOrthoRightQr dqr A Aprev qd qL qR = .ok (A', Aprev', qb))
    (h0 : A.d0 = qd.length) (h2 : A.d2 = qR.length) (hP : T3Wf Aprev qd qp qL) :
    T3Wf A' qd qb qR ∧ T3Wf Aprev' qd qp qb := by
  refine ⟨localRight_wfA hshape h h0 h2, ?_⟩
  rw [localRight_eq] at h
  cases hq : qr dqr A.swap12.flattenLeft.tab (QN.flatten2 qd (QN.neg qR)) (QN.neg qL) with
  | error e => rw [hq] at h; cases h
  | ok r =>
    obtain ⟨Q, R, qb'⟩ := r
    rw [hq] at h
    dsimp only at h
    by_cases hc : R.n ≠ Aprev.d2
    · rw [if_pos hc] at h; cases h
    · rw [if_neg hc] at h
      injection h with h
      injection h with e1 h
      injection h with e2 e3
      subst e1 e2 e3
      obtain ⟨_, hRs, hRm, _⟩ := rightQ_wf hshape hq h0 h2
      exact pushL_wf hRs hRm (not_not.1 hc) hP

/-! ## the sweeps -/

variable {k : EvoKernels 𝕜 ℝ} {H : MPO 𝕜} {qd : List Int} {numiter : Nat}

/-- `_minimize_local_energy` at site `j` between valid blocks returns a well-formed site tensor -/
theorem minimize_wf (hH : HOk H qd) {s : Sweep 𝕜} {cl cr j : Nat} (h : EvoSparse H qd s cl cr)
    (hj : j < H.A.length) (hl : j ≤ cl) {X Aopt : T3 𝕜} {en : ℝ} {R : T3 𝕜}
    (hR : BlockSparse R (getQ s (j + 1)) (H.qD.getD (j + 1) [])) (sqr : R.d2 = R.d0)
    (hX : T3Wf X qd (getQ s j) (getQ s (j + 1)))
    (hrun : minimizeLocalEnergy k (getBL s j) R (H.A.getD j zeroT4) X numiter = .ok (en, Aopt)) :
    T3Wf Aopt qd (getQ s j) (getQ s (j + 1)) := by
  obtain ⟨hbl, sql⟩ := h.bl j hl hj
  obtain ⟨hsp, d0, d1, d2⟩ := minimize_sparse hrun hbl hR (hH.sp j) (hH.sq j) sql sqr hX.sp
  exact ⟨d0.trans hX.d0, d1.trans hX.d1, d2.trans hX.d2, hsp⟩

theorem dmrg1Left_sparse (hshape : ∀ B, ShapeAt k.dqr B) (hH : HOk H qd) {se se' : Sweep 𝕜 × ℝ} {i : Nat}
    (h : EvoSparse H qd se.1 i i) (hi : i + 1 < H.A.length) (hrun : dmrg1Left k H qd numiter se i = .ok se') :
    EvoSparse H qd se'.1 (i + 1) (i + 1) := by
  obtain ⟨en, Aopt, Ai, An, qb, BLn, h1, h2, h3, rfl⟩ := dmrg1Left_unfold hrun
  obtain ⟨s, e⟩ := se
  dsimp only at h h1 h2 h3 ⊢
  obtain ⟨hbr, sqr⟩ := h.br i (Nat.le_refl _) (by omega)
  have hAo := minimize_wf hH h (by omega : i < H.A.length) (Nat.le_refl _) hbr sqr
    (h.site i (by omega)) h1
  obtain ⟨hX, hY⟩ := localLeft_wf hshape h2 hAo.d0 hAo.d1 (h.site (i + 1) hi)
  obtain ⟨hbl, _⟩ := h.bl i (Nat.le_refl _) (by omega)
  obtain ⟨hBLn, b0, _, b2⟩ := opStepLeft_sparse h3 hX.sp hX.sp (hH.sp i) hbl
  have sqn : BLn.d2 = BLn.d0 := b2.trans b0.symm
  have hp := evoSparse_pair h hi hX hY
  rw [Nat.min_self, Nat.max_eq_right (Nat.le_succ i)] at hp
  have hq : getQ (⟨(s.A.setIfInBounds i Ai).setIfInBounds (i + 1) An, s.qD.setIfInBounds (i + 1) qb, s.BL, s.BR⟩ :
      Sweep 𝕜) (i + 1) = qb := by
    show (s.qD.setIfInBounds (i + 1) qb).getD (i + 1) [] = qb
    rw [getD_set1 _ _ qb [] (by rw [h.sizeQ]; omega), if_pos rfl]
  exact evoSparse_setBL hp (Nat.le_refl _) hi (by rw [hq]; exact hBLn) sqn

theorem dmrg1Right_sparse (hshape : ∀ B, ShapeAt k.dqr B) (hH : HOk H qd) {se se' : Sweep 𝕜 × ℝ} {j : Nat}
    (h : EvoSparse H qd se.1 (j + 1) (j + 1)) (hj : j + 1 < H.A.length)
    (hrun : dmrg1Right k H qd numiter se (j + 1) = .ok se') : EvoSparse H qd se'.1 j j := by
  obtain ⟨en, Aopt, Ai, Ap, qb, BRn, h1, h2, h3, rfl⟩ := dmrg1Right_unfold hrun
  obtain ⟨s, e⟩ := se
  simp only [Nat.add_sub_cancel] at h h1 h2 h3 ⊢
  obtain ⟨hbr, sqr⟩ := h.br (j + 1) (Nat.le_refl _) hj
  have hAo := minimize_wf hH h hj (Nat.le_refl _) hbr sqr (h.site (j + 1) hj) h1
  obtain ⟨hY, hX⟩ := localRight_wf hshape h2 hAo.d0 hAo.d2 (h.site j (by omega))
  obtain ⟨hBRn, b0, _, b2⟩ := opStepRight_sparse h3 hY.sp hY.sp (hH.sp (j + 1)) hbr
  have sqn : BRn.d2 = BRn.d0 := b2.trans b0.symm
  have hp := evoSparse_pair' (i := j) h hj hX hY
  rw [Nat.min_eq_right (Nat.le_succ j), Nat.max_self] at hp
  have hq : getQ (⟨(s.A.setIfInBounds (j + 1) Ai).setIfInBounds j Ap, s.qD.setIfInBounds (j + 1) qb, s.BL, s.BR⟩ :
      Sweep 𝕜) (j + 1) = qb := by
    show (s.qD.setIfInBounds (j + 1) qb).getD (j + 1) [] = qb
    rw [getD_set1 _ _ qb [] (by rw [h.sizeQ]; omega), if_pos rfl]
  exact evoSparse_setBR hp (Nat.le_refl _) (by omega : j < H.A.length) (by rw [hq]; exact hBRn) sqn

theorem dmrgNormalizeFirst_sparse (hshape : ∀ B, ShapeAt k.dqr B) (hL : 0 < H.A.length) {s s' : Sweep 𝕜} {cl cr : Nat}
    (h : EvoSparse H qd s cl cr) (hrun : dmrgNormalizeFirst k qd s = .ok s') : EvoSparse H qd s' 0 cr := by
  obtain ⟨A0, X, qb, h1, rfl⟩ := dmrgNormalizeFirst_unfold hrun
  have hA := h.site 0 hL
  exact evoSparse_q0 h hL (localRight_wfA hshape h1 hA.d0 hA.d2)

theorem dmrg1Sweep_sparse (hshape : ∀ B, ShapeAt k.dqr B) (hH : HOk H qd) (hL : 0 < H.A.length)
    {se se' : Sweep 𝕜 × List ℝ} (h : EvoSparse H qd se.1 0 0) (hrun : dmrg1Sweep k H qd numiter se = .ok se') :
    EvoSparse H qd se'.1 0 0 := by
  obtain ⟨s1, e1, s2, e2, s3, h1, h2, h3, rfl⟩ := dmrg1Sweep_unfold hrun
  have hl : EvoSparse H qd (s1, e1).1 (H.A.length - 1) (H.A.length - 1) :=
    foldIdx_up (dmrg1Left k H qd numiter) (fun i (t : Sweep 𝕜 × ℝ) => EvoSparse H qd t.1 i i) (H.A.length - 1)
      (fun i hi t t' ht hr => dmrg1Left_sparse hshape hH ht (by omega) hr) _ _ h h1
  have hr : EvoSparse H qd (s2, e2).1 0 0 :=
    foldIdx_dn (dmrg1Right k H qd numiter) (fun i (t : Sweep 𝕜 × ℝ) => EvoSparse H qd t.1 i i) (H.A.length - 1)
      (fun i hi t t' ht hr => dmrg1Right_sparse hshape hH ht (by omega) hr) _ _ hl h2
  exact dmrgNormalizeFirst_sparse hshape hL hr h3

/-- **`calculate_ground_state_local_singlesite` returns a well-formed MPS** -/
theorem dmrg1_wf (hshape : ∀ B, ShapeAt k.dqr B) {ψ ψ' : MPS 𝕜} {numsweeps : Nat} {en : List ℝ}
    (hw : ψ.wellFormed = true) (hH : HOk H ψ.qd)
    (h : dmrgSinglesite k H ψ numsweeps numiter = .ok (ψ', en)) : ψ'.wellFormed = true := by
  obtain ⟨s0, nrm, s, hp, hit, rfl⟩ := dmrgSinglesite_unfold h
  have hL := prologue_pos hp
  have h0 := prologue_sparse hshape hH hw hp hL
  have hinv := iterate_inv (dmrg1Sweep k H ψ.qd numiter) (fun (t : Sweep 𝕜 × List ℝ) => EvoSparse H ψ.qd t.1 0 0)
    (fun t t' ht ht' => dmrg1Sweep_sparse hshape hH hL ht ht') numsweeps (s0, []) (s, en) h0 hit
  exact toMPS_wf hinv

end Ptn.HistWf

import PtnModel.Proofs.EvoRevPrologue
/-!
# Time reversibility of `integrate_local_singlesite` for purely imaginary time steps (two calls)

`tdvp1_calls_reversible_imag`: the hypothesis `hpro` of `tdvp1_calls_gauge` (the prologue of the second call is a pure gauge
change) is discharged by `prologue_gauge`: the result of the first call is normalised (norm conservation, purely imaginary
`dt`) and right-canonical, so its right-orthonormalisation changes the tensors by unitaries on the bonds only — provided the
QR steps of that orthonormalisation keep the bond dimensions (`OrthoRightRegular`).
-/
set_option linter.unusedSectionVars false

namespace Ptn.Evo
open Ptn Ptn.BondOps Ptn.Ortho Ptn.Env Ptn.Krylov Ptn.Dense Finset

variable {𝕜 : Type} [RCLike 𝕜] [DecidableEq 𝕜]
variable {k : EvoKernels 𝕜 ℝ} {H : MPO 𝕜} {numiter : Nat}

theorem tdvp1_calls_reversible_imag {ψ ψ1 ψ2 : MPS 𝕜} (ctx : SweepCtx k H ψ.qd numiter)
    (hexpI : ∀ x : ℝ, ‖k.dexp (RCLike.I * (x : 𝕜))‖ = 1) {hh τ : ℝ} (hhalf : k.half = ((hh : ℝ) : 𝕜)) {dt : 𝕜}
    (hdt : dt = RCLike.I * ((τ : ℝ) : 𝕜)) (hHwf : H.wellFormed = true) (hc : C02.EvoCompat H ψ) (hadm : Admissible ψ)
    {n : Nat} {nrm1 nrm2 : ℝ}
    (h1 : integrateLocalSinglesite k H ψ dt n numiter = .ok (ψ1, nrm1))
    (h2 : integrateLocalSinglesite k H ψ1 (-dt) n numiter = .ok (ψ2, nrm2))
    (hex1 : ∀ s0, prologue k H ψ = .ok (s0, nrm1) → RunExact false k H ψ.qd dt numiter n s0)
    (hex2 : ∀ t0, prologue k H ψ1 = .ok (t0, nrm2) → RunExact true k H ψ.qd (-dt) numiter n t0)
    (hreg : OrthoRightRegular k.dqr ψ1)
    (hexp : ∀ (a : 𝕜) (x : ℝ), k.dexp (a * (x : 𝕜)) * k.dexp (-a * (x : 𝕜)) = 1) :
    nrm2 = 1 ∧ ∃ ψ0, MPS.orthonormalize (ρ := ℝ) k.dqr ψ false = .ok (ψ0, nrm1) ∧
      ∀ σ, σ ∈ digitsU ψ.qd.length H.A.length → ψ2.amp σ = ψ0.amp σ := by
  obtain ⟨_, _, _, _, hn1, _⟩ := tdvp1_main ctx hexpI hhalf hdt rfl hadm h1
  have hwf1 := C02.tdvp1_wf ctx.qr.contract.shape hHwf hadm.wf hc h1
  obtain ⟨s0, b, ψ0, hp, ho, hcur, hcan0, hit, hcanb, e1⟩ := integrate1_canon ctx hadm h1
  subst e1
  have hadm1 : Admissible (toMPS ψ b) := admissible_of_canon hcanb hadm.d_pos hwf1
  have hn : normSq (cur ψ.qd b) ψ.qd.length = 1 := hn1
  obtain ⟨t0, e, hp2, _, _, _⟩ := integrate1_unfold h2
  have hnrm : nrm2 = 1 := prologue_gauge_norm ctx rfl hcanb hadm1 hp2 hreg hn
  refine ⟨hnrm, tdvp1_calls_gauge ctx hadm h1 h2 hex1 hex2 ?_ hexp⟩
  intro s0' b' t0' hp' hit' hp2'
  have e0 : s0' = s0 := by
    have := hp'.symm.trans hp
    injection this with this
    exact (Prod.mk.inj this).1
  subst e0
  have eb : b' = b := by
    have := hit'.symm.trans hit
    injection this
  subst eb
  exact prologue_gauge ctx rfl hcanb hadm1 hp2' hreg hn

end Ptn.Evo

import PtnModel.Proofs.KryFullDmrgFrom
/-!
# A hit anywhere in a DMRG sweep

`FoldAny f P idx s` : `P` holds at SOME (state, index) met by the loop `foldIdx f idx s` (the existential companion of
`FoldAll`).  `SweepHit … lam0 s` : some local optimisation executed by the sweep from `s` — in the left-to-right half or in
the right-to-left half — is a `CentreHit` (centre of a complete shape, full-length Lanczos run, overlap with an eigenvector
for `lam0`).  `dmrg1Sweep_ground_any` : such a sweep reports `lam0` (if `lam0` is a lower bound of the quadratic form);
`dmrg1_ground_any` : so do all later sweeps.
-/
set_option linter.unusedSectionVars false
namespace Ptn.Evo
open Ptn Ptn.BondOps Ptn.Ortho Ptn.Env Ptn.Krylov Ptn.Dense Finset

/-- `P` holds at SOME (state, index) met by the loop `foldIdx f idx s` -/
def FoldAny {σ : Type} (f : σ → Nat → Except Err σ) (P : σ → Nat → Prop) : List Nat → σ → Prop
  | [], _ => False
  | i :: is, s => P s i ∨ ∃ s', f s i = .ok s' ∧ FoldAny f P is s'

theorem foldIdx_range'_inv {σ : Type} (f : σ → Nat → Except Err σ) (Q : Nat → σ → Prop) (N : Nat)
    (step : ∀ i, i < N → ∀ s s', Q i s → f s i = .ok s' → Q (i + 1) s') :
    ∀ (n a : Nat) (s r : σ), a + n ≤ N → Q a s → foldIdx f (List.range' a n) s = .ok r → Q (a + n) r
  | 0, a, s, r, _, h0, hr => by
    unfold foldIdx at hr
    rw [List.range'_zero, foldlM_ok_nil] at hr
    subst hr; exact h0
  | n + 1, a, s, r, hN, h0, hr => by
    rw [List.range'_succ] at hr
    unfold foldIdx at hr
    rw [foldlM_ok_cons] at hr
    obtain ⟨t, h1, h2⟩ := hr
    have := foldIdx_range'_inv f Q N step n (a + 1) t r (by omega) (step a (by omega) s t h0 h1) h2
    rwa [show a + 1 + n = a + (n + 1) by omega] at this

theorem foldAny_range' {σ : Type} (f : σ → Nat → Except Err σ) (P : σ → Nat → Prop) (I Q : Nat → σ → Prop) (N : Nat)
    (hI : ∀ i, i < N → ∀ s s', I i s → f s i = .ok s' → I (i + 1) s')
    (hP : ∀ i, i < N → ∀ s s', I i s → P s i → f s i = .ok s' → Q (i + 1) s')
    (hQ : ∀ i, i < N → ∀ s s', Q i s → f s i = .ok s' → Q (i + 1) s') :
    ∀ (n a : Nat) (s r : σ), a + n ≤ N → I a s → FoldAny f P (List.range' a n) s →
      foldIdx f (List.range' a n) s = .ok r → Q (a + n) r
  | 0, a, s, r, _, _, hany, _ => by
    rw [List.range'_zero] at hany
    exact absurd hany (by simp [FoldAny])
  | n + 1, a, s, r, hN, h0, hany, hr => by
    rw [List.range'_succ] at hr hany
    unfold foldIdx at hr
    rw [foldlM_ok_cons] at hr
    obtain ⟨t, h1, h2⟩ := hr
    have e : a + 1 + n = a + (n + 1) := by omega
    rcases hany with hp | ⟨t', ht', hrest⟩
    · have := foldIdx_range'_inv f Q N hQ n (a + 1) t r (by omega) (hP a (by omega) s t h0 hp h1) h2
      rwa [e] at this
    · have et : t' = t := Except.ok.inj (ht'.symm.trans h1)
      subst et
      have := foldAny_range' f P I Q N hI hP hQ n (a + 1) t' r (by omega) (hI a (by omega) s t' h0 h1) hrest h2
      rwa [e] at this

theorem foldAny_down {σ : Type} (f : σ → Nat → Except Err σ) (P : σ → Nat → Prop) (I Q : Nat → σ → Prop) :
    ∀ (n : Nat), (∀ i, i < n → ∀ s s', I (i + 1) s → f s (i + 1) = .ok s' → I i s') →
      (∀ i, i < n → ∀ s s', I (i + 1) s → P s (i + 1) → f s (i + 1) = .ok s' → Q i s') →
      (∀ i, i < n → ∀ s s', Q (i + 1) s → f s (i + 1) = .ok s' → Q i s') →
      ∀ (s r : σ), I n s → FoldAny f P ((List.range n).reverse.map (· + 1)) s →
        foldIdx f ((List.range n).reverse.map (· + 1)) s = .ok r → Q 0 r
  | 0, _, _, _, s, r, _, hany, _ => by
    simp only [List.range_zero, List.reverse_nil, List.map_nil] at hany
    exact absurd hany (by simp [FoldAny])
  | n + 1, hI, hP, hQ, s, r, h0, hany, hr => by
    rw [idxR_succ] at hr hany
    unfold foldIdx at hr
    rw [foldlM_ok_cons] at hr
    obtain ⟨t, h1, h2⟩ := hr
    rcases hany with hp | ⟨t', ht', hrest⟩
    · exact foldIdx_down f Q n (fun i hi => hQ i (by omega)) t r (hP n (by omega) s t h0 hp h1) h2
    · have et : t' = t := Except.ok.inj (ht'.symm.trans h1)
      subst et
      exact foldAny_down f P I Q n (fun i hi => hI i (by omega)) (fun i hi => hP i (by omega))
        (fun i hi => hQ i (by omega)) t' r (hI n (by omega) s t' h0 h1) hrest h2

variable {𝕜 : Type} [RCLike 𝕜] [DecidableEq 𝕜]
variable {k : EvoKernels 𝕜 ℝ} {H : MPO 𝕜} {qd : List Int} {numiter : Nat}

/-- the local step of the right-to-left half at a hit returns the ground-state energy -/
theorem dmrg1Right_hit (ctx : SweepCtx k H qd numiter) {s s' : Sweep 𝕜} {e e' E lam0 : ℝ} {c : Nat}
    (h : DInv H qd s c E) (hrun : dmrg1Right k H qd numiter (s, e) c = .ok (s', e'))
    (hlow : DenseLower H qd.length lam0) (hit : CentreHit k H qd numiter lam0 s c) : e' = lam0 := by
  obtain ⟨en, Aopt, Ai, Ap, qb, BRn, h1, _, _, h4⟩ := dmrg1Right_unfold hrun
  injection h4 with h4a h4b
  subst h4b
  dsimp only at h1
  obtain ⟨hL, hR, hfull, x0, hx0, hov⟩ := hit
  exact le_antisymm (dmrg_centre_reach ctx h.can hL hR h1 hfull hx0 hov) ((minimize_inv ctx h h1).2.2.1 lam0 hlow)

/-- **A sweep in which SOME executed local optimisation happens at the centre of a complete state overlapping a ground state
(with a full-length Lanczos run) reports the ground-state energy** — the hit may occur in either half of the sweep, at any
site. -/
theorem dmrg1Sweep_ground_any (ctx : SweepCtx k H qd numiter) (hL2 : 2 ≤ H.A.length) {s s' : Sweep 𝕜}
    {es es' : List ℝ} {E lam0 : ℝ} (h : DInv H qd s 0 E) (hrun : dmrg1Sweep k H qd numiter (s, es) = .ok (s', es'))
    (hlow : DenseLower H qd.length lam0)
    (hhit : FoldAny (dmrg1Left k H qd numiter) (fun t i => CentreHit k H qd numiter lam0 t.1 i)
        (List.range (H.A.length - 1)) (s, (0 : ℝ)) ∨
      ∃ t1, foldIdx (dmrg1Left k H qd numiter) (List.range (H.A.length - 1)) (s, (0 : ℝ)) = .ok t1 ∧
        FoldAny (dmrg1Right k H qd numiter) (fun t i => CentreHit k H qd numiter lam0 t.1 i)
          ((List.range (H.A.length - 1)).reverse.map (· + 1)) t1) :
    es' = es ++ [lam0] ∧ DInv H qd s' 0 lam0 := by
  obtain ⟨s1, e1, s2, e2, s3, h1, h2, h3, h4⟩ := dmrg1Sweep_unfold hrun
  injection h4 with h4a h4b
  subst h4a h4b
  dsimp only at h1
  -- the invariants
  let I : Nat → Sweep 𝕜 × ℝ → Prop := fun i t => ∃ E', DInv H qd t.1 i E' ∧ (0 < i → t.2 = E')
  let Q : Nat → Sweep 𝕜 × ℝ → Prop := fun i t => DInv H qd t.1 i lam0 ∧ t.2 = lam0
  have hIL : ∀ i, i < H.A.length - 1 → ∀ t t', I i t → dmrg1Left k H qd numiter t i = .ok t' → I (i + 1) t' := by
    intro i hi t t' ht ht'
    obtain ⟨E', hinv, _⟩ := ht
    obtain ⟨t1, t2⟩ := t
    obtain ⟨t1', t2'⟩ := t'
    exact ⟨t2', (dmrg1Left_inv ctx hinv (by omega) ht').1, fun _ => rfl⟩
  have hPL : ∀ i, i < H.A.length - 1 → ∀ t t', I i t → CentreHit k H qd numiter lam0 t.1 i →
      dmrg1Left k H qd numiter t i = .ok t' → Q (i + 1) t' := by
    intro i hi t t' ht hp ht'
    obtain ⟨E', hinv, _⟩ := ht
    obtain ⟨t1, t2⟩ := t
    obtain ⟨t1', t2'⟩ := t'
    have e := dmrg1Left_hit ctx hinv ht' hlow hp
    have := (dmrg1Left_inv ctx hinv (by omega) ht').1
    exact ⟨by rw [← e]; exact this, e⟩
  have hQL : ∀ i, i < H.A.length - 1 → ∀ t t', Q i t → dmrg1Left k H qd numiter t i = .ok t' → Q (i + 1) t' := by
    intro i hi t t' ht ht'
    obtain ⟨hinv, _⟩ := ht
    obtain ⟨t1, t2⟩ := t
    obtain ⟨t1', t2'⟩ := t'
    obtain ⟨hinv', hle', hlow'⟩ := dmrg1Left_inv ctx hinv (by omega) ht'
    have e : t2' = lam0 := le_antisymm hle' (hlow' lam0 hlow)
    exact ⟨by rw [← e]; exact hinv', e⟩
  have hIR : ∀ i, i < H.A.length - 1 → ∀ t t', I (i + 1) t → dmrg1Right k H qd numiter t (i + 1) = .ok t' → I i t' := by
    intro i hi t t' ht ht'
    obtain ⟨E', hinv, _⟩ := ht
    obtain ⟨t1, t2⟩ := t
    obtain ⟨t1', t2'⟩ := t'
    exact ⟨t2', (dmrg1Right_inv ctx hinv ht').1, fun _ => rfl⟩
  have hPR : ∀ i, i < H.A.length - 1 → ∀ t t', I (i + 1) t → CentreHit k H qd numiter lam0 t.1 (i + 1) →
      dmrg1Right k H qd numiter t (i + 1) = .ok t' → Q i t' := by
    intro i hi t t' ht hp ht'
    obtain ⟨E', hinv, _⟩ := ht
    obtain ⟨t1, t2⟩ := t
    obtain ⟨t1', t2'⟩ := t'
    have e := dmrg1Right_hit ctx hinv ht' hlow hp
    have := (dmrg1Right_inv ctx hinv ht').1
    exact ⟨by rw [← e]; exact this, e⟩
  have hQR : ∀ i, i < H.A.length - 1 → ∀ t t', Q (i + 1) t → dmrg1Right k H qd numiter t (i + 1) = .ok t' → Q i t' := by
    intro i hi t t' ht ht'
    obtain ⟨hinv, _⟩ := ht
    obtain ⟨t1, t2⟩ := t
    obtain ⟨t1', t2'⟩ := t'
    obtain ⟨hinv', hle', hlow'⟩ := dmrg1Right_inv ctx hinv ht'
    have e : t2' = lam0 := le_antisymm hle' (hlow' lam0 hlow)
    exact ⟨by rw [← e]; exact hinv', e⟩
  have hI0 : I 0 (s, (0 : ℝ)) := ⟨E, h, fun h0 => absurd h0 (lt_irrefl 0)⟩
  have hfin : Q 0 (s2, e2) := by
    rcases hhit with hl | ⟨t1, ht1, hr⟩
    · rw [List.range_eq_range'] at hl h1
      have hq1 := foldAny_range' (dmrg1Left k H qd numiter) _ I Q (H.A.length - 1) hIL hPL hQL (H.A.length - 1) 0
        (s, 0) (s1, e1) (by omega) hI0 hl h1
      rw [Nat.zero_add] at hq1
      exact foldIdx_down (dmrg1Right k H qd numiter) Q (H.A.length - 1) hQR (s1, e1) (s2, e2) hq1 h2
    · have et : t1 = (s1, e1) := Except.ok.inj (ht1.symm.trans h1)
      subst et
      have hi1 : I (H.A.length - 1) (s1, e1) :=
        foldIdx_range (dmrg1Left k H qd numiter) I (H.A.length - 1) hIL (s, 0) (s1, e1) hI0 h1
      exact foldAny_down (dmrg1Right k H qd numiter) _ I Q (H.A.length - 1) hIR hPR hQR (s1, e1) (s2, e2) hi1 hr h2
  obtain ⟨hinv2, he2⟩ := hfin
  dsimp only at hinv2 he2
  subst he2
  exact ⟨rfl, normalize_inv ctx hinv2 h3⟩

/-- the trace hypothesis of `dmrg1Sweep_ground_any` / `dmrg1_ground_any`: some local optimisation executed by the sweep from `s`
(left-to-right half, or right-to-left half) is a `CentreHit` -/
def SweepHit (k : EvoKernels 𝕜 ℝ) (H : MPO 𝕜) (qd : List Int) (numiter : Nat) (lam0 : ℝ) (s : Sweep 𝕜) : Prop :=
  FoldAny (dmrg1Left k H qd numiter) (fun t i => CentreHit k H qd numiter lam0 t.1 i)
      (List.range (H.A.length - 1)) (s, (0 : ℝ)) ∨
    ∃ t1, foldIdx (dmrg1Left k H qd numiter) (List.range (H.A.length - 1)) (s, (0 : ℝ)) = .ok t1 ∧
      FoldAny (dmrg1Right k H qd numiter) (fun t i => CentreHit k H qd numiter lam0 t.1 i)
        ((List.range (H.A.length - 1)).reverse.map (· + 1)) t1

/-- **From the sweep with a hit on, single-site DMRG reports the exact ground-state energy** (hit at any site, in either half
of sweep number `j`). -/
theorem dmrg1_ground_any (ctx : SweepCtx k H qd numiter) (hL2 : 2 ≤ H.A.length) {ψ ψ' : MPS 𝕜} (hqd : ψ.qd = qd)
    (hadm : Admissible ψ) {numsweeps : Nat} {en : List ℝ}
    (h : dmrgSinglesite k H ψ numsweeps numiter = .ok (ψ', en)) {lam0 : ℝ} (hlow : DenseLower H qd.length lam0)
    {j : Nat} (hj : j < numsweeps)
    (hhit : ∀ s0 nrm sj esj, prologue k H ψ = .ok (s0, nrm) →
      iterate (dmrg1Sweep k H qd numiter) j (s0, []) = .ok (sj, esj) → SweepHit k H qd numiter lam0 sj) :
    ∀ i (hi : i < en.length), j ≤ i → en[i] = lam0 := by
  obtain ⟨s0, nrm, s, hp, hit, rfl⟩ := dmrgSinglesite_unfold h
  obtain ⟨ψ1, E0, ho, hcur, hinv0⟩ := prologue_inv ctx hqd hadm hp
  rw [hqd] at hit
  obtain ⟨b, rfl⟩ : ∃ b, numsweeps = j + (1 + b) := ⟨numsweeps - j - 1, by omega⟩
  obtain ⟨⟨sj, esj⟩, hitj, hrest⟩ := (iterate_add _ j (1 + b) _ _).1 hit
  obtain ⟨⟨s1, es1⟩, hit1, hitb⟩ := (iterate_add _ 1 b _ _).1 hrest
  have hok0 : SweepsOk H qd E0 ((s0, []) : Sweep 𝕜 × List ℝ) :=
    ⟨E0, hinv0, le_refl _, rfl, fun e he => absurd he (by simp), List.Pairwise.nil⟩
  obtain ⟨⟨Ej, hinvj, _, _, _, _⟩, hlenj⟩ := sweeps_inv ctx hL2 j (s0, []) (sj, esj) hok0 hitj
  have hs1 : dmrg1Sweep k H qd numiter (sj, esj) = .ok (s1, es1) := by
    unfold iterate at hit1
    rw [bind_ok] at hit1
    obtain ⟨t, h1, h2⟩ := hit1
    unfold iterate at h2
    injection h2 with h2
    subst h2
    exact h1
  obtain ⟨hes1, _⟩ := dmrg1Sweep_ground_any ctx hL2 hinvj hs1 hlow (hhit s0 nrm sj esj hp hitj)
  obtain ⟨l, hl⟩ := iterate_sweep_prefix b (s1, es1) (s, en) hitb
  have hen : en = esj ++ lam0 :: l := by
    have : en = es1 ++ l := hl
    rw [this, hes1]; simp
  have hjlen : esj.length = j := by simpa using hlenj
  obtain ⟨⟨E', _, _, _, hall, hpw⟩, _⟩ := sweeps_inv ctx hL2 (j + (1 + b)) (s0, []) (s, en) hok0 hit
  have hjlt : j < en.length := by rw [hen]; simp; omega
  have henj : en[j] = lam0 := by
    have : en[j]? = some lam0 := by
      rw [hen, List.getElem?_append_right (by omega)]; simp [hjlen]
    rw [List.getElem?_eq_getElem hjlt] at this
    exact Option.some.inj this
  intro i hi hji
  rcases Nat.lt_or_eq_of_le hji with hlt | rfl
  · have h1 : en[j] ≥ en[i] := List.pairwise_iff_getElem.1 hpw j i hjlt hi hlt
    have h2 : lam0 ≤ en[i] := (hall _ (List.getElem_mem hi)).2.2 lam0 hlow
    rw [henj] at h1
    exact le_antisymm h1 h2
  · exact henj

end Ptn.Evo

import PtnModel.Proofs.ChainGraph
/-!
# Soundness of the level BFS of `is_consistent`

If `levelBfs d fuel queue levels` returns `true` (started with a closed pair `queue`, `levels`) there is a
level table `L ⊇ levels ∪ queue` with pairwise different node ids that is closed under the successor relation
followed by the BFS: every successor of a node at level `l` is in the table at level `l + 1`.
-/
set_option linter.unusedSectionVars false

namespace Ptn.Ch
open Ptn Ptn.Og List

variable {κ : Type} [CommRing κ] [DecidableEq κ]

/-- the entries pushed by the BFS for the node `n` at level `l` -/
def bfsSucc (g : Graph κ) (d : Bool) (n : Int) (l : Nat) (node : Node) : List (Int × Nat) :=
  (node.eids (!d)).map (fun eid =>
    match dGet? g.edges eid with
    | some e => (e.nid (!d), l + 1)
    | none => (n, l + 1))

structure BInv (g : Graph κ) (d : Bool) (queue levels : List (Int × Nat)) : Prop where
  keys : (levels.map (·.1)).Nodup
  closed : ∀ p ∈ levels, ∀ node, dGet? g.nodes p.1 = some node →
    ∀ q ∈ bfsSucc g d p.1 p.2 node, q ∈ levels ∨ q ∈ queue

theorem levelBfs_sound (g : Graph κ) (d : Bool) : ∀ (fuel : Nat) (queue levels : List (Int × Nat)),
    g.levelBfs d fuel queue levels = true → BInv g d queue levels →
    ∃ L : List (Int × Nat), (∀ p ∈ levels, p ∈ L) ∧ (L.map (·.1)).Nodup ∧ (∀ p ∈ queue, p ∈ L) ∧
      ∀ p ∈ L, ∀ node, dGet? g.nodes p.1 = some node → ∀ q ∈ bfsSucc g d p.1 p.2 node, q ∈ L := by
  intro fuel
  induction fuel with
  | zero => intro queue levels h _; simp [Graph.levelBfs] at h
  | succ fuel ih =>
    intro queue levels h hI
    cases queue with
    | nil =>
      refine ⟨levels, fun _ h => h, hI.keys, by simp, ?_⟩
      intro p hp node hn q hq
      rcases hI.closed p hp node hn q hq with h1 | h1
      · exact h1
      · simp at h1
    | cons p0 q0 =>
      obtain ⟨n, l⟩ := p0
      rw [Graph.levelBfs] at h
      cases hlook : levels.lookup n with
      | some l' =>
        simp only [hlook] at h
        by_cases hll : (l != l') = true
        · simp [hll] at h
        · have hl : l = l' := by simpa using hll
          subst hl
          simp only [hll, Bool.false_eq_true, if_false] at h
          cases hnode : dGet? g.nodes n with
          | none => simp [hnode] at h
          | some node =>
            simp only [hnode] at h
            have hmem : (n, l) ∈ levels := mem_of_dGet? (d := levels) hlook
            obtain ⟨L, h1, h2, h3, h4⟩ := ih _ levels h ⟨hI.keys, by
              intro p hp node' hn' q hq
              rcases hI.closed p hp node' hn' q hq with hc | hc
              · exact Or.inl hc
              · rcases mem_cons.1 hc with rfl | hc
                · exact Or.inl hmem
                · exact Or.inr (mem_append_left _ hc)⟩
            refine ⟨L, h1, h2, ?_, h4⟩
            intro p hp
            rcases mem_cons.1 hp with rfl | hp
            · exact h1 _ hmem
            · exact h3 p (mem_append_left _ hp)
      | none =>
        simp only [hlook] at h
        cases hnode : dGet? g.nodes n with
        | none => simp [hnode] at h
        | some node =>
          simp only [hnode] at h
          have hnk : n ∉ levels.map (·.1) := by
            intro hk
            obtain ⟨p, hp, hpn⟩ := mem_map.1 hk
            have : (levels.lookup n).isSome = true := by
              have hd : dHas levels n = true := by
                cases hh : dHas levels n with
                | true => rfl
                | false => exact absurd (by rw [← hpn]; exact mem_map_of_mem hp) ((dHas_false_iff levels n).1 hh)
              exact hd
            rw [hlook] at this
            cases this
          obtain ⟨L, h1, h2, h3, h4⟩ := ih _ (levels ++ [(n, l)]) h ⟨by
              rw [map_append, nodup_append]
              refine ⟨hI.keys, by simp, ?_⟩
              intro a ha b hb
              simp only [map_cons, map_nil, mem_singleton] at hb
              subst hb
              rintro rfl
              exact hnk ha, by
              intro p hp node' hn' q hq
              rcases mem_append.1 hp with hp | hp
              · rcases hI.closed p hp node' hn' q hq with hc | hc
                · exact Or.inl (mem_append_left _ hc)
                · rcases mem_cons.1 hc with rfl | hc
                  · exact Or.inl (mem_append_right _ (by simp))
                  · exact Or.inr (mem_append_left _ hc)
              · simp only [mem_singleton] at hp
                subst hp
                simp only at hn'
                rw [hnode] at hn'
                cases hn'
                exact Or.inr (mem_append_right _ hq)⟩
          refine ⟨L, fun p hp => h1 p (mem_append_left _ hp), h2, ?_, h4⟩
          intro p hp
          rcases mem_cons.1 hp with rfl | hp
          · exact h1 _ (mem_append_right _ (by simp))
          · exact h3 p (mem_append_left _ hp)

/-- the level table of the forward BFS of a consistent graph -/
theorem forward_levels (g : Graph κ) (h : g.isConsistent = true) :
    ∃ L : List (Int × Nat), (L.map (·.1)).Nodup ∧ (g.term false, 0) ∈ L ∧
      ∀ p ∈ L, ∀ node, dGet? g.nodes p.1 = some node → ∀ eid ∈ node.eidsOut, ∀ e, dGet? g.edges eid = some e →
        (e.nids.2, p.2 + 1) ∈ L := by
  have hb : g.levelBfs false g.bfsFuel [(g.term false, 0)] [] = true := by
    unfold Graph.isConsistent at h
    simp only [Bool.and_eq_true, List.all_eq_true] at h
    exact h.2 false (by simp)
  obtain ⟨L, _, h2, h3, h4⟩ := levelBfs_sound g false _ _ _ hb ⟨by simp, by simp⟩
  refine ⟨L, h2, h3 _ (by simp), ?_⟩
  intro p hp node hn eid heid e he
  apply h4 p hp node hn
  unfold bfsSucc
  refine mem_map.2 ⟨eid, by simpa [Node.eids] using heid, ?_⟩
  simp [he, Edge.nid]

end Ptn.Ch

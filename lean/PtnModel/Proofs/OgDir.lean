import PtnModel.Proofs.OgRenameNode
/-!
# Direction-generic path sums

`merge_edges` and `_simplify_step` are written generically in a direction `d`.  `g.denD d w x` is the path sum
running in direction `d` (edges are traversed from `e.nid (!d)` to `e.nid d`, ending at `g.term d`).
`denF g w = denD g true w (term false) = denD g false w.reverse (term true)`.
-/
set_option linter.unusedSectionVars false
namespace Ptn.Og
open List Rw
variable {κ : Type} [CommRing κ] [DecidableEq κ]

/-- the edge oriented along direction `d` -/
def dirE (d : Bool) (e : Edge κ) : Edge κ := if d then e else e.flip

@[simp] theorem dirE_nids1 (d : Bool) (e : Edge κ) : (dirE d e).nids.1 = e.nid (!d) := by cases d <;> rfl
@[simp] theorem dirE_nids2 (d : Bool) (e : Edge κ) : (dirE d e).nids.2 = e.nid d := by cases d <;> rfl
@[simp] theorem opc_dirE (d : Bool) (e : Edge κ) (o : Int) : opc (dirE d e) o = opc e o := by cases d <;> rfl

/-- path sum in direction `d` over the edges of the graph -/
def Graph.denD (g : Graph κ) (d : Bool) (w : Word) (x : Int) : κ :=
  denE (g.edgeList.map (dirE d)) (g.term d) w x

/-- path sum in direction `d` over an edge list with end node `t` -/
def denL (es : List (Edge κ)) (d : Bool) (t : Int) (w : Word) (x : Int) : κ := denE (es.map (dirE d)) t w x

theorem Graph.denD_eq (g : Graph κ) (d : Bool) (w : Word) (x : Int) :
    g.denD d w x = denL g.edgeList d (g.term d) w x := rfl

theorem denL_nil (es : List (Edge κ)) (d : Bool) (t x : Int) : denL es d t [] x = if x = t then 1 else 0 := by
  unfold denL; rw [denE_nil]

theorem denL_cons (es : List (Edge κ)) (d : Bool) (t : Int) (o : Int) (w : Word) (x : Int) :
    denL es d t (o :: w) x = if x = t then 0
      else (es.map fun e => if e.nid (!d) = x then opc e o * denL es d t w (e.nid d) else 0).sum := by
  unfold denL
  rw [denE_cons, map_map]
  by_cases hx : x = t
  · simp [hx]
  · simp only [hx, if_false]
    apply sum_map_congr
    intro e _
    simp only [Function.comp, dirE_nids1, dirE_nids2, opc_dirE]

theorem dirE_true (es : List (Edge κ)) : es.map (dirE true) = es := by
  have : (dirE true : Edge κ → Edge κ) = id := by funext e; rfl
  rw [this, map_id]

theorem dirE_false (es : List (Edge κ)) : es.map (dirE false) = es.map Edge.flip := by
  have : (dirE false : Edge κ → Edge κ) = Edge.flip := by funext e; rfl
  rw [this]

theorem denF_eq_denD_true {g : Graph κ} (h : SValid g) (w : Word) : g.denF w = g.denD true w (g.term false) := by
  rw [denF_eq_denE h]; unfold Graph.denD; rw [dirE_true]

theorem denD_exchange {g : Graph κ} (h : SValid g) (w : Word) :
    g.denD true w (g.term false) = g.denD false w.reverse (g.term true) := by
  unfold Graph.denD
  rw [dirE_true, dirE_false]
  apply denE_exchange
  · intro e he
    obtain ⟨⟨k, e'⟩, hp, rfl⟩ := mem_map.1 he
    exact h.no_out_term hp
  · intro e he
    obtain ⟨⟨k, e'⟩, hp, rfl⟩ := mem_map.1 he
    exact h.no_in_term hp

theorem denF_eq_denD_false {g : Graph κ} (h : SValid g) (w : Word) :
    g.denF w = g.denD false w.reverse (g.term true) := by
  rw [denF_eq_denD_true h, denD_exchange h]

/-- a rewrite that keeps the terminals and the path sum in some direction `d` from the far terminal keeps `denF` -/
theorem denF_of_denD {g g' : Graph κ} (h : SValid g) (h' : SValid g') (d : Bool)
    (hterm : g'.nidTerminal = g.nidTerminal)
    (hden : ∀ w, g'.denD d w (g.term (!d)) = g.denD d w (g.term (!d))) (w : Word) : g'.denF w = g.denF w := by
  have ht : ∀ d', g'.term d' = g.term d' := by intro d'; cases d' <;> simp [Graph.term, hterm]
  cases d
  · rw [denF_eq_denD_false h, denF_eq_denD_false h', ht]; exact hden _
  · rw [denF_eq_denD_true h, denF_eq_denD_true h', ht]; exact hden _

end Ptn.Og

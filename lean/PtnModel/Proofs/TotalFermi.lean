import PtnModel.Proofs.TotalLattice
import PtnModel.Proofs.Ham2FermiDense
/-!
# `linear_fermionic_mpo` returns: the hand-built graph is charge consistent
-/
set_option linter.unusedSectionVars false

namespace Ptn.Ham2
open Ptn Ptn.Og Ptn.Ham Ptn.Ch List

variable {κ : Type} [CommRing κ] [DecidableEq κ]

theorem lf_charge_I : OpHasCharge [0, 1] (Mat.identity 2 : Og.Mat κ) 0 := identity_charge [0, 1]
theorem lf_charge_Z : OpHasCharge [0, 1] (pauliZ : Og.Mat κ) 0 := by unfold pauliZ; charge_cases
theorem lf_charge_C : OpHasCharge [0, 1] (fermiC : Og.Mat κ) 1 := by unfold fermiC; charge_cases
theorem lf_charge_A : OpHasCharge [0, 1] (fermiA : Og.Mat κ) (-1) := by unfold fermiA; charge_cases

theorem lf_sq_I : Ham.IsSquare 2 (Mat.identity 2 : Og.Mat κ) := isSquare_identity 2
theorem lf_sq_Z : Ham.IsSquare 2 (pauliZ : Og.Mat κ) := by simp [Ham.IsSquare, pauliZ]
theorem lf_sq_C : Ham.IsSquare 2 (fermiC : Og.Mat κ) := by simp [Ham.IsSquare, fermiC]
theorem lf_sq_A : Ham.IsSquare 2 (fermiA : Og.Mat κ) := by simp [Ham.IsSquare, fermiA]

/-- charges of the nodes of the hand-built graph -/
theorem lfGraph_qOf (coeff : List κ) (create : Bool) (hn : 1 ≤ coeff.length) (x : Int) (h0 : 0 ≤ x)
    (h1 : x < (coeff.length : Int) + coeff.length) :
    qOf (lfGraph coeff create) x = if x < coeff.length then 0 else (if create then 1 else -1) := by
  unfold qOf
  rw [(lfGraph_facts coeff create hn).2.2.2.2.2 x]
  have sv := lfG0_svalid (κ := κ) coeff.length hn create
  by_cases hx : x < coeff.length
  · have hm : (x, (⟨x, [], [], 0⟩ : Node)) ∈ (lfG0 (κ := κ) coeff.length create).nodes := by
      simp only [lfG0, mem_map]
      exact ⟨⟨x, [], [], 0⟩, (lfNodeList_mem ..).2 (Or.inl ⟨x, h0, hx, rfl⟩), rfl⟩
    rw [dGet?_eq_some_of_mem sv.nodesKeys hm, if_pos hx]
    rfl
  · have hm : (x, (⟨x, [], [], if create then 1 else -1⟩ : Node)) ∈ (lfG0 (κ := κ) coeff.length create).nodes := by
      simp only [lfG0, mem_map]
      exact ⟨⟨x, [], [], if create then 1 else -1⟩,
        (lfNodeList_mem ..).2 (Or.inr ⟨x - coeff.length + 1, by omega, by omega, by congr 1; omega⟩), rfl⟩
    rw [dGet?_eq_some_of_mem sv.nodesKeys hm, if_neg hx]
    rfl

theorem lfGraph_opsCharged (coeff : List κ) (create : Bool) (hn : 1 ≤ coeff.length) :
    OpsCharged [0, 1] (lfGraph coeff create) linFermiOpmap := by
  intro p hp oc hoc
  have he : p.2 ∈ (lfGraph coeff create).edgeList := mem_map_of_mem hp
  rw [(lfGraph_facts coeff create hn).2.2.1] at he
  have hq := lfGraph_qOf coeff create hn
  rcases (lfEdges_mem ..).1 he with ⟨k, hk, hpe⟩ | ⟨k, hk, hpe⟩ | ⟨k, hk, hpe⟩
  · rw [hpe] at hoc ⊢
    simp only [mem_singleton] at hoc
    subst hoc
    simp only
    have q1 := hq (k : Int) (by omega) (by omega)
    have q2 := hq ((k : Int) + 1) (by omega) (by omega)
    rw [if_pos (by omega)] at q1 q2
    rw [q1, q2]
    exact tableCharged_of_hasCharge [0, 1] _ 0 lf_sq_I lf_charge_I _ rfl _ (by simp)
  · rw [hpe] at hoc ⊢
    simp only [mem_singleton] at hoc
    subst hoc
    simp only
    have q1 := hq ((coeff.length + k : Nat) : Int) (by omega) (by push_cast; omega)
    have q2 := hq ((coeff.length + k + 1 : Nat) : Int) (by omega) (by push_cast; omega)
    rw [if_neg (by push_cast; omega)] at q1 q2
    rw [q1, q2]
    exact tableCharged_of_hasCharge [0, 1] _ 0 lf_sq_Z lf_charge_Z _ rfl _ (by simp)
  · rw [hpe] at hoc ⊢
    simp only [mem_singleton] at hoc
    subst hoc
    simp only
    have q1 := hq (k : Int) (by omega) (by omega)
    have q2 := hq ((coeff.length + k : Nat) : Int) (by omega) (by push_cast; omega)
    rw [if_pos (by omega)] at q1
    rw [if_neg (by push_cast; omega)] at q2
    rw [q1, q2]
    cases create
    · exact tableCharged_of_hasCharge [0, 1] _ (-1) lf_sq_A lf_charge_A _ rfl _ (by simp)
    · exact tableCharged_of_hasCharge [0, 1] _ 1 lf_sq_C lf_charge_C _ rfl _ (by simp)

/-- **`linear_fermionic_mpo` returns** for every non-empty coefficient vector -/
theorem linFermiBuild_total (coeff : List κ) (create : Bool) (hn : 1 ≤ coeff.length) :
    ∃ b, linFermiBuild coeff create = .ok b := by
  obtain ⟨out, hout⟩ := fromOpgraph_total [0, 1] (lfGraph coeff create) linFermiOpmap false
    (lfGraph_valid coeff create hn).isConsistent (by simp) (lfGraph_opsCharged coeff create hn)
  refine ⟨⟨[0, 1], linFermiOpmap, lfGraph coeff create, out⟩, ?_⟩
  unfold linFermiBuild
  rw [linFermiGraph_ok coeff create hn]
  simp only [bind, Except.bind, hout, pure, Except.pure]

end Ptn.Ham2

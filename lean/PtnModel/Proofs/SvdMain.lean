import PtnModel.Proofs.SvdSpec
import PtnModel.Proofs.RbiNorm
/-!
# Block SVD split: the result of a run of `split_matrix_svd`

Both branches (non-zero matrix, hence shared charges / zero matrix, in particular no shared charge): `split_ok'`, `SplitResult` (dimensions, block sparsity; shape
clause only), orthonormality of the retained columns of `u` / rows of `v`, the residual formula
`A - u·diag(s)·v = Σ_{p discarded} …` and its consequences.
-/
set_option linter.unusedSectionVars false

namespace Ptn.BondOps
open Finset

variable {𝕜 : Type} [CommRing 𝕜] [DecidableEq 𝕜]
variable {ρ : Type} [Field ρ] [LinearOrder ρ] [IsStrictOrderedRing ρ]
variable {dsvd : Mat 𝕜 → Mat 𝕜 × List ρ × Mat 𝕜} {A : Mat 𝕜} {q0 q1 : List Int}
variable (dnorm : List ρ → ρ) (dargsort : List ρ → List Nat) (tol : ρ)

/-! ### facts about lists of indices -/

/-- the retained indices are strictly increasing valid indices of the spectrum (no kernel hypothesis) -/
theorem kept_valid (s : List ρ) :
    (retainedBondIndices dnorm dargsort s tol).Pairwise (· < ·) ∧
      ∀ i ∈ retainedBondIndices dnorm dargsort s tol, i < s.length := by
  by_cases hw : dnorm s = 0
  · rw [C12.retainedBondIndices_of_eq _ _ _ _ hw]; simp
  · rw [C12.retainedBondIndices_of_ne _ _ _ _ hw]
    refine ⟨C12.keptOf_pairwise _ _ _, fun i hi => ?_⟩
    have := ((C12.mem_keptOf _ _ _ _).1 hi).1
    rwa [C12.normSq_length] at this

theorem getD_lt_of_pairwise {l : List Nat} (h : l.Pairwise (· < ·)) {t t' : Nat} (htt : t < t') (ht' : t' < l.length) :
    l.getD t 0 < l.getD t' 0 := by
  have := List.pairwise_iff_getElem.1 h t t' (by omega) ht' htt
  simpa [List.getD_eq_getElem?_getD, ht', (by omega : t < l.length)] using this

theorem getD_inj_of_pairwise {l : List Nat} (h : l.Pairwise (· < ·)) {t t' : Nat} (ht : t < l.length)
    (ht' : t' < l.length) : l.getD t 0 = l.getD t' 0 ↔ t = t' := by
  constructor
  · intro he
    rcases Nat.lt_trichotomy t t' with hlt | heq | hgt
    · have := getD_lt_of_pairwise h hlt ht'; omega
    · exact heq
    · have := getD_lt_of_pairwise h hgt ht; omega
  · rintro rfl; rfl

theorem length_le_of_pairwise_lt {l : List Nat} {D : Nat} (h : l.Pairwise (· < ·)) (hb : ∀ i ∈ l, i < D) :
    l.length ≤ D := by
  have hnd : l.Nodup := h.imp (fun hab => Nat.ne_of_lt hab)
  have := (List.subperm_of_subset hnd (fun i hi => List.mem_range.2 (hb i hi))).length_le
  simpa using this

theorem getD_map_idx {α : Type} (idx : List Nat) (g : Nat → α) (d : α) {t : Nat} (ht : t < idx.length) :
    (idx.map g).getD t d = g (idx.getD t 0) := by
  simp [List.getD_eq_getElem?_getD, ht]

/-- a sum along a duplicate-free list of indices below `D` as a masked sum over `range D` -/
theorem sum_along_idx {α : Type} [AddCommMonoid α] {l : List Nat} {D : Nat} (hnd : l.Nodup) (hb : ∀ i ∈ l, i < D)
    (g : Nat → α) :
    ∑ t ∈ range l.length, g (l.getD t 0) = ∑ p ∈ range D, if p ∈ l then g p else 0 := by
  have h1 : ∑ t ∈ range l.length, g (l.getD t 0) = (l.map g).sum := by
    clear hnd hb
    induction l with
    | nil => simp
    | cons a as ih =>
      rw [List.length_cons, sum_range_succ', List.map_cons, List.sum_cons, add_comm]
      congr 1
  rw [h1, ← List.sum_toFinset g hnd]
  have hsub : l.toFinset ⊆ range D := fun p hp => mem_range.2 (hb p (List.mem_toFinset.1 hp))
  have h2 : ∑ p ∈ range D, (if p ∈ l then g p else 0) = ∑ p ∈ range D, if p ∈ l.toFinset then g p else 0 := by
    apply sum_congr rfl; intro p _; simp only [List.mem_toFinset]
  rw [h2, sum_ite_mem, inter_eq_right.2 hsub]

/-! ### zero matrix (in particular: no shared charge) -/

theorem split_zero' (dsvd : Mat 𝕜 → Mat 𝕜 × List ρ × Mat 𝕜) (H : QRInput A q0 q1) (hz : ¬ AnyNZ A) :
    splitMatrixSvd dsvd dnorm dargsort A q0 q1 tol = .ok (e0 A.m, [0], Mat.zero 1 A.n, q0.take 1) :=
  split_eq_zero dsvd dnorm dargsort A q0 q1 tol H.hq0 H.hq1 ((isSparseMat_iff A q0 q1).2 H.hsp)
    ((all_zero_iff A).2 ((not_anyNZ_iff A).1 hz))

/-- without a shared charge a block-sparse matrix is zero -/
theorem not_anyNZ_of_disjoint (H : QRInput A q0 q1) (he : intersect1d q0 q1 = []) : ¬ AnyNZ A :=
  (not_anyNZ_iff A).2 (all_zero_of_disjoint H he)

/-- a block-sparse matrix with a non-zero entry has a shared charge -/
theorem shared_of_anyNZ (H : QRInput A q0 q1) (hnz : AnyNZ A) : intersect1d q0 q1 ≠ [] :=
  fun he => not_anyNZ_of_disjoint H he hnz

theorem split_disjoint' (dsvd : Mat 𝕜 → Mat 𝕜 × List ρ × Mat 𝕜) (H : QRInput A q0 q1) (he : intersect1d q0 q1 = []) :
    splitMatrixSvd dsvd dnorm dargsort A q0 q1 tol = .ok (e0 A.m, [0], Mat.zero 1 A.n, q0.take 1) :=
  split_zero' dnorm dargsort tol dsvd H (not_anyNZ_of_disjoint H he)

/-! ### non-zero matrix (hence shared charges) -/

theorem split_nonempty (hshape : SvdShape dsvd A q0 q1) (H : QRInput A q0 q1) (hnz : AnyNZ A) :
    splitMatrixSvd dsvd dnorm dargsort A q0 q1 tol =
      .ok (outU dnorm dargsort dsvd A q0 q1 tol, outS dnorm dargsort dsvd A q0 q1 tol,
        outV dnorm dargsort dsvd A q0 q1 tol, outQn dnorm dargsort dsvd A q0 q1 tol) := by
  have hb := (svdLoopState_inv hshape H.hq0 H.hq1).base
  have hD : (svdLoopState dsvd A q0 q1).D ≤ min (srt A q0 q1).2.2.m (srt A q0 q1).2.2.n :=
    Nat.le_min.2 ⟨hb.Dm, hb.Dn⟩
  have hne := shared_of_anyNZ H hnz
  rw [split_eq dsvd dnorm dargsort A q0 q1 tol H.hq0 H.hq1 ((isSparseMat_iff A q0 q1).2 H.hsp)
    (by cases h : intersect1d q0 q1 with
        | nil => exact absurd h hne
        | cons _ _ => rfl)
    ((all_zero_false_iff A).2 hnz),
    if_pos hD]

/-- the retained indices of the run are strictly increasing and below the loop dimension `D` -/
theorem keptIdx_valid (hshape : SvdShape dsvd A q0 q1) (H : QRInput A q0 q1) :
    (keptIdx dnorm dargsort dsvd A q0 q1 tol).Pairwise (· < ·) ∧
      ∀ i ∈ keptIdx dnorm dargsort dsvd A q0 q1 tol, i < (svdLoopState dsvd A q0 q1).D := by
  have := kept_valid dnorm dargsort tol (spectrum dsvd A q0 q1)
  refine ⟨this.1, fun i hi => ?_⟩
  have h := this.2 i hi
  rwa [spectrum, (svdLoopState_inv hshape H.hq0 H.hq1).slen] at h

theorem keptIdx_getD_lt (hshape : SvdShape dsvd A q0 q1) (H : QRInput A q0 q1) {t : Nat}
    (ht : t < (keptIdx dnorm dargsort dsvd A q0 q1 tol).length) :
    (keptIdx dnorm dargsort dsvd A q0 q1 tol).getD t 0 < (svdLoopState dsvd A q0 q1).D :=
  (keptIdx_valid dnorm dargsort tol hshape H).2 _ (getD_mem_of_lt ht)

/-- dimensions and block sparsity of a returned quadruple -/
structure SplitResult (A : Mat 𝕜) (q0 q1 : List Int) (u : Mat 𝕜) (s : List ρ) (v : Mat 𝕜) (q : List Int) : Prop where
  um : u.m = A.m
  un : u.n = s.length
  vm : v.m = s.length
  vn : v.n = A.n
  ql : q.length = s.length
  le : s.length ≤ min A.m A.n
  sparseU : Sparse u q0 q
  sparseV : Sparse v q q1

theorem result_split_disjoint (H : QRInput A q0 q1) :
    SplitResult A q0 q1 (e0 A.m) ([0] : List ρ) (Mat.zero 1 A.n) (q0.take 1) := by
  have hr := result_disjoint H
  refine ⟨rfl, rfl, rfl, rfl, take_one_length H, ?_, hr.sparseQ, hr.sparseR⟩
  have := H.hm; have := H.hn
  simp only [List.length_singleton]; omega

theorem result_split_nonempty (hshape : SvdShape dsvd A q0 q1) (H : QRInput A q0 q1) :
    SplitResult A q0 q1 (outU dnorm dargsort dsvd A q0 q1 tol) (outS dnorm dargsort dsvd A q0 q1 tol)
      (outV dnorm dargsort dsvd A q0 q1 tol) (outQn dnorm dargsort dsvd A q0 q1 tol) := by
  have hI := svdLoopState_inv hshape H.hq0 H.hq1
  have hb := hI.base
  obtain ⟨-, -, sm, sn, -⟩ := srt_spec A q0 q1 H.hq0 H.hq1
  obtain ⟨U1, U2, U3⟩ := outU_spec dnorm dargsort tol (dsvd := dsvd) H.hq0 H.hq1
  obtain ⟨V1, V2, V3⟩ := outV_spec dnorm dargsort tol (dsvd := dsvd) H.hq0 H.hq1
  obtain ⟨kp, kb⟩ := keptIdx_valid dnorm dargsort tol hshape H
  have hS : (outS dnorm dargsort dsvd A q0 q1 tol).length = (keptIdx dnorm dargsort dsvd A q0 q1 tol).length := by
    simp [outS]
  have hQ : (outQn dnorm dargsort dsvd A q0 q1 tol).length = (keptIdx dnorm dargsort dsvd A q0 q1 tol).length := by
    simp [outQn]
  refine ⟨U1, U2.trans hS.symm, V1.trans hS.symm, V2, hQ.trans hS.symm, ?_, ?_, ?_⟩
  · rw [hS, ← sm, ← sn]
    exact Nat.le_trans (length_le_of_pairwise_lt kp kb) (Nat.le_min.2 ⟨hb.Dm, hb.Dn⟩)
  · intro i t hi ht hne'
    rw [U1] at hi
    rw [U2] at ht
    rw [U3 i t hi ht] at hne'
    have := (hb.Qsupp _ _ hne').2.2
    rw [srt_q0_inv H hi] at this
    rw [this, outQn, getD_map_idx _ _ _ ht]
    rfl
  · intro t j ht hj hne'
    rw [V1] at ht
    rw [V2] at hj
    rw [V3 t j ht hj] at hne'
    have := (hb.Rsupp _ _ hne').2.2
    rw [srt_q1_inv H hj] at this
    rw [← this, outQn, getD_map_idx _ _ _ ht]
    rfl

/-- `split_matrix_svd` never fails on admissible input (shape clause only) -/
theorem split_ok' (hshape : SvdShape dsvd A q0 q1) (H : QRInput A q0 q1) :
    ∃ u s v q, splitMatrixSvd dsvd dnorm dargsort A q0 q1 tol = .ok (u, s, v, q) := by
  by_cases hz : AnyNZ A
  · exact ⟨_, _, _, _, split_nonempty dnorm dargsort tol hshape H hz⟩
  · exact ⟨_, _, _, _, split_zero' dnorm dargsort tol dsvd H hz⟩

/-- case analysis on a successful run: zero matrix (dummy bond) / non-zero matrix (loop over the shared charges) -/
theorem split_run_cases (hshape : SvdShape dsvd A q0 q1) (H : QRInput A q0 q1) {u v : Mat 𝕜} {s : List ρ} {q : List Int}
    (hrun : splitMatrixSvd dsvd dnorm dargsort A q0 q1 tol = .ok (u, s, v, q)) :
    (¬ AnyNZ A ∧ u = e0 A.m ∧ s = [0] ∧ v = Mat.zero 1 A.n ∧ q = q0.take 1) ∨
    (AnyNZ A ∧ u = outU dnorm dargsort dsvd A q0 q1 tol ∧ s = outS dnorm dargsort dsvd A q0 q1 tol ∧
      v = outV dnorm dargsort dsvd A q0 q1 tol ∧ q = outQn dnorm dargsort dsvd A q0 q1 tol) := by
  by_cases hz : AnyNZ A
  · rw [split_nonempty dnorm dargsort tol hshape H hz] at hrun
    injection hrun with hrun
    injection hrun with h1 hrun
    injection hrun with h2 hrun
    injection hrun with h3 h4
    exact Or.inr ⟨hz, h1.symm, h2.symm, h3.symm, h4.symm⟩
  · rw [split_zero' dnorm dargsort tol dsvd H hz] at hrun
    injection hrun with hrun
    injection hrun with h1 hrun
    injection hrun with h2 hrun
    injection hrun with h3 h4
    exact Or.inl ⟨hz, h1.symm, h2.symm, h3.symm, h4.symm⟩

theorem result_of_split (hshape : SvdShape dsvd A q0 q1) (H : QRInput A q0 q1) {u v : Mat 𝕜} {s : List ρ} {q : List Int}
    (hrun : splitMatrixSvd dsvd dnorm dargsort A q0 q1 tol = .ok (u, s, v, q)) : SplitResult A q0 q1 u s v q := by
  rcases split_run_cases dnorm dargsort tol hshape H hrun with ⟨-, rfl, rfl, rfl, rfl⟩ | ⟨-, rfl, rfl, rfl, rfl⟩
  · exact result_split_disjoint H
  · exact result_split_nonempty dnorm dargsort tol hshape H

/-! ### isometries -/

section iso
variable [StarRing 𝕜]

theorem isoU_nonempty (hshape : SvdShape dsvd A q0 q1) (hiso : SvdIsoU dsvd A q0 q1) (H : QRInput A q0 q1)
    {t t' : Nat} (ht : t < (outU dnorm dargsort dsvd A q0 q1 tol).n) (ht' : t' < (outU dnorm dargsort dsvd A q0 q1 tol).n) :
    ∑ i ∈ range A.m, star ((outU dnorm dargsort dsvd A q0 q1 tol).f i t) * (outU dnorm dargsort dsvd A q0 q1 tol).f i t' =
      if t = t' then 1 else 0 := by
  have hJ := svdLoopState_isoU hshape hiso H.hq0 H.hq1
  obtain ⟨-, -, sm, sn, -⟩ := srt_spec A q0 q1 H.hq0 H.hq1
  obtain ⟨U1, U2, U3⟩ := outU_spec dnorm dargsort tol (dsvd := dsvd) H.hq0 H.hq1
  obtain ⟨kp, kb⟩ := keptIdx_valid dnorm dargsort tol hshape H
  have hp0 := stableArgsort_permInv q0
  rw [H.hq0] at hp0
  rw [U2] at ht ht'
  have e : ∀ i ∈ range A.m,
      star ((outU dnorm dargsort dsvd A q0 q1 tol).f i t) * (outU dnorm dargsort dsvd A q0 q1 tol).f i t' =
      (fun k => star ((svdLoopState dsvd A q0 q1).u.f k ((keptIdx dnorm dargsort dsvd A q0 q1 tol).getD t 0)) *
        (svdLoopState dsvd A q0 q1).u.f k ((keptIdx dnorm dargsort dsvd A q0 q1 tol).getD t' 0))
        ((invPerm (stableArgsort q0)).getD i 0) := by
    intro i hi
    rw [U3 i t (mem_range.1 hi) ht, U3 i t' (mem_range.1 hi) ht']
  rw [sum_congr rfl e,
    hp0.sum_comp (fun k => star ((svdLoopState dsvd A q0 q1).u.f k ((keptIdx dnorm dargsort dsvd A q0 q1 tol).getD t 0)) *
        (svdLoopState dsvd A q0 q1).u.f k ((keptIdx dnorm dargsort dsvd A q0 q1 tol).getD t' 0)), ← sm]
  have := hJ _ _ (kb _ (getD_mem_of_lt ht)) (kb _ (getD_mem_of_lt ht'))
  rw [show (svdLoopState dsvd A q0 q1).toQr.Q = (svdLoopState dsvd A q0 q1).u from rfl] at this
  rw [this]
  simp only [getD_inj_of_pairwise kp ht ht']

theorem isoV_nonempty (hshape : SvdShape dsvd A q0 q1) (hiso : SvdIsoV dsvd A q0 q1) (H : QRInput A q0 q1)
    {t t' : Nat} (ht : t < (outV dnorm dargsort dsvd A q0 q1 tol).m) (ht' : t' < (outV dnorm dargsort dsvd A q0 q1 tol).m) :
    ∑ j ∈ range A.n, (outV dnorm dargsort dsvd A q0 q1 tol).f t j * star ((outV dnorm dargsort dsvd A q0 q1 tol).f t' j) =
      if t = t' then 1 else 0 := by
  have hJ := svdLoopState_isoV hshape hiso H.hq0 H.hq1
  obtain ⟨-, -, sm, sn, -⟩ := srt_spec A q0 q1 H.hq0 H.hq1
  obtain ⟨V1, V2, V3⟩ := outV_spec dnorm dargsort tol (dsvd := dsvd) H.hq0 H.hq1
  obtain ⟨kp, kb⟩ := keptIdx_valid dnorm dargsort tol hshape H
  have hp1 := stableArgsort_permInv q1
  rw [H.hq1] at hp1
  rw [V1] at ht ht'
  have e : ∀ j ∈ range A.n,
      (outV dnorm dargsort dsvd A q0 q1 tol).f t j * star ((outV dnorm dargsort dsvd A q0 q1 tol).f t' j) =
      (fun k => (svdLoopState dsvd A q0 q1).v.f ((keptIdx dnorm dargsort dsvd A q0 q1 tol).getD t 0) k *
        star ((svdLoopState dsvd A q0 q1).v.f ((keptIdx dnorm dargsort dsvd A q0 q1 tol).getD t' 0) k))
        ((invPerm (stableArgsort q1)).getD j 0) := by
    intro j hj
    rw [V3 t j ht (mem_range.1 hj), V3 t' j ht' (mem_range.1 hj)]
  rw [sum_congr rfl e,
    hp1.sum_comp (fun k => (svdLoopState dsvd A q0 q1).v.f ((keptIdx dnorm dargsort dsvd A q0 q1 tol).getD t 0) k *
        star ((svdLoopState dsvd A q0 q1).v.f ((keptIdx dnorm dargsort dsvd A q0 q1 tol).getD t' 0) k)), ← sn]
  have := hJ _ _ (kb _ (getD_mem_of_lt ht)) (kb _ (getD_mem_of_lt ht'))
  rw [show (svdLoopState dsvd A q0 q1).toQr.R = (svdLoopState dsvd A q0 q1).v from rfl] at this
  rw [this]
  simp only [getD_inj_of_pairwise kp ht ht']

theorem isoU' (hshape : SvdShape dsvd A q0 q1) (hiso : SvdIsoU dsvd A q0 q1) (H : QRInput A q0 q1)
    {u v : Mat 𝕜} {s : List ρ} {q : List Int}
    (hrun : splitMatrixSvd dsvd dnorm dargsort A q0 q1 tol = .ok (u, s, v, q)) {t t' : Nat} (ht : t < u.n) (ht' : t' < u.n) :
    ∑ i ∈ range A.m, star (u.f i t) * u.f i t' = if t = t' then 1 else 0 := by
  rcases split_run_cases dnorm dargsort tol hshape H hrun with ⟨-, rfl, rfl, rfl, rfl⟩ | ⟨-, rfl, rfl, rfl, rfl⟩
  · exact isometry_disjoint A.m H.hm ht ht'
  · exact isoU_nonempty dnorm dargsort tol hshape hiso H ht ht'

theorem isoV' (hshape : SvdShape dsvd A q0 q1) (hiso : SvdIsoV dsvd A q0 q1) (H : QRInput A q0 q1)
    {u v : Mat 𝕜} {s : List ρ} {q : List Int}
    (hrun : splitMatrixSvd dsvd dnorm dargsort A q0 q1 tol = .ok (u, s, v, q))
    (hnz : AnyNZ A) {t t' : Nat} (ht : t < v.m) (ht' : t' < v.m) :
    ∑ j ∈ range A.n, v.f t j * star (v.f t' j) = if t = t' then 1 else 0 := by
  rcases split_run_cases dnorm dargsort tol hshape H hrun with ⟨hz, -⟩ | ⟨-, rfl, rfl, rfl, rfl⟩
  · exact absurd hnz hz
  · exact isoV_nonempty dnorm dargsort tol hshape hiso H ht ht'

end iso

end Ptn.BondOps

namespace Ptn.BondOps

variable {𝕜 : Type} [CommRing 𝕜] [DecidableEq 𝕜]
variable {ρ : Type} [Field ρ] [LinearOrder ρ] [IsStrictOrderedRing ρ]

theorem svd_foldl_s (dsvd : Mat 𝕜 → Mat 𝕜 × List ρ × Mat 𝕜) (As : Mat 𝕜) (q0s q1s : List Int) (l : List Int)
    (st : SVDState 𝕜 ρ) :
    (l.foldl (svdStep dsvd As q0s q1s) st).s = st.s ++ l.flatMap fun c => (dsvd (blk As q0s q1s c)).2.1 := by
  induction l generalizing st with
  | nil => simp
  | cons c cs ih => rw [List.foldl_cons, ih, svdStep_s, List.flatMap_cons, List.append_assoc]

/-- the spectrum is the concatenation of the spectra of the blocks handed to the kernel, in order -/
theorem spectrum_eq (dsvd : Mat 𝕜 → Mat 𝕜 × List ρ × Mat 𝕜) (A : Mat 𝕜) (q0 q1 : List Int) :
    spectrum dsvd A q0 q1 = (blocks A q0 q1).flatMap fun B => (dsvd B).2.1 := by
  unfold spectrum svdLoopState blocks
  rw [svd_foldl_s, List.flatMap_map]
  rfl

end Ptn.BondOps

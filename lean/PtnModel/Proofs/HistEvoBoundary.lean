import PtnModel.Proofs.HistBoundary
import PtnModel.Proofs.EvoStruct
/-!
# C02: single-site TDVP never rewrites the boundary bond charges

The sweeps of `integrate_local_singlesite` rewrite `qD[i+1]` for `i ≤ L-2` (left half) and `qD[i]` for `1 ≤ i ≤ L-1`
(right half): `qD[0]` and `qD[L]` are only touched by the right-orthonormalization of the prologue, which keeps them when
the returned norm is non-zero (`ortho_mps_boundary`).  Also exported: the charge-list lengths of the result are the
tensor dimensions (`SweepWf`, from `EvoWf.lean`).
-/
set_option linter.unusedSectionVars false
namespace Ptn.HistWf
open Ptn Ptn.Evo Ptn.Krylov Ptn.Ortho Ptn.BondOps Ptn.Dense
variable {𝕜 : Type} [RCLike 𝕜] [DecidableEq 𝕜]
variable {k : EvoKernels 𝕜 ℝ} {H : MPO 𝕜} {qd : List Int} {dt : 𝕜} {numiter : Nat}

/-- boundary charges and the size of the charge array of a sweep state -/
def Bdry (L : Nat) (s0 s : Sweep 𝕜) : Prop :=
  s.qD.size = s0.qD.size ∧ getQ s 0 = getQ s0 0 ∧ getQ s L = getQ s0 L

theorem Bdry.refl (L : Nat) (s : Sweep 𝕜) : Bdry L s s := ⟨rfl, rfl, rfl⟩

theorem bdry_set {L : Nat} {s0 s : Sweep 𝕜} (h : Bdry L s0 s) {j : Nat} (hj0 : j ≠ 0) (hjL : j ≠ L) (q : List Int)
    (A : Array (T3 𝕜)) (BL BR : Array (T3 𝕜)) : Bdry L s0 (⟨A, s.qD.setIfInBounds j q, BL, BR⟩ : Sweep 𝕜) := by
  obtain ⟨h1, h2, h3⟩ := h
  refine ⟨by simpa using h1, ?_, ?_⟩
  · show (s.qD.setIfInBounds j q).getD 0 [] = _
    rw [getD_setIfInBounds_ne _ _ _ (fun e => hj0 e.symm)]; exact h2
  · show (s.qD.setIfInBounds j q).getD L [] = _
    rw [getD_setIfInBounds_ne _ _ _ (fun e => hjL e.symm)]; exact h3

theorem tdvp1Step_bdry {L : Nat} (hL : L = H.A.length) {s0 s s' : Sweep 𝕜} (hb : Bdry L s0 s)
    (h : tdvp1Step k H qd dt numiter s = .ok s') : Bdry L s0 s' := by
  obtain ⟨s1, Al, h1, h2, h3⟩ := tdvp1Step_unfold h
  have hl : Bdry L s0 s1 :=
    foldIdx_inv (tdvp1Left k H qd dt numiter) (fun t => Bdry L s0 t) (fun i => i + 1 < L)
      (fun x t t' hx ht ht' => by
        obtain ⟨A1, Q, C, qb, BLn, C1, -, -, -, -, -, rfl⟩ := tdvp1Left_unfold ht'
        exact bdry_set ht (by omega) (by omega) qb _ _ _)
      _ (fun x hx => by have := List.mem_range.1 hx; omega) s s1 hb h1
  have hmid : Bdry L s0 (⟨s1.A.setIfInBounds (H.A.length - 1) Al, s1.qD, s1.BL, s1.BR⟩ : Sweep 𝕜) := hl
  exact foldIdx_inv (tdvp1Right k H qd dt numiter) (fun t => Bdry L s0 t) (fun i => 1 ≤ i ∧ i < L)
    (fun x t t' hx ht ht' => by
      obtain ⟨Q, C, qb, BRn, C1, Ap2, -, -, -, -, -, rfl⟩ := tdvp1Right_unfold ht'
      exact bdry_set ht (by omega) (by omega) (QN.neg qb) _ _ _)
    _ (fun x hx => by
      obtain ⟨y, hy, rfl⟩ := List.mem_map.1 hx
      have := List.mem_range.1 (List.mem_reverse.1 hy)
      omega) _ s' hmid h3

theorem head?_eq_getD {l : List (List Int)} (h : 0 < l.length) : l.head? = some (l.getD 0 []) := by
  cases l with
  | nil => simp at h
  | cons x xs => rfl

theorem getLast?_eq_getD {l : List (List Int)} {L : Nat} (h : l.length = L + 1) : l.getLast? = some (l.getD L []) := by
  rw [List.getLast?_eq_getElem?, h, Nat.add_sub_cancel, List.getD_eq_getElem?_getD,
    List.getElem?_eq_getElem (by omega)]
  rfl

/-- **TDVP1 boundary**: for an admissible state and a kernel with the shape clause, if the returned norm is non-zero the
leading and trailing bond charge lists are unchanged by `integrate_local_singlesite` -/
theorem tdvp1_boundary (hshape : ∀ B, ShapeAt k.dqr B) {ψ ψ' : MPS 𝕜} {numsteps : Nat} {nrm : ℝ} (hadm : Admissible ψ)
    (h : integrateLocalSinglesite k H ψ dt numsteps numiter = .ok (ψ', nrm)) (hn : nrm ≠ 0) :
    ψ'.qD.head? = ψ.qD.head? ∧ ψ'.qD.getLast? = ψ.qD.getLast? := by
  obtain ⟨s0, s, hp, hL0, hit, rfl⟩ := integrate1_unfold h
  obtain ⟨hHL, ψ1, BR, ho, _, _, rfl⟩ := prologue_unfold hp
  have ho' : MPS.orthonormalize (ρ := ℝ) k.dqr ψ false = .ok (ψ1, nrm) := ho
  obtain ⟨hadm1, hqd, hlen⟩ := C01.ortho_wf (dqr := k.dqr) hshape hadm ho'
  obtain ⟨b1, b2⟩ := ortho_mps_boundary hshape (by show RCLike.re (0 : 𝕜) = 0; simp) ho' hn
  have hinv := iterate_inv (tdvp1Step k H ψ.qd dt numiter)
    (fun t => Bdry H.A.length (⟨ψ1.A.toArray, ψ1.qD.toArray,
      (Array.replicate H.A.length emptyT3).setIfInBounds 0 ones111, BR.toArray⟩ : Sweep 𝕜) t)
    (fun t t' ht ht' => tdvp1Step_bdry rfl ht ht') numsteps _ s (Bdry.refl _ _) hit
  obtain ⟨hs, h0, hLq⟩ := hinv
  obtain ⟨hl1, _⟩ := wf_index hadm1.wf
  have hsz : s.qD.toList.length = H.A.length + 1 := by
    rw [Array.length_toList, hs]
    show ψ1.qD.toArray.size = _
    rw [List.size_toArray, hl1, hlen, hHL]
  have hl1' : ψ1.qD.length = H.A.length + 1 := by rw [hl1, hlen, hHL]
  rw [← b1, ← b2]
  show s.qD.toList.head? = _ ∧ s.qD.toList.getLast? = _
  rw [head?_eq_getD (by omega), getLast?_eq_getD hsz, head?_eq_getD (by omega), getLast?_eq_getD hl1']
  have e0 : s.qD.toList.getD 0 [] = ψ1.qD.getD 0 [] := by
    rw [toList_getD]
    have : getQ s 0 = ψ1.qD.toArray.getD 0 [] := h0
    rw [toArray_getD] at this
    exact this
  have eL : s.qD.toList.getD H.A.length [] = ψ1.qD.getD H.A.length [] := by
    rw [toList_getD]
    have : getQ s H.A.length = ψ1.qD.toArray.getD H.A.length [] := hLq
    rw [toArray_getD] at this
    exact this
  rw [e0, eL]
  exact ⟨rfl, rfl⟩

/-- **TDVP1 length clause**: after `integrate_local_singlesite` every charge list has the length of the tensor axis it
labels (shape clause of the QR kernel only) -/
theorem tdvp1_dims (hshape : ∀ B, ShapeAt k.dqr B) {ψ ψ' : MPS 𝕜} {numsteps : Nat} {nrm : ℝ} (hadm : Admissible ψ)
    (h : integrateLocalSinglesite k H ψ dt numsteps numiter = .ok (ψ', nrm)) :
    ψ'.qd = ψ.qd ∧ ψ'.qD.length = ψ'.A.length + 1 ∧
      ∀ i (hi : i < ψ'.A.length), ψ'.A[i].d0 = ψ'.qd.length ∧ ψ'.A[i].d1 = (ψ'.qD.getD i []).length ∧
        ψ'.A[i].d2 = (ψ'.qD.getD (i + 1) []).length := by
  obtain ⟨s0, s, hp, hL0, hit, rfl⟩ := integrate1_unfold h
  obtain ⟨hHL, ψ1, BR, ho, _, _, rfl⟩ := prologue_unfold hp
  have ho' : MPS.orthonormalize (ρ := ℝ) k.dqr ψ false = .ok (ψ1, nrm) := ho
  obtain ⟨hadm1, hqd, hlen⟩ := C01.ortho_wf (dqr := k.dqr) hshape hadm ho'
  have hw0 := sweepWf_init hadm1 ((Array.replicate H.A.length emptyT3).setIfInBounds 0 ones111) BR.toArray
  rw [hlen, ← hHL, hqd] at hw0
  have hinv := iterate_inv (tdvp1Step k H ψ.qd dt numiter) (fun t => SweepWf ψ.qd H.A.length t)
    (fun t t' ht ht' => (tdvp1Step_wf hshape (hqd ▸ hadm1.d_pos) ht ht').1) numsteps _ s hw0 hit
  refine ⟨rfl, ?_, ?_⟩
  · show s.qD.toList.length = s.A.toList.length + 1
    rw [Array.length_toList, Array.length_toList, hinv.sizeQ, hinv.sizeA]
  · intro i hi
    have hi' : i < H.A.length := by
      have : i < s.A.toList.length := hi
      rw [Array.length_toList, hinv.sizeA] at this
      exact this
    have e : (toMPS ψ s).A[i] = getA s i := by
      show s.A.toList[i] = s.A.getD i emptyT3
      have : i < s.A.size := by rw [hinv.sizeA]; exact hi'
      simp only [Array.getD, this, dif_pos, Array.getElem_toList]
      rfl
    rw [e]
    show _ = ψ.qd.length ∧ _ = (s.qD.toList.getD i []).length ∧ _ = (s.qD.toList.getD (i + 1) []).length
    rw [toList_getD, toList_getD]
    exact hinv.shape i hi'

/-- the same for a non-zero state and a kernel with the full QR contract of C01: the norm returned by the prologue is
the norm of the state -/
theorem tdvp1_boundary_nonzero (hc : C01.QRKernel k.dqr) {ψ ψ' : MPS 𝕜} {numsteps : Nat} {nrm : ℝ} (hadm : Admissible ψ)
    (h : integrateLocalSinglesite k H ψ dt numsteps numiter = .ok (ψ', nrm))
    {σ : List Nat} (hσ : σ ∈ Env.digitsU ψ.qd.length ψ.A.length) (hne : ψ.amp σ ≠ 0) :
    ψ'.qD.head? = ψ.qD.head? ∧ ψ'.qD.getLast? = ψ.qD.getLast? := by
  obtain ⟨s0, s, hp, -, -, -⟩ := integrate1_unfold h
  obtain ⟨-, ψ1, BR, ho, -, -, -⟩ := prologue_unfold hp
  have ho' : MPS.orthonormalize (ρ := ℝ) k.dqr ψ false = .ok (ψ1, nrm) := ho
  have hd := C01.ortho_dense hc hadm ho' hσ
  have hn : nrm ≠ 0 := by
    intro h0
    rw [h0] at hd
    apply hne
    rw [← hd]
    simp
  exact tdvp1_boundary hc.contract.shape hadm h hn

/-- **TDVP1, partial**: the result is well-formed provided its tensors are block sparse w.r.t. the new charges (the
shapes and list lengths are proved, `tdvp1_dims`).  Missing for the sparsity clause: (i) the tensors of the sites
`1 … L-1` are reshaped `Q` factors of the last right half-sweep (block sparse by C11, needs the bookkeeping of the
sweep), (ii) the tensor of site `0` is the output of `_local_hamiltonian_step`, a linear combination of the Krylov
vectors `H_eff^k A`, which stay in the sector of `A` by `localH_sparse` — the closure under the Lanczos recurrence and
the final combination of `expm_krylov`, and the block sparsity of the maintained environment blocks, are not proved. -/
theorem tdvp1_wf_partial (hshape : ∀ B, ShapeAt k.dqr B) {ψ ψ' : MPS 𝕜} {numsteps : Nat} {nrm : ℝ} (hadm : Admissible ψ)
    (h : integrateLocalSinglesite k H ψ dt numsteps numiter = .ok (ψ', nrm))
    (hsp : ∀ i (hi : i < ψ'.A.length), SparseT3 ψ'.A[i] ψ'.qd (ψ'.qD.getD i []) (ψ'.qD.getD (i + 1) [])) :
    ψ'.wellFormed = true := by
  obtain ⟨-, hl, hd⟩ := tdvp1_dims hshape hadm h
  rw [wellFormed_iff_idx]
  exact ⟨hl, fun i hi => ⟨(hd i hi).1, (hd i hi).2.1, (hd i hi).2.2, hsp i hi⟩⟩

end Ptn.HistWf

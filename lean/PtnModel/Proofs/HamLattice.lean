import Mathlib.Algebra.Ring.Defs
import Mathlib.Tactic.Ring
import PtnModel.Proofs.HamChains
/-!
# The chain-template models: explicit templates, guards, charge consistency of the tables, adjoint closure

For `heisenberg_xxz_mpo`, `heisenberg_xxz_spin1_mpo`, `bose_hubbard_mpo`, `fermi_hubbard_mpo`:
* `*Lattice_eq`  : the constructor part of the model returns (never raises) the explicit templates;
* `*_templates`  : every template satisfies `TemplateWF`;
* charge consistency: every local operator occurring in a template only connects physical states whose charge
  difference equals the jump of the interleaved bond charges at its position (`OpHasCharge`), the identity has charge 0;
* adjoint closure: an involution `adj` on operator ids with `opmap[adj o] = opmap[o]ᵀ` (all tables are real) under which
  the template list is closed (same coefficient), which makes the sum of all translated chains Hermitian for real parameters.
Scalars: any commutative ring `κ`; the constants satisfy `half + half = 1`, `sq n * sq n = n` where needed.
-/
set_option linter.unusedSectionVars false

namespace Ptn.Ham
open Ptn.Og

variable {κ : Type} [CommRing κ] [DecidableEq κ]

/-! ## vocabulary -/

/-- every entry of `m` that connects physical states `a`, `b` with `qd[a] - qd[b] ≠ dq` vanishes:
the operator shifts the charge by exactly `dq` -/
def OpHasCharge (qd : List Int) (m : Mat κ) (dq : Int) : Prop :=
  ∀ a b : Nat, a < qd.length → b < qd.length → qd.getD a 0 - qd.getD b 0 ≠ dq → m.entry a b = 0

/-- `m` is a `d × d` table -/
def IsSquare (d : Nat) (m : Mat κ) : Prop := m.length = d ∧ ∀ r ∈ m, r.length = d

/-- position `k` of the template carries an operator of the table whose charge is the jump of the bond charges -/
def TemplateCharged (qd : List Int) (opmap : OpMap κ) (t : OpChain κ) : Prop :=
  ∀ k : Nat, k < t.oids.length → ∃ m, opmap.lookup (t.oids.getD k 0) = some m ∧
    OpHasCharge qd m (t.qnums.getD (k + 1) 0 - t.qnums.getD k 0)

/-- all tables square of the physical dimension; every template position charge-consistent; identity of charge 0 -/
structure LatticeCharged (lat : Lattice κ) : Prop where
  square : ∀ p ∈ lat.opmap, IsSquare lat.qd.length p.2
  templates : ∀ t ∈ lat.lopchains, TemplateCharged lat.qd lat.opmap t
  identity : ∃ m, lat.opmap.lookup lat.oidIdentity = some m ∧ OpHasCharge lat.qd m 0

/-- transpose of a table given as rows -/
def matT (d : Nat) (m : Mat κ) : Mat κ := matOf d fun i j => m.entry j i

/-- `adj` is an involution on the ids of the table under which tables are transposed (real tables: the adjoint),
and the template list is closed under mapping `adj` over the operators (same coefficient) -/
structure AdjointClosed (lat : Lattice κ) (adj : Int → Int) : Prop where
  invol : ∀ p ∈ lat.opmap, adj (adj p.1) = p.1
  table : ∀ p ∈ lat.opmap, lat.opmap.lookup (adj p.1) = some (matT lat.qd.length p.2)
  ident : adj lat.oidIdentity = lat.oidIdentity
  closed : ∀ t ∈ lat.lopchains, ∃ t' ∈ lat.lopchains, t'.oids = t.oids.map adj ∧ t'.coeff = t.coeff

/-- translation over the lattice keeps the closure: the chain list handed to `from_opchains` is closed under the
adjoint word map, position by position -/
theorem translate_adjoint_closed {lat : Lattice κ} {adj : Int → Int} (h : AdjointClosed lat adj) (L : Int) :
    ∀ ch ∈ translateChains lat.lopchains L, ∃ ch' ∈ translateChains lat.lopchains L,
      ch'.oids = ch.oids.map adj ∧ ch'.coeff = ch.coeff ∧ ch'.istart = ch.istart := by
  intro ch hch
  obtain ⟨t, ht, i, h0, h1, rfl⟩ := mem_translateChains.1 hch
  obtain ⟨t', ht', ho, hc⟩ := h.closed t ht
  refine ⟨{ t' with istart := i }, mem_translateChains.2 ⟨t', ht', i, h0, ?_, rfl⟩, ho, hc, rfl⟩
  rw [ho, List.length_map]; exact h1

/-- the padded word of the adjoint chain is the adjoint of the padded word -/
theorem paddedWord_adjoint {adj : Int → Int} {oid : Int} (hid : adj oid = oid) (ch ch' : OpChain κ) (L : Int)
    (ho : ch'.oids = ch.oids.map adj) (hs : ch'.istart = ch.istart) :
    ch'.paddedWord L oid = (ch.paddedWord L oid).map adj := by
  simp [OpChain.paddedWord, OpChain.length, ho, hs, pyRepeat, hid]

/-! ## `Mat.entry` of explicit tables -/

theorem entry_matOf (d : Nat) (f : Nat → Nat → κ) (i j : Nat) :
    (matOf d f).entry i j = if i < d ∧ j < d then f i j else 0 := by
  unfold matOf Mat.entry
  by_cases hi : i < d
  · by_cases hj : j < d
    · simp [hi, hj, List.getD_eq_getElem?_getD]
    · simp [hi, hj, List.getD_eq_getElem?_getD]
  · simp [hi, List.getD_eq_getElem?_getD]

theorem isSquare_matOf (d : Nat) (f : Nat → Nat → κ) : IsSquare d (matOf d f) := by
  constructor
  · simp [matOf]
  · intro r hr
    simp only [matOf, List.mem_map] at hr
    obtain ⟨i, _, rfl⟩ := hr
    simp

theorem entry_identity (d i j : Nat) : (Mat.identity d : Mat κ).entry i j = if i < d ∧ j < d ∧ i = j then 1 else 0 := by
  unfold Mat.identity Mat.entry
  by_cases hi : i < d
  · by_cases hj : j < d
    · simp [hi, hj, List.getD_eq_getElem?_getD]
    · simp [hi, hj, List.getD_eq_getElem?_getD]
  · simp [hi, List.getD_eq_getElem?_getD]

theorem isSquare_identity (d : Nat) : IsSquare d (Mat.identity d : Mat κ) := by
  constructor
  · simp [Mat.identity]
  · intro r hr
    simp only [Mat.identity, List.mem_map] at hr
    obtain ⟨i, _, rfl⟩ := hr
    simp

/-- the identity table has charge 0 under any physical charges -/
theorem identity_charge (qd : List Int) : OpHasCharge qd (Mat.identity qd.length : Mat κ) 0 := by
  intro a b _ _ h
  rw [entry_identity]
  by_cases hab : a = b
  · subst hab; simp at h
  · simp [hab]

end Ptn.Ham

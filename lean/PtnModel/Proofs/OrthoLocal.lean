import PtnModel.Proofs.OrthoBasic
/-!
# One local QR step of `MPS.orthonormalize` (`local_orthonormalize_left_qr`)

`LocalLeft dqr A Anext qd qL qR A' Anext' qb` : the block QR of the matricization of `A` returned `(Q, R, qb)`,
`A'` is `Q` reshaped and `Anext' = R · Anext` (both on in-range indices, `T3Eqv`).  `localLeft_of_run`: this
holds for every successful run of `MPS.localOrthoLeftQr`.

Consequences (from the theorems of C11): shapes and block sparsity of `A'`, `Anext'`; the bond bound;
`A' · Anext' = A · Anext` (product clause); `A'` is a left isometry (isometry clause).
-/
set_option linter.unusedSectionVars false
namespace Ptn.Ortho
open Ptn.BondOps Finset

variable {𝕜 : Type} [CommRing 𝕜] [DecidableEq 𝕜]
variable {dqr : Mat 𝕜 → Mat 𝕜 × Mat 𝕜}

/-- `R · Anext` as an index formula -/
def rawPush (R : Mat 𝕜) (X : T3 𝕜) : T3 𝕜 :=
  ⟨X.d0, R.m, X.d2, fun s p c => ∑ b ∈ range R.n, R.f p b * X.f s b c⟩

/-- the tensor `R · Anext` of a local left step (`np.tensordot(R, Anext, (1, 1)).transpose((1, 0, 2))`) -/
def pushR (R : Mat 𝕜) (Anext : T3 𝕜) : T3 𝕜 :=
  (⟨Anext.d0, R.m, Anext.d2, fun s p c => sumRange R.n fun b => R.f p b * Anext.f s b c⟩ : T3 𝕜).tab

theorem pushR_eqv (R : Mat 𝕜) (X : T3 𝕜) : T3Eqv (pushR R X) (rawPush R X) :=
  ⟨rfl, rfl, rfl, fun _ _ _ hs hp hc =>
    (Env.t3_tab_f (A := ⟨X.d0, R.m, X.d2, fun s p c => sumRange R.n fun b => R.f p b * X.f s b c⟩) hs hp hc).trans
      (Env.sumRange_eq _ _)⟩

/-- the local step returned `(A', Anext', qb)` (tensors up to out-of-range entries) -/
def LocalLeft (dqr : Mat 𝕜 → Mat 𝕜 × Mat 𝕜) (A Anext : T3 𝕜) (qd qL qR : List Int) (A' Anext' : T3 𝕜)
    (qb : List Int) : Prop :=
  ∃ Q R, qr dqr A.flattenLeft.tab (QN.flatten2 qd qL) qR = .ok (Q, R, qb) ∧ R.n = Anext.d1 ∧
    T3Eqv A' (T3.ofFlattenLeft Q A.d0 A.d1) ∧ T3Eqv Anext' (rawPush R Anext)

theorem localLeft_eq (A Anext : T3 𝕜) (qd qL qR : List Int) :
    MPS.localOrthoLeftQr dqr A Anext qd qL qR =
      match qr dqr A.flattenLeft.tab (QN.flatten2 qd qL) qR with
      | .error e => .error e
      | .ok (Q, R, qb) =>
        if R.n ≠ Anext.d1 then .error .value
        else .ok ((T3.ofFlattenLeft Q A.d0 A.d1).tab, pushR R Anext, qb) := by
  unfold MPS.localOrthoLeftQr
  dsimp only
  cases h : qr dqr A.flattenLeft.tab (QN.flatten2 qd qL) qR with
  | error e => rfl
  | ok r =>
    obtain ⟨Q, R, qb⟩ := r
    by_cases hc : R.n ≠ Anext.d1
    · simp only [bind, Except.bind]; rfl
    · simp only [bind, Except.bind]; rfl

theorem localLeft_of_run {A Anext : T3 𝕜} {qd qL qR : List Int} {A' Anext' : T3 𝕜} {qb : List Int}
    (h : MPS.localOrthoLeftQr dqr A Anext qd qL qR = .ok (A', Anext', qb)) :
    LocalLeft dqr A Anext qd qL qR A' Anext' qb := by
  rw [localLeft_eq] at h
  cases hq : qr dqr A.flattenLeft.tab (QN.flatten2 qd qL) qR with
  | error e => rw [hq] at h; cases h
  | ok r =>
    obtain ⟨Q, R, qb'⟩ := r
    rw [hq] at h
    dsimp only at h
    by_cases hc : R.n ≠ Anext.d1
    · rw [if_pos hc] at h; cases h
    · rw [if_neg hc] at h
      injection h with h
      injection h with h1 h
      injection h with h2 h3
      subst h3 h1 h2
      exact ⟨Q, R, hq, not_not.1 hc, T3Eqv.tab _, pushR_eqv R Anext⟩

/-- the input of the block QR of a local step satisfies the hypotheses of C11 -/
theorem qrInput_flattenLeft {A : T3 𝕜} {qd qL qR : List Int} (hA : T3Wf A qd qL qR)
    (hd : 0 < qd.length) (hL : 0 < qL.length) (hR : 0 < qR.length) :
    QRInput A.flattenLeft.tab (QN.flatten2 qd qL) qR := by
  refine ⟨?_, hA.d2.symm, ?_, ?_, sparse_flattenLeft hA⟩
  · rw [flatten2_length, ← hA.d0, ← hA.d1]; rfl
  · show 0 < A.d0 * A.d1
    rw [hA.d0, hA.d1]; exact Nat.mul_pos hd hL
  · show 0 < A.d2
    rw [hA.d2]; exact hR

/-- no exception in a local step on admissible input, for every kernel with the shape clause -/
theorem localLeft_ok (hshape : ∀ B, ShapeAt dqr B) {A Anext : T3 𝕜} {qd qL qR : List Int}
    (hA : T3Wf A qd qL qR) (hd : 0 < qd.length) (hL : 0 < qL.length) (hR : 0 < qR.length)
    (hN : Anext.d1 = qR.length) :
    ∃ A' Anext' qb, MPS.localOrthoLeftQr dqr A Anext qd qL qR = .ok (A', Anext', qb) := by
  have H := qrInput_flattenLeft hA hd hL hR
  obtain ⟨Q, R, qb, hrun⟩ := qr_ok' (fun B _ => hshape B) H
  have hres := result_of_run (fun B _ => hshape B) H hrun
  refine ⟨(T3.ofFlattenLeft Q A.d0 A.d1).tab, pushR R Anext, qb, ?_⟩
  rw [localLeft_eq, hrun]
  dsimp only
  rw [if_neg]
  rw [not_not, hres.Rn, hN]
  exact hA.d2

section consequences
variable {A Anext A' Anext' : T3 𝕜} {qd qL qR qb : List Int}

/-- dimension facts of a local step -/
structure LocalDims (A A' Anext' Anext : T3 𝕜) (qd qL qR qb : List Int) : Prop where
  pos : 0 < qb.length
  le : qb.length ≤ min (qd.length * qL.length) qR.length
  wfA : T3Wf A' qd qL qb
  d0 : Anext'.d0 = Anext.d0
  d1 : Anext'.d1 = qb.length
  d2 : Anext'.d2 = Anext.d2
  dn : A.d2 = Anext.d1

theorem LocalLeft.dims (h : LocalLeft dqr A Anext qd qL qR A' Anext' qb) (hshape : ∀ B, ShapeAt dqr B)
    (hA : T3Wf A qd qL qR) (hd : 0 < qd.length) (hL : 0 < qL.length) (hR : 0 < qR.length) :
    LocalDims A A' Anext' Anext qd qL qR qb := by
  obtain ⟨Q, R, hrun, hRn, hA', hN'⟩ := h
  have H := qrInput_flattenLeft hA hd hL hR
  have hres := result_of_run (fun B _ => hshape B) H hrun
  have hm : Q.m = qd.length * qL.length := by rw [hres.Qm, ← hA.d0, ← hA.d1]; rfl
  refine ⟨hres.pos, ?_, ?_, hN'.d0, hN'.d1.trans hres.Rm, hN'.d2, hres.Rn.symm.trans hRn⟩
  · have := hres.le
    have e1 : A.flattenLeft.tab.m = qd.length * qL.length := by rw [← hA.d0, ← hA.d1]; rfl
    have e2 : A.flattenLeft.tab.n = qR.length := hA.d2
    rw [e1, e2] at this
    exact this
  · refine T3Wf.congr hA' ?_
    rw [hA.d0, hA.d1]
    exact sparseT3_ofFlattenLeft hm hres.Qn hres.sparseQ

/-- the pushed tensor `R · Anext` is well-formed w.r.t. the new bond charges -/
theorem LocalLeft.wfNext (h : LocalLeft dqr A Anext qd qL qR A' Anext' qb) (hshape : ∀ B, ShapeAt dqr B)
    (hA : T3Wf A qd qL qR) (hd : 0 < qd.length) (hL : 0 < qL.length) (hR : 0 < qR.length)
    {qR' : List Int} (hN : T3Wf Anext qd qR qR') : T3Wf Anext' qd qb qR' := by
  obtain ⟨Q, R, hrun, hRn, hA', hN'⟩ := h
  have H := qrInput_flattenLeft hA hd hL hR
  have hres := result_of_run (fun B _ => hshape B) H hrun
  refine T3Wf.congr hN' ⟨hN.d0, hres.Rm, hN.d2, ?_⟩
  intro s p c hs hp hc hne
  have hs' : s < Anext.d0 := hs
  have hp' : p < R.m := hp
  have hc' : c < Anext.d2 := hc
  have hne' : ∑ b ∈ range R.n, R.f p b * Anext.f s b c ≠ 0 := hne
  obtain ⟨b, hb, hb0⟩ := Finset.exists_ne_zero_of_sum_ne_zero hne'
  have hb' : b < R.n := Finset.mem_range.1 hb
  have h1 : R.f p b ≠ 0 := fun h0 => hb0 (by rw [h0, zero_mul])
  have h2 : Anext.f s b c ≠ 0 := fun h0 => hb0 (by rw [h0, mul_zero])
  have e1 := hres.sparseR p b hp' hb' h1
  have e2 := hN.sp s b c hs' (by rw [← hRn]; exact hb') hc' h2
  omega

/-- `A' · Anext' = A · Anext` entry by entry (product clause of the kernel contract) -/
theorem LocalLeft.prod (h : LocalLeft dqr A Anext qd qL qR A' Anext' qb) (hshape : ∀ B, ShapeAt dqr B)
    (hprod : ∀ B, ProdAt dqr B)
    (hA : T3Wf A qd qL qR) (hd : 0 < qd.length) (hL : 0 < qL.length) (hR : 0 < qR.length)
    {s a s' c : Nat} (hs : s < A.d0) (ha : a < A.d1) (hs' : s' < Anext.d0) (hc : c < Anext.d2) :
    ∑ p ∈ range qb.length, A'.f s a p * Anext'.f s' p c = ∑ b ∈ range A.d2, A.f s a b * Anext.f s' b c := by
  obtain ⟨Q, R, hrun, hRn, hA', hN'⟩ := h
  have H := qrInput_flattenLeft hA hd hL hR
  have hres := result_of_run (fun B _ => hshape B) H hrun
  have hr : s * A.d1 + a < A.d0 * A.d1 := fused_lt hs ha
  have hRn' : R.n = A.d2 := hres.Rn
  have e1 : ∀ p ∈ range qb.length, A'.f s a p * Anext'.f s' p c =
      ∑ b ∈ range A.d2, (Q.f (s * A.d1 + a) p * R.f p b) * Anext.f s' b c := by
    intro p hp
    have hp' : p < qb.length := Finset.mem_range.1 hp
    rw [hA'.f s a p (by rw [hA'.d0]; exact hs) (by rw [hA'.d1]; exact ha)
        (by rw [hA'.d2]; show p < Q.n; rw [hres.Qn]; exact hp'),
      hN'.f s' p c (by rw [hN'.d0]; exact hs') (by rw [hN'.d1]; show p < R.m; rw [hres.Rm]; exact hp')
        (by rw [hN'.d2]; exact hc)]
    show Q.f (s * A.d1 + a) p * ∑ b ∈ range R.n, R.f p b * Anext.f s' b c = _
    rw [hRn', Finset.mul_sum]
    refine Finset.sum_congr rfl fun b _ => ?_
    rw [mul_assoc]
  rw [Finset.sum_congr rfl e1, Finset.sum_comm]
  refine Finset.sum_congr rfl fun b hb => ?_
  have hb' : b < A.d2 := Finset.mem_range.1 hb
  rw [← Finset.sum_mul]
  congr 1
  have := product' (fun B _ => hshape B) (fun B _ => hprod B) H hrun (i := s * A.d1 + a) (j := b) hr hb'
  rw [Mat.mul_f, hres.Qn, Mat.tab_f A.flattenLeft hr hb'] at this
  rw [this]
  show A.f ((s * A.d1 + a) / A.d1) ((s * A.d1 + a) % A.d1) b = _
  rw [fused_div ha, fused_mod ha]

end consequences

section iso
variable [StarRing 𝕜]
variable {A Anext A' Anext' : T3 𝕜} {qd qL qR qb : List Int}

/-- left isometry: `Σ_{s,a} conj(A[s,a,p]) A[s,a,p'] = δ_{p p'}` -/
def LeftIso (A : T3 𝕜) : Prop :=
  ∀ p p', p < A.d2 → p' < A.d2 →
    ∑ s ∈ range A.d0, ∑ a ∈ range A.d1, star (A.f s a p) * A.f s a p' = if p = p' then 1 else 0

theorem LeftIso.congr {X Y : T3 𝕜} (h : T3Eqv X Y) (hY : LeftIso Y) : LeftIso X := by
  intro p p' hp hp'
  rw [← hY p p' (by rw [← h.d2]; exact hp) (by rw [← h.d2]; exact hp'), ← h.d0, ← h.d1]
  refine Finset.sum_congr rfl fun s hs => Finset.sum_congr rfl fun a ha => ?_
  rw [h.f s a p (Finset.mem_range.1 hs) (Finset.mem_range.1 ha) hp,
    h.f s a p' (Finset.mem_range.1 hs) (Finset.mem_range.1 ha) hp']

/-- the new site tensor of a local step is a left isometry (isometry clause of the kernel contract) -/
theorem LocalLeft.iso (h : LocalLeft dqr A Anext qd qL qR A' Anext' qb) (hshape : ∀ B, ShapeAt dqr B)
    (hiso : ∀ B, IsoAt dqr B)
    (hA : T3Wf A qd qL qR) (hd : 0 < qd.length) (hL : 0 < qL.length) (hR : 0 < qR.length) : LeftIso A' := by
  obtain ⟨Q, R, hrun, hRn, hA', hN'⟩ := h
  have H := qrInput_flattenLeft hA hd hL hR
  have hres := result_of_run (fun B _ => hshape B) H hrun
  refine LeftIso.congr hA' ?_
  intro p p' hp hp'
  have hp1 : p < Q.n := hp
  have hp1' : p' < Q.n := hp'
  have := isometry' (fun B _ => hshape B) (fun B _ => hiso B) H hrun hp1 hp1'
  rw [← this]
  show _ = ∑ i ∈ range (A.d0 * A.d1), _
  rw [sum_fused]
  rfl

end iso
end Ptn.Ortho

import PtnModel.Proofs.SpinExplTermInt0000
import PtnModel.Proofs.SpinExplTermInt1111
import PtnModel.Proofs.SpinExplTermInt0101
import PtnModel.Proofs.SpinExplTermInt1010
import PtnModel.Proofs.SpinExplTermInt0110
import PtnModel.Proofs.SpinExplTermInt1001
/-!
# Explicit spin-orbital molecular graph: the edge of every interaction term, structural part

For spin-orbitals `(i,σ) < (j,τ)`, `(k,μ) < (l,υ)` with a spin pattern accepted by `get_vint_coeff`, the label-level mirror `stermE` of
`_spin_molecular_hamiltonian_graph_add_term` on `a†_{iσ} a†_{jτ} a_{lυ} a_{kμ}` never raises and yields one edge from a left-forest
node to a right-forest node one layer apart, inside the index ranges of the node tables, with consistent charges (`SOk`).
The six admissible spin patterns are treated in `SpinExplTermInt<σ τ μ υ>.lean`, one lemma per relative order of the sites.
-/
set_option linter.unusedSectionVars false
set_option linter.unusedSimpArgs false
set_option linter.unusedVariables false
set_option linter.unusedTactic false
set_option linter.unreachableTactic false

namespace Ptn.Ham
open Ptn.Og List Ptn.Ham2

/-- **every interaction term** is inserted as one edge from a left-forest node to a right-forest node one layer apart, inside the
index ranges of the tables, charge consistent -/
theorem sint_ok (L : Int) (hL : 2 ≤ L) (i s j t k m l u : Int) (hi : 0 ≤ i) (hjL : j < L) (hk : 0 ≤ k) (hlL : l < L)
    (hs : s = 0 ∨ s = 1) (ht : t = 0 ∨ t = 1) (hm : m = 0 ∨ m = 1) (hu : u = 0 ∨ u = 1)
    (hij : i < j ∨ (i = j ∧ s < t)) (hkl : k < l ∨ (k = l ∧ m < u)) (hv : (s = m ∧ t = u) ∨ (s = u ∧ t = m)) :
    ∃ x, stermE L (sortTrips [(i, s, mC), (j, t, mC), (l, u, mA), (k, m, mA)]) = .ok x ∧
      SOk L x ∧ isLeft x.1 = true ∧ isLeft x.2.1 = false := by
  rcases hs with rfl | rfl <;> rcases ht with rfl | rfl <;> rcases hm with rfl | rfl <;> rcases hu with rfl | rfl <;>
  first
  | (exfalso; omega)
  | exact sint_ok_0000 L hL i j k l hi hjL hk hlL (by omega) (by omega)
  | exact sint_ok_1111 L hL i j k l hi hjL hk hlL (by omega) (by omega)
  | exact sint_ok_0101 L hL i j k l hi hjL hk hlL (by omega) (by omega)
  | exact sint_ok_1010 L hL i j k l hi hjL hk hlL (by omega) (by omega)
  | exact sint_ok_0110 L hL i j k l hi hjL hk hlL (by omega) (by omega)
  | exact sint_ok_1001 L hL i j k l hi hjL hk hlL (by omega) (by omega)

theorem sintLab_eq (L : Int) (hL : 2 ≤ L) (i s j t k m l u : Int) (hi : 0 ≤ i) (hjL : j < L) (hk : 0 ≤ k) (hlL : l < L)
    (hs : s = 0 ∨ s = 1) (ht : t = 0 ∨ t = 1) (hm : m = 0 ∨ m = 1) (hu : u = 0 ∨ u = 1)
    (hij : i < j ∨ (i = j ∧ s < t)) (hkl : k < l ∨ (k = l ∧ m < u)) (hv : (s = m ∧ t = u) ∨ (s = u ∧ t = m)) :
    stermE L (sortTrips [(i, s, mC), (j, t, mC), (l, u, mA), (k, m, mA)]) = .ok (sintLab L i s j t k m l u) := by
  obtain ⟨x, hx, -⟩ := sint_ok L hL i s j t k m l u hi hjL hk hlL hs ht hm hu hij hkl hv
  have : sintLab L i s j t k m l u = x := by unfold sintLab; rw [hx]; rfl
  rw [this, hx]

theorem sintLab_ok (L : Int) (hL : 2 ≤ L) (i s j t k m l u : Int) (hi : 0 ≤ i) (hjL : j < L) (hk : 0 ≤ k) (hlL : l < L)
    (hs : s = 0 ∨ s = 1) (ht : t = 0 ∨ t = 1) (hm : m = 0 ∨ m = 1) (hu : u = 0 ∨ u = 1)
    (hij : i < j ∨ (i = j ∧ s < t)) (hkl : k < l ∨ (k = l ∧ m < u)) (hv : (s = m ∧ t = u) ∨ (s = u ∧ t = m)) :
    SOk L (sintLab L i s j t k m l u) ∧ isLeft (sintLab L i s j t k m l u).1 = true ∧
      isLeft (sintLab L i s j t k m l u).2.1 = false := by
  obtain ⟨x, hx, h⟩ := sint_ok L hL i s j t k m l u hi hjL hk hlL hs ht hm hu hij hkl hv
  have : sintLab L i s j t k m l u = x := by unfold sintLab; rw [hx]; rfl
  rw [this]
  exact h

/-- non-vacuity: `a†_{0↑} a†_{2↓} a_{4↓} a_{1↑}` on `L = 5` sites -/
example : stermE 5 (sortTrips [(0, 0, mC), (2, 1, mC), (4, 1, mA), (1, 0, mA)]) =
    .ok ((4, [0, 0, 1, 0], 2), (6, [4, 1], 3), 1) := by decide

end Ptn.Ham

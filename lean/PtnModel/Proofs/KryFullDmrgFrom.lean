import PtnModel.Proofs.KryFullDmrgSweep
/-!
# The ground-state energy is reported from the sweep with the hit on

`dmrg1_ground_from` : if in sweep number `j` (counted from `0`) the state met by the left-to-right half at a site `m ≤ L-2`
satisfies `CentreHit` for a lower bound `lam0` of the quadratic form, the energies reported by the sweeps `j, j+1, …` all
equal `lam0`.  (`iterate_add`: splitting an iteration; `iterate_sweep_prefix`: the sweeps only append to the list of energies.)
-/
set_option linter.unusedSectionVars false
namespace Ptn.Evo
open Ptn Ptn.BondOps Ptn.Ortho Ptn.Env Ptn.Krylov Ptn.Dense Finset

theorem iterate_add {σ : Type} (f : σ → Except Err σ) (a : Nat) : ∀ (b : Nat) (s r : σ),
    iterate f (a + b) s = .ok r ↔ ∃ t, iterate f a s = .ok t ∧ iterate f b t = .ok r
  | 0, s, r => by
    constructor
    · intro h; exact ⟨r, h, rfl⟩
    · rintro ⟨t, h1, h2⟩
      unfold iterate at h2
      injection h2 with h2; subst h2; exact h1
  | b + 1, s, r => by
    rw [← Nat.add_assoc, iterate_succ_back]
    constructor
    · rintro ⟨s', h1, h2⟩
      obtain ⟨t, h3, h4⟩ := (iterate_add f a b s s').1 h1
      exact ⟨t, h3, (iterate_succ_back f b t r).2 ⟨s', h4, h2⟩⟩
    · rintro ⟨t, h1, h2⟩
      obtain ⟨s', h3, h4⟩ := (iterate_succ_back f b t r).1 h2
      exact ⟨s', (iterate_add f a b s s').2 ⟨t, h1, h3⟩, h4⟩

variable {𝕜 : Type} [RCLike 𝕜] [DecidableEq 𝕜]
variable {k : EvoKernels 𝕜 ℝ} {H : MPO 𝕜} {qd : List Int} {numiter : Nat}

/-- the sweeps only append to the list of energies -/
theorem iterate_sweep_prefix : ∀ (n : Nat) (t t' : Sweep 𝕜 × List ℝ),
    iterate (dmrg1Sweep k H qd numiter) n t = .ok t' → ∃ l, t'.2 = t.2 ++ l
  | 0, t, t', h => by
    unfold iterate at h
    injection h with h; subst h
    exact ⟨[], by simp⟩
  | n + 1, t, t', h => by
    unfold iterate at h
    rw [bind_ok] at h
    obtain ⟨t1, h1, h2⟩ := h
    obtain ⟨_, _, _, e2, _, _, _, _, h4⟩ := dmrg1Sweep_unfold h1
    obtain ⟨l, hl⟩ := iterate_sweep_prefix n t1 t' h2
    refine ⟨e2 :: l, ?_⟩
    rw [hl, h4]
    simp

/-- **From the sweep in which the centre of a complete state overlapping a ground state is optimised on, single-site DMRG
reports the exact ground-state energy.** -/
theorem dmrg1_ground_from (ctx : SweepCtx k H qd numiter) (hL2 : 2 ≤ H.A.length) {ψ ψ' : MPS 𝕜} (hqd : ψ.qd = qd)
    (hadm : Admissible ψ) {numsweeps : Nat} {en : List ℝ}
    (h : dmrgSinglesite k H ψ numsweeps numiter = .ok (ψ', en)) {lam0 : ℝ} (hlow : DenseLower H qd.length lam0)
    {m : Nat} (hm : m + 1 < H.A.length) {j : Nat} (hj : j < numsweeps)
    (hhit : ∀ s0 nrm sj esj t, prologue k H ψ = .ok (s0, nrm) →
      iterate (dmrg1Sweep k H qd numiter) j (s0, []) = .ok (sj, esj) →
      foldIdx (dmrg1Left k H qd numiter) (List.range m) (sj, (0 : ℝ)) = .ok t → CentreHit k H qd numiter lam0 t.1 m) :
    ∀ i (hi : i < en.length), j ≤ i → en[i] = lam0 := by
  obtain ⟨s0, nrm, s, hp, hit, rfl⟩ := dmrgSinglesite_unfold h
  obtain ⟨ψ1, E0, ho, hcur, hinv0⟩ := prologue_inv ctx hqd hadm hp
  rw [hqd] at hit
  obtain ⟨b, rfl⟩ : ∃ b, numsweeps = j + (1 + b) := ⟨numsweeps - j - 1, by omega⟩
  obtain ⟨⟨sj, esj⟩, hitj, hrest⟩ := (iterate_add _ j (1 + b) _ _).1 hit
  obtain ⟨⟨s1, es1⟩, hit1, hitb⟩ := (iterate_add _ 1 b _ _).1 hrest
  have hok0 : SweepsOk H qd E0 ((s0, []) : Sweep 𝕜 × List ℝ) :=
    ⟨E0, hinv0, le_refl _, rfl, fun e he => absurd he (by simp), List.Pairwise.nil⟩
  obtain ⟨⟨Ej, hinvj, _, _, _, _⟩, hlenj⟩ := sweeps_inv ctx hL2 j (s0, []) (sj, esj) hok0 hitj
  have hs1 : dmrg1Sweep k H qd numiter (sj, esj) = .ok (s1, es1) := by
    unfold iterate at hit1
    rw [bind_ok] at hit1
    obtain ⟨t, h1, h2⟩ := hit1
    unfold iterate at h2
    injection h2 with h2
    subst h2
    exact h1
  obtain ⟨hes1, _⟩ := dmrg1Sweep_ground ctx hL2 hinvj hs1 hlow hm (fun t ht => hhit s0 nrm sj esj t hp hitj ht)
  obtain ⟨l, hl⟩ := iterate_sweep_prefix b (s1, es1) (s, en) hitb
  have hen : en = esj ++ lam0 :: l := by
    have : en = es1 ++ l := hl
    rw [this, hes1]; simp
  have hjlen : esj.length = j := by simpa using hlenj
  obtain ⟨⟨E', _, _, _, hall, hpw⟩, _⟩ := sweeps_inv ctx hL2 (j + (1 + b)) (s0, []) (s, en) hok0 hit
  have hjlt : j < en.length := by rw [hen]; simp; omega
  have henj : en[j] = lam0 := by
    have : en[j]? = some lam0 := by
      rw [hen, List.getElem?_append_right (by omega)]; simp [hjlen]
    rw [List.getElem?_eq_getElem hjlt] at this
    exact Option.some.inj this
  intro i hi hji
  rcases Nat.lt_or_eq_of_le hji with hlt | rfl
  · have h1 : en[j] ≥ en[i] := List.pairwise_iff_getElem.1 hpw j i hjlt hi hlt
    have h2 : lam0 ≤ en[i] := (hall _ (List.getElem_mem hi)).2.2 lam0 hlow
    rw [henj] at h1
    exact le_antisymm h1 h2
  · exact henj

end Ptn.Evo

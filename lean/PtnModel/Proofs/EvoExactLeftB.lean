import PtnModel.Proofs.EvoExactTransL
import PtnModel.Proofs.EvoExactTransR
import PtnModel.Proofs.EvoExactComplete
/-!
# One call of `tdvp1Left` on a complete manifold

`tdvp1Left … s i` = one-site step `K_i(τ)` (`τ = half·dt`), QR of the result, new left block, zero-site step `S_i(-τ)`, push
into site `i+1`.
* `tdvp1Left_cancel` : if site `i` has the dimensions of a square left isometry, `S_i(-τ)` undoes `K_i(τ)`: the call only
  moves the centre — same dense state.
* `tdvp1Left_tail`   : if site `i+1` has the dimensions of a square right isometry, the part of the call after `K_i(τ)` leaves
  the new centre tensor in the form `E(+τ H_eff) X'` where `X'` is the centre tensor of the plain gauge move.
-/
set_option linter.unusedSectionVars false

namespace Ptn.Evo
open Ptn Ptn.BondOps Ptn.Ortho Ptn.Env Ptn.Krylov Ptn.Dense Finset

variable {𝕜 : Type} [RCLike 𝕜] [DecidableEq 𝕜]
variable {k : EvoKernels 𝕜 ℝ} {H : MPO 𝕜} {qd : List Int} {numiter : Nat}

omit [DecidableEq 𝕜] in
/-- the zero-site map only reads the in-range entries of the right block -/
theorem localBondFun_congr_right {L R R' : T3 𝕜} {m n : Nat} (hF : BondFits L R m n)
    (r0 : R'.d0 = R.d0) (r1 : R'.d1 = R.d1) (r2 : R'.d2 = R.d2)
    (hf : ∀ a w b, a < R.d0 → w < R.d1 → b < R.d2 → R'.f a w b = R.f a w b)
    (u : List 𝕜) (hu : u.length = m * n) (i : Nat) (hi : i < m * n) :
    vget (localBondFun L R' m n u) i = vget (localBondFun L R m n u) i := by
  have hF' : BondFits L R' m n := ⟨r0.trans hF.r0, r2.trans hF.r2, hF.l0, hF.l2, hF.w.trans r1.symm⟩
  rw [actsAs_localBondFun hF' u hu i hi, actsAs_localBondFun hF u hu i hi]
  refine sum_congr rfl fun j hj => ?_
  congr 1
  unfold bondMat bondKer
  refine sum_congr rfl fun w hw => ?_
  rw [hf (j % n) w (i % n) (by rw [hF.r0]; exact Ortho.mod_lt_of_lt_mul (mem_range.1 hj))
    (by rw [← hF.w]; exact mem_range.1 hw) (by rw [hF.r2]; exact Ortho.mod_lt_of_lt_mul hi)]

/-- an exhausted zero-site step makes the new bond matrix a spectral function of the old one -/
theorem bondSpec_of_run (ctx : SweepCtx k H qd numiter) {BL BR : T3 𝕜} {C C1 : Mat 𝕜} {δ : 𝕜}
    (hFB : BondFits BL BR C.m C.n) (hHB : BondHermitian BL BR C.m C.n)
    (hrun : localBondStep k BL BR C δ numiter = .ok C1)
    (hex : C15.Exhausted (localBondFun BL BR C.m C.n) k.cnorm (flat2 C) numiter) :
    C1.m = C.m ∧ C1.n = C.n ∧ Spec (C.m * C.n) (localBondFun BL BR C.m C.n) k.dexp (-δ) (flat2 C) (flat2 C1) := by
  obtain ⟨c0, c1⟩ := bondStep_dims hrun
  obtain ⟨y, hy, rfl⟩ := bondStep_unfold hrun
  have hA := isHermitian_localBondFun hFB hHB
  have hM := actsAs_localBondFun hFB
  have hHM := herm_matrix_of_actsAs hA hM
  have hvl : (flat2 C).length = C.m * C.n := length_flat2 _
  rw [← hvl] at hM hHM
  obtain ⟨hyl, hsp⟩ := spec_of_run ctx.norm hM hHM (ctx.eigh _ _) hex hy
  rw [hvl] at hyl hsp
  refine ⟨c0, c1, ?_⟩
  rw [flat2_tab, flat2_unflat2 hyl]
  exact hsp

/-- the plain gauge move after the one-site step keeps the dense state -/
theorem tail_amp (ctx : SweepCtx k H qd numiter) {dt : 𝕜} {s : Sweep 𝕜} {i : Nat}
    (h : Canon H qd s i) (hi1 : i + 1 < H.A.length) {A1 : T3 𝕜} {Q C : Mat 𝕜} {qb : List Int} {BLn : T3 𝕜}
    (h1 : localHamiltonianStep k (getBL s i) (getBR s i) (H.A.getD i zeroT4) (getA s i) (k.half * dt) numiter = .ok A1)
    (h2 : BondOps.qr k.dqr A1.flattenLeft.tab (QN.flatten2 qd (getQ s i)) (getQ s (i + 1)) = .ok (Q, C, qb))
    (h3 : Op.opStepLeft (T3.ofFlattenLeft Q A1.d0 A1.d1).tab (T3.ofFlattenLeft Q A1.d0 A1.d1).tab (H.A.getD i zeroT4)
      (getBL s i) = .ok BLn) :
    SameAmp qd H.A.length (setA s i A1)
      (⟨(s.A.setIfInBounds i (T3.ofFlattenLeft Q A1.d0 A1.d1).tab).setIfInBounds (i + 1) (pushLeft (getA s (i + 1)) C),
        s.qD.setIfInBounds (i + 1) qb, s.BL.setIfInBounds (i + 1) BLn, s.BR⟩ : Sweep 𝕜) := by
  obtain ⟨hsa, a0, a1, a2⟩ := centre_step_canon h h1
  have hics : i < s.A.size := by rw [h.wf.sizeA]; omega
  set sa : Sweep 𝕜 := ⟨s.A.setIfInBounds i A1, s.qD, s.BL, s.BR⟩ with hsadef
  have gsa : getA sa i = A1 := getD_setIfInBounds_eq _ _ _ hics
  have gsa1 : getA sa (i + 1) = getA s (i + 1) := by
    show (s.A.setIfInBounds i A1).getD (i + 1) emptyT3 = _
    rw [getD_setIfInBounds_ne _ _ _ (by omega)]; rfl
  obtain ⟨s0, s1, s2⟩ := h.wf.shape i (by omega)
  obtain ⟨n0, n1, n2⟩ := h.wf.shape (i + 1) hi1
  have hm : 0 < A1.flattenLeft.tab.m := by
    show 0 < A1.d0 * A1.d1
    rw [a0, a1, s0, s1]; exact Nat.mul_pos ctx.dpos (h.wf.qpos i (by omega))
  have hn : 0 < A1.flattenLeft.tab.n := by
    show 0 < A1.d2
    rw [a2, s2]; exact h.wf.qpos (i + 1) (by omega)
  have hf := qr_facts ctx.qr.contract hm hn h2
  set Ai : T3 𝕜 := (T3.ofFlattenLeft Q A1.d0 A1.d1).tab with hAi
  have hAiIso : LeftIso Ai := leftQR_iso hf
  have hAi2 : Ai.d2 = qb.length := hf.Qn
  have hA1n : A1.d2 = (getA s (i + 1)).d1 := by rw [a2, s2, n1]
  obtain ⟨_, hamp⟩ := canon_left hsa ctx.hH hi1 (X' := Ai) (Y' := pushLeft (getA s (i + 1)) C) (qb := qb)
    (BLn := BLn) ⟨a0.trans s0, a1.trans s1, hAi2⟩ ⟨n0, hf.Rm, n2⟩ hf.pos hAiIso
    (fun a0' a a1' y ha0 ha ha1 hy => by
      rw [gsa, gsa1] at *
      refine leftQR_prod hf (Y := getA s (i + 1)) (Y' := pushLeft (getA s (i + 1)) C) ?_
        (by rw [a0, s0]; exact ha0) ha (by rw [n0]; exact ha1) hy
      intro s' p c hs' hp hc
      rw [pushLeft_f _ _ hs' (by rw [hf.Rm]; exact hp) hc, hA1n]
      exact sum_congr rfl fun b _ => mul_comm _ _)
    (by rw [show getBL sa i = getBL s i from rfl]; exact h3)
  have hfin : (⟨(sa.A.setIfInBounds i Ai).setIfInBounds (i + 1) (pushLeft (getA s (i + 1)) C),
      sa.qD.setIfInBounds (i + 1) qb, sa.BL.setIfInBounds (i + 1) BLn, sa.BR⟩ : Sweep 𝕜) =
      ⟨(s.A.setIfInBounds i Ai).setIfInBounds (i + 1) (pushLeft (getA s (i + 1)) C),
        s.qD.setIfInBounds (i + 1) qb, s.BL.setIfInBounds (i + 1) BLn, s.BR⟩ := by
    simp [hsadef]
  rw [hfin] at hamp
  exact hamp

/-- the spectral relation of the zero-site step, transported into site `i+1` -/
theorem tail_spec (ctx : SweepCtx k H qd numiter) {dt : 𝕜} {s : Sweep 𝕜} {i : Nat}
    (h : Canon H qd s i) (hi1 : i + 1 < H.A.length) (hsqR : SqR qd s (i + 1))
    {A1 : T3 𝕜} {Q C : Mat 𝕜} {qb : List Int} {BLn : T3 𝕜} {C1 : Mat 𝕜}
    (h1 : localHamiltonianStep k (getBL s i) (getBR s i) (H.A.getD i zeroT4) (getA s i) (k.half * dt) numiter = .ok A1)
    (h2 : BondOps.qr k.dqr A1.flattenLeft.tab (QN.flatten2 qd (getQ s i)) (getQ s (i + 1)) = .ok (Q, C, qb))
    (h3 : Op.opStepLeft (T3.ofFlattenLeft Q A1.d0 A1.d1).tab (T3.ofFlattenLeft Q A1.d0 A1.d1).tab (H.A.getD i zeroT4)
      (getBL s i) = .ok BLn)
    (h4 : localBondStep k BLn (getBR s i) C (-(k.half * dt)) numiter = .ok C1)
    (hX0 : C15.Exhausted (localBondFun BLn (getBR s i) C.m C.n) k.cnorm (flat2 C) numiter)
    (hF : LocalFits BLn (getBR s (i + 1)) (H.A.getD (i + 1) zeroT4) (getA s (i + 1)).d0 C.m (getA s (i + 1)).d2) :
    Spec ((getA s (i + 1)).d0 * C.m * (getA s (i + 1)).d2)
      (localHFun BLn (getBR s (i + 1)) (H.A.getD (i + 1) zeroT4) (getA s (i + 1)).d0 C.m (getA s (i + 1)).d2) k.dexp
      (-(-(k.half * dt))) (flat3 (pushLeft (getA s (i + 1)) C)) (flat3 (pushLeft (getA s (i + 1)) C1)) := by
  obtain ⟨a0, a1, a2⟩ := localStep_dims h1
  obtain ⟨s0, s1, s2⟩ := h.wf.shape i (by omega)
  obtain ⟨n0, n1, n2⟩ := h.wf.shape (i + 1) hi1
  have hm : 0 < A1.flattenLeft.tab.m := by
    show 0 < A1.d0 * A1.d1
    rw [a0, a1, s0, s1]; exact Nat.mul_pos ctx.dpos (h.wf.qpos i (by omega))
  have hn : 0 < A1.flattenLeft.tab.n := by
    show 0 < A1.d2
    rw [a2, s2]; exact h.wf.qpos (i + 1) (by omega)
  have hf := qr_facts ctx.qr.contract hm hn h2
  set Ai : T3 𝕜 := (T3.ofFlattenLeft Q A1.d0 A1.d1).tab with hAi
  have hAi2 : Ai.d2 = qb.length := hf.Qn
  have hCm : C.m = Ai.d2 := hf.Rm.trans hAi2.symm
  have hCn : C.n = A1.d2 := hf.Rn
  set An : T3 𝕜 := getA s (i + 1) with hAn
  have hCnA : C.n = An.d1 := by rw [hCn, a2, s2, n1]
  -- a. the zero-site run
  obtain ⟨hF0, hH0⟩ := canon_local h ctx.hH ctx.herm
  have hF' : LocalFits (getBL s i) (getBR s i) (H.A.getD i zeroT4) Ai.d0 Ai.d1 A1.d2 := by
    show LocalFits _ _ _ A1.d0 A1.d1 A1.d2
    rw [a0, a1, a2]; exact hF0
  have hH' : LocalHermitian (getBL s i) (getBR s i) (H.A.getD i zeroT4) Ai.d0 Ai.d1 A1.d2 := by
    show LocalHermitian _ _ _ A1.d0 A1.d1 A1.d2
    rw [a0, a1, a2]; exact hH0
  obtain ⟨hFB, hHB⟩ := bondHermitian_left hF' hH' h3
  have hFB' : BondFits BLn (getBR s i) C.m C.n := by rw [hCm, hCn]; exact hFB
  have hHB' : BondHermitian BLn (getBR s i) C.m C.n := by rw [hCm, hCn]; exact hHB
  obtain ⟨c0, c1, hsp⟩ := bondSpec_of_run ctx hFB' hHB' h4 hX0
  -- b. the stored right block is the freshly computed one
  have hW : H.A[i + 1]? = some (H.A.getD (i + 1) zeroT4) := by
    rw [List.getD_eq_getElem?_getD, List.getElem?_eq_getElem hi1]; rfl
  have hAc : (cur qd s).A[i + 1]? = some An := cur_getElem? qd s (by rw [h.wf.sizeA]; exact hi1)
  obtain ⟨BRn', hBRn', hblk'⟩ := right_step_dense h.shaped ctx.hH h.len (i := i + 1) (by rw [h.len]; exact hi1) hAc hW
    (h.br (i + 1) (by omega) hi1)
  obtain ⟨r0, r1, r2, rf⟩ := isRightBlock_unique hblk' (h.br i (Nat.le_refl i) (by omega))
  have hsp' : Spec (C.m * C.n) (localBondFun BLn BRn' C.m C.n) k.dexp (-(-(k.half * dt))) (flat2 C) (flat2 C1) :=
    hsp.congr_fun (fun u hu j hj => localBondFun_congr_right hFB' r0 r1 r2 rf u hu j hj)
  rw [hCnA] at hsp'
  -- c. transport through the square right isometry
  have hsq : An.d1 = An.d0 * An.d2 := by
    rw [n0, n1, n2]; exact hsqR
  refine spec_rightPush (R := An) (h.riso (i + 1) (by omega) hi1) hsq hF hBRn' (Cx := C) (Cy := C1) rfl hCnA c0
    (c1.trans hCnA) rfl rfl rfl rfl c0 rfl ?_ ?_ hsp'
  · intro s' a b hs' ha hb
    rw [pushLeft_f An C hs' ha hb]
    exact sum_congr rfl fun p _ => mul_comm _ _
  · intro s' a b hs' ha hb
    rw [pushLeft_f An C1 hs' (by rw [c0]; exact ha) hb]
    exact sum_congr rfl fun p _ => mul_comm _ _

/-- **S2.**  If site `i+1` has the dimensions of a square right isometry: after the one-site step (result `A1`) the rest of
`tdvp1Left` produces a state whose centre tensor at `i+1` is `E(-(-τ) · H_eff) X'`, where replacing it by `X'` gives the dense
state of `s[i := A1]`. -/
theorem tdvp1Left_tail (ctx : SweepCtx k H qd numiter) {dt : 𝕜} {s s' : Sweep 𝕜} {i : Nat}
    (h : Canon H qd s i) (hi1 : i + 1 < H.A.length) (hsqR : SqR qd s (i + 1))
    (hrun : tdvp1Left k H qd dt numiter s i = .ok s') (hex : LeftExact false k H qd dt numiter s i) :
    SameDims s s' ∧ MidExact k H numiter s i ∧
    ∃ A1 X' : T3 𝕜,
      localHamiltonianStep k (getBL s i) (getBR s i) (H.A.getD i zeroT4) (getA s i) (k.half * dt) numiter = .ok A1 ∧
      SiteSpec k H s' (i + 1) (-(-(k.half * dt))) X' ∧
      SameAmp qd H.A.length (setA s i A1) (setA s' (i + 1) X') := by
  have hcan' : Canon H qd s' (i + 1) := tdvp1Left_canon ctx h hi1 hrun
  obtain ⟨A1, Q, C, qb, BLn, C1, h1, h2, h3, h4, hc, hs'⟩ := tdvp1Left_unfold hrun
  obtain ⟨hX1, hX0, hsq, _⟩ := hex A1 Q C qb BLn h1 h2 h3
  have his : i < s.A.size := by rw [h.wf.sizeA]; omega
  have hi1s : i + 1 < s.A.size := by rw [h.wf.sizeA]; omega
  obtain ⟨c0, c1⟩ := bondStep_dims h4
  set Ai : T3 𝕜 := (T3.ofFlattenLeft Q A1.d0 A1.d1).tab with hAi
  set An : T3 𝕜 := getA s (i + 1) with hAn
  -- reading the state `s'`
  have eAn : getA s' (i + 1) = pushLeft An C1 := by
    rw [hs']
    show ((s.A.setIfInBounds i Ai).setIfInBounds (i + 1) (pushLeft An C1)).getD (i + 1) emptyT3 = _
    rw [getD_set2 s.A Ai (pushLeft An C1) emptyT3 his hi1s (i + 1), if_pos rfl]
  have hs'Q : ∀ m, getQ s' m = if m = i + 1 then qb else getQ s m := by
    intro m; rw [hs']; exact getD_set1 s.qD qb [] (by rw [h.wf.sizeQ]; omega) m
  have eBL : getBL s' (i + 1) = BLn := by
    rw [hs']; exact getD_setIfInBounds_eq _ _ _ (by rw [h.sizeBL]; omega)
  have eBR : getBR s' (i + 1) = getBR s (i + 1) := by rw [hs']; rfl
  refine ⟨?_, hX1, A1, pushLeft An C, h1, ?_, ?_⟩
  · intro j
    rw [hs'Q]
    by_cases e : j = i + 1
    · rw [if_pos e, e]; exact hsq
    · rw [if_neg e]
  · obtain ⟨hF, _⟩ := canon_local hcan' ctx.hH ctx.herm
    rw [eAn, eBL, eBR] at hF
    have hF' : LocalFits BLn (getBR s (i + 1)) (H.A.getD (i + 1) zeroT4) An.d0 C.m An.d2 := by
      rw [← c0]; exact hF
    have hsp := tail_spec ctx h hi1 hsqR h1 h2 h3 h4 hX0 hF'
    unfold SiteSpec
    rw [eAn, eBL, eBR]
    refine ⟨rfl, c0.symm, rfl, ?_⟩
    show Spec (An.d0 * C1.m * An.d2) (localHFun BLn (getBR s (i + 1)) (H.A.getD (i + 1) zeroT4) An.d0 C1.m An.d2) k.dexp
      (-(-(k.half * dt))) (flat3 (pushLeft An C)) (flat3 (pushLeft An C1))
    rw [c0]
    exact hsp
  · have hamp := tail_amp ctx h hi1 h1 h2 h3
    have hfin : setA s' (i + 1) (pushLeft An C) =
        (⟨(s.A.setIfInBounds i Ai).setIfInBounds (i + 1) (pushLeft An C),
          s.qD.setIfInBounds (i + 1) qb, s.BL.setIfInBounds (i + 1) BLn, s.BR⟩ : Sweep 𝕜) := by
      rw [hs']
      simp [setA]
    rw [hfin]
    exact hamp

end Ptn.Evo

import PtnModel.Proofs.EvoRevDefs
/-!
# Single-site TDVP keeps the sweep invariant for an arbitrary complex time step; QR gauge freedom

`EvoTdvp.lean` proves that the loop bodies of a single-site TDVP step keep `DInv` (sweep invariant, norm one, energy) for a
purely imaginary time step.  The sweep invariant `Canon` alone is kept for every time step:

* `centre_step_canon` : a local step at the centre;
* `tdvp1Left_canon`, `tdvp1Right_canon` : the two loop bodies;
* `tdvp1Step_canon`   : a complete time step.

Uniqueness of the QR factorisation up to a unitary on the bond, with the unitary as a function and `IsU`:

* `qr_gauge_left'`  : `Q' = P · U`, `C' = Uᴴ · C1` (left isometries);
* `qr_gauge_right`  : `Q' = Vᴴ · P`, `C' = C1 · V` (right isometries), by transposition;
* `isU_star`        : the entrywise conjugate of a unitary is unitary.
-/
set_option linter.unusedSectionVars false

namespace Ptn.Evo
open Ptn Ptn.Krylov Ptn.Dense Ptn.BondOps Ptn.Ortho Ptn.Env Finset

variable {𝕜 : Type} [RCLike 𝕜] [DecidableEq 𝕜]
local notation "conj" => starRingEnd 𝕜

/-! ## QR gauge freedom -/

omit [DecidableEq 𝕜] in
/-- `qr_gauge_left` with the unitary as a function and `IsU` -/
theorem qr_gauge_left' {P Q' : T3 𝕜} {C1 C' Cinv : Mat 𝕜} (hP : LeftIso P) (hQ' : LeftIso Q')
    (q0 : Q'.d0 = P.d0) (q1 : Q'.d1 = P.d1) (q2 : Q'.d2 = P.d2)
    (hprod : ∀ s a j, s < P.d0 → a < P.d1 → j < C1.n →
      ∑ p ∈ range P.d2, Q'.f s a p * C'.f p j = ∑ q ∈ range P.d2, P.f s a q * C1.f q j)
    (hinv : ∀ p p', p < P.d2 → p' < P.d2 → ∑ j ∈ range C1.n, C'.f p j * Cinv.f j p' = if p = p' then 1 else 0) :
    ∃ U : Nat → Nat → 𝕜, IsU P.d2 U ∧
      (∀ s a p, s < P.d0 → a < P.d1 → p < P.d2 → Q'.f s a p = ∑ q ∈ range P.d2, P.f s a q * U q p) ∧
      (∀ p j, p < P.d2 → j < C1.n → C'.f p j = ∑ r ∈ range P.d2, star (U r p) * C1.f r j) := by
  obtain ⟨U, _, _, hUU, hQU, hCU⟩ := qr_gauge_left hP hQ' q0 q1 q2 hprod hinv
  exact ⟨U.f, IsU.of_row hUU, hQU, hCU⟩

omit [DecidableEq 𝕜] in
/-- the entrywise conjugate of a unitary is unitary -/
theorem isU_star {D : Nat} {U : Nat → Nat → 𝕜} (h : IsU D U) : IsU D (fun q p => star (U q p)) := by
  constructor
  · intro q r hq hr
    have := congrArg star (h.row q r hq hr)
    rw [star_sum] at this
    simp only [star_mul', star_star] at this
    simp only [star_star]
    rw [this]
    split <;> simp
  · intro p p' hp hp'
    have := congrArg star (h.col p p' hp hp')
    rw [star_sum] at this
    simp only [star_mul', star_star] at this
    simp only [star_star]
    rw [this]
    split <;> simp

omit [DecidableEq 𝕜] in
/-- **QR gauge freedom (right).**  `P`, `Q'` right isometries of the same shape, `C' · Q' = C1 · P` (as tensors), `C'` has a
left inverse.  Then `Q' = Vᴴ · P` and `C' = C1 · V` for a unitary `V`. -/
theorem qr_gauge_right {P Q' : T3 𝕜} {C1 C' Cinv : Mat 𝕜} (hP : RightIso P) (hQ' : RightIso Q')
    (q0 : Q'.d0 = P.d0) (q1 : Q'.d1 = P.d1) (q2 : Q'.d2 = P.d2)
    (hprod : ∀ s x b, s < P.d0 → x < C1.m → b < P.d2 →
      ∑ p ∈ range P.d1, C'.f x p * Q'.f s p b = ∑ q ∈ range P.d1, C1.f x q * P.f s q b)
    (hinv : ∀ p p', p < P.d1 → p' < P.d1 → ∑ x ∈ range C1.m, Cinv.f p x * C'.f x p' = if p = p' then 1 else 0) :
    ∃ V : Nat → Nat → 𝕜, IsU P.d1 V ∧
      (∀ s p b, s < P.d0 → p < P.d1 → b < P.d2 → Q'.f s p b = ∑ q ∈ range P.d1, star (V q p) * P.f s q b) ∧
      (∀ x p, x < C1.m → p < P.d1 → C'.f x p = ∑ q ∈ range P.d1, C1.f x q * V q p) := by
  have hP' : LeftIso P.swap12 := (leftIso_swap_iff P).2 hP
  have hQ'' : LeftIso Q'.swap12 := (leftIso_swap_iff Q').2 hQ'
  obtain ⟨U, hU, hQU, hCU⟩ := qr_gauge_left' (P := P.swap12) (Q' := Q'.swap12)
    (C1 := ⟨C1.n, C1.m, fun i j => C1.f j i⟩) (C' := ⟨C'.n, C'.m, fun i j => C'.f j i⟩)
    (Cinv := ⟨Cinv.n, Cinv.m, fun i j => Cinv.f j i⟩) hP' hQ'' q0 q2 q1
    (fun s a j hs ha hj => by
      show ∑ p ∈ range P.d1, Q'.f s p a * C'.f j p = ∑ q ∈ range P.d1, P.f s q a * C1.f j q
      have := hprod s j a hs hj ha
      rw [sum_congr rfl fun p _ => mul_comm (Q'.f s p a) (C'.f j p),
        sum_congr rfl fun q _ => mul_comm (P.f s q a) (C1.f j q)]
      exact this)
    (fun p p' hp hp' => by
      show ∑ j ∈ range C1.m, C'.f j p * Cinv.f p' j = if p = p' then 1 else 0
      have := hinv p' p hp' hp
      rw [sum_congr rfl fun j _ => mul_comm (C'.f j p) (Cinv.f p' j), this]
      by_cases e : p = p'
      · rw [if_pos e, if_pos e.symm]
      · rw [if_neg e, if_neg fun e' => e e'.symm])
  refine ⟨fun q p => star (U q p), isU_star hU, ?_, ?_⟩
  · intro s p b hs hp hb
    have := hQU s b p hs hb hp
    show Q'.f s p b = _
    rw [show Q'.f s p b = Q'.swap12.f s b p from rfl, this]
    refine sum_congr rfl fun q _ => ?_
    show P.f s q b * U q p = star (star (U q p)) * P.f s q b
    rw [star_star, mul_comm]
  · intro x p hx hp
    have := hCU p x hp hx
    show C'.f x p = _
    rw [show C'.f x p = (⟨C'.n, C'.m, fun i j => C'.f j i⟩ : Mat 𝕜).f p x from rfl, this]
    refine sum_congr rfl fun q _ => ?_
    show star (U q p) * C1.f x q = C1.f x q * star (U q p)
    rw [mul_comm]

/-! ## the sweep invariant under single-site TDVP -/

variable {k : EvoKernels 𝕜 ℝ} {H : MPO 𝕜} {qd : List Int} {numiter : Nat}

/-- a local step at the centre keeps the sweep invariant (any time argument) -/
theorem centre_step_canon {s : Sweep 𝕜} {c : Nat} (h : Canon H qd s c) {δ : 𝕜} {A1 : T3 𝕜}
    (hrun : localHamiltonianStep k (getBL s c) (getBR s c) (H.A.getD c zeroT4) (getA s c) δ numiter = .ok A1) :
    Canon H qd (⟨s.A.setIfInBounds c A1, s.qD, s.BL, s.BR⟩ : Sweep 𝕜) c ∧
      A1.d0 = (getA s c).d0 ∧ A1.d1 = (getA s c).d1 ∧ A1.d2 = (getA s c).d2 := by
  have hd := localStep_dims hrun
  exact ⟨canon_replace h (X := A1) hd, hd⟩

/-- loop body of the left-to-right half sweep: the invariant moves from centre `i` to `i+1` (any complex `dt`) -/
theorem tdvp1Left_canon (ctx : SweepCtx k H qd numiter) {dt : 𝕜} {s s' : Sweep 𝕜} {i : Nat} (h : Canon H qd s i)
    (hi1 : i + 1 < H.A.length) (hrun : tdvp1Left k H qd dt numiter s i = .ok s') : Canon H qd s' (i + 1) := by
  obtain ⟨A1, Q, C, qb, BLn, C1, h1, h2, h3, h4, hc, rfl⟩ := tdvp1Left_unfold hrun
  -- 1. forward half step of the centre tensor
  obtain ⟨hsa, a0, a1, a2⟩ := centre_step_canon h h1
  have hics : i < s.A.size := by rw [h.wf.sizeA]; omega
  set sa : Sweep 𝕜 := ⟨s.A.setIfInBounds i A1, s.qD, s.BL, s.BR⟩ with hsadef
  have gsa : getA sa i = A1 := getD_setIfInBounds_eq _ _ _ hics
  obtain ⟨s0, s1, s2⟩ := h.wf.shape i (by omega)
  obtain ⟨n0, n1, n2⟩ := h.wf.shape (i + 1) hi1
  -- 2. QR of the evolved tensor
  have hm : 0 < A1.flattenLeft.tab.m := by
    show 0 < A1.d0 * A1.d1
    rw [a0, a1, s0, s1]; exact Nat.mul_pos ctx.dpos (h.wf.qpos i (by omega))
  have hn : 0 < A1.flattenLeft.tab.n := by
    show 0 < A1.d2
    rw [a2, s2]; exact h.wf.qpos (i + 1) (by omega)
  have hf := qr_facts ctx.qr.contract hm hn h2
  set Ai : T3 𝕜 := (T3.ofFlattenLeft Q A1.d0 A1.d1).tab with hAi
  have hAiIso : LeftIso Ai := leftQR_iso hf
  have hAi2 : Ai.d2 = qb.length := hf.Qn
  have hCm : C.m = Ai.d2 := hf.Rm.trans hAi2.symm
  have hCn : C.n = A1.d2 := hf.Rn
  -- 4. backward zero-site step: only the shape of the result matters
  obtain ⟨c0, c1⟩ := bondStep_dims h4
  -- 5. the intermediate state with centre tensor `B = Ai · C1`
  set B : T3 𝕜 := mulRight Ai C1 with hB
  have hBd : B.d0 = (getA sa i).d0 ∧ B.d1 = (getA sa i).d1 ∧ B.d2 = (getA sa i).d2 := by
    rw [gsa]; exact ⟨rfl, rfl, c1.trans hCn⟩
  have hcanB := canon_replace hsa (X := B) hBd
  have hsbeq : (⟨sa.A.setIfInBounds i B, sa.qD, sa.BL, sa.BR⟩ : Sweep 𝕜) = ⟨s.A.setIfInBounds i B, s.qD, s.BL, s.BR⟩ := by
    simp [hsadef]
  rw [hsbeq] at hcanB
  set sb : Sweep 𝕜 := ⟨s.A.setIfInBounds i B, s.qD, s.BL, s.BR⟩ with hsbdef
  have gsb : getA sb i = B := getD_setIfInBounds_eq _ _ _ hics
  have gsb1 : getA sb (i + 1) = getA s (i + 1) := by
    show (s.A.setIfInBounds i B).getD (i + 1) emptyT3 = _
    rw [getD_setIfInBounds_ne _ _ _ (by omega)]; rfl
  -- 6. gauge move
  have hY'f : ∀ a p y, a < (getA s (i + 1)).d0 → p < C1.m → y < (getA s (i + 1)).d2 →
      (pushLeft (getA s (i + 1)) C1).f a p y =
        ∑ b ∈ range (getA s (i + 1)).d1, (getA s (i + 1)).f a b y * C1.f p b := fun a p y ha hp hy =>
    pushLeft_f _ _ ha hp hy
  obtain ⟨hcan', _⟩ := canon_left hcanB ctx.hH hi1 (X' := Ai) (Y' := pushLeft (getA s (i + 1)) C1) (qb := qb)
    (BLn := BLn) ⟨a0.trans s0, a1.trans s1, hAi2⟩ ⟨n0, c0.trans hf.Rm, n2⟩ hf.pos hAiIso
    (fun a0' a a1' y ha0 ha ha1 hy => by
      rw [gsb, gsb1] at *
      show ∑ x ∈ range Ai.d2, Ai.f a0' a x * (pushLeft (getA s (i + 1)) C1).f a1' x y =
        ∑ x ∈ range C1.n, (∑ p ∈ range Ai.d2, Ai.f a0' a p * C1.f p x) * (getA s (i + 1)).f a1' x y
      have e1 : ∀ x ∈ range Ai.d2, Ai.f a0' a x * (pushLeft (getA s (i + 1)) C1).f a1' x y =
          ∑ b ∈ range C1.n, Ai.f a0' a x * ((getA s (i + 1)).f a1' b y * C1.f x b) := by
        intro x hx
        rw [hY'f a1' x y (by rw [n0]; exact ha1) (by rw [c0, hCm]; exact mem_range.1 hx) hy, hc, Finset.mul_sum]
      rw [Finset.sum_congr rfl e1, Finset.sum_comm]
      refine sum_congr rfl fun b _ => ?_
      rw [Finset.sum_mul]
      exact sum_congr rfl fun p _ => by ring)
    (by rw [show getBL sb i = getBL s i from rfl]; exact h3)
  have hfin : (⟨(sb.A.setIfInBounds i Ai).setIfInBounds (i + 1) (pushLeft (getA s (i + 1)) C1),
      sb.qD.setIfInBounds (i + 1) qb, sb.BL.setIfInBounds (i + 1) BLn, sb.BR⟩ : Sweep 𝕜) =
      ⟨(s.A.setIfInBounds i Ai).setIfInBounds (i + 1) (pushLeft (getA s (i + 1)) C1),
        s.qD.setIfInBounds (i + 1) qb, s.BL.setIfInBounds (i + 1) BLn, s.BR⟩ := by
    simp [hsbdef]
  rw [hfin] at hcan'
  exact hcan'

/-- loop body of the right-to-left half sweep: the invariant moves from centre `j+1` to `j` (any complex `dt`) -/
theorem tdvp1Right_canon (ctx : SweepCtx k H qd numiter) {dt : 𝕜} {s s' : Sweep 𝕜} {j : Nat} (h : Canon H qd s (j + 1))
    (hrun : tdvp1Right k H qd dt numiter s (j + 1) = .ok s') : Canon H qd s' j := by
  obtain ⟨Q, C, qb, BRn, C1, Ap2, h1, h2, h3, hc, h4, rfl⟩ := tdvp1Right_unfold hrun
  simp only [Nat.add_sub_cancel] at h4 hc ⊢
  have hi : j + 1 < H.A.length := h.hc
  have hjcs : j < s.A.size := by rw [h.wf.sizeA]; omega
  have hrm := right_move_canon ctx h h1 h2
  dsimp only at hrm
  obtain ⟨_, _, _, _, _, _, _, _, _, _, hcanC⟩ := hrm
  obtain ⟨c0, c1⟩ := bondStep_dims h3
  have hcan := hcanC C1 c0 c1
  set Ai : T3 𝕜 := (T3.ofFlattenLeft Q (getA s (j + 1)).d0 (getA s (j + 1)).d2).swap12.tab with hAi
  set sc : Sweep 𝕜 := ⟨(s.A.setIfInBounds (j + 1) Ai).setIfInBounds j (pushRight (getA s j) C1),
    s.qD.setIfInBounds (j + 1) (QN.neg qb), s.BL, s.BR.setIfInBounds j BRn⟩ with hscdef
  have gscA : getA sc j = pushRight (getA s j) C1 := by
    show ((s.A.setIfInBounds (j + 1) Ai).setIfInBounds j _).getD j emptyT3 = _
    exact getD_setIfInBounds_eq _ _ _ (by simpa using hjcs)
  have gscR : getBR sc j = BRn := by
    show (s.BR.setIfInBounds j BRn).getD j emptyT3 = _
    exact getD_setIfInBounds_eq _ _ _ (by rw [h.sizeBR]; omega)
  have h4' : localHamiltonianStep k (getBL sc j) (getBR sc j) (H.A.getD j zeroT4) (getA sc j) (k.half * dt) numiter =
      .ok Ap2 := by rw [gscA, gscR]; exact h4
  obtain ⟨hfinal, _⟩ := centre_step_canon hcan h4'
  have hst : (⟨sc.A.setIfInBounds j Ap2, sc.qD, sc.BL, sc.BR⟩ : Sweep 𝕜) =
      ⟨(s.A.setIfInBounds (j + 1) Ai).setIfInBounds j Ap2, s.qD.setIfInBounds (j + 1) (QN.neg qb), s.BL,
        s.BR.setIfInBounds j BRn⟩ := by
    simp [hscdef]
  rw [hst] at hfinal
  exact hfinal

/-- one complete time step keeps the invariant with centre `0` (any complex `dt`) -/
theorem tdvp1Step_canon (ctx : SweepCtx k H qd numiter) {dt : 𝕜} {s s' : Sweep 𝕜} (h : Canon H qd s 0)
    (hrun : tdvp1Step k H qd dt numiter s = .ok s') : Canon H qd s' 0 := by
  obtain ⟨s1, Al, h1, h2, h3⟩ := tdvp1Step_unfold hrun
  have hL : 0 < H.A.length := h.hc
  have hleft := foldIdx_range (tdvp1Left k H qd dt numiter) (fun i t => Canon H qd t i) (H.A.length - 1)
    (fun i hi t t' ht ht' => tdvp1Left_canon ctx ht (by omega) ht') s s1 h h1
  obtain ⟨hmid, _⟩ := centre_step_canon hleft h2
  exact foldIdx_down (tdvp1Right k H qd dt numiter) (fun i t => Canon H qd t i) (H.A.length - 1)
    (fun i hi t t' ht ht' => tdvp1Right_canon ctx ht ht') _ s' hmid h3

end Ptn.Evo

import PtnModel.Proofs.OgAdd
/-!
# Finite sequences of rewrites

A `Step` is one of the rewrites of the property; `runSteps` applies a list of them in order (as the driver op
`og.rewrite` does).  By induction over the list: validity is kept and the denotation is transformed by `semSteps`
(each `flip` reverses the words, each `add` adds the other operator, everything else leaves the denotation alone).
-/
set_option linter.unusedSectionVars false
namespace Ptn.Og
open List
variable {κ : Type} [CommRing κ] [DecidableEq κ]

inductive Step (κ : Type) where
  | flip
  | renameEdge (cur new : Int)
  | renameNode (cur new : Int)
  | mergeEdges (eid1 eid2 : Int) (d : Bool)
  | simplify
  | add (other : Graph κ) (sharedNids sharedEids : List Int)

def Step.run (s : Step κ) (g : Graph κ) : Except Err (Graph κ) :=
  match s with
  | .flip => .ok g.flip
  | .renameEdge cur new => g.renameEdgeId cur new
  | .renameNode cur new => g.renameNodeId cur new
  | .mergeEdges e1 e2 d => g.mergeEdges e1 e2 d
  | .simplify => g.simplify
  | .add other sn se => g.addWith other sn se

/-- apply the steps in order -/
def runSteps (steps : List (Step κ)) (g : Graph κ) : Except Err (Graph κ) := steps.foldlM (fun g s => s.run g) g

/-- side conditions of a step at the graph it is applied to: a merge names two different edges; an added graph is
valid, has (like the current graph) two different terminals and the same length, and the iteration orders cover the
shared ids -/
def Step.okAt (s : Step κ) (g : Graph κ) : Prop :=
  match s with
  | .mergeEdges e1 e2 _ => e1 ≠ e2
  | .add other sn se =>
    Valid other ∧ g.term false ≠ g.term true ∧ other.term false ≠ other.term true ∧
    (∀ k, k ∈ dKeys g.nodes → k ∈ dKeys other.nodes → k ∈ sn) ∧
    (∀ k, k ∈ dKeys g.edges → k ∈ dKeys other.edges → k ∈ se) ∧
    (∀ d j j', ReachFrom g d (g.term d) j (g.term (!d)) →
      ReachFrom other d (other.term d) j' (other.term (!d)) → j = j')
  | _ => True

/-- the side conditions hold along the run -/
def HistOk : List (Step κ) → Graph κ → Prop
  | [], _ => True
  | s :: rest, g => s.okAt g ∧ ∀ g1, s.run g = .ok g1 → HistOk rest g1

/-- effect of one step on the denotation (as a function of the word) -/
def Step.sem (s : Step κ) (f : Word → κ) : Word → κ :=
  match s with
  | .flip => fun w => f w.reverse
  | .add other _ _ => fun w => f w + other.denF w
  | _ => f

def semSteps (steps : List (Step κ)) (f : Word → κ) : Word → κ := steps.foldl (fun f s => s.sem f) f

theorem step_sem {g g' : Graph κ} (h : Valid g) {s : Step κ} (hs : s.okAt g) (hr : s.run g = .ok g') :
    Valid g' ∧ g'.denF = s.sem g.denF := by
  cases s with
  | flip =>
    simp only [Step.run, Except.ok.injEq] at hr
    subst hr
    exact ⟨h.flip, funext fun w => denF_flip h.1 w⟩
  | renameEdge cur new =>
    exact ⟨h.renameEdgeId hr, funext fun w => denF_renameEdgeId h.1 hr w⟩
  | renameNode cur new =>
    exact ⟨h.renameNodeId hr, funext fun w => denF_renameNodeId h.1 hr w⟩
  | mergeEdges e1 e2 d =>
    exact ⟨h.mergeEdges hs hr, funext fun w => (mergeEdges_sem h.1 hs hr).2.2 w⟩
  | simplify =>
    obtain ⟨_, hrel, hval⟩ := simplify_sem h.1 hr
    exact ⟨hval h, funext fun w => hrel.den w⟩
  | add other sn se =>
    obtain ⟨ho, htg, hto, hsn, hse, hlen⟩ := hs
    obtain ⟨hv, hd⟩ := addWith_sem h ho htg hto hsn hse hlen hr
    exact ⟨hv, funext hd⟩

/-- **History**: any finite sequence of flips, renamings, merges of two different edges, simplifications and additions
of valid graphs of the same length that runs through keeps the graph valid (it passes the consistency check after
every step) and transforms the denoted operator by `semSteps` only: every `flip` reverses the site order, every `add`
adds the other operator, everything else leaves it unchanged. -/
theorem history_sem : ∀ (steps : List (Step κ)) {g g' : Graph κ}, Valid g → HistOk steps g →
    runSteps steps g = .ok g' → Valid g' ∧ g'.denF = semSteps steps g.denF
  | [], g, g', h, _, hr => by
    simp only [runSteps, foldlM_nil, pure, Except.pure, Except.ok.injEq] at hr
    subst hr; exact ⟨h, rfl⟩
  | s :: rest, g, g', h, hok, hr => by
    simp only [runSteps, foldlM_cons] at hr
    cases h1 : s.run g with
    | error e => rw [h1] at hr; simp [bind, Except.bind] at hr
    | ok g1 =>
      rw [h1] at hr
      simp only [bind, Except.bind] at hr
      obtain ⟨hv1, hd1⟩ := step_sem h hok.1 h1
      obtain ⟨hv', hd'⟩ := history_sem rest hv1 (hok.2 g1 h1) hr
      refine ⟨hv', ?_⟩
      rw [hd', hd1]; rfl

end Ptn.Og

import PtnModel.Proofs.DenseMerge
/-!
# `merge_mpo_tensor_pair` preserves matrix elements; `as_matrix` (dense path) lists them in row-major digit order
-/
namespace Ptn.MPO
open Finset Dense
variable {R : Type} [CommRing R]

theorem step_merge (A0 A1 : T4 R) (s0 s1 t0 t1 : Nat) (h : A0.d3 = A1.d2) (hs1 : s1 < A1.d0) (ht1 : t1 < A1.d1)
    (v : Nat → R) :
    step (mergePair A0 A1) (s0 * A1.d0 + s1) (t0 * A1.d1 + t1) v = step A1 s1 t1 (step A0 s0 t0 v) := by
  funext c
  simp only [step, mergePair, sumRange_eq, fused_div hs1, fused_mod hs1, fused_div ht1, fused_mod ht1,
    mul_sum, sum_mul, h]
  rw [sum_comm]
  apply sum_congr rfl; intro b _
  apply sum_congr rfl; intro a _
  ring

theorem elemRow_merge (A0 A1 : T4 R) (rest : List (T4 R)) (s0 s1 t0 t1 : Nat) (ss ts : List Nat) (h : A0.d3 = A1.d2)
    (hs1 : s1 < A1.d0) (ht1 : t1 < A1.d1) (v : Nat → R) :
    elemRow (mergePair A0 A1 :: rest) ((s0 * A1.d0 + s1) :: ss) ((t0 * A1.d1 + t1) :: ts) v
      = elemRow (A0 :: A1 :: rest) (s0 :: s1 :: ss) (t0 :: t1 :: ts) v := by
  rw [elemRow_cons, elemRow_cons, elemRow_cons, step_merge A0 A1 s0 s1 t0 t1 h hs1 ht1]

theorem elemRow_append : ∀ (pre post : List (T4 R)) (spre spost tpre tpost : List Nat) (v : Nat → R),
    spre.length = pre.length → tpre.length = pre.length →
    elemRow (pre ++ post) (spre ++ spost) (tpre ++ tpost) v = elemRow post spost tpost (elemRow pre spre tpre v)
  | [], post, [], spost, [], tpost, v, _, _ => by simp [elemRow_nil]
  | [], _, _ :: _, _, _, _, _, h, _ => by simp at h
  | [], _, [], _, _ :: _, _, _, _, h => by simp at h
  | _ :: _, _, [], _, _, _, _, h, _ => by simp at h
  | _ :: _, _, _ :: _, _, [], _, _, _, h => by simp at h
  | A :: pre, post, s :: spre, spost, t :: tpre, tpost, v, h, h' => by
      simp only [List.cons_append, elemRow_cons]
      exact elemRow_append pre post spre spost tpre tpost _ (by simpa using h) (by simpa using h')

/-- replacing two neighbouring tensors of an MPO by their merged tensor preserves every matrix element -/
theorem merge_dense (qd : List Int) (qD qD' : List (List Int)) (pre post : List (T4 R)) (A0 A1 : T4 R)
    (spre spost tpre tpost : List Nat) (s0 s1 t0 t1 : Nat) (hpre : spre.length = pre.length)
    (hpre' : tpre.length = pre.length) (h : A0.d3 = A1.d2) (hs1 : s1 < A1.d0) (ht1 : t1 < A1.d1) :
    (⟨qd, qD', pre ++ mergePair A0 A1 :: post⟩ : MPO R).elem (spre ++ (s0 * A1.d0 + s1) :: spost)
        (tpre ++ (t0 * A1.d1 + t1) :: tpost)
      = (⟨qd, qD, pre ++ A0 :: A1 :: post⟩ : MPO R).elem (spre ++ s0 :: s1 :: spost) (tpre ++ t0 :: t1 :: tpost) := by
  simp only [elem_eq]
  rw [elemRow_append _ _ _ _ _ _ _ hpre hpre', elemRow_append _ _ _ _ _ _ _ hpre hpre',
    elemRow_merge A0 A1 post s0 s1 t0 t1 spost tpost h hs1 ht1]

/-- invariant of the left fold of merges in `as_matrix` -/
theorem fold_merge (d : Nat) : ∀ (rest : List (T4 R)) (acc : T4 R) (Dr : Nat), Chain d acc.d3 rest Dr →
    (rest.foldl (fun acc A => (mergePair acc A).tab) acc).d0 = acc.d0 * d ^ rest.length ∧
    (rest.foldl (fun acc A => (mergePair acc A).tab) acc).d1 = acc.d1 * d ^ rest.length ∧
    (rest.foldl (fun acc A => (mergePair acc A).tab) acc).d2 = acc.d2 ∧
    (rest.foldl (fun acc A => (mergePair acc A).tab) acc).d3 = Dr ∧
    ∀ s0 < acc.d0, ∀ t0 < acc.d1, ∀ ss ts, Digits d rest.length ss → Digits d rest.length ts →
      ∀ a < acc.d2, ∀ c < Dr,
      (rest.foldl (fun acc A => (mergePair acc A).tab) acc).f (flatFrom d s0 ss) (flatFrom d t0 ts) a c
        = elemRow rest ss ts (fun b => acc.f s0 t0 a b) c
  | [], acc, Dr, hc => by
      have hc : acc.d3 = Dr := hc
      refine ⟨by simp, by simp, rfl, hc, ?_⟩
      intro s0 _ t0 _ ss ts hss hts a _ c _
      have : ss = [] := by simpa [Digits] using hss.1
      subst this
      have : ts = [] := by simpa [Digits] using hts.1
      subst this
      simp [flatFrom_nil, elemRow_nil]
  | A :: rest, acc, Dr, hc => by
      obtain ⟨hA0, hA1, hA2, hc'⟩ := hc
      have hA10 : A.d1 = A.d0 := by rw [hA0, hA1]
      subst hA0
      have ih := fold_merge A.d0 rest (mergePair acc A).tab Dr hc'
      obtain ⟨i0, i1, i2, i3, i4⟩ := ih
      simp only [List.foldl_cons, List.length_cons]
      refine ⟨?_, ?_, i2, i3, ?_⟩
      · rw [i0]; simp only [T4.tab_d0, mergePair, pow_succ]; ring
      · rw [i1]; simp only [T4.tab_d1, mergePair, pow_succ, hA10]; ring
      · intro s0 hs0 t0 ht0 ss ts hss hts a ha c hc
        match ss, ts, hss, hts with
        | s1 :: ss', t1 :: ts', hss, hts =>
          have hs1 : s1 < A.d0 := hss.head
          have ht1 : t1 < A.d1 := by rw [hA10]; exact hts.head
          have ht1' : t0 * A.d0 + t1 < acc.d1 * A.d1 := by rw [← hA10]; exact fused_lt ht0 ht1
          rw [flatFrom_cons, flatFrom_cons, elemRow_cons]
          rw [i4 (s0 * A.d0 + s1) (fused_lt hs0 hs1) (t0 * A.d0 + t1) ht1' ss' ts' hss.tail hts.tail a ha c hc]
          apply elemRow_congr A.d0 rest ss' ts' A.d3 Dr _ _ hc' hss.tail.1 hts.tail.1 _ c hc
          intro b hb
          rw [T4.tab_f (mergePair acc A) (fused_lt hs0 hs1) ht1' ha hb]
          simp only [mergePair, step, sumRange_eq, fused_div hs1, fused_mod hs1, hA2]
          rw [← hA10, fused_div ht1, fused_mod ht1]

/-- `as_matrix` (dense path) lists the matrix elements in row-major digit order -/
theorem asMatrix_elem (o : MPO R) (d : Nat) (ho : Shaped o d) (m : Mat R) (h : o.asMatrix = .ok m) :
    m.m = d ^ o.A.length ∧ m.n = d ^ o.A.length ∧
    ∀ s t, Digits d o.A.length s → Digits d o.A.length t → m.f (flat d s) (flat d t) = o.elem s t := by
  unfold asMatrix at h
  have hc := ho.chain
  split at h
  · simp at h
  · rename_i A0 rest hA
    rw [hA] at hc ⊢
    simp only [pyAssert_bind, pure_ok] at h
    obtain ⟨_, rfl⟩ := h
    obtain ⟨h0, h1, h2, hc'⟩ := hc
    obtain ⟨i0, i1, i2, i3, i4⟩ := fold_merge d rest A0 1 hc'
    refine ⟨?_, ?_, ?_⟩
    · simp only [i0, h0, List.length_cons, pow_succ]; ring
    · simp only [i1, h1, List.length_cons, pow_succ]; ring
    · intro s t hs ht
      match s, t, hs, ht with
      | s0 :: ss, t0 :: ts, hs, ht =>
        rw [flat_cons, flat_cons]
        simp only
        rw [i4 s0 (by rw [h0]; exact hs.head) t0 (by rw [h1]; exact ht.head) ss ts hs.tail ht.tail 0 (by omega) 0
          (by omega)]
        rw [elem_eq, hA, elemRow_cons, step_e0 _ _ _ h2]

end Ptn.MPO

import Mathlib.Algebra.BigOperators.Group.List.Basic
import Mathlib.Algebra.BigOperators.Group.List.Lemmas
import Mathlib.Data.List.Nodup
import Mathlib.Data.List.Perm.Basic
import Mathlib.Algebra.Ring.Defs
import Mathlib.Tactic.Ring
import PtnModel.Model.OpGraph
/-!
# Walk sums over a bare edge list (for `from_opchains`, property C05)

`opc e o`        : coefficient of the operator id `o` on the edge `e`;
`pre es s r x`   : coefficient of the word `r.reverse` on walks from node `s` to node `x` (recursion from the end);
`fwd es t w x`   : coefficient of the word `w` on walks from node `x` to node `t` (recursion from the start).
`fwd_eq_pre`     : the two agree.
`pre_append_stable` : appending edges whose targets are new (larger) node ids does not change `pre` at old nodes,
                   provided every edge goes from a smaller to a larger node id.
-/
set_option linter.unusedSectionVars false

namespace Ptn.Ch
open Ptn Ptn.Og List

variable {κ : Type} [CommRing κ]

/-! ## list sums -/

theorem sumList_eq_sum (l : List κ) : Ptn.sumList l = l.sum := by
  unfold Ptn.sumList
  rw [List.sum_eq_foldl]

theorem sum_map_congr {α : Type} (l : List α) (f g : α → κ) (h : ∀ a ∈ l, f a = g a) :
    (l.map f).sum = (l.map g).sum := by
  induction l with
  | nil => simp
  | cons a l ih =>
    simp only [map_cons, sum_cons]
    rw [h a (by simp), ih (fun b hb => h b (by simp [hb]))]

theorem sum_map_eq_zero {α : Type} (l : List α) (f : α → κ) (h : ∀ a ∈ l, f a = 0) : (l.map f).sum = 0 := by
  induction l with
  | nil => simp
  | cons a l ih =>
    simp only [map_cons, sum_cons]
    rw [h a (by simp), ih (fun b hb => h b (by simp [hb]))]
    simp

theorem sum_map_mul_const {α : Type} (l : List α) (f : α → κ) (c : κ) :
    (l.map fun a => f a * c).sum = (l.map f).sum * c := by
  induction l with
  | nil => simp
  | cons a l ih => simp [ih, add_mul]

theorem sum_map_const_mul {α : Type} (l : List α) (f : α → κ) (c : κ) :
    (l.map fun a => c * f a).sum = c * (l.map f).sum := by
  induction l with
  | nil => simp
  | cons a l ih => simp [ih, mul_add]

theorem sum_map_add {α : Type} (l : List α) (f g : α → κ) :
    (l.map fun a => f a + g a).sum = (l.map f).sum + (l.map g).sum := by
  induction l with
  | nil => simp
  | cons a l ih => simp only [map_cons, sum_cons, ih]; ring

theorem sum_map_ite_zero {α : Type} (l : List α) (p : α → Prop) [DecidablePred p] (f : α → κ) :
    (l.map fun a => if p a then f a else 0).sum = ((l.filter fun a => decide (p a)).map f).sum := by
  induction l with
  | nil => simp
  | cons a l ih =>
    by_cases h : p a <;> simp [h, ih]

theorem sum_sum_comm {α β : Type} (l1 : List α) (l2 : List β) (f : α → β → κ) :
    (l1.map fun a => (l2.map fun b => f a b).sum).sum = (l2.map fun b => (l1.map fun a => f a b).sum).sum := by
  induction l1 with
  | nil => simp
  | cons a l1 ih =>
    simp only [map_cons, sum_cons, ih]
    rw [← sum_map_add]

/-- a sum with a single non-zero position -/
theorem sum_map_ite_eq_of_nodup {α : Type} [DecidableEq α] (l : List α) (k : α) (x : κ)
    (hn : l.Nodup) (hk : k ∈ l) : (l.map fun a => if a = k then x else 0).sum = x := by
  induction l with
  | nil => simp at hk
  | cons a l ih =>
    simp only [nodup_cons] at hn
    simp only [map_cons, sum_cons]
    by_cases h : a = k
    · subst h
      rw [if_pos rfl, sum_map_eq_zero, add_zero]
      intro b hb
      have : b ≠ a := fun hba => hn.1 (hba ▸ hb)
      simp [this]
    · rw [if_neg h, zero_add]
      exact ih hn.2 ((mem_cons.1 hk).resolve_left (fun hka => h hka.symm))

/-! ## walk sums -/

/-- coefficient of the operator id `o` on an edge -/
def opc (e : Edge κ) (o : Int) : κ := (e.opics.map fun p => if p.1 = o then p.2 else 0).sum

/-- coefficient of the word `r.reverse` on walks from `s` to `x` -/
def pre (es : List (Edge κ)) (s : Int) : List Int → Int → κ
  | [], x => if x = s then 1 else 0
  | o :: r, x => (es.map fun e => if e.nids.2 = x then pre es s r e.nids.1 * opc e o else 0).sum

/-- coefficient of the word `w` on walks from `x` to `t` -/
def fwd (es : List (Edge κ)) (t : Int) : Word → Int → κ
  | [], x => if x = t then 1 else 0
  | o :: w, x => (es.map fun e => if e.nids.1 = x then opc e o * fwd es t w e.nids.2 else 0).sum

theorem fwd_snoc (es : List (Edge κ)) (o : Int) : ∀ (w : Word) (t x : Int),
    fwd es t (w ++ [o]) x = (es.map fun e => if e.nids.2 = t then fwd es e.nids.1 w x * opc e o else 0).sum := by
  intro w
  induction w with
  | nil =>
    intro t x
    simp only [nil_append, fwd]
    apply sum_map_congr
    intro e _
    by_cases h1 : e.nids.1 = x <;> by_cases h2 : e.nids.2 = t
    · simp [h1, h2]
    · simp [h1, h2]
    · have h1' : ¬ x = e.nids.1 := fun h => h1 h.symm
      simp [h1, h2, h1']
    · simp [h1, h2]
  | cons a w ih =>
    intro t x
    simp only [cons_append, fwd]
    have : ∀ e : Edge κ, (if e.nids.1 = x then opc e a * fwd es t (w ++ [o]) e.nids.2 else 0)
        = (es.map fun f => if f.nids.2 = t then
            (if e.nids.1 = x then opc e a * fwd es f.nids.1 w e.nids.2 else 0) * opc f o else 0).sum := by
      intro e
      by_cases h1 : e.nids.1 = x
      · simp only [h1, if_true]
        rw [ih, ← sum_map_const_mul]
        apply sum_map_congr
        intro f _
        by_cases h2 : f.nids.2 = t <;> simp [h2]; ring
      · simp only [h1, if_false]
        symm
        apply sum_map_eq_zero
        intro f _
        simp
    rw [sum_map_congr _ _ _ (fun e _ => this e), sum_sum_comm]
    apply sum_map_congr
    intro f _
    by_cases h2 : f.nids.2 = t
    · simp only [h2, if_true]
      rw [sum_map_mul_const]
    · simp [h2]

/-- forward and backward recursion compute the same walk sum -/
theorem fwd_eq_pre (es : List (Edge κ)) (s : Int) : ∀ (w : Word) (t : Int),
    fwd es t w s = pre es s w.reverse t := by
  intro w
  induction w using List.reverseRecOn with
  | nil => intro t; simp [fwd, pre, eq_comm]
  | append_singleton w o ih =>
    intro t
    rw [fwd_snoc, reverse_append]
    simp only [reverse_cons, reverse_nil, nil_append, cons_append, pre]
    apply sum_map_congr
    intro e _
    rw [ih]

/-- `pre` at a node below `B` is not affected by appending edges that end at nodes `≥ B`,
when all edges go from smaller to larger ids -/
theorem pre_append_stable (es new : List (Edge κ)) (s B : Int)
    (hmono : ∀ e ∈ es, e.nids.1 < e.nids.2)
    (hnew : ∀ e ∈ new, B ≤ e.nids.2) :
    ∀ (r : List Int) (x : Int), x < B → pre (es ++ new) s r x = pre es s r x := by
  intro r
  induction r with
  | nil => intro x _; simp [pre]
  | cons o r ih =>
    intro x hx
    simp only [pre, map_append, sum_append]
    rw [sum_map_eq_zero new, add_zero]
    · apply sum_map_congr
      intro e he
      by_cases h : e.nids.2 = x
      · simp only [h, if_true]
        rw [ih]
        have := hmono e he
        omega
      · simp [h]
    · intro e he
      have := hnew e he
      have : e.nids.2 ≠ x := by omega
      simp [this]

/-- no walk of positive length enters a node that is not the target of any edge -/
theorem pre_cons_eq_zero (es : List (Edge κ)) (s : Int) (o : Int) (r : List Int) (x : Int)
    (h : ∀ e ∈ es, e.nids.2 ≠ x) : pre es s (o :: r) x = 0 := by
  simp only [pre]
  apply sum_map_eq_zero
  intro e he
  simp [h e he]

end Ptn.Ch

import PtnModel.Proofs.OrthoSweep
/-!
# Norm of a left-canonical chain, sign flip of the last tensor

* `leftIso_chain`  : a chain of left isometries is a left isometry (`Σ_σ Σ_a conj(P_σ[a,p]) P_σ[a,p'] = δ`);
* `negLast`        : negating the last tensor (`self.A[-1] = -self.A[-1]`) — keeps well-formedness and the isometry
                     property and flips the sign of all matrix products.
-/
set_option linter.unusedSectionVars false
namespace Ptn.Ortho
open Ptn.BondOps Finset Ptn.Env
variable {𝕜 : Type} [CommRing 𝕜] [DecidableEq 𝕜] [StarRing 𝕜]

theorem sum4_reorder {M ι₁ ι₂ ι₃ ι₄ : Type} [AddCommMonoid M] (S₁ : Finset ι₁) (S₂ : Finset ι₂) (S₃ : Finset ι₃)
    (S₄ : Finset ι₄) (F : ι₁ → ι₂ → ι₃ → ι₄ → M) :
    ∑ s ∈ S₁, ∑ a ∈ S₂, ∑ x ∈ S₃, ∑ y ∈ S₄, F s a x y = ∑ x ∈ S₃, ∑ y ∈ S₄, ∑ s ∈ S₁, ∑ a ∈ S₂, F s a x y := by
  calc ∑ s ∈ S₁, ∑ a ∈ S₂, ∑ x ∈ S₃, ∑ y ∈ S₄, F s a x y
      = ∑ s ∈ S₁, ∑ x ∈ S₃, ∑ a ∈ S₂, ∑ y ∈ S₄, F s a x y := Finset.sum_congr rfl fun s _ => Finset.sum_comm
    _ = ∑ x ∈ S₃, ∑ s ∈ S₁, ∑ a ∈ S₂, ∑ y ∈ S₄, F s a x y := Finset.sum_comm
    _ = ∑ x ∈ S₃, ∑ s ∈ S₁, ∑ y ∈ S₄, ∑ a ∈ S₂, F s a x y :=
        Finset.sum_congr rfl fun x _ => Finset.sum_congr rfl fun s _ => Finset.sum_comm
    _ = ∑ x ∈ S₃, ∑ y ∈ S₄, ∑ s ∈ S₁, ∑ a ∈ S₂, F s a x y := Finset.sum_congr rfl fun x _ => Finset.sum_comm

/-- the induction step of `leftIso_chain` -/
theorem leftIso_step {ι : Type} (S : Finset ι) (A : T3 𝕜) (hA : LeftIso A) (P : ι → Nat → Nat → 𝕜) (p p' : Nat) :
    ∑ s ∈ range A.d0, ∑ σ ∈ S, ∑ a ∈ range A.d1,
      star (∑ x ∈ range A.d2, A.f s a x * P σ x p) * ∑ x ∈ range A.d2, A.f s a x * P σ x p' =
    ∑ σ ∈ S, ∑ x ∈ range A.d2, star (P σ x p) * P σ x p' := by
  calc ∑ s ∈ range A.d0, ∑ σ ∈ S, ∑ a ∈ range A.d1,
      star (∑ x ∈ range A.d2, A.f s a x * P σ x p) * ∑ x ∈ range A.d2, A.f s a x * P σ x p'
      = ∑ σ ∈ S, ∑ x ∈ range A.d2, ∑ x' ∈ range A.d2,
          (star (P σ x p) * P σ x' p') * ∑ s ∈ range A.d0, ∑ a ∈ range A.d1, star (A.f s a x) * A.f s a x' := by
        rw [Finset.sum_comm]
        refine Finset.sum_congr rfl fun σ _ => ?_
        simp only [star_sum, Finset.sum_mul, Finset.mul_sum, star_mul']
        rw [sum4_reorder, Finset.sum_comm]
        refine Finset.sum_congr rfl fun x _ => Finset.sum_congr rfl fun x' _ =>
          Finset.sum_congr rfl fun s _ => Finset.sum_congr rfl fun a _ => ?_
        ring
    _ = _ := by
        refine Finset.sum_congr rfl fun σ _ => Finset.sum_congr rfl fun x hx => ?_
        have e2 : ∀ x' ∈ range A.d2, (star (P σ x p) * P σ x' p') *
            ∑ s ∈ range A.d0, ∑ a ∈ range A.d1, star (A.f s a x) * A.f s a x' =
            if x = x' then star (P σ x p) * P σ x' p' else 0 := by
          intro x' hx'
          rw [hA x x' (Finset.mem_range.1 hx) (Finset.mem_range.1 hx')]
          split <;> simp
        rw [Finset.sum_congr rfl e2, Finset.sum_ite_eq (range A.d2) x, if_pos hx]

/-- a chain of left isometries is a left isometry: `Σ_σ Σ_a conj(P_σ[a,p]) P_σ[a,p'] = δ_{p p'}` -/
theorem leftIso_chain {ds : List Nat} {As : List (T3 𝕜)} {Dl Dr : Nat} (h : Chain3 ds As Dl Dr)
    (hiso : ∀ B ∈ As, LeftIso B) {p p' : Nat} (hp : p < Dr) (hp' : p' < Dr) :
    ∑ σ ∈ digits ds, ∑ a ∈ range Dl, star (pmat As σ a p) * pmat As σ a p' = if p = p' then 1 else 0 := by
  induction ds generalizing As Dl with
  | nil =>
    cases As with
    | cons _ _ => simp at h
    | nil =>
      simp only [chain3_nil] at h
      subst h
      simp only [digits_nil, Finset.sum_singleton, pmat_nil]
      have e : ∀ a ∈ range Dl, star (if a = p then (1 : 𝕜) else 0) * (if a = p' then 1 else 0) =
          if a = p then (if p = p' then 1 else 0) else 0 := by
        intro a _
        by_cases h1 : a = p
        · subst h1; simp
        · simp [h1]
      rw [Finset.sum_congr rfl e, Finset.sum_ite_eq' (range Dl) p, if_pos (Finset.mem_range.2 hp)]
  | cons d ds ih =>
    cases As with
    | nil => simp at h
    | cons A As =>
      simp only [chain3_cons] at h
      obtain ⟨h0, h1, hc⟩ := h
      have hA := hiso A (by simp)
      have IH := ih hc (fun B hB => hiso B (by simp [hB]))
      rw [sum_digits_cons, ← IH, ← h0, ← h1]
      simp only [pmat_cons]
      exact leftIso_step (digits ds) A hA (fun σ x q => pmat As σ x q) p p'

section neg
omit [StarRing 𝕜]

/-- negate the last tensor -/
def negLast : List (T3 𝕜) → List (T3 𝕜)
  | [] => []
  | [A] => [MPS.negT3 A]
  | A :: B :: As => A :: negLast (B :: As)

theorem take_drop_negLast : ∀ (As : List (T3 𝕜)),
    As.take (As.length - 1) ++ (As.drop (As.length - 1)).map MPS.negT3 = negLast As
  | [] => rfl
  | [A] => rfl
  | A :: B :: As => by
    have := take_drop_negLast (B :: As)
    simp only [List.length_cons, Nat.add_sub_cancel] at this ⊢
    rw [List.take_succ_cons, List.drop_succ_cons, List.cons_append, this, negLast]

theorem negLast_length : ∀ (As : List (T3 𝕜)), (negLast As).length = As.length
  | [] => rfl
  | [A] => rfl
  | A :: B :: As => by simp [negLast, negLast_length (B :: As)]

theorem negT3_wf {A : T3 𝕜} {qd qa qb : List Int} (h : T3Wf A qd qa qb) : T3Wf (MPS.negT3 A) qd qa qb :=
  ⟨h.d0, h.d1, h.d2, fun s a b hs ha hb hne => h.sp s a b hs ha hb (fun h0 => hne (by
    show -(A.f s a b) = 0
    rw [h0, neg_zero]))⟩

theorem negLast_wf {qd : List Int} : ∀ {As : List (T3 𝕜)} {qL : List Int} {qs : List (List Int)},
    WfChain qd qL As qs → WfChain qd qL (negLast As) qs
  | [], _, [], _ => by simp [negLast]
  | [], _, _ :: _, h => by simp at h
  | [A], qL, [], h => by simp at h
  | [A], qL, [qR], h => by
    simp only [wfChain_cons, wfChain_nil, and_true, negLast] at h ⊢
    exact ⟨negT3_wf h.1, h.2⟩
  | [A], qL, _ :: _ :: _, h => by simp at h
  | A :: B :: As, qL, [], h => by simp at h
  | A :: B :: As, qL, qR :: qs, h => by
    simp only [negLast]
    rw [wfChain_cons] at h ⊢
    exact ⟨h.1, h.2.1, negLast_wf h.2.2⟩

theorem negLast_pmat : ∀ {ds : List Nat} {As : List (T3 𝕜)} {Dl Dr : Nat}, Chain3 ds As Dl Dr → As ≠ [] →
    ∀ {σ : List Nat}, σ ∈ digits ds → ∀ (a c : Nat), pmat (negLast As) σ a c = - pmat As σ a c
  | [], [], _, _, _, h, _, _, _, _ => absurd rfl h
  | [], _ :: _, _, _, h, _, _, _, _, _ => by simp at h
  | _ :: _, [], _, _, h, _, _, _, _, _ => by simp at h
  | [d], [A], Dl, Dr, h, _, σ, hσ, a, c => by
    obtain ⟨s, t, hs, ht, rfl⟩ := mem_digits_cons.1 hσ
    simp only [negLast, pmat_cons, pmat_nil, MPS.negT3]
    rw [← Finset.sum_neg_distrib]
    refine Finset.sum_congr rfl fun x _ => ?_
    ring
  | [d], _ :: _ :: _, _, _, h, _, _, _, _, _ => by simp at h
  | d :: e :: ds, [A], Dl, Dr, h, _, σ, hσ, a, c => by simp at h
  | d :: e :: ds, A :: B :: As, Dl, Dr, h, _, σ, hσ, a, c => by
    simp only [chain3_cons (A := A)] at h
    obtain ⟨s, t, hs, ht, rfl⟩ := mem_digits_cons.1 hσ
    simp only [negLast, pmat_cons (A := A)]
    rw [← Finset.sum_neg_distrib]
    refine Finset.sum_congr rfl fun x _ => ?_
    rw [negLast_pmat h.2.2 (by simp) ht, mul_neg]

theorem negLast_chain3 : ∀ {ds : List Nat} {As : List (T3 𝕜)} {Dl Dr : Nat}, Chain3 ds As Dl Dr →
    Chain3 ds (negLast As) Dl Dr
  | [], [], _, _, h => h
  | [], _ :: _, _, _, h => by simp at h
  | _ :: _, [], _, _, h => by simp at h
  | d :: ds, [A], Dl, Dr, h => by
    simp only [chain3_cons, negLast] at h ⊢
    exact h
  | d :: ds, A :: B :: As, Dl, Dr, h => by
    simp only [negLast]
    rw [chain3_cons] at h ⊢
    exact ⟨h.1, h.2.1, negLast_chain3 h.2.2⟩

theorem negT3_iso [StarRing 𝕜] {A : T3 𝕜} (h : LeftIso A) : LeftIso (MPS.negT3 A) := by
  intro p p' hp hp'
  rw [← h p p' hp hp']
  refine Finset.sum_congr rfl fun s _ => Finset.sum_congr rfl fun a _ => ?_
  show star (-(A.f s a p)) * -(A.f s a p') = _
  rw [star_neg, neg_mul_neg]

theorem negLast_iso [StarRing 𝕜] : ∀ {As : List (T3 𝕜)}, (∀ B ∈ As, LeftIso B) → ∀ B ∈ negLast As, LeftIso B
  | [], _ => by simp [negLast]
  | [A], h => by
    intro B hB
    simp only [negLast, List.mem_singleton] at hB
    subst hB
    exact negT3_iso (h A (by simp))
  | A :: B :: As, h => by
    intro C hC
    simp only [negLast, List.mem_cons] at hC
    rcases hC with rfl | hC
    · exact h _ (by simp)
    · exact negLast_iso (fun X hX => h X (List.mem_cons_of_mem _ hX)) C (by simpa using hC)

end neg
end Ptn.Ortho

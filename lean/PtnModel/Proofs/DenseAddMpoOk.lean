import PtnModel.Proofs.DenseAddMpo
import PtnModel.Proofs.DenseAddOk
/-!
# `add_mpo` returns (no exception) on block-sparse operands with equal boundary charges
-/
namespace Ptn.MPO
open Finset Dense
variable {R : Type} [CommRing R] [DecidableEq R]

theorem isSparseT4_iff (A : T4 R) (qd qa qb : List Int) : QN.isSparseT4 A qd qa qb = true ↔
    ∀ i < A.d0, ∀ j < A.d1, ∀ k < A.d2, ∀ l < A.d3,
      qd.getD i 0 - qd.getD j 0 + qa.getD k 0 - qb.getD l 0 = 0 ∨ A.f i j k l = 0 := by
  simp [QN.isSparseT4, T4.all, List.all_eq_true, List.mem_range]

/-- `wellFormed` spelled out -/
theorem wellFormed_iff (o : MPO R) : o.wellFormed = true ↔ o.qD.length = o.A.length + 1 ∧
    ∀ i A, o.A[i]? = some A → A.d0 = o.qd.length ∧ A.d1 = o.qd.length ∧ A.d2 = (o.qD.getD i []).length ∧
      A.d3 = (o.qD.getD (i + 1) []).length ∧
      QN.isSparseT4 A o.qd (o.qD.getD i []) (o.qD.getD (i + 1) []) = true := by
  simp only [wellFormed, Bool.and_eq_true, beq_iff_eq, List.all_eq_true, List.mem_range]
  constructor
  · rintro ⟨h1, h2⟩
    refine ⟨h1, fun i A hA => ?_⟩
    have hi : i < o.A.length := by
      rcases Nat.lt_or_ge i o.A.length with h | h
      · exact h
      · simp [List.getElem?_eq_none h] at hA
    have := h2 i hi
    simp only [hA] at this
    simpa [and_assoc] using this
  · rintro ⟨h1, h2⟩
    refine ⟨h1, fun i hi => ?_⟩
    simp only [List.getElem?_eq_getElem hi]
    simpa [and_assoc] using h2 i _ (List.getElem?_eq_getElem hi)

omit [DecidableEq R] in
theorem addInterior_get : ∀ (Xs Ys rest : List (T4 R)), addInterior Xs Ys = .ok rest →
    rest.length = Xs.length ∧ ∀ j X Y, Xs[j]? = some X → Ys[j]? = some Y →
      rest[j]? = some (if j + 1 = Xs.length then (catMid X Y).tab else (blockDiag X Y).tab)
  | [], _, _, h => by simp [addInterior] at h
  | [X], [Y], rest, h => by
      simp only [addInterior] at h
      split at h
      · simp only [Except.ok.injEq] at h
        subst h
        refine ⟨rfl, ?_⟩
        intro j X' Y' hX hY
        match j with
        | 0 =>
          simp only [List.getElem?_cons_zero, Option.some.injEq] at hX hY
          subst hX hY; simp
        | j + 1 => simp at hX
      · simp at h
  | [_], [], _, h => by simp [addInterior] at h
  | [X], Y :: Y' :: Ys, _, h => by
      simp [addInterior, bind, Except.bind] at h
      split at h <;> simp at h
  | X :: X' :: Xs, [], _, h => by simp [addInterior] at h
  | X :: X' :: Xs, Y :: Ys, rest, h => by
      simp only [addInterior] at h
      split at h
      · simp [throw_bind_ne] at h
      · simp only [bind_ok, pure_ok] at h
        obtain ⟨r', hr', rfl⟩ := h
        obtain ⟨ih1, ih2⟩ := addInterior_get (X' :: Xs) Ys r' hr'
        refine ⟨by simp [ih1], ?_⟩
        intro j A B hA hB
        match j with
        | 0 =>
          simp only [List.getElem?_cons_zero, Option.some.injEq] at hA hB
          subst hA hB; simp
        | j + 1 =>
          simp only [List.getElem?_cons_succ] at hA hB ⊢
          rw [ih2 j A B hA hB]
          simp

omit [DecidableEq R] in
theorem addInterior_ok : ∀ (Xs Ys : List (T4 R)), Xs ≠ [] → Xs.length = Ys.length →
    (∀ j X Y, Xs[j]? = some X → Ys[j]? = some Y →
      X.d0 = Y.d0 ∧ X.d1 = Y.d1 ∧ (j + 1 = Xs.length → X.d3 = Y.d3)) →
    ∃ rest, addInterior Xs Ys = .ok rest
  | [], _, h, _, _ => absurd rfl h
  | [X], [Y], _, _, h => by
      obtain ⟨h0, h1, h3⟩ := h 0 X Y rfl rfl
      exact ⟨[(catMid X Y).tab], by simp [addInterior, h0, h1, h3 rfl]⟩
  | [_], [], _, hl, _ => by simp at hl
  | [_], _ :: _ :: _, _, hl, _ => by simp at hl
  | _ :: _ :: _, [], _, hl, _ => by simp at hl
  | X :: X' :: Xs, Y :: Ys, _, hl, h => by
      obtain ⟨rest, hrest⟩ := addInterior_ok (X' :: Xs) Ys (by simp) (by simpa using hl)
        (fun j A B hA hB => by
          have := h (j + 1) A B (by simpa using hA) (by simpa using hB)
          simpa using this)
      obtain ⟨h0, h1, _⟩ := h 0 X Y rfl rfl
      exact ⟨(blockDiag X Y).tab :: rest,
        by simp [addInterior, h0, h1, hrest, bind, Except.bind, pure, Except.pure]⟩

theorem sparse_blockDiag (X Y : T4 R) (qd qa0 qb0 qa1 qb1 : List Int) (h0 : X.d0 = Y.d0) (h1 : X.d1 = Y.d1)
    (h2 : X.d2 = qa0.length) (h3 : X.d3 = qb0.length) (hX : QN.isSparseT4 X qd qa0 qb0 = true)
    (hY : QN.isSparseT4 Y qd qa1 qb1 = true) :
    QN.isSparseT4 (blockDiag X Y).tab qd (qa0 ++ qa1) (qb0 ++ qb1) = true := by
  rw [isSparseT4_iff] at hX hY ⊢
  intro i hi j hj k hk l hl
  rw [T4.tab_f (blockDiag X Y) hi hj hk hl]
  simp only [T4.tab_d0, T4.tab_d1, T4.tab_d2, T4.tab_d3, blockDiag] at hi hj hk hl ⊢
  by_cases hk' : k < X.d2 <;> by_cases hl' : l < X.d3 <;> simp only [hk', hl', if_true, if_false]
  · rw [List.getD_append _ _ _ _ (by omega), List.getD_append _ _ _ _ (by omega)]
    exact hX i hi j hj k hk' l hl'
  · exact Or.inr trivial
  · exact Or.inr trivial
  · rw [List.getD_append_right _ _ _ _ (by omega), List.getD_append_right _ _ _ _ (by omega), ← h2, ← h3]
    exact hY i (by omega) j (by omega) (k - X.d2) (by omega) (l - X.d3) (by omega)

theorem sparse_catMid (X Y : T4 R) (qd qa0 qa1 qb : List Int) (h0 : X.d0 = Y.d0) (h1 : X.d1 = Y.d1)
    (h2 : X.d2 = qa0.length) (h3 : X.d3 = Y.d3) (hX : QN.isSparseT4 X qd qa0 qb = true)
    (hY : QN.isSparseT4 Y qd qa1 qb = true) :
    QN.isSparseT4 (catMid X Y).tab qd (qa0 ++ qa1) qb = true := by
  rw [isSparseT4_iff] at hX hY ⊢
  intro i hi j hj k hk l hl
  rw [T4.tab_f (catMid X Y) hi hj hk hl]
  simp only [T4.tab_d0, T4.tab_d1, T4.tab_d2, T4.tab_d3, catMid] at hi hj hk hl ⊢
  by_cases hk' : k < X.d2 <;> simp only [hk', if_true, if_false]
  · rw [List.getD_append _ _ _ _ (by omega)]
    exact hX i hi j hj k hk' l hl
  · rw [List.getD_append_right _ _ _ _ (by omega), ← h2]
    exact hY i (by omega) j (by omega) (k - X.d2) (by omega) l (by omega)

theorem sparse_sum (X Y : T4 R) (α : R) (qd qa qb : List Int) (h0 : X.d0 = Y.d0) (h1 : X.d1 = Y.d1)
    (h2 : X.d2 = Y.d2) (h3 : X.d3 = Y.d3) (hX : QN.isSparseT4 X qd qa qb = true)
    (hY : QN.isSparseT4 Y qd qa qb = true) :
    QN.isSparseT4 (⟨X.d0, X.d1, X.d2, X.d3, fun s t a b => X.f s t a b + α * Y.f s t a b⟩ : T4 R) qd qa qb
      = true := by
  rw [isSparseT4_iff] at hX hY ⊢
  intro i hi j hj k hk l hl
  simp only at hi hj hk hl ⊢
  rcases hX i hi j hj k hk l hl with h | h
  · exact Or.inl h
  · rcases hY i (by omega) j (by omega) k (by omega) l (by omega) with h' | h'
    · exact Or.inl h'
    · right; rw [h, h']; ring

/-- `add_mpo` returns on well-formed operands with the same physical charges, the same number of sites and equal
boundary charges. -/
theorem add_ok (o0 o1 : MPO R) (α : R) (w0 : o0.wellFormed = true) (w1 : o1.wellFormed = true)
    (hqd : o0.qd = o1.qd) (hlen : o0.A.length = o1.A.length) (hb0 : o0.qD.getD 0 [] = o1.qD.getD 0 [])
    (hbL : o0.qD.getD o0.A.length [] = o1.qD.getD o0.A.length []) : ∃ r, MPO.add o0 o1 α = .ok r := by
  obtain ⟨l0, s0⟩ := (wellFormed_iff o0).1 w0
  obtain ⟨l1, s1⟩ := (wellFormed_iff o1).1 w1
  obtain ⟨qd0, qD0, A0⟩ := o0
  obtain ⟨qd1, qD1, A1⟩ := o1
  simp only at l0 s0 l1 s1 hqd hlen hb0 hbL
  subst hqd
  match A0, A1, hlen with
  | [], [], _ =>
    unfold MPO.add
    simp only [List.length_nil, beq_self_eq_true, pyAssert, if_true, bind, Except.bind]
    exact ⟨_, rfl⟩
  | [X], [Y], _ =>
    unfold MPO.add
    simp only [List.length_cons, List.length_nil, beq_self_eq_true, pyAssert, if_true, bind, Except.bind]
    obtain ⟨x0, x1, x2, x3, xs⟩ := s0 0 X rfl
    obtain ⟨y0, y1, y2, y3, ys⟩ := s1 0 Y rfl
    simp only [List.length_cons, List.length_nil, Nat.zero_add] at hbL
    have e0 : X.d0 = Y.d0 := by rw [x0, y0]
    have e1 : X.d1 = Y.d1 := by rw [x1, y1]
    have e2 : X.d2 = Y.d2 := by rw [x2, y2, hb0]
    have e3 : X.d3 = Y.d3 := by rw [x3, y3, hbL]
    rw [← hb0, ← hbL] at ys
    have sp := sparse_sum X Y α qd0 _ _ e0 e1 e2 e3 xs ys
    have hb0' : (qD0.getD 0 [] == qD1.getD 0 []) = true := beq_iff_eq.2 hb0
    have hbL' : (qD0.getD 1 [] == qD1.getD 1 []) = true := beq_iff_eq.2 hbL
    have hne : ¬(X.d0 ≠ Y.d0 ∨ X.d1 ≠ Y.d1 ∨ X.d2 ≠ Y.d2 ∨ X.d3 ≠ Y.d3) := by simp [e0, e1, e2, e3]
    simp only [hb0', hbL', if_true, if_neg hne, sp]
    exact ⟨_, rfl⟩
  | X :: X' :: Xs, Y :: Y' :: Ys, hlen =>
    obtain ⟨x0, x1, x2, x3, xs⟩ := s0 0 X rfl
    obtain ⟨y0, y1, y2, y3, ys⟩ := s1 0 Y rfl
    have e0 : X.d0 = Y.d0 := by rw [x0, y0]
    have e1 : X.d1 = Y.d1 := by rw [x1, y1]
    have e2 : X.d2 = Y.d2 := by rw [x2, y2, hb0]
    have hb0' : (qD0.getD 0 [] == qD1.getD 0 []) = true := beq_iff_eq.2 hb0
    have hbL' : (qD0.getD (X :: X' :: Xs).length [] == qD1.getD (X :: X' :: Xs).length []) = true :=
      beq_iff_eq.2 hbL
    have hne : ¬(X.d0 ≠ Y.d0 ∨ X.d1 ≠ Y.d1 ∨ X.d2 ≠ Y.d2) := by simp [e0, e1, e2]
    have hlen' : (X' :: Xs).length = (Y' :: Ys).length := by simpa using hlen
    obtain ⟨rest, hrest⟩ := addInterior_ok (X' :: Xs) (Y' :: Ys) (by simp) hlen' (fun j A B hA hB => by
      obtain ⟨a0, a1, _, a3, _⟩ := s0 (j + 1) A (by simpa using hA)
      obtain ⟨b0, b1, _, b3, _⟩ := s1 (j + 1) B (by simpa using hB)
      refine ⟨by rw [a0, b0], by rw [a1, b1], fun hj => ?_⟩
      have : j + 1 + 1 = (X :: X' :: Xs).length := by simp only [List.length_cons] at hj ⊢; omega
      rw [a3, b3, this, hbL])
    obtain ⟨rl, rget⟩ := addInterior_get _ _ _ hrest
    have hlenb : ((X :: X' :: Xs).length == (Y :: Y' :: Ys).length) = true := beq_iff_eq.2 hlen
    unfold MPO.add
    simp only [hlenb, beq_self_eq_true, pyAssert, if_true, bind, Except.bind]
    simp only [hb0', hbL', if_true, if_neg hne, hrest]
    rw [MPS.forIn_unit_ok _ _ ?_]
    · exact ⟨_, rfl⟩
    · intro i hi
      have hi := List.mem_range.1 hi
      by_cases h1 : i ≥ 1
      · obtain ⟨j, rfl⟩ : ∃ j, i = j + 1 := ⟨i - 1, by omega⟩
        have hj : j < (X' :: Xs).length := by simp only [List.length_cons] at hi ⊢; omega
        obtain ⟨A, hA⟩ : ∃ A, (X' :: Xs)[j]? = some A := ⟨_, List.getElem?_eq_getElem hj⟩
        obtain ⟨B, hB⟩ : ∃ B, (Y' :: Ys)[j]? = some B := ⟨_, List.getElem?_eq_getElem (hlen' ▸ hj)⟩
        obtain ⟨a0, a1, a2, a3, as⟩ := s0 (j + 1) A (by simpa using hA)
        obtain ⟨b0, b1, b2, b3, bs⟩ := s1 (j + 1) B (by simpa using hB)
        have hg := rget j A B hA hB
        simp only [h1, if_true, List.getElem?_cons_succ, hg]
        rw [MPS.getD_map_range _ _ (j + 1) (by omega), MPS.getD_map_range _ _ (j + 1 + 1) (by omega)]
        have hL : (X :: X' :: Xs).length = (X' :: Xs).length + 1 := rfl
        have c1 : ¬(j + 1 = 0 ∨ j + 1 = (X :: X' :: Xs).length) := by omega
        have ab0 : A.d0 = B.d0 := by rw [a0, b0]
        have ab1 : A.d1 = B.d1 := by rw [a1, b1]
        rw [if_neg c1]
        have hsp : QN.isSparseT4 (if j + 1 = (X' :: Xs).length then (catMid A B).tab else (blockDiag A B).tab) qd0
            (qD0.getD (j + 1) [] ++ qD1.getD (j + 1) [])
            (if j + 1 + 1 = 0 ∨ j + 1 + 1 = (X :: X' :: Xs).length then qD0.getD (j + 1 + 1) []
              else qD0.getD (j + 1 + 1) [] ++ qD1.getD (j + 1 + 1) []) = true := by
          by_cases hlast : j + 1 = (X' :: Xs).length
          · have hJ : j + 1 + 1 = (X :: X' :: Xs).length := by omega
            rw [if_pos hlast, if_pos (Or.inr hJ)]
            rw [hJ, ← hbL, ← hJ] at bs b3
            exact sparse_catMid A B qd0 _ _ _ ab0 ab1 a2 (by rw [a3, b3]) as bs
          · have c2 : ¬(j + 1 + 1 = 0 ∨ j + 1 + 1 = (X :: X' :: Xs).length) := by omega
            rw [if_neg hlast, if_neg c2]
            exact sparse_blockDiag A B qd0 _ _ _ _ ab0 ab1 a2 a3 as bs
        simp only [hsp, if_true]
        rfl
      · simp only [h1, if_false]
        rfl

end Ptn.MPO

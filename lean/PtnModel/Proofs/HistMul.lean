import PtnModel.Proofs.HistSimple
import PtnModel.Proofs.DenseLoop
import PtnModel.Proofs.DenseMul
import PtnModel.Proofs.DenseApply
/-!
# C02: the results of `multiply_mpo` and `apply_operator` are well-formed

Block sparsity of every product tensor is asserted by the code itself (same `pyAssert` in the model); shapes and
charge-list lengths are derived from the well-formedness of the operands.
-/
set_option linter.unusedSectionVars false
namespace Ptn.HistWf
open Ptn.Hist Ptn.Ortho Ptn.Dense
variable {𝕜 : Type} [CommRing 𝕜] [DecidableEq 𝕜]

theorem getD_map_range' {β : Type} (f : Nat → β) (n i : Nat) (h : i < n) (dflt : β) :
    ((List.range n).map f).getD i dflt = f i := by
  simp [List.getD_eq_getElem?_getD, h]

/-- index form of a pointwise relation with an index list -/
theorem forall₂_range_get {β : Type} {P : Nat → β → Prop} {n : Nat} {as : List β}
    (h : List.Forall₂ P (List.range n) as) : as.length = n ∧ ∀ i (hi : i < as.length), P i as[i] := by
  have hl := h.length_eq
  rw [List.length_range] at hl
  refine ⟨hl.symm, fun i hi => ?_⟩
  have := h.get (i := i) (by rw [List.length_range]; omega) hi
  simpa using this

theorem multiply_wf (o0 o1 r : MPO 𝕜) (w0 : o0.wellFormed = true) (w1 : o1.wellFormed = true)
    (h : MPO.multiply o0 o1 = .ok r) : r.wellFormed = true := by
  rw [mpo_wellFormed_iff_idx] at w0 w1
  obtain ⟨l0, s0⟩ := w0
  obtain ⟨l1, s1⟩ := w1
  unfold MPO.multiply at h
  simp only [pyAssert_bind] at h
  obtain ⟨hlen, hqd, h⟩ := h
  simp only [bind_ok, pure_ok] at h
  obtain ⟨res, hfor, rfl⟩ := h
  have hlen : o0.A.length = o1.A.length := by simpa using hlen
  have hqd : o0.qd = o1.qd := by simpa using hqd
  have key : ∃ as, res = [] ++ as ∧ List.Forall₂
      (fun i Z => ∃ X Y, o0.A[i]? = some X ∧ o1.A[i]? = some Y ∧ Z = (MPO.mulT X Y).tab ∧
        QN.isSparseT4 Z o0.qd
          (((List.range (o0.A.length + 1)).map fun i => QN.flatten2 (o0.qD.getD i []) (o1.qD.getD i [])).getD i [])
          (((List.range (o0.A.length + 1)).map fun i => QN.flatten2 (o0.qD.getD i []) (o1.qD.getD i [])).getD (i + 1) [])
          = true)
      (List.range o0.A.length) as := by
    refine forIn_append_spec _ _ ?_ _ _ _ hfor
    intro i acc r' hr'
    split at hr'
    · rename_i X Y hX hY
      split at hr'
      · simp [throw_bind_ne] at hr'
      · simp only [pyAssert_bind, pure_ok] at hr'
        exact ⟨_, hr'.2.symm, X, Y, hX, hY, rfl, hr'.1⟩
    · rw [throw_bind_ne] at hr'
      exact hr'.elim
  obtain ⟨as, has, hfa⟩ := key
  have has : res = as := by simpa using has
  subst has
  obtain ⟨hl, hget⟩ := forall₂_range_get hfa
  rw [mpo_wellFormed_iff_idx]
  refine ⟨by simp [hl], fun i hi => ?_⟩
  have hi' : i < o0.A.length := by simpa [hl] using hi
  obtain ⟨X, Y, hX, hY, hZ, hsp⟩ := hget i hi
  show T4Wf res[i] o0.qd
    (((List.range (o0.A.length + 1)).map fun i => QN.flatten2 (o0.qD.getD i []) (o1.qD.getD i [])).getD i [])
    (((List.range (o0.A.length + 1)).map fun i => QN.flatten2 (o0.qD.getD i []) (o1.qD.getD i [])).getD (i + 1) [])
  rw [getD_map_range' _ _ i (by omega), getD_map_range' _ _ (i + 1) (by omega)] at hsp ⊢
  have hX' : o0.A[i] = X := by rw [List.getElem?_eq_getElem hi'] at hX; exact Option.some.inj hX
  have hY' : o1.A[i]'(by omega) = Y := by
    rw [List.getElem?_eq_getElem (by omega)] at hY; exact Option.some.inj hY
  have hw0 := s0 i hi'
  have hw1 := s1 i (by omega)
  rw [hX'] at hw0
  rw [hY'] at hw1
  refine ⟨?_, ?_, ?_, ?_, (Ortho.isSparseT4_iff _ _ _ _).1 hsp⟩
  · rw [hZ]; exact hw0.d0
  · rw [hZ, hqd]; exact hw1.d1
  · rw [hZ, flatten2_length, ← hw0.d2, ← hw1.d2]; rfl
  · rw [hZ, flatten2_length, ← hw0.d3, ← hw1.d3]; rfl

theorem apply_wf (o : MPO 𝕜) (ψ r : MPS 𝕜) (w0 : o.wellFormed = true) (w1 : ψ.wellFormed = true)
    (h : Op.applyOperator o ψ = .ok r) : r.wellFormed = true := by
  rw [mpo_wellFormed_iff_idx] at w0
  rw [wellFormed_iff_idx] at w1
  obtain ⟨l0, s0⟩ := w0
  obtain ⟨l1, s1⟩ := w1
  unfold Op.applyOperator at h
  simp only [pyAssert_bind] at h
  obtain ⟨hqd, hlen, _, h⟩ := h
  simp only [bind_ok, pure_ok] at h
  obtain ⟨res, hfor, rfl⟩ := h
  have hlen : ψ.A.length = o.A.length := by simpa using hlen
  have hqd : ψ.qd = o.qd := by simpa using hqd
  have key : ∃ as, res = [] ++ as ∧ List.Forall₂
      (fun i Z => ∃ W P, o.A[i]? = some W ∧ ψ.A[i]? = some P ∧ Z = (Op.appT W P).tab ∧
        QN.isSparseT3 Z ψ.qd
          (((List.range (ψ.A.length + 1)).map fun i => QN.flatten2 (o.qD.getD i []) (ψ.qD.getD i [])).getD i [])
          (((List.range (ψ.A.length + 1)).map fun i => QN.flatten2 (o.qD.getD i []) (ψ.qD.getD i [])).getD (i + 1) [])
          = true)
      (List.range ψ.A.length) as := by
    refine forIn_append_spec _ _ ?_ _ _ _ hfor
    intro i acc r' hr'
    split at hr'
    · rename_i W P hW hP
      split at hr'
      · simp [throw_bind_ne] at hr'
      · simp only [pyAssert_bind, pure_ok] at hr'
        exact ⟨_, hr'.2.symm, W, P, hW, hP, rfl, hr'.1⟩
    · rw [throw_bind_ne] at hr'
      exact hr'.elim
  obtain ⟨as, has, hfa⟩ := key
  have has : res = as := by simpa using has
  subst has
  obtain ⟨hl, hget⟩ := forall₂_range_get hfa
  rw [wellFormed_iff_idx]
  refine ⟨by simp [hl], fun i hi => ?_⟩
  have hi' : i < ψ.A.length := by simpa [hl] using hi
  obtain ⟨W, P, hW, hP, hZ, hsp⟩ := hget i hi
  show T3Wf res[i] ψ.qd
    (((List.range (ψ.A.length + 1)).map fun i => QN.flatten2 (o.qD.getD i []) (ψ.qD.getD i [])).getD i [])
    (((List.range (ψ.A.length + 1)).map fun i => QN.flatten2 (o.qD.getD i []) (ψ.qD.getD i [])).getD (i + 1) [])
  rw [getD_map_range' _ _ i (by omega), getD_map_range' _ _ (i + 1) (by omega)] at hsp ⊢
  have hW' : o.A[i]'(by omega) = W := by
    rw [List.getElem?_eq_getElem (by omega)] at hW; exact Option.some.inj hW
  have hP' : ψ.A[i] = P := by rw [List.getElem?_eq_getElem hi'] at hP; exact Option.some.inj hP
  have hw0 := s0 i (by omega)
  have hw1 := s1 i hi'
  rw [hW'] at hw0
  rw [hP'] at hw1
  refine ⟨?_, ?_, ?_, (Ortho.isSparseT3_iff _ _ _ _).1 hsp⟩
  · rw [hZ, hqd]; exact hw0.d0
  · rw [hZ, flatten2_length, ← hw0.d2, ← hw1.d1]; rfl
  · rw [hZ, flatten2_length, ← hw0.d3, ← hw1.d2]; rfl

end Ptn.HistWf

import PtnModel.Proofs.EvoCancel
/-!
# Krylov exponentials of gauge-related effective operators

The effective operators met by the backward call of a reversibility test are not literally those of the forward call: the
QR gauge between the two calls differs by unitaries on the bonds, so the operators are *intertwined* by a matrix `G`
(`M' G = G M`).  For exact local exponentials this is enough:

* `expm_spectral_any`   : the result of an exhausted Hermitian Krylov exponential is `∑ E(τ μ_e) a_e w_e` for *every*
                          decomposition `v = ∑ a_e w_e` of the start vector into eigenvectors;
* `krylov_cancel_gauge` : if `M' G = G M`, a forward run with `(A, v, dt)` returning `r` followed by a backward run with
                          `(A', G r, -dt)` returns `G v` (both runs exhausted, `E(a) E(-a) = 1`).  `G = 1` is `krylov_cancel`.
-/
set_option linter.unusedSectionVars false

namespace Ptn.Evo
open Ptn Ptn.Krylov Finset

variable {𝕜 : Type} [RCLike 𝕜]
local notation "conj" => starRingEnd 𝕜

/-- **The exhausted Krylov exponential is the spectral exponential**, whatever eigen-decomposition of the start vector is
used to evaluate it. -/
theorem expm_spectral_any {Afun : List 𝕜 → List 𝕜} {dnorm : List 𝕜 → ℝ} {deigh : List ℝ → List ℝ → List ℝ × Mat ℝ}
    {dexp : 𝕜 → 𝕜} {dexpm : Mat 𝕜 → Mat 𝕜} (hN : NormContract dnorm) {v r : List 𝕜} {m : Nat}
    {M : Nat → Nat → 𝕜} (hM : ActsAs v.length Afun M)
    (hH : ∀ i j, i < v.length → j < v.length → conj (M i j) = M j i) {τ : 𝕜}
    (hE : C15.EighAt Afun dnorm deigh v m) (hX : C15.Exhausted Afun dnorm v m)
    (h : expmKrylov Afun dnorm deigh dexp dexpm v τ m true = .ok r)
    {K : Nat} {μ : Nat → ℝ} {a : Nat → 𝕜} {w : Nat → List 𝕜}
    (hw : ∀ e, e < K → IsEigen v.length Afun (μ e) (w e))
    (hv : ∀ i, i < v.length → vget v i = ∑ e ∈ range K, a e * vget (w e) i) :
    r.length = v.length ∧
      ∀ i, i < v.length → vget r i = ∑ e ∈ range K, dexp (τ * ((μ e : ℝ) : 𝕜)) * a e * vget (w e) i := by
  have hA : IsHermitian v.length Afun := hM.isHermitian hH
  obtain ⟨k, θ, c, u, hu, hvc, hrl, hr⟩ := C15.expm_exact_partial hN hM hH hE hX h
  refine ⟨hrl, fun i hi => ?_⟩
  have hU : ∀ e, e < k → IsEigen v.length Afun (θ e) (u e) := fun e he => ⟨(hu e he).1, (hu e he).2.2⟩
  have hx : ∀ j, j < v.length → ∑ e ∈ range k, c e * vget (u e) j = ∑ e ∈ range K, a e * vget (w e) j :=
    fun j hj => by rw [← hvc j hj, ← hv j hj]
  rw [hr i hi]
  exact spectral_unique hA hU hw hx (fun x => dexp (τ * ((x : ℝ) : 𝕜))) i hi

/-- `G x` as a list of length `n` -/
noncomputable def mvec (n : Nat) (G : Nat → Nat → 𝕜) (x : List 𝕜) : List 𝕜 :=
  (List.range n).map fun i => ∑ j ∈ range n, G i j * vget x j

theorem mvec_length (n : Nat) (G : Nat → Nat → 𝕜) (x : List 𝕜) : (mvec n G x).length = n := by simp [mvec]

theorem vget_mvec {n : Nat} (G : Nat → Nat → 𝕜) (x : List 𝕜) {i : Nat} (hi : i < n) :
    vget (mvec n G x) i = ∑ j ∈ range n, G i j * vget x j := by
  unfold mvec
  rw [vget_map_range, if_pos hi]

/-- an intertwiner maps eigenvectors to eigenvectors -/
theorem isEigen_mvec {n : Nat} {Afun Afun' : List 𝕜 → List 𝕜} {M M' G : Nat → Nat → 𝕜} (hM : ActsAs n Afun M)
    (hM' : ActsAs n Afun' M')
    (hG : ∀ i j, i < n → j < n → ∑ l ∈ range n, M' i l * G l j = ∑ l ∈ range n, G i l * M l j)
    {θ : ℝ} {u : List 𝕜} (hu : IsEigen n Afun θ u) : IsEigen n Afun' θ (mvec n G u) := by
  refine ⟨mvec_length n G u, fun i hi => ?_⟩
  rw [hM' _ (mvec_length n G u) i hi, vget_mvec G u hi]
  have e1 : ∀ l ∈ range n, M' i l * vget (mvec n G u) l = ∑ j ∈ range n, (M' i l * G l j) * vget u j := by
    intro l hl
    rw [vget_mvec G u (mem_range.1 hl), mul_sum]
    exact sum_congr rfl fun j _ => by rw [mul_assoc]
  rw [sum_congr rfl e1, sum_comm]
  have e2 : ∀ j ∈ range n, ∑ l ∈ range n, (M' i l * G l j) * vget u j =
      ∑ l ∈ range n, G i l * (M l j * vget u j) := by
    intro j hj
    rw [← sum_mul, hG i j hi (mem_range.1 hj), sum_mul]
    exact sum_congr rfl fun l _ => by rw [mul_assoc]
  rw [sum_congr rfl e2, sum_comm, mul_sum]
  refine sum_congr rfl fun l hl => ?_
  rw [← mul_sum, ← hM u hu.1 l (mem_range.1 hl), hu.2 l (mem_range.1 hl)]
  ring

/-- core of the gauge cancellation: `G` maps eigenvectors of `Afun` to eigenvectors of `Afun'` with the same eigenvalue -/
theorem krylov_cancel_map {Afun Afun' : List 𝕜 → List 𝕜} {dnorm : List 𝕜 → ℝ}
    {deigh : List ℝ → List ℝ → List ℝ × Mat ℝ} {dexp : 𝕜 → 𝕜} {dexpm : Mat 𝕜 → Mat 𝕜} (hN : NormContract dnorm)
    {v r v' r' : List 𝕜} {m m' : Nat} {M M' G : Nat → Nat → 𝕜}
    (hM : ActsAs v.length Afun M) (hH : ∀ i j, i < v.length → j < v.length → conj (M i j) = M j i)
    (hM' : ActsAs v.length Afun' M') (hH' : ∀ i j, i < v.length → j < v.length → conj (M' i j) = M' j i)
    (hmap : ∀ (θ : ℝ) (u : List 𝕜), IsEigen v.length Afun θ u → IsEigen v.length Afun' θ (mvec v.length G u)) {dt : 𝕜}
    (hE : C15.EighAt Afun dnorm deigh v m) (hX : C15.Exhausted Afun dnorm v m)
    (h : expmKrylov Afun dnorm deigh dexp dexpm v dt m true = .ok r)
    (hv'l : v'.length = v.length)
    (hv' : ∀ i, i < v.length → vget v' i = ∑ j ∈ range v.length, G i j * vget r j)
    (hE' : C15.EighAt Afun' dnorm deigh v' m') (hX' : C15.Exhausted Afun' dnorm v' m')
    (h' : expmKrylov Afun' dnorm deigh dexp dexpm v' (-dt) m' true = .ok r')
    (hexp : ∀ x : ℝ, dexp (-dt * (x : 𝕜)) * dexp (dt * (x : 𝕜)) = 1) :
    r'.length = v.length ∧ ∀ i, i < v.length → vget r' i = ∑ j ∈ range v.length, G i j * vget v j := by
  obtain ⟨k, θ, c, u, hu, hvc, hrl, hr⟩ := C15.expm_exact_partial hN hM hH hE hX h
  have hU : ∀ e, e < k → IsEigen v.length Afun (θ e) (u e) := fun e he => ⟨(hu e he).1, (hu e he).2.2⟩
  have hW : ∀ e, e < k → IsEigen v'.length Afun' (θ e) (mvec v.length G (u e)) := fun e he => by
    rw [hv'l]; exact hmap _ _ (hU e he)
  -- `v' = G r = ∑ E(dt θ_e) c_e (G u_e)`
  have hdec : ∀ i, i < v'.length →
      vget v' i = ∑ e ∈ range k, (dexp (dt * ((θ e : ℝ) : 𝕜)) * c e) * vget (mvec v.length G (u e)) i := by
    intro i hi
    rw [hv'l] at hi
    rw [hv' i hi]
    have e1 : ∀ j ∈ range v.length, G i j * vget r j =
        ∑ e ∈ range k, (dexp (dt * ((θ e : ℝ) : 𝕜)) * c e) * (G i j * vget (u e) j) := by
      intro j hj
      rw [hr j (mem_range.1 hj), mul_sum]
      exact sum_congr rfl fun e _ => by ring
    rw [sum_congr rfl e1, sum_comm]
    refine sum_congr rfl fun e _ => ?_
    rw [vget_mvec G (u e) hi, mul_sum]
  obtain ⟨hl, hres⟩ := expm_spectral_any hN (v := v') (by rw [hv'l]; exact hM') (by rw [hv'l]; exact hH') hE' hX' h'
    hW hdec
  rw [hv'l] at hl hres
  refine ⟨hl, fun i hi => ?_⟩
  rw [hres i hi]
  have e2 : ∀ j ∈ range v.length, G i j * vget v j = ∑ e ∈ range k, c e * (G i j * vget (u e) j) := by
    intro j hj
    rw [hvc j (mem_range.1 hj), mul_sum]
    exact sum_congr rfl fun e _ => by ring
  rw [sum_congr rfl e2, sum_comm]
  refine sum_congr rfl fun e _ => ?_
  rw [vget_mvec G (u e) hi, ← mul_assoc, hexp (θ e), one_mul, mul_sum]

/-- **A forward and a backward Krylov exponential of intertwined operators cancel up to the intertwiner.**  `Afun` acts as
the Hermitian matrix `M`, `Afun'` as the Hermitian matrix `M'`, and `M' G = G M` on `n × n` entries.  The run on
`(Afun, v, dt)` returns `r`; the run on `(Afun', v', -dt)` with `v' = G r` returns `r'`; both runs exhaust their Krylov
spaces; `E(-dt x) E(dt x) = 1`.  Then `r' = G v`.  (`G` need not be unitary.) -/
theorem krylov_cancel_gauge {Afun Afun' : List 𝕜 → List 𝕜} {dnorm : List 𝕜 → ℝ}
    {deigh : List ℝ → List ℝ → List ℝ × Mat ℝ} {dexp : 𝕜 → 𝕜} {dexpm : Mat 𝕜 → Mat 𝕜} (hN : NormContract dnorm)
    {v r v' r' : List 𝕜} {m m' : Nat} {M M' G : Nat → Nat → 𝕜}
    (hM : ActsAs v.length Afun M) (hH : ∀ i j, i < v.length → j < v.length → conj (M i j) = M j i)
    (hM' : ActsAs v.length Afun' M') (hH' : ∀ i j, i < v.length → j < v.length → conj (M' i j) = M' j i)
    (hG : ∀ i j, i < v.length → j < v.length →
      ∑ l ∈ range v.length, M' i l * G l j = ∑ l ∈ range v.length, G i l * M l j) {dt : 𝕜}
    (hE : C15.EighAt Afun dnorm deigh v m) (hX : C15.Exhausted Afun dnorm v m)
    (h : expmKrylov Afun dnorm deigh dexp dexpm v dt m true = .ok r)
    (hv'l : v'.length = v.length)
    (hv' : ∀ i, i < v.length → vget v' i = ∑ j ∈ range v.length, G i j * vget r j)
    (hE' : C15.EighAt Afun' dnorm deigh v' m') (hX' : C15.Exhausted Afun' dnorm v' m')
    (h' : expmKrylov Afun' dnorm deigh dexp dexpm v' (-dt) m' true = .ok r')
    (hexp : ∀ x : ℝ, dexp (-dt * (x : 𝕜)) * dexp (dt * (x : 𝕜)) = 1) :
    r'.length = v.length ∧ ∀ i, i < v.length → vget r' i = ∑ j ∈ range v.length, G i j * vget v j :=
  krylov_cancel_map hN hM hH hM' hH' (fun _ _ hu => isEigen_mvec hM hM' hG hu) hE hX h hv'l hv' hE' hX' h' hexp

/-- the same with the intertwining relation stated on vectors: `A' (G x) = G (A x)` entrywise -/
theorem krylov_cancel_gauge' {Afun Afun' : List 𝕜 → List 𝕜} {dnorm : List 𝕜 → ℝ}
    {deigh : List ℝ → List ℝ → List ℝ × Mat ℝ} {dexp : 𝕜 → 𝕜} {dexpm : Mat 𝕜 → Mat 𝕜} (hN : NormContract dnorm)
    {v r v' r' : List 𝕜} {m m' : Nat} {M M' G : Nat → Nat → 𝕜}
    (hM : ActsAs v.length Afun M) (hH : ∀ i j, i < v.length → j < v.length → conj (M i j) = M j i)
    (hM' : ActsAs v.length Afun' M') (hH' : ∀ i j, i < v.length → j < v.length → conj (M' i j) = M' j i)
    (hG : ∀ x : List 𝕜, x.length = v.length → ∀ i, i < v.length →
      vget (Afun' (mvec v.length G x)) i = ∑ j ∈ range v.length, G i j * vget (Afun x) j) {dt : 𝕜}
    (hE : C15.EighAt Afun dnorm deigh v m) (hX : C15.Exhausted Afun dnorm v m)
    (h : expmKrylov Afun dnorm deigh dexp dexpm v dt m true = .ok r)
    (hv'l : v'.length = v.length)
    (hv' : ∀ i, i < v.length → vget v' i = ∑ j ∈ range v.length, G i j * vget r j)
    (hE' : C15.EighAt Afun' dnorm deigh v' m') (hX' : C15.Exhausted Afun' dnorm v' m')
    (h' : expmKrylov Afun' dnorm deigh dexp dexpm v' (-dt) m' true = .ok r')
    (hexp : ∀ x : ℝ, dexp (-dt * (x : 𝕜)) * dexp (dt * (x : 𝕜)) = 1) :
    r'.length = v.length ∧ ∀ i, i < v.length → vget r' i = ∑ j ∈ range v.length, G i j * vget v j := by
  refine krylov_cancel_map hN hM hH hM' hH' (fun θ u hu => ?_) hE hX h hv'l hv' hE' hX' h' hexp
  refine ⟨mvec_length _ G u, fun i hi => ?_⟩
  rw [hG u hu.1 i hi, vget_mvec G u hi, mul_sum]
  refine sum_congr rfl fun j hj => ?_
  rw [hu.2 j (mem_range.1 hj)]
  ring

end Ptn.Evo

import PtnModel.Proofs.HamGraphWords
import PtnModel.Proofs.BridgeChains
import PtnModel.Proofs.BridgeTerms
import PtnModel.Proofs.BridgeAut
/-!
# Dense matrices of the lattice-model MPOs

`lattice_denseIs` : chain-template models (`_local_opchains_to_mpo`): whenever the constructor returns for `L ≥ 1`, the MPO is
                    shaped with `L` sites and its dense matrix is `Σ_{chains} coeff · ⊗_k opmap[padded word_k]`;
`ising_denseIs`   : `ising_mpo`: the same with the terms `J Z_i Z_{i+1}`, `h Z_i`, `g X_i`;
`isingTerms`      : the explicit term list of the Ising Hamiltonian on `n` sites.
-/
set_option linter.unusedSectionVars false

namespace Ptn.Ham
open Ptn Ptn.Og Ptn.Ch List

variable {κ : Type} [CommRing κ] [DecidableEq κ]

/-- **chain-template models, dense.** -/
theorem lattice_denseIs (lat : Lattice κ) (L : Int) (b : Built κ) (h : localOpchainsToMpo lat L = .ok b) (hL : 1 ≤ L)
    (htw : ∀ t ∈ lat.lopchains, TemplateWF t) (hsq : ∀ p ∈ lat.opmap, IsSquare lat.qd.length p.2) :
    b.qd = lat.qd ∧ b.opmap = lat.opmap ∧
    MPO.DenseIs (b.mpo.toMPO lat.qd) lat.qd.length L.toNat
      (termsEntry lat.opmap (denChainsRaw (translateChains lat.lopchains L) L lat.oidIdentity)) := by
  unfold localOpchainsToMpo at h
  obtain ⟨g, hg, h⟩ := bind_ok h
  obtain ⟨m, hm, h⟩ := bind_ok h
  simp only [pure, Except.pure, Except.ok.injEq] at h
  subst h
  refine ⟨rfl, rfl, ?_⟩
  have hwf : ChainsWF (translateChains lat.lopchains L) L := by
    apply chainsWF_of_ok _ L lat.oidIdentity g hg hL
    intro c hc _
    have w := translateChains_wf htw L c hc
    exact ⟨w.start, w.fits, w.lens, w.q0, w.qlast⟩
  have hc := fromOpchains_consistent _ L _ g hg
  have hs := fromOpchains_singleSink _ L _ hwf g hg
  have hlen := Ptn.C05.from_opchains_length _ L _ g hwf hg
  apply fromOpgraph_denseIs lat.qd g lat.opmap false m hm hc hs L.toNat hlen (by omega) hsq
  intro w _
  rw [Ptn.C05.from_opchains_sem _ L _ g hg hL (fun c hc' _ => (translateChains_wf htw L c hc').start) w,
    chainsDen_eq_coeffIn]
  rfl

/-! ## Ising -/

/-- the terms of the Ising Hamiltonian on `n` sites: `J Z_i Z_{i+1}` (`i + 2 ≤ n`), `h Z_i`, `g X_i` -/
def isingTerms (J h g : κ) (n : Nat) : Sym κ :=
  ((List.range (n - 1)).map fun i => (placedWord [1, 1] n i, J)) ++
  ((List.range n).map fun i => (placedWord [1] n i, h)) ++
  ((List.range n).map fun i => (placedWord [2] n i, g))

theorem sum_map_add' {α : Type} (l : List α) (f1 f2 : α → κ) :
    (l.map fun a => f1 a + f2 a).sum = (l.map f1).sum + (l.map f2).sum := by
  induction l with
  | nil => simp
  | cons a l ih => simp only [map_cons, sum_cons, ih]; ring

theorem coeffIn_append (s1 s2 : Sym κ) (w : Word) : coeffIn (s1 ++ s2) w = coeffIn s1 w + coeffIn s2 w := by
  simp [coeffIn]

theorem coeffIn_placed (t : Word) (n m : Nat) (c : κ) (w : Word) :
    coeffIn ((List.range m).map fun i => (placedWord t n i, c)) w
      = ((List.range m).map fun i => if w = placedWord t n i then c else 0).sum := by
  simp only [coeffIn, map_map, Function.comp_def]
  apply Ch.sum_map_congr
  intro i _
  by_cases h : w = placedWord t n i
  · simp [h]
  · have : ¬ placedWord t n i = w := fun h' => h h'.symm
    simp [h, this]

theorem isingSum_eq_terms (J h g : κ) (w : Word) : isingSum J h g w = coeffIn (isingTerms J h g w.length) w := by
  unfold isingSum isingTerms
  rw [coeffIn_append, coeffIn_append, coeffIn_placed, coeffIn_placed, coeffIn_placed, sum_map_add', sum_map_add']
  congr 2
  -- the two-site term does not fit at the last position
  cases hn : w.length with
  | zero => simp
  | succ m =>
    rw [Nat.add_sub_cancel, range_succ, map_append, sum_append]
    have : ¬ w = placedWord [1, 1] (m + 1) m := by
      intro h'
      have := congrArg List.length h'
      simp [placedWord, hn] at this
    simp [this]

theorem isingOpmap_wf : OpMapWF (isingOpmap : OpMap κ) 2 := by
  intro p hp
  simp only [isingOpmap, mem_cons, not_mem_nil, or_false] at hp
  have hid : (Og.Mat.identity 2 : Og.Mat κ) = [[1, 0], [0, 1]] := rfl
  rcases hp with rfl | rfl | rfl <;> refine ⟨by simp [hid, pauliZ, pauliX], ?_⟩ <;>
    · intro row hrow
      simp only [hid, pauliZ, pauliX, mem_cons, not_mem_nil, or_false] at hrow
      rcases hrow with rfl | rfl <;> rfl

/-- **Ising, dense.**  Whenever `ising_mpo(L, J, h, g)` returns: `L ≥ 1`, the MPO has `L` sites of dimension 2 and its dense
matrix is `Σ_i J Z_i Z_{i+1} + h Z_i + g X_i`. -/
theorem ising_denseIs (L : Int) (J h g : κ) (b : Built κ) (hb : isingBuild L J h g = .ok b) :
    1 ≤ L ∧ b.qd = isingQd ∧ b.opmap = isingOpmap ∧
    MPO.DenseIs (b.mpo.toMPO isingQd) 2 L.toNat (termsEntry isingOpmap (isingTerms J h g L.toNat)) := by
  unfold isingBuild at hb
  rw [isingAutomaton_eq] at hb
  obtain ⟨a, ha, hb⟩ := bind_ok hb
  simp only [Except.ok.injEq] at ha
  subst ha
  obtain ⟨gr, hgr, hb⟩ := bind_ok hb
  obtain ⟨m, hm, hb⟩ := bind_ok hb
  simp only [pure, Except.pure, Except.ok.injEq] at hb
  subst hb
  have wf := isingAut_wf J h g
  obtain ⟨hlen, hL⟩ := Ptn.C17.automaton_length wf hgr
  refine ⟨hL, rfl, rfl, ?_⟩
  have hc := fromAutomaton_isConsistent hgr
  have hs := fromAutomaton_singleSink wf.valid hgr
  apply fromOpgraph_denseIs isingQd gr isingOpmap false m hm hc hs L.toNat hlen (by omega) isingOpmap_wf
  intro w hw
  rw [Ptn.C17.automaton_sem wf hgr w (by omega), ising_denF_sum, isingSum_eq_terms, hw]
  rfl

end Ptn.Ham

import PtnModel.Proofs.KryFullEvo
import PtnModel.Proofs.EvoRevExample1
import PtnModel.Proofs.SpecEighCtx
import PtnModel.Proofs.EvoExactExample
/-!
# A non-vacuity witness for the trace predicate `RunFull` (one site, full-length local Lanczos runs)

`Proofs/EvoRevExample1.lean` exhibits `RunExact` on the one-site system `H = 2·𝟙`: there the Krylov space of every local run is
one-dimensional, the run is exhausted but NOT full-length.  Here the analogous example in which every local Lanczos run
(local dimension 2, `numiter = 2`) really returns 2 vectors:

* `exHz` : the one-site MPO `σ_z` on one qubit (trivial charges), `exψ1 = |0⟩ + i|1⟩` (of `EvoRevExample1`),
* `exKF` : the kernels `exK1` (QR kernel `realQR`, 2-norm, `half = 1/2`, `dexp = Complex.exp`) with the exact
  `eigh_tridiagonal` kernel `C15.eighExact`; two Lanczos iterations.

The local map at a canonical one-site state is `diag(1, -1)` (`exz_local`).  For a start vector `(a₀, a₁)` with
`|a₀| = |a₁| ≠ 0` (`Bal`) the first Lanczos coefficient `α₀ = (|a₀|² − |a₁|²)/‖v‖²` vanishes and the first residual is
`A v₀`, of norm `1`, far above the breakdown threshold: the run returns two vectors (`full2_of_balanced`, `exz_mid`).  The
prologue state is balanced (`exz_prologue_bal`); a time step with imaginary time multiplies the two entries by
`exp(∓iτ)` (`expm2_balanced`, through `C15.expm_hermitian_exact_full`), so balance is preserved (`exz_step_bal`).

* `exFull1`     : all hypotheses (with `RunFull false`) hold jointly for actual runs of every length `n`, every real `τ`;
* `exFull1_rev` : the same plus the backward run with `RunFull true`;
* `exFull1_exact` : hence `RunExact` for these runs (`runExact_of_full`).
-/
set_option linter.unusedSectionVars false

namespace Ptn.Evo
open Ptn Ptn.BondOps Ptn.Ortho Ptn.Env Ptn.Krylov Ptn.Dense Finset

theorem vget_vdiv2 (v : List ℂ) (c : ℂ) : vget (vdiv 2 v c) 0 = vget v 0 / c ∧ vget (vdiv 2 v c) 1 = vget v 1 / c := by
  simp [vdiv, vget, List.range_succ]

theorem sqNorm_two {v : List ℂ} (hlen : v.length = 2) : sqNorm v = ‖vget v 0‖ ^ 2 + ‖vget v 1‖ ^ 2 := by
  rw [sqNorm_eq_sum, hlen, Finset.sum_range_succ, Finset.sum_range_succ, Finset.sum_range_zero, zero_add]

theorem full2_of_balanced {Afun : List ℂ → List ℂ} {v : List ℂ} (hlen : v.length = 2)
    (hA : IsHermitian v.length Afun)
    (h0 : ∀ x : List ℂ, x.length = 2 → vget (Afun x) 0 = vget x 0)
    (h1 : ∀ x : List ℂ, x.length = 2 → vget (Afun x) 1 = -vget x 1)
    (hbal : ‖vget v 0‖ = ‖vget v 1‖) (hne : vget v 0 ≠ 0) : C15.FullRun Afun sqrtNorm v 2 := by
  intro alpha beta V hl
  obtain ⟨hs1, _, _, hm, hn⟩ := lanczos_sizes _ _ hl
  have hle := (lanczos_le_length _ _ hl).1
  by_contra hne'
  have hV1 : V.n = 1 := by omega
  have hlt := C14.lanczos_full sqrtNorm_contract hA hl (by rw [hV1, hlen]; omega)
  obtain ⟨hfirst, _, _, hproj⟩ := C14.lanczos_relations sqrtNorm_contract hA hl
  rw [hlen] at hfirst hm
  have ha := hproj 0 0 (by omega) (by omega)
  set n : ℝ := sqrtNorm v with hn'
  set w : List ℂ := vdiv 2 v (RealLike.ofReal n) with hw
  have hwl : w.length = 2 := by simp [hw, vdiv]
  obtain ⟨w0, w1⟩ := vget_vdiv2 v (RealLike.ofReal n)
  rw [← hw, ofReal_eq] at w0 w1
  have hnsq : n ^ 2 = ‖vget v 0‖ ^ 2 + ‖vget v 1‖ ^ 2 := by
    rw [hn', ← sqNorm_two hlen]; exact Real.sq_sqrt (sqNorm_nonneg v)
  have hnpos : 0 < n ^ 2 := by rw [hnsq]; have := norm_pos_iff.2 hne; positivity
  have hn0 : n ≠ 0 := fun h => by rw [h] at hnpos; simp at hnpos
  rw [hfirst, hm] at ha
  have ha0 : alpha.getD 0 0 = 0 := by
    have e : vdot 2 w (Afun w) = 0 := by
      rw [vdot_eq_sum, Finset.sum_range_succ, Finset.sum_range_succ, Finset.sum_range_zero, zero_add,
        h0 w hwl, h1 w hwl, mul_neg, RCLike.conj_mul, RCLike.conj_mul, w0, w1, norm_div, norm_div, hbal]
      ring
    rw [e] at ha
    unfold tridiag at ha
    rw [if_pos rfl] at ha
    simpa using ha.symm
  have hres : lanczosResidual Afun alpha beta V (V.n - 1) = [vget w 0, -vget w 1] := by
    unfold lanczosResidual
    rw [hV1, if_neg (by omega), hfirst, hm, ha0]
    simp [vsub, vscale, List.range_succ, ofReal_eq, h0 w hwl, h1 w hwl]
    exact ⟨rfl, rfl⟩
  have hone : sqrtNorm ([vget w 0, -vget w 1] : List ℂ) = 1 := by
    unfold sqrtNorm
    rw [sqNorm_two rfl]
    have : ‖vget ([vget w 0, -vget w 1] : List ℂ) 0‖ ^ 2 + ‖vget ([vget w 0, -vget w 1] : List ℂ) 1‖ ^ 2 = 1 := by
      show ‖vget w 0‖ ^ 2 + ‖-vget w 1‖ ^ 2 = 1
      rw [norm_neg, w0, w1, norm_div, norm_div, div_pow, div_pow, ← add_div, ← hnsq]
      simp [hn0]
    rw [this, Real.sqrt_one]
  rw [hres, hone, hlen] at hlt
  exact absurd hlt (not_lt.2 thr2_lt_one.le)


theorem expm2_balanced {Afun : List ℂ → List ℂ} {deigh : List ℝ → List ℝ → List ℝ × Mat ℝ} {dexpm : Mat ℂ → Mat ℂ}
    {v r : List ℂ} (hlen : v.length = 2)
    (h0 : ∀ x : List ℂ, x.length = 2 → vget (Afun x) 0 = vget x 0)
    (h1 : ∀ x : List ℂ, x.length = 2 → vget (Afun x) 1 = -vget x 1)
    (hE : C15.EighAt Afun sqrtNorm deigh v 2) (hF : C15.FullRun Afun sqrtNorm v 2) {t : ℝ}
    (h : expmKrylov Afun sqrtNorm deigh Complex.exp dexpm v (Complex.I * t) 2 true = .ok r) :
    ‖vget r 0‖ = ‖vget v 0‖ ∧ ‖vget r 1‖ = ‖vget v 1‖ := by
  have hM : ActsAs v.length Afun (fun i j => if i = j then (if i = 0 then 1 else -1) else 0) := by
    intro x hx i hi
    rw [hlen] at hx hi ⊢
    interval_cases i
    · rw [h0 x hx]; simp
    · rw [h1 x hx]; simp
  have hH : ∀ i j, i < v.length → j < v.length →
      (starRingEnd ℂ) ((fun i j => if i = j then (if i = 0 then 1 else -1) else 0 : Nat → Nat → ℂ) i j) =
        (fun i j => if i = j then (if i = 0 then 1 else -1) else 0 : Nat → Nat → ℂ) j i := by
    intro i j hi hj
    rw [hlen] at hi hj
    interval_cases i <;> interval_cases j <;> simp
  obtain ⟨_, _, hall⟩ := C15.expm_hermitian_exact_full sqrtNorm_contract hM hH hE hF h
  have hall' := hall 2 (fun f => if f = 0 then 1 else -1) (fun f => vget v f)
    (fun f => if f = 0 then [1, 0] else [0, 1]) ?_ ?_
  · have r0 := hall' 0 (by rw [hlen]; omega)
    have r1 := hall' 1 (by rw [hlen]; omega)
    simp [Finset.sum_range_succ, vget] at r0 r1
    have n0 : ‖Complex.exp (Complex.I * (t : ℂ))‖ = 1 := by rw [mul_comm]; exact Complex.norm_exp_ofReal_mul_I t
    have n1 : ‖Complex.exp (-(Complex.I * (t : ℂ)))‖ = 1 := by
      have : -(Complex.I * (t : ℂ)) = ((-t : ℝ) : ℂ) * Complex.I := by push_cast; ring
      rw [this]; exact Complex.norm_exp_ofReal_mul_I _
    simp only [vget, List.getD_eq_getElem?_getD]
    rw [r0, r1, norm_mul, norm_mul, n0, n1, one_mul, one_mul]
    exact ⟨rfl, rfl⟩
  · intro f hf
    refine ⟨by interval_cases f <;> simp [hlen], ?_⟩
    intro i hi
    rw [hlen] at hi
    have e0 := h0 [1, 0] rfl
    have e1 := h1 [1, 0] rfl
    have e2 := h0 [0, 1] rfl
    have e3 := h1 [0, 1] rfl
    simp [vget] at e0 e1 e2 e3
    interval_cases f <;> interval_cases i <;> simp [vget, e0, e1, e2, e3]
  · intro i hi
    rw [hlen] at hi
    interval_cases i <;> simp [Finset.sum_range_succ, vget]


noncomputable def exHz : MPO ℂ :=
  ⟨[0, 0], [[0], [0]], [⟨2, 2, 1, 1, fun s t _ _ => if s = t then (if s = 0 then 1 else -1) else 0⟩]⟩
noncomputable def exKF : EvoKernels ℂ ℝ := { exK1 with deigh := C15.eighExact }

theorem exHz_shaped : C04.MPO.Shaped exHz 2 := by decide

theorem exHz_herm : C04.MPO.DenseHermitian exHz 2 := by
  intro s hs t ht
  have hs' : s ∈ digits [2] := hs
  have ht' : t ∈ digits [2] := ht
  obtain ⟨s0, r, h0, hr, rfl⟩ := mem_digits_cons.1 hs'
  obtain ⟨t0, u, g0, hu, rfl⟩ := mem_digits_cons.1 ht'
  simp only [digits_nil, Finset.mem_singleton] at hr hu
  subst hr hu
  interval_cases s0 <;> interval_cases t0 <;>
    simp [MPO.elem, MPO.elemRow, exHz, sumRange, List.range_succ]

theorem exKF_ctx (numiter : Nat) : SweepCtx exKF exHz [0, 0] numiter :=
  sweepCtx_of_eighExact (k := exKF) rfl ⟨realQR_contract, realQR_realDiag⟩ sqrtNorm_contract exHz_shaped exHz_herm
    (by decide) numiter

theorem exKF_exp : ∀ x : ℝ, ‖exKF.dexp (RCLike.I * (x : ℂ))‖ = 1 := exK1_exp

theorem exKF_expLaw : ExpLaw exKF.dexp := exK1_expLaw

theorem exKF_half : exKF.half + exKF.half = 1 := exK1_half

theorem exHz_wf : exHz.wellFormed = true := by
  refine (mpo_wellFormed_iff_idx exHz).2 ⟨rfl, ?_⟩
  intro i hi
  have hi' : i < 1 := hi
  interval_cases i
  refine ⟨rfl, rfl, rfl, rfl, ?_⟩
  intro s t a b hs ht ha hb hne
  have hs' : s < 2 := hs
  have ht' : t < 2 := ht
  have ha' : a < 1 := ha
  have hb' : b < 1 := hb
  interval_cases s <;> interval_cases t <;> interval_cases a <;> interval_cases b <;> simp [exHz] at hne ⊢

theorem exCompatz : C02.EvoCompat exHz exψ1 := ⟨rfl, rfl⟩

/-- boundary blocks of a one-site canonical state -/
theorem exz_blocks {s : Sweep ℂ} (h : Canon exHz [0, 0] s 0) :
    (getBL s 0).f 0 0 0 = 1 ∧ (getBR s 0).f 0 0 0 = 1 := by
  have hl := h.bl 0 le_rfl
  have hr := h.br 0 le_rfl h.hc
  have hlen : (cur [0, 0] s).A.length = 1 := h.len
  have b1 : mpsBond (cur [0, 0] s) 1 = 1 := by rw [h.bond (j := 1) (le_refl 1)]; exact h.qL
  constructor
  · have := hl.2.2.2 0 0 0 (by simp [mpsBond]) (by simp [mpoBond]) (by simp [mpsBond])
    rw [this]
    simp [digitsU, ampPrefix, elemPrefix, MPS.ampRow, MPO.elemRow]
  · have := hr.2.2.2 0 0 0 (by rw [b1]; exact one_pos) (by decide) (by rw [b1]; exact one_pos)
    rw [this, hlen]
    have hd : (cur [0, 0] s).A.drop 1 = [] := List.drop_eq_nil_of_le (le_of_eq hlen)
    simp [digitsU, ampSuffix, elemSuffix, MPS.ampRow, MPO.elemRow, hd, exHz]



/-- the local problem at a one-site canonical state of `exHz`: dimension 2, the map is `diag(1, -1)` -/
theorem exz_local {s : Sweep ℂ} (h : Canon exHz [0, 0] s 0) :
    (flat3 (getA s 0)).length = 2 ∧ vget (flat3 (getA s 0)) 0 = (getA s 0).f 0 0 0 ∧
    vget (flat3 (getA s 0)) 1 = (getA s 0).f 1 0 0 ∧
    (∀ x : List ℂ, x.length = 2 → vget (localHFun (getBL s 0) (getBR s 0) (exHz.A.getD 0 zeroT4) (getA s 0).d0
      (getA s 0).d1 (getA s 0).d2 x) 0 = vget x 0) ∧
    (∀ x : List ℂ, x.length = 2 → vget (localHFun (getBL s 0) (getBR s 0) (exHz.A.getD 0 zeroT4) (getA s 0).d0
      (getA s 0).d1 (getA s 0).d2 x) 1 = -vget x 1) := by
  obtain ⟨hF, hH⟩ := canon_local h (exKF_ctx 2).hH (exKF_ctx 2).herm
  obtain ⟨hL, hR⟩ := exz_blocks h
  obtain ⟨a0, a1, a2⟩ := h.wf.shape 0 h.hc
  have a0' : (getA s 0).d0 = 2 := a0
  have a1' : (getA s 0).d1 = 1 := a1.trans h.q0
  have a2' : (getA s 0).d2 = 1 := a2.trans h.qL
  have hM := actsAs_localHFun hF
  rw [← length_flat3] at hM
  have hlen : (flat3 (getA s 0)).length = 2 := by rw [length_flat3, a0', a1', a2']
  have v0 : vget (flat3 (getA s 0)) 0 = (getA s 0).f 0 0 0 := by
    have := vget_flat3 (getA s 0) (i := 0) (j := 0) (k := 0) (by omega) (by omega) (by omega)
    simpa using this
  have v1 : vget (flat3 (getA s 0)) 1 = (getA s 0).f 1 0 0 := by
    have := vget_flat3 (getA s 0) (i := 1) (j := 0) (k := 0) (by omega) (by omega) (by omega)
    simpa [a1', a2'] using this
  have hW : exHz.A.getD 0 zeroT4 = ⟨2, 2, 1, 1, fun s t _ _ => if s = t then (if s = 0 then 1 else -1) else 0⟩ := rfl
  refine ⟨hlen, v0, v1, ?_, ?_⟩
  · intro x hx
    rw [hM x (hx.trans hlen.symm) 0 (by omega), hlen, hW, a1', a2']
    simp [localMat, localKer, hL, hR]
  · intro x hx
    rw [hM x (hx.trans hlen.symm) 1 (by omega), hlen, hW, a1', a2']
    simp [localMat, localKer, hL, hR]

/-- the centre tensor has two entries of equal non-zero modulus -/
def Bal (s : Sweep ℂ) : Prop := ‖(getA s 0).f 0 0 0‖ = ‖(getA s 0).f 1 0 0‖ ∧ (getA s 0).f 0 0 0 ≠ 0

/-- KEY LEMMA: at a balanced canonical one-site state the local Lanczos run with `numiter = 2` returns 2 vectors -/
theorem exz_mid {s : Sweep ℂ} (h : Canon exHz [0, 0] s 0)
    (hbal : ‖(getA s 0).f 0 0 0‖ = ‖(getA s 0).f 1 0 0‖) (hne : (getA s 0).f 0 0 0 ≠ 0) : MidFull exKF exHz 2 s 0 := by
  obtain ⟨hF, hH⟩ := canon_local h (exKF_ctx 2).hH (exKF_ctx 2).herm
  obtain ⟨hlen, v0, v1, h0, h1⟩ := exz_local h
  have hA := isHermitian_localHFun hF hH
  rw [← length_flat3] at hA
  unfold MidFull
  exact full2_of_balanced hlen hA h0 h1 (by rw [v0, v1]; exact hbal) (by rw [v0]; exact hne)

/-- for one site a time step is the single local step at site `0` -/
theorem exz_step_eq (δ : ℂ) (s : Sweep ℂ) : tdvp1Step exKF exHz [0, 0] δ 2 s =
    (localHamiltonianStep exKF (getBL s 0) (getBR s 0) (exHz.A.getD 0 zeroT4) (getA s 0) δ 2).bind
      fun Al => .ok (⟨s.A.setIfInBounds 0 Al, s.qD, s.BL, s.BR⟩ : Sweep ℂ) := by
  rfl

theorem exz_step_ok {s : Sweep ℂ} {E : ℝ} (h : DInv exHz [0, 0] s 0 E) (δ : ℂ) :
    ∃ s', tdvp1Step exKF exHz [0, 0] δ 2 s = .ok s' := by
  obtain ⟨A1, hA1⟩ := centre_step_ok (exKF_ctx 2) (by omega) h δ
  rw [exz_step_eq, hA1]
  exact ⟨_, rfl⟩

theorem exz_step_inv {s s' : Sweep ℂ} {E : ℝ} (h : DInv exHz [0, 0] s 0 E) {δ : ℂ} (τ : ℝ) (hδ : δ = Complex.I * (τ : ℂ))
    (hrun : tdvp1Step exKF exHz [0, 0] δ 2 s = .ok s') : DInv exHz [0, 0] s' 0 E :=
  tdvp1Step_inv (exKF_ctx 2) exKF_exp (hh := 1 / 2) rfl hδ h hrun

theorem exz_iter_ok {δ : ℂ} (τ : ℝ) (hδ : δ = Complex.I * (τ : ℂ)) : ∀ (n : Nat) (s : Sweep ℂ) (E : ℝ),
    DInv exHz [0, 0] s 0 E → ∃ b, iterate (tdvp1Step exKF exHz [0, 0] δ 2) n s = .ok b ∧ DInv exHz [0, 0] b 0 E
  | 0, s, _, h => ⟨s, rfl, h⟩
  | n + 1, s, E, h => by
    obtain ⟨s', hs'⟩ := exz_step_ok h δ
    obtain ⟨b, hb, hinv⟩ := exz_iter_ok τ hδ n s' E (exz_step_inv h τ hδ hs')
    refine ⟨b, ?_, hinv⟩
    unfold iterate
    rw [hs']
    exact hb

theorem exz_stepFull (inv : Bool) (δ : ℂ) {s : Sweep ℂ} (h : Canon exHz [0, 0] s 0) (hb : Bal s) :
    StepFull inv exKF exHz [0, 0] δ 2 s := by
  refine ⟨trivial, ?_⟩
  intro s1 hs1
  have e : s = s1 := by
    have hs1' : (Except.ok s : Except Err (Sweep ℂ)) = .ok s1 := hs1
    injection hs1'
  subst e
  exact ⟨exz_mid h hb.1 hb.2, fun _ _ => trivial⟩


/-- a time step with imaginary time keeps the moduli of the two entries of the centre tensor -/
theorem exz_step_bal {s s' : Sweep ℂ} (h : Canon exHz [0, 0] s 0) (hb : Bal s) (τ : ℝ)
    (hrun : tdvp1Step exKF exHz [0, 0] (Complex.I * τ) 2 s = .ok s') : Bal s' := by
  rw [exz_step_eq] at hrun
  cases hl : localHamiltonianStep exKF (getBL s 0) (getBR s 0) (exHz.A.getD 0 zeroT4) (getA s 0) (Complex.I * τ) 2 with
  | error e => rw [hl] at hrun; cases hrun
  | ok Al =>
    rw [hl] at hrun
    have e : (⟨s.A.setIfInBounds 0 Al, s.qD, s.BL, s.BR⟩ : Sweep ℂ) = s' := by
      have hrun' : (Except.ok (⟨s.A.setIfInBounds 0 Al, s.qD, s.BL, s.BR⟩ : Sweep ℂ) : Except Err (Sweep ℂ)) = .ok s' := hrun
      injection hrun'
    subst e
    have hs : 0 < s.A.size := by rw [h.wf.sizeA]; exact h.hc
    have gA : getA (⟨s.A.setIfInBounds 0 Al, s.qD, s.BL, s.BR⟩ : Sweep ℂ) 0 = Al :=
      getD_setIfInBounds_eq _ _ _ hs
    obtain ⟨y, hy, rfl⟩ := localStep_unfold hl
    obtain ⟨hlen, v0, v1, h0, h1⟩ := exz_local h
    obtain ⟨a0, a1, a2⟩ := h.wf.shape 0 h.hc
    have a0' : (getA s 0).d0 = 2 := a0
    have a1' : (getA s 0).d1 = 1 := a1.trans h.q0
    have a2' : (getA s 0).d2 = 1 := a2.trans h.qL
    have hE := (exKF_ctx 2).eigh (localHFun (getBL s 0) (getBR s 0) (exHz.A.getD 0 zeroT4) (getA s 0).d0 (getA s 0).d1
      (getA s 0).d2) (flat3 (getA s 0))
    have hm : -(Complex.I * (τ : ℂ)) = Complex.I * ((-τ : ℝ) : ℂ) := by push_cast; ring
    rw [hm] at hy
    obtain ⟨r0, r1⟩ := expm2_balanced hlen h0 h1 hE (exz_mid h hb.1 hb.2) hy
    have f0 : (unflat3 y (getA s 0).d0 (getA s 0).d1 (getA s 0).d2).tab.f 0 0 0 = vget y 0 := by
      rw [t3_tab_f _ (by simp [a0']) (by simp [a1']) (by simp [a2']), unflat3_f, a1', a2']
    have f1 : (unflat3 y (getA s 0).d0 (getA s 0).d1 (getA s 0).d2).tab.f 1 0 0 = vget y 1 := by
      rw [t3_tab_f _ (by simp [a0']) (by simp [a1']) (by simp [a2']), unflat3_f, a1', a2']
    unfold Bal
    rw [gA, f0, f1, r0, r1, v0, v1]
    refine ⟨hb.1, ?_⟩
    rw [← norm_pos_iff, r0, v0, norm_pos_iff]
    exact hb.2

theorem exz_runFull (inv : Bool) (τ : ℝ) : ∀ (n : Nat) (s : Sweep ℂ) (E : ℝ),
    DInv exHz [0, 0] s 0 E → Bal s → RunFull inv exKF exHz [0, 0] (Complex.I * τ) 2 n s
  | 0, _, _, _, _ => trivial
  | n + 1, _, E, h, hb =>
    ⟨exz_stepFull inv _ h.can hb, fun s' hs' =>
      exz_runFull inv τ n s' E (exz_step_inv h τ rfl hs') (exz_step_bal h.can hb τ hs')⟩


theorem amp_one_site (ψ : MPS ℂ) (X : T3 ℂ) (hA : ψ.A = [X]) (hd : X.d1 = 1) (t : Nat) : ψ.amp [t] = X.f t 0 0 := by
  simp [MPS.amp, MPS.ampRow, hA, hd, sumRange, List.range_succ]

theorem exψ1_amp0 : exψ1.amp [0] = 1 := by
  simp [MPS.amp, MPS.ampRow, exψ1, sumRange, List.range_succ]

theorem exψ1_amp1 : exψ1.amp [1] = Complex.I := by
  simp [MPS.amp, MPS.ampRow, exψ1, sumRange, List.range_succ]

theorem mem_digitsU_one {t : Nat} (ht : t < 2) : [t] ∈ digitsU 2 1 := by
  show [t] ∈ digits [2]
  exact mem_digits_cons.2 ⟨t, [], ht, by simp [digits_nil], rfl⟩

theorem bal_aux {c a b : ℝ} (h0 : c * a = 1) (h1 : c * b = 1) : a = b ∧ a ≠ 0 := by
  have hc : c ≠ 0 := fun h => by rw [h, zero_mul] at h0; exact zero_ne_one h0
  refine ⟨mul_left_cancel₀ hc (h0.trans h1.symm), fun h => ?_⟩
  rw [h, mul_zero] at h0
  exact zero_ne_one h0

/-- the prologue state is balanced -/
theorem exz_prologue_bal {s0 : Sweep ℂ} {nrm : ℝ} (hp : prologue exKF exHz exψ1 = .ok (s0, nrm)) : Bal s0 := by
  obtain ⟨ψ1, E0, ho, hcur, hinv0⟩ := prologue_inv (exKF_ctx 2) rfl exψ1_adm hp
  have h := hinv0.can
  have d0 := C01.ortho_dense (exKF_ctx 2).qr exψ1_adm ho (s := [0]) (mem_digitsU_one (by omega))
  have d1 := C01.ortho_dense (exKF_ctx 2).qr exψ1_adm ho (s := [1]) (mem_digitsU_one (by omega))
  rw [exψ1_amp0] at d0
  rw [exψ1_amp1] at d1
  obtain ⟨a0, a1, a2⟩ := h.wf.shape 0 h.hc
  have a1' : (getA s0 0).d1 = 1 := a1.trans h.q0
  have hs : s0.A.size = 1 := h.wf.sizeA
  have hA : (cur [0, 0] s0).A = [getA s0 0] := by
    have hl : (cur [0, 0] s0).A.length = 1 := by rw [cur_length, hs]
    have hg := cur_getElem? [0, 0] s0 (j := 0) (by omega)
    match hc : (cur [0, 0] s0).A, hl, hg with
    | [x], _, hg => simp at hg; rw [hg]
  rw [← hcur, amp_one_site _ _ hA a1'] at d0 d1
  have n0 := congrArg norm d0
  have n1 := congrArg norm d1
  rw [norm_mul, norm_one] at n0
  rw [norm_mul, Complex.norm_I] at n1
  obtain ⟨e, hne⟩ := bal_aux n0 n1
  exact ⟨e, fun h0 => hne (by rw [h0, norm_zero])⟩


theorem exz_iter_bal (τ : ℝ) : ∀ (n : Nat) (s b : Sweep ℂ) (E : ℝ), DInv exHz [0, 0] s 0 E → Bal s →
    iterate (tdvp1Step exKF exHz [0, 0] (Complex.I * τ) 2) n s = .ok b → Bal b
  | 0, s, b, _, _, hb, hit => by
    have e : s = b := by
      have hit' : (Except.ok s : Except Err (Sweep ℂ)) = .ok b := hit
      injection hit'
    exact e ▸ hb
  | n + 1, s, b, E, h, hb, hit => by
    obtain ⟨s', hs'⟩ := exz_step_ok h (Complex.I * τ)
    unfold iterate at hit
    rw [hs'] at hit
    exact exz_iter_bal τ n s' b E (exz_step_inv h τ rfl hs') (exz_step_bal h.can hb τ hs') hit

/-- **non-vacuity of `RunFull`** — all hypotheses of the exactness theorems with `RunFull` in place of `RunExact` hold jointly
for actual runs of every length: one site, `H = σ_z`, `ψ = (1, i)`, kernels `exKF` (exact `eigh_tridiagonal`, `dexp = exp`),
TWO Lanczos iterations, each of which really returns two Krylov vectors (the start vector has components of equal modulus
along both eigenvectors, so the first residual has norm one) -/
theorem exFull1 (n : Nat) (τ : ℝ) : ∃ (s0 b : Sweep ℂ) (nrm : ℝ),
    SweepCtx exKF exHz exψ1.qd 2 ∧ ExpLaw exKF.dexp ∧ exKF.half + exKF.half = 1 ∧
    prologue exKF exHz exψ1 = .ok (s0, nrm) ∧ Canon exHz exψ1.qd s0 0 ∧ Complete exψ1.qd exHz.A.length 0 s0 ∧
    iterate (tdvp1Step exKF exHz exψ1.qd (Complex.I * τ) 2) n s0 = .ok b ∧
    RunFull false exKF exHz exψ1.qd (Complex.I * τ) 2 n s0 := by
  obtain ⟨ψ1, nrm, h1⟩ := C08.tdvp1_total (k := exKF) (H := exHz) (ψ := exψ1) (exKF_ctx 2) exKF_exp (hh := 1 / 2) (τ := τ) rfl
    (dt := Complex.I * τ) rfl (by omega) exHz_wf exCompatz rfl exψ1_adm rfl n
  obtain ⟨s0, b, _, hp, _, _, hcan0, hit, hcanb, _⟩ := integrate1_canon (k := exKF) (H := exHz) (exKF_ctx 2) exψ1_adm h1
  obtain ⟨_, E0, _, _, hinv0⟩ := prologue_inv (exKF_ctx 2) rfl exψ1_adm hp
  exact ⟨s0, b, nrm, exKF_ctx 2, exKF_expLaw, exKF_half, hp, hcan0,
    ⟨Nat.one_pos, fun j hj => absurd hj (Nat.not_lt_zero j), fun j hj hj' => absurd hj' (by show ¬ j < 1; omega)⟩, hit,
    exz_runFull false τ n s0 E0 hinv0 (exz_prologue_bal hp)⟩

/-- the same with the backward run (`inv = true`, time step `-(iτ)`) from the final state of the forward run -/
theorem exFull1_rev (n : Nat) (τ : ℝ) : ∃ (s0 b e : Sweep ℂ) (nrm : ℝ),
    SweepCtx exKF exHz exψ1.qd 2 ∧ ExpLaw exKF.dexp ∧ exKF.half + exKF.half = 1 ∧
    prologue exKF exHz exψ1 = .ok (s0, nrm) ∧ Canon exHz exψ1.qd s0 0 ∧ Complete exψ1.qd exHz.A.length 0 s0 ∧
    iterate (tdvp1Step exKF exHz exψ1.qd (Complex.I * τ) 2) n s0 = .ok b ∧
    iterate (tdvp1Step exKF exHz exψ1.qd (-(Complex.I * τ)) 2) n b = .ok e ∧
    RunFull false exKF exHz exψ1.qd (Complex.I * τ) 2 n s0 ∧
    RunFull true exKF exHz exψ1.qd (-(Complex.I * τ)) 2 n b ∧
    GaugeEq exHz exψ1.qd b b 0 := by
  obtain ⟨s0, b, nrm, ctx, hl, hh, hp, hcan0, hcomp, hit, hrun⟩ := exFull1 n τ
  obtain ⟨_, E0, _, _, hinv0⟩ := prologue_inv (exKF_ctx 2) rfl exψ1_adm hp
  have hm : -(Complex.I * (τ : ℂ)) = Complex.I * ((-τ : ℝ) : ℂ) := by push_cast; ring
  obtain ⟨b', hb', hinvb⟩ := exz_iter_ok τ rfl n s0 E0 hinv0
  have eb : b' = b := by
    have := hb'.symm.trans hit
    injection this
  subst eb
  have hbal := exz_iter_bal τ n s0 b' E0 hinv0 (exz_prologue_bal hp) hit
  obtain ⟨e, he, _⟩ := exz_iter_ok (-τ) hm n b' E0 hinvb
  refine ⟨s0, b', e, nrm, ctx, hl, hh, hp, hcan0, hcomp, hit, he, hrun, ?_, GaugeEq.refl hinvb.can⟩
  rw [hm]
  exact exz_runFull true (-τ) n b' E0 hinvb hbal

/-- the full-length runs of `exFull1` are exact runs (`runExact_of_full`) -/
theorem exFull1_exact (n : Nat) (τ : ℝ) : ∃ (s0 : Sweep ℂ) (nrm : ℝ),
    prologue exKF exHz exψ1 = .ok (s0, nrm) ∧ RunFull false exKF exHz exψ1.qd (Complex.I * τ) 2 n s0 ∧
    RunExact false exKF exHz exψ1.qd (Complex.I * τ) 2 n s0 := by
  obtain ⟨s0, _, nrm, ctx, _, _, hp, hcan0, _, _, hrun⟩ := exFull1 n τ
  exact ⟨s0, nrm, hp, hrun, runExact_of_full ctx hcan0 hrun⟩

end Ptn.Evo

import PtnModel.Proofs.OgTotal
import PtnModel.Proofs.OgSimplifyLev
/-!
# Small lemmas for `Props/C16Merge.lean`: `merge_edges` called directly
-/
set_option linter.unusedSectionVars false
namespace Ptn.Og
open List Rw
variable {κ : Type} [CommRing κ] [DecidableEq κ]

/-- a successful `merge_edges` passed its first assertion: both edges end (direction `d`) in the same node -/
theorem mergeEdges_base {g g' : Graph κ} {eid1 eid2 : Int} {d : Bool} (hr : g.mergeEdges eid1 eid2 d = .ok g')
    {edge1 edge2 : Edge κ} (h1 : dGet? g.edges eid1 = some edge1) (h2 : dGet? g.edges eid2 = some edge2) :
    edge1.nid d = edge2.nid d := by
  unfold Graph.mergeEdges at hr
  simp only [bind_ok, pyAssert_ok, Prod.exists, beq_iff_eq, Graph.getEdge, dGet_eq_ok_iff] at hr
  obtain ⟨e1, he1, e2, g1, hrem, _, hbase, _⟩ := hr
  rw [h1] at he1; cases he1
  rw [removeEdge_ok, h2] at hrem
  obtain ⟨he2, rfl⟩ := hrem
  cases he2
  exact hbase

/-- if the absorbed node lists no edge but `eid2` against the merge direction, it lists none at all
(`eid2` is listed there only if it is a self loop, and then `eid1` is listed there as well) -/
theorem eids_nil_of_erase {g : Graph κ} (h : SValid g) {eid1 eid2 : Int} {d : Bool} {edge1 edge2 : Edge κ}
    (h1 : dGet? g.edges eid1 = some edge1) (h2 : dGet? g.edges eid2 = some edge2)
    (hbase : edge1.nid d = edge2.nid d) (hnp : edge1.nid (!d) ≠ edge2.nid (!d))
    {N2 : Node} (hN2 : dGet? g.nodes (edge2.nid (!d)) = some N2) (he : (N2.eids (!d)).erase eid2 = []) :
    N2.eids (!d) = [] := by
  have hm1 := mem_of_dGet?_eq_some h1
  have hm2 := mem_of_dGet?_eq_some h2
  have hmN := mem_of_dGet?_eq_some hN2
  have hne : eid1 ≠ eid2 := by
    intro q; subst q; rw [h1] at h2; cases h2; exact hnp rfl
  by_cases hin : eid2 ∈ N2.eids (!d)
  · exfalso
    have hs := (h.mem_eids_iff hm2 hmN (!d)).1 hin
    simp only [Bool.not_not] at hs
    have hin1 : eid1 ∈ N2.eids (!d) := (h.mem_eids_iff hm1 hmN (!d)).2 (by simp only [Bool.not_not]; rw [hbase]; exact hs)
    have := (mem_erase_of_ne hne).2 hin1
    rw [he] at this; simp at this
  · rwa [erase_of_not_mem hin] at he

/-- a computation that either returns or raises an assertion error -/
def OkOrAssert {α : Type} (x : Except Ptn.Err α) : Prop := ∀ e, x = .error e → e = .assertion

theorem OkOrAssert.ok {α : Type} (a : α) : OkOrAssert (.ok a : Except Ptn.Err α) := fun _ h => by cases h

theorem OkOrAssert.of_ok {α : Type} {x : Except Ptn.Err α} {a : α} (h : x = .ok a) : OkOrAssert x := by
  rw [h]; exact OkOrAssert.ok a

theorem OkOrAssert.assert_bind {α : Type} (c : Bool) (f : Unit → Except Ptn.Err α) (hf : c = true → OkOrAssert (f ())) :
    OkOrAssert (Ptn.pyAssert c >>= f) := by
  cases c with
  | false => intro e he; cases he; rfl
  | true => exact hf rfl

/-- on a structurally valid graph `merge_edges` of two existing edges raises nothing but assertion errors -/
theorem mergeEdges_okOrAssert {g : Graph κ} (h : SValid g) {eid1 eid2 : Int} {d : Bool} {edge1 edge2 : Edge κ}
    (h1 : dGet? g.edges eid1 = some edge1) (h2 : dGet? g.edges eid2 = some edge2) :
    OkOrAssert (g.mergeEdges eid1 eid2 d) := by
  by_cases hbase : edge1.nid d = edge2.nid d
  swap
  · unfold Graph.mergeEdges
    have e1 : g.getEdge eid1 = .ok edge1 := dGet_eq_ok_iff.2 h1
    have e2 : g.removeEdge eid2 = .ok (edge2, { g with edges := dErase g.edges eid2 }) := removeEdge_ok.2 ⟨h2, rfl⟩
    rw [e1, ok_bind, e2, ok_bind]
    have : (edge1.nid d == edge2.nid d) = false := by simpa using hbase
    simp only [this]
    intro e he; cases he; rfl
  by_cases hnp : edge1.nid (!d) = edge2.nid (!d)
  · obtain ⟨g', hg'⟩ := mergeEdges_par_total h h1 h2 hbase hnp
    exact OkOrAssert.of_ok hg'
  have hm2 := mem_of_dGet?_eq_some h2
  have hm1 := mem_of_dGet?_eq_some h1
  have heid2 : edge2.eid = eid2 := h.edgeKey _ _ hm2
  obtain ⟨nb, hnb, hkb⟩ := h.edgeNode eid2 edge2 hm2 d
  have hlb := dGet?_eq_some_of_mem h.nodesKeys hnb
  have hkbk := dGet?_some_mem_keys hlb
  obtain ⟨N1, hN1m, _⟩ := h.edgeNode eid1 edge1 hm1 (!d)
  obtain ⟨N2, hN2m, _⟩ := h.edgeNode eid2 edge2 hm2 (!d)
  have hN1 := dGet?_eq_some_of_mem h.nodesKeys hN1m
  have hN2 := dGet?_eq_some_of_mem h.nodesKeys hN2m
  unfold Graph.mergeEdges
  have e1 : g.getEdge eid1 = .ok edge1 := dGet_eq_ok_iff.2 h1
  have e2 : g.removeEdge eid2 = .ok (edge2, { g with edges := dErase g.edges eid2 }) := removeEdge_ok.2 ⟨h2, rfl⟩
  rw [e1, ok_bind, e2, ok_bind]
  simp only [hbase, beq_self_eq_true, pyAssert_true, ok_bind]
  have e3 := (Rw.modifyNode_ok (g := ({ g with edges := dErase g.edges eid2 } : Graph κ)) (k := edge2.nid d)
      (f := fun n => n.removeEdgeId edge2.eid (!d))).2
    ⟨nb, _, hlb, Node.removeEdgeId_ok.2 ⟨by rw [heid2]; exact hkb, rfl⟩, rfl⟩
  rw [e3, ok_bind]
  have hnpb : ((edge1.nid (!d)) == edge2.nid (!d)) = false := by simpa using hnp
  simp only [hnpb, Bool.false_eq_true, if_false]
  refine OkOrAssert.assert_bind _ _ (fun _ => ?_)
  refine OkOrAssert.assert_bind _ _ (fun _ => ?_)
  set nb' := nb.setEids (!d) ((nb.eids (!d)).erase edge2.eid) with hnb'
  obtain ⟨node1, hnode1⟩ : ∃ node1, dGet? (dReplace g.nodes (edge2.nid d) nb') (edge1.nid (!d)) = some node1 := by
    rw [Rw.dGet?_dReplace]
    by_cases hq' : edge1.nid (!d) = edge2.nid d
    · simp only [hq', hkbk, and_self, if_true]; exact ⟨_, rfl⟩
    · simp only [hq', false_and, if_false]; exact ⟨N1, hN1⟩
  obtain ⟨node2, hnode2, hn2u⟩ : ∃ node2, dGet? (dReplace g.nodes (edge2.nid d) nb') (edge2.nid (!d)) = some node2 ∧
      (∀ x ∈ node2.eids (!d), x ∈ N2.eids (!d) ∧ x ≠ eid2) := by
    rw [Rw.dGet?_dReplace]
    by_cases hq' : edge2.nid (!d) = edge2.nid d
    · simp only [hq', hkbk, and_self, if_true]
      rw [hq', hlb] at hN2
      cases hN2
      refine ⟨nb', rfl, ?_⟩
      intro x hx
      rw [hnb', Node.setEids_eids_same, heid2] at hx
      exact ⟨mem_of_mem_erase hx, fun q => by subst q; exact (h.eidsNodup _ _ hnb (!d)).not_mem_erase hx⟩
    · simp only [hq', false_and, if_false]
      refine ⟨N2, hN2, ?_⟩
      intro x hx
      refine ⟨hx, fun q => ?_⟩
      subst q
      have := (h.mem_eids_iff hm2 (mem_of_dGet?_eq_some hN2) (!d)).1 hx
      simp only [Bool.not_not] at this
      exact hq' this.symm
  have e4 : (⟨dReplace g.nodes (edge2.nid d) nb', dErase g.edges eid2, g.nidTerminal⟩ : Graph κ).getNode
      (edge1.nid (!d)) = .ok node1 := dGet_eq_ok_iff.2 hnode1
  rw [e4, ok_bind]
  have e5 := (Rw.removeNode_ok (g := (⟨dReplace g.nodes (edge2.nid d) nb', dErase g.edges eid2, g.nidTerminal⟩ : Graph κ))
      (k := edge2.nid (!d))).2 ⟨hnode2, rfl⟩
  rw [e5, ok_bind]
  refine OkOrAssert.assert_bind _ _ (fun _ => ?_)
  refine OkOrAssert.assert_bind _ _ (fun _ => ?_)
  refine OkOrAssert.assert_bind _ _ (fun _ => ?_)
  refine OkOrAssert.assert_bind _ _ (fun _ => ?_)
  obtain ⟨g5, hg5, hn5, _⟩ := foldlM_modifyEdge_total (f := fun e => e.setNid d node1.nid) (node2.eids (!d))
    (⟨dErase (dReplace g.nodes (edge2.nid d) nb') (edge2.nid (!d)), dErase g.edges eid2, g.nidTerminal⟩ : Graph κ) (by
      intro k hk
      obtain ⟨hk1, hk2⟩ := hn2u k hk
      obtain ⟨e, he, _⟩ := h.nodeEdge _ _ (mem_of_dGet?_eq_some hN2) (!d) k hk1
      simp only [dKeys_dErase]
      exact (mem_erase_of_ne hk2).2 (mem_map.2 ⟨_, he, rfl⟩))
  rw [hg5, ok_bind]
  have hkeys3 : (dKeys (dReplace g.nodes (edge2.nid d) nb')).Nodup := by rw [Rw.dKeys_dReplace]; exact h.nodesKeys
  have hlast : dGet? g5.nodes (edge1.nid (!d)) = some node1 := by
    rw [hn5, dGet?_dErase _ hkeys3]
    simp only [hnp, if_false]
    exact hnode1
  exact OkOrAssert.of_ok (Rw.modifyNode_ok.2 ⟨node1, _, hlast, rfl, rfl⟩)

end Ptn.Og

import PtnModel.Proofs.AutBasic
/-!
# `from_automaton`: the reachability layers

`stepActive` computes (ascending, duplicate free) the set of states reached from a set of states along the edges
active at one site; `forwardLayers` / `backwardLayers` iterate it from the two terminals.
-/
set_option linter.unusedSectionVars false

namespace Ptn.Og
open List Ptn.Dense

/-! ## folds over `range` -/

theorem foldlM_range_ind {σ : Type} (f : σ → Nat → Except Err σ) (R : Nat → σ → Prop) :
    ∀ (n : Nat) (s r : σ), (∀ i s s', i < n → R i s → f s i = .ok s' → R (i + 1) s') →
      R 0 s → (List.range n).foldlM f s = .ok r → R n r := by
  intro n
  induction n with
  | zero => intro s r _ h0 hr; rw [List.range_zero, foldlM_ok_nil] at hr; subst hr; exact h0
  | succ n ih =>
    intro s r step h0 hr
    rw [List.range_succ, List.foldlM_append, bind_ok] at hr
    obtain ⟨m, h1, h2⟩ := hr
    have hm := ih s m (fun i s s' hi => step i s s' (by omega)) h0 h1
    rw [foldlM_ok_cons] at h2
    obtain ⟨s', h3, h4⟩ := h2
    rw [foldlM_ok_nil] at h4
    subst h4
    exact step n m s' (by omega) hm h3

/-- downward fold: `R k` holds after the rounds `n-1, …, k` -/
theorem foldlM_range_rev_ind {σ : Type} (f : σ → Nat → Except Err σ) (R : Nat → σ → Prop) :
    ∀ (n : Nat) (s r : σ), (∀ i s s', i < n → R (i + 1) s → f s i = .ok s' → R i s') →
      R n s → (List.range n).reverse.foldlM f s = .ok r → R 0 r := by
  intro n
  induction n with
  | zero => intro s r _ h0 hr; rw [List.range_zero, List.reverse_nil, foldlM_ok_nil] at hr; subst hr; exact h0
  | succ n ih =>
    intro s r step h0 hr
    rw [List.range_succ, List.reverse_append, List.reverse_singleton, List.singleton_append, foldlM_ok_cons] at hr
    obtain ⟨s', h1, h2⟩ := hr
    exact ih s' r (fun i s s' hi => step i s s' (by omega)) (step n s s' (by omega) h0 h1) h2

/-! ## ascending insertion -/

def Asc (l : List Int) : Prop := l.Pairwise (· < ·)

theorem Asc.nodup {l : List Int} (h : Asc l) : l.Nodup :=
  Pairwise.imp (fun hab => ne_of_lt hab) h

theorem mem_insertAsc (x y : Int) (l : List Int) : y ∈ insertAsc x l ↔ y = x ∨ y ∈ l := by
  induction l with
  | nil => simp [insertAsc]
  | cons z zs ih =>
    unfold insertAsc
    by_cases h1 : x < z
    · simp [h1]
    · by_cases h2 : x = z
      · subst h2; simp
      · have hb : (x == z) = false := by simpa using h2
        simp only [h1, if_false, hb, Bool.false_eq_true, mem_cons, ih]
        tauto

theorem insertAsc_asc (x : Int) (l : List Int) (h : Asc l) : Asc (insertAsc x l) := by
  induction l with
  | nil => simp [insertAsc, Asc]
  | cons z zs ih =>
    unfold Asc at h ih ⊢
    rw [pairwise_cons] at h
    unfold insertAsc
    by_cases h1 : x < z
    · simp only [h1, if_true]
      rw [pairwise_cons, pairwise_cons]
      refine ⟨?_, h⟩
      intro a ha
      rcases mem_cons.1 ha with rfl | ha
      · exact h1
      · exact lt_trans h1 (h.1 a ha)
    · by_cases h2 : x = z
      · subst h2; simp only [lt_self_iff_false, if_false, beq_self_eq_true, if_true]
        exact pairwise_cons.2 h
      · have hb : (x == z) = false := by simpa using h2
        simp only [h1, if_false, hb, Bool.false_eq_true]
        rw [pairwise_cons]
        refine ⟨?_, ih h.2⟩
        intro a ha
        rcases (mem_insertAsc x a zs).1 ha with rfl | ha
        · omega
        · exact h.1 a ha

/-! ## one reachability step -/

variable {κ : Type}

/-- `x` is reached from the state set `prev` along an edge active at site `i` in direction `d` -/
def Reach (a : AutOp κ) (d : Bool) (i : Nat) (prev : List Int) (x : Int) : Prop :=
  ∃ nid ∈ prev, ∃ node, dGet? a.nodes nid = some node ∧
    ∃ eid ∈ node.eids d, ∃ e, dGet? a.edges eid = some e ∧ e.active i = true ∧ e.nid d = x

theorem stepActive_inner {a : AutOp κ} {d : Bool} {i : Nat} (eids : List Int) (acc0 r : List Int)
    (hr : eids.foldlM (fun acc eid => do
        let edge ← dGet a.edges eid
        pure (if edge.active i then insertAsc (edge.nid d) acc else acc)) acc0 = .ok r)
    (h0 : Asc acc0) :
    Asc r ∧ ∀ x, x ∈ r ↔ x ∈ acc0 ∨ ∃ eid ∈ eids, ∃ e, dGet? a.edges eid = some e ∧ e.active i = true ∧ e.nid d = x := by
  have := foldlM_ok_ind _ (fun pre acc => Asc acc ∧ ∀ x, x ∈ acc ↔ x ∈ acc0 ∨
      ∃ eid ∈ pre, ∃ e, dGet? a.edges eid = some e ∧ e.active i = true ∧ e.nid d = x) ?_ eids [] acc0 r ?_ hr
  · simpa using this
  · intro pre eid s s' ⟨hs, hm⟩ hf
    rw [bind_ok] at hf
    obtain ⟨e, he, hf⟩ := hf
    rw [pure_ok] at hf
    rw [dGet_eq_ok_iff] at he
    subst hf
    by_cases hact : e.active i = true
    · simp only [hact, if_true]
      refine ⟨insertAsc_asc _ _ hs, ?_⟩
      intro x
      rw [mem_insertAsc, hm]
      constructor
      · rintro (rfl | h | ⟨eid', h1, h2⟩)
        · exact Or.inr ⟨eid, by simp, e, he, hact, rfl⟩
        · exact Or.inl h
        · exact Or.inr ⟨eid', by simp [h1], h2⟩
      · rintro (h | ⟨eid', h1, e', h2, h3, h4⟩)
        · exact Or.inr (Or.inl h)
        · rcases mem_append.1 h1 with h1 | h1
          · exact Or.inr (Or.inr ⟨eid', h1, e', h2, h3, h4⟩)
          · simp only [mem_singleton] at h1
            subst h1
            rw [he] at h2; cases h2
            exact Or.inl h4.symm
    · simp only [hact, Bool.false_eq_true, if_false]
      refine ⟨hs, ?_⟩
      intro x
      rw [hm]
      constructor
      · rintro (h | ⟨eid', h1, h2⟩)
        · exact Or.inl h
        · exact Or.inr ⟨eid', by simp [h1], h2⟩
      · rintro (h | ⟨eid', h1, e', h2, h3, h4⟩)
        · exact Or.inl h
        · rcases mem_append.1 h1 with h1 | h1
          · exact Or.inr ⟨eid', h1, e', h2, h3, h4⟩
          · simp only [mem_singleton] at h1
            subst h1
            rw [he] at h2; cases h2
            exact absurd h3 hact
  · exact ⟨h0, by simp⟩

theorem stepActive_spec {a : AutOp κ} {d : Bool} {i : Nat} {prev cur : List Int}
    (hr : a.stepActive d i prev = .ok cur) : Asc cur ∧ ∀ x, x ∈ cur ↔ Reach a d i prev x := by
  unfold AutOp.stepActive at hr
  have := foldlM_ok_ind _ (fun pre acc => Asc acc ∧ ∀ x, x ∈ acc ↔ Reach a d i pre x) ?_ prev [] [] cur ?_ hr
  · simpa using this
  · intro pre nid s s' ⟨hs, hm⟩ hf
    rw [bind_ok] at hf
    obtain ⟨node, hn, hf⟩ := hf
    rw [dGet_eq_ok_iff] at hn
    obtain ⟨h1, h2⟩ := stepActive_inner _ _ _ hf hs
    refine ⟨h1, ?_⟩
    intro x
    rw [h2, hm]
    unfold Reach
    constructor
    · rintro (⟨nid', h3, h4⟩ | h)
      · exact ⟨nid', by simp [h3], h4⟩
      · exact ⟨nid, by simp, node, hn, h⟩
    · rintro ⟨nid', h3, node', h4, h5⟩
      rcases mem_append.1 h3 with h3 | h3
      · exact Or.inl ⟨nid', h3, node', h4, h5⟩
      · simp only [mem_singleton] at h3
        subst h3
        rw [hn] at h4; cases h4
        exact Or.inr h5
  · exact ⟨by simp [Asc], by simp [Reach]⟩

/-! ## the layers -/

theorem forwardLayers_spec {a : AutOp κ} {L : Nat} {fwd : List (List Int)}
    (hr : a.forwardLayers L = .ok fwd) :
    fwd.length = L + 1 ∧ fwd.getD 0 [] = [a.term false] ∧
      ∀ j, j < L → a.stepActive true j (fwd.getD j []) = .ok (fwd.getD (j + 1) []) := by
  unfold AutOp.forwardLayers at hr
  refine foldlM_range_ind _ (fun k layers => layers.length = k + 1 ∧ layers.getD 0 [] = [a.term false] ∧
      ∀ j, j < k → a.stepActive true j (layers.getD j []) = .ok (layers.getD (j + 1) [])) L _ _ ?_ ?_ hr
  · intro i s s' _ ⟨h1, h2, h3⟩ hf
    rw [bind_ok] at hf
    obtain ⟨cur, hc, hf⟩ := hf
    rw [pure_ok] at hf
    subst hf
    have hlast : s.getLastD [] = s.getD i [] := by
      rw [List.getLastD_eq_getLast?, List.getLast?_eq_getElem?, List.getD_eq_getElem?_getD, h1]
      simp
    refine ⟨by simp [h1], ?_, ?_⟩
    · rw [List.getD_eq_getElem?_getD, List.getElem?_append_left (by omega), ← List.getD_eq_getElem?_getD]
      exact h2
    · intro j hj
      by_cases hji : j < i
      · have := h3 j hji
        rw [List.getD_eq_getElem?_getD, List.getD_eq_getElem?_getD,
          List.getElem?_append_left (by omega), List.getElem?_append_left (by omega),
          ← List.getD_eq_getElem?_getD, ← List.getD_eq_getElem?_getD]
        exact this
      · have hji : j = i := by omega
        subst hji
        rw [hlast] at hc
        rw [List.getD_eq_getElem?_getD, List.getD_eq_getElem?_getD,
          List.getElem?_append_left (by omega), List.getElem?_append_right (by omega),
          ← List.getD_eq_getElem?_getD]
        simp only [h1, Nat.sub_self, getElem?_cons_zero, Option.getD_some]
        exact hc
  · exact ⟨rfl, rfl, by intro j hj; omega⟩

theorem backwardLayers_spec {a : AutOp κ} {L : Nat} {back : List (List Int)}
    (hr : a.backwardLayers L = .ok back) :
    back.length = L + 1 ∧ back.getD L [] = [a.term true] ∧
      ∀ j, j < L → a.stepActive false j (back.getD (j + 1) []) = .ok (back.getD j []) := by
  unfold AutOp.backwardLayers at hr
  have := foldlM_range_rev_ind _ (fun k layers => layers.length = L - k + 1 ∧ layers.getD (L - k) [] = [a.term true] ∧
      ∀ j, k ≤ j → j < L → a.stepActive false j (layers.getD (j + 1 - k) []) = .ok (layers.getD (j - k) []))
      L _ _ ?_ ?_ hr
  · simpa using this
  · intro i s s' hi ⟨h1, h2, h3⟩ hf
    rw [bind_ok] at hf
    obtain ⟨cur, hc, hf⟩ := hf
    rw [pure_ok] at hf
    subst hf
    have hhead : s.headD [] = s.getD 0 [] := by cases s <;> rfl
    refine ⟨by simp [h1]; omega, ?_, ?_⟩
    · have : L - i = (L - (i + 1)) + 1 := by omega
      rw [this, List.getD_cons_succ]; exact h2
    · intro j hj hjL
      by_cases hji : j = i
      · subst hji
        have : j + 1 - j = 0 + 1 := by omega
        rw [this, List.getD_cons_succ, Nat.sub_self, List.getD_cons_zero, ← hhead]
        exact hc
      · have e1 : j + 1 - i = (j + 1 - (i + 1)) + 1 := by omega
        have e2 : j - i = (j - (i + 1)) + 1 := by omega
        rw [e1, e2, List.getD_cons_succ, List.getD_cons_succ]
        exact h3 j (by omega) hjL
  · refine ⟨by simp, by simp, ?_⟩
    intro j hj hjL; omega

end Ptn.Og

import PtnModel.Proofs.ExplTab
/-!
# Explicit molecular graph, part 3: the edge added by `_molecular_hamiltonian_graph_add_term`, with explicit end nodes
-/
set_option linter.unusedSectionVars false
set_option linter.unusedSimpArgs false
set_option linter.unusedVariables false
set_option linter.unusedTactic false
set_option linter.unreachableTactic false

namespace Ptn.Ham
open Ptn.Og List

variable {κ : Type} [CommRing κ] [DecidableEq κ]

/-- label of `nodes.get(oplist, connection)[k]` -/
def getLab (oplist : List (Int × Int)) (left : Bool) (k : Int) : Lab :=
  match oplist with
  | [(i, oid)] => if oid == mC then (if left then 0 else 5, [i], k) else (if left then 1 else 6, [i], k)
  | [(i, oid0), (j, oid1)] =>
    if oid0 == mC && oid1 == mC then (if left then 2 else 7, [(sort2 i j).1, (sort2 i j).2], k)
    else if oid0 == mA && oid1 == mA then (if left then 3 else 8, [(sort2 i j).2, (sort2 i j).1], k)
    else if oid0 == mC && oid1 == mA then (if left then 4 else 9, [i, j], k)
    else (if left then 4 else 9, [j, i], k)
  | _ => default

/-- the edge `_molecular_hamiltonian_graph_add_term` adds for a sorted operator list: (source label, target label, operator id) -/
def termLab (L : Int) : List (Int × Int) → Lab × Lab × Int
  | [(i, oid0), (j, oid1)] =>
    if i == j then ((10, [], i), (11, [], i + 1), mN)
    else if j ≤ L / 2 then (getLab [(i, oid0)] true j, (11, [], j + 1), oid1)
    else if i ≥ L / 2 then ((10, [], i), getLab [(j, oid1)] false (i + 1), oid0)
    else (getLab [(i, oid0)] true (L / 2), getLab [(j, oid1)] false (L / 2 + 1), mZ)
  | [(i, o0), (j, o1), (k, o2), (l, o3)] =>
    if j == k then (getLab [(i, o0)] true j, getLab [(l, o3)] false (j + 1), mN)
    else if k ≤ L / 2 then
      if k == l then (getLab [(i, o0), (j, o1)] true k, (11, [], k + 1), mN)
      else (getLab [(i, o0), (j, o1)] true k, getLab [(l, o3)] false (k + 1), o2)
    else if j ≥ L / 2 then
      if i == j then ((10, [], j), getLab [(k, o2), (l, o3)] false (j + 1), mN)
      else (getLab [(i, o0)] true j, getLab [(k, o2), (l, o3)] false (j + 1), o1)
    else (getLab [(i, o0), (j, o1)] true (L / 2), getLab [(k, o2), (l, o3)] false (L / 2 + 1), mI)
  | _ => default

def hopLab (L i j : Int) : Lab × Lab × Int := termLab L (sortPairs [(i, mC), (j, mA)])
def intLab (L i j k l : Int) : Lab × Lab × Int := termLab L (sortPairs [(i, mC), (j, mC), (l, mA), (k, mA)])

theorem nidOf_idL (L k : Int) (h0 : 0 ≤ k) (h1 : k < L) : (MolNodes.init L).nidOf (10, [], k) = k := by
  have h := look_ok L (10, [], k) (by simp only [labOk]; omega)
  have h' : (MolNodes.init L).look (10, [], k) = dGet (MolNodes.init L).identityL k := rfl
  rw [h', identityL_dGet L k h0 h1] at h
  unfold MolNodes.nidOf
  rw [← Except.ok.inj h]

theorem nidOf_idR (L k : Int) (h0 : 1 ≤ k) (h1 : k < L + 1) : (MolNodes.init L).nidOf (11, [], k) = L + k - 1 := by
  have h := look_ok L (11, [], k) (by simp only [labOk]; omega)
  have h' : (MolNodes.init L).look (11, [], k) = dGet (MolNodes.init L).identityR k := rfl
  rw [h', identityR_dGet L k h0 h1] at h
  unfold MolNodes.nidOf
  rw [← Except.ok.inj h]

/-- evaluation of the case analysis with every look-up replaced by its value, on both sides -/
macro "lab_eval" : tactic =>
  `(tactic| simp (disch := omega) only [sortPairs, List.foldr, insertPair_nil, insertPair_le, insertPair_gt, mC, mA, mN, mI, mZ,
      beq_iff_eq, if_pos, if_neg, decide_eq_true, pyAssert_true_bind, ok_bind, pure_bind, MolNodes.get, sort2,
      beq_self_eq_true, Bool.and_self, Bool.and_true, Bool.true_and, ite_true, ite_false, Bool.false_eq_true, ↓reduceIte,
      Bool.and_eq_true, and_false, false_and, true_and, and_true, and_self,
      aDagL_get, aDagL_dGet, aAnnL_get, aAnnL_dGet, aDagADagL_get, aDagADagL_dGet, aAnnAAnnL_get, aAnnAAnnL_dGet,
      aDagAAnnL_get, aDagAAnnL_dGet, aDagR_get, aDagR_dGet, aAnnR_get, aAnnR_dGet, aDagADagR_get, aDagADagR_dGet,
      aAnnAAnnR_get, aAnnAAnnR_dGet, aDagAAnnR_get, aDagAAnnR_dGet, identityL_dGet, identityR_dGet,
      hopLab, intLab, termLab, getLab, nidOf_idL, nidOf_idR])

macro "lab_done" : tactic =>
  `(tactic| first
    | (exfalso; omega)
    | (lab_eval; done)
    | (lab_eval; rfl))

/-- **hopping terms**, with the end nodes spelled out -/
theorem molAddTerm_hop_lab (L : Int) (hL : 4 ≤ L) (g : Graph κ) (m : Int) (hm : maxInt? (dKeys g.edges) = some m) (coeff : κ)
    (i j : Int) (hi : 0 ≤ i) (hiL : i < L) (hj : 0 ≤ j) (hjL : j < L) :
    molAddTerm g (MolNodes.init L) [(i, mC), (j, mA)] coeff
      = g.addConnectEdge (Edge.mk' (m + 1) ((MolNodes.init L).nidOf (hopLab L i j).1, (MolNodes.init L).nidOf (hopLab L i j).2.1)
          [((hopLab L i j).2.2, coeff)]) := by
  unfold molAddTerm
  rw [hm]
  have hLinit : (MolNodes.init L).L = L := rfl
  simp only [hLinit, pure_bind]
  have t := Int.lt_trichotomy i j
  rcases t with h | h | h
  · by_cases c1 : j ≤ L / 2 <;> by_cases c2 : i ≥ L / 2 <;> lab_done
  · subst h
    lab_done
  · by_cases c1 : i ≤ L / 2 <;> by_cases c2 : j ≥ L / 2 <;> lab_done


/-- interaction terms with `i < k`, end nodes spelled out -/
theorem molAddTerm_int_lt_lab (L : Int) (hL : 4 ≤ L) (g : Graph κ) (m : Int) (hm : maxInt? (dKeys g.edges) = some m) (coeff : κ)
    (i j k l : Int) (hi : 0 ≤ i) (hij : i < j) (hjL : j < L) (hk : 0 ≤ k) (hkl : k < l) (hlL : l < L) (h1 : i < k) :
    molAddTerm g (MolNodes.init L) [(i, mC), (j, mC), (l, mA), (k, mA)] coeff
      = g.addConnectEdge (Edge.mk' (m + 1)
          ((MolNodes.init L).nidOf (intLab L i j k l).1, (MolNodes.init L).nidOf (intLab L i j k l).2.1)
          [((intLab L i j k l).2.2, coeff)]) := by
  unfold molAddTerm
  rw [hm]
  have hLinit : (MolNodes.init L).L = L := rfl
  simp only [hLinit, pure_bind]
  have t2 := Int.lt_trichotomy i l
  have t3 := Int.lt_trichotomy j k
  have t4 := Int.lt_trichotomy j l
  rcases t2 with h2 | h2 | h2 <;> rcases t3 with h3 | h3 | h3 <;> rcases t4 with h4 | h4 | h4 <;>
    first
    | (exfalso; omega)
    | (subst_vars
       sort_eval
       simp (disch := omega) only [intLab, sortPairs, List.foldr, insertPair_nil, insertPair_le, insertPair_gt, mC, mA, mN, mI, mZ, termLab,
         beq_iff_eq, if_pos, if_neg, ↓reduceIte]
       first
       | (split_ifs <;> lab_done)
       | lab_done)

/-- interaction terms with `i = k`, end nodes spelled out -/
theorem molAddTerm_int_eq_lab (L : Int) (hL : 4 ≤ L) (g : Graph κ) (m : Int) (hm : maxInt? (dKeys g.edges) = some m) (coeff : κ)
    (i j k l : Int) (hi : 0 ≤ i) (hij : i < j) (hjL : j < L) (hk : 0 ≤ k) (hkl : k < l) (hlL : l < L) (h1 : i = k) :
    molAddTerm g (MolNodes.init L) [(i, mC), (j, mC), (l, mA), (k, mA)] coeff
      = g.addConnectEdge (Edge.mk' (m + 1)
          ((MolNodes.init L).nidOf (intLab L i j k l).1, (MolNodes.init L).nidOf (intLab L i j k l).2.1)
          [((intLab L i j k l).2.2, coeff)]) := by
  unfold molAddTerm
  rw [hm]
  have hLinit : (MolNodes.init L).L = L := rfl
  simp only [hLinit, pure_bind]
  have t2 := Int.lt_trichotomy i l
  have t3 := Int.lt_trichotomy j k
  have t4 := Int.lt_trichotomy j l
  rcases t2 with h2 | h2 | h2 <;> rcases t3 with h3 | h3 | h3 <;> rcases t4 with h4 | h4 | h4 <;>
    first
    | (exfalso; omega)
    | (subst_vars
       sort_eval
       simp (disch := omega) only [intLab, sortPairs, List.foldr, insertPair_nil, insertPair_le, insertPair_gt, mC, mA, mN, mI, mZ, termLab,
         beq_iff_eq, if_pos, if_neg, ↓reduceIte]
       first
       | (split_ifs <;> lab_done)
       | lab_done)

/-- interaction terms with `i > k`, end nodes spelled out -/
theorem molAddTerm_int_gt_lab (L : Int) (hL : 4 ≤ L) (g : Graph κ) (m : Int) (hm : maxInt? (dKeys g.edges) = some m) (coeff : κ)
    (i j k l : Int) (hi : 0 ≤ i) (hij : i < j) (hjL : j < L) (hk : 0 ≤ k) (hkl : k < l) (hlL : l < L) (h1 : k < i) :
    molAddTerm g (MolNodes.init L) [(i, mC), (j, mC), (l, mA), (k, mA)] coeff
      = g.addConnectEdge (Edge.mk' (m + 1)
          ((MolNodes.init L).nidOf (intLab L i j k l).1, (MolNodes.init L).nidOf (intLab L i j k l).2.1)
          [((intLab L i j k l).2.2, coeff)]) := by
  unfold molAddTerm
  rw [hm]
  have hLinit : (MolNodes.init L).L = L := rfl
  simp only [hLinit, pure_bind]
  have t2 := Int.lt_trichotomy i l
  have t3 := Int.lt_trichotomy j k
  have t4 := Int.lt_trichotomy j l
  rcases t2 with h2 | h2 | h2 <;> rcases t3 with h3 | h3 | h3 <;> rcases t4 with h4 | h4 | h4 <;>
    first
    | (exfalso; omega)
    | (subst_vars
       sort_eval
       simp (disch := omega) only [intLab, sortPairs, List.foldr, insertPair_nil, insertPair_le, insertPair_gt, mC, mA, mN, mI, mZ, termLab,
         beq_iff_eq, if_pos, if_neg, ↓reduceIte]
       first
       | (split_ifs <;> lab_done)
       | lab_done)

/-- **interaction terms**, with the end nodes spelled out -/
theorem molAddTerm_int_lab (L : Int) (hL : 4 ≤ L) (g : Graph κ) (m : Int) (hm : maxInt? (dKeys g.edges) = some m) (coeff : κ)
    (i j k l : Int) (hi : 0 ≤ i) (hij : i < j) (hjL : j < L) (hk : 0 ≤ k) (hkl : k < l) (hlL : l < L) :
    molAddTerm g (MolNodes.init L) [(i, mC), (j, mC), (l, mA), (k, mA)] coeff
      = g.addConnectEdge (Edge.mk' (m + 1)
          ((MolNodes.init L).nidOf (intLab L i j k l).1, (MolNodes.init L).nidOf (intLab L i j k l).2.1)
          [((intLab L i j k l).2.2, coeff)]) := by
  rcases Int.lt_trichotomy i k with h1 | h1 | h1
  · exact molAddTerm_int_lt_lab L hL g m hm coeff i j k l hi hij hjL hk hkl hlL h1
  · exact molAddTerm_int_eq_lab L hL g m hm coeff i j k l hi hij hjL hk hkl hlL h1
  · exact molAddTerm_int_gt_lab L hL g m hm coeff i j k l hi hij hjL hk hkl hlL h1

end Ptn.Ham

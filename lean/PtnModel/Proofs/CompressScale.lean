import PtnModel.Proofs.CompressRun
/-!
# Absorbing the phase into the last tensor (`self.A[-1] *= T/|T|`)

`scaleLast c As` keeps well-formedness, multiplies all matrix products by `c`, keeps left isometries when
`|c| = 1`, and commutes with mirroring.
-/
set_option linter.unusedSectionVars false
set_option linter.unusedVariables false
namespace Ptn.Compress
open Ptn.BondOps Ptn.Ortho Ptn.Env Finset

variable {𝕜 : Type} [RCLike 𝕜] [DecidableEq 𝕜]

theorem scaleLast_length (c : 𝕜) : ∀ (As : List (T3 𝕜)), (scaleLast c As).length = As.length
  | [] => rfl
  | [A] => rfl
  | A :: B :: As => by simp [scaleLast, scaleLast_length c (B :: As)]

theorem scaleLast_ne_nil (c : 𝕜) {As : List (T3 𝕜)} (h : As ≠ []) : scaleLast c As ≠ [] := by
  intro h0
  have := scaleLast_length c As
  rw [h0] at this
  exact h (List.length_eq_zero_iff.1 this.symm)

theorem scaleT3_eqv (c : 𝕜) (A : T3 𝕜) : T3Eqv (MPS.scaleT3 c A).tab (MPS.scaleT3 c A) := T3Eqv.tab _

theorem scaleT3_wf (c : 𝕜) {A : T3 𝕜} {qd qa qb : List Int} (h : T3Wf A qd qa qb) :
    T3Wf (MPS.scaleT3 c A).tab qd qa qb :=
  T3Wf.congr (scaleT3_eqv c A) ⟨h.d0, h.d1, h.d2, fun s a b hs ha hb hne => h.sp s a b hs ha hb (fun h0 => hne (by
    show c * A.f s a b = 0
    rw [h0, mul_zero]))⟩

theorem scaleLast_wf (c : 𝕜) {qd : List Int} : ∀ {As : List (T3 𝕜)} {qL : List Int} {qs : List (List Int)},
    WfChain qd qL As qs → WfChain qd qL (scaleLast c As) qs
  | [], _, [], _ => by simp [scaleLast]
  | [], _, _ :: _, h => by simp at h
  | [A], qL, [], h => by simp at h
  | [A], qL, [qR], h => by
    simp only [wfChain_cons, wfChain_nil, and_true, scaleLast] at h ⊢
    exact ⟨scaleT3_wf c h.1, h.2⟩
  | [A], qL, _ :: _ :: _, h => by simp at h
  | A :: B :: As, qL, [], h => by simp at h
  | A :: B :: As, qL, qR :: qs, h => by
    simp only [scaleLast]
    rw [wfChain_cons] at h ⊢
    exact ⟨h.1, h.2.1, scaleLast_wf c h.2.2⟩

theorem scaleLast_pmat (z : 𝕜) : ∀ {ds : List Nat} {As : List (T3 𝕜)} {Dl Dr : Nat}, Chain3 ds As Dl Dr → As ≠ [] →
    ∀ {σ : List Nat}, σ ∈ digits ds → ∀ {a : Nat}, a < Dl → ∀ (c : Nat),
    pmat (scaleLast z As) σ a c = z * pmat As σ a c
  | [], [], _, _, _, h, _, _, _, _, _ => absurd rfl h
  | [], _ :: _, _, _, h, _, _, _, _, _, _ => by simp at h
  | _ :: _, [], _, _, h, _, _, _, _, _, _ => by simp at h
  | [d], [A], Dl, Dr, h, _, σ, hσ, a, ha, c => by
    simp only [chain3_cons] at h
    obtain ⟨s, t, hs, ht, rfl⟩ := mem_digits_cons.1 hσ
    simp only [scaleLast, pmat_cons, pmat_nil]
    show ∑ x ∈ range A.d2, (MPS.scaleT3 z A).tab.f s a x * _ = _
    rw [Finset.mul_sum]
    refine Finset.sum_congr rfl fun x hx => ?_
    rw [t3_tab_f (MPS.scaleT3 z A) (by show s < A.d0; rw [h.1]; exact hs) (by show a < A.d1; rw [h.2.1]; exact ha)
      (Finset.mem_range.1 hx)]
    show z * A.f s a x * _ = _
    ring
  | [d], _ :: _ :: _, _, _, h, _, _, _, _, _, _ => by simp at h
  | d :: e :: ds, [A], Dl, Dr, h, _, σ, hσ, a, ha, c => by simp at h
  | d :: e :: ds, A :: B :: As, Dl, Dr, h, _, σ, hσ, a, ha, c => by
    simp only [chain3_cons (A := A)] at h
    obtain ⟨s, t, hs, ht, rfl⟩ := mem_digits_cons.1 hσ
    simp only [scaleLast, pmat_cons (A := A)]
    rw [Finset.mul_sum]
    refine Finset.sum_congr rfl fun x hx => ?_
    rw [scaleLast_pmat z h.2.2 (by simp) ht (Finset.mem_range.1 hx)]
    ring

theorem scaleT3_iso {z : 𝕜} (hz : star z * z = 1) {A : T3 𝕜} (h : LeftIso A) : LeftIso (MPS.scaleT3 z A).tab := by
  refine LeftIso.congr (scaleT3_eqv z A) ?_
  intro p p' hp hp'
  rw [← h p p' hp hp']
  refine Finset.sum_congr rfl fun s _ => Finset.sum_congr rfl fun a _ => ?_
  show star (z * A.f s a p) * (z * A.f s a p') = _
  rw [star_mul']
  calc star z * star (A.f s a p) * (z * A.f s a p') = (star z * z) * (star (A.f s a p) * A.f s a p') := by ring
    _ = _ := by rw [hz, one_mul]

theorem scaleLast_iso {z : 𝕜} (hz : star z * z = 1) : ∀ {As : List (T3 𝕜)}, (∀ B ∈ As, LeftIso B) →
    ∀ B ∈ scaleLast z As, LeftIso B
  | [], _ => by simp [scaleLast]
  | [A], h => by
    intro B hB
    simp only [scaleLast, List.mem_singleton] at hB
    subst hB
    exact scaleT3_iso hz (h A (by simp))
  | A :: B :: As, h => by
    intro C hC
    simp only [scaleLast, List.mem_cons] at hC
    rcases hC with rfl | hC
    · exact h _ (by simp)
    · exact scaleLast_iso hz (fun X hX => h X (List.mem_cons_of_mem _ hX)) C (by simpa using hC)

/-- entries of a memoised tensor, in and out of range -/
theorem t3_tab_f' (A : T3 𝕜) (i j k : Nat) :
    A.tab.f i j k = if i < A.d0 ∧ j < A.d1 ∧ k < A.d2 then A.f i j k else 0 := by
  by_cases h : i < A.d0 ∧ j < A.d1 ∧ k < A.d2
  · rw [if_pos h, t3_tab_f A h.1 h.2.1 h.2.2]
  · rw [if_neg h]
    simp only [T3.tab, h, if_false]

theorem scaleT3_tab_swap (c : 𝕜) (X : T3 𝕜) : (MPS.scaleT3 c X).tab.swap12 = (MPS.scaleT3 c X.swap12).tab := by
  have hf : (MPS.scaleT3 c X).tab.swap12.f = (MPS.scaleT3 c X.swap12).tab.f := by
    funext i j k
    show (MPS.scaleT3 c X).tab.f i k j = _
    rw [t3_tab_f', t3_tab_f']
    show (if i < X.d0 ∧ k < X.d1 ∧ j < X.d2 then c * X.f i k j else 0) =
      if i < X.d0 ∧ j < X.d2 ∧ k < X.d1 then c * X.f i k j else 0
    by_cases h : i < X.d0 ∧ k < X.d1 ∧ j < X.d2
    · rw [if_pos h, if_pos ⟨h.1, h.2.2, h.2.1⟩]
    · rw [if_neg h, if_neg (fun h' => h ⟨h'.1, h'.2.2, h'.2.1⟩)]
  show (⟨X.d0, X.d2, X.d1, (MPS.scaleT3 c X).tab.swap12.f⟩ : T3 𝕜) = ⟨X.d0, X.d2, X.d1, (MPS.scaleT3 c X.swap12).tab.f⟩
  rw [hf]

theorem scaleLast_map_swap (c : 𝕜) : ∀ (As : List (T3 𝕜)),
    (scaleLast c As).map T3.swap12 = scaleLast c (As.map T3.swap12)
  | [] => rfl
  | [A] => by simp only [scaleLast, List.map_cons, List.map_nil, scaleT3_tab_swap]
  | A :: B :: As => by
    have := scaleLast_map_swap c (B :: As)
    simp only [scaleLast, List.map_cons] at this ⊢
    rw [this]

end Ptn.Compress

import PtnModel.Proofs.SpinExplTermIntW1001p0
import PtnModel.Proofs.SpinExplTermIntW1001p1
import PtnModel.Proofs.SpinExplTermIntW1001p2
import PtnModel.Proofs.SpinExplTermIntW1001p3
/-!
# Explicit spin-orbital molecular graph: interaction terms, spin pattern 1001, words
-/
set_option linter.unusedSectionVars false
set_option linter.unusedSimpArgs false
set_option linter.unusedVariables false
set_option linter.unusedTactic false
set_option linter.unreachableTactic false

namespace Ptn.Ham
open Ptn.Og List Ptn.Ham2

theorem sint_word_1001 (L : Int) (hL : 2 ≤ L) (i j k l : Int) (hi : 0 ≤ i) (hjL : j < L) (hk : 0 ≤ k) (hlL : l < L) (hij : i < j) (hkl : k ≤ l) :
    ∃ x, stermE L (sortTrips [(i, 1, mC), (j, 0, mC), (l, 1, mA), (k, 0, mA)]) = .ok x ∧
      STw L (intF (md i 1).toNat (md j 0).toNat (md k 0).toNat (md l 1).toNat) x := by
  rcases Int.lt_trichotomy i k with hh0 | hh0 | hh0
  · rcases Int.lt_trichotomy j l with hh1 | hh1 | hh1
    · rcases Int.lt_trichotomy j k with hh2 | hh2 | hh2
      · rcases Int.lt_trichotomy k l with hh3 | hh3 | hh3
        · exact sint_word_1001_0123 L hL _ _ _ _ (by omega) (by omega) (by omega) (by omega) (by omega)
        · obtain rfl : k = l := by omega
          exact sint_word_1001_0122 L hL _ _ _ (by omega) (by omega) (by omega) (by omega)
        · exfalso; omega
      · obtain rfl : j = k := by omega
        exact sint_word_1001_0112 L hL _ _ _ (by omega) (by omega) (by omega) (by omega)
      · exact sint_word_1001_0213 L hL _ _ _ _ (by omega) (by omega) (by omega) (by omega) (by omega)
    · rcases Int.lt_trichotomy j k with hh2 | hh2 | hh2
      · exfalso; omega
      · obtain rfl : j = k := by omega
        obtain rfl : j = l := by omega
        exact sint_word_1001_0111 L hL _ _ (by omega) (by omega) (by omega)
      · obtain rfl : j = l := by omega
        exact sint_word_1001_0212 L hL _ _ _ (by omega) (by omega) (by omega) (by omega)
    · rcases Int.lt_trichotomy k l with hh2 | hh2 | hh2
      · exact sint_word_1001_0312 L hL _ _ _ _ (by omega) (by omega) (by omega) (by omega) (by omega)
      · obtain rfl : k = l := by omega
        exact sint_word_1001_0211 L hL _ _ _ (by omega) (by omega) (by omega) (by omega)
      · exfalso; omega
  · rcases Int.lt_trichotomy j l with hh1 | hh1 | hh1
    · obtain rfl : i = k := by omega
      exact sint_word_1001_0102 L hL _ _ _ (by omega) (by omega) (by omega) (by omega)
    · obtain rfl : i = k := by omega
      obtain rfl : j = l := by omega
      exact sint_word_1001_0101 L hL _ _ (by omega) (by omega) (by omega)
    · rcases Int.lt_trichotomy i l with hh2 | hh2 | hh2
      · obtain rfl : i = k := by omega
        exact sint_word_1001_0201 L hL _ _ _ (by omega) (by omega) (by omega) (by omega)
      · obtain rfl : i = k := by omega
        obtain rfl : i = l := by omega
        exact sint_word_1001_0100 L hL _ _ (by omega) (by omega) (by omega)
      · exfalso; omega
  · rcases Int.lt_trichotomy j l with hh1 | hh1 | hh1
    · exact sint_word_1001_1203 L hL _ _ _ _ (by omega) (by omega) (by omega) (by omega) (by omega)
    · obtain rfl : j = l := by omega
      exact sint_word_1001_1202 L hL _ _ _ (by omega) (by omega) (by omega) (by omega)
    · rcases Int.lt_trichotomy i l with hh2 | hh2 | hh2
      · exact sint_word_1001_1302 L hL _ _ _ _ (by omega) (by omega) (by omega) (by omega) (by omega)
      · obtain rfl : i = l := by omega
        exact sint_word_1001_1201 L hL _ _ _ (by omega) (by omega) (by omega) (by omega)
      · rcases Int.lt_trichotomy k l with hh3 | hh3 | hh3
        · exact sint_word_1001_2301 L hL _ _ _ _ (by omega) (by omega) (by omega) (by omega) (by omega)
        · obtain rfl : k = l := by omega
          exact sint_word_1001_1200 L hL _ _ _ (by omega) (by omega) (by omega) (by omega)
        · exfalso; omega

end Ptn.Ham

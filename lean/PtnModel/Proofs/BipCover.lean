import PtnModel.Proofs.BipExplore
import PtnModel.Proofs.BipMatching
/-!
# C18 helper lemmas, part 4: `minimum_vertex_cover`

* `sortNat` (`sorted(list(set))`) keeps membership, yields a strictly increasing list, and keeps the
  length of duplicate-free lists;
* `minimumVertexCover_eq`: the model function as a plain `match` cascade over `coverStep`;
* `CovInv`: the invariant of the loop over the unmatched `U`-vertices;
* `mvc_spec`: validity of the returned cover and the size equation.
-/
namespace Ptn.Bip

/-! ## `sortNat` -/

/-- one insertion step of `sortNat` -/
def ins (acc : List Nat) (x : Nat) : List Nat :=
  (acc.filter (· < x)) ++ [x] ++ (acc.filter (fun y => decide (x < y)))

theorem sortNat_eq (l : List Nat) : sortNat l = l.foldl ins [] := rfl

theorem mem_ins {acc : List Nat} {x y : Nat} : y ∈ ins acc x ↔ y = x ∨ y ∈ acc := by
  simp only [ins, List.mem_append, List.mem_filter, List.mem_singleton, decide_eq_true_eq]
  constructor
  · rintro ((⟨h, _⟩ | h) | ⟨h, _⟩)
    · exact Or.inr h
    · exact Or.inl h
    · exact Or.inr h
  · rintro (h | h)
    · exact Or.inl (Or.inr h)
    · rcases Nat.lt_trichotomy y x with h1 | h1 | h1
      · exact Or.inl (Or.inl ⟨h, h1⟩)
      · exact Or.inl (Or.inr h1)
      · exact Or.inr ⟨h, h1⟩

theorem pairwise_ins {acc : List Nat} (x : Nat) (h : acc.Pairwise (· < ·)) : (ins acc x).Pairwise (· < ·) := by
  unfold ins
  rw [List.pairwise_append, List.pairwise_append]
  refine ⟨⟨h.filter _, List.pairwise_singleton _ _, ?_⟩, h.filter _, ?_⟩
  · intro a ha b hb
    simp only [List.mem_filter, decide_eq_true_eq] at ha
    simp only [List.mem_singleton] at hb
    omega
  · intro a ha b hb
    simp only [List.mem_append, List.mem_filter, decide_eq_true_eq, List.mem_singleton] at ha hb
    rcases ha with ⟨_, ha⟩ | ha <;> omega

theorem length_ins {acc : List Nat} {x : Nat} (h : x ∉ acc) : (ins acc x).length = acc.length + 1 := by
  unfold ins
  have h1 := List.length_eq_length_filter_add (l := acc) (fun y => decide (y < x))
  have h2 : acc.filter (fun y => !decide (y < x)) = acc.filter (fun y => decide (x < y)) := by
    apply List.filter_congr
    intro y hy
    have : y ≠ x := fun e => h (e ▸ hy)
    by_cases hyx : y < x
    · have : ¬ x < y := by omega
      simp [hyx, this]
    · have : x < y := by omega
      simp [hyx, this]
  rw [h2] at h1
  simp only [List.length_append, List.length_singleton]
  omega

theorem mem_foldl_ins {y : Nat} : ∀ (l acc : List Nat), y ∈ l.foldl ins acc ↔ y ∈ acc ∨ y ∈ l := by
  intro l
  induction l with
  | nil => intro acc; simp
  | cons x l ih =>
    intro acc
    rw [List.foldl_cons, ih, mem_ins, List.mem_cons]
    constructor
    · rintro ((h | h) | h)
      · exact Or.inr (Or.inl h)
      · exact Or.inl h
      · exact Or.inr (Or.inr h)
    · rintro (h | h | h)
      · exact Or.inl (Or.inr h)
      · exact Or.inl (Or.inl h)
      · exact Or.inr h

theorem pairwise_foldl_ins : ∀ (l acc : List Nat), acc.Pairwise (· < ·) → (l.foldl ins acc).Pairwise (· < ·) := by
  intro l
  induction l with
  | nil => intro acc h; exact h
  | cons x l ih => intro acc h; exact ih _ (pairwise_ins x h)

theorem length_foldl_ins : ∀ (l acc : List Nat), l.Nodup → (∀ x ∈ l, x ∉ acc) →
    (l.foldl ins acc).length = acc.length + l.length := by
  intro l
  induction l with
  | nil => intro acc _ _; rfl
  | cons x l ih =>
    intro acc hnd hdis
    rw [List.nodup_cons] at hnd
    rw [List.foldl_cons, ih _ hnd.2, length_ins (hdis x (List.mem_cons_self ..)), List.length_cons]
    · omega
    · intro y hy hmem
      rcases mem_ins.1 hmem with h | h
      · subst h; exact hnd.1 hy
      · exact hdis y (List.mem_cons_of_mem _ hy) h

theorem mem_sortNat {l : List Nat} {y : Nat} : y ∈ sortNat l ↔ y ∈ l := by
  rw [sortNat_eq, mem_foldl_ins]; simp

theorem sortNat_sorted (l : List Nat) : (sortNat l).Pairwise (· < ·) := by
  rw [sortNat_eq]; exact pairwise_foldl_ins l [] List.Pairwise.nil

theorem sortNat_nodup (l : List Nat) : (sortNat l).Nodup :=
  (sortNat_sorted l).imp (fun h => Nat.ne_of_lt h)

theorem length_sortNat {l : List Nat} (h : l.Nodup) : (sortNat l).length = l.length := by
  rw [sortNat_eq, length_foldl_ins l [] h (fun _ _ hm => by cases hm)]; simp

/-! ## the loop of `minimum_vertex_cover` -/

/-- unmatched vertices of `U` (`alist`) -/
def alistOf (g : BGraph) (m : List (Nat × Nat)) : List Nat :=
  (List.range g.numU).filter (fun u => !(m.any (fun p => p.1 == u)))

/-- body of the loop `for u in alist` -/
def coverStep (g : BGraph) (m : List (Nat × Nat)) (acc : List Nat × List Nat) (u : Nat) :
    Except Err (List Nat × List Nat) := do
  let (uvis, vvis) ← explore g m (exploreFuel g) u ([], [])
  pure (acc.1.filter (fun x => !(uvis.contains x)), acc.2 ++ vvis.filter (fun x => !(acc.2.contains x)))

theorem coverStep_eq (g : BGraph) (m : List (Nat × Nat)) (acc : List Nat × List Nat) (u : Nat) :
    coverStep g m acc u =
      match explore g m (exploreFuel g) u ([], []) with
      | .error e => .error e
      | .ok st => .ok (acc.1.filter (fun x => !(st.1.contains x)),
                       acc.2 ++ st.2.filter (fun x => !(acc.2.contains x))) := by
  unfold coverStep
  cases explore g m (exploreFuel g) u ([], []) with
  | error e => rfl
  | ok st => rfl

theorem minimumVertexCover_eq_do (g : BGraph) : minimumVertexCover g = (do
    let m ← hopcroftKarp g
    let (ucover, vcover) ← (alistOf g m).foldlM (coverStep g m) (List.range g.numU, [])
    pyAssert (ucover.length + vcover.length == m.length)
    pure (sortNat ucover, sortNat vcover)) := rfl

theorem minimumVertexCover_eq (g : BGraph) : minimumVertexCover g =
    match hopcroftKarp g with
    | .error e => .error e
    | .ok m =>
      match (alistOf g m).foldlM (coverStep g m) (List.range g.numU, []) with
      | .error e => .error e
      | .ok acc =>
        if acc.1.length + acc.2.length == m.length then .ok (sortNat acc.1, sortNat acc.2)
        else .error .assertion := by
  rw [minimumVertexCover_eq_do]
  cases hopcroftKarp g with
  | error e => rfl
  | ok m =>
    simp only [bind, Except.bind]
    cases List.foldlM (coverStep g m) (List.range g.numU, []) (alistOf g m) with
    | error e => rfl
    | ok acc =>
      obtain ⟨a1, a2⟩ := acc
      simp only [pyAssert]
      cases (a1.length + a2.length == m.length) <;> rfl

theorem mem_alistOf {g : BGraph} {m : List (Nat × Nat)} {u : Nat} :
    u ∈ alistOf g m ↔ u < g.numU ∧ ∀ v, (u, v) ∉ m := by
  unfold alistOf
  rw [List.mem_filter, List.mem_range]
  constructor
  · rintro ⟨h1, h2⟩
    refine ⟨h1, fun v hv => ?_⟩
    have : m.any (fun p => p.1 == u) = true := List.any_eq_true.2 ⟨(u, v), hv, by simp⟩
    simp [this] at h2
  · rintro ⟨h1, h2⟩
    refine ⟨h1, ?_⟩
    cases hh : m.any (fun p => p.1 == u) with
    | false => rfl
    | true =>
      obtain ⟨⟨a, b⟩, hp, he⟩ := List.any_eq_true.1 hh
      simp at he
      subst he
      exact absurd hp (h2 b)

theorem mem_filter_not_contains {l l' : List Nat} {x : Nat} :
    x ∈ l.filter (fun x => !(l'.contains x)) ↔ x ∈ l ∧ x ∉ l' := by
  simp [List.mem_filter]

/-- generic invariant rule for `foldlM` in `Except`, with access to the processed prefix -/
theorem foldlM_inv {α β : Type} (f : β → α → Except Err β) (P : List α → β → Prop) (l : List α)
    (hstep : ∀ pre a b b', a ∈ l → P pre b → f b a = .ok b' → P (pre ++ [a]) b') :
    ∀ (l' pre : List α) (b b' : β), (∀ a ∈ l', a ∈ l) → P pre b → l'.foldlM f b = .ok b' → P (pre ++ l') b' := by
  intro l'
  induction l' with
  | nil => intro pre b b' _ hp h; cases h; simpa using hp
  | cons a l' ih =>
    intro pre b b' hsub hp h
    rw [List.foldlM_cons] at h
    cases hf : f b a with
    | error e => rw [hf] at h; cases h
    | ok b1 =>
      rw [hf] at h
      have := ih (pre ++ [a]) b1 b' (fun x hx => hsub x (List.mem_cons_of_mem _ hx))
        (hstep pre a b b1 (hsub a (List.mem_cons_self ..)) hp hf) h
      simpa using this

/-- Invariant of the loop `for u in alist` of `minimum_vertex_cover`; `pre` is the processed prefix of
`alist`, `Q` an arbitrary property of visited `V`-vertices. -/
structure CovInv (g : BGraph) (m : List (Nat × Nat)) (Q : Nat → Prop) (pre : List Nat)
    (acc : List Nat × List Nat) : Prop where
  nodupU : acc.1.Nodup
  rangeU : ∀ u ∈ acc.1, u < g.numU
  nodupV : acc.2.Nodup
  rangeV : ∀ v ∈ acc.2, v < g.numV
  cover : ∀ u v, g.Edge u v → u ∈ acc.1 ∨ v ∈ acc.2
  done : ∀ u ∈ pre, u ∉ acc.1
  sep : ∀ u v, (u, v) ∈ m → v ∈ acc.2 → u ∉ acc.1
  q : ∀ v ∈ acc.2, Q v

theorem CovInv.init (g : BGraph) (hg : g.WF) (m : List (Nat × Nat)) (Q : Nat → Prop) :
    CovInv g m Q [] (List.range g.numU, []) := by
  refine ⟨List.nodup_range, fun u hu => List.mem_range.1 hu, List.nodup_nil, (fun v hv => by cases hv), ?_,
    (fun u hu => by cases hu), (fun u v _ hv => by cases hv), (fun v hv => by cases hv)⟩
  intro u v e
  exact Or.inl (List.mem_range.2 (hg.edge_lt e).1)

theorem CovInv.step {g : BGraph} (hg : g.WF) {m : List (Nat × Nat)} (hm : IsMatching g m) {Q : Nat → Prop}
    (hQ : ∀ u0 ∈ alistOf g m, ∀ st, explore g m (exploreFuel g) u0 ([], []) = .ok st → ∀ v ∈ st.2, Q v)
    {pre : List Nat} {u0 : Nat} {acc acc' : List Nat × List Nat} (hu0 : u0 ∈ alistOf g m)
    (inv : CovInv g m Q pre acc) (h : coverStep g m acc u0 = .ok acc') : CovInv g m Q (pre ++ [u0]) acc' := by
  classical
  rw [coverStep_eq] at h
  cases he : explore g m (exploreFuel g) u0 ([], []) with
  | error e => rw [he] at h; cases h
  | ok st =>
    rw [he] at h
    cases h
    obtain ⟨post, hu0st⟩ := explore_spec he
    obtain ⟨hu0lt, hfree⟩ := mem_alistOf.1 hu0
    have hndV : st.2.Nodup := post.nodupV List.nodup_nil
    have hrV : ∀ y ∈ st.2, y < g.numV := post.rangeV hg (fun y hy => by cases hy)
    refine ⟨?_, ?_, ?_, ?_, ?_, ?_, ?_, ?_⟩
    · exact inv.nodupU.filter _
    · intro u hu
      exact inv.rangeU u (mem_filter_not_contains.1 hu).1
    · show (acc.2 ++ st.2.filter (fun x => !(acc.2.contains x))).Nodup
      rw [List.nodup_append]
      refine ⟨inv.nodupV, hndV.filter _, ?_⟩
      intro a ha b hb e
      subst e
      exact (mem_filter_not_contains.1 hb).2 ha
    · intro v hv
      rcases List.mem_append.1 hv with hv | hv
      · exact inv.rangeV v hv
      · exact hrV v (mem_filter_not_contains.1 hv).1
    · intro u v e
      have hvin : v ∈ st.2 → v ∈ acc.2 ++ st.2.filter (fun x => !(acc.2.contains x)) := by
        intro hv
        by_cases hva : v ∈ acc.2
        · exact List.mem_append_left _ hva
        · exact List.mem_append_right _ (mem_filter_not_contains.2 ⟨hv, hva⟩)
      rcases inv.cover u v e with hu | hv
      · by_cases hus : u ∈ st.1
        · right
          apply hvin
          by_cases huv : (u, v) ∈ m
          · rcases post.originU u hus (by simp) with h1 | ⟨y, hy, _, hym⟩
            · subst h1; exact absurd huv (hfree v)
            · have := hm.eq_of_fst hym huv rfl
              cases this
              exact hy
          · exact post.closedU u hus (by simp) v e huv
        · exact Or.inl (mem_filter_not_contains.2 ⟨hu, hus⟩)
      · exact Or.inr (List.mem_append_left _ hv)
    · intro u hu hmem
      obtain ⟨h1, h2⟩ := mem_filter_not_contains.1 hmem
      rcases List.mem_append.1 hu with hu | hu
      · exact inv.done u hu h1
      · simp only [List.mem_singleton] at hu
        subst hu
        exact h2 hu0st
    · intro u v huv hv hmem
      obtain ⟨h1, h2⟩ := mem_filter_not_contains.1 hmem
      rcases List.mem_append.1 hv with hv | hv
      · exact inv.sep u v huv hv h1
      · have hvs := (mem_filter_not_contains.1 hv).1
        have he : g.Edge u v := hm.edge (u, v) huv
        exact h2 (post.closedV v hvs (by simp) u ((hg.consistent u v).1 he) huv)
    · intro v hv
      rcases List.mem_append.1 hv with hv | hv
      · exact inv.q v hv
      · exact hQ u0 hu0 st he v (mem_filter_not_contains.1 hv).1

theorem cover_loop_inv {g : BGraph} (hg : g.WF) {m : List (Nat × Nat)} (hm : IsMatching g m) {Q : Nat → Prop}
    (hQ : ∀ u0 ∈ alistOf g m, ∀ st, explore g m (exploreFuel g) u0 ([], []) = .ok st → ∀ v ∈ st.2, Q v)
    {acc : List Nat × List Nat}
    (h : (alistOf g m).foldlM (coverStep g m) (List.range g.numU, []) = .ok acc) :
    CovInv g m Q (alistOf g m) acc := by
  have := foldlM_inv (coverStep g m) (CovInv g m Q) (alistOf g m)
    (fun pre a b b' ha hp hf => CovInv.step hg hm hQ ha hp hf)
    (alistOf g m) [] _ _ (fun a ha => ha) (CovInv.init g hg m Q) h
  simpa using this

/-- What a successful `minimumVertexCover` returns, in terms of the final loop state `acc`. -/
theorem mvc_ok {g : BGraph} {uc vc : List Nat} (h : minimumVertexCover g = .ok (uc, vc)) :
    ∃ m acc, hopcroftKarp g = .ok m ∧
      (alistOf g m).foldlM (coverStep g m) (List.range g.numU, []) = .ok acc ∧
      acc.1.length + acc.2.length = m.length ∧ uc = sortNat acc.1 ∧ vc = sortNat acc.2 := by
  rw [minimumVertexCover_eq] at h
  cases hk : hopcroftKarp g with
  | error e => rw [hk] at h; cases h
  | ok m =>
    rw [hk] at h
    simp only at h
    cases hf : (alistOf g m).foldlM (coverStep g m) (List.range g.numU, []) with
    | error e => rw [hf] at h; cases h
    | ok acc =>
      rw [hf] at h
      simp only at h
      split at h
      · rename_i hlen
        cases h
        exact ⟨m, acc, rfl, hf, by simpa using hlen, rfl, rfl⟩
      · cases h

/-- (c) validity of the returned cover and the size equation. -/
theorem mvc_spec {g : BGraph} (hg : g.WF) {uc vc : List Nat} (h : minimumVertexCover g = .ok (uc, vc)) :
    ∃ m, hopcroftKarp g = .ok m ∧ (∀ u ∈ uc, u < g.numU) ∧ (∀ v ∈ vc, v < g.numV) ∧
      uc.Nodup ∧ vc.Nodup ∧ IsCover g uc vc ∧ uc.length + vc.length = m.length := by
  obtain ⟨m, acc, hk, hf, hlen, rfl, rfl⟩ := mvc_ok h
  have hm := hopcroftKarp_isMatching hg hk
  have inv := cover_loop_inv hg hm (Q := fun _ => True) (fun _ _ _ _ _ _ => trivial) hf
  refine ⟨m, hk, ?_, ?_, sortNat_nodup _, sortNat_nodup _, ?_, ?_⟩
  · intro u hu; exact inv.rangeU u (mem_sortNat.1 hu)
  · intro v hv; exact inv.rangeV v (mem_sortNat.1 hv)
  · intro u v e
    rcases inv.cover u v e with h1 | h1
    · exact Or.inl (mem_sortNat.2 h1)
    · exact Or.inr (mem_sortNat.2 h1)
  · rw [length_sortNat inv.nodupU, length_sortNat inv.nodupV, hlen]

end Ptn.Bip

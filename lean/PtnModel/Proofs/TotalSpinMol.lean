import PtnModel.Proofs.TotalMol
import PtnModel.Proofs.BridgeMol
/-!
# The bond-optimized spin-orbital molecular construction returns

`to_spin_opchain` pairs the modes `(2k, 2k+1)` of a Jordan-Wigner shaped chain into the site operator `kron(op_up, op_dn)` and the
bond charge `(N << 16) + S`.  Every pair table shifts `(N, S)` by `(ch x + ch y, ch x - ch y)` (`kron_charge`), which is exactly the
jump of the converted charges; so the converted chains are charge consistent under `spinQd` / `spinMolOpmap`.
-/
set_option linter.unusedSectionVars false
set_option linter.unusedSimpArgs false

namespace Ptn.Ham
open Ptn Ptn.Og Ptn.Ch Ptn.Ham2 List

variable {κ : Type} [CommRing κ] [DecidableEq κ]

theorem prod_zero (x y : κ) (d1 d2 cx cy : Int) (hx : d1 ≠ cx → x = 0) (hy : d2 ≠ cy → y = 0)
    (h : encPair (d1 + d2) (d1 - d2) ≠ encPair (cx + cy) (cx - cy)) : x * y = 0 := by
  by_cases h1 : d1 = cx
  · by_cases h2 : d2 = cy
    · subst h1 h2; exact absurd rfl h
    · rw [hy h2, mul_zero]
  · rw [hx h1, zero_mul]

/-- the Kronecker product of two single-mode tables of charges `cx`, `cy` shifts `(N, S)` by `(cx + cy, cx - cy)` -/
theorem kron_charge (a00 a01 a10 a11 b00 b01 b10 b11 : κ) (cx cy : Int)
    (hA : OpHasCharge [0, 1] ([[a00, a01], [a10, a11]] : Og.Mat κ) cx)
    (hB : OpHasCharge [0, 1] ([[b00, b01], [b10, b11]] : Og.Mat κ) cy) :
    OpHasCharge spinQd (Mat.kron ([[a00, a01], [a10, a11]] : Og.Mat κ) [[b00, b01], [b10, b11]])
      (encPair (cx + cy) (cx - cy)) := by
  have fa00 : (0 : Int) ≠ cx → a00 = 0 := fun h => by simpa [Mat.entry] using hA 0 0 (by decide) (by decide) (by simpa using h)
  have fa01 : (-1 : Int) ≠ cx → a01 = 0 := fun h => by simpa [Mat.entry] using hA 0 1 (by decide) (by decide) (by simpa using h)
  have fa10 : (1 : Int) ≠ cx → a10 = 0 := fun h => by simpa [Mat.entry] using hA 1 0 (by decide) (by decide) (by simpa using h)
  have fa11 : (0 : Int) ≠ cx → a11 = 0 := fun h => by simpa [Mat.entry] using hA 1 1 (by decide) (by decide) (by simpa using h)
  have fb00 : (0 : Int) ≠ cy → b00 = 0 := fun h => by simpa [Mat.entry] using hB 0 0 (by decide) (by decide) (by simpa using h)
  have fb01 : (-1 : Int) ≠ cy → b01 = 0 := fun h => by simpa [Mat.entry] using hB 0 1 (by decide) (by decide) (by simpa using h)
  have fb10 : (1 : Int) ≠ cy → b10 = 0 := fun h => by simpa [Mat.entry] using hB 1 0 (by decide) (by decide) (by simpa using h)
  have fb11 : (0 : Int) ≠ cy → b11 = 0 := fun h => by simpa [Mat.entry] using hB 1 1 (by decide) (by decide) (by simpa using h)
  have hk : Mat.kron ([[a00, a01], [a10, a11]] : Og.Mat κ) [[b00, b01], [b10, b11]] =
      [[a00 * b00, a00 * b01, a01 * b00, a01 * b01], [a00 * b10, a00 * b11, a01 * b10, a01 * b11],
       [a10 * b00, a10 * b01, a11 * b00, a11 * b01], [a10 * b10, a10 * b11, a11 * b10, a11 * b11]] := by
    simp [Mat.kron]
  rw [hk]
  have hq : spinQd = [0, 65535, 65537, 131072] := by decide
  intro a b ha hb h
  rw [hq] at h ha hb
  rcases a with _ | _ | _ | _ | a <;> rcases b with _ | _ | _ | _ | b <;>
    first
    | (exfalso; simp only [List.length_cons, List.length_nil] at ha; omega)
    | (exfalso; simp only [List.length_cons, List.length_nil] at hb; omega)
    | skip
  all_goals simp only [Mat.entry, List.getD_cons_zero, List.getD_cons_succ, List.getD_eq_getElem?_getD, List.getElem?_cons_zero,
      List.getElem?_cons_succ, Option.getD_some, zero_add] at h ⊢
  · exact prod_zero _ _ 0 0 cx cy fa00 fb00 (fun hc => h (by rw [← hc]; decide))
  · exact prod_zero _ _ 0 (-1) cx cy fa00 fb01 (fun hc => h (by rw [← hc]; decide))
  · exact prod_zero _ _ (-1) 0 cx cy fa01 fb00 (fun hc => h (by rw [← hc]; decide))
  · exact prod_zero _ _ (-1) (-1) cx cy fa01 fb01 (fun hc => h (by rw [← hc]; decide))
  · exact prod_zero _ _ 0 1 cx cy fa00 fb10 (fun hc => h (by rw [← hc]; decide))
  · exact prod_zero _ _ 0 0 cx cy fa00 fb11 (fun hc => h (by rw [← hc]; decide))
  · exact prod_zero _ _ (-1) 1 cx cy fa01 fb10 (fun hc => h (by rw [← hc]; decide))
  · exact prod_zero _ _ (-1) 0 cx cy fa01 fb11 (fun hc => h (by rw [← hc]; decide))
  · exact prod_zero _ _ 1 0 cx cy fa10 fb00 (fun hc => h (by rw [← hc]; decide))
  · exact prod_zero _ _ 1 (-1) cx cy fa10 fb01 (fun hc => h (by rw [← hc]; decide))
  · exact prod_zero _ _ 0 0 cx cy fa11 fb00 (fun hc => h (by rw [← hc]; decide))
  · exact prod_zero _ _ 0 (-1) cx cy fa11 fb01 (fun hc => h (by rw [← hc]; decide))
  · exact prod_zero _ _ 1 1 cx cy fa10 fb10 (fun hc => h (by rw [← hc]; decide))
  · exact prod_zero _ _ 1 0 cx cy fa10 fb11 (fun hc => h (by rw [← hc]; decide))
  · exact prod_zero _ _ 0 1 cx cy fa11 fb10 (fun hc => h (by rw [← hc]; decide))
  · exact prod_zero _ _ 0 0 cx cy fa11 fb11 (fun hc => h (by rw [← hc]; decide))

/-! ## the pair tables -/

/-- every single-mode table is an explicit `2 × 2` matrix of charge `ch` -/
theorem mol_hasCharge (x : Int) (hx : isMolOid x) : ∃ a00 a01 a10 a11 : κ,
    (molOpmap : OpMap κ).lookup x = some [[a00, a01], [a10, a11]] ∧
    OpHasCharge [0, 1] ([[a00, a01], [a10, a11]] : Og.Mat κ) (ch x) := by
  rcases hx with rfl | rfl | rfl | rfl | rfl
  · exact ⟨0, 1, 0, 0, rfl, lf_charge_A⟩
  · exact ⟨1, 0, 0, 1, rfl, lf_charge_I⟩
  · exact ⟨0, 0, 1, 0, rfl, lf_charge_C⟩
  · exact ⟨0, 0, 0, 1, rfl, lf_charge_N⟩
  · exact ⟨1, 0, 0, -1, rfl, lf_charge_Z⟩

/-- the site table of the pair `(x, y)` is `kron(table x, table y)` -/
theorem spin_lookup (x y o : Int) (hx : isMolOid x) (hy : isMolOid y) (hp : pairMapGet (x, y) = .ok o) :
    (spinMolOpmap : OpMap κ).lookup o =
      some (Mat.kron (((molOpmap : OpMap κ).lookup x).getD []) (((molOpmap : OpMap κ).lookup y).getD [])) := by
  rcases hx with rfl | rfl | rfl | rfl | rfl <;> rcases hy with rfl | rfl | rfl | rfl | rfl <;>
    first
    | (cases hp; rfl)
    | (exfalso; cases hp)

/-- every pair table shifts the encoded `(N, S)` charge by `(ch x + ch y, ch x - ch y)` -/
theorem pair_table_charged (x y o : Int) (hx : isMolOid x) (hy : isMolOid y) (hp : pairMapGet (x, y) = .ok o) :
    TableCharged spinQd (-(encPair (ch x + ch y) (ch x - ch y))) ((spinMolOpmap : OpMap κ).lookup o) := by
  obtain ⟨a00, a01, a10, a11, ha, hA⟩ := mol_hasCharge (κ := κ) x hx
  obtain ⟨b00, b01, b10, b11, hb, hB⟩ := mol_hasCharge (κ := κ) y hy
  have hl := spin_lookup (κ := κ) x y o hx hy hp
  rw [ha, hb] at hl
  simp only [Option.getD_some] at hl
  have hsq : Ham.IsSquare spinQd.length (Mat.kron ([[a00, a01], [a10, a11]] : Og.Mat κ) [[b00, b01], [b10, b11]]) :=
    spinMolOpmap_wf _ (mem_of_lookup hl)
  exact tableCharged_of_hasCharge spinQd _ _ hsq (kron_charge _ _ _ _ _ _ _ _ _ _ hA hB) _ hl _ rfl

/-! ## converted chains -/

theorem encPair_sub (a s c s' : Int) : encPair a s - encPair c s' = -(encPair (c - a) (s' - s)) := by
  unfold encPair; ring

/-- the converted operator / charge lists of a Jordan-Wigner shaped chain of even length are charge consistent -/
theorem spin_chOK : ∀ (n : Nat) (q : Int) (oids qs : List Int) (s : Int) (l : List Int), oids.length = 2 * n → JW q oids qs →
    (evenOddPairs oids).mapM pairMapGet = .ok l →
    chOK (fun o q0 q1 => TableCharged spinQd (q0 - q1) ((spinMolOpmap : OpMap κ).lookup o)) l (encPair q s :: spinQ (q :: qs) s) := by
  intro n
  induction n with
  | zero =>
    intro q oids qs s l hl _ hm
    have : oids = [] := List.eq_nil_of_length_eq_zero (by omega)
    subst this
    simp only [evenOddPairs, List.mapM_nil, pure, Except.pure, Except.ok.injEq] at hm
    subst hm
    trivial
  | succ n ih =>
    intro q oids qs s l hl hjw hm
    match oids, qs, hl, hjw, hm with
    | x :: y :: rest, q1 :: q2 :: qs', hl, hjw, hm =>
      simp only [JW] at hjw
      obtain ⟨e1, _, _, m1, e2, _, _, m2, hrest⟩ := hjw
      simp only [evenOddPairs] at hm
      rw [mapM_ok_cons] at hm
      obtain ⟨o, l', ho, hl', rfl⟩ := hm
      have ih' := ih q2 rest qs' (s - (q - 2 * q1 + q2)) l' (by simp only [List.length_cons] at hl; omega) hrest hl'
      simp only [spinQ]
      refine ⟨?_, ih'⟩
      show TableCharged spinQd (encPair q s - encPair q2 (s - (q - 2 * q1 + q2))) _
      rw [encPair_sub]
      have h1 : q2 - q = ch x + ch y := by rw [e2, e1]; ring
      have h2 : s - (q - 2 * q1 + q2) - s = ch x - ch y := by rw [e2, e1]; ring
      rw [h1, h2]
      exact pair_table_charged x y o m1 m2 ho
    | [_], _, hl, _, _ => simp at hl; omega
    | [], _, hl, _, _ => simp at hl
    | _ :: _ :: _, [], _, hjw, _ => simp [JW] at hjw
    | _ :: _ :: _, [_], _, hjw, _ => simp [JW] at hjw

/-- **`to_spin_opchain` yields charge-consistent chains** (under `spinQd` / `spinMolOpmap`) and keeps the coefficient -/
theorem toSpinOpchain_charged (L : Int) (c : OpChain κ) (tail : List Int) (h : SpinReady L c tail) (sc : OpChain κ)
    (hsc : toSpinOpchain c = .ok sc) :
    chOK (fun o q0 q1 => TableCharged spinQd (q0 - q1) ((spinMolOpmap : OpMap κ).lookup o)) sc.oids sc.qnums ∧
      sc.coeff = c.coeff := by
  -- front padding
  obtain ⟨c1, t1, h1, he1, hc1, hco1⟩ : ∃ (c1 : OpChain κ) (t1 : List Int), SpinReady L c1 t1 ∧ c1.istart % 2 = 0 ∧
      c1 = (if c.istart % 2 == 1 then { c with oids := mI :: c.oids, qnums := 0 :: c.qnums, istart := c.istart - 1 } else c) ∧
      c1.coeff = c.coeff := by
    by_cases ho : c.istart % 2 = 1
    · exact ⟨_, _, spinReady_front h ho, by simp only; omega, by simp [ho], rfl⟩
    · have : ¬ (c.istart % 2 == 1) = true := by simpa using ho
      exact ⟨c, tail, h, by omega, by simp [this], rfl⟩
  -- back padding
  obtain ⟨c2, t2, h2, he2, hl2, hc2, hco2⟩ : ∃ (c2 : OpChain κ) (t2 : List Int), SpinReady L c2 t2 ∧ c2.istart % 2 = 0 ∧
      c2.oids.length % 2 = 0 ∧
      c2 = (if c1.length % 2 == 1 then { c1 with oids := c1.oids ++ [mI], qnums := c1.qnums ++ [0] } else c1) ∧
      c2.coeff = c1.coeff := by
    by_cases ho : c1.oids.length % 2 = 1
    · refine ⟨_, _, spinReady_back h1 he1 ho, he1, ?_, by simp [OpChain.length, ho], rfl⟩
      simp only [List.length_append, List.length_cons, List.length_nil]; omega
    · have : ¬ (c1.length % 2 == 1) = true := by simpa [OpChain.length] using ho
      exact ⟨c1, t1, h1, he1, by omega, by simp [this], rfl⟩
  obtain ⟨oids, qnums, ho, hqs, hlast, hlen, hpos, hhead, hfit⟩ := toSpin_core L c2 t2 h2 he2 hl2
  have hq0 : pyIdx c.qnums 0 = .ok 0 := by rw [h.hq]; rfl
  have hql : c.qnums.getLast? = some 0 := h.wf.qlast
  unfold toSpinOpchain at hsc
  simp only [hq0, hql, bind, Except.bind, pyAssert, beq_self_eq_true, if_true, ← hc1] at hsc
  simp only [← hc2] at hsc
  have hl2' : (c2.length % 2 == 0) = true := by simpa [OpChain.length] using hl2
  have hl2'' : (c2.oids.length % 2 == 0) = true := by simpa using hl2
  simp only [hl2', if_true, ho, OpChain.length, hqs, hlast, beq_self_eq_true, pure, Except.pure, hl2''] at hsc
  have hscv := mk'_inv hsc
  subst hscv
  refine ⟨?_, by rw [hco2, hco1]⟩
  -- the explicit charge list
  obtain ⟨n, hn⟩ : ∃ n, c2.oids.length = 2 * n := ⟨c2.oids.length / 2, by omega⟩
  have hqn : c2.qnums.length = 2 * (0 + n) + 1 := by rw [h2.wf.lens, hn]; ring
  have hloop := spinLoop_eq n 0 c2.qnums 0 [0] hqn
  simp only [Nat.cast_zero, Nat.zero_add, Nat.mul_zero, List.drop_zero] at hloop
  have hdiv : c2.oids.length / 2 = n := by omega
  rw [hdiv, hloop] at hqs
  simp only [Except.ok.injEq] at hqs
  subst hqs
  have := spin_chOK (κ := κ) n 0 c2.oids t2 0 oids hn h2.jw ho
  rw [h2.hq]
  have e0 : encPair 0 0 = 0 := by decide
  rw [e0] at this
  exact this

/-! ## the enumeration and the constructor -/

/-- the predicate used for the charge consistency of spin-orbital chains -/
abbrev SpinP (κ : Type) [CommRing κ] [DecidableEq κ] : Int → Int → Int → Prop :=
  fun o q0 q1 => TableCharged spinQd (q0 - q1) ((spinMolOpmap : OpMap κ).lookup o)

/-- every chain of the bond-optimized spin-orbital enumeration is well formed and charge consistent -/
theorem spinMolChains_charged (c : Consts κ) (tkin : List (List κ)) (vint : List (List (List (List κ)))) :
    ∃ chains, spinMolChains c tkin vint = .ok chains ∧
      ∀ ch ∈ chains, ChainWF (tkin.length : Int) ch ∧ chOK (SpinP κ) ch.oids ch.qnums := by
  unfold spinMolChains
  set L : Int := (tkin.length : Int) with hLdef
  obtain ⟨hop, hhop, _, phop⟩ := mapM_ok
    (fun (x : Int × Int) => match x with
      | (i, j) => (do
          let single ← if i == j then OpChain.mk' [mN] [0, 0] (t2 tkin (i / 2) (i / 2)) i
            else molHopChain i j (t2 tkin (i / 2) (j / 2))
          toSpinOpchain single : Except Err (OpChain κ)))
    (fun ch => ChainWF L ch ∧ chOK (SpinP κ) ch.oids ch.qnums)
    (((pyRange 0 (2 * L)).flatMap fun i => (pyRange 0 (2 * L)).map fun j => (i, j)).filter fun (i, j) => (i - j) % 2 == 0)
    (by
      rintro ⟨i, j⟩ hx
      simp only [List.mem_filter, List.mem_flatMap, List.mem_map, mem_pyRange, Prod.mk.injEq, beq_iff_eq] at hx
      obtain ⟨⟨i', ⟨hi0, hiL⟩, j', ⟨hj0, hjL⟩, rfl, rfl⟩, hpar⟩ := hx
      by_cases hij : i' = j'
      · subst hij
        obtain ⟨ch, tail, h1, hr⟩ := diag_ready L i' (t2 tkin (i' / 2) (i' / 2)) hi0 hiL
        obtain ⟨sc, hsc, hwf⟩ := toSpinOpchain_wf L ch tail hr
        exact ⟨sc, by simp [h1, hsc, bind, Except.bind], hwf, (toSpinOpchain_charged L ch tail hr sc hsc).1⟩
      · have hb : (i' == j') = false := by simpa using hij
        obtain ⟨ch, tail, h1, hr⟩ := molHopChain_ready L i' j' (t2 tkin (i' / 2) (j' / 2)) hi0 hj0 hiL hjL hij (by omega)
        obtain ⟨sc, hsc, hwf⟩ := toSpinOpchain_wf L ch tail hr
        exact ⟨sc, by simp [hb, h1, hsc, bind, Except.bind], hwf, (toSpinOpchain_charged L ch tail hr sc hsc).1⟩)
  obtain ⟨int, hint, pint⟩ := foldlM_wf
    (fun (acc : List (OpChain κ)) (ijkl : Int × Int × Int × Int) => (do
      let (i, j, k, l) := ijkl
      let (coeff, valid) := getVintCoeff c vint (i / 2, j / 2, k / 2, l / 2) (i % 2, j % 2, k % 2, l % 2)
      if !valid then pure acc
      else do
        let single ← molIntChain i j k l coeff
        let sc ← toSpinOpchain single
        pure (acc ++ [sc]) : Except Err (List (OpChain κ))))
    (fun ch => ChainWF L ch ∧ chOK (SpinP κ) ch.oids ch.qnums)
    (fun (q : Int × Int × Int × Int) => 0 ≤ q.1 ∧ q.1 < q.2.1 ∧ q.2.1 < 2 * L ∧ 0 ≤ q.2.2.1 ∧ q.2.2.1 < q.2.2.2 ∧ q.2.2.2 < 2 * L)
    (by
      rintro acc ⟨i, j, k, l⟩ ⟨hi, hij, hjL, hk, hkl, hlL⟩ hacc
      simp only at hi hij hjL hk hkl hlL ⊢
      cases hv : (getVintCoeff c vint (i / 2, j / 2, k / 2, l / 2) (i % 2, j % 2, k % 2, l % 2)).2 with
      | false =>
        refine ⟨acc, ?_, hacc⟩
        simp [hv, pure, Except.pure]
      | true =>
        have hvalid := getVintCoeff_valid c vint _ _ _ _ _ hv
        obtain ⟨ch, tail, h1, hr⟩ := molIntChain_ready L i j k l
          (getVintCoeff c vint (i / 2, j / 2, k / 2, l / 2) (i % 2, j % 2, k % 2, l % 2)).1 hi hij hjL hk hkl hlL hvalid
        obtain ⟨sc, hsc, hwf⟩ := toSpinOpchain_wf L ch tail hr
        refine ⟨acc ++ [sc], ?_, ?_⟩
        · simp [hv, h1, hsc, bind, Except.bind, pure, Except.pure]
        · intro b hb
          rcases List.mem_append.1 hb with hb | hb
          · exact hacc b hb
          · simp only [List.mem_singleton] at hb
            subst hb
            exact ⟨hwf, (toSpinOpchain_charged L ch tail hr b hsc).1⟩)
    ((pyRange 0 (2 * L)).flatMap fun i => (pyRange (i + 1) (2 * L)).flatMap fun j =>
      (pyRange 0 (2 * L)).flatMap fun k => (pyRange (k + 1) (2 * L)).map fun l => (i, j, k, l)) []
    (by
      rintro ⟨i, j, k, l⟩ hx
      simp only [List.mem_flatMap, List.mem_map, mem_pyRange, Prod.mk.injEq] at hx
      obtain ⟨i', ⟨hi0, hiL⟩, j', ⟨hj0, hjL⟩, k', ⟨hk0, hkL⟩, l', ⟨hl0, hlL⟩, rfl, rfl, rfl, rfl⟩ := hx
      refine ⟨hi0, ?_, hjL, hk0, ?_, hlL⟩ <;> simp only <;> omega)
    (by simp)
  refine ⟨hop ++ int, ?_, ?_⟩
  · exact bind_ok_intro hhop (bind_ok_intro hint rfl)
  · intro ch hch
    rcases List.mem_append.1 hch with h | h
    · exact phop ch h
    · exact pint ch h

/-- **the non-vanishing condition of the bond-optimized spin-orbital construction**: the enumeration returns (it always does) and
some chain has a non-zero coefficient -/
def SpinMolNonzero (c : Consts κ) (tkin : List (List κ)) (vint : List (List (List (List κ)))) : Prop :=
  match spinMolChains c tkin vint with
  | .ok chains => ∃ ch ∈ chains, ch.coeff ≠ 0
  | .error _ => False

instance (c : Consts κ) (tkin : List (List κ)) (vint : List (List (List (List κ)))) : Decidable (SpinMolNonzero c tkin vint) := by
  unfold SpinMolNonzero
  cases spinMolChains c tkin vint <;> infer_instance

/-- **`spin_molecular_hamiltonian_mpo(tkin, vint, optimize=True)` returns** for well-shaped tensors, `L ≥ 1` and `SpinMolNonzero` -/
theorem spinMolBuildOpt_total (c : Consts κ) (tkin : List (List κ)) (vint : List (List (List (List κ))))
    (hsh : shapesOk tkin vint = true) (hL : 1 ≤ tkin.length) (hnz : SpinMolNonzero c tkin vint) :
    ∃ b, spinMolBuildOpt c tkin vint = .ok b := by
  obtain ⟨chains, hch, hwf⟩ := spinMolChains_charged c tkin vint
  unfold SpinMolNonzero at hnz
  rw [hch] at hnz
  have hcw : ChainsWF chains (tkin.length : Int) := by
    refine ⟨by omega, hnz, ?_⟩
    intro ch hc _
    have w := (hwf ch hc).1
    exact ⟨w.start, w.fits, w.lens, w.q0, w.qlast⟩
  obtain ⟨g1, _, _, _, t, hg, _⟩ := fromOpchains_result chains (tkin.length : Int) 0 hcw
  have hc := fromOpchains_consistent chains _ 0 _ hg
  have hid : SpinP κ 0 0 0 := by
    have := pair_table_charged (κ := κ) mI mI 0 (Or.inr (Or.inl rfl)) (Or.inr (Or.inl rfl)) rfl
    have e : -(encPair (ch mI + ch mI) (ch mI - ch mI)) = (0 : Int) - 0 := by decide
    rw [e] at this
    exact this
  have hedges := fromOpchains_charged (SpinP κ) chains _ 0 _ hg hid (fun ch hc' _ => by
    have w := (hwf ch hc').1
    exact ⟨w.lens, w.q0, w.qlast, (hwf ch hc').2⟩)
  have hops : OpsCharged spinQd (finalGraph g1 t) spinMolOpmap := by
    intro p hp oc hoc
    obtain ⟨_, _, h3⟩ := hedges p hp
    obtain ⟨q0, q1, b1, b2, b3⟩ := h3 oc hoc
    have e1 : qOf (finalGraph g1 t) p.2.nids.1 = q0 := by
      unfold qOf; unfold nq at b1; rw [b1]; rfl
    have e2 : qOf (finalGraph g1 t) p.2.nids.2 = q1 := by
      unfold qOf; unfold nq at b2; rw [b2]; rfl
    rw [e1, e2]
    exact b3
  obtain ⟨out, hout⟩ := fromOpgraph_total spinQd _ spinMolOpmap false hc (by decide) hops
  refine ⟨⟨spinQd, spinMolOpmap, finalGraph g1 t, out⟩, ?_⟩
  unfold spinMolBuildOpt
  simp only [hsh, pyAssert, if_true, hch, hg, hc, hout, bind, Except.bind, pure, Except.pure]
  split <;> rfl

/-- the condition is necessary -/
theorem spinMolBuildOpt_only_if (c : Consts κ) (tkin : List (List κ)) (vint : List (List (List (List κ)))) (b : Built κ)
    (hb : spinMolBuildOpt c tkin vint = .ok b) (hL : 1 ≤ tkin.length) :
    shapesOk tkin vint = true ∧ SpinMolNonzero c tkin vint := by
  obtain ⟨chains, hch, hwf⟩ := spinMolChains_charged c tkin vint
  unfold spinMolBuildOpt at hb
  obtain ⟨_, hs, hb⟩ := bind_ok hb
  obtain ⟨chains', hch', hb⟩ := bind_ok hb
  rw [hch] at hch'
  simp only [Except.ok.injEq] at hch'
  subst hch'
  obtain ⟨g, hg, _⟩ := bind_ok hb
  refine ⟨pyAssert_ok hs, ?_⟩
  have hcw := chainsWF_of_ok chains _ 0 g hg (by omega) (fun ch hc _ => by
    have w := (hwf ch hc).1
    exact ⟨w.start, w.fits, w.lens, w.q0, w.qlast⟩)
  unfold SpinMolNonzero
  rw [hch]
  exact hcw.2.1

end Ptn.Ham

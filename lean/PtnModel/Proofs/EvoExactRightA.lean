import PtnModel.Proofs.EvoExactTransL
import PtnModel.Proofs.EvoExactTransR
import PtnModel.Proofs.EvoExactComplete
/-!
# One call of `tdvp1Right` on a complete manifold

`tdvp1Right … s (j+1)` = QR of the centre tensor `A[j+1]`, new right block, zero-site step `S_j(-τ)` (`τ = half·dt`), push into
site `j`, one-site step `K_j(τ)`.
* `tdvp1Right_cancel` : if site `j` has the dimensions of a square left isometry, `K_j(τ)` undoes `S_j(-τ)`: the call only
  moves the centre — same dense state.
* `tdvp1Right_head`   : if site `j+1` has the dimensions of a square right isometry and the centre tensor is
  `E(-τ H_eff) X`, the part of the call before `K_j(τ)` produces the plain gauge move of `s[j+1 := X]`.
-/
set_option linter.unusedSectionVars false

namespace Ptn.Evo
open Ptn Ptn.BondOps Ptn.Ortho Ptn.Env Ptn.Krylov Ptn.Dense Finset

variable {𝕜 : Type} [RCLike 𝕜] [DecidableEq 𝕜]
variable {k : EvoKernels 𝕜 ℝ} {H : MPO 𝕜} {qd : List Int} {numiter : Nat}

/-- the zero-site step with time `-τ` on the bond right of a square left isometry `P`, pushed into `P` and followed by the
one-site step with time `τ`, returns `P · Ct` (the two exact local exponentials cancel) -/
theorem rightA_local_cancel {BL BR BLs BLn : T3 𝕜} {W : T4 𝕜} {P : T3 𝕜} {Ct C1 : Mat 𝕜} {Ap2 : T3 𝕜} {τ : 𝕜}
    (hN : NormContract k.cnorm)
    (heigh : ∀ (Afun : List 𝕜 → List 𝕜) (v : List 𝕜), C15.EighAt Afun k.cnorm k.deigh v numiter)
    (hE : ExpLaw k.dexp) (hP : LeftIso P) (hsq : P.d0 * P.d1 = P.d2) (hCtm : Ct.m = P.d2)
    (hFB : BondFits BLs BR Ct.m Ct.n) (hHB : BondHermitian BLs BR Ct.m Ct.n)
    (hF : LocalFits BL BR W P.d0 P.d1 C1.n) (hH : LocalHermitian BL BR W P.d0 P.d1 C1.n)
    (hBLn : Op.opStepLeft P P W BL = .ok BLn)
    (hfun : localBondFun BLs BR Ct.m Ct.n = localBondFun BLn BR Ct.m Ct.n)
    (h3 : localBondStep k BLs BR Ct (-τ) numiter = .ok C1)
    (hX0 : C15.Exhausted (localBondFun BLs BR Ct.m Ct.n) k.cnorm (flat2 Ct) numiter)
    (h4 : localHamiltonianStep k BL BR W (pushRight P C1) τ numiter = .ok Ap2)
    (hX1 : C15.Exhausted (localHFun BL BR W (pushRight P C1).d0 (pushRight P C1).d1 (pushRight P C1).d2) k.cnorm
      (flat3 (pushRight P C1)) numiter) :
    Ap2.d0 = P.d0 ∧ Ap2.d1 = P.d1 ∧ Ap2.d2 = C1.n ∧
      ∀ s a b, s < P.d0 → a < P.d1 → b < C1.n → Ap2.f s a b = ∑ p ∈ range P.d2, P.f s a p * Ct.f p b := by
  obtain ⟨c0, c1⟩ := bondStep_dims h3
  obtain ⟨a0, a1, a2⟩ := localStep_dims h4
  -- the zero-site run
  obtain ⟨y, hy, hC1⟩ := bondStep_unfold h3
  have hAb := isHermitian_localBondFun hFB hHB
  have hMb := actsAs_localBondFun hFB
  have hHMb := herm_matrix_of_actsAs hAb hMb
  have hvl : (flat2 Ct).length = Ct.m * Ct.n := length_flat2 Ct
  rw [← hvl] at hMb hHMb
  obtain ⟨hyl, hsp0⟩ := spec_of_run hN hMb hHMb (heigh _ _) hX0 hy
  rw [hvl] at hyl hsp0
  have hC1flat : flat2 C1 = y := by rw [hC1]; exact flat2_unflat2_tab hyl
  rw [hfun, ← hC1flat, hCtm, ← c1] at hsp0
  -- transport through `P`
  have hsp1 : Spec (P.d0 * P.d1 * C1.n) (localHFun BL BR W P.d0 P.d1 C1.n) k.dexp (-(-τ)) (flat3 (mulRight P Ct))
      (flat3 (pushRight P C1)) :=
    spec_leftPush hP hsq hF hBLn (Cx := Ct) (Cy := C1) hCtm c1.symm (c0.trans hCtm) rfl
      (X := mulRight P Ct) (Y := pushRight P C1) rfl rfl c1.symm rfl rfl rfl
      (fun s a b _ _ _ => rfl) (fun s a b hs ha hb => pushRight_f P C1 hs ha hb) hsp0
  -- the one-site run
  obtain ⟨z, hz, hA2⟩ := localStep_unfold h4
  have hz' : expmKrylov (localHFun BL BR W P.d0 P.d1 C1.n) k.cnorm k.deigh k.dexp k.dexpm (flat3 (pushRight P C1)) (-τ)
      numiter true = .ok z := hz
  have hX1' : C15.Exhausted (localHFun BL BR W P.d0 P.d1 C1.n) k.cnorm (flat3 (pushRight P C1)) numiter := hX1
  have hAl := isHermitian_localHFun hF hH
  have hMl := actsAs_localHFun hF
  have hHMl := herm_matrix_of_actsAs hAl hMl
  have hvl3 : (flat3 (pushRight P C1)).length = P.d0 * P.d1 * C1.n := length_flat3 _
  rw [← hvl3] at hMl hHMl hsp1
  obtain ⟨hzl, hsp2⟩ := spec_run hN hMl hHMl hsp1 (heigh _ _) hX1' hz' (fun μ => by rw [add_mul, hE.add, mul_comm])
  rw [hvl3] at hzl hsp2
  have key := spec_one hsp2 (fun μ => by rw [show -(-τ) + -τ = (0 : 𝕜) by ring, zero_mul, hE.zero])
  refine ⟨a0, a1, a2, ?_⟩
  intro s a b hs ha hb
  have e1 : Ap2.f s a b = vget z ((s * P.d1 + a) * C1.n + b) := by
    rw [hA2]
    show (unflat3 z P.d0 P.d1 C1.n).tab.f s a b = _
    rw [Env.t3_tab_f (unflat3 z P.d0 P.d1 C1.n) hs ha hb, unflat3_f]
  have e2 : vget (flat3 (mulRight P Ct)) ((s * P.d1 + a) * Ct.n + b) = (mulRight P Ct).f s a b :=
    vget_flat3 (mulRight P Ct) (i := s) (j := a) (k := b) hs ha (by show b < Ct.n; rw [← c1]; exact hb)
  rw [← c1] at e2
  rw [e1, key _ (idx3_lt hs ha hb), e2]
  rfl

/-- **S3.**  If site `j` has the dimensions of a square left isometry the one-site step of `tdvp1Right` undoes its zero-site
step: the call keeps the bond dimensions and the dense state. -/
theorem tdvp1Right_cancel (ctx : SweepCtx k H qd numiter) (hE : ExpLaw k.dexp) {dt : 𝕜} {s s' : Sweep 𝕜} {j : Nat}
    (h : Canon H qd s (j + 1)) (hsq : SqL qd s j)
    (hrun : tdvp1Right k H qd dt numiter s (j + 1) = .ok s') (hex : RightExact false k H qd dt numiter s (j + 1)) :
    SameDims s s' ∧ SameAmp qd H.A.length s s' := by
  obtain ⟨Q, C, qb, BRn, C1, Ap2, h1, h2, h3, _, h4, hs'⟩ := tdvp1Right_unfold hrun
  obtain ⟨hX0, hX1, hqb, _⟩ := hex Q C qb BRn C1 h1 h2 h3
  simp only [Nat.add_sub_cancel] at h4 hs' hX1
  have hi : j + 1 < H.A.length := h.hc
  obtain ⟨p0, p1, p2⟩ := h.wf.shape j (by omega)
  obtain ⟨s0, s1, s2⟩ := h.wf.shape (j + 1) hi
  have hrm := right_move_canon ctx h h1 h2
  dsimp only at hrm
  obtain ⟨hAiIso, ai0, ai1, ai2, hqbpos, hCtm, hCtn, hAcf, hFB, hHB, hcanC⟩ := hrm
  set Ai : T3 𝕜 := (T3.ofFlattenLeft Q (getA s (j + 1)).d0 (getA s (j + 1)).d2).swap12.tab with hAi
  set Ct : Mat 𝕜 := C.transpose.tab with hCt
  set P : T3 𝕜 := getA s j with hP
  obtain ⟨c0, c1⟩ := bondStep_dims h3
  have hcan := hcanC C1 c0 c1
  have hjs : j < s.A.size := by rw [h.wf.sizeA]; omega
  have hj1s : j + 1 < s.A.size := by rw [h.wf.sizeA]; omega
  -- the one-site operator at site `j` after the push
  obtain ⟨hFj, hHj⟩ := canon_local hcan ctx.hH ctx.herm
  have gA : getA (⟨(s.A.setIfInBounds (j + 1) Ai).setIfInBounds j (pushRight P C1),
      s.qD.setIfInBounds (j + 1) (QN.neg qb), s.BL, s.BR.setIfInBounds j BRn⟩ : Sweep 𝕜) j = pushRight P C1 :=
    getD_setIfInBounds_eq _ _ _ (by simpa using hjs)
  have gR : getBR (⟨(s.A.setIfInBounds (j + 1) Ai).setIfInBounds j (pushRight P C1),
      s.qD.setIfInBounds (j + 1) (QN.neg qb), s.BL, s.BR.setIfInBounds j BRn⟩ : Sweep 𝕜) j = BRn :=
    getD_setIfInBounds_eq _ _ _ (by rw [h.sizeBR]; omega)
  rw [gA, gR] at hFj hHj
  have hFjP : LocalFits (getBL s j) BRn (H.A.getD j zeroT4) P.d0 P.d1 C1.n := hFj
  have hHjP : LocalHermitian (getBL s j) BRn (H.A.getD j zeroT4) P.d0 P.d1 C1.n := hHj
  -- the stored left block is the fresh one
  obtain ⟨BLn, hBLn, hBLnb⟩ := C04.left_step_dense h.shaped ctx.hH h.len (i := j) (by rw [h.len]; omega)
    (cur_getElem? qd s hjs) (getD_some H.A (by omega) zeroT4) (h.bl j (by omega))
  obtain ⟨e0, e1, e2, ef⟩ := isLeftBlock_unique hBLnb (h.bl (j + 1) (Nat.le_refl _))
  obtain ⟨hFBn, _⟩ := bond_proj_left hFjP hBLn
  have hCtmP : Ct.m = P.d2 := hCtm.trans p2.symm
  have hCtnC : Ct.n = C1.n := c1.symm
  have funeq : localBondFun (getBL s (j + 1)) BRn Ct.m Ct.n = localBondFun BLn BRn Ct.m Ct.n := by
    rw [hCtmP, hCtnC]
    refine localBondFun_congrL hFBn (by rw [← hCtmP, ← hCtnC]; exact hFB) e1 ?_
    intro a w a' ha hw ha'
    exact ef a w a' (by rw [hFBn.l0]; exact ha) hw (by rw [hFBn.l2]; exact ha')
  have hPsq : P.d0 * P.d1 = P.d2 := by rw [p0, p1, p2]; exact hsq
  -- the two local exponentials cancel
  obtain ⟨a0, a1, a2, hAf⟩ := rightA_local_cancel ctx.norm ctx.eigh hE (h.liso j (by omega)) hPsq hCtmP hFB hHB hFjP hHjP
    hBLn funeq h3 hX0 h4 hX1
  -- the call is the plain gauge move
  have hprod : ∀ a0' a a1' y, a0' < qd.length → a < P.d1 → a1' < qd.length → y < (getA s (j + 1)).d2 →
      ∑ x ∈ range Ap2.d2, Ap2.f a0' a x * Ai.f a1' x y =
        ∑ x ∈ range P.d2, P.f a0' a x * (getA s (j + 1)).f a1' x y := by
    intro a0' a a1' y ha0 ha ha1 hy
    rw [a2]
    have e1 : ∀ x ∈ range C1.n, Ap2.f a0' a x * Ai.f a1' x y =
        ∑ b ∈ range P.d2, P.f a0' a b * Ct.f b x * Ai.f a1' x y := by
      intro x hx
      rw [hAf a0' a x (by rw [p0]; exact ha0) ha (mem_range.1 hx), Finset.sum_mul]
    rw [Finset.sum_congr rfl e1, Finset.sum_comm]
    refine sum_congr rfl fun b hb => ?_
    rw [← hAcf a1' b y ha1 (by rw [← p2]; exact mem_range.1 hb) (by rw [← s2]; exact hy)]
    show _ = P.f a0' a b * ∑ p ∈ range Ai.d1, Ct.f b p * Ai.f a1' p y
    rw [Finset.mul_sum, c1, hCtn, ← ai1]
    exact sum_congr rfl fun p _ => by ring
  obtain ⟨_, hamp⟩ := canon_right h ctx.hH (X' := Ap2) (Y' := Ai) (qb := QN.neg qb) (BRn := BRn)
    ⟨a0.trans p0, a1.trans p1, by rw [neg_len, a2, c1, hCtn]⟩ ⟨ai0, by rw [neg_len]; exact ai1, ai2⟩
    (by rw [neg_len]; exact hqbpos) hAiIso hprod h2
  rw [← hs'] at hamp
  refine ⟨?_, hamp⟩
  intro m
  have hs'Q : getQ s' m = if m = j + 1 then QN.neg qb else getQ s m := by
    rw [hs']; exact getD_set1 s.qD (QN.neg qb) [] (by rw [h.wf.sizeQ]; omega) m
  rw [hs'Q]
  by_cases hm : m = j + 1
  · rw [if_pos hm, neg_len, hqb, hm]
  · rw [if_neg hm]

end Ptn.Evo

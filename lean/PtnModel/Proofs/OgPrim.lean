import PtnModel.Proofs.OgDict
/-!
# Success characterisations of the primitive graph operations
-/
set_option linter.unusedSectionVars false

namespace Ptn.Og.Rw
open List

theorem bind_ok {ε α β : Type} {x : Except ε α} {f : α → Except ε β} {b : β} :
    (x >>= f) = .ok b ↔ ∃ a, x = .ok a ∧ f a = .ok b := by
  cases x <;> simp [bind, Except.bind]

theorem pure_ok {ε α : Type} {a b : α} : (pure a : Except ε α) = .ok b ↔ a = b := by
  simp [pure, Except.pure]

theorem pyAssert_ok {c : Bool} {u : Unit} : Ptn.pyAssert c = .ok u ↔ c = true := by
  unfold Ptn.pyAssert
  cases c <;> simp

variable {κ : Type} [CommRing κ] [DecidableEq κ]

theorem removeEdge_ok {g : Graph κ} {k : Int} {e : Edge κ} {g1 : Graph κ} :
    g.removeEdge k = .ok (e, g1) ↔ dGet? g.edges k = some e ∧ g1 = { g with edges := dErase g.edges k } := by
  unfold Graph.removeEdge
  rw [bind_ok]
  constructor
  · rintro ⟨⟨e', es⟩, h1, h2⟩
    rw [dPop_eq_ok] at h1
    simp only [pure_ok, Prod.mk.injEq] at h2
    obtain ⟨rfl, rfl⟩ := h2
    exact ⟨h1.1, by rw [h1.2]⟩
  · rintro ⟨h1, rfl⟩
    exact ⟨(e, dErase g.edges k), dPop_eq_ok.2 ⟨h1, rfl⟩, rfl⟩

theorem removeNode_ok {g : Graph κ} {k : Int} {n : Node} {g1 : Graph κ} :
    g.removeNode k = .ok (n, g1) ↔ dGet? g.nodes k = some n ∧ g1 = { g with nodes := dErase g.nodes k } := by
  unfold Graph.removeNode
  rw [bind_ok]
  constructor
  · rintro ⟨⟨n', ns⟩, h1, h2⟩
    rw [dPop_eq_ok] at h1
    simp only [pure_ok, Prod.mk.injEq] at h2
    obtain ⟨rfl, rfl⟩ := h2
    exact ⟨h1.1, by rw [h1.2]⟩
  · rintro ⟨h1, rfl⟩
    exact ⟨(n, dErase g.nodes k), dPop_eq_ok.2 ⟨h1, rfl⟩, rfl⟩

theorem modifyNode_ok {g : Graph κ} {k : Int} {f : Node → Except Err Node} {g1 : Graph κ} :
    g.modifyNode k f = .ok g1 ↔
      ∃ n n', dGet? g.nodes k = some n ∧ f n = .ok n' ∧ g1 = { g with nodes := dReplace g.nodes k n' } := by
  unfold Graph.modifyNode
  simp only [bind_ok, pure_ok, dGet_eq_ok_iff]
  constructor
  · rintro ⟨n, h1, n', h2, rfl⟩; exact ⟨n, n', h1, h2, rfl⟩
  · rintro ⟨n, n', h1, h2, rfl⟩; exact ⟨n, h1, n', h2, rfl⟩

theorem modifyEdge_ok {g : Graph κ} {k : Int} {f : Edge κ → Except Err (Edge κ)} {g1 : Graph κ} :
    g.modifyEdge k f = .ok g1 ↔
      ∃ e e', dGet? g.edges k = some e ∧ f e = .ok e' ∧ g1 = { g with edges := dReplace g.edges k e' } := by
  unfold Graph.modifyEdge
  simp only [bind_ok, pure_ok, dGet_eq_ok_iff]
  constructor
  · rintro ⟨n, h1, n', h2, rfl⟩; exact ⟨n, n', h1, h2, rfl⟩
  · rintro ⟨n, n', h1, h2, rfl⟩; exact ⟨n, h1, n', h2, rfl⟩

theorem addNode_ok {g : Graph κ} {n : Node} {g1 : Graph κ} :
    g.addNode n = .ok g1 ↔ n.nid ∉ dKeys g.nodes ∧ g1 = { g with nodes := g.nodes ++ [(n.nid, n)] } := by
  unfold Graph.addNode
  by_cases h : dHas g.nodes n.nid = true
  · simp only [h, if_true]
    have := dHas_iff.1 h
    simp [this]
  · simp only [h]
    have : n.nid ∉ dKeys g.nodes := fun h' => h (dHas_iff.2 h')
    simp only [Bool.false_eq_true, if_false, Except.ok.injEq, this, not_false_eq_true, true_and]
    exact eq_comm

theorem addEdge_ok {g : Graph κ} {e : Edge κ} {g1 : Graph κ} :
    g.addEdge e = .ok g1 ↔ e.eid ∉ dKeys g.edges ∧ g1 = { g with edges := g.edges ++ [(e.eid, e)] } := by
  unfold Graph.addEdge
  by_cases h : dHas g.edges e.eid = true
  · simp only [h, if_true]
    have := dHas_iff.1 h
    simp [this]
  · simp only [h]
    have : e.eid ∉ dKeys g.edges := fun h' => h (dHas_iff.2 h')
    simp only [Bool.false_eq_true, if_false, Except.ok.injEq, this, not_false_eq_true, true_and]
    exact eq_comm

theorem Node.removeEdgeId_ok {n : Node} {eid : Int} {d : Bool} {n' : Node} :
    n.removeEdgeId eid d = .ok n' ↔ eid ∈ n.eids d ∧ n' = n.setEids d ((n.eids d).erase eid) := by
  unfold Node.removeEdgeId
  by_cases h : eid ∈ n.eids d
  · simp only [contains_eq_mem, h, decide_true, if_true, Except.ok.injEq, true_and]
    exact eq_comm
  · simp [h]

theorem Node.addEdgeId_ok {n : Node} {eid : Int} {d : Bool} {n' : Node} :
    n.addEdgeId eid d = .ok n' ↔ eid ∉ n.eids d ∧ n' = n.setEids d (n.eids d ++ [eid]) := by
  unfold Node.addEdgeId
  simp only [bind_ok, pyAssert_ok, pure_ok]
  constructor
  · rintro ⟨_, h1, rfl⟩
    exact ⟨by simpa using h1, rfl⟩
  · rintro ⟨h1, rfl⟩
    exact ⟨(), by simpa using h1, rfl⟩

@[simp] theorem Node.setEids_eids_same (n : Node) (d : Bool) (l : List Int) : (n.setEids d l).eids d = l := by
  cases d <;> rfl

@[simp] theorem Node.setEids_eids_other (n : Node) (d : Bool) (l : List Int) : (n.setEids d l).eids (!d) = n.eids (!d) := by
  cases d <;> rfl

theorem Node.setEids_eids (n : Node) (d d' : Bool) (l : List Int) :
    (n.setEids d l).eids d' = if d' = d then l else n.eids d' := by
  cases d <;> cases d' <;> rfl

@[simp] theorem Node.setEids_nid (n : Node) (d : Bool) (l : List Int) : (n.setEids d l).nid = n.nid := by
  cases d <;> rfl

@[simp] theorem Node.setEids_qnum (n : Node) (d : Bool) (l : List Int) : (n.setEids d l).qnum = n.qnum := by
  cases d <;> rfl

end Ptn.Og.Rw

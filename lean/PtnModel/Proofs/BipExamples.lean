import PtnModel.Proofs.BipBasic
/-!
# C18: concrete evaluations of the model (for the non-vacuity examples)

`dfs`/`explore` are defined by well-founded recursion, so `decide` cannot evaluate them; the
evaluations below are done by rewriting with the equation lemmas.
-/
namespace Ptn.Bip

/-- the path `0-0, 1-0, 1-1` (built from an edge list with a duplicate) -/
def exG : BGraph := ⟨2, 2, [[0], [0, 1]], [[0, 1], [1]]⟩

theorem exG_mk : BGraph.mk' 2 2 [(0, 0), (1, 0), (1, 1), (1, 0)] = .ok exG := by decide

theorem exG_wf : exG.WF := (mk'_wf' exG_mk).1

set_option maxRecDepth 4000 in
theorem exG_hk : hopcroftKarp exG = .ok [(0, 0), (1, 1)] := by
  simp [exG, hopcroftKarp, hopcroftKarpState, phaseFuel, phaseLoop, connectUnmatched, bfsInit, bfsFuel, bfsLoop,
    bfsNeighbours, augmentAll, dfs, dfsNeighbours, dfsFuel, HK.init, HK.dist, HK.setDist, HK.mateV, infDist,
    matchingOf, List.range, List.range.loop, bind, Except.bind, pure, Except.pure, List.getD]

/-- a graph where the first phase has to re-match: `0-0, 0-1, 1-0, 2-0, 2-2` -/
def exH : BGraph := ⟨3, 3, [[0, 1], [0], [0, 2]], [[0, 1, 2], [0], [2]]⟩

theorem exH_mk : BGraph.mk' 3 3 [(0, 0), (0, 1), (1, 0), (2, 0), (2, 2)] = .ok exH := by decide

theorem exH_wf : exH.WF := (mk'_wf' exH_mk).1

set_option maxRecDepth 8000 in
theorem exH_hk : hopcroftKarp exH = .ok [(0, 1), (1, 0), (2, 2)] := by
  simp [exH, hopcroftKarp, hopcroftKarpState, phaseFuel, phaseLoop, connectUnmatched, bfsInit, bfsFuel, bfsLoop,
    bfsNeighbours, augmentAll, dfs, dfsNeighbours, dfsFuel, HK.init, HK.dist, HK.setDist, HK.mateV, infDist,
    matchingOf, List.range, List.range.loop, bind, Except.bind, pure, Except.pure, List.getD]

/-- a graph with an unmatched `U`-vertex: `0-0, 1-0, 2-0, 2-1` -/
def exK : BGraph := ⟨3, 2, [[0], [0], [0, 1]], [[0, 1, 2], [2]]⟩

theorem exK_mk : BGraph.mk' 3 2 [(0, 0), (1, 0), (2, 0), (2, 1)] = .ok exK := by decide

theorem exK_wf : exK.WF := (mk'_wf' exK_mk).1

set_option maxRecDepth 8000 in
theorem exK_hk : hopcroftKarp exK = .ok [(0, 0), (2, 1)] := by
  simp [exK, hopcroftKarp, hopcroftKarpState, phaseFuel, phaseLoop, connectUnmatched, bfsInit, bfsFuel, bfsLoop,
    bfsNeighbours, augmentAll, dfs, dfsNeighbours, dfsFuel, HK.init, HK.dist, HK.setDist, HK.mateV, infDist,
    matchingOf, List.range, List.range.loop, bind, Except.bind, pure, Except.pure, List.getD]

set_option maxRecDepth 8000 in
theorem exK_explore : explore exK [(0, 0), (2, 1)] (exploreFuel exK) 1 ([], []) = .ok ([1, 0], [0]) := by
  simp [exK, explore, exploreV, exploreU, exploreFuel, List.getD]

set_option maxRecDepth 8000 in
theorem exK_mvc : minimumVertexCover exK = .ok ([2], [0]) := by
  unfold minimumVertexCover
  rw [exK_hk]
  simp [exK, explore, exploreV, exploreU, exploreFuel, List.getD, sortNat, pyAssert,
    List.range, List.range.loop, bind, Except.bind, pure, Except.pure, List.foldlM]

end Ptn.Bip

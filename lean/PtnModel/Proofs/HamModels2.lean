import PtnModel.Proofs.HamModels
/-!
# Bose-Hubbard (every local dimension `d`) and Fermi-Hubbard: templates, charges, adjoint closure, words
-/
set_option linter.unusedSectionVars false
set_option linter.unusedSimpArgs false

namespace Ptn.Ham
open Ptn.Og

variable {κ : Type} [CommRing κ] [DecidableEq κ]

theorem matOf_congr (d : Nat) (f g : Nat → Nat → κ) (h : ∀ i j, i < d → j < d → f i j = g i j) :
    matOf d f = matOf d g := by
  unfold matOf
  apply List.map_congr_left
  intro i hi
  apply List.map_congr_left
  intro j hj
  exact h i j (List.mem_range.1 hi) (List.mem_range.1 hj)

theorem matT_matOf (d : Nat) (f : Nat → Nat → κ) : matT d (matOf d f) = matOf d fun i j => f j i := by
  unfold matT
  apply matOf_congr
  intro i j hi hj
  rw [entry_matOf]
  simp [hi, hj]

theorem identity_eq_matOf (d : Nat) : (Mat.identity d : Mat κ) = matOf d fun i j => if i = j then 1 else 0 := rfl

/-! ## Bose-Hubbard -/

def boseTemplates (t U mu : κ) : List (OpChain κ) :=
  [⟨[1, -1], [0, 1, 0], -t, 0⟩, ⟨[-1, 1], [0, -1, 0], -t, 0⟩, ⟨[2], [0, 0], -mu, 0⟩, ⟨[3], [0, 0], U, 0⟩]

/-- `np.arange(d)` -/
def boseQd (d : Nat) : List Int := (List.range d).map fun (k : Nat) => (k : Int)

theorem boseLattice_eq (c : Consts κ) (d : Nat) (t U mu : κ) :
    boseLattice c d t U mu = .ok ⟨boseQd d, boseOpmap c d, boseTemplates t U mu, 0⟩ := rfl

theorem bose_templates (t U mu : κ) : ∀ x ∈ boseTemplates t U mu, TemplateWF x := by
  intro x hx
  simp only [boseTemplates, List.mem_cons, List.not_mem_nil, or_false] at hx
  rcases hx with rfl | rfl | rfl | rfl <;> exact ⟨rfl, by simp, rfl, rfl⟩

theorem boseQd_length (d : Nat) : (boseQd d).length = d := by simp [boseQd]

theorem boseQd_getD (d a : Nat) (h : a < d) : (boseQd d).getD a 0 = (a : Int) := by
  simp [boseQd, List.getD_eq_getElem?_getD, h]

/-- a table whose entry `(a, b)` vanishes unless `a = b + s` shifts the particle number by `s` -/
theorem bose_charge (d : Nat) (f : Nat → Nat → κ) (s : Int) (hf : ∀ a b : Nat, (a : Int) - (b : Int) ≠ s → f a b = 0) :
    OpHasCharge (boseQd d) (matOf d f) s := by
  intro a b ha hb h
  rw [boseQd_length] at ha hb
  rw [boseQd_getD d a ha, boseQd_getD d b hb] at h
  rw [entry_matOf]
  simp [ha, hb, hf a b h]

/-- for every local dimension `d` (also `d = 1`, where all non-identity tables vanish): the tables are `d × d`,
`b` lowers and `b†` raises the occupation by one, `n`, `n(n-1)/2` and the identity conserve it, in agreement with the
bond charges of the four templates -/
theorem bose_charged (c : Consts κ) (d : Nat) (t U mu : κ) :
    LatticeCharged (⟨boseQd d, boseOpmap c d, boseTemplates t U mu, 0⟩ : Lattice κ) := by
  have hB : OpHasCharge (boseQd d) (matOf d fun i j => if j = i + 1 then c.sq j else 0) (-1) := by
    apply bose_charge
    intro a b h
    have : ¬ b = a + 1 := by omega
    simp [this]
  have hBd : OpHasCharge (boseQd d) (matOf d fun i j => if i = j + 1 then c.sq i else 0) 1 := by
    apply bose_charge
    intro a b h
    have : ¬ a = b + 1 := by omega
    simp [this]
  have hN : OpHasCharge (boseQd d) (matOf d fun i j => if i = j then (ofN i : κ) else 0) 0 := by
    apply bose_charge
    intro a b h
    have : ¬ a = b := by omega
    simp [this]
  have hNI : OpHasCharge (boseQd d) (matOf d fun i j => if i = j then (ofN (i * (i - 1) / 2) : κ) else 0) 0 := by
    apply bose_charge
    intro a b h
    have : ¬ a = b := by omega
    simp [this]
  have hId : OpHasCharge (boseQd d) (Mat.identity d : Mat κ) 0 := by
    have := identity_charge (κ := κ) (boseQd d)
    rwa [boseQd_length] at this
  refine ⟨?_, ?_, ⟨_, rfl, hId⟩⟩
  · intro p hp
    simp only [boseOpmap, List.mem_cons, List.not_mem_nil, or_false] at hp
    rw [boseQd_length]
    rcases hp with rfl | rfl | rfl | rfl | rfl
    · exact isSquare_matOf _ _
    · exact isSquare_identity _
    · exact isSquare_matOf _ _
    · exact isSquare_matOf _ _
    · exact isSquare_matOf _ _
  · intro x hx
    simp only [boseTemplates, List.mem_cons, List.not_mem_nil, or_false] at hx
    rcases hx with rfl | rfl | rfl | rfl <;> intro k hk <;> simp at hk
    · rcases k with _ | _ | k
      · exact ⟨_, rfl, hBd⟩
      · exact ⟨_, rfl, hB⟩
      · omega
    · rcases k with _ | _ | k
      · exact ⟨_, rfl, hB⟩
      · exact ⟨_, rfl, hBd⟩
      · omega
    · subst hk
      exact ⟨_, rfl, hN⟩
    · subst hk
      exact ⟨_, rfl, hNI⟩

/-- `B ↔ Bd`, the diagonal tables fixed -/
def boseAdj (o : Int) : Int := if o = 1 then -1 else if o = -1 then 1 else o

theorem bose_adjoint (c : Consts κ) (d : Nat) (t U mu : κ) :
    AdjointClosed (⟨boseQd d, boseOpmap c d, boseTemplates t U mu, 0⟩ : Lattice κ) boseAdj := by
  have diag : ∀ g : Nat → κ, (matOf d fun i j => if j = i then g j else 0) = matOf d fun i j => if i = j then g i else 0 := by
    intro g
    apply matOf_congr
    intro i j _ _
    by_cases h : i = j
    · subst h; simp
    · have : ¬ j = i := fun e => h e.symm
      simp [h, this]
  refine ⟨?_, ?_, rfl, ?_⟩
  · intro p hp
    simp only [boseOpmap, List.mem_cons, List.not_mem_nil, or_false] at hp
    rcases hp with rfl | rfl | rfl | rfl | rfl <;> rfl
  · intro p hp
    simp only [boseOpmap, List.mem_cons, List.not_mem_nil, or_false] at hp
    rw [show (Lattice.qd (⟨boseQd d, boseOpmap c d, boseTemplates t U mu, 0⟩ : Lattice κ)).length = d from boseQd_length d]
    rcases hp with rfl | rfl | rfl | rfl | rfl
    · rw [matT_matOf]; rfl
    · rw [identity_eq_matOf, matT_matOf, diag (fun _ => 1)]; rfl
    · rw [matT_matOf]; rfl
    · rw [matT_matOf, diag (fun i => ofN i)]; rfl
    · rw [matT_matOf, diag (fun i => ofN (i * (i - 1) / 2))]; rfl
  · intro x hx
    simp only [boseTemplates, List.mem_cons, List.not_mem_nil, or_false] at hx
    rcases hx with rfl | rfl | rfl | rfl
    · exact ⟨_, List.mem_cons_of_mem _ List.mem_cons_self, rfl, rfl⟩
    · exact ⟨_, List.mem_cons_self, rfl, rfl⟩
    · exact ⟨_, List.mem_cons_of_mem _ (List.mem_cons_of_mem _ List.mem_cons_self), rfl, rfl⟩
    · exact ⟨_, List.mem_cons_of_mem _ (List.mem_cons_of_mem _ (List.mem_cons_of_mem _ List.mem_cons_self)), rfl, rfl⟩

/-- the words of `bose_hubbard_mpo`: `Σ_i -t b†_i b_{i+1} - t b_i b†_{i+1} - μ n_i + U n_i(n_i-1)/2` -/
theorem bose_words (t U mu : κ) (L : Int) :
    denChainsRaw (translateChains (boseTemplates t U mu) L) L 0 =
      ((pyRange 0 (L - 1)).map fun i => (pyRepeat i 0 ++ [1, -1] ++ pyRepeat (L - 2 - i) 0, -t)) ++
      ((pyRange 0 (L - 1)).map fun i => (pyRepeat i 0 ++ [-1, 1] ++ pyRepeat (L - 2 - i) 0, -t)) ++
      ((pyRange 0 L).map fun i => (pyRepeat i 0 ++ [2] ++ pyRepeat (L - 1 - i) 0, -mu)) ++
      ((pyRange 0 L).map fun i => (pyRepeat i 0 ++ [3] ++ pyRepeat (L - 1 - i) 0, U)) := by
  have e : L - 2 + 1 = L - 1 := by omega
  rw [translate_words]
  simp [boseTemplates, e]

end Ptn.Ham

import PtnModel.Proofs.RbiRule
/-!
# C12 helper lemmas, part 3: the normalised squares and the link to `retainedBondIndices`

* `normSq s w`: the list `(s / w)**2` exactly as the model computes it;
* `retainedBondIndices_eq`: `retainedBondIndices` is `[]` for zero norm and `keptOf (normSq s w) (dargsort (normSq s w)) tol` otherwise;
* `sum_mul_self_eq_zero`: a vanishing sum of squares forces all entries to vanish;
* `normSq_sum`: the normalised squares sum to one if `w * w` is the sum of squares and `w ≠ 0`.
-/
namespace Ptn.C12
open Ptn.BondOps

set_option linter.unusedSectionVars false

variable {ρ : Type} [Field ρ] [LinearOrder ρ] [IsStrictOrderedRing ρ]

/-- `(s / w)**2` as computed by the model -/
def normSq (s : List ρ) (w : ρ) : List ρ := s.map fun x => (x / w) * (x / w)

theorem retainedBondIndices_eq (dnorm : List ρ → ρ) (dargsort : List ρ → List Nat) (s : List ρ) (tol : ρ) :
    retainedBondIndices dnorm dargsort s tol =
      if dnorm s = 0 then [] else keptOf (normSq s (dnorm s)) (dargsort (normSq s (dnorm s))) tol := rfl

theorem retainedBondIndices_of_ne (dnorm : List ρ → ρ) (dargsort : List ρ → List Nat) (s : List ρ) (tol : ρ)
    (hw : dnorm s ≠ 0) : retainedBondIndices dnorm dargsort s tol =
      keptOf (normSq s (dnorm s)) (dargsort (normSq s (dnorm s))) tol := by
  rw [retainedBondIndices_eq, if_neg hw]

theorem retainedBondIndices_of_eq (dnorm : List ρ → ρ) (dargsort : List ρ → List Nat) (s : List ρ) (tol : ρ)
    (hw : dnorm s = 0) : retainedBondIndices dnorm dargsort s tol = [] := by
  rw [retainedBondIndices_eq, if_pos hw]

theorem normSq_length (s : List ρ) (w : ρ) : (normSq s w).length = s.length := by simp [normSq]

theorem normSq_nonneg (s : List ρ) (w : ρ) : ∀ x ∈ normSq s w, 0 ≤ x := by
  intro x hx
  obtain ⟨y, _, rfl⟩ := List.mem_map.1 hx
  exact mul_self_nonneg _

theorem normSq_getD (s : List ρ) (w : ρ) (i : Nat) : (normSq s w).getD i 0 = (s.getD i 0 / w) ^ 2 := by
  simp only [normSq, List.getD_eq_getElem?_getD, List.getElem?_map]
  rcases s[i]? with _ | x
  · simp
  · simp [sq]

theorem sum_mul_self_nonneg (s : List ρ) : 0 ≤ (s.map fun x => x * x).sum :=
  List.sum_nonneg fun x hx => by
    obtain ⟨y, _, rfl⟩ := List.mem_map.1 hx
    exact mul_self_nonneg _

theorem sum_mul_self_eq_zero (s : List ρ) (h : (s.map fun x => x * x).sum = 0) : ∀ x ∈ s, x = 0 := by
  induction s with
  | nil => simp
  | cons y s ih =>
    simp only [List.map_cons, List.sum_cons] at h
    have h1 := mul_self_nonneg y
    have h2 := sum_mul_self_nonneg s
    have hy : y * y = 0 := by linarith
    have hs : (s.map fun x => x * x).sum = 0 := by linarith
    intro x hx
    rcases List.mem_cons.1 hx with rfl | hx
    · exact mul_self_eq_zero.1 hy
    · exact ih hs x hx

theorem sum_mul_self_of_zero (s : List ρ) (h : ∀ x ∈ s, x = 0) : (s.map fun x => x * x).sum = 0 := by
  apply List.sum_eq_zero
  intro x hx
  obtain ⟨y, hy, rfl⟩ := List.mem_map.1 hx
  rw [h y hy, mul_zero]

theorem normSq_sum_eq (s : List ρ) (w : ρ) : (normSq s w).sum = (s.map fun x => x * x).sum / (w * w) := by
  unfold normSq
  induction s with
  | nil => simp
  | cons y s ih =>
    simp only [List.map_cons, List.sum_cons, ih]
    rw [div_mul_div_comm, add_div]

theorem normSq_sum (s : List ρ) (w : ρ) (hw : w ≠ 0) (h : w * w = (s.map fun x => x * x).sum) :
    (normSq s w).sum = 1 := by
  rw [normSq_sum_eq, ← h]
  exact div_self (mul_ne_zero hw hw)

end Ptn.C12

import PtnModel.Proofs.EvoLocal
import PtnModel.Props.C04
/-!
# From the environment blocks of C04 to the hypotheses of the local steps

If `Lb`, `Rb` are the partial contractions (C04 `IsLeftBlock` / `IsRightBlock`) of a shaped MPS with a shaped MPO whose
dense matrix is Hermitian, then the dimension checks of the local maps pass (`LocalFits`, `BondFits`) and the local maps
are Hermitian (`LocalHermitian`, `BondHermitian`).
-/
set_option linter.unusedSectionVars false

namespace Ptn.Evo
open Ptn Ptn.Krylov Ptn.Dense Ptn.Env Finset

variable {𝕜 : Type} [RCLike 𝕜]
local notation "conj" => starRingEnd 𝕜

/-- a successful application with an output of the input shape means that all dimension checks pass -/
theorem localFits_of_ok {L R : T3 𝕜} {W : T4 𝕜} {A T : T3 𝕜} (h : Op.applyLocalHamiltonian L R W A = .ok T)
    (t0 : T.d0 = A.d0) (t1 : T.d1 = A.d1) (t2 : T.d2 = A.d2) : LocalFits L R W A.d0 A.d1 A.d2 := by
  by_cases hc : A.d2 ≠ R.d0 ∨ W.d1 ≠ A.d0 ∨ W.d3 ≠ R.d1 ∨ A.d1 ≠ L.d0 ∨ W.d2 ≠ L.d1
  · unfold Op.applyLocalHamiltonian at h
    rw [if_pos hc] at h
    simp [throw, throwThe, MonadExceptOf.throw, bind, Except.bind] at h
  · simp only [not_or, not_not] at hc
    obtain ⟨c1, c2, c3, c4, c5⟩ := hc
    obtain ⟨T', hT', s0, s1, s2, _⟩ := Env.applyLocalHamiltonian_ok L R W A c1 c2 c3 c4 c5
    rw [h] at hT'
    injection hT' with hT'
    subst hT'
    exact ⟨c1.symm, s2.symm.trans t2, s0.symm.trans t0, c2, c3, c4.symm, s1.symm.trans t1, c5⟩

theorem bondFits_of_ok {L R : T3 𝕜} {C T : Mat 𝕜} (h : Op.applyLocalBondContraction L R C = .ok T)
    (t0 : T.m = C.m) (t1 : T.n = C.n) : BondFits L R C.m C.n := by
  by_cases hc : C.n ≠ R.d0 ∨ L.d0 ≠ C.m ∨ L.d1 ≠ R.d1
  · unfold Op.applyLocalBondContraction at h
    rw [if_pos hc] at h
    simp [throw, throwThe, MonadExceptOf.throw, bind, Except.bind] at h
  · simp only [not_or, not_not] at hc
    obtain ⟨c1, c2, c3⟩ := hc
    obtain ⟨T', hT', s0, s1, _⟩ := Env.applyLocalBondContraction_ok L R C c1 c2 c3
    rw [h] at hT'
    injection hT' with hT'
    subst hT'
    exact ⟨c1.symm, s1.symm.trans t1, c2, s0.symm.trans t0, c3⟩

/-- the zero tensor of a given shape -/
def zero3 (d0 d1 d2 : Nat) : T3 𝕜 := ⟨d0, d1, d2, fun _ _ _ => 0⟩

/-- **Bridge (one site).**  Environment blocks of a Hermitian MPO give a well-dimensioned Hermitian one-site map. -/
theorem local_of_blocks {ψ : MPS 𝕜} {o : MPO 𝕜} {d : Nat} (hψ : C04.MPS.Shaped ψ d) (ho : C04.MPO.Shaped o d)
    (hL : ψ.A.length = o.A.length) (hH : C04.MPO.DenseHermitian o d) {i : Nat} (hi : i < ψ.A.length) {W : T4 𝕜}
    (hW : o.A[i]? = some W) {Lb Rb : T3 𝕜} (hLb : IsLeftBlock ψ o d i Lb) (hRb : IsRightBlock ψ o d (i + 1) Rb) :
    LocalFits Lb Rb W d (mpsBond ψ i) (mpsBond ψ (i + 1)) ∧
    LocalHermitian Lb Rb W d (mpsBond ψ i) (mpsBond ψ (i + 1)) := by
  constructor
  · obtain ⟨T, hT, t0, t1, t2, _⟩ := C04.local_projection hψ ho hL hi hW
      (A := zero3 d (mpsBond ψ i) (mpsBond ψ (i + 1))) (B := zero3 d (mpsBond ψ i) (mpsBond ψ (i + 1)))
      rfl rfl rfl rfl rfl rfl hLb hRb
    exact localFits_of_ok hT t0 t1 t2
  · intro A B TA TB a0 a1 a2 b0 b1 b2 hTA hTB
    obtain ⟨TA', TB', hTA', hTB', e⟩ := C04.local_hermitian hψ ho hL hH hi hW a0 a1 a2 b0 b1 b2 hLb hRb
    have e1 : TA' = TA := Except.ok.inj (hTA'.symm.trans hTA)
    have e2 : TB' = TB := Except.ok.inj (hTB'.symm.trans hTB)
    subst e1 e2
    obtain ⟨T1, h1, s0, s1, s2, _⟩ := C04.local_projection hψ ho hL hi hW a0 a1 a2 b0 b1 b2 hLb hRb
    obtain ⟨T2, h2, r0, r1, r2, _⟩ := C04.local_projection hψ ho hL hi hW b0 b1 b2 a0 a1 a2 hLb hRb
    have e3 : T1 = TA' := Except.ok.inj (h1.symm.trans hTA)
    have e4 : T2 = TB' := Except.ok.inj (h2.symm.trans hTB)
    subst e3 e4
    unfold inner3
    rw [s0, s1, s2, r0, r1, r2]
    simp only [starRingEnd_apply]
    exact e

/-- **Bridge (zero site).**  Environment blocks of a Hermitian MPO give a well-dimensioned Hermitian bond map. -/
theorem bond_of_blocks {ψ : MPS 𝕜} {o : MPO 𝕜} {d : Nat} (hψ : C04.MPS.Shaped ψ d) (ho : C04.MPO.Shaped o d)
    (hL : ψ.A.length = o.A.length) (hH : C04.MPO.DenseHermitian o d) {j : Nat} (hj : j ≤ ψ.A.length)
    {Lb Rb : T3 𝕜} (hLb : IsLeftBlock ψ o d j Lb) (hRb : IsRightBlock ψ o d j Rb) :
    BondFits Lb Rb (mpsBond ψ j) (mpsBond ψ j) ∧ BondHermitian Lb Rb (mpsBond ψ j) (mpsBond ψ j) := by
  constructor
  · obtain ⟨T, hT, t0, t1, _⟩ := C04.bond_projection hψ ho hL hj
      (C := ⟨mpsBond ψ j, mpsBond ψ j, fun _ _ => 0⟩) (C' := ⟨mpsBond ψ j, mpsBond ψ j, fun _ _ => 0⟩)
      rfl rfl rfl rfl hLb hRb
    exact bondFits_of_ok hT t0 t1
  · intro C C' T T' c0 c1 c0' c1' hT hT'
    obtain ⟨T1, T1', hT1, hT1', e⟩ := C04.bond_hermitian hψ ho hL hH hj c0 c1 c0' c1' hLb hRb
    have e1 : T1 = T := Except.ok.inj (hT1.symm.trans hT)
    have e2 : T1' = T' := Except.ok.inj (hT1'.symm.trans hT')
    subst e1 e2
    obtain ⟨T2, h1, s0, s1, _⟩ := C04.bond_projection hψ ho hL hj c0 c1 c0' c1' hLb hRb
    obtain ⟨T3, h2, r0, r1, _⟩ := C04.bond_projection hψ ho hL hj c0' c1' c0 c1 hLb hRb
    have e3 : T2 = T1 := Except.ok.inj (h1.symm.trans hT)
    have e4 : T3 = T1' := Except.ok.inj (h2.symm.trans hT')
    subst e3 e4
    unfold inner2
    rw [s0, s1, r0, r1]
    simp only [starRingEnd_apply]
    exact e

end Ptn.Evo

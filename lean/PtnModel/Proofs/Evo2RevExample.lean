import PtnModel.Proofs.Evo2Pair
import PtnModel.Proofs.Evo2Example
/-!
# Non-vacuity of the reversibility lemmas (`Props/C09Rev.lean`)

* `gauge_cancel_nonvacuous` : the hypotheses of `krylov_cancel_gauge` hold for a run that really changes the vector (the
  example of `krylov_cancel`, with the identity as intertwiner);
* `exBondGauge`             : the algebraic hypotheses of `bondStep_cancel_gauge` and a successful forward run, for the
  one-site operator `exW` between trivial blocks, `Q = Q' = (1, 0)`, `U = (1)`;
* `canon_two_sites_one`     : a sweep state holding a two-site state whose first tensor is a left isometry satisfies the
  invariant with centre `1` (the hypothesis `Canon … (j+1)` of `tdvp1_pair_reversible` with `j = 0`).
-/
set_option linter.unusedSectionVars false

namespace Ptn.Evo
open Ptn Ptn.BondOps Ptn.Ortho Ptn.Env Ptn.Krylov Ptn.Dense Finset

variable {𝕜 : Type} [RCLike 𝕜] [DecidableEq 𝕜]

/-- the hypotheses of `krylov_cancel_gauge` are jointly satisfiable (identity intertwiner, non-trivial run) -/
theorem gauge_cancel_nonvacuous : ∃ (Afun Afun' : List ℝ → List ℝ) (M M' G : Nat → Nat → ℝ) (dnorm : List ℝ → ℝ)
    (deigh : List ℝ → List ℝ → List ℝ × Mat ℝ) (dexp : ℝ → ℝ) (v r v' r' : List ℝ) (dt : ℝ),
    NormContract dnorm ∧ ActsAs v.length Afun M ∧
    (∀ i j, i < v.length → j < v.length → (starRingEnd ℝ) (M i j) = M j i) ∧
    ActsAs v.length Afun' M' ∧ (∀ i j, i < v.length → j < v.length → (starRingEnd ℝ) (M' i j) = M' j i) ∧
    (∀ i j, i < v.length → j < v.length →
      ∑ l ∈ range v.length, M' i l * G l j = ∑ l ∈ range v.length, G i l * M l j) ∧
    C15.EighAt Afun dnorm deigh v 1 ∧ C15.Exhausted Afun dnorm v 1 ∧
    expmKrylov Afun dnorm deigh dexp id v dt 1 true = .ok r ∧
    v'.length = v.length ∧ (∀ i, i < v.length → vget v' i = ∑ j ∈ range v.length, G i j * vget r j) ∧
    C15.EighAt Afun' dnorm deigh v' 1 ∧ C15.Exhausted Afun' dnorm v' 1 ∧
    expmKrylov Afun' dnorm deigh dexp id v' (-dt) 1 true = .ok r' ∧
    (∀ x : ℝ, dexp (-dt * (RCLike.ofReal x : ℝ)) * dexp (dt * (RCLike.ofReal x : ℝ)) = 1) ∧ vget r 0 ≠ vget v 0 := by
  obtain ⟨Afun, M, dnorm, deigh, dexp, v, r, r', dt, hN, hM, hH, hE, hX, h, hE', hX', h', hexp, hne⟩ :=
    expm_cancel_nonvacuous
  obtain ⟨_, _, _, _, _, _, hrl, _⟩ := C15.expm_exact_partial hN hM hH hE hX h
  refine ⟨Afun, Afun, M, M, fun i j => if i = j then 1 else 0, dnorm, deigh, dexp, v, r, r, r', dt, hN, hM, hH, hM, hH,
    ?_, hE, hX, h, hrl, ?_, hE', hX', h', hexp, hne⟩
  · intro i j hi hj
    have e1 : ∀ l ∈ range v.length, M i l * (if l = j then (1 : ℝ) else 0) = if j = l then M i l else 0 := by
      intro l _
      by_cases hlj : l = j
      · rw [if_pos hlj, if_pos hlj.symm, mul_one]
      · rw [if_neg hlj, if_neg (fun e => hlj e.symm), mul_zero]
    have e2 : ∀ l ∈ range v.length, (if i = l then (1 : ℝ) else 0) * M l j = if i = l then M l j else 0 := by
      intro l _
      by_cases hil : i = l
      · rw [if_pos hil, if_pos hil, one_mul]
      · rw [if_neg hil, if_neg hil, zero_mul]
    rw [sum_congr rfl e1, sum_congr rfl e2, sum_ite_eq (range v.length) j, sum_ite_eq (range v.length) i,
      if_pos (mem_range.2 hj), if_pos (mem_range.2 hi)]
  · intro i hi
    have e : ∀ j ∈ range v.length, (if i = j then (1 : ℝ) else 0) * vget r j = if i = j then vget r j else 0 := by
      intro j _
      by_cases hij : i = j
      · rw [if_pos hij, if_pos hij, one_mul]
      · rw [if_neg hij, if_neg hij, zero_mul]
    rw [sum_congr rfl e, sum_ite_eq (range v.length) i, if_pos (mem_range.2 hi)]

/-- the `1 × 1` unit matrix -/
noncomputable def exU : Mat ℂ := ⟨1, 1, fun _ _ => 1⟩

/-- algebraic hypotheses of `bondStep_cancel_gauge` and a successful forward run: the Hermitian one-site operator `exW`
between trivial blocks, `Q = Q' = exA = (1, 0)`, `U = (1)`, start matrix `exC = (1)`, one Lanczos iteration -/
theorem exBondGauge : ∃ BLn C1 : _,
    NormContract exK.cnorm ∧ LocalFits (ones111 : T3 ℂ) ones111 exW exA.d0 exA.d1 1 ∧
    LocalHermitian (ones111 : T3 ℂ) ones111 exW exA.d0 exA.d1 1 ∧ exU.m = exA.d2 ∧ exU.n = exA.d2 ∧
    (∀ q r, q < exA.d2 → r < exA.d2 → ∑ p ∈ range exA.d2, exU.f q p * star (exU.f r p) = if q = r then 1 else 0) ∧
    (∀ s a p, s < exA.d0 → a < exA.d1 → p < exA.d2 → exA.f s a p = ∑ q ∈ range exA.d2, exA.f s a q * exU.f q p) ∧
    Op.opStepLeft exA exA exW (ones111 : T3 ℂ) = .ok BLn ∧ exC.m = exA.d2 ∧ exC.n = 1 ∧
    C15.EighAt (localBondFun BLn (ones111 : T3 ℂ) exC.m exC.n) exK.cnorm exK.deigh (flat2 exC) 1 ∧
    localBondStep exK BLn ones111 exC Complex.I 1 = .ok C1 ∧
    (adjMul exU C1).m = exA.d2 ∧ (adjMul exU C1).n = 1 ∧
    (∀ p b, p < exA.d2 → b < 1 → (adjMul exU C1).f p b = ∑ r ∈ range exA.d2, star (exU.f r p) * C1.f r b) ∧
    ∀ x : ℝ, exK.dexp (Complex.I * (x : ℂ)) * exK.dexp (-Complex.I * (x : ℂ)) = 1 := by
  obtain ⟨BLn, hBLn, _⟩ := Env.opStepLeft_ok exA exA exW (ones111 : T3 ℂ) rfl rfl rfl rfl rfl
  obtain ⟨C1, hC1⟩ := bondStep_ok_one (k := exK) rfl (L := BLn) (R := ones111) sqrtNorm_contract exC_pos Complex.I
  obtain ⟨c0, c1⟩ := bondStep_dims hC1
  refine ⟨BLn, C1, sqrtNorm_contract, exLocal_fits, exLocal_herm, rfl, rfl, ?_, ?_, hBLn, rfl, rfl, eighAt_one _ _ _,
    hC1, rfl, c1, fun p b _ _ => rfl, fun _ => by simp [exK]⟩
  · intro q r hq hr
    have hq' : q = 0 := by have : q < 1 := hq; omega
    have hr' : r = 0 := by have : r < 1 := hr; omega
    subst hq' hr'
    show ∑ p ∈ range 1, (1 : ℂ) * star (1 : ℂ) = _
    simp
  · intro s a p _ _ hp
    have hp' : p = 0 := by have : p < 1 := hp; omega
    subst hp'
    show _ = ∑ q ∈ range 1, exA.f s a q * 1
    simp

/-- **The invariant with centre `1` is satisfiable**: every admissible two-site state whose first tensor is a left
isometry, with a shaped two-site MPO. -/
theorem canon_two_sites_one {H : MPO 𝕜} {ψ : MPS 𝕜} (hadm : Admissible ψ) (hH : C04.MPO.Shaped H ψ.qd.length)
    (hL : ψ.A.length = H.A.length) (h2 : H.A.length = 2) (hiso : LeftIso (ψ.A.getD 0 emptyT3)) :
    ∃ s : Sweep 𝕜, s.A = ψ.A.toArray ∧ s.qD = ψ.qD.toArray ∧ Canon H ψ.qd s 1 := by
  have hsh : C04.MPS.Shaped ψ ψ.qd.length := ⟨hadm.nonempty, hadm.chain3⟩
  obtain ⟨BR, _, hBRlen, hBR⟩ := C04.right_blocks_dense hsh hH hL
  have hA0 : ψ.A[0]? = some (ψ.A.getD 0 emptyT3) := getD_some ψ.A (by rw [hL]; omega) emptyT3
  obtain ⟨T, _, hTb⟩ := C04.left_step_dense hsh hH hL (i := 0) (by rw [hL]; omega) hA0
    (getD_some H.A (by omega) zeroT4) (C04.left_block_zero_dense hsh hH hL)
  set s0 : Sweep 𝕜 := ⟨ψ.A.toArray, ψ.qD.toArray,
    ((Array.replicate H.A.length emptyT3).setIfInBounds 0 ones111).setIfInBounds 1 T, BR.toArray⟩ with hs0
  have hcur : cur ψ.qd s0 = ψ := cur_init ψ _ _
  have hw0 := sweepWf_init hadm (((Array.replicate H.A.length emptyT3).setIfInBounds 0 ones111).setIfInBounds 1 T)
    BR.toArray
  rw [hL] at hw0
  obtain ⟨hl1, _⟩ := wf_index hadm.wf
  have hgetQ : ∀ m, getQ s0 m = ψ.qD.getD m [] := fun m => toArray_getD _ _ _
  have hgetA : ∀ m, getA s0 m = ψ.A.getD m emptyT3 := fun m => toArray_getD _ _ _
  have hq0 : (getQ s0 0).length = 1 := by
    rw [hgetQ]
    have := hadm.first
    rwa [List.head?_eq_getElem?, ← List.getD_eq_getElem?_getD] at this
  have hqL : (getQ s0 H.A.length).length = 1 := by
    rw [hgetQ]
    have := hadm.last
    rw [getLast_getD, hl1, hL] at this
    simpa using this
  refine ⟨s0, rfl, rfl, hw0, by simp [hs0], by simp [hs0, hBRlen, hL], by omega, hq0, hqL, ?_, ?_, ?_, ?_⟩
  · intro j hj
    have hj0 : j = 0 := by omega
    subst hj0
    rw [hgetA]; exact hiso
  · intro j hj hj'; omega
  · intro j hj
    rw [hcur]
    by_cases hj0 : j = 0
    · subst hj0
      have hb : getBL s0 0 = MPS.ones111 := by
        show (((Array.replicate H.A.length emptyT3).setIfInBounds 0 ones111).setIfInBounds 1 T).getD 0 emptyT3 = _
        rw [getD_setIfInBounds_ne _ _ _ (by omega), getD_setIfInBounds_eq _ _ _ (by simp; omega)]
        rfl
      rw [hb]
      exact C04.left_block_zero_dense hsh hH hL
    · have hj1 : j = 1 := by omega
      subst hj1
      have hb : getBL s0 1 = T := by
        show (((Array.replicate H.A.length emptyT3).setIfInBounds 0 ones111).setIfInBounds 1 T).getD 1 emptyT3 = _
        exact getD_setIfInBounds_eq _ _ _ (by simp; omega)
      rw [hb]; exact hTb
  · intro j _ hj'
    rw [hcur]
    obtain ⟨E, hE, hEb⟩ := hBR j (by rw [hL]; exact hj')
    have hb : getBR s0 j = E := by
      show BR.toArray.getD j emptyT3 = E
      rw [toArray_getD, List.getD_eq_getElem?_getD, hE]; rfl
    rw [hb]; exact hEb

/-- the first tensor of `exψC` is a left isometry -/
theorem exψC_leftIso : LeftIso (exψC.A.getD 0 emptyT3) := by
  intro p p' hp hp'
  have hp2 : p < 2 := hp
  have hp2' : p' < 2 := hp'
  show ∑ s ∈ range 2, ∑ a ∈ range 1, star ((if s = p then (1 : ℂ) else 0)) * (if s = p' then (1 : ℂ) else 0) = _
  interval_cases p <;> interval_cases p' <;> simp

end Ptn.Evo

import PtnModel.Proofs.SymDenseGraph
import PtnModel.Proofs.OgLevels
/-!
# In a consistent graph all enumerated paths have the same number of edges
-/
set_option linter.unusedSectionVars false

namespace Ptn.Og
open List

variable {κ : Type} [CommRing κ] [DecidableEq κ]

/-- every enumerated path is a walk of the level BFS of the opposite direction -/
theorem pathsFrom_reach (g : Graph κ) (dd : Bool) :
    ∀ (fuel : Nat) (x : Int) (p : Word × κ), p ∈ g.pathsFrom dd fuel x →
      ReachFrom g (!dd) x p.1.length (g.term dd) := by
  intro fuel
  induction fuel with
  | zero => intro x p hp; simp [Graph.pathsFrom] at hp
  | succ fuel ih =>
    intro x p hp
    unfold Graph.pathsFrom at hp
    by_cases hx : x = g.term dd
    · simp only [hx, if_true, mem_singleton] at hp
      subst hp
      rw [hx]
      exact ReachFrom.refl _
    · simp only [hx, if_false] at hp
      cases hn : dGet? g.nodes x with
      | none => rw [hn] at hp; simp at hp
      | some node =>
        rw [hn] at hp
        simp only [mem_flatMap] at hp
        obtain ⟨eid, heid, hp⟩ := hp
        cases he : dGet? g.edges eid with
        | none => rw [he] at hp; simp at hp
        | some e =>
          rw [he] at hp
          simp only [mem_flatMap, mem_map] at hp
          obtain ⟨p', _, q, hq, rfl⟩ := hp
          have hlen : (if dd = true then p'.1 :: q.1 else q.1 ++ [p'.1]).length = q.1.length + 1 := by
            cases dd <;> simp
          simp only [hlen]
          have := ih (e.nid dd) q hq
          refine ReachFrom.cons hn (by simpa using heid) he ?_
          simpa using this

theorem symInsert_words (w : Word) (c : κ) (S : Sym κ) :
    ∀ p ∈ symInsert w c S, p.1 = w ∨ ∃ q ∈ S, q.1 = p.1 := by
  induction S with
  | nil => intro p hp; simp only [symInsert, mem_singleton] at hp; subst hp; exact Or.inl rfl
  | cons r S ih =>
    obtain ⟨v, d⟩ := r
    intro p hp
    unfold symInsert at hp
    by_cases h1 : w = v
    · subst h1
      simp only [if_true, mem_cons] at hp
      rcases hp with rfl | hp
      · exact Or.inl rfl
      · exact Or.inr ⟨p, by simp [hp], rfl⟩
    · simp only [h1, if_false] at hp
      by_cases h2 : wordLt w v = true
      · simp only [h2, if_true, mem_cons] at hp
        rcases hp with rfl | rfl | hp
        · exact Or.inl rfl
        · exact Or.inr ⟨_, by simp, rfl⟩
        · exact Or.inr ⟨p, by simp [hp], rfl⟩
      · simp only [h2, Bool.false_eq_true, if_false, mem_cons] at hp
        rcases hp with rfl | hp
        · exact Or.inr ⟨_, by simp, rfl⟩
        · rcases ih p hp with h3 | ⟨q, hq, h3⟩
          · exact Or.inl h3
          · exact Or.inr ⟨q, by simp [hq], h3⟩

theorem symNormalize_words (S : Sym κ) : ∀ p ∈ symNormalize S, ∃ q ∈ S, q.1 = p.1 := by
  intro p hp
  unfold symNormalize at hp
  have hp' := (mem_filter.1 hp).1
  unfold symCollect at hp'
  have : ∀ (T acc : Sym κ), ∀ p ∈ T.foldl (fun acc p => symInsert p.1 p.2 acc) acc,
      (∃ q ∈ acc, q.1 = p.1) ∨ ∃ q ∈ T, q.1 = p.1 := by
    intro T
    induction T with
    | nil => intro acc p hp; exact Or.inl ⟨p, hp, rfl⟩
    | cons r T ih =>
      intro acc p hp
      rw [foldl_cons] at hp
      rcases ih _ p hp with ⟨q, hq, h1⟩ | ⟨q, hq, h1⟩
      · rcases symInsert_words r.1 r.2 acc q hq with h2 | ⟨q', hq', h2⟩
        · exact Or.inr ⟨r, by simp, h2.symm.trans h1⟩
        · exact Or.inl ⟨q', hq', h2.trans h1⟩
      · exact Or.inr ⟨q, by simp [hq], h1⟩
  rcases this S [] p hp' with ⟨q, hq, _⟩ | h
  · simp at hq
  · exact h

/-- **In a consistent graph all enumerated terminal-to-terminal paths have the same number of edges.** -/
theorem denDir_uniform {g : Graph κ} (v : Valid g) (dir : Bool) :
    ∃ L0, ∀ p ∈ g.denDir dir, p.1.length = L0 := by
  obtain ⟨_, hl0, hl1⟩ := (valid_iff_levelFun g).1 v
  have hL : LevelFun g (!dir) := by cases dir <;> assumption
  cases hS : g.denDir dir with
  | nil => exact ⟨0, by simp⟩
  | cons p0 S =>
    refine ⟨p0.1.length, ?_⟩
    intro p hp
    rw [← hS] at hp
    have hp0 : p0 ∈ g.denDir dir := by rw [hS]; simp
    unfold Graph.denDir at hp hp0
    obtain ⟨q, hq, e1⟩ := symNormalize_words _ p hp
    obtain ⟨q0, hq0, e0⟩ := symNormalize_words _ p0 hp0
    have r1 := pathsFrom_reach g dir _ _ q hq
    have r0 := pathsFrom_reach g dir _ _ q0 hq0
    rw [← e1, ← e0]
    exact hL _ _ _ r1 r0

end Ptn.Og

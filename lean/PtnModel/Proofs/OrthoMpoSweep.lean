import PtnModel.Proofs.OrthoFinal
/-!
# MPO sweeps as sweeps of the matricized chain

`toT3 A` fuses the two physical indices of an MPO tensor; with the physical charges `qd ⊕ (-qd)` the local QR steps
and sweeps of `mpo.py` are the steps and sweeps of `mps.py` on the matricized tensors (`mpo_localLeft_of_run`,
`mpo_sweepLeft_of_run`, and the mirrored versions for the right sweep), and raise no exception on admissible
input (`mpo_sweepLeft_ok`, `mpo_sweepRight_ok`).
-/
set_option linter.unusedSectionVars false
namespace Ptn.Ortho
open Ptn.BondOps Finset Ptn.Env

section generic
variable {𝕜 : Type} [CommRing 𝕜] [DecidableEq 𝕜]
variable {dqr : Mat 𝕜 → Mat 𝕜 × Mat 𝕜}

/-- an MPO tensor as an MPS tensor with the fused physical index `(s, t) ↦ s * d1 + t` -/
def toT3 (A : T4 𝕜) : T3 𝕜 := ⟨A.d0 * A.d1, A.d2, A.d3, fun x a b => A.f (x / A.d1) (x % A.d1) a b⟩

theorem toT3_f (A : T4 𝕜) {s t : Nat} (ht : t < A.d1) (a b : Nat) : (toT3 A).f (s * A.d1 + t) a b = A.f s t a b := by
  show A.f ((s * A.d1 + t) / A.d1) ((s * A.d1 + t) % A.d1) a b = _
  rw [fused_div ht, fused_mod ht]

theorem flattenLeft4_eq (A : T4 𝕜) : MPO.flattenLeft A = (toT3 A).flattenLeft := by
  unfold MPO.flattenLeft T3.flattenLeft toT3
  congr 1
  funext r c
  show A.f (r / (A.d1 * A.d2)) (r / A.d2 % A.d1) (r % A.d2) c = A.f (r / A.d2 / A.d1) (r / A.d2 % A.d1) (r % A.d2) c
  rw [Nat.div_div_eq_div_mul, Nat.mul_comm A.d2 A.d1]

theorem toT3_swap23 (A : T4 𝕜) : toT3 (MPO.swap23 A) = (toT3 A).swap12 := rfl

theorem isOne_toT3_ones : IsOne (toT3 (MPO.ones1111 : T4 𝕜)) := ⟨rfl, rfl, rfl, rfl⟩

/-- `R · Anext` for MPO tensors -/
def pushR4 (R : Mat 𝕜) (Anext : T4 𝕜) : T4 𝕜 :=
  (⟨Anext.d0, Anext.d1, R.m, Anext.d3, fun s t p c => sumRange R.n fun b => R.f p b * Anext.f s t b c⟩ : T4 𝕜).tab

/-- `Aprev · Rᵀ` for MPO tensors -/
def pushL4 (R : Mat 𝕜) (Aprev : T4 𝕜) : T4 𝕜 :=
  (⟨Aprev.d0, Aprev.d1, Aprev.d2, R.m, fun s t a p => sumRange R.n fun b => Aprev.f s t a b * R.f p b⟩ : T4 𝕜).tab

theorem mpo_localLeft_eq (A Anext : T4 𝕜) (qd qL qR : List Int) :
    MPO.localOrthoLeftQr dqr A Anext qd qL qR =
      match qr dqr (toT3 A).flattenLeft.tab (QN.flatten2 (QN.flatten2 qd (QN.neg qd)) qL) qR with
      | .error e => .error e
      | .ok (Q, R, qb) =>
        if R.n ≠ Anext.d2 then .error .value
        else .ok ((MPO.ofFlattenLeft Q A.d0 A.d1 A.d2).tab, pushR4 R Anext, qb) := by
  unfold MPO.localOrthoLeftQr
  dsimp only
  rw [flattenLeft4_eq]
  show (qr dqr (toT3 A).flattenLeft.tab (QN.flatten2 (QN.flatten2 qd (QN.neg qd)) qL) qR >>= _) = _
  cases h : qr dqr (toT3 A).flattenLeft.tab (QN.flatten2 (QN.flatten2 qd (QN.neg qd)) qL) qR with
  | error e => rfl
  | ok r =>
    obtain ⟨Q, R, qb⟩ := r
    by_cases hc : R.n ≠ Anext.d2
    · simp only [bind, Except.bind]; rfl
    · simp only [bind, Except.bind]; rfl

theorem toT3_ofFlatten_eqv (Q : Mat 𝕜) (d0 d1 d2 : Nat) :
    T3Eqv (toT3 (MPO.ofFlattenLeft Q d0 d1 d2).tab) (T3.ofFlattenLeft Q (d0 * d1) d2) :=
  ⟨rfl, rfl, rfl, fun x a p hx ha hp => by
    have hx' : x < d0 * d1 := hx
    have ha' : a < d2 := ha
    have hp' : p < Q.n := hp
    show (MPO.ofFlattenLeft Q d0 d1 d2).tab.f (x / d1) (x % d1) a p = Q.f (x * d2 + a) p
    refine (Env.t4_tab_f (A := MPO.ofFlattenLeft Q d0 d1 d2) (div_lt_of_lt_mul hx') (mod_lt_of_lt_mul hx') ha'
      hp').trans ?_
    show Q.f ((x / d1 * d1 + x % d1) * d2 + a) p = _
    rw [Nat.div_add_mod']⟩

theorem toT3_pushR4_eqv (R : Mat 𝕜) (X : T4 𝕜) : T3Eqv (toT3 (pushR4 R X)) (rawPush R (toT3 X)) :=
  ⟨rfl, rfl, rfl, fun x p c hx hp hc => by
    have hx' : x < X.d0 * X.d1 := hx
    have hp' : p < R.m := hp
    have hc' : c < X.d3 := hc
    show (pushR4 R X).f (x / X.d1) (x % X.d1) p c = ∑ b ∈ range R.n, R.f p b * X.f (x / X.d1) (x % X.d1) b c
    unfold pushR4
    rw [Env.t4_tab_f (A := ⟨X.d0, X.d1, R.m, X.d3, fun s t p c => sumRange R.n fun b => R.f p b * X.f s t b c⟩)
      (div_lt_of_lt_mul hx') (mod_lt_of_lt_mul hx') hp' hc']
    exact Env.sumRange_eq _ _⟩

/-- a successful MPO local left step is a `LocalLeft` of the matricized tensors -/
theorem mpo_localLeft_of_run {A Anext : T4 𝕜} {qd qL qR : List Int} {A' Anext' : T4 𝕜} {qb : List Int}
    (h : MPO.localOrthoLeftQr dqr A Anext qd qL qR = .ok (A', Anext', qb)) :
    LocalLeft dqr (toT3 A) (toT3 Anext) (QN.flatten2 qd (QN.neg qd)) qL qR (toT3 A') (toT3 Anext') qb ∧
      A'.d0 = A.d0 ∧ A'.d1 = A.d1 ∧ Anext'.d0 = Anext.d0 ∧ Anext'.d1 = Anext.d1 := by
  rw [mpo_localLeft_eq] at h
  cases hq : qr dqr (toT3 A).flattenLeft.tab (QN.flatten2 (QN.flatten2 qd (QN.neg qd)) qL) qR with
  | error e => rw [hq] at h; cases h
  | ok r =>
    obtain ⟨Q, R, qb'⟩ := r
    rw [hq] at h
    dsimp only at h
    by_cases hc : R.n ≠ Anext.d2
    · rw [if_pos hc] at h; cases h
    · rw [if_neg hc] at h
      injection h with h
      injection h with h1 h
      injection h with h2 h3
      subst h3 h1 h2
      exact ⟨⟨Q, R, hq, not_not.1 hc, toT3_ofFlatten_eqv Q A.d0 A.d1 A.d2, toT3_pushR4_eqv R Anext⟩, rfl, rfl, rfl, rfl⟩

/-- no exception in an MPO local left step when the matricized tensor is admissible -/
theorem mpo_localLeft_ok (hshape : ∀ B, ShapeAt dqr B) {A Anext : T4 𝕜} {qd qL qR : List Int}
    (hA : T3Wf (toT3 A) (QN.flatten2 qd (QN.neg qd)) qL qR) (hd : 0 < (QN.flatten2 qd (QN.neg qd)).length)
    (hL : 0 < qL.length) (hR : 0 < qR.length) (hN : Anext.d2 = qR.length) :
    ∃ A' Anext' qb, MPO.localOrthoLeftQr dqr A Anext qd qL qR = .ok (A', Anext', qb) := by
  have H := qrInput_flattenLeft hA hd hL hR
  obtain ⟨Q, R, qb, hrun⟩ := qr_ok' (fun B _ => hshape B) H
  have hres := result_of_run (fun B _ => hshape B) H hrun
  refine ⟨(MPO.ofFlattenLeft Q A.d0 A.d1 A.d2).tab, pushR4 R Anext, qb, ?_⟩
  rw [mpo_localLeft_eq, hrun]
  dsimp only
  rw [if_neg]
  rw [not_not, hres.Rn, hN]
  exact hA.d2

theorem mpo_localRight_eq (A Aprev : T4 𝕜) (qd qL qR : List Int) :
    MPO.localOrthoRightQr dqr A Aprev qd qL qR =
      match qr dqr (toT3 A).swap12.flattenLeft.tab (QN.flatten2 (QN.flatten2 qd (QN.neg qd)) (QN.neg qR)) (QN.neg qL) with
      | .error e => .error e
      | .ok (Q, R, qb) =>
        if R.n ≠ Aprev.d3 then .error .value
        else .ok ((MPO.swap23 (MPO.ofFlattenLeft Q A.d0 A.d1 A.d3)).tab, pushL4 R Aprev, QN.neg qb) := by
  unfold MPO.localOrthoRightQr
  dsimp only
  rw [flattenLeft4_eq, toT3_swap23]
  show (qr dqr (toT3 A).swap12.flattenLeft.tab (QN.flatten2 (QN.flatten2 qd (QN.neg qd)) (QN.neg qR)) (QN.neg qL) >>= _) = _
  cases h : qr dqr (toT3 A).swap12.flattenLeft.tab (QN.flatten2 (QN.flatten2 qd (QN.neg qd)) (QN.neg qR)) (QN.neg qL) with
  | error e => rfl
  | ok r =>
    obtain ⟨Q, R, qb⟩ := r
    by_cases hc : R.n ≠ Aprev.d3
    · simp only [bind, Except.bind]; rfl
    · simp only [bind, Except.bind]; rfl

theorem toT3_swap_ofFlatten_eqv (Q : Mat 𝕜) (d0 d1 d3 : Nat) :
    T3Eqv (toT3 (MPO.swap23 (MPO.ofFlattenLeft Q d0 d1 d3)).tab).swap12 (T3.ofFlattenLeft Q (d0 * d1) d3) :=
  ⟨rfl, rfl, rfl, fun x a p hx ha hp => by
    have hx' : x < d0 * d1 := hx
    have ha' : a < d3 := ha
    have hp' : p < Q.n := hp
    show (MPO.swap23 (MPO.ofFlattenLeft Q d0 d1 d3)).tab.f (x / d1) (x % d1) p a = Q.f (x * d3 + a) p
    refine (Env.t4_tab_f (A := MPO.swap23 (MPO.ofFlattenLeft Q d0 d1 d3)) (div_lt_of_lt_mul hx')
      (mod_lt_of_lt_mul hx') hp' ha').trans ?_
    show Q.f ((x / d1 * d1 + x % d1) * d3 + a) p = _
    rw [Nat.div_add_mod']⟩

theorem toT3_pushL4_eqv (R : Mat 𝕜) (X : T4 𝕜) : T3Eqv (toT3 (pushL4 R X)).swap12 (rawPush R (toT3 X).swap12) :=
  ⟨rfl, rfl, rfl, fun x p c hx hp hc => by
    have hx' : x < X.d0 * X.d1 := hx
    have hp' : p < R.m := hp
    have hc' : c < X.d2 := hc
    show (pushL4 R X).f (x / X.d1) (x % X.d1) c p = ∑ b ∈ range R.n, R.f p b * X.f (x / X.d1) (x % X.d1) c b
    unfold pushL4
    rw [Env.t4_tab_f (A := ⟨X.d0, X.d1, X.d2, R.m, fun s t a p => sumRange R.n fun b => X.f s t a b * R.f p b⟩)
      (div_lt_of_lt_mul hx') (mod_lt_of_lt_mul hx') hc' hp']
    show sumRange R.n (fun b => X.f (x / X.d1) (x % X.d1) c b * R.f p b) = _
    rw [Env.sumRange_eq]
    exact Finset.sum_congr rfl fun b _ => mul_comm _ _⟩

/-- a successful MPO local right step is a `LocalLeft` of the mirrored matricized tensors -/
theorem mpo_localRight_of_run {A Aprev : T4 𝕜} {qd qL qR : List Int} {A' Aprev' : T4 𝕜} {qb : List Int}
    (h : MPO.localOrthoRightQr dqr A Aprev qd qL qR = .ok (A', Aprev', qb)) :
    LocalLeft dqr (toT3 A).swap12 (toT3 Aprev).swap12 (QN.flatten2 qd (QN.neg qd)) (QN.neg qR) (QN.neg qL)
      (toT3 A').swap12 (toT3 Aprev').swap12 (QN.neg qb) ∧ A'.d0 = A.d0 ∧ A'.d1 = A.d1 ∧
      Aprev'.d0 = Aprev.d0 ∧ Aprev'.d1 = Aprev.d1 := by
  rw [mpo_localRight_eq] at h
  cases hq : qr dqr (toT3 A).swap12.flattenLeft.tab (QN.flatten2 (QN.flatten2 qd (QN.neg qd)) (QN.neg qR))
      (QN.neg qL) with
  | error e => rw [hq] at h; cases h
  | ok r =>
    obtain ⟨Q, R, qb'⟩ := r
    rw [hq] at h
    dsimp only at h
    by_cases hc : R.n ≠ Aprev.d3
    · rw [if_pos hc] at h; cases h
    · rw [if_neg hc] at h
      injection h with h
      injection h with h1 h
      injection h with h2 h3
      subst h3 h1 h2
      exact ⟨⟨Q, R, by rw [neg_neg]; exact hq, not_not.1 hc, toT3_swap_ofFlatten_eqv Q A.d0 A.d1 A.d3,
        toT3_pushL4_eqv R Aprev⟩, rfl, rfl, rfl, rfl⟩

theorem mpo_localRight_ok (hshape : ∀ B, ShapeAt dqr B) {A Aprev : T4 𝕜} {qd qL qR : List Int}
    (hA : T3Wf (toT3 A).swap12 (QN.flatten2 qd (QN.neg qd)) (QN.neg qR) (QN.neg qL))
    (hd : 0 < (QN.flatten2 qd (QN.neg qd)).length) (hL : 0 < qL.length)
    (hR : 0 < qR.length) (hN : Aprev.d3 = qL.length) :
    ∃ A' Aprev' qb, MPO.localOrthoRightQr dqr A Aprev qd qL qR = .ok (A', Aprev', qb) := by
  have H := qrInput_flattenLeft hA hd (by rw [neg_length]; exact hR) (by rw [neg_length]; exact hL)
  obtain ⟨Q, R, qb, hrun⟩ := qr_ok' (fun B _ => hshape B) H
  have hres := result_of_run (fun B _ => hshape B) H hrun
  refine ⟨(MPO.swap23 (MPO.ofFlattenLeft Q A.d0 A.d1 A.d3)).tab, pushL4 R Aprev, QN.neg qb, ?_⟩
  rw [mpo_localRight_eq, hrun]
  dsimp only
  rw [if_neg]
  rw [not_not, hres.Rn, hN, ← neg_length qL]
  exact hA.d2


/-- a successful MPO left sweep is a `SweepLeft` of the matricized chain; physical dimensions are kept -/
theorem mpo_sweepLeft_of_run {qd : List Int} : ∀ {rest : List (T4 𝕜)} {A : T4 𝕜} {qL : List Int}
    {qRs : List (List Int)} {As : List (T4 𝕜)} {qs : List (List Int)} {T : T4 𝕜},
    MPO.sweepLeftQr dqr qd A qL rest qRs = .ok (As, qs, T) →
    SweepLeft dqr (QN.flatten2 qd (QN.neg qd)) (toT3 A) qL (rest.map toT3) qRs (As.map toT3) qs (toT3 T) ∧
      ∀ d, (∀ X ∈ A :: rest, X.d0 = d ∧ X.d1 = d) → ∀ B ∈ As, B.d0 = d ∧ B.d1 = d
  | [], A, qL, [], _, _, _, h => by simp [MPO.sweepLeftQr] at h
  | [], A, qL, [qR], As, qs, T, h => by
    rw [MPO.sweepLeftQr] at h
    cases hl : MPO.localOrthoLeftQr dqr A MPO.ones1111 qd qL qR with
    | error e => rw [hl] at h; cases h
    | ok r =>
      obtain ⟨A', T', qb⟩ := r
      rw [hl] at h
      injection h with h
      injection h with h1 h
      injection h with h2 h3
      subst h1 h2 h3
      obtain ⟨hloc, e0, e1, -, -⟩ := mpo_localLeft_of_run hl
      refine ⟨SweepLeft.last isOne_toT3_ones hloc, ?_⟩
      intro d hd B hB
      rw [List.mem_singleton] at hB
      subst hB
      have := hd A (by simp)
      exact ⟨e0.trans this.1, e1.trans this.2⟩
  | [], A, qL, _ :: _ :: _, _, _, _, h => by simp [MPO.sweepLeftQr] at h
  | Anext :: rest, A, qL, [], _, _, _, h => by simp [MPO.sweepLeftQr] at h
  | Anext :: rest, A, qL, qR :: qRest, As, qs, T, h => by
    rw [MPO.sweepLeftQr] at h
    cases hl : MPO.localOrthoLeftQr dqr A Anext qd qL qR with
    | error e => rw [hl] at h; cases h
    | ok r =>
      obtain ⟨A', Anext', qb⟩ := r
      rw [hl] at h
      cases hs : MPO.sweepLeftQr dqr qd Anext' qb rest qRest with
      | error e => simp only [bind, Except.bind, hs] at h; cases h
      | ok r' =>
        obtain ⟨As', qs', T'⟩ := r'
        simp only [bind, Except.bind, hs] at h
        injection h with h
        injection h with h1 h
        injection h with h2 h3
        subst h1 h2 h3
        obtain ⟨hloc, e0, e1, f0, f1⟩ := mpo_localLeft_of_run hl
        obtain ⟨ih1, ih2⟩ := mpo_sweepLeft_of_run hs
        refine ⟨SweepLeft.cons hloc ih1, ?_⟩
        intro d hd B hB
        rcases List.mem_cons.1 hB with rfl | hB
        · have := hd A (by simp)
          exact ⟨e0.trans this.1, e1.trans this.2⟩
        · refine ih2 d ?_ B hB
          intro X hX
          rcases List.mem_cons.1 hX with rfl | hX
          · have := hd Anext (by simp)
            exact ⟨f0.trans this.1, f1.trans this.2⟩
          · exact hd X (by simp [hX])

/-- a successful MPO right sweep is a `SweepLeft` of the mirrored matricized chain -/
theorem mpo_sweepRight_of_run {qd : List Int} : ∀ {rest : List (T4 𝕜)} {A : T4 𝕜} {qR : List Int}
    {qLs : List (List Int)} {As : List (T4 𝕜)} {qs : List (List Int)} {T : T4 𝕜},
    MPO.sweepRightQr dqr qd A qR rest qLs = .ok (As, qs, T) →
    SweepLeft dqr (QN.flatten2 qd (QN.neg qd)) (toT3 A).swap12 (QN.neg qR) (rest.map fun X => (toT3 X).swap12)
        (qLs.map QN.neg) (As.map fun X => (toT3 X).swap12) (qs.map QN.neg) (toT3 T).swap12 ∧
      ∀ d, (∀ X ∈ A :: rest, X.d0 = d ∧ X.d1 = d) → ∀ B ∈ As, B.d0 = d ∧ B.d1 = d
  | [], A, qR, [], _, _, _, h => by simp [MPO.sweepRightQr] at h
  | [], A, qR, [qL], As, qs, T, h => by
    rw [MPO.sweepRightQr] at h
    cases hl : MPO.localOrthoRightQr dqr A MPO.ones1111 qd qL qR with
    | error e => rw [hl] at h; cases h
    | ok r =>
      obtain ⟨A', T', qb⟩ := r
      rw [hl] at h
      injection h with h
      injection h with h1 h
      injection h with h2 h3
      subst h1 h2 h3
      obtain ⟨hloc, e0, e1, -, -⟩ := mpo_localRight_of_run hl
      refine ⟨SweepLeft.last (X := (toT3 (MPO.ones1111 : T4 𝕜)).swap12) ⟨rfl, rfl, rfl, rfl⟩ hloc, ?_⟩
      intro d hd B hB
      rw [List.mem_singleton] at hB
      subst hB
      have := hd A (by simp)
      exact ⟨e0.trans this.1, e1.trans this.2⟩
  | [], A, qR, _ :: _ :: _, _, _, _, h => by simp [MPO.sweepRightQr] at h
  | Aprev :: rest, A, qR, [], _, _, _, h => by simp [MPO.sweepRightQr] at h
  | Aprev :: rest, A, qR, qL :: qRest, As, qs, T, h => by
    rw [MPO.sweepRightQr] at h
    cases hl : MPO.localOrthoRightQr dqr A Aprev qd qL qR with
    | error e => rw [hl] at h; cases h
    | ok r =>
      obtain ⟨A', Aprev', qb⟩ := r
      rw [hl] at h
      cases hs : MPO.sweepRightQr dqr qd Aprev' qb rest qRest with
      | error e => simp only [bind, Except.bind, hs] at h; cases h
      | ok r' =>
        obtain ⟨As', qs', T'⟩ := r'
        simp only [bind, Except.bind, hs] at h
        injection h with h
        injection h with h1 h
        injection h with h2 h3
        subst h1 h2 h3
        obtain ⟨hloc, e0, e1, f0, f1⟩ := mpo_localRight_of_run hl
        obtain ⟨ih1, ih2⟩ := mpo_sweepRight_of_run hs
        refine ⟨SweepLeft.cons hloc ih1, ?_⟩
        intro d hd B hB
        rcases List.mem_cons.1 hB with rfl | hB
        · have := hd A (by simp)
          exact ⟨e0.trans this.1, e1.trans this.2⟩
        · refine ih2 d ?_ B hB
          intro X hX
          rcases List.mem_cons.1 hX with rfl | hX
          · have := hd Aprev (by simp)
            exact ⟨f0.trans this.1, f1.trans this.2⟩
          · exact hd X (by simp [hX])


/-- no exception in the MPO left sweep when the matricized chain is well-formed with last bond of dimension one -/
theorem mpo_sweepLeft_ok (hshape : ∀ B, ShapeAt dqr B) {qd : List Int}
    (hd : 0 < (QN.flatten2 qd (QN.neg qd)).length) :
    ∀ {rest : List (T4 𝕜)} {A : T4 𝕜} {qL : List Int} {qRs : List (List Int)}, 0 < qL.length →
    WfChain (QN.flatten2 qd (QN.neg qd)) qL ((A :: rest).map toT3) qRs →
    ((qL :: qRs).getLast?.getD []).length = 1 →
    ∃ As qs T, MPO.sweepLeftQr dqr qd A qL rest qRs = .ok (As, qs, T)
  | [], A, qL, [], _, h, _ => by simp at h
  | [], A, qL, [qR], hL, h, h1 => by
    simp only [List.map_cons, List.map_nil, wfChain_cons, wfChain_nil, and_true] at h
    have h1' : qR.length = 1 := by simpa using h1
    obtain ⟨A', T, qb, hl⟩ := mpo_localLeft_ok (Anext := MPO.ones1111) hshape h.1 hd hL h.2 h1'.symm
    exact ⟨[A'], [qb], T, by rw [MPO.sweepLeftQr, hl]; rfl⟩
  | [], A, qL, _ :: _ :: _, _, h, _ => by simp at h
  | Anext :: rest, A, qL, [], _, h, _ => by simp at h
  | Anext :: rest, A, qL, [qR], _, h, _ => by simp at h
  | Anext :: rest, A, qL, qR :: qR' :: qRest, hL, h, h1 => by
    simp only [List.map_cons, wfChain_cons] at h
    obtain ⟨hA, hR, hN, hR', hrest⟩ := h
    obtain ⟨A', Anext', qb, hl⟩ := mpo_localLeft_ok (Anext := Anext) hshape hA hd hL hR hN.d1
    have hloc := (mpo_localLeft_of_run hl).1
    have hdims := hloc.dims hshape hA hd hL hR
    have hN' := hloc.wfNext hshape hA hd hL hR hN
    have h1' : ((qb :: qR' :: qRest).getLast?.getD []).length = 1 := by
      rw [List.getLast?_cons_cons] at h1 ⊢
      rw [List.getLast?_cons_cons] at h1
      exact h1
    obtain ⟨As, qs, T, hs⟩ := mpo_sweepLeft_ok hshape hd (rest := rest) (A := Anext') (qL := qb)
      (qRs := qR' :: qRest) hdims.pos (by simp only [List.map_cons, wfChain_cons]; exact ⟨hN', hR', hrest⟩) h1'
    exact ⟨A' :: As, qb :: qs, T, by rw [MPO.sweepLeftQr, hl]; simp only [bind, Except.bind, hs]; rfl⟩

/-- no exception in the MPO right sweep when the mirrored matricized chain is well-formed -/
theorem mpo_sweepRight_ok (hshape : ∀ B, ShapeAt dqr B) {qd : List Int}
    (hd : 0 < (QN.flatten2 qd (QN.neg qd)).length) :
    ∀ {rest : List (T4 𝕜)} {A : T4 𝕜} {qR : List Int} {qLs : List (List Int)}, 0 < qR.length →
    WfChain (QN.flatten2 qd (QN.neg qd)) (QN.neg qR) ((A :: rest).map fun X => (toT3 X).swap12) (qLs.map QN.neg) →
    (((QN.neg qR) :: qLs.map QN.neg).getLast?.getD []).length = 1 →
    ∃ As qs T, MPO.sweepRightQr dqr qd A qR rest qLs = .ok (As, qs, T)
  | [], A, qR, [], _, h, _ => by simp at h
  | [], A, qR, [qL], hR, h, h1 => by
    simp only [List.map_cons, List.map_nil, wfChain_cons, wfChain_nil, and_true] at h
    have h1' : qL.length = 1 := by simpa [neg_length] using h1
    obtain ⟨A', T, qb, hl⟩ := mpo_localRight_ok (Aprev := MPO.ones1111) hshape h.1 hd (by omega) hR h1'.symm
    exact ⟨[A'], [qb], T, by rw [MPO.sweepRightQr, hl]; rfl⟩
  | [], A, qR, _ :: _ :: _, _, h, _ => by simp at h
  | Aprev :: rest, A, qR, [], _, h, _ => by simp at h
  | Aprev :: rest, A, qR, [qL], _, h, _ => by simp at h
  | Aprev :: rest, A, qR, qL :: qL' :: qRest, hR, h, h1 => by
    simp only [List.map_cons, wfChain_cons] at h
    obtain ⟨hA, hL, hN, hL', hrest⟩ := h
    have hLpos : 0 < qL.length := by rw [neg_length] at hL; exact hL
    obtain ⟨A', Aprev', qb, hl⟩ := mpo_localRight_ok (Aprev := Aprev) hshape hA hd hLpos hR
      (by have := hN.d1; rw [neg_length] at this; exact this)
    have hloc := (mpo_localRight_of_run hl).1
    have hdims := hloc.dims hshape hA hd (by rw [neg_length]; exact hR) hL
    have hN' := hloc.wfNext hshape hA hd (by rw [neg_length]; exact hR) hL hN
    have h1' : (((QN.neg qb) :: (qL' :: qRest).map QN.neg).getLast?.getD []).length = 1 := by
      simp only [List.map_cons] at h1 ⊢
      rw [List.getLast?_cons_cons] at h1 ⊢
      rw [List.getLast?_cons_cons] at h1
      exact h1
    obtain ⟨As, qs, T, hs⟩ := mpo_sweepRight_ok hshape hd (rest := rest) (A := Aprev') (qR := qb)
      (qLs := qL' :: qRest) (by have := hdims.pos; rw [neg_length] at this; exact this)
      (by simp only [List.map_cons, wfChain_cons]; exact ⟨hN', hL', hrest⟩) h1'
    exact ⟨A' :: As, qb :: qs, T, by rw [MPO.sweepRightQr, hl]; simp only [bind, Except.bind, hs]; rfl⟩

end generic
end Ptn.Ortho

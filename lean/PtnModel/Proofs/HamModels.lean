import PtnModel.Proofs.HamLattice
/-!
# XXZ (spin-1/2, spin-1), Bose-Hubbard, Fermi-Hubbard: templates, charges, adjoint closure, words
-/
set_option linter.unusedSectionVars false
set_option linter.unusedSimpArgs false

namespace Ptn.Ham
open Ptn.Og

variable {κ : Type} [CommRing κ] [DecidableEq κ]

/-- case split over the (in-range) indices of a small table, closing every case by evaluation -/
macro "charge_cases" : tactic =>
  `(tactic| (intro a b ha hb h
             rcases a with _ | _ | _ | _ | a <;> rcases b with _ | _ | _ | _ | b <;>
               first
               | (simp at ha; done)
               | (simp at hb; done)
               | (simp [Mat.entry] at h ⊢; done)
               | (simp [Mat.entry] at h; done)
               | (simp [Mat.entry]; done)))

/-! ## words of the translated chain list -/

/-- the formal sum handed to `from_opchains` is, template by template and start site by start site, the template's
word padded with identities; a template longer than the lattice contributes no term -/
theorem translate_words (lop : List (OpChain κ)) (L : Int) (oid : Int) :
    denChainsRaw (translateChains lop L) L oid =
      lop.flatMap fun t => (pyRange 0 (L - (t.oids.length : Int) + 1)).map fun i =>
        (pyRepeat i oid ++ t.oids ++ pyRepeat (L - (t.oids.length : Int) - i) oid, t.coeff) := by
  simp [denChainsRaw, translateChains, List.map_flatMap, OpChain.paddedWord, OpChain.length, Function.comp_def]

/-! ## XXZ, spin 1/2 -/

def xxzTemplates (c : Consts κ) (J D h : κ) : List (OpChain κ) :=
  [⟨[1, -1], [0, 2, 0], c.half * J, 0⟩, ⟨[-1, 1], [0, -2, 0], c.half * J, 0⟩,
   ⟨[2, 2], [0, 0, 0], D, 0⟩, ⟨[2], [0, 0], -h, 0⟩]

theorem xxzLattice_eq (c : Consts κ) (J D h : κ) :
    xxzLattice c J D h = .ok ⟨[1, -1], xxzOpmap c, xxzTemplates c J D h, 0⟩ := rfl

theorem xxz_templates (c : Consts κ) (J D h : κ) : ∀ t ∈ xxzTemplates c J D h, TemplateWF t := by
  intro t ht
  simp only [xxzTemplates, List.mem_cons, List.not_mem_nil, or_false] at ht
  rcases ht with rfl | rfl | rfl | rfl <;> exact ⟨rfl, by simp, rfl, rfl⟩

theorem xxz_charged (c : Consts κ) (J D h : κ) :
    LatticeCharged (⟨[1, -1], xxzOpmap c, xxzTemplates c J D h, 0⟩ : Lattice κ) := by
  have hSd : OpHasCharge [1, -1] ([[0, 0], [1, 0]] : Mat κ) (-2) := by charge_cases
  have hSu : OpHasCharge [1, -1] ([[0, 1], [0, 0]] : Mat κ) 2 := by charge_cases
  have hSz : OpHasCharge [1, -1] ([[c.half, 0], [0, -c.half]] : Mat κ) 0 := by charge_cases
  refine ⟨?_, ?_, ⟨_, rfl, identity_charge [1, -1]⟩⟩
  · intro p hp
    simp only [xxzOpmap, List.mem_cons, List.not_mem_nil, or_false] at hp
    rcases hp with rfl | rfl | rfl | rfl <;> simp [IsSquare, Mat.identity]
  · intro t ht
    simp only [xxzTemplates, List.mem_cons, List.not_mem_nil, or_false] at ht
    rcases ht with rfl | rfl | rfl | rfl <;> intro k hk <;> simp at hk
    · rcases k with _ | _ | k
      · exact ⟨_, rfl, hSu⟩
      · exact ⟨_, rfl, hSd⟩
      · omega
    · rcases k with _ | _ | k
      · exact ⟨_, rfl, hSd⟩
      · exact ⟨_, rfl, hSu⟩
      · omega
    · rcases k with _ | _ | k
      · exact ⟨_, rfl, hSz⟩
      · exact ⟨_, rfl, hSz⟩
      · omega
    · subst hk
      exact ⟨_, rfl, hSz⟩

/-- `Sd ↔ Su`, `Id` and `Sz` fixed -/
def xxzAdj (o : Int) : Int := if o = 1 then -1 else if o = -1 then 1 else o

theorem xxz_adjoint (c : Consts κ) (J D h : κ) :
    AdjointClosed (⟨[1, -1], xxzOpmap c, xxzTemplates c J D h, 0⟩ : Lattice κ) xxzAdj := by
  refine ⟨?_, ?_, rfl, ?_⟩
  · intro p hp
    simp only [xxzOpmap, List.mem_cons, List.not_mem_nil, or_false] at hp
    rcases hp with rfl | rfl | rfl | rfl <;> rfl
  · intro p hp
    simp only [xxzOpmap, List.mem_cons, List.not_mem_nil, or_false] at hp
    rcases hp with rfl | rfl | rfl | rfl <;>
      simp [xxzAdj, xxzOpmap, List.lookup, matT, matOf, Mat.entry, Mat.identity, List.range_succ]
  · intro t ht
    simp only [xxzTemplates, List.mem_cons, List.not_mem_nil, or_false] at ht
    rcases ht with rfl | rfl | rfl | rfl
    · exact ⟨_, List.mem_cons_of_mem _ List.mem_cons_self, rfl, rfl⟩
    · exact ⟨_, List.mem_cons_self, rfl, rfl⟩
    · exact ⟨_, List.mem_cons_of_mem _ (List.mem_cons_of_mem _ List.mem_cons_self), rfl, rfl⟩
    · exact ⟨_, List.mem_cons_of_mem _ (List.mem_cons_of_mem _ (List.mem_cons_of_mem _ List.mem_cons_self)), rfl, rfl⟩

/-- the words of `heisenberg_xxz_mpo`: `Σ_i J/2 S⁺_i S⁻_{i+1} + J/2 S⁻_i S⁺_{i+1} + D Sᶻ_i Sᶻ_{i+1} - h Sᶻ_i`, the two-site
terms for `i + 2 ≤ L` only -/
theorem xxz_words (c : Consts κ) (J D h : κ) (L : Int) :
    denChainsRaw (translateChains (xxzTemplates c J D h) L) L 0 =
      ((pyRange 0 (L - 1)).map fun i => (pyRepeat i 0 ++ [1, -1] ++ pyRepeat (L - 2 - i) 0, c.half * J)) ++
      ((pyRange 0 (L - 1)).map fun i => (pyRepeat i 0 ++ [-1, 1] ++ pyRepeat (L - 2 - i) 0, c.half * J)) ++
      ((pyRange 0 (L - 1)).map fun i => (pyRepeat i 0 ++ [2, 2] ++ pyRepeat (L - 2 - i) 0, D)) ++
      ((pyRange 0 L).map fun i => (pyRepeat i 0 ++ [2] ++ pyRepeat (L - 1 - i) 0, -h)) := by
  have e : L - 2 + 1 = L - 1 := by omega
  rw [translate_words]
  simp [xxzTemplates, e]

/-! ## XXZ, spin 1 -/

def xxz1Templates (c : Consts κ) (J D h : κ) : List (OpChain κ) :=
  [⟨[1, -1], [0, 1, 0], c.half * J, 0⟩, ⟨[-1, 1], [0, -1, 0], c.half * J, 0⟩,
   ⟨[2, 2], [0, 0, 0], D, 0⟩, ⟨[2], [0, 0], -h, 0⟩]

theorem xxz1Lattice_eq (c : Consts κ) (J D h : κ) :
    xxz1Lattice c J D h = .ok ⟨[1, 0, -1], xxz1Opmap c, xxz1Templates c J D h, 0⟩ := rfl

theorem xxz1_templates (c : Consts κ) (J D h : κ) : ∀ t ∈ xxz1Templates c J D h, TemplateWF t := by
  intro t ht
  simp only [xxz1Templates, List.mem_cons, List.not_mem_nil, or_false] at ht
  rcases ht with rfl | rfl | rfl | rfl <;> exact ⟨rfl, by simp, rfl, rfl⟩

theorem xxz1_charged (c : Consts κ) (J D h : κ) :
    LatticeCharged (⟨[1, 0, -1], xxz1Opmap c, xxz1Templates c J D h, 0⟩ : Lattice κ) := by
  have hSd : OpHasCharge [1, 0, -1] ([[0, 0, 0], [c.sq 2, 0, 0], [0, c.sq 2, 0]] : Mat κ) (-1) := by charge_cases
  have hSu : OpHasCharge [1, 0, -1] ([[0, c.sq 2, 0], [0, 0, c.sq 2], [0, 0, 0]] : Mat κ) 1 := by charge_cases
  have hSz : OpHasCharge [1, 0, -1] ([[1, 0, 0], [0, 0, 0], [0, 0, -1]] : Mat κ) 0 := by charge_cases
  refine ⟨?_, ?_, ⟨_, rfl, identity_charge [1, 0, -1]⟩⟩
  · intro p hp
    simp only [xxz1Opmap, List.mem_cons, List.not_mem_nil, or_false] at hp
    rcases hp with rfl | rfl | rfl | rfl <;> simp [IsSquare, Mat.identity]
  · intro t ht
    simp only [xxz1Templates, List.mem_cons, List.not_mem_nil, or_false] at ht
    rcases ht with rfl | rfl | rfl | rfl <;> intro k hk <;> simp at hk
    · rcases k with _ | _ | k
      · exact ⟨_, rfl, hSu⟩
      · exact ⟨_, rfl, hSd⟩
      · omega
    · rcases k with _ | _ | k
      · exact ⟨_, rfl, hSd⟩
      · exact ⟨_, rfl, hSu⟩
      · omega
    · rcases k with _ | _ | k
      · exact ⟨_, rfl, hSz⟩
      · exact ⟨_, rfl, hSz⟩
      · omega
    · subst hk
      exact ⟨_, rfl, hSz⟩

theorem xxz1_adjoint (c : Consts κ) (J D h : κ) :
    AdjointClosed (⟨[1, 0, -1], xxz1Opmap c, xxz1Templates c J D h, 0⟩ : Lattice κ) xxzAdj := by
  refine ⟨?_, ?_, rfl, ?_⟩
  · intro p hp
    simp only [xxz1Opmap, List.mem_cons, List.not_mem_nil, or_false] at hp
    rcases hp with rfl | rfl | rfl | rfl <;> rfl
  · intro p hp
    simp only [xxz1Opmap, List.mem_cons, List.not_mem_nil, or_false] at hp
    rcases hp with rfl | rfl | rfl | rfl <;>
      simp [xxzAdj, xxz1Opmap, List.lookup, matT, matOf, Mat.entry, Mat.identity, List.range_succ]
  · intro t ht
    simp only [xxz1Templates, List.mem_cons, List.not_mem_nil, or_false] at ht
    rcases ht with rfl | rfl | rfl | rfl
    · exact ⟨_, List.mem_cons_of_mem _ List.mem_cons_self, rfl, rfl⟩
    · exact ⟨_, List.mem_cons_self, rfl, rfl⟩
    · exact ⟨_, List.mem_cons_of_mem _ (List.mem_cons_of_mem _ List.mem_cons_self), rfl, rfl⟩
    · exact ⟨_, List.mem_cons_of_mem _ (List.mem_cons_of_mem _ (List.mem_cons_of_mem _ List.mem_cons_self)), rfl, rfl⟩

theorem xxz1_words (c : Consts κ) (J D h : κ) (L : Int) :
    denChainsRaw (translateChains (xxz1Templates c J D h) L) L 0 =
      ((pyRange 0 (L - 1)).map fun i => (pyRepeat i 0 ++ [1, -1] ++ pyRepeat (L - 2 - i) 0, c.half * J)) ++
      ((pyRange 0 (L - 1)).map fun i => (pyRepeat i 0 ++ [-1, 1] ++ pyRepeat (L - 2 - i) 0, c.half * J)) ++
      ((pyRange 0 (L - 1)).map fun i => (pyRepeat i 0 ++ [2, 2] ++ pyRepeat (L - 2 - i) 0, D)) ++
      ((pyRange 0 L).map fun i => (pyRepeat i 0 ++ [2] ++ pyRepeat (L - 1 - i) 0, -h)) := by
  have e : L - 2 + 1 = L - 1 := by omega
  rw [translate_words]
  simp [xxz1Templates, e]

end Ptn.Ham

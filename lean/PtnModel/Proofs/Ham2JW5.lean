import PtnModel.Proofs.Ham2JW4
/-!
# Jordan-Wigner semantics, last step: anticommutation and antisymmetrisation

* `jw_CC_rev`, `jw_AA_rev`, `jw_CC_diag`, `jw_AA_diag` : `a†_j a†_i = +C_i Z…Z C_j`, `a_k a_l = +A_k Z…Z A_l` (`i < j`, `k < l`),
  `a†_i a†_i = 0`, `a_k a_k = 0`; together with `jw_CC`, `jw_AA`: the anticommutation relations of the Jordan-Wigner matrices;
* `jw4_swap_ij`, `jw4_swap_kl`, `jw4_diag_ij`, `jw4_diag_kl` : the same inside `a†_i a†_j a_l a_k`;
* `S2_split`, `S2_antisym` : a double sum over `i, j < n` splits into the strict upper triangle, its mirror image and the diagonal;
* `four_sum`, `sum_intTuples`, `two_body_full` : `Σ_{i<j,k<l} gint_ijkl a†_i a†_j a_l a_k = Σ_ijkl ½ v_ijkl a†_i a†_j a_l a_k`.
-/
set_option linter.unusedSectionVars false
set_option linter.unusedSimpArgs false
namespace Ptn.Ham2
open Ptn Ptn.Og Ptn.Ham Ptn.Ch Ptn.Dense List

variable {κ : Type} [CommRing κ] [DecidableEq κ]

/-! ## anticommutation of the Jordan-Wigner matrices -/

/-- a site whose local product vanishes kills the product of the words -/
theorem wwMul_fw_zero (opmap : OpMap κ) (d : Nat) : ∀ (n : Nat) (f1 f2 : Nat → Int) (x0 : Nat), x0 < n →
    (∀ a b : Nat, (∑ y ∈ Finset.range d, Ch.opEntry opmap (f1 x0) a y * Ch.opEntry opmap (f2 x0) y b) = 0) →
    ∀ s t : List Nat, wwMul opmap d (fw n f1) (fw n f2) s t = 0 := by
  intro n
  induction n with
  | zero => intro f1 f2 x0 h; omega
  | succ n ih =>
    intro f1 f2 x0 hx h s t
    rw [fw_succ, fw_succ]
    cases s with
    | nil => simp [wwMul]
    | cons a s =>
      cases t with
      | nil => simp [wwMul]
      | cons b t =>
        rw [wwMul]
        cases x0 with
        | zero => rw [h a b, zero_mul]
        | succ x0 =>
          rw [ih (fun x => f1 (x + 1)) (fun x => f2 (x + 1)) x0 (by omega) h s t, mul_zero]

theorem sm_CC_zero (a b : Nat) : (∑ y ∈ Finset.range 2, Ch.opEntry (molOpmap : OpMap κ) mC a y * Ch.opEntry molOpmap mC y b) = 0 := by
  rw [molOpmap_eq]
  rcases a with _ | _ | a <;> rcases b with _ | _ | b <;>
    simp [Finset.sum_range_succ, Ch.opEntry, List.lookup, mC, Mat.entry]

theorem sm_AA_zero (a b : Nat) : (∑ y ∈ Finset.range 2, Ch.opEntry (molOpmap : OpMap κ) mA a y * Ch.opEntry molOpmap mA y b) = 0 := by
  rw [molOpmap_eq]
  rcases a with _ | _ | a <;> rcases b with _ | _ | b <;>
    simp [Finset.sum_range_succ, Ch.opEntry, List.lookup, mA, Mat.entry]

theorem sm_ICC : SiteMul (molOpmap : OpMap κ) 2 mI mC mC := by site_mul
theorem sm_AIA : SiteMul (molOpmap : OpMap κ) 2 mA mI mA := by site_mul

/-- `a†_i a†_i = 0` -/
theorem jw_CC_diag (n i : Nat) (hi : i < n) (s t : List Nat) :
    wwMul (molOpmap : OpMap κ) 2 (jwC n i) (jwC n i) s t = 0 := by
  rw [jwC_fw n i hi]
  apply wwMul_fw_zero molOpmap 2 n (cF i) (cF i) i hi
  intro a b
  simp only [cF, lt_irrefl, if_false, if_true]
  exact sm_CC_zero a b

/-- `a_k a_k = 0` -/
theorem jw_AA_diag (n k : Nat) (hk : k < n) (s t : List Nat) :
    wwMul (molOpmap : OpMap κ) 2 (jwA n k) (jwA n k) s t = 0 := by
  rw [jwA_fw n k hk]
  apply wwMul_fw_zero molOpmap 2 n (aF k) (aF k) k hk
  intro a b
  simp only [aF, lt_irrefl, if_false, if_true]
  exact sm_AA_zero a b

/-- `a†_j a†_i = + C_i Z…Z C_j` for `i < j` -/
theorem jw_CC_rev (n i j : Nat) (hij : i < j) (hj : j < n) (s t : List Nat) :
    wwMul (molOpmap : OpMap κ) 2 (jwC n j) (jwC n i) s t = wordWeight molOpmap (fw n (w1F i j)) s t := by
  rw [jwC_fw n i (by omega), jwC_fw n j hj,
    wwMul_fw_signed molOpmap 2 n (cF j) (cF i) (w1F i j) (fun _ => 1) ?_ s t]
  · simp
  · intro x _ a b
    simp only [cF, w1F]
    by_cases h1 : x < i
    · simp (disch := omega) only [if_pos, if_neg]
      rw [sm_III a b, one_mul]
    · by_cases h2 : x = i
      · simp (disch := omega) only [if_pos, if_neg]
        rw [sm_ICC a b, one_mul]
      · by_cases h3 : x < j
        · simp (disch := omega) only [if_pos, if_neg]
          rw [sm_IZZ a b, one_mul]
        · by_cases h4 : x = j
          · simp (disch := omega) only [if_pos, if_neg]
            rw [sm_CZC a b, one_mul]
          · simp (disch := omega) only [if_pos, if_neg]
            rw [sm_ZZI a b, one_mul]

/-- `a_k a_l = + A_k Z…Z A_l` for `k < l` -/
theorem jw_AA_rev (n k l : Nat) (hkl : k < l) (hl : l < n) (s t : List Nat) :
    wwMul (molOpmap : OpMap κ) 2 (jwA n k) (jwA n l) s t = wordWeight molOpmap (fw n (w2F k l)) s t := by
  rw [jwA_fw n l hl, jwA_fw n k (by omega),
    wwMul_fw_signed molOpmap 2 n (aF k) (aF l) (w2F k l) (fun _ => 1) ?_ s t]
  · simp
  · intro x _ a b
    simp only [aF, w2F]
    by_cases h1 : x < k
    · simp (disch := omega) only [if_pos, if_neg]
      rw [sm_III a b, one_mul]
    · by_cases h2 : x = k
      · simp (disch := omega) only [if_pos, if_neg]
        rw [sm_AIA a b, one_mul]
      · by_cases h3 : x < l
        · simp (disch := omega) only [if_pos, if_neg]
          rw [sm_ZIZ a b, one_mul]
        · by_cases h4 : x = l
          · simp (disch := omega) only [if_pos, if_neg]
            rw [sm_ZAA a b, one_mul]
          · simp (disch := omega) only [if_pos, if_neg]
            rw [sm_ZZI a b, one_mul]


/-- `⟨s| a†_i a†_j |u⟩` and `⟨u| a_l a_k |t⟩` -/
def jwP (n i j : Nat) (s u : List Nat) : κ :=
  sumDigits 2 n fun u1 => wordWeight (molOpmap : OpMap κ) (jwC n i) s u1 * wordWeight molOpmap (jwC n j) u1 u
def jwQ (n l k : Nat) (u t : List Nat) : κ :=
  sumDigits 2 n fun u3 => wordWeight (molOpmap : OpMap κ) (jwA n l) u u3 * wordWeight molOpmap (jwA n k) u3 t

theorem jw4_eq (n i j k l : Nat) (s t : List Nat) :
    jw4 (κ := κ) n i j k l s t = sumDigits 2 n fun u => jwP n i j s u * jwQ n l k u t := rfl

theorem jwP_eq (n i j : Nat) (hi : i < n) (hj : j < n) (s u : List Nat) (hs : s.length = n) (hu : u.length = n) :
    jwP (κ := κ) n i j s u = wwMul molOpmap 2 (jwC n i) (jwC n j) s u :=
  sumDigits_wordWeight_mul molOpmap 2 n _ _ s u (jwC_length n i hi) (jwC_length n j hj) hs hu

theorem jwQ_eq (n l k : Nat) (hl : l < n) (hk : k < n) (u t : List Nat) (hu : u.length = n) (ht : t.length = n) :
    jwQ (κ := κ) n l k u t = wwMul molOpmap 2 (jwA n l) (jwA n k) u t :=
  sumDigits_wordWeight_mul molOpmap 2 n _ _ u t (jwA_length n l hl) (jwA_length n k hk) hu ht

theorem sumDigits_neg (n : Nat) (f : List Nat → κ) : sumDigits 2 n (fun u => -f u) = -sumDigits 2 n f := by
  have := sumDigits_const_mul 2 (-1 : κ) n f
  simpa using this

theorem sumDigits_zero' (n : Nat) : sumDigits 2 n (fun _ => (0 : κ)) = 0 := by
  have := sumDigits_const_mul 2 (0 : κ) n (fun _ => (0 : κ))
  simpa using this

/-- `a†_j a†_i = - a†_i a†_j` inside the four-fold product -/
theorem jw4_swap_ij (n i j k l : Nat) (hij : i < j) (hj : j < n) (s t : List Nat) (hs : s.length = n) :
    jw4 (κ := κ) n j i k l s t = -jw4 n i j k l s t := by
  rw [jw4_eq, jw4_eq, ← sumDigits_neg]
  apply sumDigits_congr'
  intro u hu
  rw [jwP_eq n j i hj (by omega) s u hs hu, jwP_eq n i j (by omega) hj s u hs hu, jw_CC_rev n i j hij hj, jw_CC n i j hij hj]
  ring

theorem jw4_diag_ij (n i k l : Nat) (hi : i < n) (s t : List Nat) (hs : s.length = n) :
    jw4 (κ := κ) n i i k l s t = 0 := by
  rw [jw4_eq, ← sumDigits_zero' n]
  apply sumDigits_congr'
  intro u hu
  rw [jwP_eq n i i hi hi s u hs hu, jw_CC_diag n i hi, zero_mul]

/-- `a_k a_l = - a_l a_k` inside the four-fold product -/
theorem jw4_swap_kl (n i j k l : Nat) (hkl : k < l) (hl : l < n) (s t : List Nat) (ht : t.length = n) :
    jw4 (κ := κ) n i j l k s t = -jw4 n i j k l s t := by
  rw [jw4_eq, jw4_eq, ← sumDigits_neg]
  apply sumDigits_congr'
  intro u hu
  rw [jwQ_eq n k l (by omega) hl u t hu ht, jwQ_eq n l k hl (by omega) u t hu ht, jw_AA_rev n k l hkl hl, jw_AA n k l hkl hl]
  ring

theorem jw4_diag_kl (n i j k : Nat) (hk : k < n) (s t : List Nat) (ht : t.length = n) :
    jw4 (κ := κ) n i j k k s t = 0 := by
  rw [jw4_eq, ← sumDigits_zero' n]
  apply sumDigits_congr'
  intro u hu
  rw [jwQ_eq n k k hk hk u t hu ht, jw_AA_diag n k hk, mul_zero]


/-! ## double sums over `i, j < n` -/

/-- `Σ_{i<n} Σ_{j<n} f i j` -/
def S2 (n : Nat) (f : Nat → Nat → κ) : κ := ((List.range n).map fun i => ((List.range n).map fun j => f i j).sum).sum

theorem S2_congr (n : Nat) (f g : Nat → Nat → κ) (h : ∀ i < n, ∀ j < n, f i j = g i j) : S2 n f = S2 n g := by
  unfold S2
  apply Ch.sum_map_congr
  intro i hi
  apply Ch.sum_map_congr
  intro j hj
  exact h i (mem_range.1 hi) j (mem_range.1 hj)

theorem S2_add (n : Nat) (f g : Nat → Nat → κ) : S2 n (fun i j => f i j + g i j) = S2 n f + S2 n g := by
  unfold S2
  rw [← Ch.sum_map_add]
  apply Ch.sum_map_congr
  intro i _
  rw [Ch.sum_map_add]

theorem S2_comm (n : Nat) (f : Nat → Nat → κ) : S2 n f = S2 n (fun i j => f j i) := by
  unfold S2
  rw [Ch.sum_sum_comm]

theorem sum_range_diag (n i : Nat) (hi : i < n) (F : Nat → κ) :
    ((List.range n).map fun j => if i = j then F j else 0).sum = F i := by
  induction n with
  | zero => omega
  | succ n ih =>
    rw [range_succ, map_append, sum_append]
    simp only [map_cons, map_nil, sum_cons, sum_nil, add_zero]
    by_cases h : i < n
    · rw [ih h, if_neg (by omega), add_zero]
    · have : i = n := by omega
      subst this
      rw [if_pos rfl]
      have : ((List.range i).map fun j => if i = j then F j else 0).sum = 0 := by
        apply Ch.sum_map_eq_zero
        intro j hj
        have := mem_range.1 hj
        rw [if_neg (by omega)]
      rw [this, zero_add]

/-- **splitting a double sum into the strictly upper triangle, its mirror image and the diagonal** -/
theorem S2_split (n : Nat) (f : Nat → Nat → κ) :
    S2 n f = S2 n (fun i j => if i < j then f i j + f j i else 0) + ((List.range n).map fun i => f i i).sum := by
  have h1 : S2 n f = S2 n (fun i j => (if i < j then f i j else 0) + ((if j < i then f i j else 0) + (if i = j then f i j else 0))) := by
    apply S2_congr
    intro i _ j _
    rcases Nat.lt_trichotomy i j with h | h | h
    · rw [if_pos h, if_neg (by omega), if_neg (by omega)]; ring
    · subst h; simp
    · rw [if_neg (by omega), if_pos h, if_neg (by omega)]; ring
  have h2 : S2 n (fun i j => if j < i then f i j else 0) = S2 n (fun i j => if i < j then f j i else 0) := S2_comm n _
  have h3 : S2 n (fun i j => if i = j then f i j else 0) = ((List.range n).map fun i => f i i).sum := by
    unfold S2
    apply Ch.sum_map_congr
    intro i hi
    exact sum_range_diag n i (mem_range.1 hi) (fun j => f i j)
  rw [h1, S2_add, S2_add, h2, h3, ← add_assoc, ← S2_add]
  congr 1
  apply S2_congr
  intro i _ j _
  by_cases h : i < j
  · simp [h]
  · simp [h]

/-- double sum of a function that is antisymmetric off the diagonal and vanishes on it, against arbitrary coefficients -/
theorem S2_antisym (n : Nat) (g X : Nat → Nat → κ) (hanti : ∀ i j, i < j → j < n → X j i = -X i j) (hdiag : ∀ i < n, X i i = 0) :
    S2 n (fun i j => g i j * X i j) = S2 n (fun i j => if i < j then (g i j - g j i) * X i j else 0) := by
  rw [S2_split]
  have : ((List.range n).map fun i => g i i * X i i).sum = 0 := by
    apply Ch.sum_map_eq_zero
    intro i hi
    rw [hdiag i (mem_range.1 hi), mul_zero]
  rw [this, add_zero]
  apply S2_congr
  intro i _ j hj
  by_cases h : i < j
  · rw [if_pos h, if_pos h, hanti i j h hj]; ring
  · rw [if_neg h, if_neg h]


theorem S2_zero (n : Nat) : S2 n (fun _ _ => (0 : κ)) = 0 := by simp [S2]

/-- **antisymmetrisation**: `Σ_ijkl ½ v_ijkl X_ijkl = Σ_{i<j} Σ_{k<l} gint_ijkl X_ijkl` for `X = a†_i a†_j a_l a_k` -/
theorem four_sum (c : Consts κ) (vint : List (List (List (List κ)))) (n : Nat) (s t : List Nat) (hs : s.length = n)
    (ht : t.length = n) :
    S2 n (fun i j => S2 n (fun k l => (c.half * v4 vint (i : Int) (j : Int) (k : Int) (l : Int)) * jw4 n i j k l s t))
      = S2 n (fun i j => if i < j then
          S2 n (fun k l => if k < l then gint c vint (i : Int) (j : Int) (k : Int) (l : Int) * jw4 n i j k l s t else 0) else 0) := by
  -- inner antisymmetrisation in (k, l)
  have inner : ∀ i j : Nat,
      S2 n (fun k l => (c.half * v4 vint (i : Int) (j : Int) (k : Int) (l : Int)) * jw4 n i j k l s t)
        = S2 n (fun k l => if k < l then
            (c.half * v4 vint (i : Int) (j : Int) (k : Int) (l : Int) - c.half * v4 vint (i : Int) (j : Int) (l : Int) (k : Int))
              * jw4 n i j k l s t else 0) := by
    intro i j
    exact S2_antisym n (fun k l => c.half * v4 vint (i : Int) (j : Int) (k : Int) (l : Int)) (fun k l => jw4 n i j k l s t)
      (fun k l hkl hl => jw4_swap_kl n i j k l hkl hl s t ht) (fun k hk => jw4_diag_kl n i j k hk s t ht)
  rw [S2_congr n _ _ (fun i _ j _ => inner i j), S2_split]
  have hdiag : ((List.range n).map fun (i : Nat) => S2 n (fun k l => if k < l then
      (c.half * v4 vint (i : Int) (i : Int) (k : Int) (l : Int) - c.half * v4 vint (i : Int) (i : Int) (l : Int) (k : Int))
        * jw4 n i i k l s t else 0)).sum = 0 := by
    apply Ch.sum_map_eq_zero
    intro i hi
    refine Eq.trans (S2_congr n _ (fun _ _ => 0) ?_) (S2_zero n)
    intro k _ l _
    rw [jw4_diag_ij n i k l (mem_range.1 hi) s t hs, mul_zero]
    simp
  rw [hdiag, add_zero]
  apply S2_congr
  intro i _ j hj
  by_cases hij : i < j
  · rw [if_pos hij, if_pos hij, ← S2_add]
    apply S2_congr
    intro k _ l _
    by_cases hkl : k < l
    · simp only [hkl, if_true]
      rw [jw4_swap_ij n i j k l hij hj s t hs, gint]
      ring
    · simp [hkl]
  · rw [if_neg hij, if_neg hij]


/-! ## from the index lists of the enumeration to sums over ranges -/

theorem sum_pyRange_zero (n : Nat) (φ : Int → κ) :
    ((pyRange 0 (n : Int)).map φ).sum = ((List.range n).map fun (i : Nat) => φ (i : Int)).sum := by
  rw [pyRange_zero_nat, map_map]
  rfl

theorem sum_pyRange_succ (i : Nat) (φ : Int → κ) : ∀ n : Nat,
    ((pyRange ((i : Int) + 1) (n : Int)).map φ).sum = ((List.range n).map fun (j : Nat) => if i < j then φ (j : Int) else 0).sum := by
  intro n
  induction n with
  | zero =>
    rw [pyRange_empty _ _ (by omega)]
    simp
  | succ n ih =>
    rw [range_succ, map_append, sum_append]
    simp only [map_cons, map_nil, sum_cons, sum_nil, add_zero]
    by_cases h : i < n
    · have e : pyRange ((i : Int) + 1) ((n + 1 : Nat) : Int) = pyRange ((i : Int) + 1) (n : Int) ++ [(n : Int)] := by
        rw [← pyRange_append ((i : Int) + 1) (n : Int) ((n + 1 : Nat) : Int) (by omega) (by omega)]
        congr 1
        rw [pyRange_cons _ _ (by omega), pyRange_empty _ _ (by omega)]
      rw [e, map_append, sum_append, ih, if_pos h]
      simp
    · rw [if_neg h, add_zero, ← ih, pyRange_empty _ _ (by omega), pyRange_empty _ _ (by omega)]

/-- the sum over the index tuples of the interaction loop as an iterated sum over `i < j`, `k < l` -/
theorem sum_intTuples (n : Nat) (Φ : Int × Int × Int × Int → κ) :
    ((intTuples n).map Φ).sum =
      S2 n (fun i j => if i < j then S2 n (fun k l => if k < l then Φ ((i : Int), (j : Int), (k : Int), (l : Int)) else 0) else 0) := by
  unfold intTuples S2
  rw [Ch.sum_flatMap, sum_pyRange_zero]
  apply Ch.sum_map_congr
  intro i _
  rw [Ch.sum_flatMap, sum_pyRange_succ]
  apply Ch.sum_map_congr
  intro j _
  dsimp only
  by_cases hij : i < j
  · rw [if_pos hij, if_pos hij, Ch.sum_flatMap, sum_pyRange_zero]
    apply Ch.sum_map_congr
    intro k _
    rw [map_map, sum_pyRange_succ]
    rfl
  · rw [if_neg hij, if_neg hij]

/-- **the two-body part in documented form**: `Σ_{i<j,k<l} gint_ijkl a†_i a†_j a_l a_k = Σ_ijkl ½ v_ijkl a†_i a†_j a_l a_k` as dense
entries (`½` is the constant `c.half` of the model) -/
theorem two_body_full (c : Consts κ) (vint : List (List (List (List κ)))) (n : Nat) (s t : List Nat) (hs : s.length = n)
    (ht : t.length = n) :
    ((intTuples n).map fun q => gint c vint q.1 q.2.1 q.2.2.1 q.2.2.2 *
        jw4 n q.1.toNat q.2.1.toNat q.2.2.1.toNat q.2.2.2.toNat s t).sum
      = S2 n (fun i j => S2 n (fun k l => (c.half * v4 vint (i : Int) (j : Int) (k : Int) (l : Int)) * jw4 n i j k l s t)) := by
  rw [four_sum c vint n s t hs ht, sum_intTuples]
  simp only [Int.toNat_natCast]


/-- the anticommutation relations of the Jordan-Wigner matrices, as dense products -/
theorem jw_anticommute (n i j : Nat) (hij : i < j) (hj : j < n) (s t : List Nat) (hs : s.length = n) (ht : t.length = n) :
    jwP (κ := κ) n j i s t = -jwP n i j s t ∧ jwP (κ := κ) n i i s t = 0 ∧
    jwQ (κ := κ) n i j s t = -jwQ n j i s t ∧ jwQ (κ := κ) n i i s t = 0 := by
  refine ⟨?_, ?_, ?_, ?_⟩
  · rw [jwP_eq n j i hj (by omega) s t hs ht, jwP_eq n i j (by omega) hj s t hs ht, jw_CC_rev n i j hij hj, jw_CC n i j hij hj]
    ring
  · rw [jwP_eq n i i (by omega) (by omega) s t hs ht, jw_CC_diag n i (by omega)]
  · rw [jwQ_eq n i j (by omega) hj s t hs ht, jwQ_eq n j i hj (by omega) s t hs ht, jw_AA_rev n i j hij hj, jw_AA n i j hij hj]
    ring
  · rw [jwQ_eq n i i (by omega) (by omega) s t hs ht, jw_AA_diag n i (by omega)]

end Ptn.Ham2

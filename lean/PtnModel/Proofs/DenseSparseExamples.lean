import PtnModel.Proofs.DenseExamples
import PtnModel.Model.MPOSparse
/-!
# Concrete operands over `ℤ` for the non-vacuity examples of the sparse / dense clause of C03
-/
namespace Ptn.Dense.Ex

/-- two-site operator, charges `qd = [0, 1]`, bond profile `(1, 2, 1)` -/
def w2 : MPO Int :=
  ⟨qd, [[0], [0, 1], [0]],
   [t4 qd [0] [0, 1] (fun s t a b => 1 + s + 2 * t + a + 3 * b),
    t4 qd [0, 1] [0] (fun s t a b => 2 + 3 * s + t + a + b)]⟩

/-- two-site operator with an interior bond of dimension 0 -/
def z2 : MPO Int :=
  ⟨qd, [[0], [], [0]], [t4 qd [0] [] (fun _ _ _ _ => 1), t4 qd [] [0] (fun _ _ _ _ => 1)]⟩

/-- two-site operator on an empty physical space (`len(qd) = 0`) -/
def e2 : MPO Int :=
  ⟨[], [[0], [0], [0]], [t4 [] [0] [0] (fun _ _ _ _ => 1), t4 [] [0] [0] (fun _ _ _ _ => 1)]⟩

theorem shaped_w2 : MPO.Shaped w2 2 :=
  ⟨rfl, by simp [w2], by simp [MPO.Chain, w2, t4, qd], by simp [MPO.DimsMatch, w2, t4, qd]⟩
theorem shaped_z2 : MPO.Shaped z2 2 :=
  ⟨rfl, by simp [z2], by simp [MPO.Chain, z2, t4, qd], by simp [MPO.DimsMatch, z2, t4, qd]⟩
theorem shaped_e2 : MPO.Shaped e2 0 :=
  ⟨rfl, by simp [e2], by simp [MPO.Chain, e2, t4], by simp [MPO.DimsMatch, e2, t4]⟩

end Ptn.Dense.Ex

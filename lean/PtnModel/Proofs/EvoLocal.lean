import PtnModel.Proofs.EvoFlat
import PtnModel.Proofs.DenseExcept
/-!
# The site-local steps of TDVP and DMRG

`_local_hamiltonian_step`, `_local_bond_step` (Hermitian Krylov exponential of the effective one-site / zero-site
operator) and `_minimize_local_energy` (lowest Ritz pair of the effective operator), on the level of site tensors:

* `LocalHermitian`, `BondHermitian`   : Hermiticity of the effective operators as quadratic forms on tensors
                                        (the conclusions of `C04.local_hermitian` / `bond_hermitian`);
* `isHermitian_localHFun`, `…BondFun` : the flat maps handed to the Krylov routines are Hermitian w.r.t. `vdot`;
* `localStep_norm`, `localStep_energy`, `bondStep_norm`, `bondStep_energy` : imaginary-time-argument steps preserve the
  Frobenius norm and the quadratic form of the effective operator, for every iteration count;
* `minimize_spec` : the result of `_minimize_local_energy`.
-/
set_option linter.unusedSectionVars false

namespace Ptn.Evo
open Ptn Ptn.Krylov Ptn.Dense Finset

variable {𝕜 : Type} [RCLike 𝕜] [DecidableEq 𝕜]
local notation "conj" => starRingEnd 𝕜

/-! ## unfolding the model functions -/

theorem localStep_unfold {k : EvoKernels 𝕜 ℝ} {L R : T3 𝕜} {W : T4 𝕜} {A A1 : T3 𝕜} {dt : 𝕜} {numiter : Nat}
    (h : localHamiltonianStep k L R W A dt numiter = .ok A1) :
    ∃ y, expmKrylov (localHFun L R W A.d0 A.d1 A.d2) k.cnorm k.deigh k.dexp k.dexpm (flat3 A) (-dt) numiter true = .ok y ∧
      A1 = (unflat3 y A.d0 A.d1 A.d2).tab := by
  unfold localHamiltonianStep at h
  rw [bind_ok] at h
  obtain ⟨y, h1, h2⟩ := h
  rw [pure_ok] at h2
  exact ⟨y, h1, h2.symm⟩

theorem bondStep_unfold {k : EvoKernels 𝕜 ℝ} {L R : T3 𝕜} {C C1 : Mat 𝕜} {dt : 𝕜} {numiter : Nat}
    (h : localBondStep k L R C dt numiter = .ok C1) :
    ∃ y, expmKrylov (localBondFun L R C.m C.n) k.cnorm k.deigh k.dexp k.dexpm (flat2 C) (-dt) numiter true = .ok y ∧
      C1 = (unflat2 y C.m C.n).tab := by
  unfold localBondStep at h
  rw [bind_ok] at h
  obtain ⟨y, h1, h2⟩ := h
  rw [pure_ok] at h2
  exact ⟨y, h1, h2.symm⟩

theorem minimize_unfold {k : EvoKernels 𝕜 ℝ} {L R : T3 𝕜} {W : T4 𝕜} {A Aopt : T3 𝕜} {en : ℝ} {numiter : Nat}
    (h : minimizeLocalEnergy k L R W A numiter = .ok (en, Aopt)) :
    ∃ ws u, eighKrylov (localHFun L R W A.d0 A.d1 A.d2) k.cnorm k.deigh (flat3 A) numiter 1 = .ok (ws, u) ∧
      en = ws.getD 0 0 ∧ u.n ≠ 0 ∧ Aopt = (unflat3 (matCol u 0) A.d0 A.d1 A.d2).tab := by
  unfold minimizeLocalEnergy at h
  rw [bind_ok] at h
  obtain ⟨⟨ws, u⟩, h1, h2⟩ := h
  refine ⟨ws, u, h1, ?_⟩
  cases ws with
  | nil => simp [throw_ne] at h2
  | cons w0 rest =>
    dsimp only at h2
    by_cases hu : u.n = 0
    · simp [hu, throw_map_ne] at h2
    · simp only [hu, if_false, pure_ok, Prod.mk.injEq] at h2
      exact ⟨by rw [← h2.1]; rfl, hu, h2.2.symm⟩

/-! ## Hermiticity -/

/-- the one-site effective operator is Hermitian as a quadratic form on tensors of shape `(d0, d1, d2)` -/
def LocalHermitian (L R : T3 𝕜) (W : T4 𝕜) (d0 d1 d2 : Nat) : Prop :=
  ∀ A B TA TB : T3 𝕜, A.d0 = d0 → A.d1 = d1 → A.d2 = d2 → B.d0 = d0 → B.d1 = d1 → B.d2 = d2 →
    Op.applyLocalHamiltonian L R W A = .ok TA → Op.applyLocalHamiltonian L R W B = .ok TB →
    inner3 B TA = conj (inner3 A TB)

/-- the zero-site effective operator is Hermitian as a quadratic form on `m × n` matrices -/
def BondHermitian (L R : T3 𝕜) (m n : Nat) : Prop :=
  ∀ C C' T T' : Mat 𝕜, C.m = m → C.n = n → C'.m = m → C'.n = n →
    Op.applyLocalBondContraction L R C = .ok T → Op.applyLocalBondContraction L R C' = .ok T' →
    inner2 C' T = conj (inner2 C T')

omit [DecidableEq 𝕜] in
theorem inner3_conj {A B : T3 𝕜} (h0 : B.d0 = A.d0) (h1 : B.d1 = A.d1) (h2 : B.d2 = A.d2) :
    conj (inner3 B A) = inner3 A B := by
  unfold inner3
  rw [h0, h1, h2, map_sum]
  refine sum_congr rfl fun s _ => ?_
  rw [map_sum]
  refine sum_congr rfl fun a _ => ?_
  rw [map_sum]
  refine sum_congr rfl fun b _ => ?_
  rw [map_mul, RingHomCompTriple.comp_apply, RingHom.id_apply, mul_comm]

omit [DecidableEq 𝕜] in
theorem inner2_conj {A B : Mat 𝕜} (h0 : B.m = A.m) (h1 : B.n = A.n) : conj (inner2 B A) = inner2 A B := by
  unfold inner2
  rw [h0, h1, map_sum]
  refine sum_congr rfl fun s _ => ?_
  rw [map_sum]
  refine sum_congr rfl fun a _ => ?_
  rw [map_mul, RingHomCompTriple.comp_apply, RingHom.id_apply, mul_comm]

omit [DecidableEq 𝕜] in
/-- `vdot` of a flat vector with an arbitrary vector of the right length -/
theorem vdot_flat3_left {T : T3 𝕜} {d0 d1 d2 : Nat} (t0 : T.d0 = d0) (t1 : T.d1 = d1) (t2 : T.d2 = d2) {y : List 𝕜}
    (hy : y.length = d0 * d1 * d2) : vdot (d0 * d1 * d2) (flat3 T) y = inner3 T (unflat3 y d0 d1 d2) := by
  conv_lhs => rw [← flat3_unflat3 hy]
  have := vdot_flat3 (B := T) (A := unflat3 y d0 d1 d2) t0 t1 t2
  exact this

omit [DecidableEq 𝕜] in
theorem vdot_flat3_right {T : T3 𝕜} {d0 d1 d2 : Nat} (t0 : T.d0 = d0) (t1 : T.d1 = d1) (t2 : T.d2 = d2) {y : List 𝕜}
    (hy : y.length = d0 * d1 * d2) : vdot (d0 * d1 * d2) y (flat3 T) = inner3 (unflat3 y d0 d1 d2) T := by
  conv_lhs => rw [← flat3_unflat3 hy]
  have := vdot_flat3 (B := unflat3 y d0 d1 d2) (A := T) t0.symm t1.symm t2.symm
  rw [t0, t1, t2] at this
  exact this

omit [DecidableEq 𝕜] in
theorem vdot_flat2_left {T : Mat 𝕜} {m n : Nat} (t0 : T.m = m) (t1 : T.n = n) {y : List 𝕜}
    (hy : y.length = m * n) : vdot (m * n) (flat2 T) y = inner2 T (unflat2 y m n) := by
  conv_lhs => rw [← flat2_unflat2 hy]
  exact vdot_flat2 (B := T) (C := unflat2 y m n) t0 t1

omit [DecidableEq 𝕜] in
theorem vdot_flat2_right {T : Mat 𝕜} {m n : Nat} (t0 : T.m = m) (t1 : T.n = n) {y : List 𝕜}
    (hy : y.length = m * n) : vdot (m * n) y (flat2 T) = inner2 (unflat2 y m n) T := by
  conv_lhs => rw [← flat2_unflat2 hy]
  have := vdot_flat2 (B := unflat2 y m n) (C := T) t0.symm t1.symm
  rw [t0, t1] at this
  exact this

omit [DecidableEq 𝕜] in
/-- the flat one-site map is Hermitian w.r.t. `vdot` -/
theorem isHermitian_localHFun {L R : T3 𝕜} {W : T4 𝕜} {d0 d1 d2 : Nat} (hF : LocalFits L R W d0 d1 d2)
    (hH : LocalHermitian L R W d0 d1 d2) : IsHermitian (d0 * d1 * d2) (localHFun L R W d0 d1 d2) := by
  intro x y hx hy
  obtain ⟨TX, hTX, ex, x0, x1, x2⟩ := localHFun_eq hF x
  obtain ⟨TY, hTY, ey, y0, y1, y2⟩ := localHFun_eq hF y
  rw [ex, ey, vdot_flat3_left x0 x1 x2 hy, vdot_flat3_right y0 y1 y2 hx]
  have h := hH (unflat3 y d0 d1 d2) (unflat3 x d0 d1 d2) TY TX rfl rfl rfl rfl rfl rfl hTY hTX
  rw [h, inner3_conj (A := TX) (B := unflat3 y d0 d1 d2) x0.symm x1.symm x2.symm]

omit [DecidableEq 𝕜] in
theorem isHermitian_localBondFun {L R : T3 𝕜} {m n : Nat} (hF : BondFits L R m n) (hH : BondHermitian L R m n) :
    IsHermitian (m * n) (localBondFun L R m n) := by
  intro x y hx hy
  obtain ⟨TX, hTX, ex, x0, x1⟩ := localBondFun_eq hF x
  obtain ⟨TY, hTY, ey, y0, y1⟩ := localBondFun_eq hF y
  rw [ex, ey, vdot_flat2_left x0 x1 hy, vdot_flat2_right y0 y1 hx]
  have h := hH (unflat2 y m n) (unflat2 x m n) TY TX rfl rfl rfl rfl hTY hTX
  rw [h, inner2_conj (A := TX) (B := unflat2 y m n) x0.symm x1.symm]

/-! ## the maps on flat vectors of tensors -/

omit [DecidableEq 𝕜] in
/-- `localHFun (A.reshape(-1)) = (apply_local_hamiltonian A).reshape(-1)` -/
theorem localHFun_flat3 {L R : T3 𝕜} {W : T4 𝕜} {A T : T3 𝕜} (hF : LocalFits L R W A.d0 A.d1 A.d2)
    (hT : Op.applyLocalHamiltonian L R W A = .ok T) :
    localHFun L R W A.d0 A.d1 A.d2 (flat3 A) = flat3 T := by
  obtain ⟨T', hT', e, t0, t1, t2⟩ := localHFun_eq hF (flat3 A)
  rw [e]
  obtain ⟨T1, h1, a0, a1, a2, f1⟩ := applyLocal_ker hF (A := A) rfl rfl rfl
  obtain ⟨T2, h2, b0, b1, b2, f2⟩ := applyLocal_ker hF (A := unflat3 (flat3 A) A.d0 A.d1 A.d2) rfl rfl rfl
  rw [hT] at h1
  rw [hT'] at h2
  injection h1 with h1
  injection h2 with h2
  subst h1 h2
  refine flat3_congr (t0.trans a0.symm) (t1.trans a1.symm) (t2.trans a2.symm) ?_
  intro s a b hs ha hb
  rw [f2 s a b (by rw [← t0]; exact hs) (by rw [← t1]; exact ha) (by rw [← t2]; exact hb),
    f1 s a b (by rw [← t0]; exact hs) (by rw [← t1]; exact ha) (by rw [← t2]; exact hb)]
  refine sum_congr rfl fun s' hs' => sum_congr rfl fun a' ha' => sum_congr rfl fun b' hb' => ?_
  rw [unflat3_f, vget_flat3 A (mem_range.1 hs') (mem_range.1 ha') (mem_range.1 hb')]

omit [DecidableEq 𝕜] in
theorem localBondFun_flat2 {L R : T3 𝕜} {C T : Mat 𝕜} (hF : BondFits L R C.m C.n)
    (hT : Op.applyLocalBondContraction L R C = .ok T) : localBondFun L R C.m C.n (flat2 C) = flat2 T := by
  obtain ⟨T', hT', e, t0, t1⟩ := localBondFun_eq hF (flat2 C)
  rw [e]
  obtain ⟨T1, h1, a0, a1, f1⟩ := applyBond_ker hF (C := C) rfl rfl
  obtain ⟨T2, h2, b0, b1, f2⟩ := applyBond_ker hF (C := unflat2 (flat2 C) C.m C.n) rfl rfl
  rw [hT] at h1
  rw [hT'] at h2
  injection h1 with h1
  injection h2 with h2
  subst h1 h2
  refine flat2_congr (t0.trans a0.symm) (t1.trans a1.symm) ?_
  intro a b ha hb
  rw [f2 a b (by rw [← t0]; exact ha) (by rw [← t1]; exact hb),
    f1 a b (by rw [← t0]; exact ha) (by rw [← t1]; exact hb)]
  refine sum_congr rfl fun a' ha' => sum_congr rfl fun b' hb' => ?_
  rw [unflat2_f, vget_flat2 C (mem_range.1 ha') (mem_range.1 hb')]

omit [DecidableEq 𝕜] in
/-- the flat vector of `y.reshape(shape)` (memoised) is `y` -/
theorem flat3_unflat3_tab {y : List 𝕜} {d0 d1 d2 : Nat} (hy : y.length = d0 * d1 * d2) :
    flat3 (unflat3 y d0 d1 d2).tab = y := by rw [flat3_tab, flat3_unflat3 hy]

omit [DecidableEq 𝕜] in
theorem flat2_unflat2_tab {y : List 𝕜} {m n : Nat} (hy : y.length = m * n) : flat2 (unflat2 y m n).tab = y := by
  rw [flat2_tab, flat2_unflat2 hy]

/-! ## the time steps -/

/-- **Local unitarity.**  `_local_hamiltonian_step` with a Hermitian effective operator and `-dt = i t` returns a tensor
of the same shape and the same Frobenius norm, for every iteration count. -/
theorem localStep_norm {k : EvoKernels 𝕜 ℝ} {L R : T3 𝕜} {W : T4 𝕜} {A A1 : T3 𝕜} {dt : 𝕜} {numiter : Nat}
    (hN : NormContract k.cnorm) (hF : LocalFits L R W A.d0 A.d1 A.d2) (hH : LocalHermitian L R W A.d0 A.d1 A.d2)
    (hE : C15.EighAt (localHFun L R W A.d0 A.d1 A.d2) k.cnorm k.deigh (flat3 A) numiter)
    (hexp : ∀ x : ℝ, ‖k.dexp (RCLike.I * (x : 𝕜))‖ = 1) {t : ℝ} (hdt : -dt = RCLike.I * (t : 𝕜))
    (h : localHamiltonianStep k L R W A dt numiter = .ok A1) :
    A1.d0 = A.d0 ∧ A1.d1 = A.d1 ∧ A1.d2 = A.d2 ∧ frob3 A1 = frob3 A := by
  obtain ⟨y, hy, rfl⟩ := localStep_unfold h
  refine ⟨rfl, rfl, rfl, ?_⟩
  rw [hdt] at hy
  have hA := isHermitian_localHFun hF hH
  rw [← length_flat3 A] at hA
  obtain ⟨hl, hs, _⟩ := C15.expm_norm hN hA hE hexp hy
  rw [length_flat3] at hl
  rw [← sqNorm_flat3, flat3_unflat3_tab hl, hs, sqNorm_flat3]

/-- **Local energy conservation.**  Under the same hypotheses the quadratic form of the effective operator is preserved:
`⟨A1, H_eff A1⟩ = ⟨A, H_eff A⟩`. -/
theorem localStep_energy {k : EvoKernels 𝕜 ℝ} {L R : T3 𝕜} {W : T4 𝕜} {A A1 : T3 𝕜} {dt : 𝕜} {numiter : Nat}
    (hN : NormContract k.cnorm) (hF : LocalFits L R W A.d0 A.d1 A.d2) (hH : LocalHermitian L R W A.d0 A.d1 A.d2)
    (hE : C15.EighAt (localHFun L R W A.d0 A.d1 A.d2) k.cnorm k.deigh (flat3 A) numiter)
    (hexp : ∀ x : ℝ, ‖k.dexp (RCLike.I * (x : 𝕜))‖ = 1) {t : ℝ} (hdt : -dt = RCLike.I * (t : 𝕜))
    (h : localHamiltonianStep k L R W A dt numiter = .ok A1) {T T1 : T3 𝕜}
    (hT : Op.applyLocalHamiltonian L R W A = .ok T) (hT1 : Op.applyLocalHamiltonian L R W A1 = .ok T1) :
    inner3 A1 T1 = inner3 A T := by
  obtain ⟨y, hy, rfl⟩ := localStep_unfold h
  rw [hdt] at hy
  have hA := isHermitian_localHFun hF hH
  have hM := actsAs_localHFun hF
  rw [← length_flat3 A] at hA hM
  obtain ⟨hl, _, _⟩ := C15.expm_norm hN hA hE hexp hy
  have he := expm_energy hN hM hA hE hexp hy
  rw [length_flat3] at hl he
  have hF1 : LocalFits L R W (unflat3 y A.d0 A.d1 A.d2).tab.d0 (unflat3 y A.d0 A.d1 A.d2).tab.d1
      (unflat3 y A.d0 A.d1 A.d2).tab.d2 := hF
  have e1 : localHFun L R W A.d0 A.d1 A.d2 y = flat3 T1 := by
    have := localHFun_flat3 hF1 hT1
    rwa [flat3_unflat3_tab hl] at this
  have e0 := localHFun_flat3 hF hT
  obtain ⟨_, hT', t0, t1, t2, _⟩ := applyLocal_ker hF (A := A) rfl rfl rfl
  rw [hT] at hT'; injection hT' with hT'; subst hT'
  obtain ⟨_, hT1', s0, s1, s2, _⟩ := applyLocal_ker hF (A := (unflat3 y A.d0 A.d1 A.d2).tab) rfl rfl rfl
  rw [hT1] at hT1'; injection hT1' with hT1'; subst hT1'
  show inner3 (unflat3 y A.d0 A.d1 A.d2).tab T1 = inner3 A T
  rw [show (A.d0 * A.d1 * A.d2) = T1.d0 * T1.d1 * T1.d2 by rw [s0, s1, s2]] at he
  rw [e1, e0] at he
  have h1 := vdot_flat3 (B := (unflat3 y A.d0 A.d1 A.d2).tab) (A := T1) s0.symm s1.symm s2.symm
  rw [flat3_unflat3_tab hl] at h1
  rw [h1] at he
  rw [he, show T1.d0 * T1.d1 * T1.d2 = T.d0 * T.d1 * T.d2 by rw [s0, s1, s2, t0, t1, t2]]
  exact vdot_flat3 t0.symm t1.symm t2.symm

/-- **Zero-site unitarity.** -/
theorem bondStep_norm {k : EvoKernels 𝕜 ℝ} {L R : T3 𝕜} {C C1 : Mat 𝕜} {dt : 𝕜} {numiter : Nat}
    (hN : NormContract k.cnorm) (hF : BondFits L R C.m C.n) (hH : BondHermitian L R C.m C.n)
    (hE : C15.EighAt (localBondFun L R C.m C.n) k.cnorm k.deigh (flat2 C) numiter)
    (hexp : ∀ x : ℝ, ‖k.dexp (RCLike.I * (x : 𝕜))‖ = 1) {t : ℝ} (hdt : -dt = RCLike.I * (t : 𝕜))
    (h : localBondStep k L R C dt numiter = .ok C1) :
    C1.m = C.m ∧ C1.n = C.n ∧ frob2 C1 = frob2 C := by
  obtain ⟨y, hy, rfl⟩ := bondStep_unfold h
  refine ⟨rfl, rfl, ?_⟩
  rw [hdt] at hy
  have hA := isHermitian_localBondFun hF hH
  rw [← length_flat2 C] at hA
  obtain ⟨hl, hs, _⟩ := C15.expm_norm hN hA hE hexp hy
  rw [length_flat2] at hl
  rw [← sqNorm_flat2, flat2_unflat2_tab hl, hs, sqNorm_flat2]

/-- **Zero-site energy conservation.** -/
theorem bondStep_energy {k : EvoKernels 𝕜 ℝ} {L R : T3 𝕜} {C C1 : Mat 𝕜} {dt : 𝕜} {numiter : Nat}
    (hN : NormContract k.cnorm) (hF : BondFits L R C.m C.n) (hH : BondHermitian L R C.m C.n)
    (hE : C15.EighAt (localBondFun L R C.m C.n) k.cnorm k.deigh (flat2 C) numiter)
    (hexp : ∀ x : ℝ, ‖k.dexp (RCLike.I * (x : 𝕜))‖ = 1) {t : ℝ} (hdt : -dt = RCLike.I * (t : 𝕜))
    (h : localBondStep k L R C dt numiter = .ok C1) {T T1 : Mat 𝕜}
    (hT : Op.applyLocalBondContraction L R C = .ok T) (hT1 : Op.applyLocalBondContraction L R C1 = .ok T1) :
    inner2 C1 T1 = inner2 C T := by
  obtain ⟨y, hy, rfl⟩ := bondStep_unfold h
  rw [hdt] at hy
  have hA := isHermitian_localBondFun hF hH
  have hM := actsAs_localBondFun hF
  rw [← length_flat2 C] at hA hM
  obtain ⟨hl, _, _⟩ := C15.expm_norm hN hA hE hexp hy
  have he := expm_energy hN hM hA hE hexp hy
  rw [length_flat2] at hl he
  have hF1 : BondFits L R (unflat2 y C.m C.n).tab.m (unflat2 y C.m C.n).tab.n := hF
  have e1 : localBondFun L R C.m C.n y = flat2 T1 := by
    have := localBondFun_flat2 hF1 hT1
    rwa [flat2_unflat2_tab hl] at this
  have e0 := localBondFun_flat2 hF hT
  obtain ⟨_, hT', t0, t1, _⟩ := applyBond_ker hF (C := C) rfl rfl
  rw [hT] at hT'; injection hT' with hT'; subst hT'
  obtain ⟨_, hT1', s0, s1, _⟩ := applyBond_ker hF (C := (unflat2 y C.m C.n).tab) rfl rfl
  rw [hT1] at hT1'; injection hT1' with hT1'; subst hT1'
  show inner2 (unflat2 y C.m C.n).tab T1 = inner2 C T
  rw [show (C.m * C.n) = T1.m * T1.n by rw [s0, s1]] at he
  rw [e1, e0] at he
  have h1 := vdot_flat2 (B := (unflat2 y C.m C.n).tab) (C := T1) s0.symm s1.symm
  rw [flat2_unflat2_tab hl] at h1
  rw [h1] at he
  rw [he, show T1.m * T1.n = T.m * T.n by rw [s0, s1, t0, t1]]
  exact vdot_flat2 t0.symm t1.symm

/-! ## the local eigenvalue problem -/

/-- **Local Ritz pair.**  `_minimize_local_energy` with a Hermitian effective operator returns a tensor `Aopt` of the
shape of the start tensor with Frobenius norm one whose energy `⟨Aopt, H_eff Aopt⟩` is the returned value `en`;
`en ‖A‖² ≤ ⟨A, H_eff A⟩` (the start tensor is non-zero), and every lower bound `μ` of the quadratic form of `H_eff`
satisfies `μ ≤ en`.  For every iteration count `≥ 1`. -/
theorem minimize_spec {k : EvoKernels 𝕜 ℝ} {L R : T3 𝕜} {W : T4 𝕜} {A Aopt : T3 𝕜} {en : ℝ} {numiter : Nat}
    (hN : NormContract k.cnorm) (hF : LocalFits L R W A.d0 A.d1 A.d2) (hH : LocalHermitian L R W A.d0 A.d1 A.d2)
    (hE : C15.EighAt (localHFun L R W A.d0 A.d1 A.d2) k.cnorm k.deigh (flat3 A) numiter)
    (h : minimizeLocalEnergy k L R W A numiter = .ok (en, Aopt)) :
    Aopt.d0 = A.d0 ∧ Aopt.d1 = A.d1 ∧ Aopt.d2 = A.d2 ∧ frob3 Aopt = 1 ∧ 0 < frob3 A ∧
    (∀ T, Op.applyLocalHamiltonian L R W Aopt = .ok T → inner3 Aopt T = ((en : ℝ) : 𝕜)) ∧
    (∀ T, Op.applyLocalHamiltonian L R W A = .ok T → en * frob3 A ≤ RCLike.re (inner3 A T)) ∧
    (∀ μ : ℝ, (∀ X T : T3 𝕜, X.d0 = A.d0 → X.d1 = A.d1 → X.d2 = A.d2 → Op.applyLocalHamiltonian L R W X = .ok T →
        μ * frob3 X ≤ RCLike.re (inner3 X T)) → μ ≤ en) := by
  obtain ⟨ws, u, hk, rfl, hun, rfl⟩ := minimize_unfold h
  have hA := isHermitian_localHFun hF hH
  have hM := actsAs_localHFun hF
  have hHM := herm_matrix_of_actsAs hA hM
  rw [← length_flat3 A] at hA hM hHM
  obtain ⟨hum, hwl, hr⟩ := C15.ritz_vectors hN hM hHM hE hk
  obtain ⟨hpos, hup, _⟩ := C15.ritz_upper hN hA hE (Nat.le_refl 1) hk
  have hun' : 0 < u.n := Nat.pos_of_ne_zero hun
  obtain ⟨h1, h2⟩ := hr 0 0 hun' hun'
  rw [if_pos rfl] at h1 h2
  rw [length_flat3] at hum
  have hcl : (matCol u 0).length = A.d0 * A.d1 * A.d2 := by simp [matCol, hum]
  set Aopt := (unflat3 (matCol u 0) A.d0 A.d1 A.d2).tab with hAopt
  have hfl : flat3 Aopt = matCol u 0 := flat3_unflat3_tab hcl
  have hF1 : LocalFits L R W Aopt.d0 Aopt.d1 Aopt.d2 := hF
  refine ⟨rfl, rfl, rfl, ?_, ?_, ?_, ?_, ?_⟩
  · rw [← sqNorm_flat3, hfl]
    have := vdot_self (matCol u 0)
    rw [hcl, ← hum, h1] at this
    exact_mod_cast this.symm
  · rw [← sqNorm_flat3]; exact hpos
  · intro T hT
    obtain ⟨_, hT', t0, t1, t2, _⟩ := applyLocal_ker hF (A := Aopt) rfl rfl rfl
    rw [hT] at hT'; injection hT' with hT'; subst hT'
    have e1 := localHFun_flat3 hF1 hT
    rw [hfl] at e1
    have e1' : localHFun L R W A.d0 A.d1 A.d2 (matCol u 0) = flat3 T := e1
    rw [e1', hum] at h2
    have h3 := vdot_flat3 (B := Aopt) (A := T) t0.symm t1.symm t2.symm
    rw [hfl, t0, t1, t2] at h3
    rw [← h3, h2]
  · intro T hT
    obtain ⟨_, hT', t0, t1, t2, _⟩ := applyLocal_ker hF (A := A) rfl rfl rfl
    rw [hT] at hT'; injection hT' with hT'; subst hT'
    rw [localHFun_flat3 hF hT, sqNorm_flat3, length_flat3] at hup
    have h3 := vdot_flat3 (B := A) (A := T) t0.symm t1.symm t2.symm
    rw [t0, t1, t2] at h3
    rw [h3] at hup
    exact hup
  · intro μ hμ
    refine C15.ritz_lower hN hM hHM hE (Nat.le_refl 1) ?_ hk
    intro x hx
    rw [length_flat3] at hx ⊢
    obtain ⟨T, hT, e, t0, t1, t2⟩ := localHFun_eq hF x
    have := hμ (unflat3 x A.d0 A.d1 A.d2) T rfl rfl rfl hT
    rw [← sqNorm_flat3, flat3_unflat3 hx] at this
    rw [e, vdot_flat3_right t0 t1 t2 hx]
    exact this

end Ptn.Evo
